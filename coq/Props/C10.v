(* Props/C10.v — Duration arithmetic agrees with timedelta arithmetic.
   Only theorem statements; every proof is `exact <lemma>` (Proofs/C10Facts.v).
   Model: Model/DurationOps.v assembled from the TRANSLATED Gen/DurationOps.v (py_divide_and_round, py_Duration_to_microseconds,
   py_timedelta_to_microseconds_duration / _plain, the integer
   constructor arguments of every operator branch, py_return_table) and hand-modelled SpecFloat parts; equal to /repo's duration.py / interval.py
   on every run by correspondence (both backends).  Notation: d_N = native timedelta value in microseconds; YM y m = 365 y + 30 m days;
   exact0 d : the stored (_days, _seconds, _microseconds) hold exactly d_N d (what Duration.__new__ gives without years / months while its
   float normalisation is exact: C09, |N| < 2^33 s);  exact_ym d : they hold d_N d minus the year / month days.
   same_length r t : Duration result r against the plain-timedelta result t of timedelta's own operator (td_binop) on the native values.
   Float premises addsub_float_exact / mul_float_exact (below 2^31 s) and C09's float_split_exact_on_D9 are explicit arguments of the *_partial
   forms (which depend on no axiom); all three are THEOREMS (Proofs/FloatRoundTripC10.v, Proofs/FloatRoundTripC09.v, through Flocq) and the
   unconditional forms are stated at the end of this file. *)
From Coq Require Import ZArith List Bool.
From Coq Require Import Floats.SpecFloat.
From PV Require Import Lib.PyBase Spec.TdFloat Gen.Constants Model.Duration Gen.DurationOps Model.DurationOps Proofs.C09Facts Proofs.C10Facts Proofs.C10History Proofs.FloatRoundTripC09 Proofs.FloatRoundTripC10 Proofs.C10Reflected Proofs.C10Subclass.
Import ListNotations.
Open Scope Z_scope.

(* ---- the translated helpers *)
(* _divide_and_round(a, b) is THE integer nearest to a / b, ties to the even one — all integers a, all b <> 0, stated without division:
   nearest_even a b q  :=  2 |a - q b| <= |b|  /\  (2 |a - q b| = |b|  ->  q mod 2 = 0) *)
Theorem divide_and_round_spec : forall a b q, b <> 0 -> (py_divide_and_round a b = q <-> nearest_even a b q).
Proof. exact divide_and_round_characterised. Qed.
Print Assumptions divide_and_round_spec.

(* _to_microseconds() of what the constructor stores (integer skeleton of C09) is the native length minus the year / month days *)
Theorem to_microseconds_spec : forall N total y mo sig, exact_ym (exact_dur N total y mo sig).
Proof. exact to_microseconds_exact_dur. Qed.
Print Assumptions to_microseconds_spec.

Theorem to_microseconds_constructed_partial : float_split_exact_on_D9 ->
  forall d s us ms mi h w y mo r,
  duration_new d s us ms mi h w y mo = Ok r -> D9 (d_N r) (YM y mo * 86400) -> exact_ym r.
Proof. exact to_microseconds_constructed. Qed.
Print Assumptions to_microseconds_constructed_partial.

(* float.as_integer_ratio(): x = a / b exactly *)
Theorem as_integer_ratio_spec : forall s m e a b, py_as_integer_ratio (S754_finite s m e) = Ok (a, b) ->
  0 < b /\ (0 <= e -> a = cond_neg s (Zpos m * 2 ^ e) /\ b = 1) /\ (e < 0 -> a * 2 ^ (- e) = cond_neg s (Zpos m) * b).
Proof. exact as_integer_ratio_exact. Qed.
Print Assumptions as_integer_ratio_spec.

(* ---- negation and integer scaling act component-wise on years and months; negation negates the length *)
Theorem neg_componentwise : forall d r, dur_neg d = Ok r ->
  d_years r = - d_years d /\ d_months r = - d_months d
  /\ d_N r = - (((d_weeks d * 7 + d_rdays d) * 86400 + d_seconds d) * 1000000 + d_micro d + YM (d_years d) (d_months d) * DAYUS)
  /\ (exact_ym d -> d_N r = - d_N d).
Proof. exact neg_spec. Qed.
Print Assumptions neg_componentwise.

Theorem mul_int_spec : forall d k r, dur_mul d (VInt k) = Ok (RDur r) ->
  d_years r = d_years d * k /\ d_months r = d_months d * k
  /\ exists n0, d_N r = n0 + YM (d_years d * k) (d_months d * k) * DAYUS.
Proof. exact mul_int_years_months. Qed.
Print Assumptions mul_int_spec.

(* ---- division by an int / scaling by a float: exact integer arithmetic on _to_microseconds() *)
Theorem floordiv_int_spec : forall d k r, dur_floordiv d (VInt k) = Ok (RDur r) ->
  k <> 0 /\ d_years r = d_years d / k /\ d_months r = d_months d / k
  /\ d_N r = py_Duration_to_microseconds d / k + YM (d_years d / k) (d_months d / k) * DAYUS.
Proof. exact C10Facts.floordiv_int_spec. Qed.
Print Assumptions floordiv_int_spec.

Theorem floordiv_int_agrees : forall d k r, exact0 d -> d_years d = 0 -> d_months d = 0 ->
  dur_floordiv d (VInt k) = Ok (RDur r) -> d_N r = d_N d / k /\ d_years r = 0 /\ d_months r = 0.
Proof. exact floordiv_int_exact. Qed.
Print Assumptions floordiv_int_agrees.

Theorem truediv_int_spec : forall d k r, dur_truediv d (VInt k) = Ok (RDur r) ->
  k <> 0 /\ d_years r = py_divide_and_round (d_years d) k /\ d_months r = py_divide_and_round (d_months d) k
  /\ d_N r = py_divide_and_round (py_Duration_to_microseconds d) k
             + YM (py_divide_and_round (d_years d) k) (py_divide_and_round (d_months d) k) * DAYUS.
Proof. exact C10Facts.truediv_int_spec. Qed.
Print Assumptions truediv_int_spec.

(* timedelta / int is round-half-even of the exact quotient: so is Duration / int *)
Theorem truediv_int_agrees : forall d k r, exact0 d -> d_years d = 0 -> d_months d = 0 ->
  dur_truediv d (VInt k) = Ok (RDur r) -> nearest_even (d_N d) k (d_N r) /\ d_years r = 0 /\ d_months r = 0.
Proof. exact truediv_int_exact. Qed.
Print Assumptions truediv_int_agrees.

Theorem mul_float_spec : forall d x r, dur_mul d (VFloat x) = Ok (RDur r) ->
  exists a b, py_as_integer_ratio x = Ok (a, b)
    /\ d_N r = py_divide_and_round (py_Duration_to_microseconds d * a) b /\ d_years r = 0 /\ d_months r = 0.
Proof. exact C10Facts.mul_float_spec. Qed.
Print Assumptions mul_float_spec.

Theorem truediv_float_spec : forall d x r, dur_truediv d (VFloat x) = Ok (RDur r) ->
  exists a b mo, py_as_integer_ratio x = Ok (a, b) /\ a <> 0 /\ divide_and_round_float (d_months d) x = Ok mo
    /\ d_years r = py_divide_and_round (d_years d * b) a /\ d_months r = mo
    /\ d_N r = py_divide_and_round (b * py_Duration_to_microseconds d) a + YM (d_years r) mo * DAYUS.
Proof. exact C10Facts.truediv_float_spec. Qed.
Print Assumptions truediv_float_spec.

(* ---- // / % divmod by another Duration or by a plain timedelta give what timedelta's own operators give on the native values *)
Theorem div_mod_by_duration_spec : forall m d d2 r, (m = 5 \/ m = 6 \/ m = 7 \/ m = 8) -> exact0 d -> exact0 d2 ->
  dur_method m d (VDur d2) = Ok r ->
  d_N d2 <> 0 /\ exists t, td_binop m (d_N d) (d_N d2) = Ok t /\ same_length r t.
Proof. exact C10Facts.div_mod_by_duration_spec. Qed.
Print Assumptions div_mod_by_duration_spec.

Theorem div_by_zero_duration_raises : forall m d d2, (m = 5 \/ m = 6 \/ m = 7 \/ m = 8) -> py_Duration_to_microseconds d2 = 0 ->
  dur_method m d (VDur d2) = Raise E_ZeroDivisionError.
Proof. exact div_by_zero_duration. Qed.
Print Assumptions div_by_zero_duration_raises.

(* ... and by a PLAIN datetime.timedelta (the divisor is _timedelta_to_microseconds(other): the microseconds of the timedelta's public
   days / seconds / microseconds) — the same statement as for a Duration operand *)
Theorem div_mod_by_timedelta_spec : forall m d n r, (m = 5 \/ m = 6 \/ m = 7 \/ m = 8) -> exact0 d ->
  dur_method m d (VTd n) = Ok r ->
  n <> 0 /\ exists t, td_binop m (d_N d) n = Ok t /\ same_length r t.
Proof. exact C10Facts.div_mod_by_timedelta_spec. Qed.
Print Assumptions div_mod_by_timedelta_spec.

Theorem div_by_zero_timedelta_raises : forall m d, (m = 5 \/ m = 6 \/ m = 7 \/ m = 8) -> dur_method m d (VTd 0) = Raise E_ZeroDivisionError.
Proof. exact div_by_zero_timedelta. Qed.
Print Assumptions div_by_zero_timedelta_raises.

(* "whether the other operand is a Duration or a plain timedelta": the plain timedelta of the same length gives literally the same
   outcome — value, Duration remainder or exception — for every left operand *)
Theorem div_mod_operand_kind_irrelevant : forall m d d2, (m = 5 \/ m = 6 \/ m = 7 \/ m = 8) -> exact0 d2 ->
  dur_method m d (VTd (d_N d2)) = dur_method m d (VDur d2).
Proof. exact C10Facts.div_mod_operand_kind_irrelevant. Qed.
Print Assumptions div_mod_operand_kind_irrelevant.

(* // and / by a plain timedelta ARE timedelta's own operators on the native values (value and exception alike) *)
Theorem floordiv_truediv_by_timedelta_native : forall m d n, (m = 5 \/ m = 6) -> exact0 d ->
  dur_method m d (VTd n) = td_binop m (d_N d) n.
Proof. exact C10Facts.floordiv_truediv_by_timedelta_native. Qed.
Print Assumptions floordiv_truediv_by_timedelta_native.

(* the statement that was refuted before the repair (div_by_timedelta_refuted), now proved: whenever timedelta's own operator yields a
   value, the Duration operator yields the same one.  For % and divmod the remainder goes through Duration.__new__; that this
   construction succeeds is a fact about the constructor (C09), hence a hypothesis here, discharged below 2^33 s by the next theorem *)
Theorem div_by_timedelta_agrees : forall m d n t, (m = 5 \/ m = 6 \/ m = 7 \/ m = 8) -> exact0 d ->
  td_binop m (d_N d) n = Ok t ->
  (m = 7 \/ m = 8 -> exists r0, dur_of_us (d_N d mod n) = Ok r0) ->
  exists r, dur_method m d (VTd n) = Ok r /\ same_length r t.
Proof. exact C10Facts.div_by_timedelta_agrees. Qed.
Print Assumptions div_by_timedelta_agrees.

Theorem remainder_constructible_partial : float_split_exact_on_D9 -> forall u, Z.abs u < B33 -> exists r0, dur_of_us u = Ok r0.
Proof. exact remainder_constructible. Qed.
Print Assumptions remainder_constructible_partial.

(* the former witness 3 days // 5 hours (AttributeError before the repair) now computes the native 14, 14.4, 2 h, (14, 2 h) *)
Theorem div_by_timedelta_example : exists d r7 r8,
  duration_new 3 0 0 0 0 0 0 0 0 = Ok d /\ exact0 d
  /\ dur_method 5 d (VTd 18000000000) = Ok (RInt 14) /\ td_binop 5 (d_N d) 18000000000 = Ok (RInt 14)
  /\ dur_method 6 d (VTd 18000000000) = td_binop 6 (d_N d) 18000000000
  /\ dur_method 7 d (VTd 18000000000) = Ok (RDur r7) /\ d_N r7 = 7200000000
  /\ dur_method 8 d (VTd 18000000000) = Ok (RPair 14 r8) /\ d_N r8 = 7200000000.
Proof. exact div_by_timedelta_witness. Qed.
Print Assumptions div_by_timedelta_example.

(* ---- + - and int scaling: through float seconds; exact below 2^31 s given the float premises *)
Theorem add_exact_partial : addsub_float_exact -> forall d o n2 r, native_len o = Some n2 ->
  Z.abs (d_N d) < B31 -> Z.abs n2 < B31 -> Z.abs (d_N d + n2) < B31 ->
  dur_add d o = Ok (RDur r) -> d_N r = d_N d + n2 /\ d_years r = 0 /\ d_months r = 0.
Proof. exact C10Facts.add_exact_partial. Qed.
Print Assumptions add_exact_partial.

Theorem sub_exact_partial : addsub_float_exact -> forall d o n2 r, native_len o = Some n2 ->
  Z.abs (d_N d) < B31 -> Z.abs n2 < B31 -> Z.abs (d_N d - n2) < B31 ->
  dur_sub d o = Ok (RDur r) -> d_N r = d_N d - n2 /\ d_years r = 0 /\ d_months r = 0.
Proof. exact C10Facts.sub_exact_partial. Qed.
Print Assumptions sub_exact_partial.

Theorem mul_int_exact_partial : mul_float_exact -> forall d k r, d_years d = 0 -> d_months d = 0 -> d_total d = total_seconds (d_N d) ->
  Z.abs (d_N d) < B31 -> Z.abs (k * d_N d) < B31 ->
  dur_mul d (VInt k) = Ok (RDur r) -> d_N r = k * d_N d /\ d_years r = 0 /\ d_months r = 0.
Proof. exact C10Facts.mul_int_exact_partial. Qed.
Print Assumptions mul_int_exact_partial.

(* the hypothesis d_total = total_seconds(d_N) holds for every constructed Duration without years / months *)
Theorem total_is_total_seconds : forall d s us ms mi h w r, duration_new d s us ms mi h w 0 0 = Ok r -> d_total r = total_seconds (d_N r).
Proof. exact dur_new_total0. Qed.
Print Assumptions total_is_total_seconds.

Theorem addsub_premise_samples :
  Forall (fun p => td_us_of_float_seconds (fadd (total_seconds (fst p)) (total_seconds (snd p))) = Ok (fst p + snd p)
                   /\ td_us_of_float_seconds (fsub (total_seconds (fst p)) (total_seconds (snd p))) = Ok (fst p - snd p))
         [(1, 2); (-1, 1); (999999, 1); (100000, 200000); (1073741823999999, 1073741823999999); (-1073741823999999, 1); (86400000000, -1);
          (2147483647999999, -2147483647999998); (1500000, -2500001); (3, 1000000000000000)].
Proof. exact addsub_float_exact_samples. Qed.
Print Assumptions addsub_premise_samples.

(* CURRENT CODE: without the bound the claim is false — from 2^31 s the float sum / product loses a microsecond *)
Theorem add_sub_exact_refuted : exists d1 d2 r,
  dur_of_us (-2240990336911072) = Ok d1 /\ dur_of_us (-564728395307133) = Ok d2 /\ exact0 d1 /\ exact0 d2
  /\ dur_add d1 (VDur d2) = Ok (RDur r) /\ d_N r <> d_N d1 + d_N d2 /\ Z.abs (d_N d1 + d_N d2) < 2 * B31.
Proof. exact add_exact_refuted. Qed.
Print Assumptions add_sub_exact_refuted.

Theorem mul_int_exact_refuted : exists d r,
  dur_of_us (-4433329909397) = Ok d /\ exact0 d /\ dur_mul d (VInt 617) = Ok (RDur r) /\ d_N r <> 617 * d_N d.
Proof. exact C10Facts.mul_int_exact_refuted. Qed.
Print Assumptions mul_int_exact_refuted.

(* CURRENT CODE (finding float-total-resolution, the region with years / months): `* int` scales the float _total, the year-free part, so a
   Duration whose native length is 0.924991 s but whose year-free part is 50112000.924991 s is 3 us off after * -1000 (years, months exact) *)
Theorem mul_int_with_years_refuted : exists d r,
  duration_new 0 0 50112000924991 0 0 0 0 (-2) 5 = Ok d /\ d_N d = 924991 /\ exact_ym d
  /\ dur_mul d (VInt (-1000)) = Ok (RDur r) /\ d_years r = 2000 /\ d_months r = -5000
  /\ d_N r = -1000 * d_N d + 3 /\ Z.abs (-1000 * d_N d) < B31.
Proof. exact C10History.mul_int_with_years_refuted. Qed.
Print Assumptions mul_int_with_years_refuted.

(* ---- the return-type table *)
(* every Duration method returns what the table GENERATED from the isinstance tests of duration.py says for that operand kind *)
Theorem return_table : forall m d o r, In m [1; 2; 4; 5; 6; 7; 8] -> dur_method m d o = Ok r ->
  In (m, kind_of_value o, kind_of_res r) py_return_table.
Proof. exact return_table_agrees. Qed.
Print Assumptions return_table.

(* no AttributeError entry in the generated table: no operand kind makes a method touch a Duration-private attribute of `other` *)
Theorem no_attribute_error_in_table : forall m k, ~ In (m, k, 6) py_return_table.
Proof. exact C10Facts.no_attribute_error_in_table. Qed.
Print Assumptions no_attribute_error_in_table.

(* a binary operator with a Duration / an Interval on the left returns a Duration (int, float, (int, Duration) for // / divmod by a Duration
   or a plain timedelta):
   never a plain timedelta, never NotImplemented (that becomes TypeError) *)
Theorem result_is_duration : forall m d o res, is_arith m = true -> arith_op m (VDur d) o = Ok res -> duration_kind m o res.
Proof. exact duration_left_result. Qed.
Print Assumptions result_is_duration.

Theorem result_is_duration_interval : forall m i o res, is_arith m = true -> arith_op m (VIvl i) o = Ok res -> duration_kind m o res.
Proof. exact interval_left_result. Qed.
Print Assumptions result_is_duration_interval.

Theorem timedelta_plus_duration_is_duration : forall n d res, arith_op 1 (VTd n) (VDur d) = Ok res -> exists r, res = RDur r.
Proof. exact timedelta_plus_duration. Qed.
Print Assumptions timedelta_plus_duration_is_duration.

Theorem negation_is_duration : forall d res, unop 3 (VDur d) = Ok res -> exists r, res = RDur r /\ dur_neg d = Ok r.
Proof. exact neg_is_duration. Qed.
Print Assumptions negation_is_duration.

(* not in the statement's list, and indeed plain timedeltas (of the exact length): timedelta - Duration, abs(Duration) *)
Theorem timedelta_minus_duration_is_plain : forall n d, td_in_range (n - d_N d) = true -> arith_op 2 (VTd n) (VDur d) = Ok (RTd (n - d_N d)).
Proof. exact timedelta_minus_duration. Qed.
Print Assumptions timedelta_minus_duration_is_plain.

Theorem abs_is_plain_exact : forall d, unop 9 (VDur d) = Ok (RTd (Z.abs (d_N d))).
Proof. exact abs_is_plain_timedelta. Qed.
Print Assumptions abs_is_plain_exact.

(* ---- Interval delegates to as_duration() *)
Theorem interval_delegates_to_as_duration : forall m i o, is_arith m = true ->
  arith_op m (VIvl i) o = bind (as_duration i) (fun d => arith_op m (VDur d) o).
Proof. exact interval_delegates_arith. Qed.
Print Assumptions interval_delegates_to_as_duration.

(* ---- == , ordering and hash are timedelta's, on the native values (years / months included) *)
Theorem compare_agrees_with_timedelta : forall m a b, native_of a <> None -> native_of b <> None ->
  exists x y, native_of a = Some x /\ native_of b = Some y /\ cmp_op m a b = Ok (td_compare m x y).
Proof. exact compare_is_native. Qed.
Print Assumptions compare_agrees_with_timedelta.

Theorem eq_iff_same_length : forall d n, cmp_op 10 (VDur d) (VTd n) = Ok (RBool true) <-> d_N d = n.
Proof. exact eq_iff_native. Qed.
Print Assumptions eq_iff_same_length.

Theorem lt_iff_shorter : forall d1 d2, cmp_op 12 (VDur d1) (VDur d2) = Ok (RBool true) <-> d_N d1 < d_N d2.
Proof. exact lt_iff_native. Qed.
Print Assumptions lt_iff_shorter.

Theorem hash_of_equal_lengths : forall d1 d2, d_N d1 = d_N d2 -> unop 17 (VDur d1) = unop 17 (VDur d2).
Proof. exact hash_is_native. Qed.
Print Assumptions hash_of_equal_lengths.

(* ---- satisfiability of the hypotheses / ties *)
Theorem truediv_ties_examples : exists d5 d7 dm5 r5 r7 rm5,
  dur_of_us 5 = Ok d5 /\ dur_of_us 7 = Ok d7 /\ dur_of_us (-5) = Ok dm5
  /\ dur_truediv d5 (VInt 2) = Ok (RDur r5) /\ d_N r5 = 2
  /\ dur_truediv d7 (VInt 2) = Ok (RDur r7) /\ d_N r7 = 4
  /\ dur_truediv dm5 (VInt (-2)) = Ok (RDur rm5) /\ d_N rm5 = 2.
Proof. exact truediv_ties. Qed.
Print Assumptions truediv_ties_examples.

Theorem neg_with_years_example : exists d r,
  duration_new 4 (-1) 0 0 0 0 0 2 (-3) = Ok d /\ exact_ym d /\ dur_neg d = Ok r
  /\ d_years r = -2 /\ d_months r = 3 /\ d_N r = - d_N d.
Proof. exact neg_years_example. Qed.
Print Assumptions neg_with_years_example.

Theorem divmod_example : exists d1 d2 r,
  duration_new 3 5 7 0 0 0 0 0 0 = Ok d1 /\ duration_new 0 0 (-3) 0 0 (-5) 0 0 0 = Ok d2 /\ exact0 d1 /\ exact0 d2
  /\ dur_method 8 d1 (VDur d2) = Ok (RPair (-15) r) /\ d_N r = d_N d1 mod d_N d2.
Proof. exact mod_divmod_example. Qed.
Print Assumptions divmod_example.

(* ---- a whole PROCESS: several operator calls one after the other (Model/DurationOps.run_history; the history streams run it against
   one interpreter).  The operators keep no state: the only thing a call sees of the calls before it is an object handed on (ORef). *)
(* what has been returned is never revised by later calls *)
Theorem history_prefix_stable : forall h t, run_history (h ++ t) = run_history h ++ run_from (run_history h) t.
Proof. exact C10History.history_prefix_stable. Qed.
Print Assumptions history_prefix_stable.

(* a call on freshly constructed operands gives the same outcome after ANY two histories (and whatever follows): that of the call alone *)
Theorem result_independent_of_history : forall h1 t1 h2 t2 s, literal_step s ->
  nth_error (run_history (h1 ++ s :: t1)) (length h1) = Some (eval_step [] s)
  /\ nth_error (run_history (h2 ++ s :: t2)) (length h2) = Some (eval_step [] s).
Proof. exact C10History.result_independent_of_history. Qed.
Print Assumptions result_independent_of_history.

(* ... and that outcome is the single-operator model `binop` of all the theorems above; in particular after a first call that raised *)
Theorem history_step_is_binop : forall env m a b, is_pendulum a || is_pendulum b = true ->
  eval_step env (HBin m (OLit (Ok a)) (OLit (Ok b))) = binop m a b.
Proof. exact literal_binop_step. Qed.
Print Assumptions history_step_is_binop.

Theorem earlier_call_leaves_no_trace : forall first m a b, is_pendulum a || is_pendulum b = true ->
  run_history [first; HBin m (OLit (Ok a)) (OLit (Ok b))] = [eval_step [] first; binop m a b].
Proof. exact C10History.earlier_call_leaves_no_trace. Qed.
Print Assumptions earlier_call_leaves_no_trace.

(* Duration or plain timedelta as the divisor: the same outcome at every position of every history *)
Theorem history_divisor_kind_irrelevant : forall h t1 t2 m d d2, (m = 5 \/ m = 6 \/ m = 7 \/ m = 8) -> exact0 d2 ->
  nth_error (run_history (h ++ HBin m (OLit (Ok (VDur d))) (OLit (Ok (VTd (d_N d2)))) :: t1)) (length h)
  = nth_error (run_history (h ++ HBin m (OLit (Ok (VDur d))) (OLit (Ok (VDur d2))) :: t2)) (length h).
Proof. exact C10History.history_divisor_kind_irrelevant. Qed.
Print Assumptions history_divisor_kind_irrelevant.

(* reading every accessor of a Duration hands on the same object *)
Theorem touch_hands_on_the_object : forall d m o, is_pendulum (VDur d) || is_pendulum o = true ->
  run_history [HUn M_TOUCH (OLit (Ok (VDur d))); HBin m (ORef 0) (OLit (Ok o))] = [Ok (RDur d); binop m (VDur d) o].
Proof. exact C10History.touch_hands_on_the_object. Qed.
Print Assumptions touch_hands_on_the_object.

(* an object handed on: the Duration that d % n returns, divided again (// or /), gives what timedelta gives on the native remainder
   (C09's float premise for the construction of the remainder; |n| < 2^33 s) *)
Theorem chain_mod_then_div_partial : float_split_exact_on_D9 ->
  forall d n k m, (m = 5 \/ m = 6) -> exact0 d -> n <> 0 -> Z.abs n < B33 ->
  exists r, run_history [HBin 7 (OLit (Ok (VDur d))) (OLit (Ok (VTd n))); HBin m (ORef 0) (OLit (Ok (VTd k)))]
            = [Ok (RDur r); td_binop m (d_N d mod n) k]
            /\ d_N r = d_N d mod n /\ exact0 r.
Proof. exact chain_mod_then_div. Qed.
Print Assumptions chain_mod_then_div_partial.

(* a concrete process: x = Duration(days=1000, seconds=5, microseconds=7) divided first by Duration(years=1, days=1) [== timedelta(days=366)],
   then // and % timedelta(days=366) give timedelta's 2 and 268 d 5.000007 s; the remainder OBJECT // 1 s = 23155205; touching it returns it *)
Theorem history_example : exists x a r,
  duration_new 1000 5 7 0 0 0 0 0 0 = Ok x /\ exact0 x /\ duration_new 1 0 0 0 0 0 0 1 0 = Ok a /\ d_N a = 366 * DAYUS
  /\ run_history [HBin 5 (OLit (Ok (VDur x))) (OLit (Ok (VDur a)));
                  HBin 5 (OLit (Ok (VDur x))) (OLit (Ok (VTd (366 * DAYUS))));
                  HBin 7 (OLit (Ok (VDur x))) (OLit (Ok (VTd (366 * DAYUS))));
                  HBin 5 (ORef 2) (OLit (Ok (VTd 1000000)));
                  HUn M_TOUCH (ORef 2)]
     = [Ok (RInt 1000); Ok (RInt 2); Ok (RDur r); Ok (RInt 23155205); Ok (RDur r)]
  /\ d_N r = d_N x mod (366 * DAYUS) /\ exact0 r /\ td_binop 5 (d_N x) (366 * DAYUS) = Ok (RInt 2).
Proof. exact C10History.history_example. Qed.
Print Assumptions history_example.

(* ---- why histories.  COUNTER-MODEL memo_divisors: the divisor conversion behind a memo keyed by what timedelta's == / hash see.
   It is invisible while every operand's conversion is its native length (plain timedeltas, Durations without years / months) ... *)
Theorem divisor_memo_transparent_without_years : forall os,
  (forall o k, In o os -> td_key o = Some k -> divisor_us o = Some k) -> memo_divisors [] os = map divisor_us os.
Proof. exact memo_transparent_without_years. Qed.
Print Assumptions divisor_memo_transparent_without_years.

Theorem divisor_of_year_free_operands : (forall d, exact0 d -> td_key (VDur d) = Some (d_N d) /\ divisor_us (VDur d) = Some (d_N d))
  /\ (forall n, td_key (VTd n) = Some n /\ divisor_us (VTd n) = Some n).
Proof. exact (conj exact0_key_is_divisor plain_key_is_divisor). Qed.
Print Assumptions divisor_of_year_free_operands.

(* ... and wrong as soon as ONE Duration with years converted earlier: Duration(years=1, days=1) == timedelta(days=366) poisons 366 days *)
Theorem divisor_memo_by_timedelta_eq_refuted : exists d,
  duration_new 1 0 0 0 0 0 0 1 0 = Ok d /\ d_N d = 366 * DAYUS
  /\ map divisor_us [VDur d; VTd (366 * DAYUS)] = [Some DAYUS; Some (366 * DAYUS)]
  /\ memo_divisors [] [VDur d; VTd (366 * DAYUS)] = [Some DAYUS; Some DAYUS]
  /\ memo_divisors [] [VTd (366 * DAYUS); VDur d] = [Some (366 * DAYUS); Some (366 * DAYUS)].
Proof. exact memo_by_timedelta_eq_refuted. Qed.
Print Assumptions divisor_memo_by_timedelta_eq_refuted.


(* ---- C09's float premise float_split_exact_on_D9 is a THEOREM (Proofs/FloatRoundTripC09.v, through Flocq's binary64 correctness): the statements above that carry it
   hold unconditionally.  Print Assumptions lists the standard-library real-number axioms these rest on; the *_partial forms above depend on nothing. *)
Theorem to_microseconds_constructed :
  forall d s us ms mi h w y mo r,
  duration_new d s us ms mi h w y mo = Ok r -> D9 (d_N r) (YM y mo * 86400) -> exact_ym r.
Proof. exact (C10Facts.to_microseconds_constructed float_split_exact_on_D9_proved). Qed.
Print Assumptions to_microseconds_constructed.

Theorem remainder_constructible : forall u, Z.abs u < B33 -> exists r0, dur_of_us u = Ok r0.
Proof. exact (C10Facts.remainder_constructible float_split_exact_on_D9_proved). Qed.
Print Assumptions remainder_constructible.

Theorem chain_mod_then_div :
  forall d n k m, (m = 5 \/ m = 6) -> exact0 d -> n <> 0 -> Z.abs n < B33 ->
  exists r, run_history [HBin 7 (OLit (Ok (VDur d))) (OLit (Ok (VTd n))); HBin m (ORef 0) (OLit (Ok (VTd k)))]
            = [Ok (RDur r); td_binop m (d_N d mod n) k]
            /\ d_N r = d_N d mod n /\ exact0 r.
Proof. exact (C10History.chain_mod_then_div float_split_exact_on_D9_proved). Qed.
Print Assumptions chain_mod_then_div.

(* ---- the float premises addsub_float_exact / mul_float_exact are THEOREMS as well (Proofs/FloatRoundTripC10.v: total_seconds is within half an
   ulp = 2^-23 s below 2^31 s, resp. within 2^-53 relatively; the float sum / difference / product is below 2^32 s and rounds within 2^-22 s;
   a finite double within 2^-21 s of R microseconds converts to exactly R, Proofs/FloatRoundTripNear.v): + - and int scaling are exact below
   2^31 s unconditionally.  Print Assumptions lists the standard-library real-number axioms these rest on. *)
Theorem add_exact : forall d o n2 r, native_len o = Some n2 ->
  Z.abs (d_N d) < B31 -> Z.abs n2 < B31 -> Z.abs (d_N d + n2) < B31 ->
  dur_add d o = Ok (RDur r) -> d_N r = d_N d + n2 /\ d_years r = 0 /\ d_months r = 0.
Proof. exact (C10Facts.add_exact_partial addsub_float_exact_proved). Qed.
Print Assumptions add_exact.

Theorem sub_exact : forall d o n2 r, native_len o = Some n2 ->
  Z.abs (d_N d) < B31 -> Z.abs n2 < B31 -> Z.abs (d_N d - n2) < B31 ->
  dur_sub d o = Ok (RDur r) -> d_N r = d_N d - n2 /\ d_years r = 0 /\ d_months r = 0.
Proof. exact (C10Facts.sub_exact_partial addsub_float_exact_proved). Qed.
Print Assumptions sub_exact.

Theorem mul_int_exact : forall d k r, d_years d = 0 -> d_months d = 0 -> d_total d = total_seconds (d_N d) ->
  Z.abs (d_N d) < B31 -> Z.abs (k * d_N d) < B31 ->
  dur_mul d (VInt k) = Ok (RDur r) -> d_N r = k * d_N d /\ d_years r = 0 /\ d_months r = 0.
Proof. exact (C10Facts.mul_int_exact_partial mul_float_exact_proved). Qed.
Print Assumptions mul_int_exact.

(* ---- THE MODEL IS THE CODE (operators).  Gen/DurationOpsFloat.v is translated WHOLE from /repo's src/pendulum/duration.py and interval.py on
   every run by tools/vlib/pyfloat2gallina.py (each operator method once per class of `other` — int, float, Duration, plain timedelta — with
   its isinstance tests decided from that class, CPython's int/float typing, evaluation order, every raising operation — ZeroDivisionError of
   // % divmod and _divide_and_round, OverflowError of int -> float, the constructors — a bind; NotImplemented = RNotImpl).  The hand model
   Model/DurationOps.v, about which every theorem above speaks, EQUALS that translation for all operands of class exactly Duration / Interval
   (d_abs = false where the method calls total_seconds(): AbsoluteDuration operands are outside this model).
   class_ok o: a Duration / Interval operand is not an AbsoluteDuration.  dur_method m d o / unop 3 / durlike_method m true are the entries of
   binop / unop for a Duration resp. Interval on the left (arith_op, above: NotImplemented then becomes TypeError). *)
From PV Require Import Spec.TdFloatMixed Gen.DurationFloat Gen.DurationOpsFloat Proofs.DurationOpsFloatFacts.

(* the constructor behind + - * : Duration(seconds=<float>, years=, months=), translated from Duration.__new__ with the mixed timedelta constructor
   of Spec/TdFloatMixed.v (CPython's accum(): float seconds, then integer days, then the half-even rounding of the left-over into the total) ... *)
Theorem model_is_code_duration_new_fsec : forall x y mo, gen_duration_new_fsec x y mo = duration_new_fsec x y mo.
Proof. exact gen_duration_new_fsec_eq. Qed.
Print Assumptions model_is_code_duration_new_fsec.

(* ... whose integer days add exactly: the parity that breaks a tie of the left-over is not disturbed by days * 86400 * 10^6 *)
Theorem mixed_constructor_days_exact : forall D x,
  td_us_of_days_fsec D x = bind (td_us_of_float_seconds x) (fun n0 => Ok (n0 + D * US_PER_DAY)).
Proof. exact td_us_of_days_fsec_shift. Qed.
Print Assumptions mixed_constructor_days_exact.

(* _divide_and_round translated with its ZeroDivisionError = the integer translation used above, and on (int, float) = the hand model *)
Theorem model_is_code_divide_and_round : forall a b y,
  gen_divide_and_round_int a b = (if b =? 0 then Raise E_ZeroDivisionError else Ok (py_divide_and_round a b)) /\
  gen_divide_and_round_float a y = divide_and_round_float a y.
Proof. intros a b y. exact (conj (gen_divide_and_round_int_eq a b) (gen_divide_and_round_float_eq a y)). Qed.
Print Assumptions model_is_code_divide_and_round.

Theorem model_is_code_duration_add : forall d o, d_abs d = false -> class_ok o -> gen_Duration_add d o = dur_method 1 d o.
Proof. exact gen_Duration_add_eq. Qed.
Print Assumptions model_is_code_duration_add.

Theorem model_is_code_duration_sub : forall d o, d_abs d = false -> class_ok o -> gen_Duration_sub d o = dur_method 2 d o.
Proof. exact gen_Duration_sub_eq. Qed.
Print Assumptions model_is_code_duration_sub.

Theorem model_is_code_duration_mul : forall d o, gen_Duration_mul d o = dur_method 4 d o.
Proof. exact gen_Duration_mul_eq. Qed.
Print Assumptions model_is_code_duration_mul.

Theorem model_is_code_duration_floordiv : forall d o, gen_Duration_floordiv d o = dur_method 5 d o.
Proof. exact gen_Duration_floordiv_eq. Qed.
Print Assumptions model_is_code_duration_floordiv.

Theorem model_is_code_duration_truediv : forall d o, gen_Duration_truediv d o = dur_method 6 d o.
Proof. exact gen_Duration_truediv_eq. Qed.
Print Assumptions model_is_code_duration_truediv.

Theorem model_is_code_duration_mod : forall d o, gen_Duration_mod d o = dur_method 7 d o.
Proof. exact gen_Duration_mod_eq. Qed.
Print Assumptions model_is_code_duration_mod.

Theorem model_is_code_duration_divmod : forall d o, gen_Duration_divmod d o = dur_method 8 d o.
Proof. exact gen_Duration_divmod_eq. Qed.
Print Assumptions model_is_code_duration_divmod.

Theorem model_is_code_duration_neg : forall d, gen_Duration_neg d = unop 3 (VDur d).
Proof. exact gen_Duration_neg_eq. Qed.
Print Assumptions model_is_code_duration_neg.

(* Interval.<op>(other) = self.as_duration().<op>(other), as_duration() = Duration(seconds=self.total_seconds()) *)
Theorem model_is_code_interval_ops : forall i o, d_abs i = false -> class_ok o ->
  gen_Interval_add i o = durlike_method 1 true i o /\ gen_Interval_sub i o = durlike_method 2 true i o /\
  gen_Interval_mul i o = durlike_method 4 true i o /\ gen_Interval_floordiv i o = durlike_method 5 true i o /\
  gen_Interval_truediv i o = durlike_method 6 true i o /\ gen_Interval_mod i o = durlike_method 7 true i o /\
  gen_Interval_divmod i o = durlike_method 8 true i o.
Proof. exact gen_Interval_ops_eq. Qed.
Print Assumptions model_is_code_interval_ops.

(* the hypotheses are satisfiable: every Duration the model constructs has d_abs = false *)
Theorem model_is_code_hyps : (forall d s us ms mi h w y mo r, duration_new d s us ms mi h w y mo = Ok r -> d_abs r = false)
  /\ (forall x y mo r, duration_new_fsec x y mo = Ok r -> d_abs r = false).
Proof. exact (conj duration_new_class duration_new_fsec_class). Qed.
Print Assumptions model_is_code_hyps.

(* ---- a plain timedelta on the LEFT, every kind of Interval on the right (Proofs/C10Reflected.v) ----
   inherited_reflected m: m is - // / % divmod, the operators whose reflected form neither Duration nor Interval defines (g50 fails closed if
   Duration starts defining one).  interval_new_abs delta a is Interval(start, start + delta, absolute=a) (hand model of the end-point swap of
   Interval.__new__, tied by the reflected-* / absolute-left-* / interval-unary streams); interval_neg / interval_abs are Interval.__neg__ / __abs__. *)
(* timedelta <op> P is timedelta's own arithmetic on the native length of P, and the class of P (Duration / Interval) is irrelevant *)
Theorem reflected_operators_are_native : forall m n d, inherited_reflected m = true ->
  arith_op m (VTd n) (VDur d) = not_impl_to_type_error (td_binop m n (d_N d)) /\
  arith_op m (VTd n) (VIvl d) = not_impl_to_type_error (td_binop m n (d_N d)).
Proof. exact reflected_is_native. Qed.
Print Assumptions reflected_operators_are_native.

Theorem reflected_operand_class_irrelevant : forall m n d, inherited_reflected m = true ->
  arith_op m (VTd n) (VIvl d) = arith_op m (VTd n) (VDur d).
Proof. exact reflected_class_irrelevant. Qed.
Print Assumptions reflected_operand_class_irrelevant.

Theorem timedelta_minus_interval_is_plain_exact : forall n i, td_in_range (n - d_N i) = true -> arith_op 2 (VTd n) (VIvl i) = Ok (RTd (n - d_N i)).
Proof. exact timedelta_minus_interval. Qed.
Print Assumptions timedelta_minus_interval_is_plain_exact.

(* an absolute Interval is the same object whichever end point is given first, and its native length is |end - start| *)
Theorem absolute_interval_order_irrelevant : forall delta, interval_new_abs delta true = interval_new_abs (- delta) true.
Proof. exact absolute_order_irrelevant. Qed.
Print Assumptions absolute_interval_order_irrelevant.

Theorem interval_native_length : forall delta a i, Z.abs delta < 2 ^ 33 * 10 ^ 6 -> interval_new_abs delta a = Ok i ->
  d_N i = if a then Z.abs delta else delta.
Proof. exact interval_new_abs_native. Qed.
Print Assumptions interval_native_length.

(* timedelta - <absolute Interval> = n - |end - start| (never n + |end - start|), in either order of the end points *)
Theorem timedelta_minus_absolute_interval_exact : forall n delta i, Z.abs delta < 2 ^ 33 * 10 ^ 6 -> td_in_range (n - Z.abs delta) = true ->
  interval_new_abs delta true = Ok i -> arith_op 2 (VTd n) (VIvl i) = Ok (RTd (n - Z.abs delta)).
Proof. exact timedelta_minus_absolute_interval. Qed.
Print Assumptions timedelta_minus_absolute_interval_exact.

Theorem timedelta_minus_absolute_interval_example :
  exists i, interval_new_abs (-282600000250) true = Ok i /\
            arith_op 2 (VTd 864000000000) (VIvl i) = Ok (RTd (864000000000 - 282600000250)).
Proof. exact reflected_example. Qed.
Print Assumptions timedelta_minus_absolute_interval_example.

(* -i: exact for a signed / inverted Interval; an absolute Interval is its own negation, which REFUTES "negation gives the native length"
   there (finding neg-absolute-interval); the partial form names the region where it holds *)
Theorem interval_negation_signed : forall delta i, Z.abs delta < 2 ^ 33 * 10 ^ 6 -> interval_neg delta false = Ok i -> d_N i = - delta.
Proof. exact interval_neg_signed. Qed.
Print Assumptions interval_negation_signed.

Theorem interval_negation_absolute_is_identity : forall delta, interval_neg delta true = interval_new_abs delta true.
Proof. exact interval_neg_absolute_fixed. Qed.
Print Assumptions interval_negation_absolute_is_identity.

Theorem interval_negation_native_refuted : exists delta i j,
  interval_new_abs delta true = Ok i /\ interval_neg delta true = Ok j /\ d_N j <> - d_N i.
Proof. exact interval_neg_absolute_refuted. Qed.
Print Assumptions interval_negation_native_refuted.

Theorem interval_negation_native_partial : forall delta a i j, Z.abs delta < 2 ^ 33 * 10 ^ 6 -> (a = false \/ delta = 0) ->
  interval_new_abs delta a = Ok i -> interval_neg delta a = Ok j -> d_N j = - d_N i.
Proof. exact interval_neg_partial. Qed.
Print Assumptions interval_negation_native_partial.

Theorem interval_abs_native_length : forall delta a i, Z.abs delta < 2 ^ 33 * 10 ^ 6 -> interval_abs delta a = Ok i -> d_N i = Z.abs delta.
Proof. exact interval_abs_native. Qed.
Print Assumptions interval_abs_native_length.

(* ---- an instance of a SUBCLASS that overrides the public accessors on the RIGHT of a Duration-like operand (Proofs/C10Subclass.v) ----
   Interval overrides years / months / weeks / remaining_days / hours / minutes with the calendar residual of its end points (45 days from the
   first of a month: 1 month, 2 weeks, 0 remaining days).  No operator reads a public accessor of an operand: the divisor of // / % divmod is
   _timedelta_to_microseconds(other) on the PRIVATE record, + and - use total_seconds().  (The user subclass of the subclass-* streams is, in the
   model, the Duration with the same constructor arguments: there is no class input.) *)
Theorem subclass_right_operand_class_irrelevant : forall m l i, is_pendulum l = true -> arith_op m l (VIvl i) = arith_op m l (VDur i).
Proof. exact arith_right_class_irrelevant. Qed.
Print Assumptions subclass_right_operand_class_irrelevant.

(* what Duration.__new__(seconds=(end - start).total_seconds()) stores for an Interval IS its native length (below 2^33 s), whatever its span *)
Theorem interval_stores_native_length : forall delta a i, Z.abs delta < 2 ^ 33 * 10 ^ 6 -> interval_new_abs delta a = Ok i -> exact0 i.
Proof. exact interval_new_abs_exact0. Qed.
Print Assumptions interval_stores_native_length.

Theorem interval_divisor_is_native_length : forall delta a i, Z.abs delta < 2 ^ 33 * 10 ^ 6 -> interval_new_abs delta a = Ok i ->
  divisor_us (VIvl i) = Some (ivl_eff delta a).
Proof. exact interval_divisor_us. Qed.
Print Assumptions interval_divisor_is_native_length.

(* // / % divmod BY an Interval (signed, inverted, absolute in either order; days, months or years long) give what timedelta's own operators
   give on the native values end - start *)
Theorem div_mod_by_interval_spec : forall m d delta a i r, (m = 5 \/ m = 6 \/ m = 7 \/ m = 8) -> exact0 d ->
  Z.abs delta < 2 ^ 33 * 10 ^ 6 -> interval_new_abs delta a = Ok i ->
  dur_method m d (VIvl i) = Ok r ->
  ivl_eff delta a <> 0 /\ exists t, td_binop m (d_N d) (ivl_eff delta a) = Ok t /\ same_length r t.
Proof. exact C10Subclass.div_mod_by_interval_spec. Qed.
Print Assumptions div_mod_by_interval_spec.

(* ... literally the outcome (value, remainder or exception) of dividing by the plain timedelta of the same length *)
Theorem interval_divisor_kind_irrelevant : forall m d delta a i, (m = 5 \/ m = 6 \/ m = 7 \/ m = 8) ->
  Z.abs delta < 2 ^ 33 * 10 ^ 6 -> interval_new_abs delta a = Ok i ->
  dur_method m d (VIvl i) = dur_method m d (VTd (ivl_eff delta a)).
Proof. exact interval_divisor_is_its_timedelta. Qed.
Print Assumptions interval_divisor_kind_irrelevant.

(* 100 days // Interval(45 days) = 2 (not 100 // 14 = 7); 100 days // absolute Interval(31 days, a whole month, given end first) = 3 (no zero divisor) *)
Theorem month_spanning_divisor_example : exists d i45 i31,
  dur_of_us (100 * 86400000000) = Ok d /\ interval_new_abs (45 * 86400000000) false = Ok i45 /\ interval_new_abs (- (31 * 86400000000)) true = Ok i31 /\
  dur_method 5 d (VIvl i45) = Ok (RInt 2) /\ dur_method 5 d (VIvl i31) = Ok (RInt 3).
Proof. exact C10Subclass.month_spanning_divisor_example. Qed.
Print Assumptions month_spanning_divisor_example.
