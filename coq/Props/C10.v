(* Props/C10.v — Duration arithmetic agrees with timedelta arithmetic. (statements only) *)
From Coq Require Import ZArith List Bool.
From Coq Require Import Floats.SpecFloat.
From PV Require Import Lib.PyBase Spec.TdFloat Gen.Constants Model.Duration Gen.DurationOps Model.DurationOps Proofs.C10Facts.
Import ListNotations.
Open Scope Z_scope.

Theorem divide_and_round_spec : forall a b q, b <> 0 -> (py_divide_and_round a b = q <-> nearest_even a b q).
Proof. exact divide_and_round_characterised. Qed.
Print Assumptions divide_and_round_spec.
