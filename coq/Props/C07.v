(* Props/C07.v — ISO 8601 / RFC 3339 strings parse to the value they denote.  Statements only; proofs are `exact <lemma>`.
   py_iso_ordinal_md / py_iso_week_core are TRANSLATED from /repo on every run (Gen/IsoPost.v); py_get_week adds the hand model of
   strptime("%Y-%j"); rs_* is the hand model of rust/src/parsing.rs as the code IS; the reference calendar is Spec/Cal.v. *)
From Coq Require Import ZArith List Bool.
From PV Require Import Lib.PyBase Spec.Cal Proofs.CalFacts Proofs.C07Cal Proofs.C07Week Proofs.C07Lex Proofs.C07Round.
From PV Require Import Gen.IsoPost Model.RustHelpers Model.C07Regex Model.IsoParse Model.IsoRender.
Import ListNotations.
Open Scope Z_scope.

(* ------------------------------------------------------------ calendrical core: ordinal dates *)
(* reference: the n-th day of year y is (y, md_of_yday y n) *)
Theorem cal_ord2ymd_of_yday : forall y n, 1 <= n <= days_in_year y ->
  ord2ymd (ymd2ord y 1 1 + n - 1) = (y, fst (md_of_yday y n), snd (md_of_yday y n)).
Proof. exact ord2ymd_yday. Qed.
Print Assumptions cal_ord2ymd_of_yday.

(* pure-Python parser, every year (no bound): the ordinal loop yields month and day of the n-th day of the year *)
Theorem ordinal_py_spec : forall y n, 1 <= n <= days_in_year y ->
  py_iso_ordinal_md y n = Ok (snd (fst (ord2ymd (ymd2ord y 1 1 + n - 1))), snd (ord2ymd (ymd2ord y 1 1 + n - 1))).
Proof. exact py_ordinal_spec. Qed.
Print Assumptions ordinal_py_spec.

(* a three-digit ordinal yields a valid date iff that day exists in the year (000, 366 in common years, 367.. are refused) *)
Theorem ordinal_py_rejects_iff_invalid : forall y n, 0 <= n <= 999 ->
  (md_valid y (py_iso_ordinal_md y n) <-> 1 <= n <= days_in_year y).
Proof. exact py_ordinal_reject. Qed.
Print Assumptions ordinal_py_rejects_iff_invalid.

(* compiled parser, every year (finding rs-ordinal-month-end repaired: `ord <= MONTHS_OFFSETS[leap][i]`): the conversion equals the
   calendar on EVERY day of the year — the last day of each month and day 365/366 included (before the repair: witness 2021-031) *)
Theorem ordinal_rs_spec : forall y n, 0 <= y -> 1 <= n <= days_in_year y ->
  rs_ordinal_to_ymd y n false = Some (ord2ymd (ymd2ord y 1 1 + n - 1)).
Proof. exact rs_ordinal_spec. Qed.
Print Assumptions ordinal_rs_spec.

(* the former witnesses of the finding are instances *)
Theorem ordinal_rs_month_end_witnesses :
  rs_ordinal_to_ymd 2021 31 false = Some (2021, 1, 31) /\ rs_ordinal_to_ymd 2021 365 false = Some (2021, 12, 31) /\
  rs_ordinal_to_ymd 2020 60 false = Some (2020, 2, 29) /\ rs_ordinal_to_ymd 2020 366 false = Some (2020, 12, 31).
Proof. exact rs_ordinal_month_end_witnesses. Qed.
Print Assumptions ordinal_rs_month_end_witnesses.

(* hence the two backends agree on every existing day of every year *)
Theorem ordinal_rs_eq_py : forall y n, 0 <= y -> 1 <= n <= days_in_year y ->
  exists m d, py_iso_ordinal_md y n = Ok (m, d) /\ rs_ordinal_to_ymd y n false = Some (y, m, d).
Proof. exact rs_ordinal_eq_py. Qed.
Print Assumptions ordinal_rs_eq_py.

Theorem ordinal_rs_rejects_out_of_range : forall y n, 0 <= y -> (n < 1 \/ n > days_in_year y) -> rs_ordinal_to_ymd y n false = None.
Proof. exact rs_ordinal_reject. Qed.
Print Assumptions ordinal_rs_rejects_out_of_range.

(* ------------------------------------------------------------ calendrical core: ISO week dates *)
(* pure-Python: week date -> calendar date equals date.fromisocalendar; the year bound is strptime's four-digit %Y *)
Theorem week_py_spec : forall y w wd, 1001 <= y <= 9998 -> 1 <= w <= iso_weeks_in_year y -> 1 <= wd <= 7 ->
  py_get_week y w (Some wd) = Ok (ord2ymd (fromisocalendar_ord y w wd)).
Proof. exact py_week_spec. Qed.
Print Assumptions week_py_spec.

(* every impossible week date is refused — week 00 and weekday 0 included (finding week-zero-accepted repaired: lower bounds checked) *)
Theorem week_py_rejects_impossible : forall y w wd, (w < 1 \/ w > iso_weeks_in_year y) \/ (wd < 1 \/ wd > 7) ->
  py_get_week y w (Some wd) = Raise E_ParserError.
Proof. exact py_week_reject. Qed.
Print Assumptions week_py_rejects_impossible.

(* hence, within strptime's year range, a week date is accepted exactly when it exists *)
Theorem week_py_accepts_iff_valid : forall y w wd, 1001 <= y <= 9998 ->
  ((exists r, py_get_week y w (Some wd) = Ok r) <-> 1 <= w <= iso_weeks_in_year y /\ 1 <= wd <= 7).
Proof. exact py_week_accepts_iff. Qed.
Print Assumptions week_py_accepts_iff_valid.

(* compiled (finding rs-ordinal-month-end repaired): equals date.fromisocalendar for every ISO year >= 1, every week of that year and
   every weekday, month ends and year ends included (before the repair: witness 2021-W13-3) *)
Theorem week_rs_spec : forall y w wd, 1 <= y -> 1 <= w <= iso_weeks_in_year y -> 1 <= wd <= 7 ->
  rs_iso_to_ymd y w wd = Some (ord2ymd (fromisocalendar_ord y w wd)).
Proof. exact rs_week_spec. Qed.
Print Assumptions week_rs_spec.

Theorem week_rs_month_end_witnesses :
  rs_iso_to_ymd 2021 13 3 = Some (2021, 3, 31) /\ rs_iso_to_ymd 2020 53 4 = Some (2020, 12, 31) /\
  rs_iso_to_ymd 2024 9 4 = Some (2024, 2, 29) /\ rs_iso_to_ymd 2019 1 1 = Some (2018, 12, 31).
Proof. exact rs_week_month_end_witnesses. Qed.
Print Assumptions week_rs_month_end_witnesses.

(* hence the two backends agree on every week date of the years the pure-Python path supports *)
Theorem week_rs_eq_py : forall y w wd, 1001 <= y <= 9998 -> 1 <= w <= iso_weeks_in_year y -> 1 <= wd <= 7 ->
  exists r, py_get_week y w (Some wd) = Ok r /\ rs_iso_to_ymd y w wd = Some r.
Proof. exact rs_week_eq_py. Qed.
Print Assumptions week_rs_eq_py.

(* compiled: iso_week / iso_day are u32 (parse_integer), on that domain every impossible week date is refused, week 00 and weekday 0 included *)
Theorem week_rs_rejects_impossible : forall y w wd, 1 <= y -> 0 <= w -> 0 <= wd -> (w < 1 \/ w > iso_weeks_in_year y) \/ (wd < 1 \/ wd > 7) ->
  rs_iso_to_ymd y w wd = None.
Proof. exact rs_week_reject. Qed.
Print Assumptions week_rs_rejects_impossible.

Theorem week_rs_accepts_iff_valid : forall y w wd, 1 <= y -> 0 <= w -> 0 <= wd ->
  (rs_iso_to_ymd y w wd <> None <-> 1 <= w <= iso_weeks_in_year y /\ 1 <= wd <= 7).
Proof. exact rs_week_accepts_iff. Qed.
Print Assumptions week_rs_accepts_iff_valid.

(* the former witnesses of finding week-zero-accepted: 2021-W00-1 and 2021-W01-0 are refused by both backends *)
Theorem week_zero_rejected :
  py_get_week 2021 0 (Some 1) = Raise E_ParserError /\ rs_iso_to_ymd 2021 0 1 = None /\
  py_get_week 2021 1 (Some 0) = Raise E_ParserError /\ rs_iso_to_ymd 2021 1 0 = None.
Proof. exact week_zero_rejected_witnesses. Qed.
Print Assumptions week_zero_rejected.

(* outside the property's 1583..9999 range, recorded: the pure-Python week path fails for years below 1000 *)
Theorem week_py_year_below_1000_rejected :
  py_get_week 999 10 (Some 1) = Raise E_ParserError /\ rs_iso_to_ymd 999 10 1 = Some (999, 3, 4).
Proof. exact py_week_small_year_rejected. Qed.
Print Assumptions week_py_year_below_1000_rejected.

(* ------------------------------------------------------------ lexical core *)
Theorem parse_integer_digits : forall ds rest, forallb is_digit ds = true ->
  rs_parse_int (length ds) (ds ++ rest) 0 = Some (int_of ds, rest).
Proof. exact rs_parse_integer_digits. Qed.
Print Assumptions parse_integer_digits.

Theorem padded_fields_parse_to_their_value :
  (forall n, 0 <= n < 100 -> int_of (render2 n) = n /\ forallb is_digit (render2 n) = true) /\
  (forall n, 0 <= n < 1000 -> int_of (render3 n) = n /\ forallb is_digit (render3 n) = true) /\
  (forall n, 0 <= n < 10000 -> int_of (render4 n) = n /\ forallb is_digit (render4 n) = true) /\
  (forall n, 0 <= n < 1000000 -> int_of (render6 n) = n /\ forallb is_digit (render6 n) = true).
Proof. exact (conj int_of_render2 (conj int_of_render3 (conj int_of_render4 int_of_render6))). Qed.
Print Assumptions padded_fields_parse_to_their_value.

(* fraction of any length >= 1: microseconds are the first six digits right-padded with zeros (truncation), both backends *)
Theorem fraction_trunc_rs : forall ds rest, (1 <= length ds)%nat -> forallb is_digit ds = true -> is_digit (cur rest) = false ->
  rs_fraction (ds ++ rest) = Some (frac_us ds, rest).
Proof. exact rs_fraction_trunc. Qed.
Print Assumptions fraction_trunc_rs.

Theorem fraction_trunc_py : forall ds, (1 <= length ds)%nat -> int_of (pad6r (firstn 6 ds)) = frac_us ds.
Proof. exact py_fraction_trunc. Qed.
Print Assumptions fraction_trunc_py.

(* offsets +-hh:mm (style 0), +-hhmm (1), +-hh (2), 00:00..23:59, both backends; and Z *)
Theorem offset_value_both : forall style neg hh mm, 0 <= style <= 2 -> 0 <= neg <= 1 -> 0 <= hh <= 23 -> 0 <= mm <= 59 ->
  py_tz_offset (off_text style neg hh mm) = Ok (off_val style neg hh mm) /\
  rs_offset (off_text style neg hh mm) = Some (Some (off_val style neg hh mm), []).
Proof. exact offset_value. Qed.
Print Assumptions offset_value_both.

Theorem offset_Z_is_utc : py_tz_offset [90] = Ok 0 /\ rs_offset [90] = Some (Some 0, []).
Proof. exact offset_Z. Qed.
Print Assumptions offset_Z_is_utc.

(* ------------------------------------------------------------ end to end: the extended calendar form *)
(* compiled backend, every valid date-time (years 1..9999), fraction absent or six digits, every whole-minute offset in
   -23:59..+23:59, separator T or space: parse (render v) = v — first at the level of the recursive descent ... *)
Theorem parse_render_extended_rs_descent : forall sep y m d H M S us off,
  sep = 84 \/ sep = 32 -> 0 <= y <= 9999 -> 0 <= m < 100 -> 0 <= d < 100 -> 0 <= H < 100 -> 0 <= M < 100 -> 0 <= S < 100 ->
  0 <= us < 1000000 -> -86400 < off < 86400 -> off mod 60 = 0 ->
  rs_parse_datetime (render_datetime_ext sep y m d H M S us off) = Some (mkr y m d H M S us (Some off) true true true).
Proof. exact rs_parse_datetime_render. Qed.
Print Assumptions parse_render_extended_rs_descent.

(* ... then through the pyo3 glue (parse_iso8601) ... *)
Theorem parse_render_extended_rs : forall sep y m d H M S us off,
  sep = 84 \/ sep = 32 -> valid_date y m d = true -> valid_time H M S us = true -> -86400 < off < 86400 -> off mod 60 = 0 ->
  rs_parse_iso (render_datetime_ext sep y m d H M S us off) = Ok (mkp 1 y m d H M S us (Some off)).
Proof. exact rs_parse_iso_render. Qed.
Print Assumptions parse_render_extended_rs.

(* ... and through pendulum.parse with any exact / tz / now options: parse inverts isoformat()/str()/to_rfc3339_string() *)
Theorem parse_inverts_isoformat_rs : forall exact tzopt now sep y m d H M S us off,
  sep = 84 \/ sep = 32 -> valid_date y m d = true -> valid_time H M S us = true -> -86400 < off < 86400 -> off mod 60 = 0 ->
  parse_top true exact tzopt now (render_datetime_ext sep y m d H M S us off) = Ok (mkp 1 y m d H M S us (Some off)).
Proof. exact rs_parse_top_render. Qed.
Print Assumptions parse_inverts_isoformat_rs.

(* pure-Python backend: the same statement is NOT proved in general (it needs a shape-invariance lemma for the backtracking
   matcher over the generated ISO8601_DT); what is machine-checked is the post-match arithmetic above (fraction_trunc_py,
   offset_value_both, padded_fields_parse_to_their_value, ordinal_py_spec, week_py_spec) and these concrete instances;
   the general case is covered by the correspondence and oracle streams. *)
Theorem parse_render_extended_py_partial :
  py_parse_iso (render_datetime_ext 84 2021 3 31 10 20 30 123456 19800) = Ok (mkp 1 2021 3 31 10 20 30 123456 (Some 19800)) /\
  py_parse_iso (render_datetime_ext 32 9999 12 31 23 59 59 0 (-86340)) = Ok (mkp 1 9999 12 31 23 59 59 0 (Some (-86340))).
Proof. exact py_parse_render_example. Qed.
Print Assumptions parse_render_extended_py_partial.

(* ------------------------------------------------------------ further divergences found (known findings) *)
(* a T-prefixed extended time with seconds is refused by the compiled parser and accepted by the pure-Python one *)
Theorem time_T_extended_rs_refuted :
  rs_parse_iso [84; 49; 50; 58; 50; 55; 58; 51; 56] = Raise E_ValueError /\
  py_parse_iso [84; 49; 50; 58; 50; 55; 58; 51; 56] = Ok (mkp 3 0 0 0 12 27 38 0 None).
Proof. exact time_T_ext_witness. Qed.
Print Assumptions time_T_extended_rs_refuted.

(* a bare six-digit basic time (no T) is a time for the pure-Python parser and refused by the compiled one
   (finding rs-bare-hhmmss-rejected, still open) *)
Theorem time_bare_hhmmss_refuted :
  rs_parse_iso [50; 51; 53; 57; 53; 57] = Raise E_ValueError /\
  py_parse_iso [50; 51; 53; 57; 53; 57] = Ok (mkp 3 0 0 0 23 59 59 0 None).
Proof. exact time_bare_witness. Qed.
Print Assumptions time_bare_hhmmss_refuted.

(* finding py-hhmmss-leading-zero REPAIRED (hhmmss = f"{year:04d}{month:02d}"): the pure-Python parser keeps the leading zeros of a bare
   hhmmss text.  Machine-checked end to end (regex + post-match code) on the former failing inputs "012345" (was 12:34:05), "001530",
   "000000" (raised) and on the corners 09:59:59, 00:00:01, 10:00:00.
   Missing for the full statement (forall H M S in range, py_parse_iso (render2 H ++ render2 M ++ render2 S) = that time): the reflection
   over the 86400 texts evaluates in 7 s (all true) but the Qed of the lemma that instantiates it did not terminate (kernel conversion runs
   the regex matcher on symbolic digits); the general case is covered by the time-only stream (bare basic times with hours below 10,
   both against the model and against the value the text was rendered from). *)
Theorem time_bare_hhmmss_py_partial :
  py_parse_iso [48; 49; 50; 51; 52; 53] = Ok (mkp 3 0 0 0 1 23 45 0 None) /\
  py_parse_iso [48; 48; 49; 53; 51; 48] = Ok (mkp 3 0 0 0 0 15 30 0 None) /\
  py_parse_iso [48; 48; 48; 48; 48; 48] = Ok (mkp 3 0 0 0 0 0 0 0 None) /\
  py_parse_iso [48; 57; 53; 57; 53; 57] = Ok (mkp 3 0 0 0 9 59 59 0 None) /\
  py_parse_iso [48; 48; 48; 48; 48; 49] = Ok (mkp 3 0 0 0 0 0 1 0 None) /\
  py_parse_iso [49; 48; 48; 48; 48; 48] = Ok (mkp 3 0 0 0 10 0 0 0 None).
Proof. exact py_bare_hhmmss_witnesses. Qed.
Print Assumptions time_bare_hhmmss_py_partial.

(* ------------------------------------------------------------ pure-Python backend, end to end, for EVERY value (shape invariance) *)
From PV Require Import Gen.IsoRegex Proofs.RegexShape Proofs.C07PyRound.

(* generic matcher facts (Proofs/RegexShape.v; any regex, any input): the groups returned by re.match are the substrings of the input
   at the spans found by the span-tracking twin of the matcher ... *)
Theorem regex_groups_are_spans : forall r n s, re_match r n s = option_map (texts s) (re_match_sp r n s).
Proof. exact re_match_text_of_spans. Qed.
Print Assumptions regex_groups_are_spans.

(* ... SHAPE INVARIANCE: inputs whose characters are pairwise indistinguishable by every character test occurring in r
   (literal, set membership, the newline test of $) are matched with the SAME spans (or both rejected) ... *)
Theorem regex_shape_invariance : forall r n s s', Forall2 (sim r) s s' -> re_match_sp r n s = re_match_sp r n s'.
Proof. exact re_match_sp_shape. Qed.
Print Assumptions regex_shape_invariance.

(* ... hence one run on a representative s0 gives the groups of every s of the same shape *)
Theorem regex_match_by_representative : forall r n s0 s, Forall2 (sim r) s0 s ->
  re_match r n s = option_map (texts s) (re_match_sp r n s0).
Proof. exact re_match_shape. Qed.
Print Assumptions regex_match_by_representative.

(* the GENERATED ISO8601_DT cannot tell one decimal digit from another: for EVERY string, the match and its spans are those of the
   string with each digit replaced by '0' *)
Theorem iso_regex_digit_blind : forall s,
  re_match ISO_RE ISO_NGROUPS s = option_map (texts s) (re_match_sp ISO_RE ISO_NGROUPS (shape s)).
Proof. exact iso_match_digit_blind. Qed.
Print Assumptions iso_regex_digit_blind.

(* every rendering YYYY-MM-DD(T| )HH:MM:SS[.ffffff](+|-)HH:MM matches, and the named groups are exactly the rendered fields *)
Theorem py_groups_of_rendered : forall sep y m d H M S us off,
  sep = 84 \/ sep = 32 -> 0 <= y <= 9999 -> 0 <= m < 100 -> 0 <= d < 100 -> 0 <= H < 100 -> 0 <= M < 100 -> 0 <= S < 100 ->
  0 <= us < 1000000 -> -86400 < off < 86400 ->
  re_match ISO_RE ISO_NGROUPS (render_datetime_ext sep y m d H M S us off) =
  Some [None; Some (render_date 0 y m d); Some (render_date 0 y m d); Some (render4 y);
        Some ([45] ++ render2 m ++ [45] ++ render2 d); Some [45]; Some (render2 m); Some ([45] ++ render2 d); Some [45]; Some (render2 d);
        None; None; None; None; None; None;
        Some ([sep] ++ render_time_ext H M S us ++ render_offset off); Some [sep]; Some (render2 H); Some [58]; Some (render2 M); Some [58];
        Some (render2 S); (if us =? 0 then None else Some (46 :: render6 us)); (if us =? 0 then None else Some (render6 us));
        Some (render_offset off)].
Proof. exact py_groups_of_rendering. Qed.
Print Assumptions py_groups_of_rendered.

(* the statement of parse_render_extended_rs for the pure-Python parser (regex + post-match code), same hypotheses: every valid
   date-time (years 1..9999), fraction absent or six digits, every whole-minute offset in -23:59..+23:59, separator T or space.
   This supersedes the note above parse_render_extended_py_partial (kept as two worked instances). *)
Theorem parse_render_extended_py : forall sep y m d H M S us off,
  sep = 84 \/ sep = 32 -> valid_date y m d = true -> valid_time H M S us = true -> -86400 < off < 86400 -> off mod 60 = 0 ->
  py_parse_iso (render_datetime_ext sep y m d H M S us off) = Ok (mkp 1 y m d H M S us (Some off)).
Proof. exact py_parse_iso_render. Qed.
Print Assumptions parse_render_extended_py.

(* ... and through pendulum.parse with any exact / tz / now options *)
Theorem parse_inverts_isoformat_py : forall exact tzopt now sep y m d H M S us off,
  sep = 84 \/ sep = 32 -> valid_date y m d = true -> valid_time H M S us = true -> -86400 < off < 86400 -> off mod 60 = 0 ->
  parse_top false exact tzopt now (render_datetime_ext sep y m d H M S us off) = Ok (mkp 1 y m d H M S us (Some off)).
Proof. exact py_parse_top_render. Qed.
Print Assumptions parse_inverts_isoformat_py.

(* the two backends agree on every rendered string, natively and through pendulum.parse *)
Theorem rs_eq_py_on_rendered : forall sep y m d H M S us off,
  sep = 84 \/ sep = 32 -> valid_date y m d = true -> valid_time H M S us = true -> -86400 < off < 86400 -> off mod 60 = 0 ->
  rs_parse_iso (render_datetime_ext sep y m d H M S us off) = py_parse_iso (render_datetime_ext sep y m d H M S us off) /\
  forall exact tzopt now, parse_top true exact tzopt now (render_datetime_ext sep y m d H M S us off) =
                          parse_top false exact tzopt now (render_datetime_ext sep y m d H M S us off).
Proof. exact rs_eq_py_on_rendered_ext. Qed.
Print Assumptions rs_eq_py_on_rendered.

(* date-only texts, pure-Python backend: calendar extended (0), calendar basic (1), ordinal extended (2), ordinal basic (3),
   every valid date of the years 1..9999 (the ordinal forms go through the translated ordinal loop, ordinal_py_spec) *)
Theorem parse_render_date_forms_py : forall form y m d, 0 <= form <= 3 -> valid_date y m d = true ->
  py_parse_iso (render_date form y m d) = Ok (mkp 2 y m d 0 0 0 0 None).
Proof. exact py_parse_iso_render_date. Qed.
Print Assumptions parse_render_date_forms_py.

(* reference calendar, every year: date.fromisocalendar inverts date.isocalendar, and the ISO triple is in range *)
Theorem cal_isocalendar_inverse : forall y m d, valid_dateb y m d = true ->
  let '(iy, iw, iwd) := isocalendar y m d in
  y - 1 <= iy <= y + 1 /\ 1 <= iw <= iso_weeks_in_year iy /\ 1 <= iwd <= 7 /\ fromisocalendar_ord iy iw iwd = ymd2ord y m d.
Proof. exact isocalendar_inverse. Qed.
Print Assumptions cal_isocalendar_inverse.

(* week dates rendered from the ISO calendar triple of a date, extended (4) YYYY-Www-D and basic (5) YYYYWwwD, pure-Python backend:
   every valid date whose ISO year is in 1001..9998 (the range of week_py_spec: strptime's four-digit %Y) *)
Theorem parse_render_week_forms_py : forall form y m d, 4 <= form <= 5 -> valid_date y m d = true ->
  1001 <= fst (fst (isocalendar y m d)) <= 9998 ->
  py_parse_iso (render_date form y m d) = Ok (mkp 2 y m d 0 0 0 0 None).
Proof. exact py_parse_iso_render_week. Qed.
Print Assumptions parse_render_week_forms_py.

(* in particular every date of the years 1002..9997, which contains the property's 1583.. range up to 9997 *)
Theorem parse_render_week_forms_py_years : forall form y m d, 4 <= form <= 5 -> valid_date y m d = true -> 1002 <= y <= 9997 ->
  py_parse_iso (render_date form y m d) = Ok (mkp 2 y m d 0 0 0 0 None).
Proof. exact py_parse_iso_render_week_years. Qed.
Print Assumptions parse_render_week_forms_py_years.

(* ------------------------------------------------------------ every well-formed text of the forms of Model/IsoForms.v, both backends *)
From PV Require Import Model.IsoForms Proofs.C07PyForms Proofs.C07RsForms.

(* the generated ISO8601_DT cannot tell digits apart, nor 'T' from ' ', nor '.' from ',': for EVERY string the match and its spans are
   those of its normal form *)
Theorem iso_regex_blind_to_digits_and_separators : forall s,
  re_match ISO_RE ISO_NGROUPS s = option_map (texts s) (re_match_sp ISO_RE ISO_NGROUPS (shape2 s)).
Proof. exact iso_match_blind2. Qed.
Print Assumptions iso_regex_blind_to_digits_and_separators.

(* the spans of the 26 groups in closed form (a function of the lengths of the pieces), checked against the span matcher on all 720
   shapes (9 date/time layouts x fraction absent or 1..9 digits x 8 offset layouts) by one kernel computation *)
Theorem iso_regex_spans_closed_form : forall dv pre ext fr ov, In (dv, pre, ext) combos -> In fr fracs -> (ov < 8)%nat ->
  re_match_sp ISO_RE ISO_NGROUPS (rep dv pre ext fr ov) =
  Some (date_spans dv ++ time_spans (length (rep_date dv)) pre ext fr (length (rep_off ov))).
Proof. exact In_combos_use. Qed.
Print Assumptions iso_regex_spans_closed_form.

(* (a)-(d) combined date and time, pure-Python backend: for every valid date in each of the six date forms (calendar, ordinal, week;
   extended with HH:MM:SS, basic with HHMMSS), separator T or space, every time of day, fraction absent or ANY list of 1..9 digits after
   '.' or ',' (microsecond = the first six digits right-padded with zeros), offset absent, Z, +-hh, +-hhmm or +-hh:mm (00:00..23:59):
   parse (text value) = value.  Week forms: ISO year 1001..9998 (strptime's %Y in _get_iso_8601_week, week_py_spec). *)
Theorem parse_forms_datetime_py : forall form sep y m d H M S f o,
  0 <= form <= 5 -> sep = 84 \/ sep = 32 -> valid_date y m d = true -> valid_time H M S 0 = true ->
  frac_ok f = true -> offs_ok o = true -> (4 <= form -> 1001 <= iso_year_of y m d <= 9998) ->
  py_parse_iso (iso_datetime form sep y m d H M S f o) = Ok (mkp 1 y m d H M S (frac_value f) (offs_value o)).
Proof. exact py_parse_iso_datetime. Qed.
Print Assumptions parse_forms_datetime_py.

(* the same for the compiled backend (week forms: any ISO year 1..9999 that four digits can write) *)
Theorem parse_forms_datetime_rs : forall form sep y m d H M S f o,
  0 <= form <= 5 -> sep = 84 \/ sep = 32 -> valid_date y m d = true -> valid_time H M S 0 = true ->
  frac_ok f = true -> offs_ok o = true -> (4 <= form -> 1 <= iso_year_of y m d <= 9999) ->
  rs_parse_iso (iso_datetime form sep y m d H M S f o) = Ok (mkp 1 y m d H M S (frac_value f) (offs_value o)).
Proof. exact rs_parse_iso_datetime. Qed.
Print Assumptions parse_forms_datetime_rs.

Theorem rs_eq_py_on_forms_datetime : forall form sep y m d H M S f o,
  0 <= form <= 5 -> sep = 84 \/ sep = 32 -> valid_date y m d = true -> valid_time H M S 0 = true ->
  frac_ok f = true -> offs_ok o = true -> (4 <= form -> 1001 <= iso_year_of y m d <= 9998) ->
  rs_parse_iso (iso_datetime form sep y m d H M S f o) = py_parse_iso (iso_datetime form sep y m d H M S f o).
Proof. exact rs_eq_py_datetime. Qed.
Print Assumptions rs_eq_py_on_forms_datetime.

(* through pendulum.parse, either backend, any exact / now: the offset written in the text wins, otherwise the tz option (default UTC) *)
Theorem parse_top_forms_datetime : forall rs exact tzopt now form sep y m d H M S f o,
  0 <= form <= 5 -> sep = 84 \/ sep = 32 -> valid_date y m d = true -> valid_time H M S 0 = true ->
  frac_ok f = true -> offs_ok o = true -> (4 <= form -> 1001 <= iso_year_of y m d <= 9998) ->
  (forall t, tzopt = Some t -> -86400 < t < 86400) ->
  parse_top rs exact tzopt now (iso_datetime form sep y m d H M S f o) =
  Ok (mkp 1 y m d H M S (frac_value f)
        (Some (match offs_value o with Some v => v | None => match tzopt with Some t => t | None => 0 end end))).
Proof. exact parse_top_datetime. Qed.
Print Assumptions parse_top_forms_datetime.

(* (e) time only, pure-Python backend: THH:MM:SS, THHMMSS and bare HH:MM:SS, with fraction and offset as above
   (bare HHMMSS is the listed finding py-hhmmss-leading-zero) *)
Theorem parse_forms_time_py : forall pre ext H M S f o,
  pre = true \/ ext = true -> valid_time H M S 0 = true -> frac_ok f = true -> offs_ok o = true ->
  py_parse_iso (iso_time pre ext H M S f o) = Ok (mkp 3 0 0 0 H M S (frac_value f) (offs_value o)).
Proof. exact py_parse_iso_time. Qed.
Print Assumptions parse_forms_time_py.

(* compiled backend: bare HH:MM:SS and THHMMSS (THH:MM:SS is the listed finding rs-T-extended-time-rejected, bare HHMMSS the listed
   finding rs-bare-hhmmss-rejected) *)
Theorem parse_forms_time_rs : forall pre ext H M S f o,
  (pre = false /\ ext = true) \/ (pre = true /\ ext = false) -> valid_time H M S 0 = true -> frac_ok f = true -> offs_ok o = true ->
  rs_parse_iso (iso_time pre ext H M S f o) = Ok (mkp 3 0 0 0 H M S (frac_value f) (offs_value o)).
Proof. exact rs_parse_iso_time. Qed.
Print Assumptions parse_forms_time_rs.

Theorem rs_eq_py_on_forms_time : forall pre ext H M S f o,
  (pre = false /\ ext = true) \/ (pre = true /\ ext = false) -> valid_time H M S 0 = true -> frac_ok f = true -> offs_ok o = true ->
  rs_parse_iso (iso_time pre ext H M S f o) = py_parse_iso (iso_time pre ext H M S f o).
Proof. exact rs_eq_py_time. Qed.
Print Assumptions rs_eq_py_on_forms_time.

(* the microseconds of a digit list are in range (so that the value above is a legal datetime) *)
Theorem fraction_value_in_range : forall f, frac_ok f = true -> 0 <= frac_value f < 1000000.
Proof. exact frac_value_range. Qed.
Print Assumptions fraction_value_in_range.

(* ------------------------------------------------------------ the remaining well-formed forms (Proofs/C07More.v) *)
From PV Require Import Model.IsoFormsPrec Proofs.C07More.

(* bare hhmmss (no T), pure-Python parser after the repair of py-hhmmss-leading-zero: time(H, M, S) for EVERY valid time — the full
   statement that time_bare_hhmmss_py_partial names as missing (digit-blindness of the regex: one computation on "000000") *)
Theorem time_bare_hhmmss_py : forall H M S, valid_time H M S 0 = true ->
  py_parse_iso (render2 H ++ render2 M ++ render2 S) = Ok (mkp 3 0 0 0 H M S 0 None).
Proof. exact py_parse_iso_bare_hhmmss. Qed.
Print Assumptions time_bare_hhmmss_py.

(* the compiled parser refuses every bare hhmmss (listed finding rs-bare-hhmmss-rejected, universally) *)
Theorem time_bare_hhmmss_rs_rejected : forall H M S, 0 <= H < 100 -> 0 <= M < 100 -> 0 <= S < 100 ->
  rs_parse_iso (render2 H ++ render2 M ++ render2 S) = Raise E_ValueError.
Proof. exact rs_parse_iso_bare_hhmmss_rejected. Qed.
Print Assumptions time_bare_hhmmss_rs_rejected.

(* ... and every T-prefixed extended time with seconds (listed finding rs-T-extended-time-rejected, universally) *)
Theorem time_T_extended_rs_rejected : forall H M S f o, valid_time H M S 0 = true -> frac_ok f = true -> offs_ok o = true ->
  rs_parse_iso (iso_time true true H M S f o) = Raise E_ValueError.
Proof. exact rs_parse_iso_T_extended_rejected. Qed.
Print Assumptions time_T_extended_rs_rejected.

(* date-only texts on the compiled side, the six forms (week forms: any ISO year 1..9999), and the agreement of the backends *)
Theorem parse_render_date_forms_rs : forall form y m d, 0 <= form <= 5 -> valid_date y m d = true ->
  (4 <= form -> 1 <= iso_year_of y m d <= 9999) ->
  rs_parse_iso (render_date form y m d) = Ok (mkp 2 y m d 0 0 0 0 None).
Proof. exact rs_parse_iso_render_date. Qed.
Print Assumptions parse_render_date_forms_rs.

Theorem rs_eq_py_on_date_forms : forall form y m d, 0 <= form <= 5 -> valid_date y m d = true ->
  (4 <= form -> 1001 <= iso_year_of y m d <= 9998) ->
  rs_parse_iso (render_date form y m d) = py_parse_iso (render_date form y m d).
Proof. exact rs_eq_py_render_date. Qed.
Print Assumptions rs_eq_py_on_date_forms.

(* reduced precision after a date: <date>(T| )HH and <date>(T| )HH:MM / HHMM with every offset style, six date forms, both backends *)
Theorem parse_forms_datetime_reduced_py : forall form sep prec y m d H M o,
  0 <= form <= 5 -> sep = 84 \/ sep = 32 -> (prec <= 1)%nat -> valid_date y m d = true -> valid_time H M 0 0 = true ->
  offs_ok o = true -> (4 <= form -> 1001 <= iso_year_of y m d <= 9998) ->
  py_parse_iso (iso_datetimep form sep prec y m d H M o) = Ok (mkp 1 y m d H (minute_p prec M) 0 0 (offs_value o)).
Proof. exact py_parse_iso_datetimep. Qed.
Print Assumptions parse_forms_datetime_reduced_py.

Theorem parse_forms_datetime_reduced_rs : forall form sep prec y m d H M o,
  0 <= form <= 5 -> sep = 84 \/ sep = 32 -> (prec <= 1)%nat -> valid_date y m d = true -> valid_time H M 0 0 = true ->
  offs_ok o = true -> (4 <= form -> 1 <= iso_year_of y m d <= 9999) ->
  rs_parse_iso (iso_datetimep form sep prec y m d H M o) = Ok (mkp 1 y m d H (minute_p prec M) 0 0 (offs_value o)).
Proof. exact rs_parse_iso_datetimep. Qed.
Print Assumptions parse_forms_datetime_reduced_rs.

Theorem rs_eq_py_on_forms_datetime_reduced : forall form sep prec y m d H M o,
  0 <= form <= 5 -> sep = 84 \/ sep = 32 -> (prec <= 1)%nat -> valid_date y m d = true -> valid_time H M 0 0 = true ->
  offs_ok o = true -> (4 <= form -> 1001 <= iso_year_of y m d <= 9998) ->
  rs_parse_iso (iso_datetimep form sep prec y m d H M o) = py_parse_iso (iso_datetimep form sep prec y m d H M o).
Proof. exact rs_eq_py_datetimep. Qed.
Print Assumptions rs_eq_py_on_forms_datetime_reduced.

(* reduced-precision time only.  Pure-Python: THH, THH:MM, THHMM, bare HH, bare HH:MM (bare HHMM is a four-digit year) *)
Theorem parse_forms_time_reduced_py : forall pre ext prec H M o,
  (prec <= 1)%nat -> (pre = true \/ prec = 0%nat \/ ext = true) -> valid_time H M 0 0 = true -> offs_ok o = true ->
  py_parse_iso (iso_timep pre ext prec H M o) = Ok (mkp 3 0 0 0 H (minute_p prec M) 0 0 (offs_value o)).
Proof. exact py_parse_iso_timep. Qed.
Print Assumptions parse_forms_time_reduced_py.

(* compiled: THH, THH:MM, THHMM and bare HH:MM ... *)
Theorem parse_forms_time_reduced_rs : forall pre ext prec H M o,
  (prec <= 1)%nat -> (pre = true \/ (prec = 1%nat /\ ext = true)) -> valid_time H M 0 0 = true -> offs_ok o = true ->
  rs_parse_iso (iso_timep pre ext prec H M o) = Ok (mkp 3 0 0 0 H (minute_p prec M) 0 0 (offs_value o)).
Proof. exact rs_parse_iso_timep. Qed.
Print Assumptions parse_forms_time_reduced_rs.

(* ... but a bare hour (with or without offset) is refused by the compiled parser: a backend divergence that is not among the listed
   findings (the pure-Python parser reads time(H, 0, 0), parse_forms_time_reduced_py) *)
Theorem time_bare_hour_rs_rejected : forall ext H M o, 0 <= H < 100 -> offs_ok o = true ->
  rs_parse_iso (iso_timep false ext 0 H M o) = Raise E_ValueError.
Proof. exact rs_parse_iso_bare_hour_rejected. Qed.
Print Assumptions time_bare_hour_rs_rejected.

Theorem rs_eq_py_on_forms_time_reduced : forall pre ext prec H M o,
  (prec <= 1)%nat -> (pre = true \/ (prec = 1%nat /\ ext = true)) -> valid_time H M 0 0 = true -> offs_ok o = true ->
  rs_parse_iso (iso_timep pre ext prec H M o) = py_parse_iso (iso_timep pre ext prec H M o).
Proof. exact rs_eq_py_timep. Qed.
Print Assumptions rs_eq_py_on_forms_time_reduced.

(* exact=True returns the narrowest type, either backend: a date-only text (six forms) is a date; without exact, midnight in the tz option *)
Theorem exact_date_text_is_a_date : forall (rs exact : bool) tzopt now form y m d,
  0 <= form <= 5 -> valid_date y m d = true -> (4 <= form -> 1001 <= iso_year_of y m d <= 9998) ->
  parse_top rs exact tzopt now (render_date form y m d) =
  if exact then Ok (mkp 2 y m d 0 0 0 0 None) else to_datetime y m d 0 0 0 0 (deftz_of tzopt).
Proof. exact parse_top_date. Qed.
Print Assumptions exact_date_text_is_a_date.

(* a time-only text is a (naive) time with exact=True, and that time on `now`'s day in the tz option without; the side condition lists the
   time-only forms each backend accepts *)
Theorem exact_time_text_is_a_time : forall (rs exact : bool) tzopt now pre ext H M S f o,
  (if rs then (pre = false /\ ext = true) \/ (pre = true /\ ext = false) else pre = true \/ ext = true) ->
  valid_time H M S 0 = true -> frac_ok f = true -> offs_ok o = true ->
  parse_top rs exact tzopt now (iso_time pre ext H M S f o) =
  if exact then Ok (mkp 3 0 0 0 H M S (frac_value f) None)
  else let '(ny, nm, nd) := now in to_datetime ny nm nd H M S (frac_value f) (deftz_of tzopt).
Proof. exact parse_top_time. Qed.
Print Assumptions exact_time_text_is_a_time.

Theorem exact_reduced_time_text_is_a_time : forall (rs exact : bool) tzopt now pre ext prec H M o,
  (prec <= 1)%nat -> (if rs then pre = true \/ (prec = 1%nat /\ ext = true) else pre = true \/ prec = 0%nat \/ ext = true) ->
  valid_time H M 0 0 = true -> offs_ok o = true ->
  parse_top rs exact tzopt now (iso_timep pre ext prec H M o) =
  if exact then Ok (mkp 3 0 0 0 H (minute_p prec M) 0 0 None)
  else let '(ny, nm, nd) := now in to_datetime ny nm nd H (minute_p prec M) 0 0 (deftz_of tzopt).
Proof. exact parse_top_timep. Qed.
Print Assumptions exact_reduced_time_text_is_a_time.

(* a date with a (reduced-precision) time is a DateTime whatever `exact` (full precision: parse_top_forms_datetime above) *)
Theorem parse_top_forms_datetime_reduced : forall (rs exact : bool) tzopt now form sep prec y m d H M o,
  0 <= form <= 5 -> sep = 84 \/ sep = 32 -> (prec <= 1)%nat -> valid_date y m d = true -> valid_time H M 0 0 = true ->
  offs_ok o = true -> (4 <= form -> 1001 <= iso_year_of y m d <= 9998) -> (forall t, tzopt = Some t -> -86400 < t < 86400) ->
  parse_top rs exact tzopt now (iso_datetimep form sep prec y m d H M o) =
  Ok (mkp 1 y m d H (minute_p prec M) 0 0 (Some (match offs_value o with Some v => v | None => deftz_of tzopt end))).
Proof. exact parse_top_datetimep. Qed.
Print Assumptions parse_top_forms_datetime_reduced.

(* ---- THE MODEL IS THE COMPILED CODE (date conversions of the compiled parser).  Gen/RustParsingDatesGen.v is Parser::ordinal_to_ymd (with its
   `for i in 1..14` loop, the repaired `ord <= MONTHS_OFFSETS[leap][i]`, the previous / next year spills) and Parser::iso_to_ymd (with the week 00 /
   weekday 0 checks) translated from /repo's rust/src/parsing.rs on every run by tools/vlib/rust2gallina.py — extracted by name, wrap-around arithmetic
   explicit, Result = option (Err(..) = None: the hand model keeps the error kind only), calling the translated helpers of Gen/RustHelpersGen.v.
   The hand model Model/IsoParse.v (rs_ordinal_to_ymd / rs_ord_loop, rs_iso_to_ymd), about which the compiled-parser theorems above speak, EQUALS that
   translation on everything the parser can hand to these functions and far beyond: years 1..100000 (the parser reads 4 digits; year 0 is the one 4-digit
   value excluded: there `y -= 1` wraps in u32 where the hand model computes -1), ordinals within +-100000 (3 digits), weeks and week days up to 1000. *)
From PV Require Import Model.RustInt Gen.RustHelpersGen Gen.RustParsingDatesGen Proofs.RustParsingDatesFacts.

Theorem model_is_code_rs_ordinal_to_ymd : forall year ordinal allow, 1 <= year <= 100000 -> -100000 <= ordinal <= 100000 ->
  gen_rsp_ordinal_to_ymd year ordinal allow = rs_ordinal_to_ymd year ordinal allow.
Proof. exact gen_rsp_ordinal_to_ymd_eq. Qed.
Print Assumptions model_is_code_rs_ordinal_to_ymd.

Theorem model_is_code_rs_iso_to_ymd : forall y w d, 1 <= y <= 100000 -> 0 <= w <= 1000 -> 0 <= d <= 1000 ->
  gen_rsp_iso_to_ymd y w d = rs_iso_to_ymd y w d.
Proof. exact gen_rsp_iso_to_ymd_eq. Qed.
Print Assumptions model_is_code_rs_iso_to_ymd.

(* Parser::parse_integer(length, field_name): exactly `length` ASCII digits read from the remaining input (Model/IsoParse.cur / inc / isend are the parser
   state's primitives), value accumulated in u32; equal to the hand model's rs_parse_int for every input and every length up to 9 (the parser uses 1, 2, 4) *)
Theorem model_is_code_rs_parse_integer : forall s len, 0 <= len <= 9 -> gen_rsp_parse_integer s len = rs_parse_int (Z.to_nat len) s 0.
Proof. exact gen_rsp_parse_integer_eq. Qed.
Print Assumptions model_is_code_rs_parse_integer.
