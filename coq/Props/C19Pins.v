(* Props/C19Pins.v — written by tools/mkpins.py at development time (committed; never rewritten by a check).
   The hand-written model of C19 was transcribed from exactly these versions of the functions below (sha256 of the Python ast /
   of the comment-free Rust text, first 20 hex digits).  Gen/PinsC19.v is recomputed from /repo on every check: an edit to any
   pinned function breaks this obligation, and the check then has to find a failing input or report no-failing-input-found. *)
From Coq Require Import List String.
From PV Require Import Gen.PinsC19.
Import ListNotations.
Theorem hand_modelled_sources_unchanged_C19 : PinsC19.pins = [
  ("src/pendulum/interval.py::Interval.__iter__"%string, "6e5c97c2ba21d74ea213"%string);
  ("src/pendulum/interval.py::Interval.__contains__"%string, "aa064564af95312a3e03"%string);
  ("src/pendulum/interval.py::Interval.__new__"%string, "87853506c4af18f659e8"%string);
  ("src/pendulum/datetime.py::DateTime.add"%string, "f9e0754e563c868f30d8"%string);
  ("src/pendulum/datetime.py::DateTime.subtract"%string, "604ff496290ba1734411"%string)].
Proof. exact eq_refl. Qed.
Print Assumptions hand_modelled_sources_unchanged_C19.
