(* Props/C17Pins.v — written by tools/mkpins.py at development time (committed; never rewritten by a check).
   The hand-written model of C17 was transcribed from exactly these versions of the functions below (sha256 of the Python ast /
   of the comment-free Rust text, first 20 hex digits).  Gen/PinsC17.v is recomputed from /repo on every check: an edit to any
   pinned function breaks this obligation, and the check then has to find a failing input or report no-failing-input-found. *)
From Coq Require Import List String.
From PV Require Import Gen.PinsC17.
Import ListNotations.
Theorem hand_modelled_sources_unchanged_C17 : PinsC17.pins = [
  ("src/pendulum/parsing/__init__.py::_parse"%string, "e1bf5535db80f1c278b8"%string);
  ("src/pendulum/parsing/__init__.py::_parse_common"%string, "166480d8b3ef10662a43"%string);
  ("src/pendulum/parsing/__init__.py::_normalize"%string, "429d43efb9876a9af7a5"%string);
  ("src/pendulum/parsing/__init__.py::parse"%string, "750e155f220ccc282c77"%string);
  ("src/pendulum/parsing/__init__.py::_parse_iso8601_interval"%string, "6b9d50718a054417c57b"%string);
  ("src/pendulum/parser.py::parse"%string, "d696868c9735427664f0"%string);
  ("src/pendulum/parser.py::_parse"%string, "73897f7e0482fd280005"%string);
  ("rust/src/python/parsing.rs::parse_iso8601"%string, "6a9c023548d1e6a11957"%string);
  ("rust/src/parsing.rs::parse"%string, "3cb046de4ca77103518c"%string)].
Proof. exact eq_refl. Qed.
Print Assumptions hand_modelled_sources_unchanged_C17.
