(* Props/C02Pins.v — written by tools/mkpins.py at development time (committed; never rewritten by a check).
   The hand-written model of C02 was transcribed from exactly these versions of the functions below (sha256 of the Python ast /
   of the comment-free Rust text, first 20 hex digits).  Gen/PinsC02.v is recomputed from /repo on every check: an edit to any
   pinned function breaks this obligation, and the check then has to find a failing input or report no-failing-input-found. *)
From Coq Require Import List String.
From PV Require Import Gen.PinsC02.
Import ListNotations.
Theorem hand_modelled_sources_unchanged_C02 : PinsC02.pins = [
  ("src/pendulum/tz/timezone.py::Timezone.convert"%string, "41080dcfc1ccb60c91c9"%string);
  ("src/pendulum/tz/timezone.py::Timezone.datetime"%string, "4fcde0ab0c835421ce7d"%string);
  ("src/pendulum/tz/timezone.py::FixedTimezone.convert"%string, "0129369ee9d1b8dd0943"%string);
  ("src/pendulum/tz/timezone.py::FixedTimezone.datetime"%string, "59c0bfae646d5f7e9cd9"%string);
  ("src/pendulum/datetime.py::DateTime.create"%string, "85413fdb609d8f00ca3b"%string);
  ("src/pendulum/datetime.py::DateTime.set"%string, "d2096602146a93bb907c"%string);
  ("src/pendulum/datetime.py::DateTime.on"%string, "e2dcda2c0fd7be9d4d15"%string);
  ("src/pendulum/datetime.py::DateTime.at"%string, "87cf23fb27859e45173d"%string);
  ("src/pendulum/datetime.py::DateTime.replace"%string, "83cb2a20f04180c69b2b"%string);
  ("src/pendulum/datetime.py::DateTime.naive"%string, "7b1ee5f188426cc27e79"%string);
  ("src/pendulum/__init__.py::datetime"%string, "e1b6d01d8779e5d25144"%string);
  ("src/pendulum/__init__.py::local"%string, "9429f7b664ff05667a6f"%string);
  ("src/pendulum/__init__.py::naive"%string, "6653e66c268d176405ab"%string);
  ("src/pendulum/parser.py::parse"%string, "d696868c9735427664f0"%string);
  ("src/pendulum/parser.py::_parse"%string, "73897f7e0482fd280005"%string);
  ("src/pendulum/datetime.py::DateTime.instance"%string, "3e74631050336544fb66"%string);
  ("src/pendulum/datetime.py::DateTime.in_timezone"%string, "74b9581d5aa34ff6af90"%string);
  ("src/pendulum/datetime.py::DateTime.add"%string, "f9e0754e563c868f30d8"%string)].
Proof. exact eq_refl. Qed.
Print Assumptions hand_modelled_sources_unchanged_C02.
