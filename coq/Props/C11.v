(* Props/C11.v — DateTime, Date and Time are drop-in replacements for the native classes.
   Models: Model/DropIn.v (native_X: CPython's _datetimemodule.c on (wall, fold, tzinfo) ; pd_X: /repo's overrides ; dispatch_model over the
   generated Gen/Classes.v), Spec/Zone.v, Spec/Cal.v, Model/TzConvert.v.  Zones are arbitrary tables (well-formed where stated). *)
From Coq Require Import ZArith List Bool String.
From PV Require Import Lib.PyBase Spec.Cal Spec.Zone Spec.NativeDT Spec.TdFloat Proofs.ZoneFacts Model.TzConvert Gen.Classes Model.DropIn Proofs.C11Facts Proofs.C11Foreign Model.DropInCfg Proofs.C11Cfg.
Import ListNotations.
Open Scope Z_scope.

(* Every attribute of the native classes hidden by a pendulum class (generated from /repo's class bodies on every run) has a model, a referenced property or an explicit out-of-scope note; a new override makes this false (fail closed). *)
Theorem every_override_is_modelled : all_overrides_covered = true.
Proof. exact (@every_override_is_modelled). Qed.
Print Assumptions every_override_is_modelled.

(* The source text of the overrides transcribed by hand in Model/DropIn.v is the text they were transcribed from. *)
Theorem transcribed_sources_unchanged : pinned_sources = expected_pins.
Proof. exact (@pins_ok). Qed.
Print Assumptions transcribed_sources_unchanged.

(* Inherited accessors (toordinal weekday isoweekday isocalendar timetuple utctimetuple utcoffset timestamp __hash__): by the generated table they resolve to the native class, so the DateTime answers with the native function on the same fields. This IS CPython's inheritance (trusted, validated by the correspondence); the theorem pins the table. *)
Theorem std_accessor_agrees : forall a x,
  inherited a = true -> dispatch_model a x = Some (native_acc a x).
Proof. exact (@std_accessor_agrees). Qed.
Print Assumptions std_accessor_agrees.

(* The six comparisons, hash, timestamp, utcoffset, isoformat, strftime, ctime, tzname, dst (DateTime) and the Date / Time accessors resolve to the native classes. *)
Theorem comparisons_and_hash_are_inherited : map (fun n => std_lookup "DateTime" n) ["__eq__"; "__ne__"; "__lt__"; "__le__"; "__gt__"; "__ge__"; "__hash__"; "timestamp"; "utcoffset"; "isoformat";
                                          "strftime"; "ctime"; "tzname"; "dst"]%string
  = map (fun o => Some (1, o)) ["datetime"; "datetime"; "datetime"; "datetime"; "datetime"; "datetime"; "datetime"; "datetime"; "datetime"; "datetime";
                                "date"; "datetime"; "datetime"; "datetime"]%string
  /\ map (fun n => std_lookup "Date" n) ["__eq__"; "__lt__"; "__hash__"; "isoformat"; "toordinal"; "weekday"; "isocalendar"; "timetuple"; "__rsub__"; "__radd__"]%string
     = map (fun o => Some (1, o)) ["date"; "date"; "date"; "date"; "date"; "date"; "date"; "date"; "date"; "date"]%string
  /\ map (fun n => std_lookup "Time" n) ["__eq__"; "__lt__"; "__hash__"; "isoformat"; "utcoffset"; "tzname"; "dst"; "strftime"]%string
     = map (fun o => Some (1, o)) ["time"; "time"; "time"; "time"; "time"; "time"; "time"; "time"]%string.
Proof. exact (@comparisons_and_hash_are_inherited). Qed.
Print Assumptions comparisons_and_hash_are_inherited.

(* date(): pendulum Date with exactly the native date()'s fields, which are the calendar date of toordinal(). *)
Theorem date_fields : forall x,
  exists y m d, native_acc A_date x = Ok [0; y; m; d] /\ dispatch_model A_date x = Some (Ok [1; y; m; d])
                /\ ymd2ord y m d = native_toordinal x.
Proof. exact (@date_fields). Qed.
Print Assumptions date_fields.

(* time(): pendulum Time with exactly the native time()'s hour/minute/second/microsecond (in range, recomposing the wall time of day) and the native time()'s fold. *)
Theorem time_fields : forall x,
  exists h mi s us, native_acc A_time x = Ok [0; h; mi; s; us; Z.b2z (v_fold x)] /\ dispatch_model A_time x = Some (Ok [1; h; mi; s; us; Z.b2z (v_fold x)])
    /\ 0 <= h < 24 /\ 0 <= mi < 60 /\ 0 <= s < 60 /\ 0 <= us < 1000000
    /\ ((h * 60 + mi) * 60 + s) * 1000000 + us = v_wall x mod us_per_day.
Proof. exact (@time_fields). Qed.
Print Assumptions time_fields.

(* time() of the override's model is the native time() with the type Time: same fields, same fold (every value, both folds). *)
Theorem time_native : forall x,
  pd_time x = (TyTime, snd (fst (native_time x)), snd (native_time x)) /\ fst (fst (native_time x)) = Ty_time.
Proof. exact (@time_native). Qed.
Print Assumptions time_native.

(* Non-vacuity on the former witness of finding time-drops-fold (fixed): 02:30 fold 1 keeps fold 1. *)
Theorem time_keeps_fold_instance : let x := mkdtv (W_2013_10_27 + 2 * HOUR + HOUR / 2) true None in
  native_acc A_time x = Ok [0; 2; 30; 0; 0; 1] /\ dispatch_model A_time x = Some (Ok [1; 2; 30; 0; 0; 1]).
Proof. exact (@time_keeps_fold_instance). Qed.
Print Assumptions time_keeps_fold_instance.

(* timetz(): overridden by DateTime (generated table); a pendulum Time with exactly the native timetz()'s fields, fold and tzinfo object. *)
Theorem timetz_fields : forall x,
  exists h mi s us, native_acc A_timetz x = Ok [0; h; mi; s; us; Z.b2z (v_fold x); tz_code (v_tz x)]
    /\ dispatch_model A_timetz x = Some (Ok [1; h; mi; s; us; Z.b2z (v_fold x); tz_code (v_tz x)])
    /\ 0 <= h < 24 /\ 0 <= mi < 60 /\ 0 <= s < 60 /\ 0 <= us < 1000000
    /\ ((h * 60 + mi) * 60 + s) * 1000000 + us = v_wall x mod us_per_day.
Proof. exact (@timetz_fields). Qed.
Print Assumptions timetz_fields.

(* ... as records: type Time, the native timetz()'s fields, fold and the receiver's very tzinfo value; time() is timetz() without the tzinfo. *)
Theorem timetz_native : forall x,
  std_lookup "DateTime" "timetz" = Some (0, "DateTime"%string) /\
  pd_timetz x = (TyTime, snd (fst (fst (native_timetz x))), snd (fst (native_timetz x)), snd (native_timetz x)) /\
  snd (native_timetz x) = v_tz x /\ snd (fst (native_timetz x)) = v_fold x /\
  pd_time x = fst (pd_timetz x).
Proof. exact (@timetz_native). Qed.
Print Assumptions timetz_native.

(* Non-vacuity on the former witness of finding timetz-returns-native-time (fixed) and on fold-1 / naive values. *)
Theorem timetz_instance :
  dispatch_model A_timetz (mkdtv (W_2013_03_31 + 3 * HOUR + HOUR / 2) false (Some (tz_paris 1))) = Some (Ok [1; 3; 30; 0; 0; 0; 1]) /\
  dispatch_model A_timetz (mkdtv (W_2013_10_27 + 2 * HOUR + HOUR / 2) true (Some (tz_paris 1))) = Some (Ok [1; 2; 30; 0; 0; 1; 1]) /\
  dispatch_model A_timetz (mkdtv (W_2013_10_27 + 2 * HOUR + HOUR / 2) true None) = Some (Ok [1; 2; 30; 0; 0; 1; NONE]).
Proof. exact (@timetz_instance). Qed.
Print Assumptions timetz_instance.

(* astimezone(tz), every well-formed zone: same wall fields, fold and tzinfo as the native astimezone, of type DateTime; raises exactly when the native one raises. *)
Theorem astimezone_native : forall x tz isp,
  tz_ok tz ->
  match native_astimezone x tz, pd_astimezone x tz isp with
  | Ok r, Ok (t, r', _) => r' = r /\ t = TyDateTime
  | Raise e, Raise e' => e = e'
  | _, _ => False
  end.
Proof. exact (@astimezone_native). Qed.
Print Assumptions astimezone_native.

(* astimezone keeps the instant. *)
Theorem astimezone_same_instant : forall x tz isp t r k,
  tz_ok tz -> aware x = true ->
  (forall tx, v_tz x = Some tx -> tz_id tx = tz_id tz -> tx = tz) ->
  pd_astimezone x tz isp = Ok (t, r, k) -> instant r = instant x /\ v_tz r = Some tz.
Proof. exact (@astimezone_same_instant). Qed.
Print Assumptions astimezone_same_instant.

(* PARTIAL (FINDING astimezone-fold1-swaps-stdlib-tzinfo): the result carries the tz argument itself unless tz is a stdlib ZoneInfo and the result is the second occurrence of a repeated wall time (then ZoneInfo.fromutc's .replace(fold=1) goes through DateTime.replace and substitutes pendulum's Timezone of the same key). *)
Theorem astimezone_keeps_tzinfo_object_partial : forall x tz r t k,
  pd_astimezone x tz false = Ok (t, r, k) -> k = negb (v_fold r && negb (match v_tz x with Some tx => tz_id tx =? tz_id tz | None => false end)) \/ v_fold r = false.
Proof. exact (@astimezone_keeps_tzinfo_object). Qed.
Print Assumptions astimezone_keeps_tzinfo_object_partial.

(* fromtimestamp(t, tz): the rendering of exactly that instant in tz. *)
Theorem fromtimestamp_instant : forall tz t r,
  tz_ok tz -> pd_fromtimestamp_us tz t = Ok r ->
  instant r = EPOCH_US + t /\ v_tz r = Some tz /\ (v_wall r, v_fold r) = render (tz_zone tz) (EPOCH_US + t).
Proof. exact (@fromtimestamp_instant). Qed.
Print Assumptions fromtimestamp_instant.

(* replace(): the native replace (same fields, fold, tzinfo) whenever the target wall time is not skipped. *)
Theorem replace_native_on_valid : forall x t W f,
  v_tz x = Some t -> tz_fixed t = false -> ~ wall_skipped (tz_zone t) (sec W) ->
  pd_replace x W f = Ok (mkdtv W f (Some t)).
Proof. exact (@replace_native_on_valid). Qed.
Print Assumptions replace_native_on_valid.

(* replace() on a naive value is the native replace. *)
Theorem replace_naive : forall x W f,
  v_tz x = None -> pd_replace x W f = Ok (mkdtv W f None).
Proof. exact (@replace_naive). Qed.
Print Assumptions replace_naive.

(* replace() onto a skipped wall time normalises (C02) where the native replace keeps the impossible fields. *)
Theorem replace_skipped_refuted : let x := mkdtv W_2013_03_31 false (Some (tz_paris 1)) in
  wall_skipped paris (sec (W_2013_03_31 + 2 * HOUR + HOUR / 2)) /\
  pd_replace x (W_2013_03_31 + 2 * HOUR + HOUR / 2) true = Ok (mkdtv (W_2013_03_31 + 3 * HOUR + HOUR / 2) false (Some (tz_paris 1))).
Proof. exact (@replace_skipped_differs). Qed.
Print Assumptions replace_skipped_refuted.

(* A DateTime and the native object with the same fields and tzinfo object: equal, same hash, difference 0, <= and >= hold, < and > do not (comparison/hash are inherited and see the same fields). *)
Theorem eq_hash_native : forall x,
  native_eq x x = true /\ hash_eq x x = true /\ native_sub x x = Ok 0 /\
  native_le x x = Ok true /\ native_ge x x = Ok true /\ native_lt x x = Ok false /\ native_gt x x = Ok false.
Proof. exact (@eq_hash_native). Qed.
Print Assumptions eq_hash_native.

(* Against the native object whose tzinfo is an equal but distinct object (zoneinfo.ZoneInfo(name)): always the same hash and difference 0; == exactly when the value is not a PEP 495 problem time (CPython's inter-zone rule). *)
Theorem eq_hash_other_tzinfo : forall W f t t',
  tz_id t <> tz_id t' -> tz_zone t' = tz_zone t ->
  let x := mkdtv W f (Some t) in let x' := mkdtv W f (Some t') in
  hash_eq x x' = true /\ native_eq x x' = negb (problem_time x) /\ native_sub x x' = Ok 0 /\ native_lt x x' = Ok false /\ native_le x x' = Ok true.
Proof. exact (@eq_hash_other_tzinfo). Qed.
Print Assumptions eq_hash_other_tzinfo.

(* Equal values hash equal (Python's contract) for the native comparison/hash model. *)
Theorem eq_implies_hash_eq : forall x y,
  coherent x y -> native_eq x y = true -> hash_eq x y = true.
Proof. exact (@eq_implies_hash_eq). Qed.
Print Assumptions eq_implies_hash_eq.

(* PARTIAL: two aware values with distinct tzinfo objects (any tables): < <= > >= are the order of the instants, == implies equal instants. Missing: the same-tzinfo-object case, which is false (next theorems). *)
Theorem order_is_instant_order_partial : forall x y,
  aware x = true -> aware y = true -> same_tzobj x y = false ->
  native_lt x y = Ok (instant x <? instant y) /\ native_le x y = Ok (instant x <=? instant y) /\
  native_gt x y = Ok (instant x >? instant y) /\ native_ge x y = Ok (instant x >=? instant y) /\
  (native_eq x y = true -> instant x = instant y).
Proof. exact (@order_is_instant_order). Qed.
Print Assumptions order_is_instant_order_partial.

(* Same tzinfo object: the comparison is the wall-clock comparison (PEP 495 intra-zone rule). *)
Theorem order_same_tzinfo_is_wall_order : forall x y,
  same_tzobj x y = true ->
  native_lt x y = Ok (v_wall x <? v_wall y) /\ native_eq x y = (v_wall x =? v_wall y).
Proof. exact (@order_same_tzinfo_is_wall_order). Qed.
Print Assumptions order_same_tzinfo_is_wall_order.

(* PARTIAL: same tzinfo object and same utcoffset: the order of the instants. *)
Theorem order_same_tzinfo_same_offset_partial : forall x y,
  same_tzobj x y = true -> native_utcoffset x = native_utcoffset y ->
  native_lt x y = Ok (instant x <? instant y) /\ native_le x y = Ok (instant x <=? instant y).
Proof. exact (@order_same_tzinfo_same_offset). Qed.
Print Assumptions order_same_tzinfo_same_offset_partial.

(* FINDING same-zone-order-is-wall-order: 2013-10-27 02:30 (fold 1) < 02:40 (fold 0) in Europe/Paris although its instant is 50 minutes later; both are valid renderings. *)
Theorem order_is_instant_order_refuted : let x := mkdtv (W_2013_10_27 + 2 * HOUR + HOUR / 2) true (Some (tz_paris 1)) in
  let y := mkdtv (W_2013_10_27 + 2 * HOUR + 2 * HOUR / 3) false (Some (tz_paris 1)) in
  wf2_zone paris = true /\ aware x = true /\ aware y = true /\ native_lt x y = Ok true /\ (instant x <? instant y) = false
  /\ fst (render paris (instant x)) = v_wall x /\ fst (render paris (instant y)) = v_wall y.
Proof. exact (@order_same_zone_refuted). Qed.
Print Assumptions order_is_instant_order_refuted.

(* DateTime - DateTime is an Interval whose length is the native difference pushed through float seconds (Interval.__new__), unless the operands share a tzinfo object with different offsets. *)
Theorem sub_datetime_length : forall x y D,
  o_is_pendulum x = true -> o_is_pendulum y = true ->
  native_sub (o_val x) (o_val y) = Ok D ->
  (same_tzobj (o_val x) (o_val y) = true -> aware (o_val x) = true ->
     native_utcoffset (o_val x) = native_utcoffset (o_val y) /\ wall_in_range (instant (o_val x)) = true /\ wall_in_range (instant (o_val y)) = true) ->
  pd_sub x y = bind (td_of_float_seconds (total_seconds D)) (fun N => Ok (TyInterval, N)).
Proof. exact (@sub_datetime_length). Qed.
Print Assumptions sub_datetime_length.

(* ... hence exactly the native difference whenever timedelta(seconds=D.total_seconds()) == D. *)
Theorem sub_datetime_exact : forall x y D,
  o_is_pendulum x = true -> o_is_pendulum y = true -> native_sub (o_val x) (o_val y) = Ok D ->
  (same_tzobj (o_val x) (o_val y) = true -> aware (o_val x) = true ->
     native_utcoffset (o_val x) = native_utcoffset (o_val y) /\ wall_in_range (instant (o_val x)) = true /\ wall_in_range (instant (o_val y)) = true) ->
  td_of_float_seconds (total_seconds D) = Ok D ->
  pd_sub x y = Ok (TyInterval, D).
Proof. exact (@sub_datetime_exact). Qed.
Print Assumptions sub_datetime_exact.

(* Non-vacuity: Paris minus UTC across the 2013 gap. *)
Theorem sub_datetime_exact_instance : let x := pop (mkdtv (W_2013_03_31 + 5 * HOUR + 7) false (Some (tz_paris 1))) in
  let y := pop (mkdtv (W_2013_03_31 - HOUR) false (Some (tz_utc 2))) in
  native_sub (o_val x) (o_val y) = Ok (4 * HOUR + 7) /\ td_of_float_seconds (total_seconds (4 * HOUR + 7)) = Ok (4 * HOUR + 7)
  /\ pd_sub x y = Ok (TyInterval, 4 * HOUR + 7).
Proof. exact (@sub_datetime_exact_instance). Qed.
Print Assumptions sub_datetime_exact_instance.

(* FINDING sub-same-tzinfo-uses-instants: 03:00+02:00 - 01:00+01:00 (same Timezone object) is 2 h natively, 1 h for DateTime. *)
Theorem sub_same_tzinfo_refuted : let x := pop (mkdtv (W_2013_03_31 + 3 * HOUR) false (Some (tz_paris 1))) in
  let y := pop (mkdtv (W_2013_03_31 + 1 * HOUR) false (Some (tz_paris 1))) in
  native_sub (o_val x) (o_val y) = Ok (2 * HOUR) /\ pd_sub x y = Ok (TyInterval, 1 * HOUR).
Proof. exact (@sub_same_tzinfo_refuted). Qed.
Print Assumptions sub_same_tzinfo_refuted.

(* FINDING sub-native-operand-in-gap-normalised: a native operand on a skipped wall time is moved by instance() before subtracting. *)
Theorem sub_native_gap_refuted : let n := mkdtv (W_2013_03_31 + 2 * HOUR + HOUR / 2) false (Some (tz_paris 11)) in
  let u := mkdtv W_2013_03_31 false (Some (tz_utc 2)) in
  native_sub n u = Ok (HOUR + HOUR / 2) /\ pd_sub (nop n 1) (pop u) = Ok (TyInterval, HOUR / 2) /\ pd_sub (pop u) (nop n 1) = Ok (TyInterval, - (HOUR / 2)).
Proof. exact (@sub_native_gap_refuted). Qed.
Print Assumptions sub_native_gap_refuted.

(* FINDING sub-length-float-roundtrip: a 276-year difference comes back one microsecond off. *)
Theorem sub_float_roundtrip_refuted : let x := pop (mkdtv 179622456367079810 false None) in
  let y := pop (mkdtv (179622456367079810 - 8737602730852376) false None) in
  native_sub (o_val x) (o_val y) = Ok 8737602730852376 /\ pd_sub x y = Ok (TyInterval, 8737602730852377).
Proof. exact (@sub_float_roundtrip_refuted). Qed.
Print Assumptions sub_float_roundtrip_refuted.

(* Operands carrying FOREIGN tzinfo kinds (datetime.timezone, zoneinfo.ZoneInfo, dateutil, a user subclass; stream family dt-foreign-x): for two
   DateTime operands the subtraction depends on the identities of the tzinfo objects, their tables, the walls and the folds only - not on what
   kind of object the tzinfo is (rekind changes tz_fixed and the pendulum object instance() would attach) ... *)
Theorem sub_tzinfo_kind_irrelevant : forall x y fx fy px py,
  o_is_pendulum x = true -> o_is_pendulum y = true ->
  pd_sub (rekind x fx px) (rekind y fy py) = pd_sub x y.
Proof. exact (@sub_tzinfo_kind_irrelevant). Qed.
Print Assumptions sub_tzinfo_kind_irrelevant.

(* ... and neither do the inherited comparisons, equality and hash equality, nor the native subtraction they are compared with. *)
Theorem binary_native_tzinfo_kind_irrelevant : forall a b fa fb,
  native_sub (rekind_val a fa) (rekind_val b fb) = native_sub a b /\ native_eq (rekind_val a fa) (rekind_val b fb) = native_eq a b
  /\ (forall op, native_ord op (rekind_val a fa) (rekind_val b fb) = native_ord op a b) /\ hash_eq (rekind_val a fa) (rekind_val b fb) = hash_eq a b.
Proof. intros a b fa fb. split; [apply rekind_native_sub|]. split; [apply rekind_native_eq|]. split; [intro op; apply rekind_native_ord|apply rekind_hash_eq]. Qed.
Print Assumptions binary_native_tzinfo_kind_irrelevant.

(* Non-vacuity, and the case the compiled backend must not reject: Europe/Paris minus a DateTime carrying datetime.timezone.utc (both orders). *)
Theorem sub_foreign_utc_instance :
  let x := pop (mkdtv (W_2013_03_31 + 5 * HOUR + 7) false (Some (tz_paris 1))) in
  let y := mkop (mkdtv (W_2013_03_31 - HOUR) false (Some (mktzi 11 true (mkzone 0 [])))) true 2 in
  native_sub (o_val x) (o_val y) = Ok (4 * HOUR + 7) /\ pd_sub x y = Ok (TyInterval, 4 * HOUR + 7) /\ pd_sub y x = Ok (TyInterval, - (4 * HOUR + 7))
  /\ native_eq (o_val x) (o_val y) = false /\ native_gt (o_val x) (o_val y) = Ok true.
Proof. exact (@sub_foreign_utc_instance). Qed.
Print Assumptions sub_foreign_utc_instance.

(* date() time() timetz() astimezone() and the subtractions return pendulum types. *)
Theorem returns_pendulum_types : forall x y tz isp,
  is_pendulum_type (fst (pd_date (o_val x))) = true /\ is_pendulum_type (fst (fst (pd_time (o_val x)))) = true /\
  is_pendulum_type (fst (fst (fst (pd_timetz (o_val x))))) = true /\
  (forall t r k, pd_astimezone (o_val x) tz isp = Ok (t, r, k) -> is_pendulum_type t = true) /\
  (forall t N, pd_sub x y = Ok (t, N) -> is_pendulum_type t = true) /\
  (forall n1 n2 t N, pd_date_sub n1 n2 = Ok (t, N) -> is_pendulum_type t = true) /\
  (forall a b c d e f g h, is_pendulum_type (fst (pd_time_sub a b c d e f g h)) = true).
Proof. exact (@returns_pendulum_types). Qed.
Print Assumptions returns_pendulum_types.

(* Time - Time (extension of the native class) is a Duration of exactly the difference of the two times of day in microseconds. *)
Theorem time_sub_exact : forall h1 m1 s1 us1 h2 m2 s2 us2,
  pd_time_sub h1 m1 s1 us1 h2 m2 s2 us2 = (TyDuration, (((h1 * 60 + m1) * 60 + s1) * 1000000 + us1) - (((h2 * 60 + m2) * 60 + s2) * 1000000 + us2)).
Proof. exact (@time_sub_exact). Qed.
Print Assumptions time_sub_exact.

(* FixedTimezone.utcoffset/dst/fromutc are the fixed zone's. *)
Theorem fixed_timezone_native : forall o W,
  fixed_utcoffset o = off_utc (fixed_zone o) W /\ fixed_dst o = 0 /\
  (forall W', fixed_fromutc o W = Ok W' -> W' = fst (render (fixed_zone o) W)).
Proof. exact (@fixed_timezone_native). Qed.
Print Assumptions fixed_timezone_native.

(* __str__ (overridden by DateTime) is the inherited isoformat with a blank separator; for_json is isoformat(); format(x, "") is str(x); the separator does not change the length. The character-level model is compared with str()/isoformat()/for_json()/format() of the implementation on every unary case. *)
Theorem str_is_isoformat : forall x,
  std_lookup "DateTime" "__str__" = Some (0, "DateTime"%string) /\ std_lookup "DateTime" "isoformat" = Some (1, "datetime"%string) /\
  std_lookup "DateTime" "__format__" = Some (0, "FormattableMixin"%string) /\
  pd_str x = native_isoformat 32 x /\ pd_for_json x = native_isoformat 84 x /\ pd_format_empty x = native_isoformat 32 x /\
  (forall sep, List.length (native_isoformat sep x) = List.length (native_isoformat 32 x)).
Proof. exact (@str_is_isoformat). Qed.
Print Assumptions str_is_isoformat.

(* ---- the specification side itself: the NATIVE semantics used above (Spec/TdFloat.v td_norm / td_of_int_args, Spec/NativeDT.v ndt_add_td /
   ndt_replace_ymd, Model/DropIn.v native_utcoffset / native_sub / cmp_key / native_ord / native_eq) EQUALS the machine translation of
   CPython's pure-Python reference implementation _pydatetime.py (Gen/StdlibDT.v: regenerated on every run from the staged interpreter's
   standard library; each function partially evaluated under the assumptions written next to it, see tools/vlib/gens/g14_stdlib_dt.py).
   Bridge (Proofs/StdlibDTFacts.v): sdtm_of x = the datetime object whose slots are fields_of_wall (v_wall x), fold, and a tzinfo object that
   answers utcoffset(dt) with off_local of its table (identity = tz_id); std_of_us N = the timedelta object (td_norm N);
   off_ok x = every utcoffset() of x's tzinfo lies strictly between -24h and +24h (what _check_utc_offset tests). ---- *)
From PV Require Import Model.StdlibDTObj Gen.StdlibCal Gen.StdlibDT Proofs.StdlibDTFacts.

(* timedelta(days, seconds, microseconds, milliseconds, minutes, hours, weeks) on ANY integers: the normal form td_norm of the exact
   microsecond count, OverflowError iff |days| > 999999999; none of the function's assertions can fail *)
Theorem spec_is_stdlib_timedelta_new : forall d s us ms mi h w,
  sl_timedelta_new d s us ms mi h w =
  match td_of_int_args d s us ms mi h w with Ok N => Ok (std_of_us N) | Raise e => Raise e end.
Proof. exact sl_timedelta_new_spec. Qed.
Print Assumptions spec_is_stdlib_timedelta_new.

Theorem spec_is_stdlib_timedelta_add : forall a b,
  sl_timedelta_add (std_of_us a) (std_of_us b) = if td_in_range (a + b) then Ok (std_of_us (a + b)) else Raise E_OverflowError.
Proof. exact td_add_us. Qed.
Print Assumptions spec_is_stdlib_timedelta_add.

Theorem spec_is_stdlib_timedelta_sub : forall a b,
  sl_timedelta_sub (std_of_us a) (std_of_us b) = if td_in_range (a - b) then Ok (std_of_us (a - b)) else Raise E_OverflowError.
Proof. exact td_sub_us. Qed.
Print Assumptions spec_is_stdlib_timedelta_sub.

Theorem spec_is_stdlib_timedelta_neg : forall a,
  sl_timedelta_neg (std_of_us a) = if td_in_range (- a) then Ok (std_of_us (- a)) else Raise E_OverflowError.
Proof. exact td_neg_us. Qed.
Print Assumptions spec_is_stdlib_timedelta_neg.

(* datetime.utcoffset(): None for a naive value, else the tzinfo's answer (after _check_utc_offset) *)
Theorem spec_is_stdlib_datetime_utcoffset : forall x, off_ok x ->
  sl_datetime_utcoffset (sdtm_of x) = Ok (otd (native_utcoffset x)).
Proof. exact sl_utcoffset_spec. Qed.
Print Assumptions spec_is_stdlib_datetime_utcoffset.

(* datetime - datetime: the same tzinfo OBJECT => the wall difference (fold and offsets ignored); otherwise equal utcoffsets => wall difference,
   one naive => TypeError, else the difference of the instants *)
Theorem spec_is_stdlib_datetime_sub : forall x y,
  off_ok x -> off_ok y -> wall_in_range (v_wall x) = true -> wall_in_range (v_wall y) = true ->
  sl_datetime_sub (sdtm_of x) (sdtm_of y) = match native_sub x y with Ok N => Ok (std_of_us N) | Raise e => Raise e end.
Proof. exact sl_datetime_sub_spec. Qed.
Print Assumptions spec_is_stdlib_datetime_sub.

(* datetime._cmp(other) (the ordering operators): same tzinfo object => order of the walls, both aware => order of the instants,
   naive against aware => TypeError *)
Theorem spec_is_stdlib_datetime_cmp : forall x y,
  off_ok x -> off_ok y -> wall_in_range (v_wall x) = true -> wall_in_range (v_wall y) = true ->
  sl_datetime_cmp (sdtm_of x) (sdtm_of y) false =
  match cmp_key x y with None => Raise E_TypeError | Some (a, b) => Ok (cmp3 a b) end.
Proof. exact sl_datetime_cmp_ord. Qed.
Print Assumptions spec_is_stdlib_datetime_cmp.

(* datetime.__eq__ = (_cmp(other, allow_mixed=True) == 0): never raises, and is native_eq incl. the PEP 495 inter-zone exception
   (a value whose utcoffset depends on fold is unequal to everything carrying another tzinfo object) *)
Theorem spec_is_stdlib_datetime_eq : forall x y,
  off_ok x -> off_ok y -> wall_in_range (v_wall x) = true -> wall_in_range (v_wall y) = true ->
  exists c, sl_datetime_cmp (sdtm_of x) (sdtm_of y) true = Ok c /\ (c =? 0) = native_eq x y.
Proof. exact sl_datetime_cmp_eq. Qed.
Print Assumptions spec_is_stdlib_datetime_eq.

(* _cmp on the field tuples is the order of the wall values *)
Theorem spec_is_stdlib_field_order : forall a b, sl_cmp7 (fields_of_wall a) (fields_of_wall b) = cmp3 a b.
Proof. exact cmp7_fields. Qed.
Print Assumptions spec_is_stdlib_field_order.

(* datetime + timedelta: the wall moves by the timedelta, fold is RESET to 0, tzinfo kept; OverflowError iff the result leaves years 1..9999 *)
Theorem spec_is_stdlib_datetime_add : forall x N, wall_in_range (v_wall x) = true -> td_in_range N = true ->
  sl_datetime_add (sdtm_of x) (std_of_us N) =
  if wall_in_range (v_wall x + N) then Ok (sdtm_of (mkdtv (v_wall x + N) false (v_tz x))) else Raise E_OverflowError.
Proof. exact sl_datetime_add_spec. Qed.
Print Assumptions spec_is_stdlib_datetime_add.

(* dt + timedelta(days=, hours=, minutes=, seconds=, microseconds=) = Spec/NativeDT.v ndt_add_td on a datetime, all integer arguments *)
Theorem spec_is_stdlib_datetime_add_ndt : forall x days hours minutes seconds us, wall_in_range (v_wall x) = true ->
  match sl_timedelta_new days seconds us 0 minutes hours 0 with Ok td => sl_datetime_add (sdtm_of x) td | Raise e => Raise e end
  = match ndt_add_td (mkndt (v_wall x) true) days hours minutes seconds us with
    | Ok r => Ok (sdtm_of (mkdtv (n_wall r) false (v_tz x))) | Raise e => Raise e end.
Proof. exact sl_datetime_add_is_ndt_add_td. Qed.
Print Assumptions spec_is_stdlib_datetime_add_ndt.

(* date + timedelta = ndt_add_td on a date (only the day part of the timedelta counts) *)
Theorem spec_is_stdlib_date_add_ndt : forall y m d days hours minutes seconds us, valid_dateb y m d = true ->
  match sl_timedelta_new days seconds us 0 minutes hours 0 with Ok td => sl_date_add (mkdate y m d) td | Raise e => Raise e end
  = match ndt_add_td (mkndt ((ymd2ord y m d - 1) * us_per_day) false) days hours minutes seconds us with
    | Ok r => let '(y', m', d') := ord2ymd (n_wall r / us_per_day + 1) in Ok (mkdate y' m' d') | Raise e => Raise e end.
Proof. exact sl_date_add_is_ndt_add_td. Qed.
Print Assumptions spec_is_stdlib_date_add_ndt.

Theorem spec_is_stdlib_date_sub : forall y1 m1 d1 y2 m2 d2, valid_dateb y1 m1 d1 = true -> valid_dateb y2 m2 d2 = true ->
  sl_date_sub (mkdate y1 m1 d1) (mkdate y2 m2 d2) =
  let N := (ymd2ord y1 m1 d1 - ymd2ord y2 m2 d2) * us_per_day in
  if td_in_range N then Ok (std_of_us N) else Raise E_OverflowError.
Proof. exact sl_date_sub_spec. Qed.
Print Assumptions spec_is_stdlib_date_sub.

(* datetime.replace(year=, month=, day=) = ndt_replace_ymd: ValueError iff the date is impossible or the year is outside 1..9999;
   time of day, fold and tzinfo are kept *)
Theorem spec_is_stdlib_datetime_replace : forall x y m d,
  sl_datetime_replace_ymd (sdtm_of x) (Some y) (Some m) (Some d) =
  match ndt_replace_ymd (mkndt (v_wall x) true) y m d with
  | Ok r => Ok (sdtm_of (mkdtv (n_wall r) (v_fold x) (v_tz x))) | Raise e => Raise e end.
Proof. exact sl_datetime_replace_spec. Qed.
Print Assumptions spec_is_stdlib_datetime_replace.

Theorem spec_is_stdlib_dt_examples :
  sl_timedelta_new 1 (-1) 0 0 0 25 0 = Ok (mkstd 2 3599 0) /\ sl_timedelta_new 1000000000 0 0 0 0 0 0 = Raise E_OverflowError /\
  sl_datetime_add (mksdtm 9999 12 31 23 0 0 0 1 None) (mkstd 0 3600 0) = Raise E_OverflowError /\
  sl_datetime_add (mksdtm 2024 2 28 23 0 0 0 1 None) (mkstd 0 3600 0) = Ok (mksdtm 2024 2 29 0 0 0 0 0 None) /\
  sl_datetime_cmp (mksdtm 2024 1 1 0 0 0 0 0 None) (mksdtm 2024 1 1 0 0 0 0 0 (Some (mkstz 1 (fun _ _ => Some (mkstd 0 0 0))))) false
    = Raise E_TypeError /\
  sl_datetime_replace_ymd (mksdtm 2024 2 29 1 2 3 4 1 None) (Some 2023) None None = Raise E_ValueError.
Proof. exact sl_dt_examples. Qed.
Print Assumptions spec_is_stdlib_dt_examples.

(* ---- THE MODEL IS THE CODE (override bodies).  Gen/DropInMethods.v is translated from /repo's src/pendulum/datetime.py and mixins/default.py on every run
   (tools/vlib/pyfloat2gallina.py + gens/g71_dropin_methods.py): DateTime.date(), time() (with fold=self.fold: the repaired finding), timetz() (tzinfo and
   fold), __str__, FormattableMixin.for_json and __format__("") and DateTime.fromordinal.  The hand models pd_date / pd_time / pd_timetz / pd_str /
   pd_for_json / pd_format_empty / pd_fromordinal of Model/DropIn.v (what dispatch_model answers for an overridden accessor) EQUAL that translation for every
   value; Time.__sub__ (translated whole for C20) returns the number pd_time_sub computes.  create / replace / instance / astimezone and FixedTimezone's
   methods: next block.  Still hand + pinned (pinned_sources): __sub__ / __rsub__ with Interval.__new__ (interval_length), fromtimestamp / utcfromtimestamp,
   the one-line wrappers combine / strptime (instance of a native constructor), Date.__sub__, _cmp. *)
From PV Require Import Model.DropInPrims Gen.DropInMethods Proofs.DropInMethodsFacts.
From PV Require Import Model.TimeBase Gen.TimeMethods.

Theorem model_is_code_dropin_date : forall x, gen_DateTime_date x = pd_date x.
Proof. exact gen_date_eq. Qed.
Print Assumptions model_is_code_dropin_date.

Theorem model_is_code_dropin_time : forall x, gen_DateTime_time x = pd_time x.
Proof. exact gen_time_eq. Qed.
Print Assumptions model_is_code_dropin_time.

Theorem model_is_code_dropin_timetz : forall x, gen_DateTime_timetz x = pd_timetz x.
Proof. exact gen_timetz_eq. Qed.
Print Assumptions model_is_code_dropin_timetz.

Theorem model_is_code_dropin_str_for_json_format : forall x,
  gen_DateTime_str x = pd_str x /\ gen_for_json x = pd_for_json x /\ gen_format_empty x = pd_format_empty x.
Proof. exact gen_strings_eq. Qed.
Print Assumptions model_is_code_dropin_str_for_json_format.

Theorem model_is_code_dropin_fromordinal : forall n, gen_DateTime_fromordinal n = pd_fromordinal n.
Proof. exact gen_fromordinal_eq. Qed.
Print Assumptions model_is_code_dropin_fromordinal.

Theorem model_is_code_dropin_time_sub : forall t o,
  gen_Time___sub___time t o
  = snd (pd_time_sub (t_hour t) (t_minute t) (t_second t) (t_microsecond t) (t_hour o) (t_minute o) (t_second o) (t_microsecond o)).
Proof. exact time_sub_is_pd_time_sub. Qed.
Print Assumptions model_is_code_dropin_time_sub.

(* ---- THE MODEL IS THE CODE (create / replace / instance / astimezone, FixedTimezone).  Gen/TzGlue.v holds the bodies of DateTime.create / replace / instance /
   astimezone and FixedTimezone.utcoffset / fromutc translated from /repo on every run (g15_tz_glue.py; proved equal to Model/TzConvert.v in Proofs/TzGlueFacts.v),
   Gen/DropInMethods.v the body of FixedTimezone.dst.  Proofs/DropInGlueFacts.v carries them over to THIS property's hand models: a glue timezone object t is the
   tzinfo tzi_of t, a glue datetime d the value dtv_of d, rmap maps a result.  pd_create, pd_replace (every argument of replace() optional), pd_instance (value with
   a pendulum timezone object, or naive with either fold) and pd_astimezone (aware value, coherent tables) answer what the translated code answers.
   History: this tie found that pd_instance answered fold 0 for a NAIVE value whose fold is 1 while the code keeps the fold (instance(dt, tz=None) = create(...,
   tz=None, fold=dt.fold): DateTime.combine(date, time(fold=1)) is a naive DateTime with fold 1); the model was corrected and the naive combine cases of the run
   now carry both folds. *)
From PV Require Import Model.TzGlueObj Gen.TzGlue Proofs.TzGlueFacts Proofs.DropInGlueFacts.

Theorem model_is_code_dropin_create : forall tzo y m d h mi s us f,
  fields_ok y m d h mi s us -> wall_in_range (wall_of y m d h mi s us) = true ->
  rmap dtv_of (glue_DateTime_create y m d h mi s us tzo (Z.b2z f) false) = pd_create (option_map tzi_of tzo) (wall_of y m d h mi s us) f.
Proof. exact glue_create_is_pd_create. Qed.
Print Assumptions model_is_code_dropin_create.

Theorem model_is_code_dropin_replace : forall x oy om od oh omi os ous (ofold : option bool),
  let y := dflt oy (g_year x) in let m := dflt om (g_month x) in let d := dflt od (g_day x) in let h := dflt oh (g_hour x) in
  let mi := dflt omi (g_minute x) in let s := dflt os (g_second x) in let us := dflt ous (g_microsecond x) in
  let f := match ofold with None => g_foldb x | Some f => f end in
  (g_fold x = 0 \/ g_fold x = 1) -> fields_ok y m d h mi s us -> wall_in_range (wall_of y m d h mi s us) = true ->
  rmap dtv_of (glue_DateTime_replace_keep x oy om od oh omi os ous (option_map Z.b2z ofold)) = pd_replace (dtv_of x) (wall_of y m d h mi s us) f.
Proof. exact glue_replace_is_pd_replace. Qed.
Print Assumptions model_is_code_dropin_replace.

Theorem model_is_code_dropin_instance : forall tzo W f pid, wall_in_range W = true ->
  match tzo with Some t => pid = gz_id t | None => True end ->
  rmap dtv_of (glue_DateTime_instance (dt_of W f tzo) None) = pd_instance (dtv_of (dt_of W f tzo)) pid.
Proof. exact glue_instance_is_pd_instance. Qed.
Print Assumptions model_is_code_dropin_instance.

Theorem model_is_code_dropin_astimezone : forall t1 tz W f isp,
  gtz_ok t1 -> gtz_ok tz -> same_obj t1 tz -> tz_ok (tzi_of tz) -> wall_in_range W = true ->
  match pd_astimezone (dtv_of (dt_of W f (Some t1))) (tzi_of tz) isp, rmap dtv_of (glue_DateTime_astimezone (dt_of W f (Some t1)) tz) with
  | Ok (ty, r, _), Ok r' => r = r' /\ ty = TyDateTime
  | Raise e, Raise e' => e = e'
  | _, _ => False
  end.
Proof. exact glue_astimezone_is_pd_astimezone. Qed.
Print Assumptions model_is_code_dropin_astimezone.

Theorem model_is_code_dropin_fixed_timezone : forall tz od d,
  glue_FixedTimezone_utcoffset tz od = MEG * fixed_utcoffset (gz_off tz) /\
  gen_FixedTimezone_dst = fixed_dst (gz_off tz) /\
  glue_FixedTimezone_fromutc tz d = rmap (fun W => mkgdt W 0 (Some tz)) (fixed_fromutc (gz_off tz) (g_wall d)).
Proof. exact glue_fixed_is_model. Qed.
Print Assumptions model_is_code_dropin_fixed_timezone.

(* ---- process-wide configuration and the drop-in methods (Model/DropInCfg.v; streams dt-cfg-...) ---- *)
(* A configuration call that was rejected, anywhere in the history, leaves no trace. *)
Theorem failed_set_keeps_configuration : forall c h1 h2, run_cfg c (h1 ++ Rejected :: h2) = run_cfg c (h1 ++ h2).
Proof. exact rejected_anywhere_leaves_no_trace. Qed.
Print Assumptions failed_set_keeps_configuration.

(* The configured local timezone is the last successfully set value; set_local_timezone() and leaving a test_local_timezone block give the system zone back. *)
Theorem local_timezone_is_last_set : forall sys c h z,
  pd_local_timezone sys (run_cfg c (h ++ [SetLocalTz (Some z)])) = z /\
  pd_local_timezone sys (run_cfg c (h ++ [SetLocalTz None])) = sys /\
  pd_local_timezone sys (run_cfg c (h ++ [TestEnter z; TestExit])) = sys.
Proof. exact local_timezone_last_set. Qed.
Print Assumptions local_timezone_is_last_set.

(* astimezone on a naive DateTime answers the same after every history of set_local_timezone / test_local_timezone / rejected calls. *)
Theorem naive_astimezone_independent_of_history : forall sys h1 h2 x tz isp,
  astimezone_after sys h1 x tz isp = astimezone_after sys h2 x tz isp.
Proof. exact astimezone_naive_independent_of_history. Qed.
Print Assumptions naive_astimezone_independent_of_history.

(* ... namely what the native naive datetime answers (the value read in the SYSTEM zone), as a DateTime carrying the tz argument (results that are not the second occurrence of a repeated wall time). *)
Theorem naive_astimezone_is_native : forall sys h x tz isp r,
  native_astimezone_naive sys x tz = Ok r -> v_fold r = false ->
  astimezone_after sys h x tz isp = Ok (TyDateTime, r, true).
Proof. exact astimezone_naive_is_native. Qed.
Print Assumptions naive_astimezone_is_native.

(* System zone UTC (the staged environment): the result denotes the instant whose UTC wall clock is the naive value. *)
Theorem naive_astimezone_utc_instant : forall x tz r, wf_zone (tz_zone tz) = true ->
  native_astimezone_naive (fixed_zone 0) x tz = Ok r -> instant r = v_wall x /\ v_tz r = Some tz.
Proof. exact astimezone_naive_utc_instant. Qed.
Print Assumptions naive_astimezone_utc_instant.

(* Reading the configured zone instead (the class of change the dt-cfg streams look for) is NOT the native answer. *)
Theorem naive_astimezone_configured_zone_refuted :
  exists x tz z, native_astimezone_naive (pd_local_timezone (fixed_zone 0) (run_cfg cfg0 [SetLocalTz (Some z)])) x tz
                 <> native_astimezone_naive (fixed_zone 0) x tz.
Proof. exact configured_zone_reading_refuted. Qed.
Print Assumptions naive_astimezone_configured_zone_refuted.

(* ---- FormattableMixin.__format__ routing (streams fmt-route, fmt-spec-...) ---- *)
(* The empty spec is str(self); a spec with a '%' anywhere - plain, flagged (%-d %_d %^b %#Z), with a width (%4Y), %:z, %%, a trailing % - goes to strftime, exactly the native routing. *)
Theorem format_percent_spec_is_strftime : fmt_route [] = 0 /\ native_fmt_route [] = 0 /\
  forall spec, In 37 spec -> fmt_route spec = native_fmt_route spec /\ fmt_route spec = 1.
Proof. exact fmt_route_percent_all. Qed.
Print Assumptions format_percent_spec_is_strftime.

(* The routing leaves the native one exactly on the non-empty specs without '%': pendulum's token language (documented extension of format()). *)
Theorem format_route_differs_only_without_percent : forall spec, fmt_route spec <> native_fmt_route spec <-> (spec <> [] /\ ~ In 37 spec).
Proof. exact fmt_route_differs_iff. Qed.
Print Assumptions format_route_differs_only_without_percent.
