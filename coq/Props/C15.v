(* Props/C15.v — calendar primitives agree with the proleptic Gregorian calendar in both backends.
   Only theorem statements; every proof is `exact <lemma>`.  py_* are regenerated from /repo on every
   run (Gen/), rs_* are the hand model of rust/src/helpers.rs (tied by correspondence). Spec = Spec/Cal.v. *)
From Coq Require Import ZArith Bool.
From PV Require Import Lib.PyBase Spec.Cal Proofs.CalFacts Proofs.C15Facts Proofs.LocalTime.
From PV Require Import Gen.Constants Gen.Helpers Gen.DateGetters Gen.RustConstants Model.RustHelpers.
Open Scope Z_scope.

(* the reference calendar is a bijection between ordinals and valid dates, every year *)
Theorem cal_ord2ymd_ymd2ord : forall y m d, valid_dateb y m d = true -> ord2ymd (ymd2ord y m d) = (y, m, d).
Proof. exact ord2ymd_ymd2ord. Qed.
Print Assumptions cal_ord2ymd_ymd2ord.

Theorem cal_ord2ymd_valid : forall n, let '(y, m, d) := ord2ymd n in valid_dateb y m d = true /\ ymd2ord y m d = n.
Proof. exact ord2ymd_spec. Qed.
Print Assumptions cal_ord2ymd_valid.

Theorem is_leap_py_spec : forall y, py_is_leap y = is_leap y.
Proof. exact py_is_leap_spec. Qed.
Print Assumptions is_leap_py_spec.

Theorem is_leap_rs_spec : forall y, 0 <= y -> rs_is_leap y = is_leap y.
Proof. exact rs_is_leap_spec. Qed.
Print Assumptions is_leap_rs_spec.

Theorem days_in_year_py_spec : forall y, py_days_in_year y = days_in_year y.
Proof. exact py_days_in_year_spec. Qed.
Print Assumptions days_in_year_py_spec.

Theorem days_in_year_rs_spec : forall y, 0 <= y -> rs_days_in_year y = days_in_year y.
Proof. exact rs_days_in_year_spec. Qed.
Print Assumptions days_in_year_rs_spec.

Theorem week_day_py_iso : forall y m d, 1 <= m <= 12 -> py_week_day y m d = iso_weekday (ymd2ord y m d).
Proof. exact py_week_day_spec. Qed.
Print Assumptions week_day_py_iso.

Theorem week_day_rs_iso : forall y m d, 1 <= y -> 1 <= m <= 12 -> 0 <= d -> rs_week_day y m d = iso_weekday (ymd2ord y m d).
Proof. exact rs_week_day_spec. Qed.
Print Assumptions week_day_rs_iso.

Theorem is_long_year_py_iso : forall y, py_is_long_year y = (iso_weeks_in_year y =? 53).
Proof. exact py_is_long_year_spec. Qed.
Print Assumptions is_long_year_py_iso.

Theorem is_long_year_rs_eq_py : forall y, 1 <= y -> rs_is_long_year y = py_is_long_year y.
Proof. exact rs_is_long_year_eq_py. Qed.
Print Assumptions is_long_year_rs_eq_py.

Theorem iso_weeks_is_52_or_53 : forall y, iso_weeks_in_year y = 52 \/ iso_weeks_in_year y = 53.
Proof. exact iso_weeks_52_53. Qed.
Print Assumptions iso_weeks_is_52_or_53.

(* Date.is_long_year looks at the ISO week of December 28 *)
Theorem dec28_week_is_weeks_in_year : forall y, snd (fst (isocalendar y 12 28)) = iso_weeks_in_year y.
Proof. exact dec28_week. Qed.
Print Assumptions dec28_week_is_weeks_in_year.

Theorem day_of_year_closed_form : forall y m d, 1 <= m <= 12 ->
  py_Date_day_of_year (mkdate y m d) = days_before_month y m + d.
Proof. exact py_day_of_year_spec. Qed.
Print Assumptions day_of_year_closed_form.

Theorem quarter_spec : forall y m d, py_Date_quarter (mkdate y m d) = (m + 2) / 3.
Proof. exact py_quarter_spec. Qed.
Print Assumptions quarter_spec.

Theorem week_of_month_spec : forall y m d,
  py_Date_week_of_month (mkdate y m d) = (d + weekday0 (ymd2ord y m 1) - 1) / 7 + 1.
Proof. exact py_week_of_month_spec. Qed.
Print Assumptions week_of_month_spec.

(* broken-down time of a Unix timestamp at an offset: EVERY integer timestamp and offset (no range), both backends.
   local_time_spec S us = (fields of ord2ymd (S div 86400 + 719163), hour/minute/second of S mod 86400, us). *)
Theorem local_time_py_spec : forall t off us, py_local_time t off us = Some (local_time_spec (t + off) us).
Proof. exact py_local_time_spec. Qed.
Print Assumptions local_time_py_spec.

Theorem local_time_rs_eq_py : forall t off us, rs_local_time t off us = py_local_time t off us.
Proof. exact rs_local_time_eq_py. Qed.
Print Assumptions local_time_rs_eq_py.

Theorem local_time_rs_spec : forall t off us, rs_local_time t off us = Some (local_time_spec (t + off) us).
Proof. exact rs_local_time_spec. Qed.
Print Assumptions local_time_rs_spec.

(* ---- the specification side itself: Spec/Cal.v is EQUAL to the machine translation of CPython's pure-Python reference
   implementation `_pydatetime.py` (Gen/StdlibCal.v: regenerated on every run from the staged interpreter's standard library;
   `assert` -> Raise E_Exception, so `= Ok _` also states that no assertion of the stdlib source fails).
   No bound on the year or the ordinal except where the stdlib function itself checks one. ---- *)
From PV Require Import Gen.StdlibCal Proofs.StdlibCalFacts.

Theorem spec_is_stdlib_is_leap : forall y, sl_is_leap y = is_leap y.
Proof. exact sl_is_leap_spec. Qed.
Print Assumptions spec_is_stdlib_is_leap.

Theorem spec_is_stdlib_days_before_year : forall y, sl_days_before_year y = days_before_year y.
Proof. exact sl_days_before_year_spec. Qed.
Print Assumptions spec_is_stdlib_days_before_year.

Theorem spec_is_stdlib_days_in_month : forall y m,
  sl_days_in_month y m = if (1 <=? m) && (m <=? 12) then Ok (dim y m) else Raise E_Exception.
Proof. exact sl_days_in_month_spec. Qed.
Print Assumptions spec_is_stdlib_days_in_month.

Theorem spec_is_stdlib_days_before_month : forall y m,
  sl_days_before_month y m = if (1 <=? m) && (m <=? 12) then Ok (days_before_month y m) else Raise E_Exception.
Proof. exact sl_days_before_month_spec. Qed.
Print Assumptions spec_is_stdlib_days_before_month.

(* _ymd2ord: defined exactly on the specification's valid dates (every year, also <= 0), and equal there *)
Theorem spec_is_stdlib_ymd2ord : forall y m d,
  sl_ymd2ord y m d = if valid_dateb y m d then Ok (ymd2ord y m d) else Raise E_Exception.
Proof. exact sl_ymd2ord_spec. Qed.
Print Assumptions spec_is_stdlib_ymd2ord.

Theorem spec_is_stdlib_ymd2ord_valid : forall y m d, valid_dateb y m d = true -> sl_ymd2ord y m d = Ok (ymd2ord y m d).
Proof. exact sl_ymd2ord_ok. Qed.
Print Assumptions spec_is_stdlib_ymd2ord_valid.

(* _ord2ymd: EVERY integer ordinal (the stdlib only calls it with n >= 1); none of its four assertions can fail *)
Theorem spec_is_stdlib_ord2ymd : forall n, sl_ord2ymd n = Ok (ord2ymd n).
Proof. exact sl_ord2ymd_spec. Qed.
Print Assumptions spec_is_stdlib_ord2ymd.

Theorem spec_is_stdlib_isoweek1monday : forall y, sl_isoweek1monday y = Ok (iso_week1_monday y).
Proof. exact sl_isoweek1monday_spec. Qed.
Print Assumptions spec_is_stdlib_isoweek1monday.

Theorem spec_is_stdlib_toordinal : forall y m d,
  sl_date_toordinal (mkdate y m d) = if valid_dateb y m d then Ok (ymd2ord y m d) else Raise E_Exception.
Proof. exact sl_date_toordinal_spec. Qed.
Print Assumptions spec_is_stdlib_toordinal.

Theorem spec_is_stdlib_weekday : forall y m d, valid_dateb y m d = true ->
  sl_date_weekday (mkdate y m d) = Ok (weekday0 (ymd2ord y m d)).
Proof. exact sl_date_weekday_spec. Qed.
Print Assumptions spec_is_stdlib_weekday.

Theorem spec_is_stdlib_isoweekday : forall y m d, valid_dateb y m d = true ->
  sl_date_isoweekday (mkdate y m d) = Ok (iso_weekday (ymd2ord y m d)).
Proof. exact sl_date_isoweekday_spec. Qed.
Print Assumptions spec_is_stdlib_isoweekday.

Theorem spec_is_stdlib_isocalendar : forall y m d, valid_dateb y m d = true ->
  sl_date_isocalendar (mkdate y m d) = Ok (isocalendar y m d).
Proof. exact sl_date_isocalendar_spec. Qed.
Print Assumptions spec_is_stdlib_isocalendar.

(* _isoweek_to_gregorian = the arithmetic of date.fromisocalendar: accepted exactly for years 1..9999, weeks 1..iso_weeks_in_year,
   weekdays 1..7 (ValueError otherwise), and then the date of the specification's ordinal *)
Theorem spec_is_stdlib_fromisocalendar : forall y w d,
  sl_isoweek_to_gregorian y w d =
  if isoweek_args_ok y w d then Ok (ord2ymd (fromisocalendar_ord y w d)) else Raise E_ValueError.
Proof. exact sl_isoweek_to_gregorian_spec. Qed.
Print Assumptions spec_is_stdlib_fromisocalendar.

Theorem spec_is_stdlib_fromisocalendar_valid : forall y w d,
  1 <= y <= 9999 -> 1 <= w <= iso_weeks_in_year y -> 1 <= d <= 7 ->
  sl_isoweek_to_gregorian y w d = Ok (ord2ymd (fromisocalendar_ord y w d)).
Proof. exact sl_isoweek_to_gregorian_ok. Qed.
Print Assumptions spec_is_stdlib_fromisocalendar_valid.

(* what date(y, m, d) accepts (_check_date_fields) is the specification's valid_dateb for years 1..9999 *)
Theorem spec_is_stdlib_check_date_fields : forall y m d,
  sl_check_date_fields y m d =
  if (1 <=? y) && (y <=? 9999) && valid_dateb y m d then Ok (y, m, d) else Raise E_ValueError.
Proof. exact sl_check_date_fields_spec. Qed.
Print Assumptions spec_is_stdlib_check_date_fields.

(* the month estimate `(n + 50) >> 5` of _ord2ymd never leaves the month tables (no IndexError is hidden by the table-lookup model);
   a hand-stated side fact about that expression *)
Theorem spec_is_stdlib_ord2ymd_month_estimate_in_table : forall k, 0 <= k <= 365 -> 1 <= Z.shiftr (k + 50) 5 <= 12.
Proof. exact sl_ord2ymd_month_estimate_in_table. Qed.
Print Assumptions spec_is_stdlib_ord2ymd_month_estimate_in_table.

(* the hypotheses above are satisfiable / the functions compute *)
Theorem spec_is_stdlib_examples :
  valid_dateb 2024 2 29 = true /\ sl_ymd2ord 2024 2 29 = Ok 738945 /\ sl_ord2ymd 738945 = Ok (2024, 2, 29) /\
  sl_date_isocalendar (mkdate 2024 12 30) = Ok (2025, 1, 1) /\ sl_isoweek_to_gregorian 2020 53 7 = Ok (2021, 1, 3) /\
  sl_isoweek_to_gregorian 2021 53 1 = Raise E_ValueError /\ sl_ord2ymd 0 = Ok (0, 12, 31) /\
  sl_ymd2ord 2023 2 29 = Raise E_Exception.
Proof. exact sl_examples. Qed.
Print Assumptions spec_is_stdlib_examples.

(* ---- THE MODEL IS THE COMPILED CODE.  Gen/RustHelpersGen.v is translated from /repo's rust/src/helpers.rs on every run by the Rust-subset translator
   tools/vlib/rust2gallina.py (tokenizer + recursive-descent parser; fails closed outside its subset) with Rust's semantics made explicit: the crate is
   built with overflow-checks = false, so every + - * and unary - is wrapped into its operand type (Model/RustInt.v), / and % truncate (Z.quot / Z.rem),
   `as` casts wrap unless every value of the source type fits, table indexing is tidx on the translated constants, the four `while` loops of local_time are
   fuel-based Fixpoints (fuels 4, 25, 4, 13 as in the hand model).  The hand model Model/RustHelpers.v, about which every Rust-side theorem above (and C06,
   C07, C12, C16 ...) speaks, EQUALS that translation: is_leap and days_in_year for EVERY integer, the others on explicit input ranges inside which no
   operation wraps (far larger than what the extension is called with: years 1..9999, months 1..12, days 1..31, |unix_time| < 2.6e11). *)
From PV Require Import Model.RustInt Gen.RustHelpersGen Proofs.RustHelpersGenFacts.

Theorem model_is_code_rs_is_leap : forall y, gen_rs_is_leap y = rs_is_leap y.
Proof. exact gen_rs_is_leap_eq. Qed.
Print Assumptions model_is_code_rs_is_leap.

Theorem model_is_code_rs_days_in_year : forall y, gen_rs_days_in_year y = rs_days_in_year y.
Proof. exact gen_rs_days_in_year_eq. Qed.
Print Assumptions model_is_code_rs_days_in_year.

Theorem model_is_code_rs_is_long_year : forall y, -1000000000 < y <= 1000000000 -> gen_rs_is_long_year y = rs_is_long_year y.
Proof. exact gen_rs_is_long_year_eq. Qed.
Print Assumptions model_is_code_rs_is_long_year.

Theorem model_is_code_rs_week_day : forall y m d, -100000000 <= y <= 100000000 -> 1 <= m <= 12 -> 0 <= d <= 100000000 ->
  gen_rs_week_day y m d = rs_week_day y m d.
Proof. exact gen_rs_week_day_eq. Qed.
Print Assumptions model_is_code_rs_week_day.

Theorem model_is_code_rs_day_number : forall y m d, -1000000 <= y <= 1000000 -> 1 <= m <= 12 -> 0 <= d <= 255 ->
  gen_rs_day_number y m d = rs_day_number y m d.
Proof. exact gen_rs_day_number_eq. Qed.
Print Assumptions model_is_code_rs_day_number.

(* local_time(unix_time, utc_offset, microsecond): unix_time is the f64 argument after `.floor() as i64`; from about year 1336 to year 31 million *)
Theorem model_is_code_rs_local_time : forall t off us, -20000000000 <= t <= 1000000000000000 -> -1000000 <= off <= 1000000 ->
  gen_rs_local_time t off us = rs_local_time t off us.
Proof. exact gen_rs_local_time_eq. Qed.
Print Assumptions model_is_code_rs_local_time.

(* outside those ranges the compiled code WRAPS where the hand model computes in Z: e.g. p(2^31 - 1) *)
Theorem rs_wraps_outside_the_range : gen_rs_p 2147483647 <> rs_p 2147483647.
Proof. vm_compute. discriminate. Qed.
Print Assumptions rs_wraps_outside_the_range.
