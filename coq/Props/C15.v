(* Props/C15.v — calendar primitives agree with the proleptic Gregorian calendar in both backends.
   Only theorem statements; every proof is `exact <lemma>`.  py_* are regenerated from /repo on every
   run (Gen/), rs_* are the hand model of rust/src/helpers.rs (tied by correspondence). Spec = Spec/Cal.v. *)
From Coq Require Import ZArith Bool.
From PV Require Import Lib.PyBase Spec.Cal Proofs.CalFacts Proofs.C15Facts Proofs.LocalTime.
From PV Require Import Gen.Constants Gen.Helpers Gen.DateGetters Gen.RustConstants Model.RustHelpers.
Open Scope Z_scope.

(* the reference calendar is a bijection between ordinals and valid dates, every year *)
Theorem cal_ord2ymd_ymd2ord : forall y m d, valid_dateb y m d = true -> ord2ymd (ymd2ord y m d) = (y, m, d).
Proof. exact ord2ymd_ymd2ord. Qed.
Print Assumptions cal_ord2ymd_ymd2ord.

Theorem cal_ord2ymd_valid : forall n, let '(y, m, d) := ord2ymd n in valid_dateb y m d = true /\ ymd2ord y m d = n.
Proof. exact ord2ymd_spec. Qed.
Print Assumptions cal_ord2ymd_valid.

Theorem is_leap_py_spec : forall y, py_is_leap y = is_leap y.
Proof. exact py_is_leap_spec. Qed.
Print Assumptions is_leap_py_spec.

Theorem is_leap_rs_spec : forall y, 0 <= y -> rs_is_leap y = is_leap y.
Proof. exact rs_is_leap_spec. Qed.
Print Assumptions is_leap_rs_spec.

Theorem days_in_year_py_spec : forall y, py_days_in_year y = days_in_year y.
Proof. exact py_days_in_year_spec. Qed.
Print Assumptions days_in_year_py_spec.

Theorem days_in_year_rs_spec : forall y, 0 <= y -> rs_days_in_year y = days_in_year y.
Proof. exact rs_days_in_year_spec. Qed.
Print Assumptions days_in_year_rs_spec.

Theorem week_day_py_iso : forall y m d, 1 <= m <= 12 -> py_week_day y m d = iso_weekday (ymd2ord y m d).
Proof. exact py_week_day_spec. Qed.
Print Assumptions week_day_py_iso.

Theorem week_day_rs_iso : forall y m d, 1 <= y -> 1 <= m <= 12 -> 0 <= d -> rs_week_day y m d = iso_weekday (ymd2ord y m d).
Proof. exact rs_week_day_spec. Qed.
Print Assumptions week_day_rs_iso.

Theorem is_long_year_py_iso : forall y, py_is_long_year y = (iso_weeks_in_year y =? 53).
Proof. exact py_is_long_year_spec. Qed.
Print Assumptions is_long_year_py_iso.

Theorem is_long_year_rs_eq_py : forall y, 1 <= y -> rs_is_long_year y = py_is_long_year y.
Proof. exact rs_is_long_year_eq_py. Qed.
Print Assumptions is_long_year_rs_eq_py.

Theorem iso_weeks_is_52_or_53 : forall y, iso_weeks_in_year y = 52 \/ iso_weeks_in_year y = 53.
Proof. exact iso_weeks_52_53. Qed.
Print Assumptions iso_weeks_is_52_or_53.

(* Date.is_long_year looks at the ISO week of December 28 *)
Theorem dec28_week_is_weeks_in_year : forall y, snd (fst (isocalendar y 12 28)) = iso_weeks_in_year y.
Proof. exact dec28_week. Qed.
Print Assumptions dec28_week_is_weeks_in_year.

Theorem day_of_year_closed_form : forall y m d, 1 <= m <= 12 ->
  py_Date_day_of_year (mkdate y m d) = days_before_month y m + d.
Proof. exact py_day_of_year_spec. Qed.
Print Assumptions day_of_year_closed_form.

Theorem quarter_spec : forall y m d, py_Date_quarter (mkdate y m d) = (m + 2) / 3.
Proof. exact py_quarter_spec. Qed.
Print Assumptions quarter_spec.

Theorem week_of_month_spec : forall y m d,
  py_Date_week_of_month (mkdate y m d) = (d + weekday0 (ymd2ord y m 1) - 1) / 7 + 1.
Proof. exact py_week_of_month_spec. Qed.
Print Assumptions week_of_month_spec.

(* broken-down time of a Unix timestamp at an offset: EVERY integer timestamp and offset (no range), both backends.
   local_time_spec S us = (fields of ord2ymd (S div 86400 + 719163), hour/minute/second of S mod 86400, us). *)
Theorem local_time_py_spec : forall t off us, py_local_time t off us = Some (local_time_spec (t + off) us).
Proof. exact py_local_time_spec. Qed.
Print Assumptions local_time_py_spec.

Theorem local_time_rs_eq_py : forall t off us, rs_local_time t off us = py_local_time t off us.
Proof. exact rs_local_time_eq_py. Qed.
Print Assumptions local_time_rs_eq_py.

Theorem local_time_rs_spec : forall t off us, rs_local_time t off us = Some (local_time_spec (t + off) us).
Proof. exact rs_local_time_spec. Qed.
Print Assumptions local_time_rs_spec.
