(* Props/C13Pins.v — written by tools/mkpins.py at development time (committed; never rewritten by a check).
   The hand-written model of C13 was transcribed from exactly these versions of the functions below (sha256 of the Python ast /
   of the comment-free Rust text, first 20 hex digits).  Gen/PinsC13.v is recomputed from /repo on every check: an edit to any
   pinned function breaks this obligation, and the check then has to find a failing input or report no-failing-input-found. *)
From Coq Require Import List String.
From PV Require Import Gen.PinsC13.
Import ListNotations.
Theorem hand_modelled_sources_unchanged_C13 : PinsC13.pins = [
  ("rust/src/parsing.rs::parse_duration"%string, "61c384be4e525b13fdb7"%string);
  ("rust/src/parsing.rs::parse_duration_number_frac"%string, "8a0caf6d6160667094a3"%string);
  ("rust/src/parsing.rs::parse_duration_number"%string, "43ae2edd0425b0a788c8"%string);
  ("rust/src/python/parsing.rs::parse_iso8601"%string, "6a9c023548d1e6a11957"%string);
  ("rust/src/python/types/duration.rs::new"%string, "97c4881272ac84a9ebe3"%string);
  ("src/pendulum/parsing/iso8601.py::_parse_iso8601_duration"%string, "44a4170cd6a75f5428ab"%string);
  ("src/pendulum/parsing/iso8601.py::ISO8601_DURATION"%string, "d45c864239d4ea9dfdfe"%string);
  ("src/pendulum/parsing/__init__.py::_parse_iso8601_interval"%string, "6b9d50718a054417c57b"%string);
  ("src/pendulum/parser.py::_parse"%string, "73897f7e0482fd280005"%string)].
Proof. exact eq_refl. Qed.
Print Assumptions hand_modelled_sources_unchanged_C13.
