(* Props/C20Pins.v — written by tools/mkpins.py at development time (committed; never rewritten by a check).
   The hand-written model of C20 was transcribed from exactly these versions of the functions below (sha256 of the Python ast /
   of the comment-free Rust text, first 20 hex digits).  Gen/PinsC20.v is recomputed from /repo on every check: an edit to any
   pinned function breaks this obligation, and the check then has to find a failing input or report no-failing-input-found. *)
From Coq Require Import List String.
From PV Require Import Gen.PinsC20.
Import ListNotations.
Theorem hand_modelled_sources_unchanged_C20 : PinsC20.pins = [
  ("src/pendulum/time.py::Time.add"%string, "cadae68ba8b2bdeacfd3"%string);
  ("src/pendulum/time.py::Time.subtract"%string, "e3d6e644741f2bf9712f"%string);
  ("src/pendulum/time.py::Time.__add__"%string, "fecc9748ccca52484130"%string);
  ("src/pendulum/time.py::Time.__sub__"%string, "d9eecc5ea64fb02dbe35"%string);
  ("src/pendulum/time.py::Time.__rsub__"%string, "92996dbcf4c0455d9076"%string);
  ("src/pendulum/datetime.py::DateTime.at"%string, "87cf23fb27859e45173d"%string);
  ("src/pendulum/datetime.py::DateTime.time"%string, "a3e854c16889b146f97c"%string)].
Proof. exact eq_refl. Qed.
Print Assumptions hand_modelled_sources_unchanged_C20.
