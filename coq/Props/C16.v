(* Props/C16.v — weekday navigation lands on the right day inside the right unit.
   Only theorem statements; every proof is `exact <lemma>` (Proofs/C16Facts.v, Proofs/C16DateTime.v, Proofs/C16Zone.v,
   Proofs/C16FirstWeekday.v).
   The functions d_* / t_* are the executable models of Date / DateTime in Model/Weekday.v that the correspondence run of
   tools/props/C16.py compares with /repo on every check (both backends).  A date is identified with its proleptic ordinal
   (date_ord, Spec/Cal.v); wf_date p = p is a date of the supported range (valid, year 1..9999); weekdays are pendulum's
   WeekDay numbers Monday = 0 .. Sunday = 6 (dow); units U_MONTH, U_QUARTER, U_YEAR; MAXORD = ordinal of 9999-12-31;
   date_of_ord n = Ok (the date with ordinal n) inside 1..MAXORD, Raise OverflowError outside (what `date + timedelta` does:
   next/previous at the edges of the range; nth_of catches it, see nth_of_raises_pendulum_exception). *)
From Coq Require Import ZArith Bool.
From PV Require Import Lib.PyBase Spec.Cal Proofs.CalFacts Model.Weekday Proofs.C16Facts Proofs.C16DateTime.
From PV Require Import Gen.WeekdayNav Proofs.C16Gen.
From PV Require Import Spec.Zone Model.WeekdayZone Proofs.C16Zone Proofs.C16FirstWeekday.
Open Scope Z_scope.

(* ---- next / previous ---- *)
Theorem next_spec : forall p wd, wf_date p -> valid_wd wd ->
  d_next p (Some wd) = date_of_ord (date_ord p + (wd - dow p - 1) mod 7 + 1).
Proof. exact next_closed_form. Qed.
Print Assumptions next_spec.

Theorem next_default_is_one_week_later : forall p, wf_date p -> d_next p None = date_of_ord (date_ord p + 7).
Proof. exact next_none_closed_form. Qed.
Print Assumptions next_default_is_one_week_later.

(* 1..7 days later, on weekday wd, and no date strictly between has weekday wd *)
Theorem next_is_nearest_later : forall p wd q, wf_date p -> valid_wd wd -> d_next p (Some wd) = Ok q ->
  wf_date q /\ date_ord p < date_ord q <= date_ord p + 7 /\ dow q = wd /\
  (forall q', wf_date q' -> date_ord p < date_ord q' < date_ord q -> dow q' <> wd).
Proof. exact next_nearest. Qed.
Print Assumptions next_is_nearest_later.

(* defined exactly when the target is a date; otherwise OverflowError (no such date exists) *)
Theorem next_defined_iff_in_range : forall p wd, wf_date p -> valid_wd wd ->
  (date_ord p + (wd - dow p - 1) mod 7 + 1 <= MAXORD -> exists q, d_next p (Some wd) = Ok q) /\
  (MAXORD < date_ord p + (wd - dow p - 1) mod 7 + 1 -> d_next p (Some wd) = Raise E_OverflowError).
Proof. exact next_defined. Qed.
Print Assumptions next_defined_iff_in_range.

(* the `while dt.day_of_week != day_of_week` loop never needs more than 7 evaluations of its test *)
Theorem next_fuel_7 : forall p o, wf_date p -> owd_ok o -> d_next p o <> Raise E_OutOfFuel.
Proof. exact next_fuel_7_suffices. Qed.
Print Assumptions next_fuel_7.

Theorem previous_spec : forall p wd, wf_date p -> valid_wd wd ->
  d_previous p (Some wd) = date_of_ord (date_ord p - (dow p - wd - 1) mod 7 - 1).
Proof. exact previous_closed_form. Qed.
Print Assumptions previous_spec.

Theorem previous_default_is_one_week_earlier : forall p, wf_date p -> d_previous p None = date_of_ord (date_ord p - 7).
Proof. exact previous_none_closed_form. Qed.
Print Assumptions previous_default_is_one_week_earlier.

Theorem previous_is_nearest_earlier : forall p wd q, wf_date p -> valid_wd wd -> d_previous p (Some wd) = Ok q ->
  wf_date q /\ date_ord p - 7 <= date_ord q < date_ord p /\ dow q = wd /\
  (forall q', wf_date q' -> date_ord q < date_ord q' < date_ord p -> dow q' <> wd).
Proof. exact previous_nearest. Qed.
Print Assumptions previous_is_nearest_earlier.

Theorem previous_defined_iff_in_range : forall p wd, wf_date p -> valid_wd wd ->
  (1 <= date_ord p - (dow p - wd - 1) mod 7 - 1 -> exists q, d_previous p (Some wd) = Ok q) /\
  (date_ord p - (dow p - wd - 1) mod 7 - 1 < 1 -> d_previous p (Some wd) = Raise E_OverflowError).
Proof. exact previous_defined. Qed.
Print Assumptions previous_defined_iff_in_range.

Theorem previous_fuel_7 : forall p o, wf_date p -> owd_ok o -> d_previous p o <> Raise E_OutOfFuel.
Proof. exact previous_fuel_7_suffices. Qed.
Print Assumptions previous_fuel_7.

(* ---- units: membership is an interval of ordinals ---- *)
Theorem unit_is_an_interval : forall u p q, is_unit u -> wf_date p -> wf_date q ->
  (in_unit u p q <-> unit_start u p <= date_ord q <= unit_end u p).
Proof. exact in_unit_ord. Qed.
Print Assumptions unit_is_an_interval.

(* ---- first_of / last_of ---- *)
Theorem first_of_spec : forall u p wd, is_unit u -> wf_date p -> valid_wd wd ->
  exists q, d_first_of u p (Some wd) = Ok q /\ wf_date q /\ in_unit u p q /\ dow q = wd /\
            date_ord q = unit_start u p + (wd - weekday0 (unit_start u p)) mod 7 /\
            (forall q', wf_date q' -> in_unit u p q' -> dow q' = wd -> date_ord q <= date_ord q').
Proof. exact first_of_least. Qed.
Print Assumptions first_of_spec.

Theorem first_of_default_is_first_day : forall u p, is_unit u -> wf_date p ->
  exists q, d_first_of u p None = Ok q /\ wf_date q /\ in_unit u p q /\ date_ord q = unit_start u p /\
            (forall q', wf_date q' -> in_unit u p q' -> date_ord q <= date_ord q').
Proof. exact first_of_none_is_first_day. Qed.
Print Assumptions first_of_default_is_first_day.

Theorem last_of_spec : forall u p wd, is_unit u -> wf_date p -> valid_wd wd ->
  exists q, d_last_of u p (Some wd) = Ok q /\ wf_date q /\ in_unit u p q /\ dow q = wd /\
            date_ord q = unit_end u p - (weekday0 (unit_end u p) - wd) mod 7 /\
            (forall q', wf_date q' -> in_unit u p q' -> dow q' = wd -> date_ord q' <= date_ord q).
Proof. exact last_of_greatest. Qed.
Print Assumptions last_of_spec.

Theorem last_of_default_is_last_day : forall u p, is_unit u -> wf_date p ->
  exists q, d_last_of u p None = Ok q /\ wf_date q /\ in_unit u p q /\ date_ord q = unit_end u p /\
            (forall q', wf_date q' -> in_unit u p q' -> date_ord q' <= date_ord q).
Proof. exact last_of_none_is_last_day. Qed.
Print Assumptions last_of_default_is_last_day.

(* ---- nth_of ---- *)
(* complete description for every n >= 1 and every date of years 1..9999: with t = first occurrence + 7 (n - 1),
   Ok (date t) if t is inside the unit, else PendulumException (nth_result, Proofs/C16Facts.v) *)
Theorem nth_of_closed_form : forall u p n wd, is_unit u -> wf_date p -> valid_wd wd -> 1 <= n ->
  d_nth_of u p n wd = nth_result u p n wd.
Proof. exact d_nth_of_spec. Qed.
Print Assumptions nth_of_closed_form.

Theorem nth_of_spec : forall u p n wd q, is_unit u -> wf_date p -> valid_wd wd -> 1 <= n ->
  (d_nth_of u p n wd = Ok q <->
   (wf_date q /\ in_unit u p q /\ date_ord q = first_occ (unit_start u p) wd + 7 * (n - 1))).
Proof. exact nth_of_ok_iff. Qed.
Print Assumptions nth_of_spec.

Theorem nth_of_is_n_minus_1_weeks_after_first_of : forall u p n wd q, is_unit u -> wf_date p -> valid_wd wd -> 1 <= n ->
  d_nth_of u p n wd = Ok q -> dow q = wd /\
  exists q1, d_first_of u p (Some wd) = Ok q1 /\ date_ord q = date_ord q1 + 7 * (n - 1).
Proof. exact nth_of_weekday. Qed.
Print Assumptions nth_of_is_n_minus_1_weeks_after_first_of.

(* "raises PendulumException when the unit holds fewer than n": at full strength, for every date of years 1..9999.
   (Finding nth-of-overflow-at-max-year, now fixed: in year 9999 the OverflowError of the dt.next() loop used to escape when
   the n-th occurrence would fall after 9999-12-31; nth_of now turns it into "no such occurrence".) *)
Theorem nth_of_raises_pendulum_exception : forall u p n wd, is_unit u -> wf_date p -> valid_wd wd -> 1 <= n ->
  unit_end u p < first_occ (unit_start u p) wd + 7 * (n - 1) ->
  d_nth_of u p n wd = Raise E_PendulumException.
Proof. exact nth_of_exception_kind. Qed.
Print Assumptions nth_of_raises_pendulum_exception.

Theorem nth_of_raises_iff_beyond_unit : forall u p n wd, is_unit u -> wf_date p -> valid_wd wd -> 1 <= n ->
  (d_nth_of u p n wd = Raise E_PendulumException <-> unit_end u p < first_occ (unit_start u p) wd + 7 * (n - 1)).
Proof. exact nth_of_exception_iff. Qed.
Print Assumptions nth_of_raises_iff_beyond_unit.

(* PendulumException is the only exception: in particular no OverflowError anywhere in the range, whatever n *)
Theorem nth_of_raises_nothing_else : forall u p n wd e, is_unit u -> wf_date p -> valid_wd wd -> 1 <= n ->
  d_nth_of u p n wd = Raise e -> e = E_PendulumException.
Proof. exact nth_of_only_pendulum_exception. Qed.
Print Assumptions nth_of_raises_nothing_else.

Theorem nth_of_never_overflows : forall u p n wd, is_unit u -> wf_date p -> valid_wd wd -> 1 <= n ->
  d_nth_of u p n wd <> Raise E_OverflowError.
Proof. exact C16Facts.nth_of_never_overflows. Qed.
Print Assumptions nth_of_never_overflows.

(* the property as stated: the n-th day on weekday wd inside the unit, or PendulumException when the unit holds fewer than n
   (every day of the unit on weekday wd lies before the place of the n-th one) *)
Theorem nth_of_returns_nth_or_raises : forall u p n wd, is_unit u -> wf_date p -> valid_wd wd -> 1 <= n ->
  (exists q, d_nth_of u p n wd = Ok q /\ wf_date q /\ in_unit u p q /\ dow q = wd /\
             date_ord q = first_occ (unit_start u p) wd + 7 * (n - 1)) \/
  (d_nth_of u p n wd = Raise E_PendulumException /\
   forall q', wf_date q' -> in_unit u p q' -> dow q' = wd -> date_ord q' < first_occ (unit_start u p) wd + 7 * (n - 1)).
Proof. exact nth_of_total. Qed.
Print Assumptions nth_of_returns_nth_or_raises.

(* the former witnesses of the finding as ordinary instances: Date(9999,12,1).nth_of("month",5,MONDAY),
   Date(9999,1,1).nth_of("year",53,MONDAY) raise PendulumException; the 14th Friday of the last quarter is 9999-12-31 *)
Theorem nth_of_at_max_year :
  d_nth_of U_MONTH (mkdate 9999 12 1) 5 0 = Raise E_PendulumException /\
  d_nth_of U_YEAR (mkdate 9999 1 1) 53 0 = Raise E_PendulumException /\
  d_nth_of U_QUARTER (mkdate 9999 11 15) 14 4 = Ok (mkdate 9999 12 31) /\
  d_nth_of U_QUARTER (mkdate 9999 11 15) 15 4 = Raise E_PendulumException.
Proof. exact nth_of_max_year_examples. Qed.
Print Assumptions nth_of_at_max_year.

(* outside the stated domain (n <= 0) the current code returns the first day of the unit, on whatever weekday
   (known finding nth-of-nonpositive-returns-first-day): Date(2024, 5, 17).nth_of("month", 0, MONDAY) = 2024-05-01, a Wednesday *)
Theorem nth_of_nonpositive_n_refuted :
  exists u p n wd q, is_unit u /\ wf_date p /\ valid_wd wd /\ n <= 0 /\ d_nth_of u p n wd = Ok q /\ dow q <> wd.
Proof. exact nth_of_nonpositive_refuted. Qed.
Print Assumptions nth_of_nonpositive_n_refuted.

(* ---- DateTime (naive, UTC, fixed offsets): the Date function on the date part, time 00:00 unless keep_time, zone kept ----
   lift r tod z = the date result r with time of day tod (microseconds) and zone z attached *)
Theorem datetime_next_is_date_next : forall p tod z o keep, wf_date p ->
  t_next (mkdt p tod z) o keep = lift (d_next p o) (if keep then tod else 0) z.
Proof. exact t_next_lift. Qed.
Print Assumptions datetime_next_is_date_next.

Theorem datetime_previous_is_date_previous : forall p tod z o keep, wf_date p ->
  t_previous (mkdt p tod z) o keep = lift (d_previous p o) (if keep then tod else 0) z.
Proof. exact t_previous_lift. Qed.
Print Assumptions datetime_previous_is_date_previous.

Theorem datetime_first_of_is_date_first_of : forall u p tod z o, wf_date p ->
  t_first_of u (mkdt p tod z) o = lift (d_first_of u p o) 0 z.
Proof. exact t_first_of_lift. Qed.
Print Assumptions datetime_first_of_is_date_first_of.

Theorem datetime_last_of_is_date_last_of : forall u p tod z o, wf_date p ->
  t_last_of u (mkdt p tod z) o = lift (d_last_of u p o) 0 z.
Proof. exact t_last_of_lift. Qed.
Print Assumptions datetime_last_of_is_date_last_of.

Theorem datetime_nth_of_is_date_nth_of : forall u p tod z n wd, wf_date p -> valid_wd wd ->
  t_nth_of u (mkdt p tod z) n wd = lift (d_nth_of u p n wd) 0 z.
Proof. exact t_nth_of_lift. Qed.
Print Assumptions datetime_nth_of_is_date_nth_of.

Theorem datetime_next_time_and_zone : forall x o keep y, wf_date (t_date x) -> t_next x o keep = Ok y ->
  d_next (t_date x) o = Ok (t_date y) /\ t_zone y = t_zone x /\ t_tod y = (if keep then t_tod x else 0).
Proof. exact t_next_time_zone. Qed.
Print Assumptions datetime_next_time_and_zone.

Theorem datetime_previous_time_and_zone : forall x o keep y, wf_date (t_date x) -> t_previous x o keep = Ok y ->
  d_previous (t_date x) o = Ok (t_date y) /\ t_zone y = t_zone x /\ t_tod y = (if keep then t_tod x else 0).
Proof. exact t_previous_time_zone. Qed.
Print Assumptions datetime_previous_time_and_zone.

Theorem keeps_time_iff_keep_time : forall x o keep y, wf_date (t_date x) -> t_tod x <> 0 -> t_next x o keep = Ok y ->
  (t_tod y = t_tod x <-> keep = true).
Proof. exact keeps_time_iff_keep_time_next. Qed.
Print Assumptions keeps_time_iff_keep_time.

Theorem datetime_first_of_time_and_zone : forall u x o y, wf_date (t_date x) -> t_first_of u x o = Ok y ->
  d_first_of u (t_date x) o = Ok (t_date y) /\ t_zone y = t_zone x /\ t_tod y = 0.
Proof. exact t_first_of_time_zone. Qed.
Print Assumptions datetime_first_of_time_and_zone.

Theorem datetime_last_of_time_and_zone : forall u x o y, wf_date (t_date x) -> t_last_of u x o = Ok y ->
  d_last_of u (t_date x) o = Ok (t_date y) /\ t_zone y = t_zone x /\ t_tod y = 0.
Proof. exact t_last_of_time_zone. Qed.
Print Assumptions datetime_last_of_time_and_zone.

Theorem datetime_nth_of_time_and_zone : forall u x n wd y, wf_date (t_date x) -> valid_wd wd -> t_nth_of u x n wd = Ok y ->
  d_nth_of u (t_date x) n wd = Ok (t_date y) /\ t_zone y = t_zone x /\ t_tod y = 0.
Proof. exact t_nth_of_time_zone. Qed.
Print Assumptions datetime_nth_of_time_and_zone.

Theorem datetime_nth_of_raises_like_date : forall u x n wd e, wf_date (t_date x) -> valid_wd wd ->
  (t_nth_of u x n wd = Raise e <-> d_nth_of u (t_date x) n wd = Raise e).
Proof. exact t_nth_of_raise. Qed.
Print Assumptions datetime_nth_of_raises_like_date.

(* ---- translator tie: the next/previous bodies regenerated from /repo on every run (Gen/WeekdayNav.v: None-default, weekday
   range check, keep_time / start_of("day"), first step, `while dt.day_of_week != day_of_week` loop with fuel 7, direction)
   are the model functions of the theorems above ---- *)
Theorem translated_Date_next_is_model : forall self o, py_Date_next self o = d_next self o.
Proof. exact py_Date_next_eq. Qed.
Print Assumptions translated_Date_next_is_model.

Theorem translated_Date_previous_is_model : forall self o, py_Date_previous self o = d_previous self o.
Proof. exact py_Date_previous_eq. Qed.
Print Assumptions translated_Date_previous_is_model.

Theorem translated_DateTime_next_is_model : forall self o keep, py_DateTime_next self o keep = t_next self o keep.
Proof. exact py_DateTime_next_eq. Qed.
Print Assumptions translated_DateTime_next_is_model.

Theorem translated_DateTime_previous_is_model : forall self o keep, py_DateTime_previous self o keep = t_previous self o keep.
Proof. exact py_DateTime_previous_eq. Qed.
Print Assumptions translated_DateTime_previous_is_model.

(* ---- DateTime in a tz-database zone (Model/WeekdayZone.v, z_*; a zone is a table of Spec/Zone.v, every instance the methods
   build goes through Timezone.convert = convert_naive of Model/TzConvert.v).  not_skipped z W: the local time W exists;
   transparent z tod: no day of the zone skips the time of day tod; okt z tod: tod is a time of day and the zone is transparent
   at it.  In a zone that is transparent at 00:00 and at the instance's time of day — every fixed offset, every zone (window)
   that has no gap at these times — each method is the Date method on the date part, at 00:00 (time kept iff keep_time). ---- *)
Theorem zone_next_is_date_next : forall z, transparent z 0 -> forall p tod f o (keep : bool), wf_date p -> okt z (if keep then tod else 0) ->
  exists f', z_next z (mkz p tod f) o keep = zlift (d_next p o) (if keep then tod else 0) f'.
Proof. exact z_next_lift. Qed.
Print Assumptions zone_next_is_date_next.

Theorem zone_previous_is_date_previous : forall z, transparent z 0 -> forall p tod f o (keep : bool), wf_date p -> okt z (if keep then tod else 0) ->
  exists f', z_previous z (mkz p tod f) o keep = zlift (d_previous p o) (if keep then tod else 0) f'.
Proof. exact z_previous_lift. Qed.
Print Assumptions zone_previous_is_date_previous.

Theorem zone_first_of_is_date_first_of : forall z, transparent z 0 -> forall u p tod f o, wf_date p -> okt z tod ->
  z_first_of z u (mkz p tod f) o = zlift (d_first_of u p o) 0 f.
Proof. exact z_first_of_lift. Qed.
Print Assumptions zone_first_of_is_date_first_of.

Theorem zone_last_of_is_date_last_of : forall z, transparent z 0 -> forall u p tod f o, wf_date p -> okt z tod ->
  z_last_of z u (mkz p tod f) o = zlift (d_last_of u p o) 0 f.
Proof. exact z_last_of_lift. Qed.
Print Assumptions zone_last_of_is_date_last_of.

Theorem zone_nth_of_is_date_nth_of : forall z, transparent z 0 -> forall u p tod f n wd, wf_date p -> valid_wd wd -> okt z tod ->
  z_nth_of z u (mkz p tod f) n wd = zlift (d_nth_of u p n wd) 0 f.
Proof. exact z_nth_of_lift. Qed.
Print Assumptions zone_nth_of_is_date_nth_of.

Theorem fixed_offsets_are_transparent : forall o tod, transparent (fixed_zone o) tod.
Proof. exact fixed_zone_transparent. Qed.
Print Assumptions fixed_offsets_are_transparent.

(* a decidable sufficient test: no gap of the table contains a second at the time of day tod (on any day); with it the theorems
   above apply to concrete tz tables, e.g. the Europe/Paris window of 2013 at 00:00 and 09:30 (paris_2013_transparent) *)
Theorem transparency_test_is_sound : forall z tod, wf_zone z = true -> tod_ok tod -> transparentb z tod = true -> transparent z tod.
Proof. exact transparentb_sound. Qed.
Print Assumptions transparency_test_is_sound.

Theorem zone_theorems_apply_to_paris_2013 : wf2_zone paris_2013 = true /\ transparent paris_2013 0 /\ okt paris_2013 34200000000 /\
  transparentb paris_2013 9000000000 = false.
Proof. exact paris_2013_transparent. Qed.
Print Assumptions zone_theorems_apply_to_paris_2013.

(* in ANY zone: what nth_of (n <> 1) returns is the result of a start_of("day") — the instance walked along with next() is
   never handed out — and start_of("day") of a day whose midnight exists is that midnight *)
Theorem zone_nth_of_result_is_normalised : forall z u self n wd r, n <> 1 -> z_nth_of z u self n wd = Ok r ->
  exists x, z_start_of_day z x = Ok r.
Proof. exact z_nth_of_normalised. Qed.
Print Assumptions zone_nth_of_result_is_normalised.

Theorem zone_start_of_day_is_midnight_when_it_exists : forall z x, wf_date (z_date x) -> not_skipped z (wall_of_date (z_date x) 0) ->
  z_start_of_day z x = Ok (mkz (z_date x) 0 (z_fold x)).
Proof. exact z_start_of_day_midnight. Qed.
Print Assumptions zone_start_of_day_is_midnight_when_it_exists.

(* finding skipped-midnight-day (America/Sao_Paulo 2013-10-20, whose 00:00 does not exist): next(SUNDAY) from that day with fold=0
   stays on the same day; first_of("month") with fold=1 comes back at 01:00 on a day that has a midnight *)
Theorem zone_next_strictly_later_refuted :
  exists z x wd r, wf2_zone z = true /\ wf_date (z_date x) /\ valid_wd wd /\
    z_next z x (Some wd) false = Ok r /\ date_ord (z_date r) <= date_ord (z_date x).
Proof. exact zone_next_skipped_midnight_refuted. Qed.
Print Assumptions zone_next_strictly_later_refuted.

Theorem zone_first_of_at_midnight_refuted :
  exists z x r, wf2_zone z = true /\ wf_date (z_date x) /\ z_first_of z U_MONTH x None = Ok r /\ z_tod r <> 0 /\
    not_skipped z (wall_of_date (z_date r) 0).
Proof. exact zone_first_of_skipped_midnight_refuted. Qed.
Print Assumptions zone_first_of_at_midnight_refuted.

(* ---- first_of / last_of / nth_of while a process-wide calendar.setfirstweekday(fw) is in force (the fw_ functions of
   Model/WeekdayZone.v, compared with /repo under every setting 0..6 by the `firstweekday` stream): the month helpers build
   calendar.Calendar(calendar.MONDAY) themselves, so for EVERY configured first weekday the result is the Date model's and the
   theorems above hold unchanged.  (Finding calendar-firstweekday, now fixed: the helpers used to index the rows of
   calendar.monthcalendar, laid out from weekday fw, and answered for weekday (wd + fw) mod 7.) ---- *)
Theorem monday_calendar_is_the_default_monthcalendar : forall y m i c, mc_get_fw CAL_MONDAY y m i c = mc_get y m i c.
Proof. exact mc_get_monday. Qed.
Print Assumptions monday_calendar_is_the_default_monthcalendar.

Theorem first_of_under_any_firstweekday : forall fw u p o, fw_first_of fw u p o = d_first_of u p o.
Proof. exact fw_first_of_any. Qed.
Print Assumptions first_of_under_any_firstweekday.

Theorem last_of_under_any_firstweekday : forall fw u p o, fw_last_of fw u p o = d_last_of u p o.
Proof. exact fw_last_of_any. Qed.
Print Assumptions last_of_under_any_firstweekday.

Theorem nth_of_under_any_firstweekday : forall fw u p n wd, is_unit u -> wf_date p -> valid_wd wd -> 1 <= n ->
  fw_nth_of fw u p n wd = d_nth_of u p n wd.
Proof. exact fw_nth_of_any. Qed.
Print Assumptions nth_of_under_any_firstweekday.

Theorem nth_of_first_under_any_firstweekday : forall fw u p wd, is_unit u ->
  fw_nth_of fw u p 1 wd = d_first_of u p (Some wd).
Proof. exact fw_nth_of_first. Qed.
Print Assumptions nth_of_first_under_any_firstweekday.

Theorem nth_of_from_second_ignores_firstweekday : forall fw u p n wd, n <> 1 -> fw_nth_of fw u p n wd = d_nth_of u p n wd.
Proof. exact fw_nth_of_from_second. Qed.
Print Assumptions nth_of_from_second_ignores_firstweekday.

(* the property itself under every configuration: least / greatest day of the unit on the requested weekday *)
Theorem first_of_spec_under_any_firstweekday : forall fw u p wd, is_unit u -> wf_date p -> valid_wd wd ->
  exists q, fw_first_of fw u p (Some wd) = Ok q /\ wf_date q /\ in_unit u p q /\ dow q = wd /\
            date_ord q = unit_start u p + (wd - weekday0 (unit_start u p)) mod 7 /\
            (forall q', wf_date q' -> in_unit u p q' -> dow q' = wd -> date_ord q <= date_ord q').
Proof. exact fw_first_of_least. Qed.
Print Assumptions first_of_spec_under_any_firstweekday.

Theorem last_of_spec_under_any_firstweekday : forall fw u p wd, is_unit u -> wf_date p -> valid_wd wd ->
  exists q, fw_last_of fw u p (Some wd) = Ok q /\ wf_date q /\ in_unit u p q /\ dow q = wd /\
            date_ord q = unit_end u p - (weekday0 (unit_end u p) - wd) mod 7 /\
            (forall q', wf_date q' -> in_unit u p q' -> dow q' = wd -> date_ord q' <= date_ord q).
Proof. exact fw_last_of_greatest. Qed.
Print Assumptions last_of_spec_under_any_firstweekday.

Theorem first_of_weekday_under_any_firstweekday : forall fw u p wd r, is_unit u -> wf_date p -> valid_wd wd ->
  fw_first_of fw u p (Some wd) = Ok r -> dow r = wd.
Proof. exact fw_first_of_weekday. Qed.
Print Assumptions first_of_weekday_under_any_firstweekday.

Theorem last_of_weekday_under_any_firstweekday : forall fw u p wd r, is_unit u -> wf_date p -> valid_wd wd ->
  fw_last_of fw u p (Some wd) = Ok r -> dow r = wd.
Proof. exact fw_last_of_weekday. Qed.
Print Assumptions last_of_weekday_under_any_firstweekday.

(* the former witnesses of the finding as ordinary instances (calendar.setfirstweekday(6), the usual US setting):
   Date(2024,5,17).first_of("month", MONDAY) = 2024-05-06, a Monday (was 2024-05-05); .last_of("year", SUNDAY) = 2024-12-29,
   a Sunday (was 2024-12-28); nth_of("month", 1, MONDAY) = first_of *)
Theorem first_last_of_under_sunday_firstweekday :
  fw_first_of 6 U_MONTH (mkdate 2024 5 17) (Some 0) = Ok (mkdate 2024 5 6) /\
  fw_last_of 6 U_YEAR (mkdate 2024 5 17) (Some 6) = Ok (mkdate 2024 12 29) /\
  fw_nth_of 6 U_MONTH (mkdate 2024 5 17) 1 0 = Ok (mkdate 2024 5 6) /\
  dow (mkdate 2024 5 6) = 0 /\ dow (mkdate 2024 12 29) = 6.
Proof. exact fw_former_witnesses. Qed.
Print Assumptions first_last_of_under_sunday_firstweekday.

(* ---- the model IS the code (Date): Gen/DateGlue.v is TRANSLATED from src/pendulum/date.py on every run (tools/vlib/gens/g82_weekday_glue.py) on the
   object model gdate of Model/TzGlueObj.v, calling the translated Date.add / Date.subtract of Gen/TzGlue.v; gd_of p = the object of the date p,
   gres = the same on results.  Native primitives (Model/DateGlueObj.v): Date.day_of_week, Date.days_in_month, Date.quarter (the translated
   py_Date_quarter), `dt.format("YYYY-MM") == check` (= same year and month) and calendar.Calendar(calendar.MONDAY).monthdayscalendar(y, m)[i][c],
   which is mc_get of Model/Weekday.v — a primitive of the standard library, not translated.  The `while` of next / previous is a template
   around the translated test and step (fuel 7 as in the model); the getattr dispatches of first_of / last_of and the try / except of nth_of are
   written by hand over the translated helpers (Proofs/DateGlueFacts.v wglue_Date_first_of, wglue_Date_last_of, wglue_Date_nth_of). ---- *)
From PV Require Import Model.TzGlueObj Gen.TzGlue Model.DateGlueObj Gen.DateGlue Proofs.DateGlueFacts.

Theorem model_is_code_date_set_replace : forall p oy om od, wf_date p ->
  wglue_Date_set (gd_of p) oy om od = gres (date_new (dflt oy (d_year p)) (dflt om (d_month p)) (dflt od (d_day p))) /\
  wglue_Date_replace (gd_of p) oy om od = gres (date_new (dflt oy (d_year p)) (dflt om (d_month p)) (dflt od (d_day p))).
Proof. intros; split; [apply wglue_Date_set_eq|apply wglue_Date_replace_eq]; assumption. Qed.
Print Assumptions model_is_code_date_set_replace.

Theorem model_is_code_date_add_days : forall p k, wf_date p -> -999999999 <= k <= 999999999 ->
  glue_Date_add (gd_of p) 0 0 0 k = gres (date_add_days p k) /\ glue_Date_subtract (gd_of p) 0 0 0 k = gres (date_add_days p (- k)).
Proof. intros; split; [apply glue_add_days|apply glue_sub_days]; assumption. Qed.
Print Assumptions model_is_code_date_add_days.

Theorem model_is_code_date_next_previous : forall p wd, wf_date p ->
  wglue_Date_next (gd_of p) wd = gres (d_next p wd) /\ wglue_Date_previous (gd_of p) wd = gres (d_previous p wd).
Proof. intros; split; [apply wglue_Date_next_eq|apply wglue_Date_previous_eq]; assumption. Qed.
Print Assumptions model_is_code_date_next_previous.

Theorem model_is_code_date_first_last_of_month : forall p wd, wf_date p ->
  wglue_Date_first_of_month (gd_of p) wd = gres (d_first_of_month p wd) /\ wglue_Date_last_of_month (gd_of p) wd = gres (d_last_of_month p wd).
Proof. intros; split; [apply wglue_Date_first_of_month_eq|apply wglue_Date_last_of_month_eq]; assumption. Qed.
Print Assumptions model_is_code_date_first_last_of_month.

Theorem model_is_code_date_first_last_of_quarter_year : forall p wd, wf_date p ->
  wglue_Date_first_of_quarter (gd_of p) wd = gres (d_first_of_quarter p wd) /\ wglue_Date_last_of_quarter (gd_of p) wd = gres (d_last_of_quarter p wd) /\
  wglue_Date_first_of_year (gd_of p) wd = gres (d_first_of_year p wd) /\ wglue_Date_last_of_year (gd_of p) wd = gres (d_last_of_year p wd).
Proof.
  intros; repeat split; [apply wglue_Date_first_of_quarter_eq|apply wglue_Date_last_of_quarter_eq|apply wglue_Date_first_of_year_eq
                        |apply wglue_Date_last_of_year_eq]; assumption.
Qed.
Print Assumptions model_is_code_date_first_last_of_quarter_year.

Theorem model_is_code_date_first_of_last_of : forall u p wd, wf_date p ->
  wglue_Date_first_of u (gd_of p) wd = gres (d_first_of u p wd) /\ wglue_Date_last_of u (gd_of p) wd = gres (d_last_of u p wd).
Proof. intros; split; [apply wglue_Date_first_of_eq|apply wglue_Date_last_of_eq]; assumption. Qed.
Print Assumptions model_is_code_date_first_of_last_of.

Theorem model_is_code_date_nth_of_helpers : forall p nth wd, wf_date p ->
  wglue_Date_nth_of_month (gd_of p) nth wd = gres_opt (d_nth_of_month p nth wd) /\
  wglue_Date_nth_of_quarter (gd_of p) nth wd = gres_opt (d_nth_of_quarter p nth wd) /\
  wglue_Date_nth_of_year (gd_of p) nth wd = gres_opt (d_nth_of_year p nth wd).
Proof. intros; repeat split; [apply wglue_Date_nth_of_month_eq|apply wglue_Date_nth_of_quarter_eq|apply wglue_Date_nth_of_year_eq]; assumption. Qed.
Print Assumptions model_is_code_date_nth_of_helpers.

Theorem model_is_code_date_nth_of : forall u p nth wd, wf_date p -> wglue_Date_nth_of u (gd_of p) nth wd = gres (d_nth_of u p nth wd).
Proof. exact wglue_Date_nth_of_eq. Qed.
Print Assumptions model_is_code_date_nth_of.

(* ---- the model IS the code (DateTime): Gen/DateTimeNavGlue.v is TRANSLATED from src/pendulum/datetime.py on every run
   (tools/vlib/gens/g83_datetime_nav_glue.py) on the object model gdt of Model/TzGlueObj.v; it CALLS the translated timezone glue (glue_DateTime_set / on /
   add of Gen/TzGlue.v, sglue_start_of_day / sglue_subtract of Gen/StartEndGlue.v).  Native primitives: g_day_of_week, g_days_in_month
   (Model/StartEndGlueObj.v), g_quarter (the translated py_Date_quarter), `dt.format("%Y-%M") == check` (g_same_ym), mc_get (the month table of the stdlib).
   Hand-written: the `while` template of next / previous (fuel 7), the getattr dispatches nglue_first_of / nglue_last_of and the try / except of
   nglue_nth_of (Proofs/DateTimeNavGlueFacts.v).
   (a) tz-database zones (a Timezone object t with gz_fixed t = false, UTC included), z_* of Model/WeekdayZone.v: zobj t x is the object of the model
       value x (its wall value, ITS fold, tz = t); wfz x = date of the supported range and time of day inside the day;  EQUALITY of results.
   (b) naive instances and FixedTimezone instances, t_* of Model/Weekday.v (the model has no fold): Rt tzo x g = g is an object with the wall value of x
       and tz tzo, whatever its fold; sim = both raise the same exception, or both return and the returned object represents the returned value. ---- *)
From PV Require Import Model.StartEndGlueObj Gen.StartEndGlue Model.DateTimeNavGlueObj Gen.DateTimeNavGlue.
From PV Require Import Proofs.DateTimeNavGlueFacts Proofs.DateTimeNavGlueZone Proofs.DateTimeNavGluePlain.

Theorem model_is_code_datetime_next_previous_zone : forall t x wd keep, gz_fixed t = false -> wfz x ->
  nglue_next (zobj t x) wd keep = zres t (z_next (gz_zone t) x wd keep) /\
  nglue_previous (zobj t x) wd keep = zres t (z_previous (gz_zone t) x wd keep).
Proof. intros; split; [apply nglue_next_zone|apply nglue_previous_zone]; assumption. Qed.
Print Assumptions model_is_code_datetime_next_previous_zone.

Theorem model_is_code_datetime_first_last_of_zone : forall t u x wd, gz_fixed t = false -> wfz x ->
  nglue_first_of u (zobj t x) wd = zres t (z_first_of (gz_zone t) u x wd) /\ nglue_last_of u (zobj t x) wd = zres t (z_last_of (gz_zone t) u x wd).
Proof. intros; split; [apply nglue_first_of_zone|apply nglue_last_of_zone]; assumption. Qed.
Print Assumptions model_is_code_datetime_first_last_of_zone.

Theorem model_is_code_datetime_first_last_of_units_zone : forall t x wd, gz_fixed t = false -> wfz x ->
  nglue_first_of_month (zobj t x) wd = zres t (z_first_of_month (gz_zone t) x wd) /\
  nglue_last_of_month (zobj t x) wd = zres t (z_last_of_month (gz_zone t) x wd) /\
  nglue_first_of_quarter (zobj t x) wd = zres t (z_first_of_quarter (gz_zone t) x wd) /\
  nglue_last_of_quarter (zobj t x) wd = zres t (z_last_of_quarter (gz_zone t) x wd) /\
  nglue_first_of_year (zobj t x) wd = zres t (z_first_of_year (gz_zone t) x wd) /\
  nglue_last_of_year (zobj t x) wd = zres t (z_last_of_year (gz_zone t) x wd).
Proof. intros; apply nglue_first_of_units_zone; assumption. Qed.
Print Assumptions model_is_code_datetime_first_last_of_units_zone.

Theorem model_is_code_datetime_nth_of_zone : forall t u x nth wd, gz_fixed t = false -> wfz x ->
  nglue_nth_of_month (zobj t x) nth wd = zreso t (z_nth_of_month (gz_zone t) x nth wd) /\
  nglue_nth_of_quarter (zobj t x) nth wd = zreso t (z_nth_of_quarter (gz_zone t) x nth wd) /\
  nglue_nth_of_year (zobj t x) nth wd = zreso t (z_nth_of_year (gz_zone t) x nth wd) /\
  nglue_nth_of u (zobj t x) nth wd = zres t (z_nth_of (gz_zone t) u x nth wd).
Proof.
  intros; repeat split; [apply nglue_nth_of_month_zone|apply nglue_nth_of_quarter_zone|apply nglue_nth_of_year_zone|apply nglue_nth_of_zone]; assumption.
Qed.
Print Assumptions model_is_code_datetime_nth_of_zone.

Theorem model_is_code_datetime_next_previous_plain : forall tzo x g wd keep, match tzo with None => True | Some t => gz_fixed t = true end -> Rt tzo x g ->
  sim pdt (Rt tzo) (nglue_next g wd keep) (t_next x wd keep) /\ sim pdt (Rt tzo) (nglue_previous g wd keep) (t_previous x wd keep).
Proof. intros; split; [apply nglue_next_plain|apply nglue_previous_plain]; assumption. Qed.
Print Assumptions model_is_code_datetime_next_previous_plain.

Theorem model_is_code_datetime_first_last_of_plain : forall tzo u x g wd, match tzo with None => True | Some t => gz_fixed t = true end -> Rt tzo x g ->
  sim pdt (Rt tzo) (nglue_first_of u g wd) (t_first_of u x wd) /\ sim pdt (Rt tzo) (nglue_last_of u g wd) (t_last_of u x wd).
Proof. intros; split; [apply nglue_first_of_plain|apply nglue_last_of_plain]; assumption. Qed.
Print Assumptions model_is_code_datetime_first_last_of_plain.

Theorem model_is_code_datetime_nth_of_plain : forall tzo u x g nth wd, match tzo with None => True | Some t => gz_fixed t = true end -> Rt tzo x g ->
  simo pdt (Rt tzo) (nglue_nth_of_month g nth wd) (t_nth_of_month x nth wd) /\
  simo pdt (Rt tzo) (nglue_nth_of_quarter g nth wd) (t_nth_of_quarter x nth wd) /\
  simo pdt (Rt tzo) (nglue_nth_of_year g nth wd) (t_nth_of_year x nth wd) /\
  sim pdt (Rt tzo) (nglue_nth_of u g nth wd) (t_nth_of u x nth wd).
Proof.
  intros; repeat split; [apply nglue_nth_of_month_plain|apply nglue_nth_of_quarter_plain|apply nglue_nth_of_year_plain|apply nglue_nth_of_plain]; assumption.
Qed.
Print Assumptions model_is_code_datetime_nth_of_plain.
