From Coq Require Import ZArith Bool.
From PV Require Import Lib.PyBase Spec.Cal Proofs.CalFacts Model.Weekday Proofs.C16Facts.
Open Scope Z_scope.
Theorem maxord_is_last_day : MAXORD = ymd2ord 9999 12 31.
Proof. exact maxord_val. Qed.
Print Assumptions maxord_is_last_day.
