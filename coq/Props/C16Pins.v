(* Props/C16Pins.v — written by tools/mkpins.py at development time (committed; never rewritten by a check).
   The hand-written model of C16 was transcribed from exactly these versions of the functions below (sha256 of the Python ast /
   of the comment-free Rust text, first 20 hex digits).  Gen/PinsC16.v is recomputed from /repo on every check: an edit to any
   pinned function breaks this obligation, and the check then has to find a failing input or report no-failing-input-found. *)
From Coq Require Import List String.
From PV Require Import Gen.PinsC16.
Import ListNotations.
Theorem hand_modelled_sources_unchanged_C16 : PinsC16.pins = [
  ("src/pendulum/datetime.py::DateTime.next"%string, "d74015f8118443b6a0b3"%string);
  ("src/pendulum/datetime.py::DateTime.previous"%string, "289a5ae867d695159cec"%string);
  ("src/pendulum/datetime.py::DateTime.first_of"%string, "55c5ea605b6a2360db0e"%string);
  ("src/pendulum/datetime.py::DateTime.last_of"%string, "355862f2c78af63c30c3"%string);
  ("src/pendulum/datetime.py::DateTime.nth_of"%string, "f1880832d44ec62fbc52"%string);
  ("src/pendulum/date.py::Date.first_of"%string, "8f2b871abcda685b6a69"%string);
  ("src/pendulum/date.py::Date.last_of"%string, "f8ee8c97de4b8816fbeb"%string);
  ("src/pendulum/date.py::Date.nth_of"%string, "cdc20ef6becf56a87893"%string)].
Proof. exact eq_refl. Qed.
Print Assumptions hand_modelled_sources_unchanged_C16.
