(* Props/C16Pins.v — written by tools/mkpins.py at development time (committed; never rewritten by a check).
   The hand-written model of C16 was transcribed from exactly these versions of the functions below (sha256 of the Python ast /
   of the comment-free Rust text, first 20 hex digits).  Gen/PinsC16.v is recomputed from /repo on every check: an edit to any
   pinned function breaks this obligation, and the check then has to find a failing input or report no-failing-input-found. *)
From Coq Require Import List String.
From PV Require Import Gen.PinsC16.
Import ListNotations.
Theorem hand_modelled_sources_unchanged_C16 : PinsC16.pins = [
  ("src/pendulum/datetime.py::DateTime.next"%string, "d74015f8118443b6a0b3"%string);
  ("src/pendulum/datetime.py::DateTime.previous"%string, "289a5ae867d695159cec"%string);
  ("src/pendulum/datetime.py::DateTime.first_of"%string, "55c5ea605b6a2360db0e"%string);
  ("src/pendulum/datetime.py::DateTime.last_of"%string, "355862f2c78af63c30c3"%string);
  ("src/pendulum/datetime.py::DateTime.nth_of"%string, "f1880832d44ec62fbc52"%string);
  ("src/pendulum/date.py::Date.first_of"%string, "8f2b871abcda685b6a69"%string);
  ("src/pendulum/date.py::Date.last_of"%string, "f8ee8c97de4b8816fbeb"%string);
  ("src/pendulum/date.py::Date.nth_of"%string, "cdc20ef6becf56a87893"%string);
  ("src/pendulum/datetime.py::DateTime._first_of_month"%string, "4eb6947b30be55a4efed"%string);
  ("src/pendulum/datetime.py::DateTime._first_of_quarter"%string, "6e669dbeb8ae8dc38228"%string);
  ("src/pendulum/datetime.py::DateTime._first_of_year"%string, "82c0c3388eacff32c46e"%string);
  ("src/pendulum/datetime.py::DateTime._last_of_month"%string, "690e98e72bdcc189d3ab"%string);
  ("src/pendulum/datetime.py::DateTime._last_of_quarter"%string, "7ba61178ea43532eba10"%string);
  ("src/pendulum/datetime.py::DateTime._last_of_year"%string, "683c28c6a22fffc572cc"%string);
  ("src/pendulum/datetime.py::DateTime._nth_of_month"%string, "5048dc06f2372512c174"%string);
  ("src/pendulum/datetime.py::DateTime._nth_of_quarter"%string, "9a1e431085799667079c"%string);
  ("src/pendulum/datetime.py::DateTime._nth_of_year"%string, "aa8d0e499bb7d69991c5"%string);
  ("src/pendulum/date.py::Date._first_of_month"%string, "d06555887d4024f9783e"%string);
  ("src/pendulum/date.py::Date._first_of_quarter"%string, "9d66bbc563ff47062845"%string);
  ("src/pendulum/date.py::Date._first_of_year"%string, "7775b4856da1288ee2e8"%string);
  ("src/pendulum/date.py::Date._last_of_month"%string, "c4fe1f683a47b39386c7"%string);
  ("src/pendulum/date.py::Date._last_of_quarter"%string, "d4cb766fc8714f48949e"%string);
  ("src/pendulum/date.py::Date._last_of_year"%string, "dbb1a6c7edd9541b0c39"%string);
  ("src/pendulum/date.py::Date._nth_of_month"%string, "a43873b4668e9aa05ebd"%string);
  ("src/pendulum/date.py::Date._nth_of_quarter"%string, "741f6c205361e8f584bb"%string);
  ("src/pendulum/date.py::Date._nth_of_year"%string, "c0f729860f8798bce6a2"%string);
  ("src/pendulum/datetime.py::DateTime.set"%string, "d2096602146a93bb907c"%string);
  ("src/pendulum/datetime.py::DateTime.on"%string, "e2dcda2c0fd7be9d4d15"%string);
  ("src/pendulum/datetime.py::DateTime.at"%string, "87cf23fb27859e45173d"%string);
  ("src/pendulum/datetime.py::DateTime._start_of_day"%string, "9fcbeb7964a8470752ac"%string)].
Proof. exact eq_refl. Qed.
Print Assumptions hand_modelled_sources_unchanged_C16.
