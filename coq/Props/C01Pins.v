(* Props/C01Pins.v — written by tools/mkpins.py at development time (committed; never rewritten by a check).
   The hand-written model of C01 was transcribed from exactly these versions of the functions below (sha256 of the Python ast /
   of the comment-free Rust text, first 20 hex digits).  Gen/PinsC01.v is recomputed from /repo on every check: an edit to any
   pinned function breaks this obligation, and the check then has to find a failing input or report no-failing-input-found. *)
From Coq Require Import List String.
From PV Require Import Gen.PinsC01.
Import ListNotations.
Theorem hand_modelled_sources_unchanged_C01 : PinsC01.pins = [
  ("src/pendulum/tz/timezone.py::Timezone.convert"%string, "41080dcfc1ccb60c91c9"%string);
  ("src/pendulum/tz/timezone.py::FixedTimezone.convert"%string, "0129369ee9d1b8dd0943"%string);
  ("src/pendulum/tz/timezone.py::FixedTimezone.fromutc"%string, "861690686262b24d075d"%string);
  ("src/pendulum/tz/timezone.py::FixedTimezone.utcoffset"%string, "7596d6b7eb58c8684195"%string);
  ("src/pendulum/datetime.py::DateTime.in_timezone"%string, "74b9581d5aa34ff6af90"%string);
  ("src/pendulum/datetime.py::DateTime.in_tz"%string, "25406fcf47191329c0ee"%string);
  ("src/pendulum/datetime.py::DateTime.astimezone"%string, "017b9ea339aa207c680a"%string);
  ("src/pendulum/datetime.py::DateTime.instance"%string, "3e74631050336544fb66"%string);
  ("src/pendulum/datetime.py::DateTime.int_timestamp"%string, "680672bbc6ef779b9987"%string);
  ("src/pendulum/datetime.py::DateTime.timezone"%string, "33005b15e83dd163a27c"%string);
  ("src/pendulum/__init__.py::from_timestamp"%string, "29364aaf141e99bd33da"%string);
  ("src/pendulum/__init__.py::_safe_timezone"%string, "f2fa0312cccc2b8e4733"%string);
  ("src/pendulum/__init__.py::instance"%string, "394825d930eaa8fcf34b"%string);
  ("src/pendulum/tz/__init__.py::fixed_timezone"%string, "432ddd6039236cf9060a"%string)].
Proof. exact eq_refl. Qed.
Print Assumptions hand_modelled_sources_unchanged_C01.
