(* Props/C05Pins.v — written by tools/mkpins.py at development time (committed; never rewritten by a check).
   The hand-written model of C05 was transcribed from exactly these versions of the functions below (sha256 of the Python ast /
   of the comment-free Rust text, first 20 hex digits).  Gen/PinsC05.v is recomputed from /repo on every check: an edit to any
   pinned function breaks this obligation, and the check then has to find a failing input or report no-failing-input-found. *)
From Coq Require Import List String.
From PV Require Import Gen.PinsC05.
Import ListNotations.
Theorem hand_modelled_sources_unchanged_C05 : PinsC05.pins = [
  ("src/pendulum/interval.py::Interval.__new__"%string, "87853506c4af18f659e8"%string);
  ("src/pendulum/interval.py::Interval.__init__"%string, "bf8b98f81fbc3c9ccb28"%string);
  ("src/pendulum/duration.py::Duration.__new__"%string, "0196f5b0f9c20319ebae"%string);
  ("src/pendulum/duration.py::Duration.total_minutes"%string, "cc5ac604c73a1121357c"%string);
  ("src/pendulum/duration.py::Duration.total_hours"%string, "7283e6fe99b295d653f1"%string);
  ("src/pendulum/duration.py::Duration.in_seconds"%string, "813fd0e82563f0da92eb"%string);
  ("src/pendulum/duration.py::Duration.in_minutes"%string, "09982bce03b453e7b73a"%string);
  ("src/pendulum/duration.py::Duration.in_hours"%string, "ffc2e88435cd5fce020d"%string);
  ("src/pendulum/duration.py::AbsoluteDuration.__new__"%string, "e47c3e8e2b7a625b9f64"%string);
  ("src/pendulum/datetime.py::DateTime.__sub__"%string, "2b6416e501e40500ef40"%string);
  ("src/pendulum/datetime.py::DateTime.__rsub__"%string, "94d7b0b046ab1b26ca35"%string);
  ("src/pendulum/datetime.py::DateTime.diff"%string, "a731b945966b4b276cbc"%string);
  ("src/pendulum/date.py::Date.__sub__"%string, "a18b21317b4af7c50e28"%string);
  ("src/pendulum/date.py::Date.diff"%string, "195c8ec93544e4e5878d"%string);
  ("src/pendulum/interval.py::Interval.__abs__"%string, "6802c703c34eef90c80c"%string);
  ("src/pendulum/interval.py::Interval.__neg__"%string, "7178d7013e44e48640ed"%string);
  ("src/pendulum/__init__.py::interval"%string, "f0e1d421a190ef97d400"%string)].
Proof. exact eq_refl. Qed.
Print Assumptions hand_modelled_sources_unchanged_C05.
