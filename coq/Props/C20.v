(* Props/C20.v — time-of-day arithmetic wraps modulo 24 hours exactly (src/pendulum/time.py).
   Only theorem statements; every proof is `exact <lemma>` (Proofs/C20Facts.v).
   py_* are regenerated from /repo on every run (Gen/TimeArith.v); time_* are Model/TimeOfDay.v (hand-written glue
   around them, tied by correspondence).  Vocabulary (Proofs/C20Facts.v, Model/TimeBase.v):
     tod t               microsecond of the day of the fields of t          us_day = 86400 * 10^6
     amount h m s us     ((h*60 + m)*60 + s)*10^6 + us
     wrap t a            the time of day with tod = (tod t + a) mod us_day
     shift_in_range t a  1970-01-01 + tod t + a is a datetime in 0001-01-01 .. 9999-12-31T23:59:59.999999
     dist t x            |tod x - tod t|
   No theorem below restricts the integers (hours, minutes, seconds, microseconds may be any Z of any sign). *)
From Coq Require Import ZArith Bool.
From PV Require Import Lib.PyBase Spec.Cal Model.TimeBase Gen.TimeArith Model.TimeOfDay Proofs.C20Facts.
Open Scope Z_scope.

(* ---- helpers.add_duration: the sign-aware carry normalisation (translated) preserves the total, all integers *)
Theorem add_duration_norm_preserves_total : forall y mo d h m s us,
  let '(y', mo', d', h', m', s', us') := py_add_duration_norm y mo d h m s us in
  units_total d' h' m' s' us' = units_total d h m s us /\ y' * 12 + mo' = y * 12 + mo /\
  Z.abs us' <= 999999 /\ Z.abs s' <= 59 /\ Z.abs m' <= 59 /\ Z.abs h' <= 23 /\ Z.abs mo' <= 11.
Proof. exact add_duration_norm_spec. Qed.
Print Assumptions add_duration_norm_preserves_total.

(* ---- Time.add: (time of day + amount) mod 24 h, exactly; OverflowError exactly when the intermediate datetime is not representable *)
Theorem time_add_spec : forall t h m s us,
  time_add t h m s us =
  if shift_in_range t (amount h m s us) then Ok (wrap t (amount h m s us)) else Raise E_OverflowError.
Proof. exact C20Facts.time_add_spec. Qed.
Print Assumptions time_add_spec.

Theorem time_subtract_spec : forall t h m s us,
  time_subtract t h m s us =
  if shift_in_range t (- amount h m s us) then Ok (wrap t (- amount h m s us)) else Raise E_OverflowError.
Proof. exact C20Facts.time_subtract_spec. Qed.
Print Assumptions time_subtract_spec.

(* wrap is what it says: a valid time of day whose microsecond of the day is (tod t + a) mod 24 h *)
Theorem wrap_is_modulo_24h : forall t a, valid_time (wrap t a) = true /\ tod (wrap t a) = (tod t + a) mod us_day.
Proof. exact wrap_valid. Qed.
Print Assumptions wrap_is_modulo_24h.

(* fields <-> microsecond of the day is a bijection on valid times *)
Theorem tod_fields_bijection :
  (forall t, valid_time t = true -> 0 <= tod t < us_day /\ time_of_tod (tod t) = t) /\
  (forall x, 0 <= x < us_day -> tod (time_of_tod x) = x /\ valid_time (time_of_tod x) = true).
Proof. exact tod_fields_bij. Qed.
Print Assumptions tod_fields_bijection.

(* no overflow for any amount up to 719162 days (the distance from 0001-01-01 to 1970-01-01) in either direction *)
Theorem add_never_overflows_within_1969_years : forall t a,
  valid_time t = true -> Z.abs a <= epoch_wall -> shift_in_range t a = true.
Proof. exact shift_in_range_small. Qed.
Print Assumptions add_never_overflows_within_1969_years.

(* ---- subtract() undoes add() *)
Theorem sub_undoes_add : forall t h m s us t',
  valid_time t = true -> time_add t h m s us = Ok t' ->
  time_subtract t' h m s us = if shift_in_range t' (- amount h m s us) then Ok t else Raise E_OverflowError.
Proof. exact sub_undoes_add_gen. Qed.
Print Assumptions sub_undoes_add.

Theorem sub_undoes_add_within_1969_years : forall t h m s us,
  valid_time t = true -> Z.abs (amount h m s us) <= epoch_wall ->
  exists t', time_add t h m s us = Ok t' /\ time_subtract t' h m s us = Ok t.
Proof. exact sub_undoes_add_small. Qed.
Print Assumptions sub_undoes_add_within_1969_years.

(* the representable range is not symmetric around 1970: 26280000 hours can be added to 00:00 but not taken back *)
Theorem sub_after_add_can_overflow :
  exists t h, valid_time t = true /\
    (exists t', time_add t h 0 0 0 = Ok t' /\ time_subtract t' h 0 0 0 = Raise E_OverflowError).
Proof. exact C20Facts.sub_after_add_can_overflow. Qed.
Print Assumptions sub_after_add_can_overflow.

(* ---- timedeltas: a day component (read on CPython's normal form) is rejected *)
Theorem timedelta_days_rejected : forall t d, td_days d <> 0 ->
  time_add_timedelta t d = Raise E_TypeError /\ time_subtract_timedelta t d = Raise E_TypeError.
Proof. exact C20Facts.timedelta_days_rejected. Qed.
Print Assumptions timedelta_days_rejected.

(* the normal form of timedelta(microseconds=u) has days = 0 exactly for 0 <= u < 24 h; every negative sub-day delta has days = -1 *)
Theorem timedelta_normal_form : forall u,
  (let x := td_of_total u in td_total x = u /\ 0 <= td_seconds x < 86400 /\ 0 <= td_microseconds x < 1000000) /\
  (td_days (td_of_total u) = 0 <-> 0 <= u < us_day) /\
  (- us_day <= u < 0 -> td_days (td_of_total u) = -1).
Proof. exact td_normal_form. Qed.
Print Assumptions timedelta_normal_form.

Theorem timedelta_outside_one_day_rejected : forall t u, ~ (0 <= u < us_day) ->
  time_add_timedelta t (td_of_total u) = Raise E_TypeError /\ time_subtract_timedelta t (td_of_total u) = Raise E_TypeError.
Proof. exact timedelta_outside_day_rejected. Qed.
Print Assumptions timedelta_outside_one_day_rejected.

(* an accepted timedelta shifts modulo 24 hours and never overflows *)
Theorem timedelta_shift_spec : forall t u, valid_time t = true -> 0 <= u < us_day ->
  time_add_timedelta t (td_of_total u) = Ok (wrap t u) /\ time_subtract_timedelta t (td_of_total u) = Ok (wrap t (- u)).
Proof. exact timedelta_shift. Qed.
Print Assumptions timedelta_shift_spec.

(* ---- diff / t2 - t1: the signed microsecond difference of the times of day, its magnitude with abs=True *)
Theorem diff_spec : forall a b abs, time_diff_total a b abs = signed_or_abs abs (tod b - tod a).
Proof. exact diff_total_spec. Qed.
Print Assumptions diff_spec.

Theorem diff_abs_nonnegative : forall a b, 0 <= time_diff_total a b true.
Proof. exact diff_abs_nonneg. Qed.
Print Assumptions diff_abs_nonnegative.

Theorem diff_antisymmetric : forall a b, time_diff_total a b false = - time_diff_total b a false.
Proof. exact diff_antisym. Qed.
Print Assumptions diff_antisymmetric.

Theorem diff_below_one_day : forall a b abs, valid_time a = true -> valid_time b = true ->
  Z.abs (time_diff_total a b abs) < us_day.
Proof. exact diff_range. Qed.
Print Assumptions diff_below_one_day.

(* self - other and other - self (through __rsub__) *)
Theorem time_minus_time_spec : forall self other,
  time_op_sub self other = tod self - tod other /\ time_op_rsub self other = tod other - tod self.
Proof. exact op_sub_spec. Qed.
Print Assumptions time_minus_time_spec.

(* ---- closest / farthest choose by the microsecond distance (ties: the second argument) *)
Theorem closest_by_distance : forall t a b,
  time_closest t a b = (if dist t a <? dist t b then a else b) /\
  time_farthest t a b = (if dist t a >? dist t b then a else b).
Proof. exact C20Facts.closest_by_distance. Qed.
Print Assumptions closest_by_distance.

Theorem closest_is_nearest : forall t a b,
  dist t (time_closest t a b) = Z.min (dist t a) (dist t b) /\ dist t (time_farthest t a b) = Z.max (dist t a) (dist t b).
Proof. exact C20Facts.closest_is_nearest. Qed.
Print Assumptions closest_is_nearest.

Theorem closest_returns_an_argument : forall t a b,
  (time_closest t a b = a \/ time_closest t a b = b) /\ (time_farthest t a b = a \/ time_farthest t a b = b).
Proof. exact closest_returns_argument. Qed.
Print Assumptions closest_returns_an_argument.

(* ---- THE MODEL IS THE CODE (method bodies of Time).  Gen/TimeMethods.v is translated WHOLE from /repo's src/pendulum/time.py on every run
   (tools/vlib/pyfloat2gallina.py + gens/g56_time_methods.py): Time.add / subtract (the call chain DateTime.EPOCH.at(h, m, s, us).add(..).time()
   read as the model's primitive dt_add_time, with .subtract(..) = every unit negated), add_timedelta / subtract_timedelta (guard, then which
   arguments reach self.add / self.subtract), diff with dt given (time_rebuild, us2 - us1, Duration / AbsoluteDuration by `abs`: what the result
   reports), and __add__ / __sub__ / __rsub__ once per class of `other` (timedelta, naive time, aware time, anything else) with their isinstance
   tests decided from that class.  The hand model Model/TimeOfDay.v, about which every theorem above speaks, EQUALS that translation for all
   arguments.  (closest / farthest, the guards' argument tuples and diff's us1 / us2 are translated by g70 into Gen/TimeArith.v.) *)
From PV Require Import Gen.TimeMethods Proofs.TimeMethodsFacts.

Theorem model_is_code_time_add : forall t h m s us, gen_Time_add t h m s us = time_add t h m s us.
Proof. exact gen_Time_add_eq. Qed.
Print Assumptions model_is_code_time_add.

Theorem model_is_code_time_subtract : forall t h m s us, gen_Time_subtract t h m s us = time_subtract t h m s us.
Proof. exact gen_Time_subtract_eq. Qed.
Print Assumptions model_is_code_time_subtract.

Theorem model_is_code_time_add_timedelta : forall t d, gen_Time_add_timedelta t d = time_add_timedelta t d.
Proof. exact gen_Time_add_timedelta_eq. Qed.
Print Assumptions model_is_code_time_add_timedelta.

Theorem model_is_code_time_subtract_timedelta : forall t d, gen_Time_subtract_timedelta t d = time_subtract_timedelta t d.
Proof. exact gen_Time_subtract_timedelta_eq. Qed.
Print Assumptions model_is_code_time_subtract_timedelta.

Theorem model_is_code_time_diff : forall t dt abs, gen_Time_diff t dt abs = time_diff_total t dt abs.
Proof. exact gen_Time_diff_eq. Qed.
Print Assumptions model_is_code_time_diff.

(* t + timedelta, t - timedelta, t - naive time, naive time - t; an aware time raises TypeError; any other operand: NotImplemented *)
Theorem model_is_code_time_operators : forall t,
  (forall d, gen_Time___add___timedelta t d = time_add_timedelta t d) /\
  (forall d, gen_Time___sub___timedelta t d = time_subtract_timedelta t d) /\
  (forall o, gen_Time___sub___time t o = time_op_sub t o) /\
  (forall o, gen_Time___rsub___time t o = time_op_rsub t o) /\
  (forall o, gen_Time___sub___atime t o = Raise E_TypeError /\ gen_Time___rsub___atime t o = Raise E_TypeError) /\
  (forall x, gen_Time___add___foreign t x = Raise E_NotImplemented /\ gen_Time___sub___foreign t x = Raise E_NotImplemented
             /\ gen_Time___rsub___foreign t x = Raise E_NotImplemented).
Proof. exact gen_Time_operators_eq. Qed.
Print Assumptions model_is_code_time_operators.

(* ---- timedelta SUBCLASS operands (pendulum.Duration, AbsoluteDuration, Interval) of + / - / add_timedelta / subtract_timedelta.
   Model/TimeOperand.v: the object is C09's / C10's model of the class (Model/Duration.v, proved equal to the translated duration.py;
   Model/DurationOps.interval_new), Time reads x.days / x.seconds / x.microseconds AS THAT CLASS PRESENTS THEM (days: the native slot for
   Duration / AbsoluteDuration, the overridden sign-magnitude _days for Interval; seconds / microseconds: the class's own sign-magnitude
   components) and hands them to the translated guard.  N is the native timedelta value in microseconds.  These three depend on the exactness
   of Duration.__new__'s float normalisation (Proofs/FloatRoundTripC09.v, Flocq), hence on the standard real-number axioms. *)
From PV Require Import Spec.TdFloat Model.Duration Model.DurationOps Model.TimeOperand Proofs.C09Facts Proofs.C20OperandFacts.

(* whatever the class, a non-zero presented `days` is rejected *)
Theorem subclass_operand_days_rejected : forall t k x, td_days (operand_present k x) <> 0 ->
  time_add_timedelta t (operand_present k x) = Raise E_TypeError /\ time_subtract_timedelta t (operand_present k x) = Raise E_TypeError.
Proof. exact (fun t k x => presented_rejected t (operand_present k x)). Qed.
Print Assumptions subclass_operand_days_rejected.

(* Duration(days, seconds, us, ms, minutes, hours, weeks, years, months): rejected exactly when the normal form of its native value
   (years * 365 + months * 30 days included) has days <> 0 — every span of 24 h or more, every negative one —; otherwise the exact shift
   modulo 24 h by that value, although the class's seconds / microseconds are those of (native - year/month part), of either sign *)
Theorem duration_operand_spec : forall days seconds us ms mi h w years months N t,
  valid_time t = true ->
  td_of_int_args (days + YM years months) seconds us ms mi h w = Ok N ->
  D9 N (YM years months * 86400) ->
  (0 <= N < us_day ->
     time_add_operand t 0 days seconds us ms mi h w years months = Ok (wrap t N) /\
     time_subtract_operand t 0 days seconds us ms mi h w years months = Ok (wrap t (- N))) /\
  (~ (0 <= N < us_day) ->
     time_add_operand t 0 days seconds us ms mi h w years months = Raise E_TypeError /\
     time_subtract_operand t 0 days seconds us ms mi h w years months = Raise E_TypeError).
Proof. exact duration_operand. Qed.
Print Assumptions duration_operand_spec.

(* AbsoluteDuration: the native value keeps its sign and excludes years / months *)
Theorem absolute_duration_operand_spec : forall days seconds us ms mi h w years months x t,
  valid_time t = true ->
  absolute_duration_new days seconds us ms mi h w years months = Ok x -> Z.abs (d_N x) < B33 ->
  td_of_int_args days seconds us ms mi h w = Ok (d_N x) /\
  (0 <= d_N x < us_day ->
     time_add_operand t 1 days seconds us ms mi h w years months = Ok (wrap t (d_N x)) /\
     time_subtract_operand t 1 days seconds us ms mi h w years months = Ok (wrap t (- d_N x))) /\
  (~ (0 <= d_N x < us_day) ->
     time_add_operand t 1 days seconds us ms mi h w years months = Raise E_TypeError /\
     time_subtract_operand t 1 days seconds us ms mi h w years months = Raise E_TypeError).
Proof. exact absolute_operand. Qed.
Print Assumptions absolute_duration_operand_spec.

(* Interval of span delta = end - start (below 2^33 s): it presents the sign-magnitude whole days of its span, so it is rejected exactly when
   |delta| >= 24 h and shifts by delta modulo 24 h otherwise — INCLUDING a negative span shorter than a day, which an equal plain timedelta or
   Duration (normal form days = -1: timedelta_days_rejected, duration_operand_spec) is not *)
Theorem interval_operand_spec : forall delta a b c d e f g h t,
  valid_time t = true -> Z.abs delta < B33 ->
  (Z.abs delta < us_day ->
     time_add_operand t 2 delta a b c d e f g h = Ok (wrap t delta) /\
     time_subtract_operand t 2 delta a b c d e f g h = Ok (wrap t (- delta))) /\
  (us_day <= Z.abs delta ->
     time_add_operand t 2 delta a b c d e f g h = Raise E_TypeError /\
     time_subtract_operand t 2 delta a b c d e f g h = Raise E_TypeError).
Proof. exact interval_operand. Qed.
Print Assumptions interval_operand_spec.
