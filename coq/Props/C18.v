(* Props/C18.v — human-readable differences are total, localized and correctly directed.
   Only theorem statements; every proof is `exact <lemma>` (Proofs/C18Facts.v).
   all_locales, loc_*, gen_pick are regenerated from /repo on every run (Gen/Locales.v: every shipped locale's locale.py/custom.py
   parsed with ast; gen_pick = the unit-selection chain of DifferenceFormatter.format).  format, in_words, token are the hand models
   of Model/DiffFormat.v that the correspondence run compares with the implementation string for string.
   Strings are lists of code points; 123 / 125 are the braces, so `brace_free s` says no replacement field is left in s. *)
From Coq Require Import ZArith List Bool String.
From PV Require Import Lib.PyBase Model.LocaleBase Gen.Locales Model.DiffFormat Model.LocaleSession Proofs.C18Facts Proofs.C18Session.
From PV Require Import Spec.Cal Model.PdBase Model.PdInterval Model.DiffHumans Proofs.C06Facts Proofs.C18Diff.
Import ListNotations.
Open Scope string_scope.
Open Scope Z_scope.

(* a plural / ordinal lambda can only return one of its constant leaves — for every integer *)
Theorem plural_range : forall e n, In (seval e n) (leaves e).
Proof. exact seval_in_leaves. Qed.
Print Assumptions plural_range.

(* format_total at full strength: every shipped locale, every component record (counts unbounded), every flag combination:
   the key exists and every replacement field of the template is substituted.  (Before the fix: commit that repaired the zh
   '{time}' templates this was refuted for zh relative to another value; the refutation is gone with the defect.) *)
Theorem format_total : forall L d is_now absolute invert, In L all_locales ->
  exists s, format L d is_now absolute invert = Ok s /\ s <> [] /\ brace_free s.
Proof. exact format_total_lemma. Qed.
Print Assumptions format_total.

(* unit and count *)
Theorem unit_count_positive : forall d u c, gen_pick d = Some (u, c) -> 1 <= c.
Proof. exact pick_count_pos_lemma. Qed.
Print Assumptions unit_count_positive.

(* the unit is that of the largest positive component (first_pos) and the count is that component, plus one exactly when the
   next smaller components reach the threshold (round_up: months > 6, days >= 27, remaining days > 3, hours >= 22);
   11 months and more than 15 days is "1 year"; with nothing above the seconds, 11..59 seconds are counted *)
Theorem unit_count_spec : forall d u c, gen_pick d = Some (u, c) ->
  (exists base, first_pos d = Some (u, base) /\ c = base + (if round_up u d then 1 else 0) /\
                ~ (u = "month" /\ base = 11 /\ 15 < days_of d))
  \/ (first_pos d = Some ("month", 11) /\ 15 < days_of d /\ u = "year" /\ c = 1)
  \/ (first_pos d = None /\ u = "second" /\ c = c_rsecs d /\ 10 < c <= 59).
Proof. exact pick_spec_lemma. Qed.
Print Assumptions unit_count_spec.

Theorem few_seconds_iff : forall d, gen_pick d = None <-> first_pos d = None /\ ~ (10 < c_rsecs d <= 59).
Proof. exact pick_none_lemma. Qed.
Print Assumptions few_seconds_iff.

(* within one unit of the elapsed time: fixed-length units, components in their ranges *)
Theorem within_one_unit_fixed : forall d, sub_month_ranges d ->
  match gen_pick d with
  | Some (u, c) => Z.abs (c * unit_seconds u - total_seconds d) < unit_seconds u
  | None => total_seconds d <= 10
  end.
Proof. exact within_one_unit_fixed_lemma. Qed.
Print Assumptions within_one_unit_fixed.

(* calendar units: a year count is within 6 whole months of the elapsed months, a month count is the months or one more (27+ days) *)
Theorem within_one_unit_calendar : forall d u c,
  0 <= c_years d -> 0 <= c_months d < 12 -> 0 <= days_of d -> gen_pick d = Some (u, c) ->
  (u = "year" -> Z.abs (12 * c - (12 * c_years d + c_months d)) <= 6) /\
  (u = "month" -> c_months d <= c <= c_months d + 1 /\ (c = c_months d + 1 -> 27 <= days_of d)).
Proof. exact within_one_unit_calendar_lemma. Qed.
Print Assumptions within_one_unit_calendar.

(* direction: no marker when absolute — the result does not depend on invert / is_now *)
Theorem direction_absolute_no_marker : forall L d n1 n2 i1 i2, format L d n1 true i1 = format L d n2 true i2.
Proof. exact absolute_no_marker_lemma. Qed.
Print Assumptions direction_absolute_no_marker.

(* relative to now: the CLDR future template iff invert (instance later), the past template otherwise *)
Theorem direction_now_spec : forall L d u c invert, gen_pick d = Some (u, c) ->
  format L d true false invert =
  bind (lget L ["translations"; "relative"; u; (if invert then "future" else "past"); lplural L (norm_count c)])
       (fun o => node_format o (str_of_Z (norm_count c))).
Proof. exact direction_now_lemma. Qed.
Print Assumptions direction_now_spec.

(* relative to another value: the phrase is an instance of custom.after iff invert, of custom.before otherwise *)
Theorem direction_other_spec : forall L d u c invert s, gen_pick d = Some (u, c) -> format L d false false invert = Ok s ->
  exists raw t time, lget L ["custom"; (if invert then "after" else "before")] = Ok (Some (NStr raw t)) /\ s = subst t time.
Proof. exact direction_other_lemma. Qed.
Print Assumptions direction_other_spec.

Theorem direction_few_seconds_spec : forall L d is_now invert n s, gen_pick d = None -> lget L few_path = Ok (Some n) ->
  format L d is_now false invert = Ok s ->
  exists raw t few, lget L ["custom"; dir_key is_now invert] = Ok (Some (NStr raw t)) /\ s = subst t few.
Proof. exact direction_few_lemma. Qed.
Print Assumptions direction_few_seconds_spec.

(* and the data does tell past from future: in every shipped locale after/before, from_now/ago and every
   relative.<unit>.future/past pair (all units, all plural classes) are different templates *)
Theorem direction_markers_distinct : forall L, In L all_locales -> locale_markers_ok L = true.
Proof. exact markers_distinct_explicit. Qed.
Print Assumptions direction_markers_distinct.

(* Duration.in_words / Interval.in_words: total for every shipped locale, components of either sign, any microseconds, any brace-free separator *)
Theorem in_words_total : forall L d us sep, In L all_locales -> brace_free sep ->
  exists s, in_words L d us sep = Ok s /\ s <> [] /\ brace_free s.
Proof. exact in_words_total_explicit. Qed.
Print Assumptions in_words_total.

(* locale-dependent format tokens render for every locale (nl's missing week_data was repaired by a fix: commit) *)
Theorem locale_tokens_total : forall L tok month dow day hour, In L all_locales ->
  0 <= tok <= 10 -> 1 <= month <= 12 -> 0 <= dow <= 6 ->
  exists s, token L tok month dow day hour = Ok s /\ s <> [] /\ brace_free s.
Proof. exact tokens_total_explicit. Qed.
Print Assumptions locale_tokens_total.

(* ------------------------------------------------------------------------------------------------------------------------------
   The process-wide default locale (Model/LocaleSession.v): set_locale / get_locale / Locale.load and the `locale is None` defaults of
   format_diff, in_words and format, as a state machine over whole histories of calls.  `run` is what the correspondence run compares
   with the implementation (stream `session`: one case = one history executed in one process). *)

(* a set_locale call that raised has not changed the configuration *)
Theorem failed_set_keeps_configuration : forall st n e, snd (step st (SSet n)) = Raise e -> fst (step st (SSet n)) = st.
Proof. exact failed_set_keeps_configuration_lemma. Qed.
Print Assumptions failed_set_keeps_configuration.

(* one that returned has stored exactly its argument, and that name loads *)
Theorem successful_set_stores : forall st n s, snd (step st (SSet n)) = Ok s -> fst (step st (SSet n)) = n /\ loadable n /\ s = [].
Proof. exact successful_set_stores_lemma. Qed.
Print Assumptions successful_set_stores.

(* after any history the configuration is the argument of the last set_locale call whose name loads (else the initial one) *)
Theorem configuration_is_last_successful_set : forall ops st, final st ops = last_good_set ops st.
Proof. exact final_is_last_good_set_lemma. Qed.
Print Assumptions configuration_is_last_successful_set.

(* ... and it can always be loaded: no history leaves a name behind that the next call chokes on *)
Theorem configuration_always_loadable : forall ops, loadable (final initial ops).
Proof. exact initial_always_loadable. Qed.
Print Assumptions configuration_always_loadable.

(* a call without a locale argument is the same call with the configured name; a call with a locale argument (and Locale.load, a
   transparent cache) gives the same result after every history *)
Theorem ambient_is_configured : forall st st' o, o <> SGet -> snd (step st o) = snd (step st' (with_loc o st)).
Proof. exact ambient_is_configured_lemma. Qed.
Print Assumptions ambient_is_configured.

Theorem result_independent_of_history : forall ops1 ops2 st1 st2 o,
  state_free o = true -> snd (step (final st1 ops1) o) = snd (step (final st2 ops2) o).
Proof. exact result_independent_of_history_lemma. Qed.
Print Assumptions result_independent_of_history.

(* totality with the ambient locale after EVERY history of the process (including rejected set_locale calls) *)
Theorem ambient_format_total : forall ops d is_now absolute invert,
  exists s, snd (step (final initial ops) (SFmt None d is_now absolute invert)) = Ok s /\ s <> [] /\ brace_free s.
Proof. exact initial_format_total. Qed.
Print Assumptions ambient_format_total.

Theorem ambient_in_words_total : forall ops d us sep, brace_free sep ->
  exists s, snd (step (final initial ops) (SWords None d us sep)) = Ok s /\ s <> [] /\ brace_free s.
Proof. exact initial_in_words_total. Qed.
Print Assumptions ambient_in_words_total.

Theorem ambient_token_total : forall ops tok month dow day hour, 0 <= tok <= 10 -> 1 <= month <= 12 -> 0 <= dow <= 6 ->
  exists s, snd (step (final initial ops) (STok None tok month dow day hour)) = Ok s /\ s <> [] /\ brace_free s.
Proof. exact initial_token_total. Qed.
Print Assumptions ambient_token_total.

(* ------------------------------------------------------------------------------------------------------------------------------
   DateTime.diff(other) / diff_for_humans(other) end to end (Model/DiffHumans.v): Interval's ordering of the endpoints, the native
   rebuild of Interval.__init__ (with fold=, so precise_diff sees each operand with its own offset), precise_diff (translated pure-Python
   helper / hand model of the compiled one, shared with C06), the component properties, then `format`.  The correspondence run compares
   components, invert and phrase with both backends on pairs of instants in one zone and in two zones (streams `instants`, `instants-xz`),
   including a deterministic block of endpoints that are the second occurrence of a repeated wall time. *)

(* the phrase is total whenever the difference exists; with the compiled helper it always exists *)
Theorem diff_for_humans_total : forall L rs a b absolute ci, In L all_locales -> diff_comps rs a b = Ok ci ->
  exists s, diff_for_humans L rs a b absolute = Ok s /\ s <> [] /\ brace_free s.
Proof. exact diff_for_humans_total_lemma. Qed.
Print Assumptions diff_for_humans_total.

Theorem diff_for_humans_rs_total : forall L a b absolute, In L all_locales ->
  exists s, diff_for_humans L true a b absolute = Ok s /\ s <> [] /\ brace_free s.
Proof. exact diff_for_humans_rs_total_lemma. Qed.
Print Assumptions diff_for_humans_rs_total.

(* direction.  "invert <-> the instance is the later instant" is REFUTED for two values that share one tzinfo object inside a repeated hour
   (finding same-tzinfo-wall-order, listed for C05: `start > end` is evaluated on the wall clock; precise_diff then receives the two
   instants in the wrong order and the components are not those of the 30 minutes elapsed either) ... *)
Theorem direction_wall_order_refuted : exists a b c1 c2,
  p_instant b - p_instant a = 1800 * 1000000 /\ diff_comps false a b = Ok (c1, true) /\ diff_comps true a b = Ok (c2, true) /\
  c1 <> mkcomp 0 0 0 0 0 30 0 /\ c2 <> mkcomp 0 0 0 0 0 30 0.
Proof. exact diff_wall_order_refuted_lemma. Qed.
Print Assumptions direction_wall_order_refuted.

(* ... the same wall-clock comparison inside precise_diff (`d1 == d2`): the two occurrences of ONE wall time in one zone, one hour apart,
   compare equal and the pure-Python helper reports all components 0 (the compiled one, which has no such shortcut, reports the hour) ... *)
Theorem same_wall_two_occurrences_refuted : exists a b,
  p_instant b - p_instant a = 3600 * 1000000 /\
  diff_comps false a b = Ok (mkcomp 0 0 0 0 0 0 0, false) /\ diff_comps true a b = Ok (mkcomp 0 0 0 0 1 0 0, false).
Proof. exact same_wall_two_occurrences_refuted_lemma. Qed.
Print Assumptions same_wall_two_occurrences_refuted.

(* ... and holds for aware values with different tzinfo objects, or with equal offsets *)
Theorem direction_follows_instants_partial : forall rs a b c inv,
  p_aware a = true -> p_aware b = true -> (p_tzobj a <> p_tzobj b \/ p_offset a = p_offset b) ->
  diff_comps rs a b = Ok (c, inv) -> (inv = true <-> p_instant b < p_instant a).
Proof. exact direction_follows_instants_partial_lemma. Qed.
Print Assumptions direction_follows_instants_partial.

(* magnitude.  precise_diff is handed the operands themselves — each with the offset its own fold selects — for EVERY pair, in particular
   when an endpoint is the second occurrence of a repeated wall time (full strength since the repair of finding interval-init-drops-fold:
   Interval.__init__ used to rebuild its natives without fold=, and this held only where the fold-0 offset was the offset) ... *)
Theorem diff_sees_operands : forall rs a b,
  diff_comps rs a b =
  (let inv := p_gtb a b in let s := if inv then b else a in let e := if inv then a else b in
   bind (pd_backend rs s e) (fun d =>
   let c := iv_components d (iv_elapsed s e) in
   Ok (mkcomp (iv_years c) (iv_months c) (iv_weeks c) (iv_remaining_days c) (iv_hours c) (iv_minutes c) (iv_remaining_seconds c), inv))).
Proof. exact diff_sees_operands_lemma. Qed.
Print Assumptions diff_sees_operands.

(* ... the former witness of that finding (2012-10-28 00:30Z and, one hour later, the SECOND 02:30 in Europe/Paris): one hour with both
   backends and in both directions (every component was 0), while the FIRST 02:30 is the instant of 00:30Z itself *)
Theorem diff_second_occurrence :
  let a := w_utc_0030 in let b := w_paris_0230_second in
  p_instant b - p_instant a = 3600 * 1000000 /\
  diff_comps false a b = Ok (mkcomp 0 0 0 0 1 0 0, false) /\
  diff_comps true a b = Ok (mkcomp 0 0 0 0 1 0 0, false) /\
  diff_comps false b a = Ok (mkcomp 0 0 0 0 1 0 0, true) /\
  diff_comps true b a = Ok (mkcomp 0 0 0 0 1 0 0, true) /\
  diff_comps false a w_paris_0230_first = Ok (mkcomp 0 0 0 0 0 0 0, false).
Proof. exact second_occurrence_witness. Qed.
Print Assumptions diff_second_occurrence.

(* ... magnitude is still REFUTED with the compiled helper for cross-zone pairs whose manual UTC shift mis-carries (finding rs-cross-zone-shift,
   listed for C06): one second elapsed, pure Python 1 second, compiled 1 hour -59 minutes 1 second *)
Theorem diff_rs_cross_zone_refuted : exists a b,
  p_instant b - p_instant a = 1000000 /\
  diff_comps false a b = Ok (mkcomp 0 0 0 0 0 0 1, false) /\
  diff_comps true a b = Ok (mkcomp 0 0 0 0 1 (-59) 1, false).
Proof. exact diff_rs_cross_zone_refuted_lemma. Qed.
Print Assumptions diff_rs_cross_zone_refuted.

(* magnitude, proved end to end: two datetimes with zero offset (both UTC, or both naive) less than a day apart, the instance earlier.
   The difference is computed by the translated precise_diff (characterised in C06), the Interval glue and the translated unit selection:
   the count of the phrase is within one unit of the TRUE elapsed time (whole seconds), and 'a few seconds' is said only for at most 10 s *)
Theorem within_one_unit_true_elapsed : forall a b, dt_pair a b -> 0 < p_wall b - p_wall a < us_per_day ->
  exists c, diff_comps false a b = Ok (c, false) /\
    match gen_pick c with
    | Some (u, n) => Z.abs (n * unit_seconds u - (p_wall b - p_wall a) / 1000000) < unit_seconds u
    | None => (p_wall b - p_wall a) / 1000000 <= 10
    end.
Proof. exact within_one_unit_true_elapsed_lemma. Qed.
Print Assumptions within_one_unit_true_elapsed.

(* the same with the compiled helper (hand model; equal to the pure-Python one on this domain by C06's pd_rust_eq_python) *)
Theorem within_one_unit_true_elapsed_rs : forall a b, dt_pair a b -> 1 <= p_year a -> 0 < p_wall b - p_wall a < us_per_day ->
  exists c, diff_comps true a b = Ok (c, false) /\
    match gen_pick c with
    | Some (u, n) => Z.abs (n * unit_seconds u - (p_wall b - p_wall a) / 1000000) < unit_seconds u
    | None => (p_wall b - p_wall a) / 1000000 <= 10
    end.
Proof. exact within_one_unit_true_elapsed_rs_lemma. Qed.
Print Assumptions within_one_unit_true_elapsed_rs.

(* ---- the MODEL side itself: the locale session machine Model/LocaleSession.v EQUALS the machine translation of pendulum's own code
   (Gen/HumanizeGlue.v: locales/locale.py Locale.normalize_locale / Locale.load, helpers.py locale / set_locale / get_locale / format_diff,
   translated from /repo on every run; pendulum._LOCALE and Locale._cache are explicit state threaded through the functions,
   tools/vlib/gens/g18_humanize_glue.py).  cache_ok c = every cache entry is what a fresh load of its key builds: true of the empty cache and
   preserved by every function below, so the TRANSPARENCY of Locale._cache is proved, not assumed.  The DifferenceFormatter itself and the
   in_words skeletons are not translated (Model/DiffFormat.v stays a hand model). ---- *)
From PV Require Import Model.HumanizeObj Gen.HumanizeGlue Proofs.HumanizeGlueFacts.

Theorem model_is_code_normalize_locale : forall s, glue_normalize_locale s = normalize_locale s.
Proof. exact glue_normalize_locale_spec. Qed.
Print Assumptions model_is_code_normalize_locale.

Theorem model_is_code_locale_load : forall c name, cache_ok c ->
  match glue_Locale_load c name with
  | Ok (L, c') => load name = Ok (gl_data L) /\ gl_name L = normalize_locale name /\ cache_ok c'
  | Raise e => load name = Raise e
  end.
Proof. exact glue_load_spec. Qed.
Print Assumptions model_is_code_locale_load.

Theorem model_is_code_locale_cache_transparent : forall c1 c2 name, cache_ok c1 -> cache_ok c2 ->
  match glue_Locale_load c1 name, glue_Locale_load c2 name with
  | Ok (L1, _), Ok (L2, _) => L1 = L2
  | Raise e1, Raise e2 => e1 = e2
  | _, _ => False
  end.
Proof. exact load_is_transparent. Qed.
Print Assumptions model_is_code_locale_cache_transparent.

Theorem model_is_code_locale : forall c st name, cache_ok c ->
  match glue_locale c name with
  | Ok (L, c') => step st (SLoad name) = (st, Ok (gl_name L)) /\ cache_ok c'
  | Raise e => step st (SLoad name) = (st, Raise e)
  end.
Proof. exact glue_locale_step. Qed.
Print Assumptions model_is_code_locale.

(* set_locale validates FIRST (locale(name) may raise ValueError) and stores the name only afterwards: a failed call keeps the configuration *)
Theorem model_is_code_set_locale : forall c st name, cache_ok c ->
  match glue_set_locale c name with
  | Ok (st', c') => step st (SSet name) = (st', Ok []) /\ cache_ok c'
  | Raise e => step st (SSet name) = (st, Raise e)
  end.
Proof. exact glue_set_locale_step. Qed.
Print Assumptions model_is_code_set_locale.

Theorem model_is_code_get_locale : forall st, step st SGet = (st, Ok (glue_get_locale st)).
Proof. exact glue_get_locale_step. Qed.
Print Assumptions model_is_code_get_locale.

(* format_diff(diff, is_now, absolute, locale): locale None -> the CONFIGURED name; then the formatter on the loaded locale *)
Theorem model_is_code_format_diff : forall c st loc d is_now absolute invert, cache_ok c ->
  match glue_format_diff c st (mkgdiff d invert) is_now absolute loc with
  | Ok (s, c') => step st (SFmt loc d is_now absolute invert) = (st, Ok s) /\ cache_ok c'
  | Raise e => step st (SFmt loc d is_now absolute invert) = (st, Raise e)
  end.
Proof. exact glue_format_diff_step. Qed.
Print Assumptions model_is_code_format_diff.

(* ---- model = code, continued: Duration.in_words / Interval.in_words (duration.py, interval.py), DateTime.diff_for_humans / Date.diff_for_humans
   (datetime.py, date.py), Locale.plural / ordinal / ordinalize (locales/locale.py), translated from /repo on every run (Gen/HumanizeGlue.v).
   Still hand-written: DifferenceFormatter.format's key construction, Locale.get's split of a dotted key (and its _key_cache). ---- *)

(* Duration.in_words(locale, separator): locale None -> the CONFIGURED name; the seven units in the literal's order, those with abs(count) > 0, the
   plural class of abs(count) but the signed count in the text; no part at all -> the seconds-with-two-decimals / "0 microseconds" fallback;
   separator.join *)
Theorem model_is_code_in_words_duration : forall c st loc d us sep, cache_ok c ->
  match glue_Duration_in_words c st (mkgwords d us) loc sep with
  | Ok (s, c') => step st (SWords loc d us sep) = (st, Ok s) /\ cache_ok c'
  | Raise e => step st (SWords loc d us sep) = (st, Raise e)
  end.
Proof. exact glue_Duration_in_words_step_thm. Qed.
Print Assumptions model_is_code_in_words_duration.

(* Interval.in_words loads `locale or pendulum.get_locale()`: the same step, except that locale="" counts as no locale argument *)
Theorem model_is_code_in_words_interval : forall c st loc d us sep, cache_ok c ->
  match glue_Interval_in_words c st (mkgwords d us) loc sep with
  | Ok (s, c') => step st (SWords (falsy_is_none loc) d us sep) = (st, Ok s) /\ cache_ok c'
  | Raise e => step st (SWords (falsy_is_none loc) d us sep) = (st, Raise e)
  end.
Proof. exact glue_Interval_in_words_step_thm. Qed.
Print Assumptions model_is_code_in_words_interval.

Theorem in_words_interval_is_in_words_duration : forall c st loc w sep, loc <> Some [] ->
  glue_Interval_in_words c st w loc sep = glue_Duration_in_words c st w loc sep.
Proof. exact Interval_in_words_is_Duration_in_words. Qed.
Print Assumptions in_words_interval_is_in_words_duration.

(* diff_for_humans(other, absolute, locale): is_now = (other is None); the value compared with is other, else the clock reading; diff = self.diff(it);
   format_diff(diff, is_now, absolute, locale) — dfh_model is exactly that over Model/DiffHumans.v diff_comps and the SFmt step *)
Theorem model_is_code_diff_for_humans : forall c st clock rs a other absolute loc, cache_ok c ->
  match glue_DateTime_diff_for_humans c st clock rs a other absolute loc with
  | Ok (s, c') => dfh_model st clock rs a other absolute loc = Ok s /\ cache_ok c'
  | Raise e => dfh_model st clock rs a other absolute loc = Raise e
  end.
Proof. exact glue_DateTime_diff_for_humans_thm. Qed.
Print Assumptions model_is_code_diff_for_humans.

Theorem model_is_code_diff_for_humans_date : forall c st clock rs a other absolute loc, cache_ok c ->
  match glue_Date_diff_for_humans c st clock rs a other absolute loc with
  | Ok (s, c') => dfh_model st clock rs a other absolute loc = Ok s /\ cache_ok c'
  | Raise e => dfh_model st clock rs a other absolute loc = Raise e
  end.
Proof. exact glue_Date_diff_for_humans_thm. Qed.
Print Assumptions model_is_code_diff_for_humans_date.

(* with an explicit other and a locale that loads, that is the diff_for_humans of Model/DiffHumans.v (the one diff_for_humans_total is about) *)
Theorem diff_for_humans_model_is_DiffHumans : forall st clock rs a b absolute loc L, load (eff st loc) = Ok L ->
  dfh_model st clock rs a (Some b) absolute loc = diff_for_humans L rs a b absolute.
Proof. exact dfh_model_is_DiffHumans. Qed.
Print Assumptions diff_for_humans_model_is_DiffHumans.

Theorem model_is_code_locale_plural : forall L n, glue_Locale_plural L n = lplural L n.
Proof. exact glue_Locale_plural_spec. Qed.
Print Assumptions model_is_code_locale_plural.

Theorem model_is_code_locale_ordinal : forall L n, glue_Locale_ordinal L n = lordinal L n.
Proof. exact glue_Locale_ordinal_spec. Qed.
Print Assumptions model_is_code_locale_ordinal.

Theorem model_is_code_locale_ordinalize : forall L n, glue_Locale_ordinalize L n = ordinalize L n.
Proof. exact glue_Locale_ordinalize_spec. Qed.
Print Assumptions model_is_code_locale_ordinalize.

(* ------------------------------------------------------------------------------------------------------------------------------
   operands handed in as NATIVE values (Model/DiffHumansNative.v; stream instants-native): x.diff_for_humans(native),
   pendulum.interval(native, native).in_words() / format_diff(...).  Interval.__new__ works on the values as given (a0, b0), __init__ on
   pendulum.instance of them (a, b) — datetime SUBCLASS instances that go to precise_diff as they are. *)
From PV Require Import Model.DiffHumansNative Proofs.C18Native.

(* the result does not depend on how the operand was handed in, whenever both views order the pair alike *)
Theorem native_operand_transparent : forall rs a0 b0 a b,
  p_comparable a b = true -> p_gtb a0 b0 = p_gtb a b ->
  iv_elapsed a0 b0 = iv_elapsed a b -> iv_elapsed b0 a0 = iv_elapsed b a ->
  diff_comps_native rs true a0 b0 a b = diff_comps rs a b.
Proof. exact native_transparent_lemma. Qed.
Print Assumptions native_operand_transparent.

(* ... in particular for aware values in different zones (different tzinfo objects in both views) or with equal offsets *)
Theorem native_aware_operand_transparent : forall rs a b ja jb,
  p_aware a = true -> p_aware b = true ->
  ((p_tzobj a <> p_tzobj b /\ ja <> jb) \/ p_offset a = p_offset b) ->
  diff_comps_native rs true (as_given a (p_has_tz a) ja) (as_given b (p_has_tz b) jb) a b = diff_comps rs a b.
Proof. exact native_aware_transparent_lemma. Qed.
Print Assumptions native_aware_operand_transparent.

Example native_operand_hypotheses_satisfiable :
  p_comparable n_paris_1200 n_paris_1500 = true /\ p_aware n_paris_1200 = true /\ p_tzobj n_paris_1200 = p_tzobj n_paris_1500 /\
  p_offset n_paris_1200 = p_offset n_paris_1500.
Proof. exact native_hypotheses_satisfiable. Qed.

(* a reference three hours later in the same zone, given as a stdlib datetime: 3 hours with BOTH backends, either direction; two native
   values in different zones 45 minutes apart: 45 minutes (the offset of a datetime-subclass operand is read, not taken as 0) *)
Theorem native_reference_three_hours :
  let a := n_paris_1200 in let b := n_paris_1500 in let b0 := as_given b true 101 in
  diff_comps_native false true a b0 a b = Ok (mkcomp 0 0 0 0 3 0 0, false) /\
  diff_comps_native true true a b0 a b = Ok (mkcomp 0 0 0 0 3 0 0, false) /\
  diff_comps_native false true b0 a b a = Ok (mkcomp 0 0 0 0 3 0 0, true) /\
  diff_comps_native true true b0 a b a = Ok (mkcomp 0 0 0 0 3 0 0, true) /\
  (let x := n_tokyo_2100 in let y := n_ny_0845 in
   diff_comps_native false false (as_given x true 104) (as_given y true 103) x y = Ok (mkcomp 0 0 0 0 0 45 0, false) /\
   diff_comps_native true false (as_given x true 104) (as_given y true 103) x y = Ok (mkcomp 0 0 0 0 0 45 0, false)).
Proof. exact native_reference_three_hours_lemma. Qed.
Print Assumptions native_reference_three_hours.

(* finding same-tzinfo-wall-order, native flavour: transparency FAILS inside a repeated hour (instant order in __new__, wall order in __init__) *)
Theorem native_operand_transparent_refuted : exists a b jb c1 c2,
  p_instant b - p_instant a = 1807 * 1000000 /\
  diff_comps true a b = Ok (c1, true) /\
  diff_comps_native true true a (as_given b true jb) a b = Ok (c2, true) /\ c_rsecs c1 = -7 /\ c_rsecs c2 = 7.
Proof. exact native_not_transparent_refuted_lemma. Qed.
Print Assumptions native_operand_transparent_refuted.

(* finding native-naive-operand: "without raising" is false for a naive pendulum DateTime against a naive native datetime *)
Theorem native_total_refuted : exists a b0 b, forall rs iv_abs,
  p_aware a = false /\ p_aware b0 = false /\ p_wall b0 = p_wall b /\
  diff_comps_native rs iv_abs a b0 a b = Raise E_TypeError.
Proof. exact native_naive_reference_refuted_lemma. Qed.
Print Assumptions native_total_refuted.

(* ... and holds on the region where Interval.__init__ keeps two values of one kind (compiled helper: total there) *)
Theorem native_total_partial : forall iv_abs a0 b0 a b, p_comparable a b = true ->
  exists ci, diff_comps_native true iv_abs a0 b0 a b = Ok ci.
Proof. exact native_total_partial_lemma. Qed.
Print Assumptions native_total_partial.

Theorem native_raises_only_for_mixed_kinds : forall rs iv_abs a0 b0 a b, p_comparable a b = false ->
  diff_comps_native rs iv_abs a0 b0 a b = Raise E_TypeError.
Proof. exact native_raises_only_type_error. Qed.
Print Assumptions native_raises_only_for_mixed_kinds.

Theorem format_diff_native_total : forall L rs iv_abs a0 b0 a b absolute ci, In L all_locales ->
  diff_comps_native rs iv_abs a0 b0 a b = Ok ci ->
  exists s, format_diff_native L rs iv_abs a0 b0 a b absolute = Ok s /\ s <> [] /\ brace_free s.
Proof. exact format_diff_native_total_lemma. Qed.
Print Assumptions format_diff_native_total.

Theorem native_direction_is_init_order : forall rs iv_abs a0 b0 a b c inv,
  diff_comps_native rs iv_abs a0 b0 a b = Ok (c, inv) -> inv = p_gtb a b.
Proof. exact native_invert_is_gtb. Qed.
Print Assumptions native_direction_is_init_order.

(* ---- model = code, continued: Locale.get / Locale.translation (locales/locale.py), translated from /repo on every run (Gen/HumanizeGlue.v):
   key.split("."), the walk through the nested dicts, `except KeyError: result = default`, the per-object memo _key_cache threaded as explicit state.
   dotted [p1; ...; pn] is the str "p1.p2...pn"; kc_ok L c: every entry of the memo is what a fresh call on its key returns (holds of the empty memo,
   preserved by get and translation). ---- *)
Theorem model_is_code_locale_get : forall L c path, kc_ok L c -> path <> [] -> forallb (fun s => dot_free (pstr_of_string s)) path = true ->
  match glue_Locale_get c L (dotted path) None with
  | Ok (v, c') => lget L path = Ok v /\ kc_ok L c'
  | Raise e => lget L path = Raise e
  end.
Proof. exact glue_Locale_get_spec. Qed.
Print Assumptions model_is_code_locale_get.

Theorem model_is_code_locale_translation : forall L c path, kc_ok L c -> path <> [] -> forallb (fun s => dot_free (pstr_of_string s)) path = true ->
  match glue_Locale_translation c L (dotted path) with
  | Ok (v, c') => lget L ("translations"%string :: path) = Ok v /\ kc_ok L c'
  | Raise e => lget L ("translations"%string :: path) = Raise e
  end.
Proof. exact glue_Locale_translation_spec. Qed.
Print Assumptions model_is_code_locale_translation.

(* for ANY key (dotted or not): what get returns does not depend on what _key_cache holds *)
Theorem locale_key_cache_transparent : forall L c1 c2 key, kc_ok L c1 -> kc_ok L c2 ->
  match glue_Locale_get c1 L key None, glue_Locale_get c2 L key None with
  | Ok (v1, _), Ok (v2, _) => v1 = v2
  | Raise e1, Raise e2 => e1 = e2
  | _, _ => False
  end.
Proof. exact key_cache_is_transparent. Qed.
Print Assumptions locale_key_cache_transparent.

Theorem locale_key_cache_starts_ok : forall L, kc_ok L [].
Proof. exact kc_ok_nil. Qed.
Print Assumptions locale_key_cache_starts_ok.

(* the hand primitives that model_is_code_in_words_* and model_is_code_locale_ordinalize are stated over ARE these translations, for every key those
   functions build on a shipped locale (the unit names and every plural / ordinal class of every shipped locale contain no dot: computed) *)
Theorem in_words_translation_is_code : forall L c w u n, In (gl_data L) all_locales -> kc_ok (gl_data L) c ->
  In u (List.app (map fst (glue_Duration_in_words_intervals w)) ["second"%string; "microsecond"%string]) ->
  match glue_Locale_translation c (gl_data L) (dotted ["units"%string; u; loc_plural L n]) with
  | Ok (v, c') => loc_translation L (mk_ukey u (loc_plural L n)) = Ok v /\ kc_ok (gl_data L) c'
  | Raise e => loc_translation L (mk_ukey u (loc_plural L n)) = Raise e
  end.
Proof. exact HumanizeGlueFacts.in_words_translation_is_code. Qed.
Print Assumptions in_words_translation_is_code.

Theorem ordinalize_get_is_code : forall L c n, In L all_locales -> kc_ok L c ->
  match glue_Locale_get c L (dotted ["custom"%string; "ordinal"%string; glue_Locale_ordinal L n]) None with
  | Ok (v, c') => loc_get_custom_ordinal L (glue_Locale_ordinal L n) = Ok v /\ kc_ok L c'
  | Raise e => loc_get_custom_ordinal L (glue_Locale_ordinal L n) = Raise e
  end.
Proof. exact HumanizeGlueFacts.ordinalize_get_is_code. Qed.
Print Assumptions ordinalize_get_is_code.

(* ---- magnitude, CROSS-ZONE, universal (pure-Python helper): two aware datetimes in differently named zones at ANY offsets (cross_pair of
   Proofs/C06Cross.v; also the second occurrence of a repeated wall time), less than a day apart, the instance the earlier INSTANT: the count of the
   phrase is within one unit of the TRUE elapsed time p_instant b - p_instant a (whole seconds), and 'a few seconds' is said only for at most 10 s.
   This is within_one_unit_true_elapsed without the zero-offset restriction; like it, it is stated for less than a day (where the difference has no
   day / month / year part; beyond a day the calendar units are not a fixed number of seconds: within_one_unit_calendar).  The compiled helper is
   refuted on such pairs (diff_rs_cross_zone_refuted above, finding rs-cross-zone-shift). ---- *)
From PV Require Import Proofs.C06Cross Proofs.C18Cross.

Theorem within_one_unit_true_elapsed_cross_zone : forall a b, cross_pair a b -> 0 < p_instant b - p_instant a < us_per_day ->
  exists c, diff_comps false a b = Ok (c, false) /\
    match gen_pick c with
    | Some (u, n) => Z.abs (n * unit_seconds u - (p_instant b - p_instant a) / 1000000) < unit_seconds u
    | None => (p_instant b - p_instant a) / 1000000 <= 10
    end.
Proof. exact within_one_unit_true_elapsed_cross_zone_lemma. Qed.
Print Assumptions within_one_unit_true_elapsed_cross_zone.
