(* Props/C12.v — start_of/end_of delimit exactly the calendar unit that contains the value. (being filled in) *)
From Coq Require Import ZArith Bool.
From PV Require Import Gen.StartEnd.
Open Scope Z_scope.

Theorem default_week_configuration_consistent : C12_WEEK_ENDS_AT_DEFAULT = (C12_WEEK_STARTS_AT_DEFAULT + 6) mod 7.
Proof. reflexivity. Qed.
Print Assumptions default_week_configuration_consistent.
