(* Props/C12.v — start_of/end_of delimit exactly the calendar unit that contains the value.
   Model: Model/StartEnd.v (month/year/decade/century bodies translated from /repo: Gen/StartEnd.v; set/at/second..day/week hand-modelled,
   text pinned by the generator), DateTime.create of Model/TzConvert.v, zones of Spec/Zone.v, calendar of Spec/Cal.v.
   Units 0..8 = second minute hour day week month year decade century; ws = week_starts_at, we_of ws = the day before (consistent configurations).
   `plain v`: naive, FixedTimezone, or a zone without transitions (UTC).  All statements are for EVERY representable value, unit and configuration. *)
From Coq Require Import ZArith List Bool.
From PV Require Import Lib.PyBase Spec.Cal Spec.Zone Proofs.ZoneFacts Model.TzConvert Model.StartEndBase Gen.StartEnd Model.StartEnd.
From PV Require Import Proofs.C12Spec Proofs.C12Facts Proofs.C12Week Proofs.C12Main Proofs.C12WeekDst.
Import ListNotations.
Open Scope Z_scope.

(* the unit structure of the wall clock: a wall value lies between the first and last microsecond of a unit iff it has the unit's identifier *)
Theorem unit_is_an_interval : forall u ws W W', valid_unit u ->
  (unit_lo u ws W <= W' <= unit_hi u ws W <-> unit_id u ws W' = unit_id u ws W).
Proof. exact unit_range_iff. Qed.
Print Assumptions unit_is_an_interval.

(* --- no DST: exact results; a raise happens exactly when the unit's boundary is outside years 1..9999 --- *)
Theorem start_exact : forall u ws v, plain v -> wall_in_range (v_W v) = true -> valid_unit u -> week_day ws ->
  (0 <= unit_lo u ws (v_W v) -> exists f', dt_start_of ws u v = Ok (unit_lo u ws (v_W v), f')) /\
  (unit_lo u ws (v_W v) < 0 -> exists e, dt_start_of ws u v = Raise e).
Proof. exact start_exact_plain. Qed.
Print Assumptions start_exact.

Theorem end_exact : forall u ws v, plain v -> wall_in_range (v_W v) = true -> valid_unit u -> week_day ws ->
  (unit_hi u ws (v_W v) <= MAXW -> exists f', dt_end_of (we_of ws) u v = Ok (unit_hi u ws (v_W v), f')) /\
  (MAXW < unit_hi u ws (v_W v) -> exists e, dt_end_of (we_of ws) u v = Raise e).
Proof. exact end_exact_plain. Qed.
Print Assumptions end_exact.

Theorem start_same_unit : forall u ws v, plain v -> wall_in_range (v_W v) = true -> valid_unit u -> week_day ws ->
  forall W' f', dt_start_of ws u v = Ok (W', f') -> unit_id u ws W' = unit_id u ws (v_W v).
Proof. exact start_same_unit_plain. Qed.
Print Assumptions start_same_unit.

Theorem end_same_unit : forall u ws v, plain v -> wall_in_range (v_W v) = true -> valid_unit u -> week_day ws ->
  forall W' f', dt_end_of (we_of ws) u v = Ok (W', f') -> unit_id u ws W' = unit_id u ws (v_W v).
Proof. exact end_same_unit_plain. Qed.
Print Assumptions end_same_unit.

Theorem start_le_x_le_end : forall u ws v, plain v -> wall_in_range (v_W v) = true -> valid_unit u -> week_day ws ->
  forall Ws fs We fe, dt_start_of ws u v = Ok (Ws, fs) -> dt_end_of (we_of ws) u v = Ok (We, fe) ->
  Ws <= v_W v <= We /\
  (z_trans (v_zone v) = [] -> inst (v_zone v) Ws fs <= inst (v_zone v) (v_W v) (v_fold v) <= inst (v_zone v) We fe).
Proof. exact start_le_x_le_end_plain. Qed.
Print Assumptions start_le_x_le_end.

Theorem pred_start_other_unit : forall u ws v, plain v -> wall_in_range (v_W v) = true -> valid_unit u -> week_day ws ->
  forall Ws fs, dt_start_of ws u v = Ok (Ws, fs) ->
  (forall W'', W'' < Ws -> unit_id u ws W'' <> unit_id u ws (v_W v)) /\
  (z_trans (v_zone v) = [] -> unit_id u ws (fst (render (v_zone v) (inst (v_zone v) Ws fs - 1))) <> unit_id u ws (v_W v)).
Proof. exact pred_start_other_unit_plain. Qed.
Print Assumptions pred_start_other_unit.

Theorem succ_end_other_unit : forall u ws v, plain v -> wall_in_range (v_W v) = true -> valid_unit u -> week_day ws ->
  forall We fe, dt_end_of (we_of ws) u v = Ok (We, fe) ->
  (forall W'', We < W'' -> unit_id u ws W'' <> unit_id u ws (v_W v)) /\
  (z_trans (v_zone v) = [] -> unit_id u ws (fst (render (v_zone v) (inst (v_zone v) We fe + 1))) <> unit_id u ws (v_W v)).
Proof. exact succ_end_other_unit_plain. Qed.
Print Assumptions succ_end_other_unit.

Theorem start_idempotent : forall u ws v, plain v -> wall_in_range (v_W v) = true -> valid_unit u -> week_day ws ->
  forall Ws fs, dt_start_of ws u v = Ok (Ws, fs) -> exists f'', dt_start_of ws u (upd v (Ws, fs)) = Ok (Ws, f'').
Proof. exact start_idempotent_plain. Qed.
Print Assumptions start_idempotent.

Theorem end_idempotent : forall u ws v, plain v -> wall_in_range (v_W v) = true -> valid_unit u -> week_day ws ->
  forall We fe, dt_end_of (we_of ws) u v = Ok (We, fe) -> exists f'', dt_end_of (we_of ws) u (upd v (We, fe)) = Ok (We, f'').
Proof. exact end_idempotent_plain. Qed.
Print Assumptions end_idempotent.

(* the zone of the result is the zone of the instance: in the model the result is re-attached to the same (zone, kind) by `upd`;
   on the implementation side the oracle checks tzinfo/timezone_name of every result *)
Theorem tz_kept : forall v r, v_zone (upd v r) = v_zone v /\ v_kind (upd v r) = v_kind v.
Proof. exact tz_kept_l. Qed.
Print Assumptions tz_kept.

Theorem fold_independent : forall u ws v f1 f2, plain v -> wall_in_range (v_W v) = true -> valid_unit u -> week_day ws ->
  same_wall (dt_start_of ws u (with_fold v f1)) (dt_start_of ws u (with_fold v f2)) /\
  same_wall (dt_end_of (we_of ws) u (with_fold v f1)) (dt_end_of (we_of ws) u (with_fold v f2)).
Proof. exact fold_independent_plain. Qed.
Print Assumptions fold_independent.

(* the day-by-day walk of previous()/next() equals the closed form "go back to the last day whose weekday is ws" *)
Theorem week_walk_is_ordinal_arithmetic : forall fuel v wd, plain v -> wall_in_range (v_W v) = true -> 0 <= wd <= 6 ->
  let j := (v_W v / us_per_day - wd) mod 7 in j < Z.of_nat fuel ->
  dt_walk fuel (-1) wd v =
  if 0 <=? v_W v - j * us_per_day
  then Ok (mkdtv (v_zone v) (v_kind v) (v_W v - j * us_per_day) (if j =? 0 then v_fold v else step_fold v))
  else Raise E_OverflowError.
Proof. exact walk_back. Qed.
Print Assumptions week_walk_is_ordinal_arithmetic.

(* --- Date --- *)
Theorem date_start_exact : forall ws u n, date_unit u -> 1 <= n <= 3652059 -> 0 <= ws <= 6 ->
  date_start_of ws u n = if 1 <=? day_lo u ws n then Ok (day_lo u ws n) else Raise (if u =? 4 then E_OverflowError else E_ValueError).
Proof. exact date_start_spec. Qed.
Print Assumptions date_start_exact.

Theorem date_end_exact : forall ws u n, date_unit u -> 1 <= n <= 3652059 -> 0 <= ws <= 6 ->
  date_end_of ((ws + 6) mod 7) u n =
  if day_hi u ws n <=? 3652059 then Ok (day_hi u ws n) else Raise (if u =? 4 then E_OverflowError else E_ValueError).
Proof. exact date_end_spec. Qed.
Print Assumptions date_end_exact.

Theorem date_bounds_delimit_the_unit : forall u ws n, date_unit u ->
  let lo := day_lo u ws n in let hi := day_hi u ws n in
  lo <= n <= hi /\
  unit_id u ws (wall_of_ord lo) = unit_id u ws (wall_of_ord n) /\ unit_id u ws (wall_of_ord hi) = unit_id u ws (wall_of_ord n) /\
  unit_id u ws (wall_of_ord (lo - 1)) <> unit_id u ws (wall_of_ord n) /\ unit_id u ws (wall_of_ord (hi + 1)) <> unit_id u ws (wall_of_ord n) /\
  day_lo u ws lo = lo /\ day_hi u ws hi = hi.
Proof. exact date_delimit. Qed.
Print Assumptions date_bounds_delimit_the_unit.

(* --- tz-database zones (every table, no well-formedness needed for these): when the unit's first (last) wall microsecond is not a
       skipped wall time the result is that microsecond read with the instance's fold: same unit, on the right side of the value on
       the wall clock, idempotent, and independent of the instance's fold (of how the value was obtained).
       _partial: the week unit (its walk constructs seven local midnights) is not covered, and the statements about instants
       (start <= x as instants, the neighbouring microsecond) are not proved for zones with transitions; for a REPEATED boundary they
       are false for one of the two folds (start_repeated_refuted / end_repeated_refuted below). --- *)
Theorem start_dst_partial : forall u ws v, v_kind v = 2 -> non_week u -> wall_in_range (v_W v) = true ->
  ~ wall_skipped (v_zone v) (sec (unit_lo u ws (v_W v))) -> 0 <= unit_lo u ws (v_W v) ->
  let r := (unit_lo u ws (v_W v), v_fold v) in
  dt_start_of ws u v = Ok r /\ unit_id u ws (fst r) = unit_id u ws (v_W v) /\ fst r <= v_W v /\
  dt_start_of ws u (upd v r) = Ok r /\
  (forall f, same_wall (dt_start_of ws u (with_fold v f)) (dt_start_of ws u v)).
Proof. exact start_dst_props. Qed.
Print Assumptions start_dst_partial.

Theorem end_dst_partial : forall u ws we v, v_kind v = 2 -> non_week u -> wall_in_range (v_W v) = true ->
  ~ wall_skipped (v_zone v) (sec (unit_hi u ws (v_W v))) -> unit_hi u ws (v_W v) <= MAXW ->
  let r := (unit_hi u ws (v_W v), v_fold v) in
  dt_end_of we u v = Ok r /\ unit_id u ws (fst r) = unit_id u ws (v_W v) /\ v_W v <= fst r /\
  dt_end_of we u (upd v r) = Ok r /\
  (forall f, same_wall (dt_end_of we u (with_fold v f)) (dt_end_of we u v)).
Proof. exact end_dst_props. Qed.
Print Assumptions end_dst_partial.

Theorem dst_hypotheses_are_satisfiable :
  v_kind (sp_value false) = 2 /\ non_week 2 /\ wall_in_range (v_W (sp_value false)) = true /\
  ~ wall_skipped (v_zone (sp_value false)) (sec (unit_lo 2 0 (v_W (sp_value false)))) /\ 0 <= unit_lo 2 0 (v_W (sp_value false)).
Proof. exact dst_hypotheses_satisfiable. Qed.
Print Assumptions dst_hypotheses_are_satisfiable.

(* --- the week unit in a tz-database zone.  previous() walks back day by day re-creating the carried wall time with the default fold 1: a
       skipped wall time on a walked day (a day that begins at 01:00) is moved forward by the gap and the walk continues with the shifted time
       of day; the trailing start_of('day') of _start_of_week removes it again.  So when the midnight of the value's own day and of the week's
       first day exist, and every skipped wall time of the walked days is moved within its calendar day (stays_in_day; true of every gap
       shorter than the rest of its day, false e.g. for the whole-day gap of Pacific/Apia), start_of('week') is the first microsecond of the
       week and idempotent — whatever happens to the midnights STRICTLY INSIDE the walk.
       end_week_dst_partial: the same for next() / end_of('week') and the week's last microsecond.
       _partial: the statements about instants (start <= x <= end as instants, the neighbouring microsecond) are not proved here. --- *)
Theorem start_week_dst_partial : forall ws v, v_kind v = 2 -> wall_in_range (v_W v) = true -> 0 <= ws <= 6 ->
  let z := v_zone v in let W := v_W v in let lo := unit_lo 4 ws W in
  0 <= lo -> ~ wall_skipped z (sec (unit_lo 3 0 W)) -> ~ wall_skipped z (sec lo) ->
  (forall W', lo <= W' < unit_lo 3 0 W -> stays_in_day z W') ->
  exists f', dt_start_of ws 4 v = Ok (lo, f') /\ dt_start_of ws 4 (upd v (lo, f')) = Ok (lo, f').
Proof. exact start_week_dst. Qed.
Print Assumptions start_week_dst_partial.

Theorem end_week_dst_partial : forall ws v, v_kind v = 2 -> wall_in_range (v_W v) = true -> 0 <= ws <= 6 ->
  let z := v_zone v in let W := v_W v in let hi := unit_hi 4 ws W in
  hi <= MAXW -> ~ wall_skipped z (sec (unit_lo 3 0 W)) -> ~ wall_skipped z (sec hi) ->
  (forall W', unit_hi 3 0 W < W' <= hi -> stays_in_day z W') ->
  exists f', dt_end_of (we_of ws) 4 v = Ok (hi, f') /\ dt_end_of (we_of ws) 4 (upd v (hi, f')) = Ok (hi, f').
Proof. exact end_week_dst. Qed.
Print Assumptions end_week_dst_partial.

(* the hypotheses are satisfiable WITH a skipped midnight strictly inside the walk: Asia/Tehran, Saturday 2018-03-24 12:00, default week;
   Thursday 2018-03-22 begins at 01:00 *)
Theorem start_week_dst_hypotheses_are_satisfiable : forall f,
  let v := tehran_sat f in let lo := unit_lo 4 0 (v_W v) in
  v_kind v = 2 /\ wall_in_range (v_W v) = true /\ 0 <= lo /\
  ~ wall_skipped (v_zone v) (sec (unit_lo 3 0 (v_W v))) /\ ~ wall_skipped (v_zone v) (sec lo) /\
  (forall W', lo <= W' < unit_lo 3 0 (v_W v) -> stays_in_day (v_zone v) W') /\
  (exists W', lo <= W' < unit_lo 3 0 (v_W v) /\ wall_skipped (v_zone v) (sec W')).
Proof. exact start_week_dst_satisfiable. Qed.
Print Assumptions start_week_dst_hypotheses_are_satisfiable.

(* Tuesday 2018-03-20 12:00 Asia/Tehran: the forward walk of next(SUNDAY) passes Thursday's skipped midnight *)
Theorem end_week_dst_hypotheses_are_satisfiable : forall f,
  let v := tehran_tue f in let hi := unit_hi 4 0 (v_W v) in
  v_kind v = 2 /\ wall_in_range (v_W v) = true /\ hi <= 315537897599999999 /\
  ~ wall_skipped (v_zone v) (sec (unit_lo 3 0 (v_W v))) /\ ~ wall_skipped (v_zone v) (sec hi) /\
  (forall W', unit_hi 3 0 (v_W v) < W' <= hi -> stays_in_day (v_zone v) W') /\
  (exists W', unit_hi 3 0 (v_W v) < W' <= hi /\ wall_skipped (v_zone v) (sec W')).
Proof. exact end_week_dst_satisfiable. Qed.
Print Assumptions end_week_dst_hypotheses_are_satisfiable.

(* on that value previous(MONDAY) ALONE arrives at Monday 01:00 (the hour by which Thursday's midnight was moved is carried along), one
   microsecond before which it is still the same week; start_of('week') is Monday 00:00, and the microsecond before it is another week.
   Returning the walk's result without the final start_of('day') would therefore break the property exactly here. *)
Theorem week_walk_carries_the_gap_shift :
  wf2_zone tehran_2018 = true /\ wall_skipped tehran_2018 (sec 63657273600000000) /\
  unit_lo 4 0 63657489600000000 = 63657014400000000 /\
  (forall f, dt_previous (tehran_sat f) 0 = Ok (mkdtv tehran_2018 2 63657018000000000 true)) /\
  (forall f, dt_start_of 0 4 (tehran_sat f) = Ok (63657014400000000, true)) /\
  unit_id 4 0 (fst (render tehran_2018 (inst tehran_2018 63657014400000000 true - 1))) <> unit_id 4 0 63657489600000000 /\
  unit_id 4 0 (fst (render tehran_2018 (inst tehran_2018 63657018000000000 true - 1))) = unit_id 4 0 63657489600000000.
Proof. exact tehran_facts. Qed.
Print Assumptions week_walk_carries_the_gap_shift.

(* --- refutations (faithful model, real tables) --- *)
(* America/Sao_Paulo, 2013-10-20 10:00 -02:00: local midnight is skipped.  The value obtained by conversion (fold 0) gets
   start_of('day') = 2013-10-19 23:00, a different day; the same instant with fold 1 gets 2013-10-20 01:00 *)
Theorem start_skipped_refuted : exists z W u ws, wf2_zone z = true /\
  render z (inst z W false) = (W, false) /\ inst z W false = inst z W true /\
  wall_skipped z (sec (unit_lo u ws W)) /\
  (exists W0 f0, dt_start_of ws u (mkdtv z 2 W false) = Ok (W0, f0) /\ unit_id u ws W0 <> unit_id u ws W) /\
  ~ same_wall (dt_start_of ws u (mkdtv z 2 W false)) (dt_start_of ws u (mkdtv z 2 W true)).
Proof. exact start_skipped_refuted_l. Qed.
Print Assumptions start_skipped_refuted.

(* America/Havana, 2013-11-03 12:00: local midnight happens twice; with fold 1 (a constructed value) start_of('day') is the SECOND
   midnight, and the microsecond before it is 00:59:59.999999 of the same day; with fold 0 it is the first midnight *)
Theorem start_repeated_refuted : exists z W u ws, wf2_zone z = true /\ wall_repeated z (sec (unit_lo u ws W)) /\
  exists W1, dt_start_of ws u (mkdtv z 2 W true) = Ok (W1, true) /\
  unit_id u ws (fst (render z (inst z W1 true - 1))) = unit_id u ws W /\
  dt_start_of ws u (mkdtv z 2 W false) = Ok (W1, false) /\
  unit_id u ws (fst (render z (inst z W1 false - 1))) <> unit_id u ws W.
Proof. exact start_repeated_refuted_l. Qed.
Print Assumptions start_repeated_refuted.

(* Pacific/Chatham, 1992-10-04 02:44:59.999999 (gap 02:45 -> 03:45): end_of('hour') lands in the previous hour (fold 0) or the next one (fold 1) *)
Theorem end_skipped_refuted : exists z W u ws, wf2_zone z = true /\ wall_skipped z (sec (unit_hi u ws W)) /\
  (exists W0 f0, dt_end_of (we_of ws) u (mkdtv z 2 W false) = Ok (W0, f0) /\ unit_id u ws W0 <> unit_id u ws W) /\
  (exists W1 f1, dt_end_of (we_of ws) u (mkdtv z 2 W true) = Ok (W1, f1) /\ unit_id u ws W1 <> unit_id u ws W).
Proof. exact end_skipped_refuted_l. Qed.
Print Assumptions end_skipped_refuted.

(* America/Sao_Paulo, 2014-02-15 12:00: 23:00..23:59:59 happen twice; with fold 0 (a converted value) end_of('day') is the FIRST
   23:59:59.999999 and the next microsecond is 23:00:00 of the same day; with fold 1 it is the second one *)
Theorem end_repeated_refuted : exists z W u ws, wf2_zone z = true /\ wall_repeated z (sec (unit_hi u ws W)) /\
  exists W1, dt_end_of (we_of ws) u (mkdtv z 2 W false) = Ok (W1, false) /\
  unit_id u ws (fst (render z (inst z W1 false + 1))) = unit_id u ws W /\
  dt_end_of (we_of ws) u (mkdtv z 2 W true) = Ok (W1, true) /\
  unit_id u ws (fst (render z (inst z W1 true + 1))) <> unit_id u ws W.
Proof. exact end_repeated_refuted_l. Qed.
Print Assumptions end_repeated_refuted.

(* Pacific/Apia: 2011-12-30 does not exist.  The backward walk of previous() from 2011-12-31 00:00 constructs 2011-12-30 00:00, which
   create() moves forward by the 24 h gap onto 2011-12-31 00:00 again: the loop never reaches another weekday, whatever the fuel;
   start_of('week') of 2012-01-01 12:00 (week starting on Monday) has no result *)
Theorem week_walk_terminates_refuted : exists z v, wf2_zone z = true /\ v_zone v = z /\
  (forall wd fuel, 0 <= wd <= 6 -> wd <> 5 -> dt_walk fuel (-1) wd v = Raise E_OutOfFuel) /\
  dt_start_of 0 4 (mkdtv z 2 63461016000000000 true) = Raise E_OutOfFuel.
Proof. exact week_walk_terminates_refuted_l. Qed.
Print Assumptions week_walk_terminates_refuted.

(* the initial process-wide configuration of pendulum/__init__.py (generated) is one of the 7 consistent ones *)
Theorem default_week_configuration_consistent : week_day C12_WEEK_STARTS_AT_DEFAULT /\ C12_WEEK_ENDS_AT_DEFAULT = we_of C12_WEEK_STARTS_AT_DEFAULT.
Proof. exact default_week_configuration_consistent_l. Qed.
Print Assumptions default_week_configuration_consistent.

(* ------------------------------------------------------------ the hand model IS the code (machine translation, Gen/StartEndGlue.v) *)
(* DateTime._start_of_<unit> / _end_of_<unit> (second .. century, week), subtract, next / previous are TRANSLATED from /repo's
   src/pendulum/datetime.py on every run (tools/vlib/gens/g81_start_end_glue.py) ON TOP OF the translated timezone glue Gen/TzGlue.v
   (set / at / add / create are called, not re-modelled).  obj_of v tzo is the object of the model value v when tz_matches v tzo (tzinfo
   None for a naive value, else a timezone object with the value's table and class); res_of maps a model result to the object. *)
From PV Require Import Model.TzGlueObj Gen.TzGlue Proofs.TzGlueFacts Model.StartEndGlueObj Gen.StartEndGlue Proofs.StartEndGlueFacts.

(* DateTime.create(fields, tz=self.tz, fold=self.fold), valid fields or not, = the model primitive dt_set *)
Theorem model_is_code_dt_set : forall v tzo y m d h mi s us, tz_matches v tzo ->
  glue_DateTime_create y m d h mi s us tzo (Z.b2z (v_fold v)) false = res_of tzo (dt_set v y m d h mi s us).
Proof. exact glue_create_dt_set. Qed.
Print Assumptions model_is_code_dt_set.

(* second, minute, hour: self.set(<the smaller fields>) with the keyword defaults of the translated set *)
Theorem model_is_code_start_of_second_minute_hour : forall v tzo, tz_matches v tzo ->
  sglue_start_of_second (obj_of v tzo) = res_of tzo (set_from v 0 true) /\ sglue_end_of_second (obj_of v tzo) = res_of tzo (set_from v 0 false) /\
  sglue_start_of_minute (obj_of v tzo) = res_of tzo (set_from v 1 true) /\ sglue_end_of_minute (obj_of v tzo) = res_of tzo (set_from v 1 false) /\
  sglue_start_of_hour (obj_of v tzo) = res_of tzo (set_from v 2 true) /\ sglue_end_of_hour (obj_of v tzo) = res_of tzo (set_from v 2 false).
Proof.
  exact (fun v tzo TM => conj (sglue_start_of_second_eq v tzo TM) (conj (sglue_end_of_second_eq v tzo TM) (conj (sglue_start_of_minute_eq v tzo TM)
        (conj (sglue_end_of_minute_eq v tzo TM) (conj (sglue_start_of_hour_eq v tzo TM) (sglue_end_of_hour_eq v tzo TM)))))).
Qed.
Print Assumptions model_is_code_start_of_second_minute_hour.

(* day: self.at(0, 0, 0, 0) / self.at(23, 59, 59, 999999) through the translated at *)
Theorem model_is_code_start_of_day : forall v tzo, tz_matches v tzo ->
  sglue_start_of_day (obj_of v tzo) = res_of tzo (dt_start_of_day v) /\ sglue_end_of_day (obj_of v tzo) = res_of tzo (dt_end_of_day v).
Proof. exact (fun v tzo TM => conj (sglue_start_of_day_eq v tzo TM) (sglue_end_of_day_eq v tzo TM)). Qed.
Print Assumptions model_is_code_start_of_day.

(* month, year, decade, century: self.set(year, month, day, h, m, s, us) with the year arithmetic *)
Theorem model_is_code_start_of_month_year_decade_century : forall v tzo, tz_matches v tzo ->
  sglue_start_of_month (obj_of v tzo) = res_of tzo (py_dt_start_of_month v) /\ sglue_end_of_month (obj_of v tzo) = res_of tzo (py_dt_end_of_month v) /\
  sglue_start_of_year (obj_of v tzo) = res_of tzo (py_dt_start_of_year v) /\ sglue_end_of_year (obj_of v tzo) = res_of tzo (py_dt_end_of_year v) /\
  sglue_start_of_decade (obj_of v tzo) = res_of tzo (py_dt_start_of_decade v) /\ sglue_end_of_decade (obj_of v tzo) = res_of tzo (py_dt_end_of_decade v) /\
  sglue_start_of_century (obj_of v tzo) = res_of tzo (py_dt_start_of_century v) /\ sglue_end_of_century (obj_of v tzo) = res_of tzo (py_dt_end_of_century v).
Proof.
  exact (fun v tzo TM => conj (sglue_start_of_month_eq v tzo TM) (conj (sglue_end_of_month_eq v tzo TM) (conj (sglue_start_of_year_eq v tzo TM)
        (conj (sglue_end_of_year_eq v tzo TM) (conj (sglue_start_of_decade_eq v tzo TM) (conj (sglue_end_of_decade_eq v tzo TM)
        (conj (sglue_start_of_century_eq v tzo TM) (sglue_end_of_century_eq v tzo TM)))))))).
Qed.
Print Assumptions model_is_code_start_of_month_year_decade_century.

(* add(days=±1) / subtract(days=1) = step_day; next / previous (a given weekday, keep_time=False): the statements before the loop, the loop
   test and the loop step are translated, the `while` skeleton is a template with the model's fuel: = dt_previous / dt_next *)
Theorem model_is_code_previous_next : forall v tzo wd, tz_matches v tzo -> wall_in_range (v_W v) = true -> 0 <= wd <= 6 ->
  sglue_previous (obj_of v tzo) wd = vres_of v tzo (dt_previous v wd) /\ sglue_next (obj_of v tzo) wd = vres_of v tzo (dt_next v wd).
Proof. intros; split; [apply sglue_previous_eq|apply sglue_next_eq]; assumption. Qed.
Print Assumptions model_is_code_previous_next.

(* week: pendulum._WEEK_STARTS_AT / _WEEK_ENDS_AT are parameters; every configuration *)
Theorem model_is_code_start_of_week : forall v tzo w, tz_matches v tzo -> wall_in_range (v_W v) = true -> 0 <= w <= 6 ->
  sglue_start_of_week (obj_of v tzo) w = res_of tzo (dt_start_of_week w v) /\ sglue_end_of_week (obj_of v tzo) w = res_of tzo (dt_end_of_week w v).
Proof. intros; split; [apply sglue_start_of_week_eq|apply sglue_end_of_week_eq]; assumption. Qed.
Print Assumptions model_is_code_start_of_week.

(* the whole family through the getattr dispatch of start_of / end_of (the dispatch itself is a recognised shape, checked by the generator) *)
Theorem model_is_code_start_of : forall v tzo w u, tz_matches v tzo -> wall_in_range (v_W v) = true -> 0 <= w <= 6 ->
  sglue_start_of w u (obj_of v tzo) = res_of tzo (dt_start_of w u v) /\ sglue_end_of w u (obj_of v tzo) = res_of tzo (dt_end_of w u v).
Proof. intros; split; [apply sglue_start_of_eq|apply sglue_end_of_eq]; assumption. Qed.
Print Assumptions model_is_code_start_of.

(* ---- the model IS the code, Date part: Gen/DateGlue.v is TRANSLATED from src/pendulum/date.py on every run (tools/vlib/gens/g82_weekday_glue.py)
   on the object model gdate of Model/TzGlueObj.v (Date.set -> Date.replace -> date(y, m, d); next / previous on the translated Date.add / subtract
   of Gen/TzGlue.v; _start_of_<unit> / _end_of_<unit>); gdo n = the object of the date with ordinal n, gres_o the same on results.
   Hand-written: the getattr dispatch wglue_Date_start_of / wglue_Date_end_of (Proofs/DateGlueC12.v), Date.day_of_week, Date.days_in_month
   (Model/DateGlueObj.v); the `while` of next / previous is a template around the translated test and step. ---- *)
From PV Require Import Model.DateGlueObj Gen.DateGlue Proofs.DateGlueFacts Proofs.DateGlueC12.

Theorem model_is_code_date_set : forall n y m d,
  wglue_Date_set (gdo n) (Some y) (Some m) (Some d) = gres_o (date_set (mkdv n) y m d) /\
  wglue_Date_replace (gdo n) (Some y) (Some m) (Some d) = gres_o (date_set (mkdv n) y m d).
Proof. intros; split; [apply wglue_Date_set_ord|apply wglue_Date_replace_ord]. Qed.
Print Assumptions model_is_code_date_set.

Theorem model_is_code_date_start_of_month_year_decade_century : forall n,
  wglue_Date_start_of_month (gdo n) = gres_o (py_date_start_of_month (mkdv n)) /\ wglue_Date_end_of_month (gdo n) = gres_o (py_date_end_of_month (mkdv n)) /\
  wglue_Date_start_of_year (gdo n) = gres_o (py_date_start_of_year (mkdv n)) /\ wglue_Date_end_of_year (gdo n) = gres_o (py_date_end_of_year (mkdv n)) /\
  wglue_Date_start_of_decade (gdo n) = gres_o (py_date_start_of_decade (mkdv n)) /\ wglue_Date_end_of_decade (gdo n) = gres_o (py_date_end_of_decade (mkdv n)) /\
  wglue_Date_start_of_century (gdo n) = gres_o (py_date_start_of_century (mkdv n)) /\
  wglue_Date_end_of_century (gdo n) = gres_o (py_date_end_of_century (mkdv n)).
Proof.
  intros; repeat split; [apply wglue_start_of_month_eq|apply wglue_end_of_month_eq|apply wglue_start_of_year_eq|apply wglue_end_of_year_eq
                        |apply wglue_start_of_decade_eq|apply wglue_end_of_decade_eq|apply wglue_start_of_century_eq|apply wglue_end_of_century_eq].
Qed.
Print Assumptions model_is_code_date_start_of_month_year_decade_century.

Theorem model_is_code_date_previous_next : forall n wd, ordinal_ok n -> 0 <= wd <= 6 ->
  wglue_Date_previous (gdo n) (Some wd) = gres_o (date_previous n wd) /\ wglue_Date_next (gdo n) (Some wd) = gres_o (date_next n wd).
Proof. intros; split; [apply wglue_Date_previous_ord|apply wglue_Date_next_ord]; assumption. Qed.
Print Assumptions model_is_code_date_previous_next.

Theorem model_is_code_date_start_of : forall n w u, ordinal_ok n -> 0 <= w <= 6 ->
  wglue_Date_start_of_week (gdo n) w = gres_o (date_start_of w 4 n) /\ wglue_Date_end_of_week (gdo n) w = gres_o (date_end_of w 4 n) /\
  wglue_Date_start_of w u (gdo n) = gres_o (date_start_of w u n) /\ wglue_Date_end_of w u (gdo n) = gres_o (date_end_of w u n).
Proof.
  intros; repeat split; [apply wglue_Date_start_of_week_eq|apply wglue_Date_end_of_week_eq|apply wglue_Date_start_of_eq|apply wglue_Date_end_of_eq];
    assumption.
Qed.
Print Assumptions model_is_code_date_start_of.
