(* Spec/NativeDT.v — the slice of CPython's naive datetime/date arithmetic that pendulum's helpers lean on
   (executable definitions only).  A naive value is its wall-clock microsecond count since 0001-01-01T00:00:00
   (Spec/Cal.v wall_of / fields_of_wall); a date is a value at midnight with n_isdt = false. *)
From Coq Require Import ZArith List Bool.
From PV Require Import Lib.PyBase Spec.Cal.
Open Scope Z_scope.

Record ndt := mkndt { n_wall : Z; n_isdt : bool }.

Definition ndt_ord (d : ndt) : Z := n_wall d / us_per_day + 1.
Definition ndt_tod (d : ndt) : Z := n_wall d mod us_per_day.
Definition ndt_year (d : ndt) : Z := fst (fst (ord2ymd (ndt_ord d))).
Definition ndt_month (d : ndt) : Z := snd (fst (ord2ymd (ndt_ord d))).
Definition ndt_day (d : ndt) : Z := snd (ord2ymd (ndt_ord d)).

(* datetime.replace(year=, month=, day=): ValueError when the date is impossible or the year out of range *)
Definition ndt_replace_ymd (d : ndt) (y m dd : Z) : result ndt :=
  if (1 <=? y) && (y <=? 9999) && valid_dateb y m dd
  then Ok (mkndt ((ymd2ord y m dd - 1) * us_per_day + ndt_tod d) (n_isdt d))
  else Raise E_ValueError.

(* naive + timedelta(days=, hours=, minutes=, seconds=, microseconds=) with integer arguments: exact, OverflowError outside years 1..9999.
   For a date only the day part of the normalised timedelta is used (date + timedelta ignores seconds and microseconds). *)
Definition td_total_us (days hours minutes seconds us : Z) : Z :=
  (((days * 24 + hours) * 60 + minutes) * 60 + seconds) * 1000000 + us.

Definition ndt_add_td (d : ndt) (days hours minutes seconds us : Z) : result ndt :=
  let total := td_total_us days hours minutes seconds us in
  (* timedelta itself is limited to |days| <= 999999999 *)
  if (total / us_per_day <? -999999999) || (999999999 <? total / us_per_day) then Raise E_OverflowError else
  let w := if n_isdt d then n_wall d + total else n_wall d + (total / us_per_day) * us_per_day in
  if wall_in_range w then Ok (mkndt w (n_isdt d)) else Raise E_OverflowError.

(* the sign helper of pendulum.helpers: int(copysign(1, x)) on an integer *)
Definition py_sign (x : Z) : Z := if x <? 0 then -1 else 1.
