(* Spec/TdFloat.v — CPython's `timedelta`, `total_seconds()` and the float operations pendulum applies to it.
   SHARED foundation (C09 C10 C05 C03 C13).  Executable definitions only; facts are in Proofs/TdFloatFacts.v.

   Floats are Coq's `SpecFloat.spec_float` (plain Gallina, no primitive floats, no axioms) at binary64
   (prec = 53, emax = 1024).  All values produced here are canonical (they come out of `binary_round_aux`), so
   `SFcompare` is the IEEE order on them.  Every definition below is compared bit for bit with CPython 3.12 by
   the `tdfloat-*` correspondence streams of tools/props/C09.py.

   API
     td_norm N                     (days, seconds, microseconds) of the timedelta holding N microseconds
     td_us d s u                   the inverse: microseconds of a normal form
     td_in_range N                 |days| <= 999999999 (else CPython raises OverflowError)
     td_of_int_args d s us ms mi h w   timedelta(days=d, seconds=s, ...) on INTEGER arguments: exact arithmetic + range check
     total_seconds N               timedelta.total_seconds(): N / 10**6 correctly rounded (int / int true division)
     td_of_float_seconds x         timedelta(seconds=x) for a float x: CPython's accum() + final round-half-even
     sf_of_Z n                     int -> float conversion (round-half-even; infinity stands for OverflowError)
     py_int_trunc x                int(x)        (Raise on inf / nan)
     py_round_half_even x          round(x)      (Raise on inf / nan)
     py_float_mod x y              x % y         (Raise ZeroDivisionError)
     py_float_divmod x y           divmod(x, y)  (Raise ZeroDivisionError)
     fadd fsub fmul fdiv fabs fopp flt feq        IEEE binary64 operations (SpecFloat)
     sf_code / sf_decode           integer encoding (tag, mantissa, exponent) used on the wire *)
From Coq Require Import ZArith List Bool.
From Coq Require Import Floats.SpecFloat.
From PV Require Import Lib.PyBase.
Import ListNotations.
Open Scope Z_scope.

Notation sf := spec_float.
Definition fprec : Z := 53.
Definition femax : Z := 1024.

Definition fadd : sf -> sf -> sf := SFadd fprec femax.
Definition fsub : sf -> sf -> sf := SFsub fprec femax.
Definition fmul : sf -> sf -> sf := SFmul fprec femax.
Definition fdiv : sf -> sf -> sf := SFdiv fprec femax.
Definition fabs : sf -> sf := SFabs.
Definition fopp : sf -> sf := SFopp.
Definition flt : sf -> sf -> bool := SFltb.
Definition feq : sf -> sf -> bool := SFeqb.

(* int -> float (PyLong_AsDouble / int.__float__): round to nearest even; S754_infinity stands for OverflowError *)
Definition sf_of_Z (n : Z) : sf := binary_normalize fprec femax n 0 false.

Definition sf_is_finite (x : sf) : bool :=
  match x with S754_zero _ | S754_finite _ _ _ => true | _ => false end.
Definition sf_is_zero (x : sf) : bool :=
  match x with S754_zero _ => true | _ => false end.
Definition sf_sign (x : sf) : bool :=         (* the sign bit; nan -> false *)
  match x with S754_zero s | S754_infinity s | S754_finite s _ _ => s | S754_nan => false end.

(* int -> float with Python's error behaviour *)
Definition py_float_of_int (n : Z) : result sf :=
  let x := sf_of_Z n in if sf_is_finite x then Ok x else Raise E_OverflowError.

Definition f_1e6 : sf := sf_of_Z 1000000.
Definition f_half : sf := S754_finite false 4503599627370496 (-53).   (* 0.5 = 2^52 * 2^-53 *)

(* ------------------------------------------------------------------ timedelta as an integer of microseconds *)
Definition US_PER_DAY : Z := 86400000000.
Definition US_PER_SEC : Z := 1000000.
Definition TD_MAX_DAYS : Z := 999999999.

Definition td_norm (N : Z) : Z * Z * Z := (N / US_PER_DAY, N mod US_PER_DAY / US_PER_SEC, N mod US_PER_SEC).
Definition td_us (d s u : Z) : Z := (d * 86400 + s) * US_PER_SEC + u.
Definition td_in_range (N : Z) : bool := (- TD_MAX_DAYS <=? N / US_PER_DAY) && (N / US_PER_DAY <=? TD_MAX_DAYS).

(* the exact microsecond count of integer constructor arguments (no range check) *)
Definition td_us_of_int_args (days seconds us ms minutes hours weeks : Z) : Z :=
  (((weeks * 7 + days) * 24 + hours) * 60 + minutes) * 60 * US_PER_SEC + seconds * US_PER_SEC + ms * 1000 + us.

Definition td_of_int_args (days seconds us ms minutes hours weeks : Z) : result Z :=
  let N := td_us_of_int_args days seconds us ms minutes hours weeks in
  if td_in_range N then Ok N else Raise E_OverflowError.

(* total_seconds(): CPython divides the two Python ints N and 10**6 with correct rounding (long_true_divide).
   SFdiv works on arbitrary positive mantissas, so the integer N is fed as mantissa with exponent 0: the
   result is the correctly rounded quotient also when |N| >= 2^53. *)
Definition sf_of_ratio (a : Z) (b : positive) : sf :=
  match a with
  | Z0 => S754_zero false
  | Zpos p => fdiv (S754_finite false p 0) (S754_finite false b 0)
  | Zneg p => fdiv (S754_finite true p 0) (S754_finite false b 0)
  end.
Definition total_seconds (N : Z) : sf := sf_of_ratio N 1000000%positive.

(* ------------------------------------------------------------------ float -> int *)
(* magnitude of a finite float truncated towards zero *)
Definition sf_trunc_mag (m : positive) (e : Z) : Z :=
  if 0 <=? e then Zpos m * 2 ^ e else Zpos m / 2 ^ (- e).

Definition cond_neg (s : bool) (z : Z) : Z := if s then - z else z.

Definition py_int_trunc (x : sf) : result Z :=
  match x with
  | S754_zero _ => Ok 0
  | S754_finite s m e => Ok (cond_neg s (sf_trunc_mag m e))
  | S754_infinity _ => Raise E_OverflowError
  | S754_nan => Raise E_ValueError
  end.

(* nearest integer of m * 2^e, ties to even *)
Definition sf_round_mag (m : positive) (e : Z) : Z :=
  if 0 <=? e then Zpos m * 2 ^ e
  else let d := 2 ^ (- e) in
       let q := Zpos m / d in
       let r := Zpos m mod d in
       if 2 * r <? d then q else if d <? 2 * r then q + 1 else if Z.even q then q else q + 1.

Definition py_round_half_even (x : sf) : result Z :=
  match x with
  | S754_zero _ => Ok 0
  | S754_finite s m e => Ok (cond_neg s (sf_round_mag m e))
  | S754_infinity _ => Raise E_OverflowError
  | S754_nan => Raise E_ValueError
  end.

(* C round(): nearest integer, ties away from zero (used inside accum) *)
Definition sf_round_away_mag (m : positive) (e : Z) : Z :=
  if 0 <=? e then Zpos m * 2 ^ e
  else let d := 2 ^ (- e) in
       let q := Zpos m / d in
       let r := Zpos m mod d in
       if 2 * r <? d then q else q + 1.

(* modf: (fractional part as a float with the sign of x, integral part as an integer); exact *)
Definition sf_frac (x : sf) : sf :=
  match x with
  | S754_finite s m e =>
      if 0 <=? e then S754_zero s
      else let r := Zpos m mod 2 ^ (- e) in
           match r with Z0 => S754_zero s | _ => binary_normalize fprec femax (cond_neg s r) e s end
  | _ => x
  end.
Definition sf_intpart (x : sf) : Z :=
  match x with S754_finite s m e => cond_neg s (sf_trunc_mag m e) | _ => 0 end.

(* ------------------------------------------------------------------ float % and divmod as Python defines them *)
(* C fmod for finite x and finite non-zero y: exact, sign of x *)
Definition sf_fmod (x y : sf) : sf :=
  match x, y with
  | S754_nan, _ | _, S754_nan => S754_nan
  | S754_infinity _, _ => S754_nan
  | _, S754_zero _ => S754_nan
  | _, S754_infinity _ => x
  | S754_zero _, _ => x
  | S754_finite sx mx ex, S754_finite _ my ey =>
      let e := Z.min ex ey in
      let X := Zpos mx * 2 ^ (ex - e) in
      let Y := Zpos my * 2 ^ (ey - e) in
      match X mod Y with
      | Z0 => S754_zero sx
      | r => binary_normalize fprec femax (cond_neg sx r) e sx
      end
  end.

Definition sf_copysign0 (y : sf) : sf := S754_zero (sf_sign y).

(* floor of a finite float, as a float (exact) *)
Definition sf_floor (x : sf) : sf :=
  match x with
  | S754_finite s m e =>
      if 0 <=? e then x
      else let d := 2 ^ (- e) in
           let q := Zpos m / d in
           let r := Zpos m mod d in
           let n := if s then (if r =? 0 then - q else - q - 1) else q in
           match n with Z0 => S754_zero s | _ => sf_of_Z n end
  | _ => x
  end.

(* Objects/floatobject.c float_rem *)
Definition py_float_mod (x y : sf) : result sf :=
  if sf_is_zero y then Raise E_ZeroDivisionError else
  let md := sf_fmod x y in
  match md with
  | S754_zero _ => Ok (sf_copysign0 y)
  | S754_finite sm _ _ => if Bool.eqb (sf_sign y) sm then Ok md else Ok (fadd md y)
  | _ => Ok md
  end.

(* Objects/floatobject.c float_divmod: (floordiv, mod) *)
Definition py_float_divmod (x y : sf) : result (sf * sf) :=
  if sf_is_zero y then Raise E_ZeroDivisionError else
  let md := sf_fmod x y in
  let dv := fdiv (fsub x md) y in
  let '(md', dv') :=
    match md with
    | S754_zero _ => (sf_copysign0 y, dv)
    | S754_finite sm _ _ => if Bool.eqb (sf_sign y) sm then (md, dv) else (fadd md y, fsub dv (sf_of_Z 1))
    | _ => (md, dv)
    end in
  let fl :=
    match dv' with
    | S754_zero _ => S754_zero (sf_sign (fdiv x y))
    | S754_finite _ _ _ =>
        let f := sf_floor dv' in
        if flt f_half (fsub dv' f) then fadd f (sf_of_Z 1) else f
    | _ => dv'
    end in
  Ok (fl, md').

(* ------------------------------------------------------------------ timedelta(seconds=<float>) *)
(* Modules/_datetimemodule.c accum() on a float `seconds` (all other arguments absent) followed by the rounding
   of the left-over in delta_new:   x = int(intpart)*10**6 ; prod = 1e6 * fracpart (double) ;
   x += int(intpart(prod)) ; leftover = frac(prod) ; whole = round(leftover) (half away) ; on an exact half the parity of x
   decides (round-half-even of the sum).  Then the day range check. *)
Definition td_us_of_float_seconds (x : sf) : result Z :=
  match x with
  | S754_nan => Raise E_ValueError
  | S754_infinity _ => Raise E_OverflowError
  | _ =>
    let sum := sf_intpart x * US_PER_SEC in
    let fr := sf_frac x in
    if sf_is_zero fr then Ok sum else
    let prod := fmul f_1e6 fr in
    let y := sum + sf_intpart prod in
    let left := sf_frac prod in
    match left with
    | S754_finite s m e =>
        let whole := cond_neg s (sf_round_away_mag m e) in
        if feq (fabs left) f_half then
          let odd := y mod 2 in
          (* 2.0 * round((leftover + x_is_odd) * 0.5) - x_is_odd, leftover = +-0.5 *)
          let w := if s then (if odd =? 1 then -1 else 0) else (if odd =? 1 then 1 else 0) in
          Ok (y + w)
        else Ok (y + whole)
    | _ => Ok y
    end
  end.

Definition td_of_float_seconds (x : sf) : result Z :=
  bind (td_us_of_float_seconds x) (fun N => if td_in_range N then Ok N else Raise E_OverflowError).

(* ------------------------------------------------------------------ wire encoding of a float as three integers *)
(* tag: 0 +0, 1 -0, 2 +finite, 3 -finite, 4 +inf, 5 -inf, 6 nan ; finite floats carry the canonical (mantissa, exponent) *)
Definition sf_code (x : sf) : list Z :=
  match x with
  | S754_zero false => [0; 0; 0] | S754_zero true => [1; 0; 0]
  | S754_finite false m e => [2; Zpos m; e] | S754_finite true m e => [3; Zpos m; e]
  | S754_infinity false => [4; 0; 0] | S754_infinity true => [5; 0; 0]
  | S754_nan => [6; 0; 0]
  end.

Definition sf_decode (tag m e : Z) : sf :=
  match tag, m with
  | 0, _ => S754_zero false | 1, _ => S754_zero true
  | 2, Zpos p => S754_finite false p e | 3, Zpos p => S754_finite true p e
  | 4, _ => S754_infinity false | 5, _ => S754_infinity true
  | _, _ => S754_nan
  end.
