(* Spec/Zone.v — a tz-database zone as CPython's zoneinfo presents it (executable definitions only).
   A zone is the utcoffset in force before the first transition and the list of
   (UTC second of the transition, utcoffset from then on), in increasing time order.
   A fixed offset is a zone without transitions.  Facts are in Proofs/ZoneFacts.v; the tie to zoneinfo and to
   the tzdata tables is the correspondence run (tools/vlib/zones.py feeds windows of the real tables). *)
From Coq Require Import ZArith List Bool.
Import ListNotations.
Open Scope Z_scope.

Record zone := mkzone { z_init : Z; z_trans : list (Z * Z) }.

(* utcoffset at UTC second u: zoneinfo.fromutc's bisect_right on the UTC transition list *)
Fixpoint off_utc_l (init : Z) (tr : list (Z * Z)) (u : Z) : Z :=
  match tr with
  | [] => init
  | (t, o) :: r => if u <? t then init else off_utc_l o r u
  end.

(* the fold flag fromutc() sets: inside the repeated interval after a backward transition *)
Fixpoint fold_utc_l (init : Z) (tr : list (Z * Z)) (u : Z) (acc : bool) : bool :=
  match tr with
  | [] => acc
  | (t, o) :: r => if u <? t then acc else fold_utc_l o r u (u - t <? init - o)
  end.

(* wall-clock threshold of a transition for fold 0 / fold 1 (zoneinfo._ts_to_local) *)
Definition wallb (f : bool) (a b : Z) : Z := if f then Z.min a b else Z.max a b.

(* utcoffset() of the naive wall second w with fold f *)
Fixpoint off_local_l (init : Z) (tr : list (Z * Z)) (w : Z) (f : bool) : Z :=
  match tr with
  | [] => init
  | (t, o) :: r => if w <? t + wallb f init o then init else off_local_l o r w f
  end.

(* well-formedness: the gap/overlap wall regions of consecutive transitions are disjoint and ordered *)
Fixpoint wf_l (init : Z) (tr : list (Z * Z)) : bool :=
  match tr with
  | [] => true
  | (t, o) :: r =>
    match r with
    | [] => true
    | (t2, o2) :: _ => (t + Z.max init o <? t2 + Z.min o o2)
    end && wf_l o r
  end.

(* stronger: after a gap the next transition is at least one gap length of wall time away, and before it too
   (so that a skipped wall time moved by the gap length lands on an unambiguous wall time) *)
Fixpoint wf2_l (prev_hi : option Z) (init : Z) (tr : list (Z * Z)) : bool :=
  match tr with
  | [] => true
  | (t, o) :: r =>
    let g := Z.abs (o - init) in
    match prev_hi with None => true | Some h => h <=? t + Z.min init o - g end
    && match r with [] => true | (t2, o2) :: _ => (t + Z.max init o + g <=? t2 + Z.min o o2) end
    && wf2_l (Some (t + Z.max init o)) o r
  end.

Definition off_utc (z : zone) (u : Z) : Z := off_utc_l (z_init z) (z_trans z) u.
Definition fold_utc (z : zone) (u : Z) : bool := fold_utc_l (z_init z) (z_trans z) u false.
Definition off_local (z : zone) (w : Z) (f : bool) : Z := off_local_l (z_init z) (z_trans z) w f.
Definition wf_zone (z : zone) : bool := wf_l (z_init z) (z_trans z).
Definition wf2_zone (z : zone) : bool := wf_l (z_init z) (z_trans z) && wf2_l None (z_init z) (z_trans z).

Definition fixed_zone (o : Z) : zone := mkzone o [].

(* microsecond level: a wall value W and an instant U are microsecond counts; lookups ignore microseconds *)
Definition MEG : Z := 1000000.
Definition render (z : zone) (U : Z) : Z * bool :=
  (U + MEG * off_utc z (U / MEG), fold_utc z (U / MEG)).
Definition inst (z : zone) (W : Z) (f : bool) : Z := W - MEG * off_local z (W / MEG) f.
