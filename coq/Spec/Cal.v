(* Spec/Cal.v — the proleptic Gregorian calendar as CPython's datetime module computes it.
   Executable definitions only (no proofs here); facts are in Proofs/CalFacts.v.
   This file is the "standard library" side of the calendar properties; it is tied to
   CPython's datetime/calendar by the correspondence check (tools/props/cal_spec.py). *)
From Coq Require Import ZArith List Bool.
Import ListNotations.
Open Scope Z_scope.

Definition is_leap (y : Z) : bool :=
  (y mod 4 =? 0) && (negb (y mod 100 =? 0) || (y mod 400 =? 0)).

(* month length / days before month as functions of the leap flag only *)
Definition dim_l (l : bool) (m : Z) : Z :=
  if m =? 2 then (if l then 29 else 28)
  else if (m =? 4) || (m =? 6) || (m =? 9) || (m =? 11) then 30
  else 31.
Definition dim (y m : Z) : Z := dim_l (is_leap y) m.

(* days before the first of month m in a non-leap year (CPython _DAYS_BEFORE_MONTH) *)
Definition dbm_common (m : Z) : Z :=
  if m <=? 1 then 0 else if m =? 2 then 31 else if m =? 3 then 59 else if m =? 4 then 90
  else if m =? 5 then 120 else if m =? 6 then 151 else if m =? 7 then 181
  else if m =? 8 then 212 else if m =? 9 then 243 else if m =? 10 then 273
  else if m =? 11 then 304 else 334.

Definition dbm_l (l : bool) (m : Z) : Z :=
  dbm_common m + (if (2 <? m) && l then 1 else 0).
Definition days_before_month (y m : Z) : Z := dbm_l (is_leap y) m.

Definition days_before_year (y : Z) : Z :=
  let y1 := y - 1 in y1 * 365 + y1 / 4 - y1 / 100 + y1 / 400.

Definition days_in_year (y : Z) : Z := if is_leap y then 366 else 365.

Definition ymd2ord (y m d : Z) : Z := days_before_year y + days_before_month y m + d.

Definition valid_dateb (y m d : Z) : bool :=
  (1 <=? m) && (m <=? 12) && (1 <=? d) && (d <=? dim y m).

(* month/day of the k-th day (1-based) of a year with leap flag l *)
Fixpoint md_of_yday_aux (fuel : nat) (l : bool) (m k : Z) : Z * Z :=
  match fuel with
  | O => (m, k)
  | S f => if k <=? dim_l l m then (m, k) else md_of_yday_aux f l (m + 1) (k - dim_l l m)
  end.
Definition md_of_yday_l (l : bool) (k : Z) : Z * Z := md_of_yday_aux 11 l 1 k.
Definition md_of_yday (y k : Z) : Z * Z := md_of_yday_l (is_leap y) k.

(* CPython _ord2ymd, n >= 1 *)
Definition ord2ymd_cycle (r : Z) : Z * Z * Z :=
  (* r = (n-1) mod 146097, result year is 1-based inside the 400-year cycle *)
  let n100 := r / 36524 in
  let r1 := r mod 36524 in
  let n4 := r1 / 1461 in
  let r2 := r1 mod 1461 in
  let n1 := r2 / 365 in
  let r3 := r2 mod 365 in
  let y := n100 * 100 + n4 * 4 + n1 + 1 in
  if (n1 =? 4) || (n100 =? 4) then (y - 1, 12, 31)
  else let '(m, d) := md_of_yday y (r3 + 1) in (y, m, d).

Definition ord2ymd (n : Z) : Z * Z * Z :=
  let n0 := n - 1 in
  let '(y, m, d) := ord2ymd_cycle (n0 mod 146097) in
  (400 * (n0 / 146097) + y, m, d).

(* ISO weekday of an ordinal: Monday = 1 .. Sunday = 7 (date.isoweekday) *)
Definition iso_weekday (n : Z) : Z := (n + 6) mod 7 + 1.
(* date.weekday(): Monday = 0 *)
Definition weekday0 (n : Z) : Z := (n + 6) mod 7.

(* CPython _isoweek1monday *)
Definition iso_week1_monday (y : Z) : Z :=
  let firstday := ymd2ord y 1 1 in
  let firstweekday := (firstday + 6) mod 7 in
  let week1monday := firstday - firstweekday in
  if 3 <? firstweekday then week1monday + 7 else week1monday.

(* date.isocalendar(): (iso year, iso week, iso weekday) *)
Definition isocalendar (y m d : Z) : Z * Z * Z :=
  let today := ymd2ord y m d in
  let w1 := iso_week1_monday y in
  let week := (today - w1) / 7 in
  let day := (today - w1) mod 7 in
  if week <? 0 then
    let y' := y - 1 in
    let w1' := iso_week1_monday y' in
    (y', (today - w1') / 7 + 1, (today - w1') mod 7 + 1)
  else if (52 <=? week) && (iso_week1_monday (y + 1) <=? today) then (y + 1, 1, day + 1)
  else (y, week + 1, day + 1).

Definition iso_weeks_in_year (y : Z) : Z :=
  (iso_week1_monday (y + 1) - iso_week1_monday y) / 7.

(* date.fromisocalendar(y, w, wd) as an ordinal, for 1 <= w <= iso_weeks_in_year y, 1 <= wd <= 7 *)
Definition fromisocalendar_ord (y w wd : Z) : Z := iso_week1_monday y + (w - 1) * 7 + (wd - 1).

(* wall-clock microseconds since 0001-01-01T00:00:00 *)
Definition us_per_day : Z := 86400000000.
Definition wall_of (y m d hh mm ss us : Z) : Z :=
  (ymd2ord y m d - 1) * us_per_day + ((hh * 60 + mm) * 60 + ss) * 1000000 + us.

Definition fields_of_wall (w : Z) : Z * Z * Z * Z * Z * Z * Z :=
  let n := w / us_per_day + 1 in
  let t := w mod us_per_day in
  let '(y, m, d) := ord2ymd n in
  let s := t / 1000000 in
  (y, m, d, s / 3600, (s / 60) mod 60, s mod 60, t mod 1000000).

Definition min_wall : Z := 0.
Definition max_wall : Z := 3652059 * us_per_day - 1.  (* 9999-12-31T23:59:59.999999 *)
Definition wall_in_range (w : Z) : bool := (0 <=? w) && (w <=? max_wall).
