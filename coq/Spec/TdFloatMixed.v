(* Spec/TdFloatMixed.v — additions to Spec/TdFloat.v (kept in a file of their own so that nothing that depends on TdFloat.v is rebuilt):
   * timedelta(days=<int>, seconds=<float>) — CPython's delta_new / accum() with an integer `days` and a float `seconds`, all other
     arguments absent or integer zero — the constructor behind Duration(seconds=<float>, years=, months=);
   * Python's integer // % divmod with the ZeroDivisionError made explicit.
   Executable definitions only; facts in Proofs/DurationOpsFloatFacts.v (td_us_of_days_fsec_shift: the integer days add exactly).
   Validated bit for bit against CPython by the prim-duration_of_float_seconds stream of tools/props/C10.py (Duration(seconds=x, years=, months=)
   through Model/DurationOps.duration_new_fsec, which is proved equal to the translation that uses td_of_days_fsec). *)
From Coq Require Import ZArith List Bool.
From Coq Require Import Floats.SpecFloat.
From PV Require Import Lib.PyBase Spec.TdFloat.
Import ListNotations.
Open Scope Z_scope.

(* Modules/_datetimemodule.c delta_new: x = 0; accum(seconds: float) ; accum(days: int) ; then the left-over of the float is rounded
   half-even INTO x: on an exact half the parity that decides is that of x AFTER all accum() calls, i.e. including the days.
   (td_us_of_float_seconds of Spec/TdFloat.v is the case days = 0.) *)
Definition td_us_of_days_fsec (days : Z) (x : sf) : result Z :=
  match x with
  | S754_nan => Raise E_ValueError
  | S754_infinity _ => Raise E_OverflowError
  | _ =>
    let sum := sf_intpart x * US_PER_SEC in
    let fr := sf_frac x in
    if sf_is_zero fr then Ok (sum + days * US_PER_DAY) else
    let prod := fmul f_1e6 fr in
    let y := sum + sf_intpart prod + days * US_PER_DAY in
    let left := sf_frac prod in
    match left with
    | S754_finite s m e =>
        let whole := cond_neg s (sf_round_away_mag m e) in
        if feq (fabs left) f_half then
          let odd := y mod 2 in
          let w := if s then (if odd =? 1 then -1 else 0) else (if odd =? 1 then 1 else 0) in
          Ok (y + w)
        else Ok (y + whole)
    | _ => Ok y
    end
  end.

(* ... followed by the range check of new_delta_ex (|days| <= 999999999, else OverflowError) *)
Definition td_of_days_fsec (days : Z) (x : sf) : result Z :=
  bind (td_us_of_days_fsec days x) (fun N => if td_in_range N then Ok N else Raise E_OverflowError).

(* int // int, int % int, divmod(int, int): floor semantics (Z.div / Z.modulo), ZeroDivisionError on a zero divisor *)
Definition py_int_floordiv (a b : Z) : result Z := if b =? 0 then Raise E_ZeroDivisionError else Ok (a / b).
Definition py_int_mod (a b : Z) : result Z := if b =? 0 then Raise E_ZeroDivisionError else Ok (a mod b).
Definition py_int_divmod (a b : Z) : result (Z * Z) := if b =? 0 then Raise E_ZeroDivisionError else Ok (a / b, a mod b).
