(* C14: Intervals whose endpoints are == (not greater one way) yet distinguishable - the same instant in two zones, two tzinfo classes, two folds:
   copy.deepcopy returns the Interval itself, and that Interval holds BOTH endpoints as given (neither is replaced by the other). *)
From Coq Require Import ZArith List Bool String.
From PV Require Import Lib.PyBase Spec.Cal Spec.Zone Spec.TdFloat Model.Duration Model.Pickle Proofs.C14Facts.

Lemma interval_new_not_gt_endpoints : forall zdb s e a iv,
  interval_new zdb s e a = Ok iv -> ep_gt zdb s e = Ok false -> iv_start iv = s /\ iv_end iv = e /\ iv_invert iv = false /\ iv_abs iv = a.
Proof.
  intros zdb s e a iv H G. unfold interval_new in H. rewrite G in H.
  match type of H with (if ?c then _ else _) = _ => destruct c; [discriminate|] end.
  cbn [bind] in H. rewrite andb_false_r in H.
  destruct (td_of_float_seconds (total_seconds (ep_elapsed zdb s e))); cbn [bind] in H; [|discriminate].
  injection H as <-. cbn. auto.
Qed.

Lemma iv_deep_keeps_equal_endpoints : forall zdb s e a iv,
  interval_new zdb s e a = Ok iv -> ep_valid s -> ep_valid e -> ep_gt zdb s e = Ok false ->
  exists iv', iv_rebuild zdb RDeep iv = Ok iv' /\ iv_start iv' = s /\ iv_end iv' = e /\ iv_abs iv' = a /\ iv_invert iv' = false /\ iv_N iv' = iv_N iv.
Proof.
  intros zdb s e a iv H Vs Ve G. exists iv.
  destruct (interval_new_not_gt_endpoints zdb s e a iv H G) as (A & B & C & D).
  repeat split; auto. exact (iv_deep_id zdb s e a iv H Vs Ve).
Qed.

(* the hypotheses are satisfiable with DIFFERENT endpoints: 2013-10-27T04:00 Europe/Paris carried by a pendulum Timezone and by zoneinfo.ZoneInfo *)
Lemma iv_deep_equal_endpoints_example :
  iv_wit_end <> iv_wit_end_foreign /\ ep_gt zdb_paris iv_wit_end iv_wit_end_foreign = Ok false /\ ep_gt zdb_paris iv_wit_end_foreign iv_wit_end = Ok false /\
  exists iv, interval_new zdb_paris iv_wit_end iv_wit_end_foreign false = Ok iv /\ iv_N iv = 0%Z /\ iv_rebuild zdb_paris RDeep iv = Ok iv
    /\ iv_start iv = iv_wit_end /\ iv_end iv = iv_wit_end_foreign.
Proof.
  split; [intro H; vm_compute in H; discriminate|].
  split; [vm_compute; reflexivity|]. split; [vm_compute; reflexivity|].
  eexists. split; [vm_compute; reflexivity|]. repeat split; vm_compute; reflexivity.
Qed.
