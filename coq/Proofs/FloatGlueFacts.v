(* Proofs/FloatGlueFacts.v — C01 / C03: the FLOAT entry points of DateTime (Gen/FloatGlueGen.v, translated from /repo on every run) equal the hand
   model Model/FloatRoutes.v:  from_timestamp(<float>, tz) = from_timestamp_float ;  float_timestamp = timestamp_float ;
   dt + / - <plain timedelta> = add_timedelta / sub_timedelta (DateTime.add(seconds=<float>) is the named primitive g_add_seconds_float =
   add_seconds_float, whose core add_duration_float is proved equal to the translated helpers.add_duration: FloatRoutesGenFacts).  No axioms. *)
From Coq Require Import ZArith List Bool Lia.
From Coq Require Import Floats.SpecFloat.
From PV Require Import Lib.PyBase Spec.Cal Spec.Zone Spec.NativeDT Spec.TdFloat Model.TzConvert Model.FloatRoutes Model.TzGlueObj Gen.TzGlue Model.FloatGlue
                       Gen.FloatGlueGen Proofs.TzGlueFacts.
Open Scope Z_scope.

Lemma bind_ok_g {A} (r : result A) : bind r (fun x => Ok x) = r.
Proof. destruct r; reflexivity. Qed.

Lemma foldb_of : forall W f tz, g_foldb (dt_of W f tz) = f.
Proof. intros W [|] tz; reflexivity. Qed.

Lemma g_res_res_of : forall tz r, g_res tz r = res_of tz r.
Proof. intros tz [[W f]|e]; reflexivity. Qed.

(* pendulum.from_timestamp(t, tz) for a double t and a timezone object tz *)
Theorem gen_from_timestamp_float_eq : forall tz t, gtz_ok tz -> same_obj g_UTC tz ->
  gen_from_timestamp_float t tz = res_of (Some tz) (from_timestamp_float (gz_zone tz) (gtz_is g_UTC tz) t).
Proof.
  intros tz t Ot S. unfold gen_from_timestamp_float, from_timestamp_float, nat_utcfromtimestamp_float.
  destruct (utcfromtimestamp_float_us t) as [n|e]; [|reflexivity]. cbn [bind]. cbv zeta.
  change TzConvert.EPOCH_US with EPOCH_US_g. set (U := EPOCH_US_g + n).
  destruct (wall_in_range U) eqn:R; cbn [negb bind]; [|reflexivity]. cbv beta iota zeta.
  unfold glue_pendulum_datetime. change 1 with (Z.b2z true) at 1.
  rewrite (create_from_own_fields (Some g_UTC) U true false R). cbn [g_build].
  change (create (gz_zone g_UTC) (gz_fixed g_UTC) U true false) with (Ok (U, true) : result (Z * bool)). cbn [res_of bind]. cbv beta iota zeta.
  rewrite (glue_in_timezone_aware g_UTC tz U true gtz_ok_UTC Ot S). rewrite bind_ok_g. reflexivity.
Qed.

(* DateTime.float_timestamp (= self.timestamp(), CPython's) of an aware value *)
Theorem gen_float_timestamp_eq : forall t W f, gen_float_timestamp (dt_of W f (Some t)) = Ok (timestamp_float (gz_zone t) W f).
Proof. intros t W f. unfold gen_float_timestamp, nat_timestamp. cbn [g_tz dt_of bind]. fold (dt_of W f (Some t)). rewrite foldb_of. reflexivity. Qed.

(* dt + <plain timedelta> / dt - <plain timedelta> *)
Theorem gen_add_timedelta_plain_eq : forall t W f N,
  gen_add_timedelta_plain (dt_of W f (Some t)) N = res_of (Some t) (add_timedelta (gz_zone t) W f N).
Proof.
  intros. unfold gen_add_timedelta_plain, g_add_seconds_float, add_timedelta. cbn [g_tz dt_of g_wall]. fold (dt_of W f (Some t)).
  rewrite foldb_of, bind_ok_g. apply g_res_res_of.
Qed.

Theorem gen_subtract_timedelta_plain_eq : forall t W f N,
  gen_subtract_timedelta_plain (dt_of W f (Some t)) N = res_of (Some t) (sub_timedelta (gz_zone t) W f N).
Proof.
  intros. unfold gen_subtract_timedelta_plain, gen_subtract_seconds_float, g_add_seconds_float, sub_timedelta. cbn [g_tz dt_of g_wall].
  fold (dt_of W f (Some t)). rewrite foldb_of, !bind_ok_g. apply g_res_res_of.
Qed.

Theorem gen_add_timedelta_plain_naive_eq : forall W f N,
  gen_add_timedelta_plain (dt_of W f None) N = res_of None (add_timedelta_naive W f N) /\
  gen_subtract_timedelta_plain (dt_of W f None) N = res_of None (sub_timedelta_naive W f N).
Proof.
  intros. unfold gen_add_timedelta_plain, gen_subtract_timedelta_plain, gen_subtract_seconds_float, g_add_seconds_float,
    add_timedelta_naive, sub_timedelta_naive. cbn [g_tz dt_of g_wall]. fold (dt_of W f None).
  rewrite foldb_of, !bind_ok_g. split; apply g_res_res_of.
Qed.

Print Assumptions gen_from_timestamp_float_eq.
Print Assumptions gen_float_timestamp_eq.
Print Assumptions gen_add_timedelta_plain_eq.
Print Assumptions gen_subtract_timedelta_plain_eq.
