(* Proofs/C06Fold.v (C06) — the former witness of finding interval-init-drops-fold (listed for C18, repaired): an Interval from
   2012-10-28T01:19:59Z to the SECOND 02:20:00 of that day in Europe/Paris (+01:00, one second later).  Interval.__init__ hands
   precise_diff natives that carry the fold of the endpoints, i.e. the operands with their own offsets: one second, both backends,
   both directions.  (Rebuilt without fold= the end was read as 02:20:00+02:00 and the Interval reported minutes = -59.) *)
From Coq Require Import ZArith List Bool.
From PV Require Import Lib.PyBase Spec.Cal Gen.Helpers Model.RustHelpers Model.PdBase Gen.PreciseDiff Model.RustPreciseDiff Model.PdInterval.
From PV Require Import Proofs.C06Thms.
Import ListNotations.
Open Scope Z_scope.

Definition paris_second_0220 : pdt := mkpdt 2012 10 28 2 20 0 0 3600 true 2 2 true.

Example former_second_occurrence_witness :
  let a := utc_named_dt 2012 10 28 1 19 59 0 in let b := paris_second_0220 in
  p_instant b - p_instant a = 1000000 /\
  py_precise_diff a b = Ok (mkPD 0 0 0 0 0 1 0 0) /\ rs_precise_diff a b = mkPD 0 0 0 0 0 1 0 0 /\
  py_precise_diff b a = Ok (mkPD 0 0 0 0 0 (-1) 0 0) /\ rs_precise_diff b a = mkPD 0 0 0 0 0 (-1) 0 0 /\
  iv_components (mkPD 0 0 0 0 0 1 0 0) (iv_elapsed a b) = mkivc 0 0 0 0 0 0 1 0 0 0.
Proof. vm_compute. repeat split; reflexivity. Qed.
