(* Proofs/C17Trail.v — C17, the class "a valid form followed (or preceded) by free text": witnesses by computation on a GRID.
   heads: one text per family of accepted forms; tails: an ASCII pad of k = 0..16 characters (letters only, or a blank first), then ONE character of
   UTF-8 width 1 / 2 / 3 / 4 bytes (x, U+00E9, U+2019, U+1F600), then " fin" or nothing:
   the character therefore occupies EVERY byte offset 0..16 of the remainder.  strict=True (the default): every such text is refused with
   ParserError by BOTH backends, whatever dateutil does (it is never consulted).  The model reads code points; that the compiled parser's handling of
   the REMAINDER BYTES (error messages, slicing) cannot raise anything else is not expressible here and is checked by the run (stream
   valid-prefix-trailing-text of tools/props/C17.py: same grid on every seeded form, both backends, every option set). *)
From Coq Require Import ZArith List Bool.
From PV Require Import Lib.PyBase Model.IsoParse Model.DurParse Model.ParseTotal Proofs.C17Facts.
Import ListNotations.
Open Scope Z_scope.

Definition trail_heads : list (list Z) :=
  [[50;48;50;52;45;48;53;45;49;55;84;48;57;58;51;48;58;48;48] (* 2024-05-17T09:30:00 *);
   [50;48;50;52;45;48;53;45;49;55;84;48;57;58;51;48;58;48;48;90] (* 2024-05-17T09:30:00Z *);
   [50;48;50;52;45;48;53;45;49;55;32;48;57;58;51;48;58;48;48;43;48;50;58;48;48] (* 2024-05-17 09:30:00+02:00 *);
   [50;48;50;52;48;53;49;55;84;48;57;51;48;48;48;90] (* 20240517T093000Z *);
   [50;48;50;52;45;87;50;48;45;53;84;48;57;58;51;48;58;48;48;46;50;53;48] (* 2024-W20-5T09:30:00.250 *);
   [84;48;57;58;51;48;58;48;48] (* T09:30:00 *);
   [48;57;58;51;48;58;48;48] (* 09:30:00 *);
   [50;48;50;52;45;48;53;45;49;55] (* 2024-05-17 *);
   [80;49;68;84;50;72] (* P1DT2H *);
   [50;48;50;52;45;48;53;45;49;55;84;48;57;58;51;48;58;48;48;47;80;49;68] (* 2024-05-17T09:30:00/P1D *)].

(* x, e-acute, RIGHT SINGLE QUOTATION MARK, GRINNING FACE.  (Unicode Nd digits of 2 / 3 / 4 bytes are part of the run's grid but not of this one: the
   pure-Python \d accepts them, see trail_nd_digit_refuted below and the findings strict-lenient-python-regex / strict-lenient-common-format.) *)
Definition trail_chars : list Z := [120; 233; 8217; 128512].
Definition trail_fin : list Z := [32; 102; 105; 110].
Definition pad_x (k : nat) : list Z := repeat 120 k.
Definition pad_blank (k : nat) : list Z := firstn k (32 :: map (fun i => 97 + Z.of_nat i) (seq 0 26)).

Definition trail_tails : list (list Z) :=
  flat_map (fun k => flat_map (fun c => [pad_x k ++ [c]; pad_x k ++ c :: trail_fin; pad_blank k ++ [c]; pad_blank k ++ c :: trail_fin]) trail_chars) (seq 0 17).

Definition trail_grid : list (list Z) :=
  flat_map (fun h => map (fun t => h ++ t) trail_tails) trail_heads
  ++ flat_map (fun h => flat_map (fun c => [c :: h; c :: c :: c :: h; 120 :: c :: h]) (tl trail_chars)) trail_heads.

Definition is_parser_error {A} (r : result A) : bool := match r with Raise E_ParserError => true | _ => false end.

(* UTF-8 width of a code point, and the byte offsets at which the characters of a text start: what "every byte offset" above means *)
Definition utf8_width (c : Z) : Z := if c <? 128 then 1 else if c <? 2048 then 2 else if c <? 65536 then 3 else 4.
Definition utf8_len (s : list Z) : Z := fold_right (fun c n => utf8_width c + n) 0 s.

Section Trail.
  Variable du : list Z -> bool -> bool -> result pval.

  Lemma trail_grid_rejected_b : forall rs, forallb (fun s => is_parser_error (parse_full du rs opts0 s)) trail_grid = true.
  Proof. intros [|]; vm_compute; reflexivity. Qed.

  Lemma trail_grid_rejected : forall rs s, In s trail_grid -> parse_full du rs opts0 s = Raise E_ParserError.
  Proof.
    intros rs s H. pose proof (trail_grid_rejected_b rs) as B. rewrite forallb_forall in B. specialize (B s H).
    destruct (parse_full du rs opts0 s) as [|e]; [discriminate|]. destruct e; try discriminate. reflexivity.
  Qed.

  (* not every trailing character is refused: a Unicode Nd digit continues a field for the pure-Python backend ("2024-05-17 " + ARABIC-INDIC
     DIGIT THREE is read as 03:00; listed finding strict-lenient-python-regex), the compiled backend refuses it *)
  Lemma trail_nd_digit : parse_full du false opts0 ([50;48;50;52;45;48;53;45;49;55;32;1635]) = Ok (V_p (mkp 1 2024 5 17 3 0 0 0 (Some 0)))
                         /\ parse_full du true opts0 ([50;48;50;52;45;48;53;45;49;55;32;1635]) = Raise E_ParserError.
  Proof. split; vm_compute; reflexivity. Qed.
End Trail.

(* the grid is what it is said to be: 10 heads, 17 offsets x 4 characters x 4 shapes of tail + 9 leading variants each; the multi-byte character
   of a tail starts at byte offset k of the remainder and, for every width w in 2..4, some tail has a character that STRADDLES byte 10 *)
Lemma trail_grid_size : length trail_grid = 2810%nat.
Proof. vm_compute. reflexivity. Qed.

Lemma trail_offsets_covered : forall k, (k < 17)%nat -> forall c, In c trail_chars ->
  In (pad_x k ++ c :: trail_fin) trail_tails /\ utf8_len (pad_x k) = Z.of_nat k.
Proof.
  intros k Hk c Hc. split.
  - unfold trail_tails. apply in_flat_map. exists k. split; [apply in_seq; split; [apply Nat.le_0_l|exact Hk]|].
    apply in_flat_map. exists c. split; [exact Hc|]. simpl. auto.
  - unfold pad_x. induction k as [|k IH]; [reflexivity|]. change (repeat 120 (S k)) with (120 :: repeat 120 k).
    cbn [utf8_len fold_right]. change (fold_right (fun c n => utf8_width c + n) 0 (repeat 120 k)) with (utf8_len (repeat 120 k)).
    rewrite IH by (apply Nat.lt_succ_l; exact Hk). rewrite Nat2Z.inj_succ. change (utf8_width 120) with 1. apply Z.add_1_l.
Qed.
