(* Proofs/C16DateTime.v — the DateTime variants (naive / UTC / fixed offset) are the Date functions applied to the date part,
   with the time of day reset to 00:00 (kept iff keep_time) and the zone carried along unchanged. *)
From Coq Require Import ZArith List Bool Lia ZifyBool.
From PV Require Import Lib.PyBase Spec.Cal Proofs.CalFacts Gen.DateGetters Model.Weekday Proofs.C16Facts.
Ltac Zify.zify_post_hook ::= Z.to_euclidean_division_equations.
Open Scope Z_scope.

(* attach a time of day and a zone to a date result *)
Definition lift (r : result pdate) (tod z : Z) : result pdt := bind r (fun p => Ok (mkdt p tod z)).

Lemma t_create_lift y m d tod z : t_create y m d tod z = lift (date_new y m d) tod z.
Proof. reflexivity. Qed.

Lemma date_new_result y m d p : date_new y m d = Ok p -> wf_date p /\ p = mkdate y m d.
Proof.
  unfold date_new. destruct ((1 <=? y) && (y <=? 9999) && valid_dateb y m d) eqn:E; [|discriminate].
  intros H. inversion H. split; [|reflexivity]. apply andb_true_iff in E. destruct E as [E1 E2].
  split; cbn [d_year d_month d_day]; [exact E2|lia].
Qed.

Lemma t_start_of_day_wf p tod z : wf_date p -> t_start_of_day (mkdt p tod z) = Ok (mkdt p 0 z).
Proof. intros W. unfold t_start_of_day, t_create. cbn [t_date t_zone]. rewrite date_new_wf by assumption. reflexivity. Qed.

Lemma date_add_days_wf p k q : wf_date p -> date_add_days p k = Ok q -> wf_date q.
Proof. intros W H. apply date_of_ord_ok in H. destruct H as [R ->]. apply P_spec. assumption. Qed.

Lemma t_add_days_lift p tod z k : wf_date p ->
  t_add_days (mkdt p tod z) k = lift (date_add_days p k) tod z.
Proof.
  intros W. unfold t_add_days. cbn [t_date t_tod t_zone]. unfold lift.
  destruct (date_add_days p k) as [q|e] eqn:E; cbn [bind]; [|reflexivity].
  unfold t_create. rewrite date_new_wf by (eapply date_add_days_wf; eassumption). reflexivity.
Qed.

Lemma t_next_loop_lift wd tod z : forall f p, wf_date p ->
  t_next_loop f wd (mkdt p tod z) = lift (d_next_loop f wd p) tod z.
Proof.
  induction f as [|f IH]; intros p W; [reflexivity|].
  cbn [t_next_loop d_next_loop t_date]. destruct (negb (dow p =? wd)); [|reflexivity].
  rewrite t_add_days_lift by assumption. unfold lift at 1.
  destruct (date_add_days p 1) as [q|e] eqn:E; cbn [bind]; [|reflexivity].
  apply IH. eapply date_add_days_wf; eassumption.
Qed.

Lemma t_prev_loop_lift wd tod z : forall f p, wf_date p ->
  t_prev_loop f wd (mkdt p tod z) = lift (d_prev_loop f wd p) tod z.
Proof.
  induction f as [|f IH]; intros p W; [reflexivity|].
  cbn [t_prev_loop d_prev_loop t_date]. destruct (negb (dow p =? wd)); [|reflexivity].
  rewrite t_add_days_lift by assumption. unfold lift at 1.
  destruct (date_add_days p (-1)) as [q|e] eqn:E; cbn [bind]; [|reflexivity].
  apply IH. eapply date_add_days_wf; eassumption.
Qed.

Theorem t_next_lift p tod z o (keep : bool) : wf_date p ->
  t_next (mkdt p tod z) o keep = lift (d_next p o) (if keep then tod else 0) z.
Proof.
  intros W. unfold t_next, d_next. cbn [t_date].
  destruct (wd_invalid _); [reflexivity|].
  assert (E : (if keep then Ok (mkdt p tod z) else t_start_of_day (mkdt p tod z)) = Ok (mkdt p (if keep then tod else 0) z)).
  { destruct keep; [reflexivity|]. now apply t_start_of_day_wf. }
  rewrite E. cbn [bind]. rewrite t_add_days_lift by assumption. unfold lift at 1.
  destruct (date_add_days p 1) as [q|e] eqn:E1; cbn [bind]; [|reflexivity].
  apply t_next_loop_lift. eapply date_add_days_wf; eassumption.
Qed.

Theorem t_previous_lift p tod z o (keep : bool) : wf_date p ->
  t_previous (mkdt p tod z) o keep = lift (d_previous p o) (if keep then tod else 0) z.
Proof.
  intros W. unfold t_previous, d_previous. cbn [t_date].
  destruct (wd_invalid _); [reflexivity|].
  assert (E : (if keep then Ok (mkdt p tod z) else t_start_of_day (mkdt p tod z)) = Ok (mkdt p (if keep then tod else 0) z)).
  { destruct keep; [reflexivity|]. now apply t_start_of_day_wf. }
  rewrite E. cbn [bind]. rewrite t_add_days_lift by assumption. unfold lift at 1.
  destruct (date_add_days p (-1)) as [q|e] eqn:E1; cbn [bind]; [|reflexivity].
  apply t_prev_loop_lift. eapply date_add_days_wf; eassumption.
Qed.

Lemma t_set_day_lift p tod z c : t_set_day (mkdt p tod z) c = lift (date_set_day p c) tod z.
Proof. reflexivity. Qed.

Lemma t_first_of_month_lift p tod z o : wf_date p ->
  t_first_of_month (mkdt p tod z) o = lift (d_first_of_month p o) 0 z.
Proof.
  intros W. unfold t_first_of_month. rewrite t_start_of_day_wf by assumption. cbn [bind t_date].
  unfold d_first_of_month. destruct o as [w|]; [|apply t_set_day_lift].
  destruct (mc_get (d_year p) (d_month p) 0 w) as [c0|e]; cbn [bind lift]; [|reflexivity].
  destruct (c0 >? 0); [apply t_set_day_lift|].
  destruct (mc_get (d_year p) (d_month p) 1 w) as [c1|e]; cbn [bind lift]; [apply t_set_day_lift|reflexivity].
Qed.

Lemma t_last_of_month_lift p tod z o : wf_date p ->
  t_last_of_month (mkdt p tod z) o = lift (d_last_of_month p o) 0 z.
Proof.
  intros W. unfold t_last_of_month. rewrite t_start_of_day_wf by assumption. cbn [bind t_date].
  unfold d_last_of_month. destruct o as [w|]; [|apply t_set_day_lift].
  destruct (mc_get (d_year p) (d_month p) (-1) w) as [c0|e]; cbn [bind lift]; [|reflexivity].
  destruct (c0 >? 0); [apply t_set_day_lift|].
  destruct (mc_get (d_year p) (d_month p) (-2) w) as [c1|e]; cbn [bind lift]; [apply t_set_day_lift|reflexivity].
Qed.

(* bind (t_create ...) (month helper)  =  lift (bind (date_new ...) (month helper)) *)
Lemma via_create y m d tod z (ft : pdt -> result pdt) (fd : pdate -> result pdate) :
  (forall q, wf_date q -> ft (mkdt q tod z) = lift (fd q) 0 z) ->
  bind (t_create y m d tod z) ft = lift (bind (date_new y m d) fd) 0 z.
Proof.
  intros H. unfold t_create. destruct (date_new y m d) as [q|e] eqn:E; cbn [bind lift]; [|reflexivity].
  apply H. now destruct (date_new_result _ _ _ _ E).
Qed.

Theorem t_first_of_lift u p tod z o : wf_date p ->
  t_first_of u (mkdt p tod z) o = lift (d_first_of u p o) 0 z.
Proof.
  intros W. unfold t_first_of, d_first_of.
  destruct (u =? U_MONTH); [now apply t_first_of_month_lift|].
  destruct (u =? U_QUARTER).
  { unfold t_first_of_quarter, d_first_of_quarter, t_on, date_set_ymd. cbn [t_date t_tod t_zone].
    apply via_create. intros q Wq. now apply t_first_of_month_lift. }
  destruct (u =? U_YEAR); [|reflexivity].
  unfold t_first_of_year, d_first_of_year, t_set_month, date_set_month. cbn [t_date t_tod t_zone].
  apply via_create. intros q Wq. now apply t_first_of_month_lift.
Qed.

Theorem t_last_of_lift u p tod z o : wf_date p ->
  t_last_of u (mkdt p tod z) o = lift (d_last_of u p o) 0 z.
Proof.
  intros W. unfold t_last_of, d_last_of.
  destruct (u =? U_MONTH); [now apply t_last_of_month_lift|].
  destruct (u =? U_QUARTER).
  { unfold t_last_of_quarter, d_last_of_quarter, t_on, date_set_ymd. cbn [t_date t_tod t_zone].
    apply via_create. intros q Wq. now apply t_last_of_month_lift. }
  destruct (u =? U_YEAR); [|reflexivity].
  unfold t_last_of_year, d_last_of_year, t_set_month, date_set_month. cbn [t_date t_tod t_zone].
  apply via_create. intros q Wq. now apply t_last_of_month_lift.
Qed.

Lemma d_next_wf p o q : wf_date p -> owd_ok o -> d_next p o = Ok q -> wf_date q.
Proof.
  intros W Ho H. destruct o as [w|].
  - rewrite d_next_some in H by assumption. apply date_of_ord_ok in H. destruct H as [R ->]. now apply P_spec.
  - rewrite next_none_closed_form in H by assumption. apply date_of_ord_ok in H. destruct H as [R ->]. now apply P_spec.
Qed.

Lemma t_iter_next_lift wd z : valid_wd wd -> forall k p, wf_date p ->
  t_iter_next k wd (mkdt p 0 z) = lift (d_iter_next k wd p) 0 z.
Proof.
  intros Hwd. induction k as [|k IH]; intros p W; [reflexivity|].
  cbn [t_iter_next d_iter_next]. rewrite t_next_lift by assumption. unfold lift at 1.
  destruct (d_next p (Some wd)) as [q|e] eqn:E; cbn [bind]; [|reflexivity].
  apply IH. eapply d_next_wf; [exact W| |exact E]. exact Hwd.
Qed.

Definition lift_opt (r : result (option pdate)) (z : Z) : result (option pdt) :=
  bind r (fun o => Ok (match o with Some p => Some (mkdt p 0 z) | None => None end)).

(* self.set(day=..) / self.on(..) followed by .start_of("day") *)
Lemma rebuild_lift y m d tod z :
  bind (t_create y m d tod z) (fun r => bind (t_start_of_day r) (fun r' => Ok (Some r')))
  = lift_opt (bind (date_new y m d) (fun r => Ok (Some r))) z.
Proof.
  unfold t_create, lift_opt. destruct (date_new y m d) as [q|e] eqn:E; cbn [bind]; [|reflexivity].
  rewrite t_start_of_day_wf by (now destruct (date_new_result _ _ _ _ E)). reflexivity.
Qed.

Lemma first_of_none_wf u p q : is_unit u -> wf_date p -> d_first_of u p None = Ok q -> wf_date q.
Proof.
  intros Hu W H. rewrite d_first_of_none in H by assumption. inversion H. apply P_spec.
  destruct (unit_start_range u p Hu W). pose proof (unit_span u p Hu W). lia.
Qed.

Lemma is_unit_M : is_unit U_MONTH. Proof. left; reflexivity. Qed.
Lemma is_unit_Q : is_unit U_QUARTER. Proof. right; left; reflexivity. Qed.
Lemma is_unit_Y : is_unit U_YEAR. Proof. right; right; reflexivity. Qed.

Lemma t_nth_of_month_lift p tod z n wd : wf_date p -> valid_wd wd ->
  t_nth_of_month (mkdt p tod z) n wd = lift_opt (d_nth_of_month p n wd) z.
Proof.
  intros W Hwd. unfold t_nth_of_month, d_nth_of_month. destruct (n =? 1).
  { rewrite t_first_of_lift by assumption. unfold lift, lift_opt.
    destruct (d_first_of U_MONTH p (Some wd)); reflexivity. }
  rewrite t_first_of_lift by assumption. unfold lift at 1.
  destruct (d_first_of U_MONTH p None) as [dt0|e] eqn:E0; cbn [bind lift_opt]; [|reflexivity].
  assert (W0 : wf_date dt0) by (eapply first_of_none_wf; [apply is_unit_M|exact W|exact E0]).
  cbn [t_date]. rewrite t_iter_next_lift by assumption. unfold lift at 1.
  destruct (d_iter_next (nth_iters n wd dt0) wd dt0) as [dt|e] eqn:E1; cbn [bind]; [|reflexivity].
  cbn [t_date]. destruct (same_year_month dt dt0); [|reflexivity].
  unfold t_set_day, date_set_day. cbn [t_date t_tod t_zone]. apply rebuild_lift.
Qed.

Lemma t_nth_of_quarter_lift p tod z n wd : wf_date p -> valid_wd wd ->
  t_nth_of_quarter (mkdt p tod z) n wd = lift_opt (d_nth_of_quarter p n wd) z.
Proof.
  intros W Hwd. unfold t_nth_of_quarter, d_nth_of_quarter. destruct (n =? 1).
  { rewrite t_first_of_lift by assumption. unfold lift, lift_opt.
    destruct (d_first_of U_QUARTER p (Some wd)); reflexivity. }
  unfold t_on at 1, date_set_ymd at 1, t_create. cbn [t_date t_tod t_zone].
  destruct (date_new (d_year p) (py_Date_quarter p * 3) 1) as [dtq|e] eqn:Eq; cbn [bind lift_opt]; [|reflexivity].
  destruct (date_new_result _ _ _ _ Eq) as [Wq _]. cbn [t_date].
  rewrite t_first_of_lift by assumption. unfold lift at 1.
  destruct (d_first_of U_QUARTER dtq None) as [dt0|e] eqn:E0; cbn [bind]; [|reflexivity].
  assert (W0 : wf_date dt0) by (eapply first_of_none_wf; [apply is_unit_Q|exact Wq|exact E0]).
  cbn [t_date]. rewrite t_iter_next_lift by assumption. unfold lift at 1.
  destruct (d_iter_next (nth_iters n wd dt0) wd dt0) as [dt|e] eqn:E1; cbn [bind]; [|reflexivity].
  cbn [t_date]. destruct ((d_month dtq <? d_month dt) || negb (d_year dtq =? d_year dt)); [reflexivity|].
  unfold t_on, date_set_ymd. cbn [t_date t_tod t_zone]. apply rebuild_lift.
Qed.

Lemma t_nth_of_year_lift p tod z n wd : wf_date p -> valid_wd wd ->
  t_nth_of_year (mkdt p tod z) n wd = lift_opt (d_nth_of_year p n wd) z.
Proof.
  intros W Hwd. unfold t_nth_of_year, d_nth_of_year. destruct (n =? 1).
  { rewrite t_first_of_lift by assumption. unfold lift, lift_opt.
    destruct (d_first_of U_YEAR p (Some wd)); reflexivity. }
  rewrite t_first_of_lift by assumption. unfold lift at 1.
  destruct (d_first_of U_YEAR p None) as [dt0|e] eqn:E0; cbn [bind lift_opt]; [|reflexivity].
  assert (W0 : wf_date dt0) by (eapply first_of_none_wf; [apply is_unit_Y|exact W|exact E0]).
  cbn [t_date]. rewrite t_iter_next_lift by assumption. unfold lift at 1.
  destruct (d_iter_next (nth_iters n wd dt0) wd dt0) as [dt|e] eqn:E1; cbn [bind]; [|reflexivity].
  cbn [t_date]. destruct (negb (d_year dt0 =? d_year dt)); [reflexivity|].
  unfold t_on, date_set_ymd. cbn [t_date t_tod t_zone]. apply rebuild_lift.
Qed.

Theorem t_nth_of_lift u p tod z n wd : wf_date p -> valid_wd wd ->
  t_nth_of u (mkdt p tod z) n wd = lift (d_nth_of u p n wd) 0 z.
Proof.
  intros W Hwd. unfold t_nth_of, d_nth_of.
  assert (G : forall (rt : result (option pdt)) (rd : result (option pdate)), rt = lift_opt rd z ->
    bind rt (fun o => match o with Some d => Ok d | None => Raise E_PendulumException end)
    = lift (bind rd (fun o => match o with Some d => Ok d | None => Raise E_PendulumException end)) 0 z).
  { intros rt rd ->. unfold lift_opt, lift. destruct rd as [[q|]|e]; reflexivity. }
  (* the `except OverflowError: dt = None` of nth_of commutes with attaching time and zone *)
  assert (C : forall (rt : result (option pdt)) (rd : result (option pdate)), rt = lift_opt rd z ->
    overflow_to_none rt = lift_opt (overflow_to_none rd) z).
  { intros rt rd ->. unfold lift_opt. destruct rd as [[q|]|e]; try reflexivity. destruct e; reflexivity. }
  apply G.
  destruct (u =? U_MONTH); [apply C; now apply t_nth_of_month_lift|].
  destruct (u =? U_QUARTER); [apply C; now apply t_nth_of_quarter_lift|].
  destruct (u =? U_YEAR); [apply C; now apply t_nth_of_year_lift|reflexivity].
Qed.

(* consequences: time of day and zone of every successful result *)
Lemma lift_ok r tod z y : lift r tod z = Ok y -> exists q, r = Ok q /\ y = mkdt q tod z.
Proof. unfold lift. destruct r as [q|e]; cbn [bind]; [|discriminate]. intros H. inversion H. now exists q. Qed.

Theorem t_next_time_zone x o keep y : wf_date (t_date x) -> t_next x o keep = Ok y ->
  d_next (t_date x) o = Ok (t_date y) /\ t_zone y = t_zone x /\ t_tod y = (if keep then t_tod x else 0).
Proof.
  destruct x as [p tod z]. cbn [t_date t_tod t_zone]. intros W H. rewrite t_next_lift in H by assumption.
  apply lift_ok in H. destruct H as (q & E & ->). cbn [t_date t_tod t_zone]. auto.
Qed.

Theorem t_previous_time_zone x o keep y : wf_date (t_date x) -> t_previous x o keep = Ok y ->
  d_previous (t_date x) o = Ok (t_date y) /\ t_zone y = t_zone x /\ t_tod y = (if keep then t_tod x else 0).
Proof.
  destruct x as [p tod z]. cbn [t_date t_tod t_zone]. intros W H. rewrite t_previous_lift in H by assumption.
  apply lift_ok in H. destruct H as (q & E & ->). cbn [t_date t_tod t_zone]. auto.
Qed.

(* the time of day is kept iff keep_time (when it was not 00:00 to begin with) *)
Theorem keeps_time_iff_keep_time_next x o keep y : wf_date (t_date x) -> t_tod x <> 0 -> t_next x o keep = Ok y ->
  (t_tod y = t_tod x <-> keep = true).
Proof.
  intros W N H. destruct (t_next_time_zone x o keep y W H) as (_ & _ & E). rewrite E. destruct keep; split; try reflexivity; try congruence.
Qed.

Theorem t_first_of_time_zone u x o y : wf_date (t_date x) -> t_first_of u x o = Ok y ->
  d_first_of u (t_date x) o = Ok (t_date y) /\ t_zone y = t_zone x /\ t_tod y = 0.
Proof.
  destruct x as [p tod z]. cbn [t_date t_tod t_zone]. intros W H. rewrite t_first_of_lift in H by assumption.
  apply lift_ok in H. destruct H as (q & E & ->). cbn [t_date t_tod t_zone]. auto.
Qed.

Theorem t_last_of_time_zone u x o y : wf_date (t_date x) -> t_last_of u x o = Ok y ->
  d_last_of u (t_date x) o = Ok (t_date y) /\ t_zone y = t_zone x /\ t_tod y = 0.
Proof.
  destruct x as [p tod z]. cbn [t_date t_tod t_zone]. intros W H. rewrite t_last_of_lift in H by assumption.
  apply lift_ok in H. destruct H as (q & E & ->). cbn [t_date t_tod t_zone]. auto.
Qed.

Theorem t_nth_of_time_zone u x n wd y : wf_date (t_date x) -> valid_wd wd -> t_nth_of u x n wd = Ok y ->
  d_nth_of u (t_date x) n wd = Ok (t_date y) /\ t_zone y = t_zone x /\ t_tod y = 0.
Proof.
  destruct x as [p tod z]. cbn [t_date t_tod t_zone]. intros W Hwd H. rewrite t_nth_of_lift in H by assumption.
  apply lift_ok in H. destruct H as (q & E & ->). cbn [t_date t_tod t_zone]. auto.
Qed.

(* exceptions are the same as for Date *)
Theorem t_nth_of_raise u x n wd e : wf_date (t_date x) -> valid_wd wd ->
  (t_nth_of u x n wd = Raise e <-> d_nth_of u (t_date x) n wd = Raise e).
Proof.
  destruct x as [p tod z]. cbn [t_date]. intros W Hwd. rewrite t_nth_of_lift by assumption.
  unfold lift. destruct (d_nth_of u p n wd); cbn [bind]; split; congruence.
Qed.
