(* Proofs/StdlibDTFacts.v — the hand-written NATIVE datetime semantics used as specification (Spec/TdFloat.v td_norm / td_of_int_args,
   Spec/NativeDT.v ndt_add_td / ndt_replace_ymd, Model/DropIn.v native_sub / native_eq / native_ord / native_utcoffset) EQUALS the machine
   translation of CPython's pure-Python reference implementation _pydatetime.py (Gen/StdlibDT.v, regenerated from the staged interpreter).
   Bridge: a value of the models (wall microseconds since 0001-01-01, fold, tzinfo = identity + zone table) is the datetime object whose
   slots are fields_of_wall of the wall value (sdtm_of); a tzinfo object answers utcoffset(dt) with the zone's off_local at the wall second
   of dt's fields and dt's fold (stz_of); a timedelta of N microseconds is its normal form td_norm N (std_of_us). *)
From Coq Require Import ZArith List Bool Lia ZifyBool.
From PV Require Import Lib.Reflect Lib.PyBase Spec.Cal Spec.Zone Spec.NativeDT Spec.TdFloat Proofs.CalFacts Model.TzConvert Model.DropIn.
From PV Require Import Model.StdlibDTObj Gen.StdlibCal Gen.StdlibDT Proofs.StdlibCalFacts.
Import ListNotations.
Ltac Zify.zify_post_hook ::= Z.to_euclidean_division_equations.
Open Scope Z_scope.

(* ---------- (1) timedelta.__new__ on integer arguments = td_of_int_args / td_norm ---------- *)
Definition std_of_us (N : Z) : std := let '(a, b, c) := td_norm N in mkstd a b c.

Lemma sl_timedelta_new_spec d s us ms mi h w :
  sl_timedelta_new d s us ms mi h w =
  match td_of_int_args d s us ms mi h w with Ok N => Ok (std_of_us N) | Raise e => Raise e end.
Proof.
  unfold sl_timedelta_new, sl_round_int. cbv beta iota zeta.
  change (Z.abs 0 <=? 1) with true. change (Z.abs 0 <=? 24 * 3600) with true. change (Z.abs 0 <=? 2) with true. cbv iota.
  set (S1 := s + (mi * 60 + h * 3600)). set (U1 := us + ms * 1000). set (D1 := d + w * 7).
  change (24 * 3600) with 86400. change (2 * 24 * 3600) with 172800. change (3 * 24 * 3600) with 259200. change (0 * 1000000) with 0.
  change (Z.abs 0 <? 2100000) with true. cbv iota.
  replace (Z.abs (0 + S1 mod 86400) <=? 172800) with true by lia.
  set (A := S1 mod 86400). set (Bq := U1 / 1000000). set (C := U1 mod 1000000).
  replace (Z.abs (0 + A + Bq mod 86400) <=? 259200) with true by lia.
  replace (C + 0) with C by lia. replace (Z.abs C <? 3100000) with true by lia.
  set (SS := 0 + A + Bq mod 86400 + C / 1000000).
  replace ((0 <=? SS mod 86400) && (SS mod 86400 <? 86400)) with true by lia.
  replace ((0 <=? C mod 1000000) && (C mod 1000000 <? 1000000)) with true by lia.
  cbv iota.
  unfold td_of_int_args, td_in_range, std_of_us, td_norm. cbv zeta.
  set (N := td_us_of_int_args d s us ms mi h w).
  assert (HN : N = (D1 * 86400 + S1) * 1000000 + U1).
  { subst N D1 S1 U1. unfold td_us_of_int_args, US_PER_SEC. lia. }
  unfold US_PER_DAY, US_PER_SEC, TD_MAX_DAYS in *. change (86400 * 1000000) with 86400000000 in *.
  set (DD := D1 + S1 / 86400 + Bq / 86400 + SS / 86400).
  assert (E1 : DD = N / 86400000000) by (subst DD SS A Bq C; lia).
  assert (E2 : SS mod 86400 = N mod 86400000000 / 1000000) by (subst SS A Bq C; lia).
  assert (E3 : C mod 1000000 = N mod 1000000) by (subst C; lia).
  rewrite E2, E3, E1.
  destruct (Z.abs (N / 86400000000) >? 999999999) eqn:EO;
  match goal with |- context [if ?c then Ok N else _] => destruct c eqn:ER end; try reflexivity; exfalso; lia.
Qed.

Definition us3 (d s us : Z) : Z := (d * 86400 + s) * 1000000 + us.

Lemma td_new3 d s us :
  sl_timedelta_new d s us 0 0 0 0 = if td_in_range (us3 d s us) then Ok (std_of_us (us3 d s us)) else Raise E_OverflowError.
Proof.
  rewrite sl_timedelta_new_spec. unfold td_of_int_args.
  replace (td_us_of_int_args d s us 0 0 0 0) with (us3 d s us) by (unfold td_us_of_int_args, us3, US_PER_SEC; lia).
  destruct (td_in_range (us3 d s us)); reflexivity.
Qed.

Lemma td_us_total_std_of_us N : td_us_total (std_of_us N) = N.
Proof. unfold td_us_total, std_of_us, td_norm, US_PER_DAY, US_PER_SEC. cbn [td_days td_seconds td_microseconds]. lia. Qed.

Lemma std_of_us_inj a b : td_eqb (std_of_us a) (std_of_us b) = (a =? b).
Proof.
  unfold td_eqb, std_of_us, td_norm, US_PER_DAY, US_PER_SEC. cbn [td_days td_seconds td_microseconds].
  destruct (a =? b) eqn:E; lia.
Qed.

Lemma td_add_us a b : sl_timedelta_add (std_of_us a) (std_of_us b) =
  if td_in_range (a + b) then Ok (std_of_us (a + b)) else Raise E_OverflowError.
Proof.
  unfold sl_timedelta_add. rewrite td_new3.
  replace (us3 _ _ _) with (a + b)
    by (unfold us3, std_of_us, td_norm, US_PER_DAY, US_PER_SEC; cbn [td_days td_seconds td_microseconds]; lia).
  destruct (td_in_range (a + b)); reflexivity.
Qed.
Lemma td_sub_us a b : sl_timedelta_sub (std_of_us a) (std_of_us b) =
  if td_in_range (a - b) then Ok (std_of_us (a - b)) else Raise E_OverflowError.
Proof.
  unfold sl_timedelta_sub. rewrite td_new3.
  replace (us3 _ _ _) with (a - b)
    by (unfold us3, std_of_us, td_norm, US_PER_DAY, US_PER_SEC; cbn [td_days td_seconds td_microseconds]; lia).
  destruct (td_in_range (a - b)); reflexivity.
Qed.
Lemma td_neg_us a : sl_timedelta_neg (std_of_us a) =
  if td_in_range (- a) then Ok (std_of_us (- a)) else Raise E_OverflowError.
Proof.
  unfold sl_timedelta_neg. rewrite td_new3.
  replace (us3 _ _ _) with (- a)
    by (unfold us3, std_of_us, td_norm, US_PER_DAY, US_PER_SEC; cbn [td_days td_seconds td_microseconds]; lia).
  destruct (td_in_range (- a)); reflexivity.
Qed.

(* ---------- the bridge between the models' values and the stdlib objects ---------- *)
Definition stz_of (t : tzi) : stz :=
  mkstz (tz_id t) (fun F f => let '(y, m, d, hh, mm, ss, us) := F in
    Some (std_of_us (MEG * off_local (tz_zone t) (sec (wall_of y m d hh mm ss us)) (negb (f =? 0))))).
Definition sdtm_of (x : dtv) : sdtm :=
  let '(y, m, d, hh, mm, ss, us) := fields_of_wall (v_wall x) in
  mksdtm y m d hh mm ss us (Z.b2z (v_fold x)) (option_map stz_of (v_tz x)).
(* every utcoffset() the tzinfo returns is strictly between -24h and +24h (true of every tz table; _check_utc_offset tests it) *)
Definition off_ok (x : dtv) : Prop :=
  match v_tz x with Some t => forall f, -86400 < off_local (tz_zone t) (sec (v_wall x)) f < 86400 | None => True end.
Definition otd (o : option Z) : option std := option_map (fun s => std_of_us (MEG * s)) o.

Lemma wall_of_fields w : let '(y, m, d, hh, mm, ss, us) := fields_of_wall w in wall_of y m d hh mm ss us = w.
Proof.
  unfold fields_of_wall, wall_of. pose proof (ymd2ord_ord2ymd (w / us_per_day + 1)) as H.
  destruct (ord2ymd (w / us_per_day + 1)) as [[y m] d]. rewrite H. unfold us_per_day. lia.
Qed.

Section Bridge.
  Variable x : dtv.
  Let X := sdtm_of x.
  Let W := v_wall x.

  Lemma F_ord : sl_datetime_toordinal X = Ok (W / us_per_day + 1).
  Proof.
    subst X W. unfold sdtm_of, fields_of_wall, sl_datetime_toordinal. pose proof (CalFacts.ord2ymd_spec (v_wall x / us_per_day + 1)) as H.
    destruct (ord2ymd (v_wall x / us_per_day + 1)) as [[y m] d]. destruct H as [V E]. cbn [dm_year dm_month dm_day].
    rewrite (sl_ymd2ord_ok _ _ _ V), E. reflexivity.
  Qed.
  Lemma F_secs : dm_second X + dm_minute X * 60 + dm_hour X * 3600 = (W mod us_per_day) / 1000000.
  Proof.
    subst X W. unfold sdtm_of, fields_of_wall. destruct (ord2ymd (v_wall x / us_per_day + 1)) as [[y m] d].
    cbn [dm_second dm_minute dm_hour]. unfold us_per_day. lia.
  Qed.
  Lemma F_us : dm_microsecond X = (W mod us_per_day) mod 1000000.
  Proof.
    subst X W. unfold sdtm_of, fields_of_wall. destruct (ord2ymd (v_wall x / us_per_day + 1)) as [[y m] d]. reflexivity.
  Qed.
  Lemma F_tz : dm_tz X = option_map stz_of (v_tz x).
  Proof. subst X. unfold sdtm_of. destruct (fields_of_wall (v_wall x)) as [[[[[[y m] d] hh] mm] ss] us]. reflexivity. Qed.
  Lemma F_off : tz_utcoffset_of X = otd (native_utcoffset x).
  Proof.
    subst X. unfold tz_utcoffset_of, native_utcoffset, v_off, sdtm_of, dm_fields. pose proof (wall_of_fields (v_wall x)) as Hw.
    destruct (fields_of_wall (v_wall x)) as [[[[[[y m] d] hh] mm] ss] us].
    cbn [dm_tz dm_year dm_month dm_day dm_hour dm_minute dm_second dm_microsecond dm_fold].
    destruct (v_tz x) as [t|]; [|reflexivity]. cbn [option_map stz_of stz_off otd]. rewrite Hw. destruct (v_fold x); reflexivity.
  Qed.
  Lemma F_fields : dm_fields X = fields_of_wall W.
  Proof. subst X W. unfold sdtm_of, dm_fields. destruct (fields_of_wall (v_wall x)) as [[[[[[y m] d] hh] mm] ss] us]. reflexivity. Qed.
  Lemma F_flip : dm_flip_fold X = sdtm_of (mkdtv (v_wall x) (negb (v_fold x)) (v_tz x)).
  Proof.
    subst X. unfold sdtm_of, dm_flip_fold. cbn [v_wall v_fold v_tz]. destruct (fields_of_wall (v_wall x)) as [[[[[[y m] d] hh] mm] ss] us].
    cbn [dm_year dm_month dm_day dm_hour dm_minute dm_second dm_microsecond dm_fold dm_tz]. destruct (v_fold x); reflexivity.
  Qed.
End Bridge.

Lemma td_in_day_range_us o : td_in_day_range (std_of_us (MEG * o)) = (-86400 <? o) && (o <? 86400).
Proof. unfold td_in_day_range. rewrite td_us_total_std_of_us. unfold MEG. lia. Qed.

(* datetime.utcoffset() = the models' native_utcoffset (None for a naive value) *)
Lemma sl_utcoffset_spec x : off_ok x -> sl_datetime_utcoffset (sdtm_of x) = Ok (otd (native_utcoffset x)).
Proof.
  intros Hok. unfold sl_datetime_utcoffset. rewrite F_tz, F_off. unfold native_utcoffset, v_off, off_ok in *.
  destruct (v_tz x) as [t|]; cbn [option_map otd]; [|reflexivity].
  unfold sl_check_utc_offset. rewrite td_in_day_range_us. specialize (Hok (v_fold x)).
  replace ((-86400 <? off_local (tz_zone t) (sec (v_wall x)) (v_fold x)) && (off_local (tz_zone t) (sec (v_wall x)) (v_fold x) <? 86400)) with true by lia.
  reflexivity.
Qed.

(* ---------- (3) datetime.__sub__ (datetime - datetime) = native_sub ---------- *)
Lemma opt_tz_is_spec x y : opt_tz_is (option_map stz_of (v_tz x)) (option_map stz_of (v_tz y)) = same_tzobj x y.
Proof. unfold same_tzobj. destruct (v_tz x), (v_tz y); reflexivity. Qed.

Lemma td_in_range_small N : -315537897600000000 * 2 <= N <= 315537897600000000 * 2 -> td_in_range N = true.
Proof. intros H. unfold td_in_range, US_PER_DAY, US_PER_SEC, TD_MAX_DAYS. lia. Qed.

Lemma off_ok_native x : off_ok x -> match native_utcoffset x with Some o => -86400 < o < 86400 | None => True end.
Proof. unfold off_ok, native_utcoffset, v_off. destruct (v_tz x); auto. Qed.

Theorem sl_datetime_sub_spec x y :
  off_ok x -> off_ok y -> wall_in_range (v_wall x) = true -> wall_in_range (v_wall y) = true ->
  sl_datetime_sub (sdtm_of x) (sdtm_of y) = match native_sub x y with Ok N => Ok (std_of_us N) | Raise e => Raise e end.
Proof.
  intros Ox Oy Rx Ry. apply wall_in_range_iff in Rx, Ry.
  unfold sl_datetime_sub. rewrite !F_ord. cbv beta zeta. rewrite !F_secs, !F_us, td_new3.
  replace (us3 _ _ _) with (v_wall x - v_wall y) by (unfold us3, us_per_day; lia).
  rewrite td_in_range_small by lia. rewrite !F_tz, opt_tz_is_spec. unfold native_sub.
  destruct (same_tzobj x y) eqn:ES; [reflexivity|].
  rewrite !sl_utcoffset_spec by assumption. unfold instant.
  pose proof (off_ok_native x Ox) as Bx. pose proof (off_ok_native y Oy) as By.
  unfold same_tzobj in ES. unfold native_utcoffset, v_off in *.
  destruct (v_tz x) as [t1|], (v_tz y) as [t2|]; cbn [otd option_map opt_td_eqb]; try reflexivity; [|discriminate].
  set (o1 := off_local (tz_zone t1) (sec (v_wall x)) (v_fold x)) in *.
  set (o2 := off_local (tz_zone t2) (sec (v_wall y)) (v_fold y)) in *.
  rewrite std_of_us_inj. unfold MEG in *. destruct (1000000 * o1 =? 1000000 * o2) eqn:EO.
  - f_equal. f_equal. lia.
  - rewrite td_add_us, td_in_range_small by lia. rewrite td_sub_us, td_in_range_small by lia. f_equal. f_equal. lia.
Qed.

(* ---------- (3) datetime._cmp = the comparison rules of Model/DropIn.v (cmp_key / native_ord / native_eq) ---------- *)
Definition cmp3 (a b : Z) : Z := if a <? b then -1 else if b <? a then 1 else 0.

Lemma cmp7_fields a b : sl_cmp7 (fields_of_wall a) (fields_of_wall b) = cmp3 a b.
Proof.
  unfold fields_of_wall.
  pose proof (CalFacts.ord2ymd_spec (a / us_per_day + 1)) as Ha. pose proof (CalFacts.ord2ymd_spec (b / us_per_day + 1)) as Hb.
  destruct (ord2ymd (a / us_per_day + 1)) as [[y1 m1] d1]. destruct (ord2ymd (b / us_per_day + 1)) as [[y2 m2] d2].
  destruct Ha as [Va Ea]. destruct Hb as [Vb Eb].
  assert (Lt : (y1 < y2 \/ (y1 = y2 /\ (m1 < m2 \/ (m1 = m2 /\ d1 < d2)))) -> a / us_per_day < b / us_per_day)
    by (intros H; pose proof (ymd2ord_lt _ _ _ _ _ _ Va Vb H); lia).
  assert (Gt : (y2 < y1 \/ (y2 = y1 /\ (m2 < m1 \/ (m2 = m1 /\ d2 < d1)))) -> b / us_per_day < a / us_per_day)
    by (intros H; pose proof (ymd2ord_lt _ _ _ _ _ _ Vb Va H); lia).
  assert (Eq : y1 = y2 -> m1 = m2 -> d1 = d2 -> a / us_per_day = b / us_per_day) by (intros; subst; lia).
  clear Va Vb Ea Eb. unfold sl_cmp7, cmp3. cbv beta iota zeta. unfold us_per_day in *.
  set (qa := a / 86400000000) in *. set (qb := b / 86400000000) in *.
  set (ta := a mod 86400000000). set (tb := b mod 86400000000).
  assert (Da : a = qa * 86400000000 + ta /\ 0 <= ta < 86400000000) by (subst qa ta; lia).
  assert (Db : b = qb * 86400000000 + tb /\ 0 <= tb < 86400000000) by (subst qb tb; lia).
  clearbody qa qb ta tb.
  repeat match goal with |- context [if ?c then _ else _] => destruct c eqn:? end;
  first [ assert (qa < qb) by (apply Lt; lia) | assert (qb < qa) by (apply Gt; lia) | assert (qa = qb) by (apply Eq; lia) ]; lia.
Qed.

Lemma cmp3_shift a b k : cmp3 (a - k) (b - k) = cmp3 a b.
Proof. unfold cmp3. destruct (a <? b) eqn:E1, (b <? a) eqn:E2; destruct (a - k <? b - k) eqn:E3; destruct (b - k <? a - k) eqn:E4; lia. Qed.
Lemma cmp3_eq0 a b : (cmp3 a b =? 0) = (a =? b).
Proof. unfold cmp3. destruct (a <? b) eqn:E1; [lia|]. destruct (b <? a) eqn:E2; lia. Qed.
Lemma td_days_neg N : (td_days (std_of_us N) <? 0) = (N <? 0).
Proof. unfold std_of_us, td_norm, US_PER_DAY, US_PER_SEC. cbn [td_days]. lia. Qed.
Lemma td_bool_us N : td_bool (std_of_us N) = negb (N =? 0).
Proof. unfold td_bool, std_of_us, td_norm, US_PER_DAY, US_PER_SEC. cbn [td_days td_seconds td_microseconds]. lia. Qed.
Lemma diff_sign N : (if td_days (std_of_us N) <? 0 then -1 else if td_bool (std_of_us N) then 1 else 0) = cmp3 N 0.
Proof. rewrite td_days_neg, td_bool_us. unfold cmp3. destruct (N <? 0) eqn:E1; [reflexivity|]. destruct (N =? 0) eqn:E2; destruct (0 <? N) eqn:E3; cbn; lia. Qed.

Lemma fields_tuple X : (dm_year X, dm_month X, dm_day X, dm_hour X, dm_minute X, dm_second X, dm_microsecond X) = dm_fields X.
Proof. reflexivity. Qed.

Lemma off_ok_flip x : off_ok x -> off_ok (mkdtv (v_wall x) (negb (v_fold x)) (v_tz x)).
Proof. unfold off_ok. cbn [v_tz v_wall]. auto. Qed.

Theorem sl_datetime_cmp_ord x y :
  off_ok x -> off_ok y -> wall_in_range (v_wall x) = true -> wall_in_range (v_wall y) = true ->
  sl_datetime_cmp (sdtm_of x) (sdtm_of y) false =
  match cmp_key x y with None => Raise E_TypeError | Some (a, b) => Ok (cmp3 a b) end.
Proof.
  intros Ox Oy Rx Ry. unfold sl_datetime_cmp. cbv beta zeta. rewrite !fields_tuple, !F_fields, !F_tz, opt_tz_is_spec, cmp7_fields.
  unfold cmp_key. destruct (same_tzobj x y) eqn:ES; [reflexivity|].
  rewrite !sl_utcoffset_spec by assumption.
  pose proof (sl_datetime_sub_spec x y Ox Oy Rx Ry) as SUB. unfold native_sub in SUB. rewrite ES in SUB.
  unfold same_tzobj in ES. unfold instant, native_utcoffset, v_off in *.
  destruct (v_tz x) as [t1|], (v_tz y) as [t2|]; cbn [otd option_map opt_td_eqb]; try reflexivity; [|discriminate].
  set (o1 := off_local (tz_zone t1) (sec (v_wall x)) (v_fold x)) in *.
  set (o2 := off_local (tz_zone t2) (sec (v_wall y)) (v_fold y)) in *.
  rewrite std_of_us_inj. destruct (MEG * o1 =? MEG * o2) eqn:EO.
  - f_equal. replace (MEG * o2) with (MEG * o1) by lia. symmetry. apply cmp3_shift.
  - rewrite SUB. cbv beta zeta. rewrite td_days_neg, td_bool_us. unfold cmp3.
    set (I1 := v_wall x - MEG * o1). set (I2 := v_wall y - MEG * o2).
    destruct (I1 - I2 <? 0) eqn:E1; destruct (I1 - I2 =? 0) eqn:E2; destruct (I1 <? I2) eqn:E3; destruct (I2 <? I1) eqn:E4;
    cbn [negb]; try reflexivity; lia.
Qed.

(* __eq__ : _cmp(other, allow_mixed=True) == 0 *)
Theorem sl_datetime_cmp_eq x y :
  off_ok x -> off_ok y -> wall_in_range (v_wall x) = true -> wall_in_range (v_wall y) = true ->
  exists c, sl_datetime_cmp (sdtm_of x) (sdtm_of y) true = Ok c /\ (c =? 0) = native_eq x y.
Proof.
  intros Ox Oy Rx Ry. unfold sl_datetime_cmp. cbv beta zeta. rewrite !fields_tuple, !F_fields, !F_tz, opt_tz_is_spec, cmp7_fields.
  unfold native_eq, cmp_key. destruct (same_tzobj x y) eqn:ES.
  - eexists. split; [reflexivity|]. rewrite cmp3_eq0. cbn [orb]. rewrite andb_true_r. reflexivity.
  - rewrite !F_flip. rewrite !sl_utcoffset_spec by (assumption || apply off_ok_flip; assumption).
    pose proof (sl_datetime_sub_spec x y Ox Oy Rx Ry) as SUB. unfold native_sub in SUB. rewrite ES in SUB.
    unfold same_tzobj in ES. unfold problem_time, instant, native_utcoffset, v_off in *. cbn [v_tz v_wall v_fold].
    destruct (v_tz x) as [t1|], (v_tz y) as [t2|]; cbn [otd option_map opt_td_eqb negb]; try discriminate.
    + rewrite !std_of_us_inj.
      set (a0 := off_local (tz_zone t1) (sec (v_wall x)) false). set (a1 := off_local (tz_zone t1) (sec (v_wall x)) true).
      set (b0 := off_local (tz_zone t2) (sec (v_wall y)) false). set (b1 := off_local (tz_zone t2) (sec (v_wall y)) true).
      assert (PX : negb (MEG * off_local (tz_zone t1) (sec (v_wall x)) (v_fold x) =? MEG * off_local (tz_zone t1) (sec (v_wall x)) (negb (v_fold x))) = negb (a0 =? a1))
        by (subst a0 a1; unfold MEG; destruct (v_fold x); cbn [negb]; lia).
      assert (PY : negb (MEG * off_local (tz_zone t2) (sec (v_wall y)) (v_fold y) =? MEG * off_local (tz_zone t2) (sec (v_wall y)) (negb (v_fold y))) = negb (b0 =? b1))
        by (subst b0 b1; unfold MEG; destruct (v_fold y); cbn [negb]; lia).
      rewrite PX. destruct (negb (a0 =? a1)) eqn:EA; cbn [orb negb andb].
      { eexists. split; [reflexivity|]. rewrite andb_false_r. reflexivity. }
      rewrite PY. destruct (negb (b0 =? b1)) eqn:EB; cbn [orb negb andb].
      { eexists. split; [reflexivity|]. rewrite andb_false_r. reflexivity. }
      rewrite andb_true_r.
      set (o1 := off_local (tz_zone t1) (sec (v_wall x)) (v_fold x)) in *.
      set (o2 := off_local (tz_zone t2) (sec (v_wall y)) (v_fold y)) in *.
      destruct (MEG * o1 =? MEG * o2) eqn:EO.
      * eexists. split; [reflexivity|]. rewrite cmp3_eq0. lia.
      * rewrite SUB. cbv beta zeta. rewrite td_days_neg, td_bool_us.
        set (I1 := v_wall x - MEG * o1). set (I2 := v_wall y - MEG * o2).
        destruct (I1 - I2 <? 0) eqn:E1; [eexists; split; [reflexivity|]; lia|].
        destruct (I1 - I2 =? 0) eqn:E2; cbn [negb]; eexists; (split; [reflexivity|]); lia.
    + repeat match goal with |- context [if ?c then _ else _] => destruct c end; eexists; (split; [reflexivity|reflexivity]).
    + repeat match goal with |- context [if ?c then _ else _] => destruct c end; eexists; (split; [reflexivity|reflexivity]).
Qed.

(* ---------- (2) datetime.__add__ ---------- *)
Lemma F_hms x : let X := sdtm_of x in let s := (v_wall x mod us_per_day) / 1000000 in
  dm_hour X = s / 3600 /\ dm_minute X = (s / 60) mod 60 /\ dm_second X = s mod 60.
Proof.
  cbv zeta. unfold sdtm_of, fields_of_wall. destruct (ord2ymd (v_wall x / us_per_day + 1)) as [[y m] d].
  cbn [dm_hour dm_minute dm_second]. repeat split; reflexivity.
Qed.

Lemma sdtm_of_eq W f tz y m d hh mi ss us :
  ord2ymd (W / us_per_day + 1) = (y, m, d) ->
  hh = (W mod us_per_day / 1000000) / 3600 -> mi = ((W mod us_per_day / 1000000) / 60) mod 60 -> ss = (W mod us_per_day / 1000000) mod 60 ->
  us = (W mod us_per_day) mod 1000000 ->
  mksdtm y m d hh mi ss us (Z.b2z f) (option_map stz_of tz) = sdtm_of (mkdtv W f tz).
Proof. intros E -> -> -> ->. unfold sdtm_of, fields_of_wall. cbn [v_wall v_fold v_tz]. rewrite E. reflexivity. Qed.

Theorem sl_datetime_add_spec x N :
  wall_in_range (v_wall x) = true -> td_in_range N = true ->
  sl_datetime_add (sdtm_of x) (std_of_us N) =
  if wall_in_range (v_wall x + N) then Ok (sdtm_of (mkdtv (v_wall x + N) false (v_tz x))) else Raise E_OverflowError.
Proof.
  intros Rx RN. pose proof Rx as Rx'. apply wall_in_range_iff in Rx'.
  unfold sl_datetime_add. rewrite F_ord. rewrite sl_timedelta_new_spec. unfold td_of_int_args.
  destruct (F_hms x) as (Hh & Hm & Hs). cbv zeta in Hh, Hm, Hs.
  set (W := v_wall x) in *.
  assert (E0 : td_us_of_int_args (W / us_per_day + 1) (dm_second (sdtm_of x)) (dm_microsecond (sdtm_of x)) 0 (dm_minute (sdtm_of x)) (dm_hour (sdtm_of x)) 0
               = W + us_per_day).
  { rewrite Hh, Hm, Hs, F_us. fold W. unfold td_us_of_int_args, US_PER_SEC, us_per_day. lia. }
  rewrite E0. rewrite (td_in_range_small (W + us_per_day)) by (unfold us_per_day; lia).
  rewrite td_add_us. rewrite F_tz.
  destruct (wall_in_range (W + N)) eqn:RW.
  - apply wall_in_range_iff in RW. rewrite td_in_range_small by (unfold us_per_day; lia). cbv beta zeta.
    unfold std_of_us, td_norm, US_PER_DAY, US_PER_SEC, sl_MAXORDINAL. cbn [td_days td_seconds td_microseconds].
    replace ((0 <? (W + us_per_day + N) / 86400000000) && ((W + us_per_day + N) / 86400000000 <=? 3652059)) with true
      by (unfold us_per_day; lia).
    unfold dm_combine_ord. rewrite sl_ord2ymd_spec.
    replace ((W + us_per_day + N) / 86400000000) with ((W + N) / us_per_day + 1) by (unfold us_per_day; lia).
    destruct (ord2ymd ((W + N) / us_per_day + 1)) as [[y m] d] eqn:EO. f_equal.
    apply (sdtm_of_eq (W + N) false (v_tz x) y m d); try exact EO; unfold us_per_day; lia.
  - apply wall_in_range_false_iff in RW.
    destruct (td_in_range (W + us_per_day + N)) eqn:RT; [|reflexivity]. cbv beta zeta.
    unfold std_of_us, td_norm, US_PER_DAY, US_PER_SEC, sl_MAXORDINAL. cbn [td_days td_seconds td_microseconds].
    replace ((0 <? (W + us_per_day + N) / 86400000000) && ((W + us_per_day + N) / 86400000000 <=? 3652059)) with false
      by (unfold us_per_day; lia).
    reflexivity.
Qed.

(* timedelta(days=, hours=, minutes=, seconds=, microseconds=) then dt + that = Spec/NativeDT.v ndt_add_td on a datetime *)
Theorem sl_datetime_add_is_ndt_add_td x days hours minutes seconds us :
  wall_in_range (v_wall x) = true ->
  match sl_timedelta_new days seconds us 0 minutes hours 0 with
  | Ok td => sl_datetime_add (sdtm_of x) td
  | Raise e => Raise e
  end
  = match ndt_add_td (mkndt (v_wall x) true) days hours minutes seconds us with
    | Ok r => Ok (sdtm_of (mkdtv (n_wall r) false (v_tz x)))
    | Raise e => Raise e
    end.
Proof.
  intros Rx. rewrite sl_timedelta_new_spec. unfold td_of_int_args, ndt_add_td. cbv zeta. cbn [n_wall n_isdt].
  replace (td_us_of_int_args days seconds us 0 minutes hours 0) with (td_total_us days hours minutes seconds us)
    by (unfold td_us_of_int_args, td_total_us, US_PER_SEC; lia).
  set (T := td_total_us days hours minutes seconds us).
  destruct (td_in_range T) eqn:ER; pose proof ER as ER'; unfold td_in_range, US_PER_DAY, US_PER_SEC, TD_MAX_DAYS in ER'; unfold us_per_day.
  - replace ((T / 86400000000 <? -999999999) || (999999999 <? T / 86400000000)) with false by lia.
    rewrite sl_datetime_add_spec by assumption.
    destruct (wall_in_range (v_wall x + T)); reflexivity.
  - replace ((T / 86400000000 <? -999999999) || (999999999 <? T / 86400000000)) with true by lia. reflexivity.
Qed.

(* ---------- (2) datetime.replace(year=, month=, day=) = ndt_replace_ymd ---------- *)
Theorem sl_datetime_replace_spec x y m d :
  sl_datetime_replace_ymd (sdtm_of x) (Some y) (Some m) (Some d) =
  match ndt_replace_ymd (mkndt (v_wall x) true) y m d with
  | Ok r => Ok (sdtm_of (mkdtv (n_wall r) (v_fold x) (v_tz x)))
  | Raise e => Raise e
  end.
Proof.
  unfold sl_datetime_replace_ymd, sl_datetime_new, ndt_replace_ymd. cbv beta zeta. rewrite sl_check_date_fields_spec.
  destruct ((1 <=? y) && (y <=? 9999) && valid_dateb y m d) eqn:V; [|reflexivity]. cbv beta iota zeta.
  destruct (F_hms x) as (Hh & Hm & Hs). cbv zeta in Hh, Hm, Hs. set (W := v_wall x) in *.
  assert (Hf : dm_fold (sdtm_of x) = Z.b2z (v_fold x))
    by (unfold sdtm_of; destruct (fields_of_wall (v_wall x)) as [[[[[[? ?] ?] ?] ?] ?] ?]; reflexivity).
  unfold sl_check_time_fields, sl_index. cbv zeta. rewrite Hh, Hm, Hs, F_us, Hf. fold W.
  set (s := W mod us_per_day / 1000000).
  replace (negb ((0 <=? s / 3600) && (s / 3600 <=? 23))) with false by (subst s; unfold us_per_day; lia).
  replace (negb ((0 <=? s / 60 mod 60) && (s / 60 mod 60 <=? 59))) with false by lia.
  replace (negb ((0 <=? s mod 60) && (s mod 60 <=? 59))) with false by lia.
  replace (negb ((0 <=? (W mod us_per_day) mod 1000000) && ((W mod us_per_day) mod 1000000 <=? 999999))) with false by lia.
  replace (negb ((Z.b2z (v_fold x) =? 0) || (Z.b2z (v_fold x) =? 1))) with false by (destruct (v_fold x); reflexivity).
  cbv beta iota zeta. rewrite F_tz. f_equal. unfold ndt_tod. cbn [n_wall].
  assert (Vd : valid_dateb y m d = true) by (apply andb_true_iff in V; tauto).
  apply sdtm_of_eq.
  - replace (((ymd2ord y m d - 1) * us_per_day + W mod us_per_day) / us_per_day + 1) with (ymd2ord y m d) by (unfold us_per_day; lia).
    apply ord2ymd_ymd2ord. exact Vd.
  - subst s. unfold us_per_day. lia.
  - subst s. unfold us_per_day. lia.
  - subst s. unfold us_per_day. lia.
  - unfold us_per_day. lia.
Qed.

(* ---------- (2) date.__add__ / date.__sub__ ---------- *)
Theorem sl_date_add_spec y m d N : valid_dateb y m d = true ->
  sl_date_add (mkdate y m d) (std_of_us N) =
  let o := ymd2ord y m d + N / us_per_day in
  if (0 <? o) && (o <=? 3652059) then (let '(y', m', d') := ord2ymd o in Ok (mkdate y' m' d')) else Raise E_OverflowError.
Proof.
  intros V. unfold sl_date_add, sl_date_toordinal'. cbn [d_year d_month d_day]. rewrite (sl_ymd2ord_ok _ _ _ V). cbv beta zeta.
  unfold std_of_us, td_norm, US_PER_DAY, US_PER_SEC, sl_MAXORDINAL, us_per_day. cbn [td_days].
  change (86400 * 1000000) with 86400000000.
  destruct ((0 <? ymd2ord y m d + N / 86400000000) && (ymd2ord y m d + N / 86400000000 <=? 3652059)); [|reflexivity].
  unfold date_of_ordinal. rewrite sl_ord2ymd_spec. destruct (ord2ymd (ymd2ord y m d + N / 86400000000)) as [[y' m'] d']. reflexivity.
Qed.

Theorem sl_date_add_is_ndt_add_td y m d days hours minutes seconds us : valid_dateb y m d = true ->
  match sl_timedelta_new days seconds us 0 minutes hours 0 with
  | Ok td => sl_date_add (mkdate y m d) td
  | Raise e => Raise e
  end
  = match ndt_add_td (mkndt ((ymd2ord y m d - 1) * us_per_day) false) days hours minutes seconds us with
    | Ok r => let '(y', m', d') := ord2ymd (n_wall r / us_per_day + 1) in Ok (mkdate y' m' d')
    | Raise e => Raise e
    end.
Proof.
  intros V. rewrite sl_timedelta_new_spec. unfold td_of_int_args, ndt_add_td. cbv zeta. cbn [n_wall n_isdt].
  replace (td_us_of_int_args days seconds us 0 minutes hours 0) with (td_total_us days hours minutes seconds us)
    by (unfold td_us_of_int_args, td_total_us, US_PER_SEC; lia).
  set (T := td_total_us days hours minutes seconds us). set (o := ymd2ord y m d).
  destruct (td_in_range T) eqn:ER; pose proof ER as ER'; unfold td_in_range, US_PER_DAY, US_PER_SEC, TD_MAX_DAYS in ER'; unfold us_per_day.
  - replace ((T / 86400000000 <? -999999999) || (999999999 <? T / 86400000000)) with false by lia.
    rewrite sl_date_add_spec by assumption. cbv zeta. fold o. unfold us_per_day.
    destruct (wall_in_range ((o - 1) * 86400000000 + T / 86400000000 * 86400000000)) eqn:RW.
    + apply wall_in_range_iff in RW. replace ((0 <? o + T / 86400000000) && (o + T / 86400000000 <=? 3652059)) with true by lia.
      cbn [n_wall]. replace (((o - 1) * 86400000000 + T / 86400000000 * 86400000000) / 86400000000 + 1) with (o + T / 86400000000) by lia.
      reflexivity.
    + apply wall_in_range_false_iff in RW. replace ((0 <? o + T / 86400000000) && (o + T / 86400000000 <=? 3652059)) with false by lia.
      reflexivity.
  - replace ((T / 86400000000 <? -999999999) || (999999999 <? T / 86400000000)) with true by lia. reflexivity.
Qed.

Theorem sl_date_sub_spec y1 m1 d1 y2 m2 d2 : valid_dateb y1 m1 d1 = true -> valid_dateb y2 m2 d2 = true ->
  sl_date_sub (mkdate y1 m1 d1) (mkdate y2 m2 d2) =
  let N := (ymd2ord y1 m1 d1 - ymd2ord y2 m2 d2) * us_per_day in
  if td_in_range N then Ok (std_of_us N) else Raise E_OverflowError.
Proof.
  intros V1 V2. unfold sl_date_sub, sl_date_toordinal'. cbn [d_year d_month d_day].
  rewrite (sl_ymd2ord_ok _ _ _ V1), (sl_ymd2ord_ok _ _ _ V2). cbv beta zeta. rewrite td_new3.
  replace (us3 (ymd2ord y1 m1 d1 - ymd2ord y2 m2 d2) 0 0) with ((ymd2ord y1 m1 d1 - ymd2ord y2 m2 d2) * us_per_day)
    by (unfold us3, us_per_day; lia).
  destruct (td_in_range _); reflexivity.
Qed.

(* the statements are not vacuous *)
Example sl_dt_examples :
  sl_timedelta_new 1 (-1) 0 0 0 25 0 = Ok (mkstd 2 3599 0) /\ sl_timedelta_new 1000000000 0 0 0 0 0 0 = Raise E_OverflowError /\
  sl_datetime_add (mksdtm 9999 12 31 23 0 0 0 1 None) (mkstd 0 3600 0) = Raise E_OverflowError /\
  sl_datetime_add (mksdtm 2024 2 28 23 0 0 0 1 None) (mkstd 0 3600 0) = Ok (mksdtm 2024 2 29 0 0 0 0 0 None) /\
  sl_datetime_cmp (mksdtm 2024 1 1 0 0 0 0 0 None) (mksdtm 2024 1 1 0 0 0 0 0 (Some (mkstz 1 (fun _ _ => Some (mkstd 0 0 0))))) false
    = Raise E_TypeError /\
  sl_datetime_replace_ymd (mksdtm 2024 2 29 1 2 3 4 1 None) (Some 2023) None None = Raise E_ValueError.
Proof. vm_compute. repeat split; reflexivity. Qed.
