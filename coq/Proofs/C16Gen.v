(* Proofs/C16Gen.v — the next/previous skeletons translated from /repo on every run (Gen/WeekdayNav.v) are the functions of the
   hand model Model/Weekday.v about which Props/C16.v speaks. *)
From Coq Require Import ZArith List Bool.
From PV Require Import Lib.PyBase Spec.Cal Model.Weekday Gen.WeekdayNav Proofs.C16Facts.
Open Scope Z_scope.

Lemma date_next_loop_eq w : forall f dt, py_Date_next_loop f w dt = d_next_loop f w dt.
Proof.
  induction f as [|f IH]; intros dt; [reflexivity|]. cbn [py_Date_next_loop d_next_loop].
  destruct (negb (dow dt =? w)); [|reflexivity]. destruct (date_add_days dt 1); cbn [bind]; [apply IH|reflexivity].
Qed.

Lemma date_previous_loop_eq w : forall f dt, py_Date_previous_loop f w dt = d_prev_loop f w dt.
Proof.
  induction f as [|f IH]; intros dt; [reflexivity|]. cbn [py_Date_previous_loop d_prev_loop].
  destruct (negb (dow dt =? w)); [|reflexivity]. destruct (date_add_days dt (-1)); cbn [bind]; [apply IH|reflexivity].
Qed.

Lemma datetime_next_loop_eq w : forall f dt, py_DateTime_next_loop f w dt = t_next_loop f w dt.
Proof.
  induction f as [|f IH]; intros dt; [reflexivity|]. cbn [py_DateTime_next_loop t_next_loop].
  destruct (negb (dow (t_date dt) =? w)); [|reflexivity]. destruct (t_add_days dt 1); cbn [bind]; [apply IH|reflexivity].
Qed.

Lemma datetime_previous_loop_eq w : forall f dt, py_DateTime_previous_loop f w dt = t_prev_loop f w dt.
Proof.
  induction f as [|f IH]; intros dt; [reflexivity|]. cbn [py_DateTime_previous_loop t_prev_loop].
  destruct (negb (dow (t_date dt) =? w)); [|reflexivity]. destruct (t_add_days dt (-1)); cbn [bind]; [apply IH|reflexivity].
Qed.

Theorem py_Date_next_eq self o : py_Date_next self o = d_next self o.
Proof.
  unfold py_Date_next, d_next, wd_invalid. cbv zeta.
  destruct (_ || _); [reflexivity|]. destruct (date_add_days self 1); cbn [bind]; [|reflexivity].
  rewrite date_next_loop_eq. apply bind_ok_id.
Qed.

Theorem py_Date_previous_eq self o : py_Date_previous self o = d_previous self o.
Proof.
  unfold py_Date_previous, d_previous, wd_invalid. cbv zeta.
  destruct (_ || _); [reflexivity|]. destruct (date_add_days self (-1)); cbn [bind]; [|reflexivity].
  rewrite date_previous_loop_eq. apply bind_ok_id.
Qed.

Theorem py_DateTime_next_eq self o k : py_DateTime_next self o k = t_next self o k.
Proof.
  unfold py_DateTime_next, t_next, wd_invalid. cbv zeta.
  destruct (_ || _); [reflexivity|]. destruct (if k then Ok self else t_start_of_day self); cbn [bind]; [|reflexivity].
  destruct (t_add_days a 1); cbn [bind]; [|reflexivity].
  rewrite datetime_next_loop_eq. apply bind_ok_id.
Qed.

Theorem py_DateTime_previous_eq self o k : py_DateTime_previous self o k = t_previous self o k.
Proof.
  unfold py_DateTime_previous, t_previous, wd_invalid. cbv zeta.
  destruct (_ || _); [reflexivity|]. destruct (if k then Ok self else t_start_of_day self); cbn [bind]; [|reflexivity].
  destruct (t_add_days a (-1)); cbn [bind]; [|reflexivity].
  rewrite datetime_previous_loop_eq. apply bind_ok_id.
Qed.
