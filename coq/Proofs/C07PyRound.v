(* Proofs/C07PyRound.v — end-to-end for the PURE-PYTHON parser: parse_iso8601 inverts the extended calendar form
   YYYY-MM-DD(T| )HH:MM:SS[.ffffff](+|-)HH:MM for EVERY value, by shape invariance of the backtracking matcher
   (Proofs/RegexShape.v) applied to the GENERATED regex ISO8601_DT (Gen/IsoRegex.v):
     1. every character test of ISO_RE gives the same answer on all ten digits (`iso_digits_alike`, by computation), hence the
        match spans of ANY string equal those of the string with every digit replaced by '0' (`iso_match_digit_blind`);
     2. a rendered date-time has one of 8 shapes (separator T/space, fraction absent/6 digits, offset sign): one `vm_compute`
        of the span matcher per shape gives the groups of every rendering (`py_groups_of_rendering`);
     3. the post-match code then reads zero-padded decimal fields (C07Lex: int_of_render*, py_fraction_trunc, offset_value).
   The same method gives the six date-only forms (calendar / ordinal / week, extended / basic): `py_parse_iso_render_date`,
   `py_parse_iso_render_week` (with `isocalendar_inverse`: date.fromisocalendar inverts date.isocalendar, every year). *)
From Coq Require Import ZArith List Bool Lia ZifyBool.
From PV Require Import Lib.Reflect Lib.PyBase Spec.Cal Proofs.CalFacts Model.C07Regex Gen.IsoRegex Gen.IsoPost Model.IsoParse Model.IsoRender.
From PV Require Import Proofs.C15Facts Proofs.C07Lex Proofs.C07Cal Proofs.C07Week Proofs.C07Round Proofs.RegexShape.
Import ListNotations.
Ltac Zify.zify_post_hook ::= Z.to_euclidean_division_equations.
Open Scope Z_scope.

(* ------------------------------------------------------------------ ISO8601_DT is blind to WHICH digit it reads *)
Definition norm (c : Z) : Z := if is_digit c then 48 else c.
Definition shape (s : list Z) : list Z := map norm s.

Lemma iso_digits_alike : forallb (fun c => simb ISO_RE 48 c) [48; 49; 50; 51; 52; 53; 54; 55; 56; 57] = true.
Proof. vm_compute. reflexivity. Qed.

Lemma iso_sim_norm c : sim ISO_RE (norm c) c.
Proof.
  unfold sim, norm. destruct (is_digit c) eqn:D; [|apply simb_refl].
  pose proof iso_digits_alike as A. rewrite forallb_forall in A. apply A.
  unfold is_digit in D. cbn [In].
  assert (c = 48 \/ c = 49 \/ c = 50 \/ c = 51 \/ c = 52 \/ c = 53 \/ c = 54 \/ c = 55 \/ c = 56 \/ c = 57) by lia.
  intuition.
Qed.

Lemma iso_sim_shape s : Forall2 (sim ISO_RE) (shape s) s.
Proof. induction s as [|c s IH]; [constructor|]. cbn [shape map]. constructor; [apply iso_sim_norm|exact IH]. Qed.

Theorem iso_match_digit_blind s :
  re_match ISO_RE ISO_NGROUPS s = option_map (texts s) (re_match_sp ISO_RE ISO_NGROUPS (shape s)).
Proof. apply re_match_shape. apply iso_sim_shape. Qed.

Lemma norm_dg a : 0 <= a <= 9 -> norm (dg a) = 48.
Proof. intros H. unfold norm. rewrite is_digit_dg by exact H. reflexivity. Qed.

Lemma shape_cons c s : shape (c :: s) = norm c :: shape s. Proof. reflexivity. Qed.
Lemma shape_app a b : shape (a ++ b) = shape a ++ shape b. Proof. apply map_app. Qed.
Lemma shape_render2 n : 0 <= n < 100 -> shape (render2 n) = [48; 48].
Proof. intros Hn. unfold render2. cbn [shape map]. rewrite !norm_dg by lia. reflexivity. Qed.

Ltac compute_spans :=
  match goal with |- option_map _ ?t = _ =>
    let v := eval vm_compute in t in replace t with v by (vm_compute; reflexivity) end.

Theorem py_groups_of_rendering sep y m d H M S us off :
  sep = 84 \/ sep = 32 -> 0 <= y <= 9999 -> 0 <= m < 100 -> 0 <= d < 100 -> 0 <= H < 100 -> 0 <= M < 100 -> 0 <= S < 100 ->
  0 <= us < 1000000 -> -86400 < off < 86400 ->
  re_match ISO_RE ISO_NGROUPS (render_datetime_ext sep y m d H M S us off) =
  Some [None; Some (render_date 0 y m d); Some (render_date 0 y m d); Some (render4 y);
        Some ([45] ++ render2 m ++ [45] ++ render2 d); Some [45]; Some (render2 m); Some ([45] ++ render2 d); Some [45]; Some (render2 d);
        None; None; None; None; None; None;
        Some ([sep] ++ render_time_ext H M S us ++ render_offset off); Some [sep]; Some (render2 H); Some [58]; Some (render2 M); Some [58];
        Some (render2 S); (if us =? 0 then None else Some (46 :: render6 us)); (if us =? 0 then None else Some (render6 us));
        Some (render_offset off)].
Proof.
  intros Hsep Hy Hm Hd HH HM HS Hus Ho.
  rewrite iso_match_digit_blind.
  assert (Ha : 0 <= Z.abs off / 60 <= 1439) by lia.
  assert (Sh : shape (render_datetime_ext sep y m d H M S us off) =
               [48; 48; 48; 48; 45; 48; 48; 45; 48; 48; sep; 48; 48; 58; 48; 48; 58; 48; 48] ++
               (if us =? 0 then [] else [46; 48; 48; 48; 48; 48; 48]) ++
               [if off <? 0 then 45 else 43; 48; 48; 58; 48; 48]).
  { unfold render_datetime_ext, render_date, render_time_ext, render_offset, render6, render4.
    set (a := Z.abs off / 60) in *. cbn [Z.eqb].
    destruct (us =? 0); destruct (off <? 0); destruct Hsep as [-> | ->];
      repeat (rewrite ?shape_app, ?shape_cons); rewrite !shape_render2 by lia; reflexivity. }
  rewrite Sh. clear Sh.
  unfold render_datetime_ext, render_date, render_time_ext, render_offset, render6, render4, render2.
  cbn [Z.eqb].
  destruct (us =? 0); destruct (off <? 0); destruct Hsep as [-> | ->]; cbn [app];
    compute_spans; cbn [option_map texts map sub fst snd firstn skipn]; reflexivity.
Qed.

Lemma py_tz_offset_render off : -86400 < off < 86400 -> off mod 60 = 0 -> py_tz_offset (render_offset off) = Ok off.
Proof.
  intros Hr Hm. pose (a := Z.abs off / 60).
  assert (Ha : 0 <= a <= 1439) by (unfold a; lia).
  pose proof (offset_value 0 (if off <? 0 then 1 else 0) (a / 60) (a mod 60) ltac:(lia) ltac:(destruct (off <? 0); lia) ltac:(lia) ltac:(lia)) as [E _].
  unfold render_offset. fold a.
  replace ((if off <? 0 then 45 else 43) :: render2 (a / 60) ++ [58] ++ render2 (a mod 60))
    with (off_text 0 (if off <? 0 then 1 else 0) (a / 60) (a mod 60)) by (unfold off_text; destruct (off <? 0); reflexivity).
  rewrite E. f_equal. unfold off_val. cbn [Z.eqb]. unfold a. destruct (off <? 0) eqn:C; cbn [Z.eqb]; lia.
Qed.

Lemma py_fraction6 us : 0 <= us < 1000000 -> int_of (pad6r (firstn 6 (render6 us))) = us.
Proof.
  intros Hus. destruct (int_of_render6 us Hus) as [V _].
  rewrite py_fraction_trunc by (cbn; lia). unfold frac_us. change (firstn 6 (render6 us)) with (render6 us). rewrite V. cbn. lia.
Qed.

Theorem py_parse_iso_render sep y m d H M S us off :
  sep = 84 \/ sep = 32 -> valid_date y m d = true -> valid_time H M S us = true ->
  -86400 < off < 86400 -> off mod 60 = 0 ->
  py_parse_iso (render_datetime_ext sep y m d H M S us off) = Ok (mkp 1 y m d H M S us (Some off)).
Proof.
  intros Hsep Vd Vt Ho Ho60. pose proof (valid_date_bounds _ _ _ Vd) as Bd. pose proof (valid_time_bounds _ _ _ _ Vt) as Bt.
  unfold py_parse_iso. rewrite py_groups_of_rendering by (try assumption; lia).
  unfold py_datepart, py_timepart.
  cbn [has gtext grp nth negb andb orb
       G_ISO_date G_ISO_classic G_ISO_year G_ISO_monthday G_ISO_monthsep G_ISO_month G_ISO_daysep G_ISO_day G_ISO_isocalendar
       G_ISO_isoyear G_ISO_weeksep G_ISO_isoweek G_ISO_weekdaysep G_ISO_isoweekday G_ISO_time G_ISO_timesep G_ISO_hour G_ISO_minsep
       G_ISO_minute G_ISO_secsep G_ISO_second G_ISO_subsecondsection G_ISO_subsecond G_ISO_tz].
  rewrite py_tz_offset_render by assumption.
  destruct (int_of_render4 y ltac:(lia)) as [-> _].
  destruct (int_of_render2 m ltac:(lia)) as [-> _]. destruct (int_of_render2 d ltac:(lia)) as [-> _].
  destruct (int_of_render2 H ltac:(lia)) as [-> _]. destruct (int_of_render2 M ltac:(lia)) as [-> _].
  destruct (int_of_render2 S ltac:(lia)) as [-> _].
  destruct (us =? 0) eqn:U; cbn [has gtext grp nth G_ISO_subsecondsection G_ISO_subsecond].
  - apply Z.eqb_eq in U. subst us. unfold mk_datetime. rewrite Vd, Vt. reflexivity.
  - rewrite py_fraction6 by lia. unfold mk_datetime. rewrite Vd, Vt. reflexivity.
Qed.

(* through pendulum.parse with the pure-Python backend (any exact / tz / now options) *)
Theorem py_parse_top_render exact tzopt now sep y m d H M S us off :
  sep = 84 \/ sep = 32 -> valid_date y m d = true -> valid_time H M S us = true ->
  -86400 < off < 86400 -> off mod 60 = 0 ->
  parse_top false exact tzopt now (render_datetime_ext sep y m d H M S us off) = Ok (mkp 1 y m d H M S us (Some off)).
Proof.
  intros. unfold parse_top, base_parse. rewrite py_parse_iso_render by assumption.
  cbn [p_kind p_y p_m p_d p_H p_M p_S p_us p_off Z.eqb Pos.eqb]. unfold to_datetime.
  replace ((-86400 <? off) && (off <? 86400)) with true by lia. reflexivity.
Qed.

(* the two backends agree on every rendered string, natively and through pendulum.parse *)
Theorem rs_eq_py_on_rendered_ext sep y m d H M S us off :
  sep = 84 \/ sep = 32 -> valid_date y m d = true -> valid_time H M S us = true ->
  -86400 < off < 86400 -> off mod 60 = 0 ->
  rs_parse_iso (render_datetime_ext sep y m d H M S us off) = py_parse_iso (render_datetime_ext sep y m d H M S us off) /\
  forall exact tzopt now, parse_top true exact tzopt now (render_datetime_ext sep y m d H M S us off) =
                          parse_top false exact tzopt now (render_datetime_ext sep y m d H M S us off).
Proof.
  intros. split; [|intros]. 
  - rewrite rs_parse_iso_render, py_parse_iso_render by assumption. reflexivity.
  - rewrite rs_parse_top_render, py_parse_top_render by assumption. reflexivity.
Qed.

(* the hypotheses are satisfiable *)
Example py_parse_iso_render_hyps :
  (84 = 84 \/ 84 = 32) /\ valid_date 2021 3 31 = true /\ valid_time 10 20 30 123456 = true /\ -86400 < 19800 < 86400 /\ 19800 mod 60 = 0.
Proof. vm_compute. intuition congruence. Qed.

(* ------------------------------------------------------------------ date-only texts: calendar and ordinal forms, extended and basic *)
Lemma shape_render3 n : 0 <= n < 1000 -> shape (render3 n) = [48; 48; 48].
Proof. intros Hn. unfold render3. cbn [shape map]. rewrite !norm_dg by lia. reflexivity. Qed.

Lemma shape_render1 n : 0 <= n <= 9 -> shape (render1 n) = [48].
Proof. intros Hn. unfold render1. cbn [shape map]. rewrite norm_dg by lia. reflexivity. Qed.
Ltac shape_norm := repeat (rewrite ?shape_app, ?shape_cons); rewrite ?shape_render2, ?shape_render3, ?shape_render1 by lia.
Ltac iso_groups rep :=
  rewrite iso_match_digit_blind;
  match goal with |- context [re_match_sp _ _ (shape ?s)] =>
    replace (shape s) with rep by (symmetry; unfold render4; shape_norm; reflexivity) end;
  match goal with |- context [re_match_sp ?r ?n ?s] =>
    let t := constr:(re_match_sp r n s) in
    let v := eval vm_compute in t in replace t with v by (vm_compute; reflexivity) end;
  unfold render4, render3, render2, render1;
  cbn [app option_map texts map sub fst snd firstn skipn].
Ltac iso_has :=
  cbn [has gtext grp nth negb andb orb
       G_ISO_date G_ISO_classic G_ISO_year G_ISO_monthday G_ISO_monthsep G_ISO_month G_ISO_daysep G_ISO_day G_ISO_isocalendar
       G_ISO_isoyear G_ISO_weeksep G_ISO_isoweek G_ISO_weekdaysep G_ISO_isoweekday G_ISO_time G_ISO_timesep G_ISO_hour G_ISO_minsep
       G_ISO_minute G_ISO_secsep G_ISO_second G_ISO_subsecondsection G_ISO_subsecond G_ISO_tz].

Lemma yday_date y m d : valid_dateb y m d = true ->
  1 <= yday y m d <= days_in_year y /\ ord2ymd (ymd2ord y 1 1 + yday y m d - 1) = (y, m, d).
Proof.
  intros V. split; [apply yday_bounds; exact V|].
  apply valid_dateb_true in V. unfold dim in V. apply yday_to_date; try tauto.
Qed.

Theorem py_parse_iso_render_date form y m d : 0 <= form <= 3 -> valid_date y m d = true ->
  py_parse_iso (render_date form y m d) = Ok (mkp 2 y m d 0 0 0 0 None).
Proof.
  intros Hf Vd. pose proof (valid_date_bounds _ _ _ Vd) as Bd.
  assert (Vb : valid_dateb y m d = true) by (unfold valid_date in Vd; apply andb_true_iff in Vd; tauto).
  destruct (yday_date y m d Vb) as [By Ey]. pose proof (diy_cases y) as Dy. set (n := yday y m d) in *.
  destruct (int_of_render4 y ltac:(lia)) as [Iy _]. destruct (int_of_render2 m ltac:(lia)) as [Im _].
  destruct (int_of_render2 d ltac:(lia)) as [Id _]. destruct (int_of_render3 n ltac:(lia)) as [In_ _].
  unfold render4, render3, render2 in Iy, Im, Id, In_. cbn [app] in Iy.
  assert (F : form = 0 \/ form = 1 \/ form = 2 \/ form = 3) by lia.
  unfold py_parse_iso, render_date. fold n.
  destruct F as [-> | [-> | [-> | ->]]]; cbn [Z.eqb Pos.eqb].
  - iso_groups [48; 48; 48; 48; 45; 48; 48; 45; 48; 48]. unfold py_datepart. iso_has.
    rewrite Iy, Im, Id. unfold mk_date. rewrite Vd. reflexivity.
  - iso_groups [48; 48; 48; 48; 48; 48; 48; 48]. unfold py_datepart. iso_has.
    cbn [length Nat.eqb]. rewrite Iy, Im, Id. unfold mk_date. rewrite Vd. reflexivity.
  - iso_groups [48; 48; 48; 48; 45; 48; 48; 48]. unfold py_datepart. iso_has.
    cbn [length Nat.eqb app]. rewrite Iy, In_. rewrite py_ordinal_spec by exact By. rewrite Ey. cbn [fst snd].
    unfold mk_date. rewrite Vd. reflexivity.
  - iso_groups [48; 48; 48; 48; 48; 48; 48]. unfold py_datepart. iso_has.
    cbn [length Nat.eqb app]. rewrite Iy, In_. rewrite py_ordinal_spec by exact By. rewrite Ey. cbn [fst snd].
    unfold mk_date. rewrite Vd. reflexivity.
Qed.

(* ------------------------------------------------------------------ week dates: date.isocalendar is inverted by date.fromisocalendar *)
Lemma isocalendar_inverse y m d : valid_dateb y m d = true ->
  let '(iy, iw, iwd) := isocalendar y m d in
  y - 1 <= iy <= y + 1 /\ 1 <= iw <= iso_weeks_in_year iy /\ 1 <= iwd <= 7 /\ fromisocalendar_ord iy iw iwd = ymd2ord y m d.
Proof.
  intros V. pose proof (yday_bounds y m d V) as B.
  pose proof (ymd2ord_jan1_next y) as N. pose proof (ymd2ord_jan1_prev y) as P.
  pose proof (diy_cases y) as D1. pose proof (diy_cases (y - 1)) as D0.
  pose proof (iso_weeks_52_53 (y + 1)) as W2.
  assert (T : ymd2ord y m d = ymd2ord y 1 1 + (days_before_month y m + d) - 1)
    by (rewrite ymd2ord_jan1'; unfold ymd2ord; lia).
  unfold isocalendar. cbv zeta.
  match goal with |- context [if ?c then _ else _] => destruct c eqn:C1 end;
    [| match goal with |- context [if ?c then _ else _] => destruct c eqn:C2 end];
  unfold fromisocalendar_ord, iso_weeks_in_year in *; replace (y - 1 + 1) with y in * by lia;
  unfold iso_week1_monday in *; rewrite ?N, ?P in *; rewrite T in *; clear T;
  generalize dependent (days_before_month y m + d); intros n B;
  generalize dependent (ymd2ord (y + 1 + 1) 1 1); intros j2;
  generalize dependent (ymd2ord y 1 1); intros j;
  generalize dependent (days_in_year y); intros dy;
  generalize dependent (days_in_year (y - 1)); intros dp; intros;
  revert W2; try revert C1; try revert C2; cbv zeta; split_ifs; intros; lia.
Qed.


(* week forms: extended (4) YYYY-Www-D and basic (5) YYYYWwwD of the ISO calendar triple of the date; the ISO year must be one
   that the pure-Python path supports (strptime's four-digit %Y on the year and its neighbours, see week_py_spec) *)
Theorem py_parse_iso_render_week form y m d : 4 <= form <= 5 -> valid_date y m d = true ->
  1001 <= fst (fst (isocalendar y m d)) <= 9998 ->
  py_parse_iso (render_date form y m d) = Ok (mkp 2 y m d 0 0 0 0 None).
Proof.
  intros Hf Vd Hiy.
  assert (Vb : valid_dateb y m d = true) by (unfold valid_date in Vd; apply andb_true_iff in Vd; tauto).
  pose proof (isocalendar_inverse y m d Vb) as I.
  pose proof (ord2ymd_ymd2ord y m d Vb) as O.
  unfold py_parse_iso, render_date.
  destruct (isocalendar y m d) as [[iy iw] iwd]. cbn [fst] in Hiy. destruct I as (_ & Bw & Bd & E).
  pose proof (iso_weeks_52_53 iy) as W.
  pose proof (py_week_spec iy iw iwd Hiy Bw Bd) as PW. rewrite E, O in PW.
  destruct (int_of_render4 iy ltac:(lia)) as [Iy _]. destruct (int_of_render2 iw ltac:(lia)) as [Iw _].
  assert (Id : int_of (render1 iwd) = iwd) by (unfold render1, int_of, dg; cbn [fold_left]; lia).
  unfold render4, render2, render1 in Iy, Iw, Id. cbn [app] in Iy.
  assert (F : form = 4 \/ form = 5) by lia.
  destruct F as [-> | ->]; cbn [Z.eqb Pos.eqb].
  - iso_groups [48; 48; 48; 48; 45; 87; 48; 48; 45; 48]. unfold py_datepart. iso_has.
    rewrite Iy, Iw, Id, PW. unfold mk_date. rewrite Vd. reflexivity.
  - iso_groups [48; 48; 48; 48; 87; 48; 48; 48]. unfold py_datepart. iso_has.
    rewrite Iy, Iw, Id, PW. unfold mk_date. rewrite Vd. reflexivity.
Qed.

(* in particular every date of the years 1002..9997 *)
Corollary py_parse_iso_render_week_years form y m d : 4 <= form <= 5 -> valid_date y m d = true -> 1002 <= y <= 9997 ->
  py_parse_iso (render_date form y m d) = Ok (mkp 2 y m d 0 0 0 0 None).
Proof.
  intros Hf Vd Hy. apply py_parse_iso_render_week; try assumption.
  assert (Vb : valid_dateb y m d = true) by (unfold valid_date in Vd; apply andb_true_iff in Vd; tauto).
  pose proof (isocalendar_inverse y m d Vb) as I. destruct (isocalendar y m d) as [[iy iw] iwd]. cbn [fst]. lia.
Qed.
