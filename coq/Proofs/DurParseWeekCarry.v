(* Proofs/DurParseWeekCarry.v — C13: the week-fraction carry of _parse_iso8601_duration.
   For x = int(portion) / 10 * 7 (portion below 10^15) CPython's float `x // 1`, `x % 1` and int() (Spec/TdFloat.py_float_divmod, py_float_mod,
   py_int_trunc: what the TRANSLATED code uses) agree with the hand model's trunc x and x - trunc x (Model/DurParse.f_trunc, fsub): the floor of
   a non-negative double is its truncation and x % 1 is exact.  Flocq bridge of Proofs/FloatRoundTrip*.v / FloatRoutesFlocq.v (real-number axioms). *)
From Coq Require Import ZArith Reals Lia Lra Bool List.
From Coq Require Import Floats.SpecFloat.
From Flocq Require Import Core.Core IEEE754.BinarySingleNaN.
From PV Require Import Lib.PyBase Spec.TdFloat Proofs.TdFloatFacts Proofs.FloatRoundTripBase Proofs.FloatRoundTrip Proofs.FloatRoundTripNear
                       Proofs.FloatRoundTripC09 Proofs.FloatRoundTripDiv Proofs.FloatRoutesFlocq.
From PV Require Model.DurParse.
Open Scope Z_scope.

Lemma bpow_47 : bpow radix2 47 = 140737488355328%R.  Proof. reflexivity. Qed.
Lemma bpow_50 : bpow radix2 50 = 1125899906842624%R.  Proof. reflexivity. Qed.
Lemma bpow_m6 : bpow radix2 (-6) = (/ 64)%R.  Proof. reflexivity. Qed.
Lemma bpow_m3 : bpow radix2 (-3) = (/ 8)%R.  Proof. reflexivity. Qed.

(* ------------------------------------------------------------------ x = p / 10 * 7 is a positive double below 2^50 *)
Lemma week_days_value : forall p, Zpos p < 10 ^ 15 ->
  is_finite_SF (sf_of_ratio (Zpos p) 10) = true /\
  exists mx ex, fmul (sf_of_ratio (Zpos p) 10) (sf_of_Z 7) = S754_finite false mx ex /\ bounded64 mx ex = true /\
                (F2R (Float radix2 (Zpos mx) ex) < bpow radix2 50)%R.
Proof.
  intros p Hp. change (10 ^ 15) with 1000000000000000 in Hp.
  set (q0 := (IZR (Zpos p) / IZR (Zpos 10))%R).
  assert (Hq0 : (/ 10 <= q0 < 100000000000000)%R).
  { unfold q0. assert (H1 : 1 <= Zpos p) by lia. apply IZR_le in H1. apply IZR_lt in Hp.
    change (IZR (Zpos 10)) with 10%R. lra. }
  assert (Hq47 : (Rabs q0 < bpow radix2 47)%R) by (rewrite bpow_47; apply Rabs_lt; lra).
  pose proof (RN_error q0 47 ltac:(lia) Hq47) as E1. simpl (47 - 53) in E1. rewrite bpow_m6 in E1. apply Rabs_le_inv in E1.
  pose proof (fdiv_ratio_correct false p 10) as D. cbv zeta in D. fold q0 in D.
  destruct D as (Vq & Rq & Fq & _). { rewrite bpow_60. apply Rabs_lt. lra. }
  change (fdiv (S754_finite false p 0) (S754_finite false 10 0)) with (sf_of_ratio (Zpos p) 10) in *.
  destruct (repr_sf_of_Z 7 ltac:(reflexivity)) as (V7 & F7 & R7).
  set (P := (RN q0 * 7)%R).
  assert (HP : (0.6 < P < 700000000000008)%R) by (unfold P; lra).
  assert (HP50 : (Rabs P < bpow radix2 50)%R) by (rewrite bpow_50; apply Rabs_lt; lra).
  pose proof (RN_error P 50 ltac:(lia) HP50) as E2. simpl (50 - 53) in E2. rewrite bpow_m3 in E2. apply Rabs_le_inv in E2.
  destruct (fmul_correct (sf_of_ratio (Zpos p) 10) (sf_of_Z 7) Vq V7 Fq F7) as (Vx & Rx & Fx).
  { rewrite Rq, R7. change (IZR 7) with 7%R. fold P. rewrite bpow_60. apply Rabs_lt. lra. }
  rewrite Rq, R7 in Rx. change (IZR 7) with 7%R in Rx. fold P in Rx.
  assert (Rep : repr (fmul (sf_of_ratio (Zpos p) 10) (sf_of_Z 7)) (RN P)) by (split; [exact Vx|split; [exact Fx|exact Rx]]).
  destruct (repr_pos _ (RN P) Rep ltac:(lra)) as (mx & ex & E & B & Rv).
  split; [exact Fq|]. exists mx, ex. split; [exact E|]. split; [exact B|]. rewrite Rv, bpow_50. lra.
Qed.

(* ------------------------------------------------------------------ the hand model's truncation in the vocabulary of Spec/TdFloat *)
Lemma f_truncZ_mag : forall s m e, DurParse.f_truncZ (S754_finite s m e) = cond_neg s (sf_trunc_mag m e).
Proof.
  intros s m e. unfold DurParse.f_truncZ, sf_trunc_mag, cond_neg.
  destruct (e <? 0) eqn:A; destruct (0 <=? e) eqn:B; try reflexivity;
    (apply Z.ltb_lt in A || apply Z.ltb_ge in A); (apply Z.leb_le in B || apply Z.leb_gt in B); lia.
Qed.

Lemma int_trunc_finite : forall y, is_finite_SF y = true -> py_int_trunc y = Ok (DurParse.f_truncZ y).
Proof. intros [s|s| |s m e] H; try discriminate; [reflexivity|]. unfold py_int_trunc. rewrite f_truncZ_mag. reflexivity. Qed.

Lemma trunc_of_repr : forall y q, 0 <= q -> repr y (IZR q) -> py_int_trunc y = Ok q /\ DurParse.f_truncZ y = q.
Proof.
  intros y q Hq Hy. destruct (Z.eq_dec q 0) as [->|Nz].
  - destruct (repr_zero_inv _ Hy) as (s & ->). split; reflexivity.
  - destruct (repr_pos _ _ Hy ltac:(apply IZR_lt; lia)) as (m & e & -> & B & Rv).
    rewrite int_trunc_finite by reflexivity. rewrite f_truncZ_mag. simpl cond_neg.
    rewrite sf_trunc_mag_floor, Rv, Zfloor_IZR. split; reflexivity.
Qed.

Lemma generic_of_repr : forall y r, repr y r -> generic_format radix2 fexp64 r.
Proof.
  intros y r Hy. destruct (Req_dec r 0) as [->|Nz]; [apply generic_format_0|].
  destruct (repr_nonzero _ _ Hy Nz) as (s & m & e & -> & B & Rv & _). rewrite <- Rv.
  destruct (bounded64_inv _ _ B) as [Hm He].
  rewrite <- F2R_cond_Zopp. apply generic_small_mantissa; lia.
Qed.

Lemma fmul_zero_24 : forall s, fmul (S754_zero s) (sf_of_Z 24) = S754_zero s.
Proof. intros [|]; reflexivity. Qed.

(* ------------------------------------------------------------------ the carry *)
Lemma week_carry_core : forall mx ex, bounded64 mx ex = true -> (F2R (Float radix2 (Zpos mx) ex) < bpow radix2 50)%R ->
  let x := S754_finite false mx ex in
  exists fl md r4 qq,
    py_float_divmod x (sf_of_Z 1) = Ok (fl, md) /\ py_int_trunc fl = Ok qq /\ py_float_mod x (sf_of_Z 1) = Ok r4 /\
    DurParse.f_truncZ (DurParse.f_trunc x) = qq /\
    py_int_trunc (fmul r4 (sf_of_Z 24)) = Ok (DurParse.f_truncZ (fmul (fsub x (DurParse.f_trunc x)) (sf_of_Z 24))).
Proof.
  intros mx ex Hb Hv x.
  destruct (divmod_exact mx ex 1 Hb ltac:(lia) Hv) as (fl & md & q & E & Hq & Hr & Rfl & Rmd & Smd).
  set (v := F2R (Float radix2 (Z.pos mx) ex)) in *. change (IZR 1) with 1%R in Hr.
  assert (Pv : (0 < v)%R) by (apply F2R_gt_0; reflexivity).
  rewrite bpow_50 in Hv.
  assert (Hq53 : Z.abs q < 2 ^ 53).
  { assert (q < 1125899906842624); [|change (2 ^ 53) with 9007199254740992; lia].
    apply lt_IZR. lra. }
  destruct (trunc_of_repr fl q Hq Rfl) as [Tfl _].
  pose proof (repr_finite false mx ex Hb) as Rx. simpl cond_Ropp in Rx. fold v in Rx. fold x in Rx.
  (* the hand model's trunc x is a double of value q *)
  assert (Fl : Zfloor v = q) by (apply Zfloor_imp; rewrite plus_IZR; simpl (IZR 1); lra).
  assert (TZ : DurParse.f_truncZ x = q).
  { unfold x. rewrite f_truncZ_mag. simpl cond_neg. rewrite sf_trunc_mag_floor. exact Fl. }
  assert (RT : repr (DurParse.f_trunc x) (IZR q)).
  { unfold DurParse.f_trunc. unfold x at 1. destruct (ex <? 0) eqn:A.
    - fold x. rewrite TZ. apply (repr_sf_of_Z q Hq53).
    - apply Z.ltb_ge in A. fold x.
      assert (Ev : v = IZR (Z.pos mx * 2 ^ ex)) by (unfold v; apply F2R_nonneg_exp; exact A).
      assert (q = Z.pos mx * 2 ^ ex).
      { rewrite Ev in Hr. assert (q - 1 < Z.pos mx * 2 ^ ex < q + 1); [|lia].
        apply Z_of_R_sandwich; rewrite ?minus_IZR, ?plus_IZR; simpl (IZR 1); lra. }
      rewrite H, <- Ev. exact Rx. }
  destruct (trunc_of_repr _ q Hq RT) as [_ TT].
  (* x % 1 *)
  assert (B1 : bounded64 4503599627370496 (-52) = true) by reflexivity.
  pose proof (sf_fmod_correct mx ex false 4503599627370496 (-52) Hb B1) as K. cbv zeta in K. fold v in K.
  assert (W1 : F2R (Float radix2 (Z.pos 4503599627370496) (-52)) = 1%R) by (unfold F2R; simpl; lra).
  rewrite W1 in K. destruct K as (q' & Hq' & Hr' & Rmd0 & Smd0). { rewrite bpow_60. lra. }
  assert (q' = q). { assert (q - 1 < q' < q + 1); [|lia]. apply Z_of_R_sandwich; rewrite ?minus_IZR, ?plus_IZR; simpl (IZR 1); lra. }
  subst q'.
  set (md0 := sf_fmod (S754_finite false mx ex) (S754_finite false 4503599627370496 (-52))) in *.
  assert (PM : py_float_mod x (sf_of_Z 1) = Ok md0).
  { rewrite sf_of_Z_1. unfold py_float_mod. simpl sf_is_zero. cbv iota zeta. unfold x. fold md0.
    destruct Smd0 as [-> | (m' & e' & ->)]; reflexivity. }
  set (r := (v - 1 * IZR q)%R) in *.
  (* x - trunc x, exactly *)
  destruct Rx as (Vx & Fx & Rxv). destruct RT as (VT & FT & RTv).
  assert (Gr : RN r = r) by (apply round_generic; [typeclasses eauto | exact (generic_of_repr _ _ Rmd0)]).
  destruct (fsub_correct x (DurParse.f_trunc x) Vx VT Fx FT) as (Vs & Rs & Fs).
  { rewrite Rxv, RTv. replace (v - IZR q)%R with r by (unfold r; ring). rewrite Gr, bpow_60. apply Rabs_lt. lra. }
  rewrite Rxv, RTv in Rs. replace (v - IZR q)%R with r in Rs by (unfold r; ring). rewrite Gr in Rs.
  assert (Rsub : repr (fsub x (DurParse.f_trunc x)) r) by (split; [exact Vs | split; [exact Fs | exact Rs]]).
  exists fl, md, md0, q. split; [exact E|]. split; [exact Tfl|]. split; [exact PM|]. split; [exact TT|].
  destruct (Req_dec r 0) as [R0|Nz].
  - rewrite R0 in *. destruct (repr_zero_inv _ Rmd0) as (s1 & ->). destruct (repr_zero_inv _ Rsub) as (s2 & ->).
    rewrite !fmul_zero_24. reflexivity.
  - rewrite <- (repr_unique _ _ r Rmd0 Rsub Nz).
    apply int_trunc_finite.
    destruct Rmd0 as (Vm & Fm & Rm). destruct (repr_sf_of_Z 24 ltac:(reflexivity)) as (V24 & F24 & R24).
    destruct (fmul_correct md0 (sf_of_Z 24) Vm V24 Fm F24) as (_ & _ & Ff); [|exact Ff].
    rewrite Rm, R24. change (IZR 24) with 24%R.
    assert (HP : (Rabs (r * 24) < bpow radix2 5)%R) by (change (bpow radix2 5) with 32%R; apply Rabs_lt; lra).
    pose proof (RN_error (r * 24) 5 ltac:(lia) HP) as E2. apply Rabs_le_inv in E2.
    assert (bpow radix2 (5 - 53) <= 1)%R by (apply (bpow_le radix2 _ 0); lia).
    rewrite bpow_60. apply Rabs_lt. lra.
Qed.

(* ------------------------------------------------------------------ the week stage of the translated parser = the hand model's *)
From PV Require Import Gen.Constants Model.DurParsePrims.

Theorem week_stage : forall (portion : list Z) (W : Z), DurParse.dval portion < 10 ^ 15 ->
  bind (py_int_truediv_c (DurParse.dval portion) 10) (fun t1 =>
  bind (TdFloat.py_float_divmod (DurParse.fmul t1 (DurParse.f_of_Z 7)) (DurParse.f_of_Z 1)) (fun t2 =>
  bind (TdFloat.py_int_trunc (fst t2)) (fun t3 =>
  bind (TdFloat.py_float_mod (DurParse.fmul t1 (DurParse.f_of_Z 7)) (DurParse.f_of_Z 1)) (fun t4 =>
  bind (TdFloat.py_int_trunc (DurParse.fmul t4 (DurParse.f_of_Z C_HOURS_PER_DAY))) (fun t5 =>
  Ok (W, t3, t5))))))
  = bind (DurParse.py_frac10 portion 7) (fun _days =>
      if negb (DurParse.f_is_finite _days) then Raise E_ValueError else
      Ok (W, DurParse.f_truncZ (DurParse.f_trunc _days),
          DurParse.f_truncZ (DurParse.fmul (DurParse.fsub _days (DurParse.f_trunc _days)) (DurParse.f_of_Z C_HOURS_PER_DAY)))).
Proof.
  intros portion W Hn. unfold DurParse.py_frac10, py_int_truediv_c. cbv zeta.
  change DurParse.fmul with fmul. change DurParse.fsub with fsub. change DurParse.f_of_Z with sf_of_Z. change C_HOURS_PER_DAY with 24.
  destruct (DurParse.dval portion) as [|p|p] eqn:En.
  - vm_compute. reflexivity.
  - destruct (week_days_value p Hn) as (Fq & mx & ex & Ex & B & Hv).
    change (DurParse.int_truediv (Z.pos p) 10) with (sf_of_ratio (Z.pos p) 10).
    destruct (sf_of_ratio (Z.pos p) 10) as [s0|s0| |s0 m0 e0] eqn:Eq; try discriminate; cbn [bind]; rewrite Ex;
      (destruct (week_carry_core mx ex B Hv) as (fl & md & r4 & qq & E1 & E2 & E3 & E4 & E5);
       cbv zeta in E1, E2, E3, E4, E5; rewrite E1; cbn [bind fst]; rewrite E2; cbn [bind]; rewrite E3; cbn [bind]; rewrite E5; cbn [bind];
       cbn [DurParse.f_is_finite negb]; rewrite E4; reflexivity).
  - reflexivity.
Qed.

Print Assumptions week_stage.
