(* Proofs/FloatRoundTripC05.v — the float premises of Proofs/C05Facts.v that are consequences of the round-trip theorems:

     float_roundtrip_exact_below_2_33   (= td_roundtrip_exact, Proofs/FloatRoundTrip.v)
     float_roundtrip_within_64          (|N| <= SPAN_MAX = 3652061 days; the proof gives 31, Proofs/FloatRoundTripWide.v)

     float_div_trunc_exact unit         (1 <= unit <= 2^20, in particular 60 and 3600; Proofs/FloatRoundTripDiv.v)

   and ALL the *_partial lemmas of C05Facts.v, restated without premise (suffix _proved). *)
From Coq Require Import ZArith Reals Lia Lra Bool.
From Coq Require Import Floats.SpecFloat.
From Flocq Require Import Core.Core.
From PV Require Import Lib.PyBase Spec.TdFloat Proofs.TdFloatFacts Proofs.C09Facts Proofs.C05Facts
                       Proofs.FloatRoundTripBase Proofs.FloatRoundTrip Proofs.FloatRoundTripWide Proofs.FloatRoundTripC09
                       Proofs.FloatRoundTripDiv.
Open Scope Z_scope.

Theorem float_roundtrip_exact_below_2_33_proved : float_roundtrip_exact_below_2_33.
Proof. intros N HN. apply td_roundtrip_exact. exact HN. Qed.

Theorem float_roundtrip_within_64_proved : float_roundtrip_within_64.
Proof.
  intros N HN. unfold SPAN_MAX in HN.
  destruct (td_us_roundtrip_near 39 31 ltac:(lia) ltac:(lia)) with (N := N) as (M & HM & EM).
  - simpl (39 - 53). rewrite bpow_m14, bpow_m33. simpl (IZR (31 + 1)). lra.
  - rewrite bpow_39. assert (H : Z.abs N < 315538070400000001) by lia. apply IZR_lt in H. lra.
  - exists M. split; [|lia]. unfold td_of_float_seconds. rewrite HM. cbn [bind].
    assert (R : td_in_range M = true) by (unfold td_in_range, US_PER_DAY, TD_MAX_DAYS; lia).
    now rewrite R.
Qed.

Definition length_exact_proved := length_exact_partial float_roundtrip_exact_below_2_33_proved.
Definition length_exact_abs_proved := length_exact_abs_partial float_roundtrip_exact_below_2_33_proved.
Definition length_exact_naive_date_proved := length_exact_naive_date_partial float_roundtrip_exact_below_2_33_proved.
Definition swap_negates_length_proved := swap_negates_length_partial float_roundtrip_exact_below_2_33_proved.
Definition sub_native_exact_proved := sub_native_exact_partial float_roundtrip_exact_below_2_33_proved.
Definition length_64_proved := length_64_partial float_roundtrip_within_64_proved.

Theorem float_div_trunc_exact_proved : forall unit, 1 <= unit <= 2 ^ 20 -> float_div_trunc_exact unit.
Proof. intros unit Hu N HN. apply div_trunc_exact; [exact Hu | exact HN]. Qed.

Definition float_div_trunc_exact_60_proved : float_div_trunc_exact 60 := float_div_trunc_exact_proved 60 ltac:(lia).
Definition float_div_trunc_exact_3600_proved : float_div_trunc_exact 3600 := float_div_trunc_exact_proved 3600 ltac:(lia).

Definition in_units_trunc_proved :=
  in_units_trunc_partial float_roundtrip_exact_below_2_33_proved float_split_exact_on_D9_proved
                         float_div_trunc_exact_60_proved float_div_trunc_exact_3600_proved.

Check length_exact_proved.
Check length_64_proved.
Check in_units_trunc_proved.
Print Assumptions float_roundtrip_exact_below_2_33_proved.
Print Assumptions float_roundtrip_within_64_proved.
Print Assumptions float_div_trunc_exact_proved.
Print Assumptions in_units_trunc_proved.
