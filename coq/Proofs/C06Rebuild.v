(* Proofs/C06Rebuild.v — C06: adding the components reported by precise_diff back to the start gives exactly the end.
   Any result that satisfies the arithmetic specification pd_spec (Proofs/C06Spec.v: the translated Python helper, and the hand
   model of the Rust helper, both satisfy it) is rebuilt by the translated helpers.add_duration (Gen/PreciseDiff.v ::
   pd_add_duration): year/month step with end-of-month clamp, then the days and the time of day.  Every year 1..9999
   (the representable dates; add_duration raises outside), no enumeration: the month-length reasoning is symbolic
   (ymd2ord is linear in the day, one month step is dbm_step / days_before_year_succ). *)
From Coq Require Import ZArith List Bool Lia ZifyBool.
From PV Require Import Lib.Reflect Lib.PyBase Spec.Cal Proofs.CalFacts.
From PV Require Import Gen.Constants Gen.Helpers Gen.RustConstants Model.RustHelpers Model.PdBase Gen.PreciseDiff Model.RustPreciseDiff Model.PdInterval.
From PV Require Import Proofs.C06Facts Proofs.C06Spec Proofs.C06Dates.
Import ListNotations.
Ltac Zify.zify_post_hook ::= Z.to_euclidean_division_equations.
Open Scope Z_scope.

Definition in_ranges (r : pdiff) : Prop :=
  0 <= pd_years r /\ 0 <= pd_months r <= 11 /\ 0 <= pd_days r <= 30 /\ 0 <= pd_hours r <= 23 /\
  0 <= pd_minutes r <= 59 /\ 0 <= pd_seconds r <= 59 /\ 0 <= pd_microseconds r <= 999999.

(* from the specification and the order of the operands: all components are canonical *)
Lemma spec_ranges a b r : wf_op a -> wf_op b -> p_wall a < p_wall b -> pd_spec a b r -> in_ranges r.
Proof.
  intros Wa Wb Hlt S. destruct Wa as (Va & Ta & Oa). destruct Wb as (Vb & Tb & Ob).
  pose proof (wall_le_split a b Ta Tb ltac:(lia)) as Hsplit.
  assert (Hlex := fun H => ord_le_lex a b Va Vb H).
  pose proof (same_date_tod a b) as Hsame. specialize (fun e1 e2 e3 => Hsame e1 e2 e3 Hlt).
  apply valid_dateb_true in Va, Vb.
  pose proof (dim_bounds (p_year b) (p_month b)) as B1.
  pose proof (dim_bounds (prev_y (p_year b) (p_month b)) (prev_m (p_month b))) as B2.
  pose proof (dim_bounds (p_year a) (p_month a)) as B4.
  unfold pd_spec in S. unfold in_ranges.
  destruct (tod b <? tod a) eqn:Eb; lia.
Qed.

(* the end value carrying the tzinfo of the start (what `start + duration` returns); it is the end itself when both
   operands carry the same tzinfo *)
Definition p_retz (a b : pdt) : pdt :=
  mkpdt (p_year b) (p_month b) (p_day b) (p_hour b) (p_minute b) (p_second b) (p_microsecond b)
        (p_offset a) (p_has_tz a) (p_tzname a) (p_tzobj a) (p_is_dt a).

Lemma p_retz_same a b : p_offset a = p_offset b -> p_has_tz a = p_has_tz b -> p_tzname a = p_tzname b -> p_tzobj a = p_tzobj b ->
  p_is_dt a = p_is_dt b -> p_retz a b = b.
Proof. intros H1 H2 H3 H4 H5. unfold p_retz. rewrite H1, H2, H3, H4, H5. destruct b; reflexivity. Qed.

Definition rebuilds (a b : pdt) (r : pdiff) : Prop :=
  pd_add_duration a (pd_years r) (pd_months r) 0 (pd_days r) (pd_hours r) (pd_minutes r) (pd_seconds r) (pd_microseconds r) = Ok (p_retz a b).

(* ---------- calendar: one month back ---------- *)
Lemma ymd2ord_prev y m d : 1 <= m <= 12 ->
  ymd2ord y m d = ymd2ord (prev_y y m) (prev_m m) (dim (prev_y y m) (prev_m m) + d).
Proof.
  intros Hm. unfold prev_y, prev_m, ymd2ord, days_before_month, dim.
  destruct (m =? 1) eqn:E.
  - assert (m = 1) by lia. subst m. rewrite dbm_1.
    replace y with ((y - 1) + 1) at 1 by lia. rewrite days_before_year_succ. unfold days_in_year.
    pose proof (dbm_12 (is_leap (y - 1))). destruct (is_leap (y - 1)); lia.
  - replace m with ((m - 1) + 1) at 1 by lia. rewrite dbm_step by lia. lia.
Qed.

(* ---------- the wall fields of a well-formed value ---------- *)
Lemma fields_of_wall_of y m d hh mm ss us : valid_dateb y m d = true ->
  0 <= hh <= 23 -> 0 <= mm <= 59 -> 0 <= ss <= 59 -> 0 <= us <= 999999 ->
  fields_of_wall (wall_of y m d hh mm ss us) = (y, m, d, hh, mm, ss, us).
Proof.
  intros V Hh Hm Hs Hu. unfold fields_of_wall, wall_of.
  set (t := ((hh * 60 + mm) * 60 + ss) * 1000000 + us).
  assert (Ht : 0 <= t < us_per_day) by (unfold t, us_per_day; lia).
  replace ((ymd2ord y m d - 1) * us_per_day + ((hh * 60 + mm) * 60 + ss) * 1000000 + us) with (t + (ymd2ord y m d - 1) * us_per_day) by (unfold t; lia).
  assert (Hq : (t + (ymd2ord y m d - 1) * us_per_day) / us_per_day + 1 = ymd2ord y m d).
  { rewrite Z.div_add by (unfold us_per_day; lia). rewrite Z.div_small by lia. lia. }
  assert (Hr : (t + (ymd2ord y m d - 1) * us_per_day) mod us_per_day = t).
  { rewrite Z.mod_add by (unfold us_per_day; lia). apply Z.mod_small. lia. }
  cbv zeta. rewrite Hq, Hr. rewrite (ord2ymd_ymd2ord y m d V).
  assert (E1 : t mod 1000000 = us) by (unfold t; lia).
  assert (E2 : t / 1000000 = (hh * 60 + mm) * 60 + ss) by (unfold t; lia).
  rewrite E1, E2.
  assert (E3 : ((hh * 60 + mm) * 60 + ss) / 3600 = hh) by lia.
  assert (E4 : (((hh * 60 + mm) * 60 + ss) / 60) mod 60 = mm) by lia.
  assert (E5 : ((hh * 60 + mm) * 60 + ss) mod 60 = ss) by lia.
  rewrite E3, E4, E5. reflexivity.
Qed.

Lemma ymd2ord_bounds y m d : 1 <= y <= 9999 -> valid_dateb y m d = true -> 1 <= ymd2ord y m d <= 3652059.
Proof.
  intros Hy V. pose proof (yday_bounds y m d V) as Y.
  pose proof (days_before_year_mono 1 y ltac:(lia)) as M1. change (days_before_year 1) with 0 in M1.
  pose proof (days_before_year_mono (y + 1) 10000 ltac:(lia)) as M2. change (days_before_year 10000) with 3652059 in M2.
  rewrite days_before_year_succ in M2. unfold ymd2ord.
  revert Y M2. unfold days_in_year. cbv zeta. destruct (is_leap y); lia.
Qed.

Lemma p_wall_in_range d : 1 <= p_year d <= 9999 -> valid_dateb (p_year d) (p_month d) (p_day d) = true -> wf_time d ->
  wall_in_range (p_wall d) = true.
Proof.
  intros Hy V T. apply wall_in_range_iff. rewrite p_wall_split. pose proof (tod_range d T) as R.
  pose proof (ymd2ord_bounds _ _ _ Hy V) as B. unfold p_date_ord, us_per_day in *. lia.
Qed.

(* ---------- add_duration on canonical components ---------- *)
Lemma add_duration_canonical a Y M d h mi s us :
  1 <= p_month a <= 12 -> 0 <= M <= 11 -> 0 <= h <= 23 -> 0 <= mi <= 59 -> 0 <= s <= 59 -> 0 <= us <= 999999 ->
  negb (p_is_dt a) && (negb (h =? 0) || negb (mi =? 0) || negb (s =? 0) || negb (us =? 0)) = false ->
  pd_add_duration a Y M 0 d h mi s us =
    let mm := p_month a + M in
    let y' := if mm >? 12 then p_year a + Y + 1 else p_year a + Y in
    let m' := if mm >? 12 then mm - 12 else mm in
    match p_replace_ymd a y' m' (Z.min (dim y' m') (p_day a)) with
    | Raise e => Raise e
    | Ok x => p_add_td x d h mi s us
    end.
Proof.
  intros Hma HM Hh Hmi Hs Hus Hk. unfold pd_add_duration. rewrite Hk.
  replace (Z.abs us >? 999999) with false by lia. cbv beta iota zeta.
  replace (Z.abs s >? 59) with false by lia. cbv beta iota zeta.
  replace (Z.abs mi >? 59) with false by lia. cbv beta iota zeta.
  replace (Z.abs h >? 23) with false by lia. cbv beta iota zeta.
  replace (Z.abs M >? 11) with false by lia. cbv beta iota zeta.
  replace (d + 0 * 7) with d by lia.
  destruct (M =? 0) eqn:EM; cbn [negb]; cbv beta iota zeta.
  - assert (M = 0) by lia. subst M. rewrite Z.add_0_r. replace (p_month a >? 12) with false by lia.
    rewrite dpm_dim by lia. reflexivity.
  - destruct (p_month a + M >? 12) eqn:E12; cbv beta iota zeta.
    + rewrite dpm_dim by lia. reflexivity.
    + replace (p_month a + M <? 1) with false by lia. cbv beta iota zeta. rewrite dpm_dim by lia. reflexivity.
Qed.

Lemma replace_ymd_ok a y m d : 1 <= y <= 9999 -> valid_dateb y m d = true ->
  p_replace_ymd a y m d =
    Ok (mkpdt y m d (p_hour a) (p_minute a) (p_second a) (p_microsecond a) (p_offset a) (p_has_tz a) (p_tzname a) (p_tzobj a) (p_is_dt a)).
Proof.
  intros Hy V. unfold p_replace_ymd. rewrite V. replace (1 <=? y) with true by lia. replace (y <=? 9999) with true by lia. reflexivity.
Qed.

(* ---------- the calendrical core: where the year/month step lands, and how many days remain ---------- *)
Lemma spec_target a b r : wf_op a -> wf_op b -> p_wall a < p_wall b -> pd_spec a b r -> 0 <= pd_years r ->
  let mm := p_month a + pd_months r in
  let y' := if mm >? 12 then p_year a + pd_years r + 1 else p_year a + pd_years r in
  let m' := if mm >? 12 then mm - 12 else mm in
  let beta := if tod b <? tod a then 1 else 0 in
  1 <= m' <= 12 /\ p_year a <= y' <= p_year b /\
  ymd2ord y' m' (Z.min (dim y' m') (p_day a)) + pd_days r = ymd2ord (p_year b) (p_month b) (p_day b) - beta.
Proof.
  intros Wa Wb Hlt S HY. destruct Wa as (Va & Ta & Oa). destruct Wb as (Vb & Tb & Ob).
  pose proof (wall_le_split a b Ta Tb ltac:(lia)) as Hsplit.
  assert (Hlex := fun H => ord_le_lex a b Va Vb H).
  assert (Hle : p_date_ord a <= p_date_ord b) by (clear - Hsplit; lia). specialize (Hlex Hle).
  pose proof (same_date_tod a b) as Hsame. specialize (fun e1 e2 e3 => Hsame e1 e2 e3 Hlt).
  pose proof (tod_range a Ta) as Ra. pose proof (tod_range b Tb) as Rb.
  apply valid_dateb_true in Va, Vb.
  pose proof (ymd2ord_prev (p_year b) (p_month b) (p_day b) ltac:(lia)) as Hprev.
  pose proof (dim_bounds (p_year b) (p_month b)) as B1.
  pose proof (dim_bounds (prev_y (p_year b) (p_month b)) (prev_m (p_month b))) as B2.
  unfold pd_spec in S. cbv zeta in S. cbv zeta.
  set (beta := if tod b <? tod a then 1 else 0) in *.
  assert (Hbeta : 0 <= beta <= 1) by (unfold beta; destruct (tod b <? tod a); lia).
  set (dlm := dim (prev_y (p_year b) (p_month b)) (prev_m (p_month b))) in *.
  set (dimc := dim (p_year b) (p_month b)) in *.
  destruct S as (_ & _ & _ & _ & _ & HM & S).
  clear Hsplit Hle Ra Rb Ta Tb.
  assert (Hpy : 12 * prev_y (p_year b) (p_month b) + prev_m (p_month b) = 12 * p_year b + p_month b - 1 /\ 1 <= prev_m (p_month b) <= 12).
  { unfold prev_y, prev_m. destruct (p_month b =? 1) eqn:E; lia. }
  destruct S as [(HD & Hd & Hm) | [(HD & HD2 & Hda & Hd & Hm) | (HD & HD2 & Hd & Hm)]].
  - (* no day borrow: the step lands in the month of the end *)
    assert (T : (if p_month a + pd_months r >? 12 then p_year a + pd_years r + 1 else p_year a + pd_years r) = p_year b /\
                (if p_month a + pd_months r >? 12 then p_month a + pd_months r - 12 else p_month a + pd_months r) = p_month b).
    { destruct (p_month a + pd_months r >? 12) eqn:E; lia. }
    destruct T as [-> ->]. fold dimc.
    split; [lia|]. split; [lia|]. rewrite Hd. unfold ymd2ord. lia.
  - (* the clamped full month *)
    assert (T : (if p_month a + pd_months r >? 12 then p_year a + pd_years r + 1 else p_year a + pd_years r) = p_year b /\
                (if p_month a + pd_months r >? 12 then p_month a + pd_months r - 12 else p_month a + pd_months r) = p_month b).
    { destruct (p_month a + pd_months r >? 12) eqn:E; lia. }
    destruct T as [-> ->]. fold dimc.
    split; [lia|]. split; [lia|]. rewrite Hd. unfold ymd2ord. lia.
  - (* day borrow through the previous month *)
    assert (T : (if p_month a + pd_months r >? 12 then p_year a + pd_years r + 1 else p_year a + pd_years r) = prev_y (p_year b) (p_month b) /\
                (if p_month a + pd_months r >? 12 then p_month a + pd_months r - 12 else p_month a + pd_months r) = prev_m (p_month b)).
    { destruct (p_month a + pd_months r >? 12) eqn:E; lia. }
    destruct T as [-> ->]. fold dlm.
    split; [lia|]. split.
    { unfold prev_y. destruct (p_month b =? 1) eqn:E; lia. }
    rewrite Hprev. fold dlm. rewrite Hd. unfold ymd2ord. lia.
Qed.

(* ---------- the rebuild theorem for any result that satisfies the specification ---------- *)
(* both operands are datetimes, or both are plain dates (time fields zero) *)
Definition kind_ok (a b : pdt) : Prop := p_is_dt a = true \/ (p_is_dt a = false /\ midnight a /\ midnight b).

Lemma spec_rebuilds a b r : wf_op a -> wf_op b -> kind_ok a b -> 1 <= p_year a -> p_year b <= 9999 -> p_wall a < p_wall b ->
  pd_spec a b r -> rebuilds a b r.
Proof.
  intros Wa Wb K Hya Hyb Hlt S.
  pose proof (spec_ranges a b r Wa Wb Hlt S) as (RY & RM & RD & Rh & Rm & Rs & Ru).
  pose proof (spec_target a b r Wa Wb Hlt S RY) as T. cbv zeta in T.
  destruct Wa as (Va & Ta & Oa). destruct Wb as (Vb & Tb & Ob).
  assert (Hma : 1 <= p_month a <= 12) by (apply valid_dateb_true in Va; lia).
  unfold pd_spec in S. cbv zeta in S. destruct S as (_ & _ & _ & _ & Htime & _).
  assert (Hk : negb (p_is_dt a) && (negb (pd_hours r =? 0) || negb (pd_minutes r =? 0) || negb (pd_seconds r =? 0) || negb (pd_microseconds r =? 0)) = false).
  { destruct K as [-> | (-> & Ma & Mb)]; [reflexivity|].
    rewrite (midnight_tod a Ma), (midnight_tod b Mb) in Htime. change (0 <? 0) with false in Htime. cbv iota in Htime.
    assert (pd_hours r = 0 /\ pd_minutes r = 0 /\ pd_seconds r = 0 /\ pd_microseconds r = 0) as (-> & -> & -> & ->) by lia. reflexivity. }
  unfold rebuilds. rewrite add_duration_canonical; try assumption.
  cbv zeta.
  set (y' := if p_month a + pd_months r >? 12 then p_year a + pd_years r + 1 else p_year a + pd_years r) in *.
  set (m' := if p_month a + pd_months r >? 12 then p_month a + pd_months r - 12 else p_month a + pd_months r) in *.
  destruct T as (Hm' & Hy' & Hord).
  assert (Vd : valid_dateb y' m' (Z.min (dim y' m') (p_day a)) = true).
  { apply valid_dateb_true. pose proof (dim_bounds y' m'). apply valid_dateb_true in Va. lia. }
  rewrite replace_ymd_ok by (assumption || lia).
  set (x := mkpdt y' m' (Z.min (dim y' m') (p_day a)) (p_hour a) (p_minute a) (p_second a) (p_microsecond a)
                  (p_offset a) (p_has_tz a) (p_tzname a) (p_tzobj a) (p_is_dt a)).
  assert (Hwx : p_wall x = (ymd2ord y' m' (Z.min (dim y' m') (p_day a)) - 1) * us_per_day + tod a).
  { unfold x, p_wall, wall_of, tod. cbn [p_year p_month p_day p_hour p_minute p_second p_microsecond]. lia. }
  set (total := td_total_us (pd_days r) (pd_hours r) (pd_minutes r) (pd_seconds r) (pd_microseconds r)).
  assert (Htot : p_wall x + total = p_wall b).
  { rewrite Hwx. rewrite (p_wall_split b). unfold p_date_ord. unfold total, td_total_us.
    replace ((((pd_days r * 24 + pd_hours r) * 60 + pd_minutes r) * 60 + pd_seconds r) * 1000000 + pd_microseconds r)
      with (pd_days r * us_per_day + (((pd_hours r * 60 + pd_minutes r) * 60 + pd_seconds r) * 1000000 + pd_microseconds r)) by (unfold us_per_day; lia).
    rewrite Htime. destruct (tod b <? tod a); lia. }
  assert (Hrb : wall_in_range (p_wall b) = true).
  { apply p_wall_in_range; [|assumption|assumption].
    pose proof (wall_le_split a b Ta Tb ltac:(lia)) as Hsplit.
    assert (Hle : p_date_ord a <= p_date_ord b) by (clear - Hsplit; lia).
    pose proof (ord_le_lex a b Va Vb Hle). lia. }
  assert (Hq : 0 <= total / us_per_day <= 31) by (unfold total, td_total_us, us_per_day; lia).
  assert (Hw : (if p_is_dt x then p_wall x + total else p_wall x + total / us_per_day * us_per_day) = p_wall b).
  { change (p_is_dt x) with (p_is_dt a). destruct K as [-> | (-> & Ma & Mb)]; [exact Htot|].
    rewrite <- Htot. f_equal.
    rewrite (midnight_tod a Ma), (midnight_tod b Mb) in Htime. change (0 <? 0) with false in Htime. cbv iota in Htime.
    unfold total, td_total_us, us_per_day. lia. }
  unfold p_add_td. fold total.
  replace (total / us_per_day <? -999999999) with false by lia.
  replace (999999999 <? total / us_per_day) with false by lia.
  cbn [orb]. rewrite Hw, Hrb.
  f_equal. unfold p_of_wall, p_wall. destruct Tb as (T1 & T2 & T3 & T4).
  rewrite fields_of_wall_of by assumption. reflexivity.
Qed.

(* equal operands: the zero difference rebuilds the end *)
Lemma wall_eq_fields a b : wf_op a -> wf_op b -> p_wall a = p_wall b ->
  p_year a = p_year b /\ p_month a = p_month b /\ p_day a = p_day b /\ p_hour a = p_hour b /\ p_minute a = p_minute b /\
  p_second a = p_second b /\ p_microsecond a = p_microsecond b.
Proof.
  intros (Va & (A1 & A2 & A3 & A4) & _) (Vb & (B1 & B2 & B3 & B4) & _) E.
  pose proof (fields_of_wall_of _ _ _ _ _ _ _ Va A1 A2 A3 A4) as Fa.
  pose proof (fields_of_wall_of _ _ _ _ _ _ _ Vb B1 B2 B3 B4) as Fb.
  unfold p_wall in E. rewrite E in Fa. rewrite Fa in Fb. inversion Fb. repeat split; reflexivity.
Qed.

Lemma zero_rebuilds a b : wf_op a -> wf_op b -> 1 <= p_year a <= 9999 -> p_wall a = p_wall b -> rebuilds a b (mkPD 0 0 0 0 0 0 0 0).
Proof.
  intros Wa Wb Hy E. pose proof (wall_eq_fields a b Wa Wb E) as (E1 & E2 & E3 & E4 & E5 & E6 & E7).
  destruct Wa as (Va & Ta & Oa).
  assert (Hma : 1 <= p_month a <= 12 /\ 1 <= p_day a <= dim (p_year a) (p_month a)) by (apply valid_dateb_true in Va; lia).
  unfold rebuilds. cbn [pd_years pd_months pd_days pd_hours pd_minutes pd_seconds pd_microseconds].
  rewrite add_duration_canonical; try lia.
  cbv zeta. rewrite !Z.add_0_r. replace (p_month a >? 12) with false by lia.
  replace (Z.min (dim (p_year a) (p_month a)) (p_day a)) with (p_day a) by lia.
  rewrite replace_ymd_ok by (assumption || lia).
  set (x := mkpdt _ _ _ _ _ _ _ _ _ _ _ _).
  assert (Hx : p_wall x = p_wall a) by reflexivity.
  assert (Hr : wall_in_range (p_wall a) = true) by (apply p_wall_in_range; assumption).
  unfold p_add_td. change (td_total_us 0 0 0 0 0) with 0. change (0 / us_per_day) with 0.
  change (0 <? -999999999) with false. change (999999999 <? 0) with false. cbn [orb].
  change (0 * us_per_day) with 0. rewrite !Z.add_0_r. rewrite if_same. rewrite Hx, Hr.
  f_equal. unfold p_of_wall, p_wall. destruct Ta as (T1 & T2 & T3 & T4).
  rewrite fields_of_wall_of by assumption. unfold p_retz. rewrite <- E1, <- E2, <- E3, <- E4, <- E5, <- E6, <- E7. reflexivity.
Qed.
