(* Proofs/C14Native.v — C14: Intervals built from standard-library operands (Model/PickleNative.v). *)
From Coq Require Import ZArith List Bool String Lia.
From PV Require Import Lib.PyBase Spec.Cal Spec.Zone Spec.TdFloat Model.Duration Model.TzConvert Gen.Reduce Model.Pickle Model.PickleNative Proofs.C14Facts.
Import ListNotations.
Open Scope Z_scope.

Section Native.
  Variable zdb : Z -> zone.
  Variable utc : Z.

  (* `b - a`, `a.diff(b)` after DateTime.instance: the Interval of the converted operands *)
  Lemma native_pre_eq s e a s1 e1 :
    ep_instance zdb utc s = Ok s1 -> ep_instance zdb utc e = Ok e1 ->
    interval_new_native zdb utc true s e a = interval_new zdb s1 e1 a.
  Proof.
    intros Hs He. unfold interval_new_native, interval_new. rewrite Hs, He. cbn [bind].
    destruct (negb Interval_ctor_shape); reflexivity.
  Qed.

  (* Interval(<native>, <native>): when the conversion keeps the order and the elapsed time of the operands, the value is the Interval of the
     converted operands *)
  Lemma native_exact_eq s e a s1 e1 :
    ep_instance zdb utc s = Ok s1 -> ep_instance zdb utc e = Ok e1 ->
    ep_gt zdb (snd s) (snd e) = ep_gt zdb s1 e1 ->
    ep_elapsed zdb (snd s) (snd e) = ep_elapsed zdb s1 e1 -> ep_elapsed zdb (snd e) (snd s) = ep_elapsed zdb e1 s1 ->
    interval_new_native zdb utc false s e a = interval_new zdb s1 e1 a.
  Proof.
    intros Hs He Hg H1 H2. unfold interval_new_native, interval_new. rewrite Hs, He, Hg. cbn [bind].
    destruct (negb Interval_ctor_shape); [reflexivity|].
    destruct (ep_gt zdb s1 e1) as [gt|x]; cbn [bind]; [|reflexivity].
    destruct (a && gt); [rewrite H2 | rewrite H1];
      (match goal with |- context [td_of_float_seconds ?x] => destruct (td_of_float_seconds x) end); cbn [bind]; reflexivity.
  Qed.

  (* ... and then every copy route treats it like any Interval of pendulum endpoints *)
  Lemma native_exact_roundtrip s e a s1 e1 iv :
    ep_instance zdb utc s = Ok s1 -> ep_instance zdb utc e = Ok e1 ->
    ep_gt zdb (snd s) (snd e) = ep_gt zdb s1 e1 ->
    ep_elapsed zdb (snd s) (snd e) = ep_elapsed zdb s1 e1 -> ep_elapsed zdb (snd e) (snd s) = ep_elapsed zdb e1 s1 ->
    interval_new_native zdb utc false s e a = Ok iv ->
    iv_rebuild zdb RCopy iv = Ok iv /\ (ep_valid s1 -> ep_valid e1 -> iv_rebuild zdb RDeep iv = Ok iv)
    /\ (forall p, ep_valid s1 -> ep_valid e1 -> ep_fold0 s1 -> ep_fold0 e1 -> iv_rebuild zdb (RPickle p) iv = Ok iv).
  Proof.
    intros Hs He Hg H1 H2 H. rewrite (native_exact_eq _ _ _ _ _ Hs He Hg H1 H2) in H.
    split; [exact (iv_copy_id zdb _ _ _ _ H)|]. split.
    - intros. eapply iv_deep_id; eassumption.
    - intros. eapply iv_pickle_id_fold0; eassumption.
  Qed.

  Lemma native_pre_roundtrip s e a s1 e1 iv :
    ep_instance zdb utc s = Ok s1 -> ep_instance zdb utc e = Ok e1 -> interval_new_native zdb utc true s e a = Ok iv ->
    iv_rebuild zdb RCopy iv = Ok iv /\ (ep_valid s1 -> ep_valid e1 -> iv_rebuild zdb RDeep iv = Ok iv).
  Proof.
    intros Hs He H. rewrite (native_pre_eq _ _ _ _ _ Hs He) in H.
    split; [exact (iv_copy_id zdb _ _ _ _ H)|]. intros. eapply iv_deep_id; eassumption.
  Qed.
End Native.

(* ------------------------------------------------------------------ the hypotheses are satisfiable / the skipped operand *)
(* Europe/Paris 2013: the wall times 02:00 .. 03:00 of 2013-03-31 do not exist.  W_0230s = 2013-03-31T02:30:00 *)
Definition W_0230s : Z := 63500293800 * 1000000.
Definition zi_paris : tzv := TzForeign (StdZone 0).
Definition nat_ok_start : bool * ep := (true, EpDt (mkdt (W_0230s - 86400 * 1000000) false zi_paris)).      (* 2013-03-30T02:30 *)
Definition nat_ok_end : bool * ep := (true, EpDt (mkdt (W_0230s + 86400 * 1000000) false zi_paris)).        (* 2013-04-01T02:30 *)
Definition nat_skipped_start : bool * ep := (true, EpDt (mkdt W_0230s false zi_paris)).                      (* 2013-03-31T02:30: skipped *)

Definition ep_eqb (a b : ep) : bool :=
  match a, b with
  | EpDt x, EpDt y => (dt_W x =? dt_W y) && Bool.eqb (dt_fold x) (dt_fold y) && zlist_eqb (tz_obs (dt_tz x)) (tz_obs (dt_tz y))
  | EpDate x, EpDate y => x =? y
  | _, _ => false
  end.

(* an Interval of two existing native wall times across the spring-forward night: 47 h, and copy.copy is the identity *)
Lemma native_exact_example :
  exists iv, interval_new_native zdb_paris 1 false nat_ok_start nat_ok_end false = Ok iv /\ td_norm (iv_N iv) = (1, 82800, 0)
    /\ iv_rebuild zdb_paris RCopy iv = Ok iv.
Proof.
  assert (C : match interval_new_native zdb_paris 1 false nat_ok_start nat_ok_end false with
              | Ok a => triple_eqb (td_norm (iv_N a)) 1 82800 0 | _ => false end = true) by (vm_compute; reflexivity).
  destruct (interval_new_native zdb_paris 1 false nat_ok_start nat_ok_end false) as [iv|] eqn:E; [|discriminate].
  exists iv. split; [reflexivity|]. split; [apply triple_eqb_true; assumption|].
  assert (Hs : ep_instance zdb_paris 1 nat_ok_start = Ok (EpDt (mkdt (W_0230s - 86400 * 1000000) false (TzNamed 0)))) by (vm_compute; reflexivity).
  assert (He : ep_instance zdb_paris 1 nat_ok_end = Ok (EpDt (mkdt (W_0230s + 86400 * 1000000) false (TzNamed 0)))) by (vm_compute; reflexivity).
  refine (proj1 (native_exact_roundtrip zdb_paris 1 _ _ _ _ _ iv Hs He _ _ _ E)); vm_compute; reflexivity.
Qed.

(* finding interval-native-skipped-operand: [2013-03-31T02:30 (skipped) -> 2013-04-01T02:30] given as standard-library datetimes: the value is 23 h
   (02:30 read at +01:00), the endpoints are 01:30+01:00 -> 02:30+02:00 (24 h apart); copy.copy returns the same endpoints with 24 h *)
Definition native_skipped_check : bool :=
  match interval_new_native zdb_paris 1 false nat_skipped_start nat_ok_end false with
  | Ok iv => match iv_rebuild zdb_paris RCopy iv with
             | Ok iv' => negb (zlist_eqb (iv_obs zdb_paris iv') (iv_obs zdb_paris iv))
                         && ep_eqb (iv_start iv') (iv_start iv) && ep_eqb (iv_end iv') (iv_end iv)
                         && triple_eqb (td_norm (iv_N iv)) 0 82800 0 && triple_eqb (td_norm (iv_N iv')) 1 0 0
             | Raise _ => false
             end
  | Raise _ => false
  end.
Lemma native_skipped_check_true : native_skipped_check = true.
Proof. vm_compute. reflexivity. Qed.

Lemma native_skipped_witness :
  exists iv iv', interval_new_native zdb_paris 1 false nat_skipped_start nat_ok_end false = Ok iv /\ td_norm (iv_N iv) = (0, 82800, 0)
    /\ iv_rebuild zdb_paris RCopy iv = Ok iv' /\ td_norm (iv_N iv') = (1, 0, 0)
    /\ iv_obs zdb_paris iv' <> iv_obs zdb_paris iv.
Proof.
  pose proof native_skipped_check_true as H. unfold native_skipped_check in H.
  destruct (interval_new_native zdb_paris 1 false nat_skipped_start nat_ok_end false) as [iv|] eqn:E7; [|discriminate].
  destruct (iv_rebuild zdb_paris RCopy iv) as [iv'|] eqn:E8; [|discriminate].
  repeat (apply andb_true_iff in H; let X := fresh "B" in destruct H as [H X]).
  exists iv, iv'. split; [reflexivity|]. split; [apply triple_eqb_true; assumption|]. split; [exact E8|].
  split; [apply triple_eqb_true; assumption|]. apply zlist_neq. apply negb_true_iff. exact H.
Qed.
