(* Proofs/ZoneFacts.v — PEP 495 facts about Spec/Zone.v for every well-formed zone, every instant. *)
From Coq Require Import ZArith List Bool Lia ZifyBool.
From PV Require Import Spec.Zone.
Import ListNotations.
Ltac Zify.zify_post_hook ::= Z.to_euclidean_division_equations.
Open Scope Z_scope.

Lemma wf_tail init t o r : wf_l init ((t, o) :: r) = true -> wf_l o r = true.
Proof. cbn [wf_l]. intros H. apply andb_true_iff in H. tauto. Qed.

Lemma wf_head init t o t2 o2 r : wf_l init ((t, o) :: (t2, o2) :: r) = true -> t + Z.max init o < t2 + Z.min o o2.
Proof. cbn [wf_l]. intros H. apply andb_true_iff in H. destruct H as [H _]. lia. Qed.

(* (LO) from a transition on, the wall clock is at or beyond the post-transition wall time of that transition *)
Lemma wall_lower r : forall init t o u, wf_l init ((t, o) :: r) = true -> t <= u ->
  t + o <= u + off_utc_l o r u.
Proof.
  induction r as [|[t2 o2] r IH]; intros init t o u Hwf Hu; cbn [off_utc_l]; [lia|].
  destruct (u <? t2) eqn:E; [lia|].
  pose proof (wf_head _ _ _ _ _ _ Hwf). pose proof (IH o t2 o2 u (wf_tail _ _ _ _ Hwf) ltac:(lia)). lia.
Qed.

(* (UP) before a transition the wall clock is below the pre-transition wall time of that transition *)
Lemma wall_upper init t o r u : u < t -> u + off_utc_l init ((t, o) :: r) u < t + init.
Proof. intros H. cbn [off_utc_l]. destruct (u <? t) eqn:E; lia. Qed.

(* PEP 495 round trip: utcoffset(fromutc(u)) is the offset in force at u *)
Lemma render_inst_gen : forall tr init u acc,
  wf_l init tr = true ->
  (acc = true -> match tr with [] => True | (t, o) :: _ => u + init < t + Z.min init o end) ->
  off_local_l init tr (u + off_utc_l init tr u) (fold_utc_l init tr u acc) = off_utc_l init tr u.
Proof.
  induction tr as [|[t o] r IH]; intros init u acc Hwf Hacc; [reflexivity|].
  cbn [off_utc_l fold_utc_l].
  destruct (u <? t) eqn:E.
  - cbn [off_local_l]. unfold wallb. destruct acc.
    + specialize (Hacc eq_refl). destruct (u + init <? t + Z.min init o) eqn:E2; [reflexivity|lia].
    + destruct (u + init <? t + Z.max init o) eqn:E2; [reflexivity|lia].
  - assert (Ht : t <= u) by lia.
    pose proof (wall_lower r init t o u Hwf Ht) as HL.
    set (acc' := (u - t <? init - o)).
    assert (Hacc' : acc' = true -> match r with [] => True | (t2, o2) :: _ => u + o < t2 + Z.min o o2 end).
    { intros Ha. destruct r as [|[t2 o2] r']; [exact I|]. pose proof (wf_head _ _ _ _ _ _ Hwf). unfold acc' in Ha. lia. }
    specialize (IH o u acc' (wf_tail _ _ _ _ Hwf) Hacc').
    cbn [off_local_l].
    assert (Hskip : (u + off_utc_l o r u <? t + wallb (fold_utc_l o r u acc') init o) = false).
    { destruct r as [|[t2 o2] r'].
      - cbn [off_utc_l fold_utc_l]. unfold wallb, acc'. destruct (u - t <? init - o) eqn:E3; lia.
      - pose proof (wf_head _ _ _ _ _ _ Hwf) as Hh. cbn [off_utc_l fold_utc_l] in *. destruct (u <? t2) eqn:E2.
        + unfold wallb, acc'. destruct (u - t <? init - o) eqn:E3; lia.
        + pose proof (wall_lower r' o t2 o2 u (wf_tail _ _ _ _ Hwf) ltac:(lia)). unfold wallb.
          destruct (fold_utc_l o2 r' u (u - t2 <? o - o2)); lia. }
    rewrite Hskip. exact IH.
Qed.

Theorem render_inst_l init tr u : wf_l init tr = true ->
  off_local_l init tr (u + off_utc_l init tr u) (fold_utc_l init tr u false) = off_utc_l init tr u.
Proof. intros. apply render_inst_gen; [assumption|discriminate]. Qed.

(* the first wall threshold of the tail lies beyond the head's region *)
Lemma off_local_head_tail init t o r w f : wf_l init ((t, o) :: r) = true -> w < t + Z.max init o + 1 ->
  w <= t + Z.max init o -> off_local_l o r w f = o \/ w = t + Z.max init o.
Proof.
  intros Hwf _ Hw. destruct r as [|[t2 o2] r]; [left; reflexivity|].
  pose proof (wf_head _ _ _ _ _ _ Hwf). cbn [off_local_l]. unfold wallb.
  destruct f; [destruct (w <? t2 + Z.min o o2) eqn:E | destruct (w <? t2 + Z.max o o2) eqn:E]; try (left; reflexivity); lia.
Qed.

Lemma off_local_tail_small init t o r w f : wf_l init ((t, o) :: r) = true -> w < t + Z.max init o ->
  off_local_l o r w f = o.
Proof.
  intros Hwf Hw. destruct r as [|[t2 o2] r]; [reflexivity|].
  pose proof (wf_head _ _ _ _ _ _ Hwf). cbn [off_local_l]. unfold wallb.
  destruct f; [destruct (w <? t2 + Z.min o o2) eqn:E | destruct (w <? t2 + Z.max o o2) eqn:E]; try reflexivity; lia.
Qed.

Lemma off_utc_tail_small init t o r u : wf_l init ((t, o) :: r) = true -> u + o < t + Z.max init o + 0 \/ u + o <= t + Z.max init o ->
  off_utc_l o r u = o.
Proof.
  intros Hwf Hu. destruct r as [|[t2 o2] r]; [reflexivity|].
  pose proof (wf_head _ _ _ _ _ _ Hwf). cbn [off_utc_l]. destruct (u <? t2) eqn:E; [reflexivity|lia].
Qed.

(* M1: when the two folds do not indicate a gap, both candidate instants are genuine *)
Lemma local_sound : forall tr init w, wf_l init tr = true ->
  off_local_l init tr w true <= off_local_l init tr w false ->
  off_utc_l init tr (w - off_local_l init tr w false) = off_local_l init tr w false /\
  off_utc_l init tr (w - off_local_l init tr w true) = off_local_l init tr w true.
Proof.
  induction tr as [|[t o] r IH]; intros init w Hwf Hle; [split; reflexivity|].
  cbn [off_local_l] in *. unfold wallb in *.
  destruct (w <? t + Z.max init o) eqn:E0; destruct (w <? t + Z.min init o) eqn:E1; try lia.
  - (* before both thresholds *)
    cbn [off_utc_l]. destruct (w - init <? t) eqn:E; [split; reflexivity|lia].
  - (* between the thresholds *)
    rewrite (off_local_tail_small init t o r w true Hwf ltac:(lia)) in *.
    split.
    + cbn [off_utc_l]. destruct (w - init <? t) eqn:E; [reflexivity|lia].
    + cbn [off_utc_l]. destruct (w - o <? t) eqn:E; [lia|].
      apply (off_utc_tail_small init t o r (w - o) Hwf). lia.
  - (* beyond both thresholds *)
    destruct (IH o w (wf_tail _ _ _ _ Hwf) Hle) as [H0 H1].
    assert (G : forall c, off_utc_l o r (w - c) = c -> off_utc_l init ((t, o) :: r) (w - c) = c).
    { intros c Hc. cbn [off_utc_l]. destruct (w - c <? t) eqn:E; [|exact Hc].
      (* w - c < t: in the tail zone this instant is before every transition, so c = o, contradiction *)
      assert (off_utc_l o r (w - c) = o).
      { destruct r as [|[t2 o2] r']; [reflexivity|]. pose proof (wf_head _ _ _ _ _ _ Hwf). cbn [off_utc_l].
        destruct (w - c <? t2) eqn:E2; [reflexivity|lia]. }
      lia. }
    split; apply G; assumption.
Qed.

(* M2: a wall second whose fold-1 offset exceeds its fold-0 offset is rendered by no instant *)
Lemma local_gap : forall tr init w, wf_l init tr = true ->
  off_local_l init tr w false < off_local_l init tr w true ->
  forall u, u + off_utc_l init tr u <> w.
Proof.
  induction tr as [|[t o] r IH]; intros init w Hwf Hlt u; [cbn in Hlt; lia|].
  cbn [off_local_l] in Hlt. unfold wallb in Hlt.
  destruct (w <? t + Z.max init o) eqn:E0; destruct (w <? t + Z.min init o) eqn:E1; try lia.
  - rewrite (off_local_tail_small init t o r w true Hwf ltac:(lia)) in Hlt.
    cbn [off_utc_l]. destruct (u <? t) eqn:E; [lia|].
    pose proof (wall_lower r init t o u Hwf ltac:(lia)). lia.
  - cbn [off_utc_l]. destruct (u <? t) eqn:E; [lia|].
    apply (IH o w (wf_tail _ _ _ _ Hwf) Hlt).
Qed.

(* every instant that renders to w is one of the two candidates (soundness of utcoffset) *)
Lemma solutions_are_candidates init tr u : wf_l init tr = true ->
  off_utc_l init tr u = off_local_l init tr (u + off_utc_l init tr u) (fold_utc_l init tr u false).
Proof. intros H. symmetry. now apply render_inst_l. Qed.

(* ---------- skipped wall times moved by the gap length (needs the stronger separation wf2) ---------- *)
Definition above (h : option Z) (x : Z) : Prop := match h with None => True | Some v => v <= x end.

Lemma gap_shift : forall tr init h w, wf_l init tr = true -> wf2_l h init tr = true ->
  off_local_l init tr w false < off_local_l init tr w true ->
  let o0 := off_local_l init tr w false in
  let o1 := off_local_l init tr w true in
  above h (w - (o1 - o0)) /\
  (forall f, off_local_l init tr (w + (o1 - o0)) f = o1) /\
  (forall f, off_local_l init tr (w - (o1 - o0)) f = o0).
Proof.
  induction tr as [|[t o] r IH]; intros init h w Hwf Hwf2 Hlt; [cbn in Hlt; lia|].
  cbn [wf2_l] in Hwf2. apply andb_true_iff in Hwf2. destruct Hwf2 as [Hwf2 Hrec].
  apply andb_true_iff in Hwf2. destruct Hwf2 as [Hbefore Hafter].
  cbn [off_local_l] in *. unfold wallb in *.
  destruct (w <? t + Z.max init o) eqn:E0; destruct (w <? t + Z.min init o) eqn:E1; try lia.
  - (* w inside the head's gap *)
    rewrite (off_local_tail_small init t o r w true Hwf ltac:(lia)) in *.
    cbv zeta. split; [|split].
    + destruct h as [v|]; cbn [above] in *; lia.
    + intros f.
      assert (Hs : (w + (o - init) <? t + (if f then Z.min init o else Z.max init o)) = false) by (destruct f; lia).
      rewrite Hs. destruct r as [|[t2 o2] r']; [reflexivity|].
      cbn [off_local_l]. unfold wallb.
      assert (Hs2 : (w + (o - init) <? t2 + (if f then Z.min o o2 else Z.max o o2)) = true) by (destruct f; lia).
      now rewrite Hs2.
    + intros f.
      assert (Hs : (w - (o - init) <? t + (if f then Z.min init o else Z.max init o)) = true) by (destruct f; lia).
      now rewrite Hs.
  - (* beyond the head *)
    destruct (IH o (Some (t + Z.max init o)) w (wf_tail _ _ _ _ Hwf) Hrec Hlt) as [Hab [Hf Hb]].
    cbv zeta in *. cbn [above] in Hab.
    set (o0 := off_local_l o r w false) in *. set (o1 := off_local_l o r w true) in *.
    split; [|split].
    + destruct h as [v|]; cbn [above] in *; lia.
    + intros f.
      assert (Hs : (w + (o1 - o0) <? t + (if f then Z.min init o else Z.max init o)) = false) by (destruct f; lia).
      rewrite Hs. apply Hf.
    + intros f.
      assert (Hs : (w - (o1 - o0) <? t + (if f then Z.min init o else Z.max init o)) = false) by (destruct f; lia).
      rewrite Hs. apply Hb.
Qed.

(* ---------- zone-level statements ---------- *)
Theorem render_inst_sec z u : wf_zone z = true -> off_local z (u + off_utc z u) (fold_utc z u) = off_utc z u.
Proof. unfold wf_zone, off_local, off_utc, fold_utc. apply render_inst_l. Qed.

Theorem render_inst z U : wf_zone z = true -> let '(W, f) := render z U in inst z W f = U.
Proof.
  intros Hwf. unfold render, inst, MEG.
  replace ((U + 1000000 * off_utc z (U / 1000000)) / 1000000) with (U / 1000000 + off_utc z (U / 1000000)) by lia.
  rewrite render_inst_sec by assumption. lia.
Qed.

(* the three kinds of wall second *)
Definition wall_unique (z : zone) (w : Z) : Prop := off_local z w false = off_local z w true.
Definition wall_repeated (z : zone) (w : Z) : Prop := off_local z w false > off_local z w true.
Definition wall_skipped (z : zone) (w : Z) : Prop := off_local z w false < off_local z w true.
Definition renders_to (z : zone) (u w : Z) : Prop := u + off_utc z u = w.

Lemma renders_candidates z u w : wf_zone z = true -> renders_to z u w ->
  u = w - off_local z w false \/ u = w - off_local z w true.
Proof.
  intros Hwf H. unfold renders_to in H. pose proof (render_inst_sec z u Hwf) as R. rewrite H in R.
  destruct (fold_utc z u); [right|left]; lia.
Qed.

Theorem wall_trichotomy z w : wf_zone z = true ->
  (wall_unique z w /\ (forall u, renders_to z u w <-> u = w - off_local z w false)) \/
  (wall_repeated z w /\ (forall u, renders_to z u w <-> (u = w - off_local z w false \/ u = w - off_local z w true)) /\
     fold_utc z (w - off_local z w false) = false /\ fold_utc z (w - off_local z w true) = true) \/
  (wall_skipped z w /\ forall u, ~ renders_to z u w).
Proof.
  intros Hwf. unfold wall_unique, wall_repeated, wall_skipped.
  destruct (Z_lt_ge_dec (off_local z w false) (off_local z w true)) as [Hlt|Hge].
  - right; right. split; [assumption|]. intros u. apply (local_gap _ _ _ Hwf Hlt).
  - destruct (local_sound (z_trans z) (z_init z) w Hwf ltac:(unfold off_local in Hge; lia)) as [S0 S1].
    fold (off_local z w false) in S0. fold (off_local z w true) in S1.
    fold (off_utc z (w - off_local z w false)) in S0. fold (off_utc z (w - off_local z w true)) in S1.
    destruct (Z.eq_dec (off_local z w false) (off_local z w true)) as [Heq|Hne].
    + left. split; [assumption|]. intros u. split.
      * intros H. destruct (renders_candidates z u w Hwf H); lia.
      * intros ->. unfold renders_to. lia.
    + right; left. split; [lia|]. split; [|split].
      * intros u. split; [apply (renders_candidates z u w Hwf)|].
        intros [-> | ->]; unfold renders_to; lia.
      * pose proof (render_inst_sec z (w - off_local z w false) Hwf) as R. rewrite S0 in R.
        replace (w - off_local z w false + off_local z w false) with w in R by lia.
        destruct (fold_utc z (w - off_local z w false)); [lia|reflexivity].
      * pose proof (render_inst_sec z (w - off_local z w true) Hwf) as R. rewrite S1 in R.
        replace (w - off_local z w true + off_local z w true) with w in R by lia.
        destruct (fold_utc z (w - off_local z w true)); [reflexivity|lia].
Qed.

Theorem skipped_shift z w : wf2_zone z = true -> wall_skipped z w ->
  let g := off_local z w true - off_local z w false in
  (forall f, off_local z (w + g) f = off_local z w true) /\ (forall f, off_local z (w - g) f = off_local z w false).
Proof.
  unfold wf2_zone, wall_skipped, off_local. intros H Hs. apply andb_true_iff in H. destruct H as [H1 H2].
  destruct (gap_shift _ _ None w H1 H2 Hs) as [_ [A B]]. cbv zeta in *. split; assumption.
Qed.

(* an instant's rendering is never a skipped wall time; a unique/repeated wall time has the offsets computed by utcoffset *)
Theorem rendered_not_skipped z u : wf_zone z = true -> ~ wall_skipped z (u + off_utc z u).
Proof.
  intros Hwf Hs. destruct (wall_trichotomy z (u + off_utc z u) Hwf) as [[H _]|[[H _]|[_ H]]];
  unfold wall_unique, wall_repeated, wall_skipped in *; try lia.
  apply (H u). reflexivity.
Qed.

(* fixed offsets *)
Lemma fixed_zone_wf o : wf2_zone (fixed_zone o) = true. Proof. reflexivity. Qed.
Lemma fixed_zone_off o u : off_utc (fixed_zone o) u = o. Proof. reflexivity. Qed.
Lemma fixed_zone_local o w f : off_local (fixed_zone o) w f = o. Proof. reflexivity. Qed.

(* non-vacuity: a concrete zone with a gap and an overlap (Europe/Paris 2013, seconds since the epoch) *)
Example paris_2013 : let z := mkzone 3600 [(1364691600, 7200); (1382835600, 3600)] in
  wf2_zone z = true /\ wall_skipped z (1364691600 + 3600 + 1800) /\ wall_repeated z (1382835600 + 3600 + 1800).
Proof. vm_compute. repeat split; reflexivity. Qed.
