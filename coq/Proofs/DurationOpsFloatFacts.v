(* Proofs/DurationOpsFloatFacts.v — the hand model Model/DurationOps.v IS the code: every operator method of Gen/DurationOpsFloat.v (translated
   whole from /repo's src/pendulum/duration.py and interval.py on every run by tools/vlib/pyfloat2gallina.py) equals the hand-written entry of
   dur_method / unop / durlike_method, for all operands.  Hypotheses d_abs = false where the method calls total_seconds(): the C10 model is
   about operands of class exactly Duration / Interval (AbsoluteDuration overrides total_seconds()).
   Also: the mixed timedelta constructor of Spec/TdFloatMixed.v adds the integer days exactly (the parity argument of the hand model, proved);
   the translated _divide_and_round on integers is g50's py_divide_and_round plus the ZeroDivisionError.  No axioms. *)
From Coq Require Import ZArith List Bool Lia.
From Coq Require Import Floats.SpecFloat.
From PV Require Import Lib.PyBase Spec.TdFloat Spec.TdFloatMixed Gen.Constants Model.Duration Gen.DurationFloat Gen.DurationOps Model.DurationOps
                       Gen.DurationOpsFloat Proofs.DurationFloatFacts Proofs.C10Facts.
Import ListNotations.
Open Scope Z_scope.

(* ------------------------------------------------------------------ timedelta(days=<int>, seconds=<float>) *)
Lemma days_parity : forall y D, (y + D * US_PER_DAY) mod 2 = y mod 2.
Proof.
  intros. unfold US_PER_DAY. replace (D * 86400000000) with ((D * 43200000000) * 2) by ring. apply Z_mod_plus_full.
Qed.

(* the integer days add exactly to the microseconds of the float seconds: the tie-breaking parity is not disturbed *)
Theorem td_us_of_days_fsec_shift : forall D x,
  td_us_of_days_fsec D x = bind (td_us_of_float_seconds x) (fun n0 => Ok (n0 + D * US_PER_DAY)).
Proof.
  intros D x. destruct x as [s|s| |s m e]; try reflexivity.
  unfold td_us_of_days_fsec, td_us_of_float_seconds. cbv zeta.
  destruct (sf_is_zero (sf_frac (S754_finite s m e))); cbn [bind]; [reflexivity|].
    destruct (sf_frac (fmul f_1e6 (sf_frac (S754_finite s m e)))) as [s3|s3| |s3 m3 e3]; cbn [bind]; try (f_equal; ring).
    destruct (feq _ f_half); cbn [bind].
    + rewrite days_parity. f_equal. ring.
    + f_equal. ring.
Qed.

(* ------------------------------------------------------------------ Duration(seconds=<float>, years=, months=) *)
Theorem gen_duration_new_fsec_eq : forall x y mo, gen_duration_new_fsec x y mo = duration_new_fsec x y mo.
Proof.
  intros. unfold gen_duration_new_fsec, duration_new_fsec, td_of_days_fsec, float_pipeline, split_total, DAYS_PER_Y, DAYS_PER_M. cbv zeta.
  rewrite td_us_of_days_fsec_shift.
  destruct (td_us_of_float_seconds x) as [n0|e]; [|reflexivity]. cbn [bind].
  replace (0 + y * 365 + mo * 30) with (y * 365 + mo * 30) by ring.
  destruct (td_in_range (n0 + (y * 365 + mo * 30) * US_PER_DAY)); [|reflexivity]. cbn [bind].
  set (N := n0 + (y * 365 + mo * 30) * US_PER_DAY).
  destruct (py_float_of_int ((y * 365 + mo * 30) * C_SECONDS_PER_DAY)) as [fy|e]; [|reflexivity]. cbn [bind].
  set (total := fsub (total_seconds N) fy).
  change (sf_of_Z 0) with f_zero.
  rewrite (float_of_sign (flt total f_zero)). cbn [bind].
  destruct (py_float_mod total (sf_of_Z (if flt total f_zero then -1 else 1))) as [fr|e]; [|reflexivity]. cbn [bind].
  change (sf_of_Z 1000000) with f_1e6.
  destruct (py_round_half_even (fmul fr f_1e6)) as [micro|e]; [|reflexivity]. cbn [bind].
  destruct (py_int_trunc total) as [it|e]; [|reflexivity]. cbn [bind].
  reflexivity.
Qed.

Lemma duration_new_fsec_class : forall x y mo r, duration_new_fsec x y mo = Ok r -> d_abs r = false.
Proof.
  intros x y mo r H. unfold duration_new_fsec in H. cbv zeta in H.
  destruct (td_us_of_float_seconds x) as [n0|e]; [|discriminate]. cbn [bind] in H.
  destruct (td_in_range _); [|discriminate].
  destruct (float_pipeline _ _) as [[total [[m micro] it]]|e]; [|discriminate]. cbn [bind] in H. inversion H. reflexivity.
Qed.

(* ------------------------------------------------------------------ the integer helpers: the two translations agree *)
Lemma gen_to_microseconds_eq : forall d, gen_to_microseconds d = py_Duration_to_microseconds d.
Proof. reflexivity. Qed.
Lemma gen_td_us_duration_eq : forall d, gen_td_us_duration d = py_timedelta_to_microseconds_duration d.
Proof. reflexivity. Qed.
Lemma gen_td_us_plain_eq : forall n, gen_td_us_plain n = py_timedelta_to_microseconds_plain (plain_td n).
Proof. reflexivity. Qed.

(* _divide_and_round on integers: ZeroDivisionError for b = 0 (its divmod), else the function translated by g50 *)
Theorem gen_divide_and_round_int_eq : forall a b,
  gen_divide_and_round_int a b = if b =? 0 then Raise E_ZeroDivisionError else Ok (py_divide_and_round a b).
Proof.
  intros a b. unfold gen_divide_and_round_int, py_int_divmod. destruct (b =? 0); [reflexivity|]. cbn [bind].
  unfold py_divide_and_round. cbv zeta. rewrite !Z.gtb_ltb. reflexivity.
Qed.

Theorem gen_divide_and_round_float_eq : forall a y, gen_divide_and_round_float a y = divide_and_round_float a y.
Proof.
  intros a y. unfold gen_divide_and_round_float, divide_and_round_float.
  destruct (py_float_of_int a) as [fa|e]; [|reflexivity]. cbn [bind].
  destruct (py_float_divmod fa y) as [[q r]|e]; [|reflexivity]. cbn [bind].
  destruct (py_int_trunc q) as [qi|e]; [|reflexivity]. cbn [bind]. reflexivity.
Qed.

Lemma as_integer_ratio_den : forall x a b, py_as_integer_ratio x = Ok (a, b) -> (b =? 0) = false.
Proof.
  intros x a b H. apply Z.eqb_neq. destruct x as [s|s| |s m e]; try discriminate.
  - cbn in H. inversion H. lia.
  - apply as_integer_ratio_exact in H. lia.
Qed.

(* ------------------------------------------------------------------ the operator methods *)
Definition class_ok (o : value) : Prop := match o with VDur d | VIvl d => d_abs d = false | _ => True end.

Lemma total_seconds_of_duration : forall d, d_abs d = false -> gen_total_seconds d = total_seconds (d_N d).
Proof. intros d H. unfold gen_total_seconds. rewrite H. reflexivity. Qed.

Theorem gen_Duration_add_eq : forall d o, d_abs d = false -> class_ok o -> gen_Duration_add d o = dur_add d o.
Proof.
  intros d o Hd Ho. destruct o as [k|x|d2|n|d2]; cbn [gen_Duration_add class_ok] in *; try reflexivity;
    unfold gen_Duration_add_duration, gen_Duration_add_timedelta, dur_add, other_total_seconds, dur_of_fsec;
    rewrite ?total_seconds_of_duration by assumption; rewrite gen_duration_new_fsec_eq; reflexivity.
Qed.

Theorem gen_Duration_sub_eq : forall d o, d_abs d = false -> class_ok o -> gen_Duration_sub d o = dur_sub d o.
Proof.
  intros d o Hd Ho. destruct o as [k|x|d2|n|d2]; cbn [gen_Duration_sub class_ok] in *; try reflexivity;
    unfold gen_Duration_sub_duration, gen_Duration_sub_timedelta, dur_sub, other_total_seconds, dur_of_fsec;
    rewrite ?total_seconds_of_duration by assumption; rewrite gen_duration_new_fsec_eq; reflexivity.
Qed.

Theorem gen_Duration_mul_eq : forall d o, gen_Duration_mul d o = dur_mul d o.
Proof.
  intros d o. destruct o as [k|x|d2|n|d2]; cbn [gen_Duration_mul]; try reflexivity.
  - unfold gen_Duration_mul_int, dur_mul. destruct (py_float_of_int k) as [fk|e]; [|reflexivity]. cbn [bind].
    rewrite gen_duration_new_fsec_eq. reflexivity.
  - unfold gen_Duration_mul_float, dur_mul, dur_of_us. cbv zeta.
    destruct (py_as_integer_ratio x) as [[a b]|e] eqn:R; [|reflexivity]. cbn [bind].
    rewrite gen_divide_and_round_int_eq, (as_integer_ratio_den _ _ _ R). cbn [bind]. rewrite gen_duration_new_eq. reflexivity.
Qed.

Theorem gen_Duration_floordiv_eq : forall d o, gen_Duration_floordiv d o = dur_floordiv d o.
Proof.
  intros d o. destruct o as [k|x|d2|n|d2]; cbn [gen_Duration_floordiv]; try reflexivity.
  - unfold gen_Duration_floordiv_int, dur_floordiv, py_int_floordiv. cbv zeta. destruct (k =? 0); [reflexivity|]. cbn [bind].
    rewrite gen_duration_new_eq. reflexivity.
  - unfold gen_Duration_floordiv_duration, dur_floordiv, py_int_floordiv. cbv zeta. rewrite gen_td_us_duration_eq.
    destruct (_ =? 0); reflexivity.
  - unfold gen_Duration_floordiv_timedelta, dur_floordiv, py_int_floordiv. cbv zeta. rewrite gen_td_us_plain_eq.
    destruct (_ =? 0); reflexivity.
  - unfold gen_Duration_floordiv_duration, dur_floordiv, py_int_floordiv. cbv zeta. rewrite gen_td_us_duration_eq.
    destruct (_ =? 0); reflexivity.
Qed.

Theorem gen_Duration_truediv_eq : forall d o, gen_Duration_truediv d o = dur_truediv d o.
Proof.
  intros d o. destruct o as [k|x|d2|n|d2]; cbn [gen_Duration_truediv]; try reflexivity.
  - unfold gen_Duration_truediv_int, dur_truediv. cbv zeta. rewrite !gen_divide_and_round_int_eq.
    destruct (k =? 0); [reflexivity|]. cbn [bind]. rewrite gen_duration_new_eq. reflexivity.
  - unfold gen_Duration_truediv_float, dur_truediv. cbv zeta.
    destruct (py_as_integer_ratio x) as [[a b]|e]; [|reflexivity]. cbn [bind].
    rewrite !gen_divide_and_round_int_eq. destruct (a =? 0); [reflexivity|]. cbn [bind].
    rewrite gen_divide_and_round_float_eq. destruct (divide_and_round_float (d_months d) x) as [mo|e]; [|reflexivity]. cbn [bind].
    rewrite gen_duration_new_eq. reflexivity.
Qed.

Theorem gen_Duration_mod_eq : forall d o, gen_Duration_mod d o = dur_mod d o.
Proof.
  intros d o. destruct o as [k|x|d2|n|d2]; cbn [gen_Duration_mod]; try reflexivity.
  - unfold gen_Duration_mod_duration, dur_mod, dur_of_us, py_int_mod. cbv zeta. rewrite gen_td_us_duration_eq.
    destruct (_ =? 0); [reflexivity|]. cbn [bind]. rewrite gen_duration_new_eq. reflexivity.
  - unfold gen_Duration_mod_timedelta, dur_mod, dur_of_us, py_int_mod. cbv zeta. rewrite gen_td_us_plain_eq.
    destruct (_ =? 0); [reflexivity|]. cbn [bind]. rewrite gen_duration_new_eq. reflexivity.
  - unfold gen_Duration_mod_duration, dur_mod, dur_of_us, py_int_mod. cbv zeta. rewrite gen_td_us_duration_eq.
    destruct (_ =? 0); [reflexivity|]. cbn [bind]. rewrite gen_duration_new_eq. reflexivity.
Qed.

Theorem gen_Duration_divmod_eq : forall d o, gen_Duration_divmod d o = dur_divmod d o.
Proof.
  intros d o. destruct o as [k|x|d2|n|d2]; cbn [gen_Duration_divmod]; try reflexivity.
  - unfold gen_Duration_divmod_duration, dur_divmod, dur_of_us, py_int_divmod. cbv zeta. rewrite gen_td_us_duration_eq.
    destruct (_ =? 0); [reflexivity|]. cbn [bind]. rewrite gen_duration_new_eq. reflexivity.
  - unfold gen_Duration_divmod_timedelta, dur_divmod, dur_of_us, py_int_divmod. cbv zeta. rewrite gen_td_us_plain_eq.
    destruct (_ =? 0); [reflexivity|]. cbn [bind]. rewrite gen_duration_new_eq. reflexivity.
  - unfold gen_Duration_divmod_duration, dur_divmod, dur_of_us, py_int_divmod. cbv zeta. rewrite gen_td_us_duration_eq.
    destruct (_ =? 0); [reflexivity|]. cbn [bind]. rewrite gen_duration_new_eq. reflexivity.
Qed.

Theorem gen_Duration_neg_eq : forall d, gen_Duration_neg d = unop 3 (VDur d).
Proof. intros d. unfold gen_Duration_neg, unop, dur_neg. rewrite gen_duration_new_eq. reflexivity. Qed.

(* ------------------------------------------------------------------ Interval: as_duration(), then the Duration operator *)
Theorem gen_Interval_as_duration_eq : forall i, d_abs i = false -> gen_Interval_as_duration i = as_duration i.
Proof.
  intros i H. unfold gen_Interval_as_duration, as_duration, dur_of_fsec. rewrite (total_seconds_of_duration i H), gen_duration_new_fsec_eq.
  apply bind_ok.
Qed.

Lemma interval_delegation (g : dur -> value -> result opres) (m : Z) (i : dur) (o : value) :
  d_abs i = false -> delegated m = true ->
  (forall d, d_abs d = false -> g d o = dur_method m d o) ->
  bind (gen_Interval_as_duration i) (fun t1 => bind (g t1 o) (fun t2 => Ok t2)) = durlike_method m true i o.
Proof.
  intros Hi Hm Hg. unfold durlike_method. rewrite Hm, (gen_Interval_as_duration_eq i Hi).
  unfold as_duration, dur_of_fsec. destruct (duration_new_fsec (total_seconds (d_N i)) 0 0) as [d'|e] eqn:E; [|reflexivity]. cbn [bind].
  rewrite bind_ok. apply Hg. exact (duration_new_fsec_class _ _ _ _ E).
Qed.

Theorem gen_Interval_ops_eq : forall i o, d_abs i = false -> class_ok o ->
  gen_Interval_add i o = durlike_method 1 true i o /\ gen_Interval_sub i o = durlike_method 2 true i o /\
  gen_Interval_mul i o = durlike_method 4 true i o /\ gen_Interval_floordiv i o = durlike_method 5 true i o /\
  gen_Interval_truediv i o = durlike_method 6 true i o /\ gen_Interval_mod i o = durlike_method 7 true i o /\
  gen_Interval_divmod i o = durlike_method 8 true i o.
Proof.
  intros i o Hi Ho. repeat split.
  - apply (interval_delegation gen_Duration_add 1 i o Hi eq_refl). intros d Hd. apply gen_Duration_add_eq; assumption.
  - apply (interval_delegation gen_Duration_sub 2 i o Hi eq_refl). intros d Hd. apply gen_Duration_sub_eq; assumption.
  - apply (interval_delegation gen_Duration_mul 4 i o Hi eq_refl). intros d Hd. apply gen_Duration_mul_eq.
  - apply (interval_delegation gen_Duration_floordiv 5 i o Hi eq_refl). intros d Hd. apply gen_Duration_floordiv_eq.
  - apply (interval_delegation gen_Duration_truediv 6 i o Hi eq_refl). intros d Hd. apply gen_Duration_truediv_eq.
  - apply (interval_delegation gen_Duration_mod 7 i o Hi eq_refl). intros d Hd. apply gen_Duration_mod_eq.
  - apply (interval_delegation gen_Duration_divmod 8 i o Hi eq_refl). intros d Hd. apply gen_Duration_divmod_eq.
Qed.

(* ------------------------------------------------------------------ in the vocabulary of dur_method / binop *)
Theorem gen_is_dur_method : forall d o, d_abs d = false -> class_ok o ->
  gen_Duration_add d o = dur_method 1 d o /\ gen_Duration_sub d o = dur_method 2 d o /\ gen_Duration_mul d o = dur_method 4 d o /\
  gen_Duration_floordiv d o = dur_method 5 d o /\ gen_Duration_truediv d o = dur_method 6 d o /\
  gen_Duration_mod d o = dur_method 7 d o /\ gen_Duration_divmod d o = dur_method 8 d o.
Proof.
  intros d o Hd Ho. repeat split; cbn [dur_method];
    auto using gen_Duration_add_eq, gen_Duration_sub_eq, gen_Duration_mul_eq, gen_Duration_floordiv_eq, gen_Duration_truediv_eq,
               gen_Duration_mod_eq, gen_Duration_divmod_eq.
Qed.

Print Assumptions td_us_of_days_fsec_shift.
Print Assumptions gen_duration_new_fsec_eq.
Print Assumptions gen_is_dur_method.
Print Assumptions gen_Interval_ops_eq.
Print Assumptions gen_Duration_neg_eq.

Lemma duration_new_class : forall d s us ms mi h w y mo r, duration_new d s us ms mi h w y mo = Ok r -> d_abs r = false.
Proof.
  intros d s us ms mi h w y mo r H. unfold duration_new in H. cbv zeta in H.
  destruct (td_of_int_args _ _ _ _ _ _ _) as [N|e]; [|discriminate]. cbn [bind] in H.
  destruct (float_pipeline _ _) as [[total [[m micro] it]]|e]; [|discriminate]. cbn [bind] in H. inversion H. reflexivity.
Qed.
