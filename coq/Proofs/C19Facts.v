(* Proofs/C19Facts.v — the translated Interval.range (Gen/IntervalRange.v) as a loop: invariant (k-th value computed from the start),
   exact prefix characterisation, containment, end-reachability, __iter__, __contains__.  Every interval, unit, step; no bounds. *)
From Coq Require Import ZArith List Bool Lia ZifyBool.
From PV Require Import Lib.PyBase Spec.Cal Spec.Zone Spec.NativeDT Model.TzConvert Model.IntervalRange Gen.IntervalRange.
Import ListNotations.
Ltac Zify.zify_post_hook ::= Z.to_euclidean_division_equations.
Open Scope Z_scope.

(* the method and the comparison range() selects *)
Definition range_down (iv : interval) : bool := negb (iv_absolute iv) && iv_invert iv.
Definition range_meth (iv : interval) : meth := if range_down iv then M_subtract else M_add.
Definition range_op (iv : interval) : cmpop := if range_down iv then OP_ge else OP_le.

(* not beyond the end, in the direction of the iteration: Python's <= / >= on the values *)
Definition within (iv : interval) (x : dtv) : bool := apply_op (range_op iv) x (iv_end iv).

(* the sequence the property speaks about: value #0 is the start itself, value #k is start.add(unit = k*n) (subtract when going down),
   ALWAYS computed from the start *)
Definition seq_at (iv : interval) (u n : Z) (k : nat) : result dtv :=
  match k with
  | O => Ok (iv_start iv)
  | S _ => call_method (iv_start iv) (range_meth iv) u (Z.of_nat k * n)
  end.

Lemma py_range_unfold fuel iv u n :
  py_range fuel iv u n = py_range_loop1 fuel (range_op iv) (iv_end iv) n (range_meth iv) iv u (iv_start iv) n.
Proof.
  unfold py_range, range_op, range_meth, range_down.
  destruct (negb (iv_absolute iv) && iv_invert iv); reflexivity.
Qed.

(* the exceptions range() takes to mean "the next value is outside the supported range of dates, hence beyond the end":
   `except (OverflowError, ValueError)`, which covers the subclasses of ValueError too *)
Definition limit_exn (e : exn) : bool :=
  match e with E_OverflowError | E_ValueError | E_ParserError | E_NonExistingTime | E_AmbiguousTime => true | _ => false end.

Section Loop.
Variable iv : interval.
Variables u n : Z.

(* the run from value #k on, as a specification-level function *)
Fixpoint run_from (fuel : nat) (k : nat) (cur : dtv) : gen_out :=
  match fuel with
  | O => ([], GFuel)
  | S f =>
    if within iv cur then
      gcons cur (match seq_at iv u n (S k) with
                 | Raise e => if limit_exn e then ([], GDone) else ([], GRaise e)
                 | Ok nx => run_from f (S k) nx
                 end)
    else ([], GDone)
  end.

Lemma loop_is_run fuel : forall k cur,
  py_range_loop1 fuel (range_op iv) (iv_end iv) n (range_meth iv) iv u cur ((Z.of_nat k + 1) * n) = run_from fuel k cur.
Proof.
  induction fuel as [|f IH]; intros k cur; [reflexivity|].
  cbn [py_range_loop1 run_from]. unfold within.
  destruct (apply_op (range_op iv) cur (iv_end iv)); [|reflexivity].
  f_equal. unfold seq_at.
  replace (Z.of_nat (S k) * n) with ((Z.of_nat k + 1) * n) by lia.
  destruct (call_method (iv_start iv) (range_meth iv) u ((Z.of_nat k + 1) * n)) as [nx|e]; [|destruct e; reflexivity].
  replace ((Z.of_nat k + 1) * n + n) with ((Z.of_nat (S k) + 1) * n) by lia.
  apply IH.
Qed.

Lemma py_range_run fuel : py_range fuel iv u n = run_from fuel 0 (iv_start iv).
Proof. rewrite py_range_unfold. rewrite <- (loop_is_run fuel 0 (iv_start iv)). f_equal. lia. Qed.

(* invariant: every yielded value is the element of seq_at with its index, and is within *)
Lemma run_nth fuel : forall k cur, seq_at iv u n k = Ok cur ->
  forall j x, nth_error (fst (run_from fuel k cur)) j = Some x -> seq_at iv u n (k + j) = Ok x /\ within iv x = true.
Proof.
  induction fuel as [|f IH]; intros k cur Hk j x H; [destruct j; discriminate|].
  cbn [run_from] in H. destruct (within iv cur) eqn:Ew; [|destruct j; discriminate].
  destruct j as [|j].
  - cbn in H. injection H as <-. rewrite Nat.add_0_r. split; assumption.
  - cbn [gcons fst nth_error] in H.
    destruct (seq_at iv u n (S k)) as [nx|e] eqn:En; [|destruct (limit_exn e); destruct j; discriminate].
    replace (k + S j)%nat with (S k + j)%nat by lia. exact (IH (S k) nx En j x H).
Qed.

(* how a run ends *)
Lemma run_end fuel : forall k cur, seq_at iv u n k = Ok cur ->
  let '(l, st) := run_from fuel k cur in
  match st with
  | GDone => (exists y, seq_at iv u n (k + length l) = Ok y /\ within iv y = false) \/
             (exists e, seq_at iv u n (k + length l) = Raise e /\ limit_exn e = true /\ (1 <= length l)%nat)
  | GRaise e => seq_at iv u n (k + length l) = Raise e /\ limit_exn e = false /\ (1 <= length l)%nat
  | GFuel => length l = fuel
  end.
Proof.
  induction fuel as [|f IH]; intros k cur Hk; [reflexivity|].
  cbn [run_from]. destruct (within iv cur) eqn:Ew.
  - destruct (seq_at iv u n (S k)) as [nx|e] eqn:En.
    + specialize (IH (S k) nx En). destruct (run_from f (S k) nx) as [l st]. cbn [gcons fst snd length].
      replace (k + S (length l))%nat with (S k + length l)%nat by lia.
      destruct st; [| |lia].
      * destruct IH as [IH|[e [A [B C]]]]; [left; exact IH|right; exists e; repeat split; [exact A|exact B|lia]].
      * destruct IH as [A [B C]]. repeat split; [exact A|exact B|lia].
    + destruct (limit_exn e) eqn:El; cbn [gcons fst snd length]; replace (k + 1)%nat with (S k) by lia.
      * right. exists e. repeat split; [exact En|exact El|lia].
      * repeat split; [exact En|exact El|lia].
  - cbn [length]. rewrite Nat.add_0_r. left. exists cur. split; assumption.
Qed.

(* every index below the length is yielded *)
Lemma run_length fuel : forall k cur j, (j < length (fst (run_from fuel k cur)))%nat ->
  exists x, nth_error (fst (run_from fuel k cur)) j = Some x.
Proof.
  intros k cur j H. destruct (nth_error (fst (run_from fuel k cur)) j) eqn:E; [eauto|].
  apply nth_error_None in E. lia.
Qed.

(* more fuel never changes a finished run *)
Lemma run_fuel_mono fuel : forall k cur, snd (run_from fuel k cur) <> GFuel ->
  forall fuel', (fuel <= fuel')%nat -> run_from fuel' k cur = run_from fuel k cur.
Proof.
  induction fuel as [|f IH]; intros k cur H fuel' Hle; [cbn in H; congruence|].
  destruct fuel' as [|f']; [lia|]. cbn [run_from] in *.
  destruct (within iv cur); [|reflexivity].
  destruct (seq_at iv u n (S k)) as [nx|e]; [|reflexivity].
  cbn [gcons snd] in H. rewrite (IH (S k) nx H f' ltac:(lia)). reflexivity.
Qed.
End Loop.

(* ---------------------------------------------------------------- statements about py_range itself *)
Lemma range_kth_l fuel iv u n k x :
  nth_error (fst (py_range fuel iv u n)) k = Some x -> seq_at iv u n k = Ok x.
Proof. rewrite py_range_run. intros H. exact (proj1 (run_nth iv u n fuel 0 (iv_start iv) eq_refl k x H)). Qed.

Lemma range_within_l fuel iv u n k x :
  nth_error (fst (py_range fuel iv u n)) k = Some x -> within iv x = true.
Proof. rewrite py_range_run. intros H. exact (proj2 (run_nth iv u n fuel 0 (iv_start iv) eq_refl k x H)). Qed.

Lemma range_prefix_l fuel iv u n l :
  py_range fuel iv u n = (l, GDone) ->
  (forall j, (j < length l)%nat -> exists x, nth_error l j = Some x /\ seq_at iv u n j = Ok x /\ within iv x = true) /\
  ((exists y, seq_at iv u n (length l) = Ok y /\ within iv y = false) \/
   (exists e, seq_at iv u n (length l) = Raise e /\ limit_exn e = true /\ (1 <= length l)%nat)).
Proof.
  intros H. split.
  - intros j Hj. pose proof H as H'. rewrite py_range_run in H'.
    destruct (run_length iv u n fuel 0 (iv_start iv) j ltac:(rewrite H'; exact Hj)) as [x Hx].
    rewrite H' in Hx. cbn [fst] in Hx. exists x. split; [exact Hx|].
    assert (Hx' : nth_error (fst (py_range fuel iv u n)) j = Some x) by (rewrite H; exact Hx).
    split; [exact (range_kth_l _ _ _ _ _ _ Hx')|exact (range_within_l _ _ _ _ _ _ Hx')].
  - rewrite py_range_run in H. pose proof (run_end iv u n fuel 0 (iv_start iv) eq_refl) as E.
    rewrite H in E. exact E.
Qed.

Lemma range_raise_l fuel iv u n l e :
  py_range fuel iv u n = (l, GRaise e) -> seq_at iv u n (length l) = Raise e /\ limit_exn e = false /\ (1 <= length l)%nat.
Proof.
  intros H. rewrite py_range_run in H. pose proof (run_end iv u n fuel 0 (iv_start iv) eq_refl) as E.
  rewrite H in E. exact E.
Qed.

(* the iteration never ends with OverflowError / ValueError: a next value outside the supported range of dates ends it normally *)
Lemma range_no_limit_exn_l fuel iv u n e : snd (py_range fuel iv u n) = GRaise e -> limit_exn e = false.
Proof.
  intros H. destruct (py_range fuel iv u n) as [l st] eqn:E. cbn [snd] in H. subst st.
  exact (proj1 (proj2 (range_raise_l _ _ _ _ _ _ E))).
Qed.

Lemma range_fuel_l fuel iv u n l : py_range fuel iv u n = (l, GFuel) -> length l = fuel.
Proof.
  intros H. rewrite py_range_run in H. pose proof (run_end iv u n fuel 0 (iv_start iv) eq_refl) as E.
  rewrite H in E. exact E.
Qed.

Lemma range_fuel_mono_l fuel fuel' iv u n : snd (py_range fuel iv u n) <> GFuel -> (fuel <= fuel')%nat ->
  py_range fuel' iv u n = py_range fuel iv u n.
Proof. rewrite !py_range_run. intros H Hle. exact (run_fuel_mono iv u n fuel 0 (iv_start iv) H fuel' Hle). Qed.

(* the start is always the first value of a non-empty run, and the run is non-empty iff the start is not beyond the end *)
Lemma range_first_l fuel iv u n : within iv (iv_start iv) = true ->
  nth_error (fst (py_range (S fuel) iv u n)) 0 = Some (iv_start iv).
Proof. intros H. rewrite py_range_run. cbn [run_from]. rewrite H. reflexivity. Qed.

Lemma range_empty_l fuel iv u n : within iv (iv_start iv) = false -> py_range (S fuel) iv u n = ([], GDone).
Proof. intros H. rewrite py_range_run. cbn [run_from]. rewrite H. reflexivity. Qed.

(* ---------------------------------------------------------------- the end is yielded iff it is reachable *)
(* `reachable`: some element of the sequence, all of whose predecessors are within, IS the end (same wall/fold/zone record).
   Stated on indices: if seq_at k = Ok (iv_end iv) and all seq_at j (j <= k) are Ok and within, then the k-th yielded value is the end. *)
Lemma run_reach iv u n fuel : forall k cur, seq_at iv u n k = Ok cur ->
  forall j, (j < fuel)%nat ->
  (forall i, (i <= j)%nat -> exists y, seq_at iv u n (k + i) = Ok y /\ within iv y = true) ->
  exists x, nth_error (fst (run_from iv u n fuel k cur)) j = Some x /\ seq_at iv u n (k + j) = Ok x.
Proof.
  induction fuel as [|f IH]; intros k cur Hk j Hj Hall; [lia|].
  cbn [run_from].
  destruct (Hall 0%nat ltac:(lia)) as [y0 [Hy0 Hw0]]. rewrite Nat.add_0_r, Hk in Hy0. injection Hy0 as <-.
  rewrite Hw0. destruct j as [|j].
  - exists cur. rewrite Nat.add_0_r. split; [reflexivity|exact Hk].
  - destruct (Hall 1%nat ltac:(lia)) as [y1 [Hy1 _]]. replace (k + 1)%nat with (S k) in Hy1 by lia. rewrite Hy1.
    cbn [gcons fst nth_error].
    destruct (IH (S k) y1 Hy1 j ltac:(lia)) as [x [Hx Hs]].
    + intros i Hi. destruct (Hall (S i) ltac:(lia)) as [y [A B]]. exists y. replace (S k + i)%nat with (k + S i)%nat by lia. split; assumption.
    + exists x. replace (k + S j)%nat with (S k + j)%nat by lia. split; assumption.
Qed.

Lemma end_yielded_if_reachable_l iv u n fuel k :
  (k < fuel)%nat -> seq_at iv u n k = Ok (iv_end iv) ->
  (forall i, (i <= k)%nat -> exists y, seq_at iv u n i = Ok y /\ within iv y = true) ->
  nth_error (fst (py_range fuel iv u n)) k = Some (iv_end iv).
Proof.
  intros Hk He Hall. rewrite py_range_run.
  destruct (run_reach iv u n fuel 0 (iv_start iv) eq_refl k Hk Hall) as [x [Hx Hs]].
  cbn [Nat.add] in Hs. rewrite He in Hs. injection Hs as <-. exact Hx.
Qed.

Lemma end_yielded_only_if_reachable_l iv u n fuel :
  In (iv_end iv) (fst (py_range fuel iv u n)) ->
  exists k, seq_at iv u n k = Ok (iv_end iv) /\
            forall i, (i <= k)%nat -> exists y, seq_at iv u n i = Ok y /\ within iv y = true.
Proof.
  intros H. apply In_nth_error in H. destruct H as [k Hk]. exists k. split; [exact (range_kth_l _ _ _ _ _ _ Hk)|].
  intros i Hi.
  assert (Hlen : (i < length (fst (py_range fuel iv u n)))%nat).
  { assert (k < length (fst (py_range fuel iv u n)))%nat by (apply nth_error_Some; congruence). lia. }
  destruct (nth_error (fst (py_range fuel iv u n)) i) as [y|] eqn:E; [|apply nth_error_None in E; lia].
  exists y. split; [exact (range_kth_l _ _ _ _ _ _ E)|exact (range_within_l _ _ _ _ _ _ E)].
Qed.

(* ---------------------------------------------------------------- __iter__ and __contains__ *)
Lemma iter_is_range_days fuel iv : py_iter fuel iv = py_range fuel iv U_days 1.
Proof. reflexivity. Qed.

(* `x in interval`: the two ends are taken in ascending order (an inverted, non-absolute interval stores start > end), then lo <= x <= hi
   with Python's <= on the values *)
Lemma contains_spec_l iv x : py_contains iv x =
  if range_down iv then dt_le (iv_end iv) x && dt_le x (iv_start iv) else dt_le (iv_start iv) x && dt_le x (iv_end iv).
Proof. unfold py_contains, range_down. destruct (negb (iv_absolute iv) && iv_invert iv); reflexivity. Qed.

(* ---------------------------------------------------------------- Interval.__init__ *)
Lemma mk_interval_forward s e ab : dt_gt s e = false ->
  mk_interval s e ab = mkiv s e ab false.
Proof. unfold mk_interval. intros ->. reflexivity. Qed.

Lemma mk_interval_absolute s e : dt_gt s e = true -> mk_interval s e true = mkiv e s true true.
Proof. unfold mk_interval. intros ->. reflexivity. Qed.

Lemma mk_interval_inverted s e : dt_gt s e = true -> mk_interval s e false = mkiv s e false true.
Proof. unfold mk_interval. intros ->. reflexivity. Qed.

Lemma range_down_mk s e ab : range_down (mk_interval s e ab) = negb ab && dt_gt s e.
Proof. unfold mk_interval, range_down. destruct (dt_gt s e), ab; reflexivity. Qed.

(* on a constructed interval: min(start, end) <= x <= max(start, end), whichever way round the ends were given and absolute or not *)
Definition lo_end (s e : dtv) : dtv := if dt_gt s e then e else s.
Definition hi_end (s e : dtv) : dtv := if dt_gt s e then s else e.
Lemma contains_min_max_l s e ab x : py_contains (mk_interval s e ab) x = dt_le (lo_end s e) x && dt_le x (hi_end s e).
Proof.
  rewrite contains_spec_l, range_down_mk. unfold mk_interval, lo_end, hi_end.
  destruct (dt_gt s e), ab; reflexivity.
Qed.
