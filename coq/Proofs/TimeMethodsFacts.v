(* Proofs/TimeMethodsFacts.v — C20: the hand model Model/TimeOfDay.v IS the code: every method body of Gen/TimeMethods.v (translated whole from
   /repo's src/pendulum/time.py on every run by tools/vlib/pyfloat2gallina.py + gens/g56_time_methods.py) equals its hand-written counterpart,
   for all arguments.  The call chain DateTime.EPOCH.at(..).add(..).time() is the model's primitive dt_add_time in both.  No axioms. *)
From Coq Require Import ZArith List Bool Lia.
From PV Require Import Lib.PyBase Spec.Cal Gen.Constants Model.TimeBase Gen.TimeArith Model.TimeOfDay Gen.TimeMethods.
Open Scope Z_scope.

Lemma bind_ok_t {A} (r : result A) : bind r (fun x => Ok x) = r.
Proof. destruct r; reflexivity. Qed.

Lemma mkT_eta : forall t, mkT (t_hour t) (t_minute t) (t_second t) (t_microsecond t) = t.
Proof. intros [h m s u]. reflexivity. Qed.

Theorem gen_Time_add_eq : forall t h m s us, gen_Time_add t h m s us = time_add t h m s us.
Proof. intros. unfold gen_Time_add, time_add. rewrite mkT_eta. apply bind_ok_t. Qed.

Theorem gen_Time_subtract_eq : forall t h m s us, gen_Time_subtract t h m s us = time_subtract t h m s us.
Proof. intros. unfold gen_Time_subtract, time_subtract. rewrite mkT_eta. apply bind_ok_t. Qed.

Theorem gen_Time_add_timedelta_eq : forall t d, gen_Time_add_timedelta t d = time_add_timedelta t d.
Proof.
  intros. unfold gen_Time_add_timedelta, time_add_timedelta, py_Time_add_timedelta_args.
  destruct (negb (td_days d =? 0)); [reflexivity|]. cbn [bind]. rewrite bind_ok_t. apply gen_Time_add_eq.
Qed.

Theorem gen_Time_subtract_timedelta_eq : forall t d, gen_Time_subtract_timedelta t d = time_subtract_timedelta t d.
Proof.
  intros. unfold gen_Time_subtract_timedelta, time_subtract_timedelta, py_Time_subtract_timedelta_args.
  destruct (negb (td_days d =? 0)); [reflexivity|]. cbn [bind]. rewrite bind_ok_t. apply gen_Time_subtract_eq.
Qed.

(* diff(dt, abs): what the returned Duration reports *)
Theorem gen_Time_diff_eq : forall t dt abs, gen_Time_diff t dt abs = time_diff_total t dt abs.
Proof. intros t dt [|]; reflexivity. Qed.

(* the operators, per class of the other operand *)
Theorem gen_Time_operators_eq : forall t,
  (forall d, gen_Time___add___timedelta t d = time_add_timedelta t d) /\
  (forall d, gen_Time___sub___timedelta t d = time_subtract_timedelta t d) /\
  (forall o, gen_Time___sub___time t o = time_op_sub t o) /\
  (forall o, gen_Time___rsub___time t o = time_op_rsub t o) /\
  (forall o, gen_Time___sub___atime t o = Raise E_TypeError /\ gen_Time___rsub___atime t o = Raise E_TypeError) /\
  (forall x, gen_Time___add___foreign t x = Raise E_NotImplemented /\ gen_Time___sub___foreign t x = Raise E_NotImplemented
             /\ gen_Time___rsub___foreign t x = Raise E_NotImplemented).
Proof.
  intros t. repeat split.
  - intros d. unfold gen_Time___add___timedelta. rewrite bind_ok_t. apply gen_Time_add_timedelta_eq.
  - intros d. unfold gen_Time___sub___timedelta. rewrite bind_ok_t. apply gen_Time_subtract_timedelta_eq.
Qed.

Print Assumptions gen_Time_add_eq.
Print Assumptions gen_Time_add_timedelta_eq.
Print Assumptions gen_Time_diff_eq.
Print Assumptions gen_Time_operators_eq.
