(* Proofs/C14Facts.v — C14: what pickle / copy / deepcopy rebuild, proved over Model/Pickle.v (which interprets the argument
   lists generated into Gen/Reduce.v from the class bodies of /repo). *)
From Coq Require Import ZArith List Bool Lia ZifyBool String.
From Coq Require Import Floats.SpecFloat.
From PV Require Import Lib.PyBase Spec.Cal Spec.Zone Spec.NativeDT Spec.TdFloat Gen.Constants Model.Duration Gen.Reduce Model.Pickle.
From PV Require Import Proofs.CalFacts Proofs.ZoneFacts Proofs.TdFloatFacts Proofs.C03Facts Proofs.C09Facts.
Import ListNotations.
Open Scope Z_scope.
Ltac Zify.zify_post_hook ::= Z.to_euclidean_division_equations.

(* ------------------------------------------------------------------ validity of values *)
Definition tz_valid (t : tzv) : Prop :=
  match t with TzFixed off _ => td_in_range (off * US_PER_SEC) = true | _ => True end.
Definition dt_valid (v : dtv) : Prop := wall_in_range (dt_W v) = true /\ tz_valid (dt_tz v).
Definition tm_valid (v : tmv) : Prop := 0 <= tm_T v < 86400000000 /\ tz_valid (tm_tz v).
Definition date_valid (n : Z) : Prop := 1 <= n <= 3652059.
Definition ep_valid (e : ep) : Prop := match e with EpDt d => dt_valid d | EpDate n => date_valid n end.
Definition not_deep (r : route) : Prop := match r with RDeep => False | _ => True end.

(* ------------------------------------------------------------------ Timezone / FixedTimezone *)
Lemma fixed_rebuild_eq off name :
  fixed_rebuild off name = if negb (td_in_range (off * US_PER_SEC)) then Raise E_OverflowError else Ok (TzFixed off name).
Proof.
  unfold fixed_rebuild. destruct name as [|c s]; cbn; destruct (td_in_range (off * US_PER_SEC)); reflexivity.
Qed.

Lemma tz_rebuild_id r t : tz_valid t -> tz_rebuild r t = Ok t.
Proof.
  destruct t as [|k|off name|s]; intro H; cbn [tz_rebuild]; [reflexivity | reflexivity | | reflexivity].
  rewrite fixed_rebuild_eq. cbn in H. rewrite H. reflexivity.
Qed.

Lemma tz_arg_id r a : (forall t, a = ATz t -> tz_valid t) -> tz_arg r a = Ok a.
Proof.
  intro H. destruct a as [z|b|t|e|s]; try reflexivity.
  cbn. destruct r; try reflexivity; rewrite (tz_rebuild_id _ t (H t eq_refl)); reflexivity.
Qed.

(* ------------------------------------------------------------------ calendar round trips *)
Lemma fields_roundtrip W : wall_in_range W = true ->
  let '(y, mo, d, h, mi, s, us) := fields_of_wall W in
  ((1 <=? y) && (y <=? 9999) && valid_dateb y mo d && time_fields_ok h mi s us 0 = true) /\ wall_of y mo d h mi s us = W.
Proof.
  intro Hr. pose proof (fields_in_range W Hr) as F. cbv zeta in F.
  unfold ndt_year, ndt_month, ndt_day, ndt_ord, ndt_tod in F. cbn [n_wall] in F.
  unfold fields_of_wall.
  destruct (ord2ymd (W / us_per_day + 1)) as [[y mo] d]. cbn [fst snd] in F.
  destruct F as [Hy [Hv Hw]].
  apply wall_in_range_iff in Hr.
  assert (Ht : 0 <= W mod us_per_day < 86400000000) by (unfold us_per_day; lia).
  set (t := W mod us_per_day) in *.
  split.
  - rewrite Hv. unfold time_fields_ok.
    replace ((1 <=? y) && (y <=? 9999)) with true by lia. cbn [andb].
    repeat (apply andb_true_intro; split); lia.
  - unfold wall_of. revert Hw. generalize (ymd2ord y mo d). intros A Hw. unfold us_per_day in *. lia.
Qed.

Lemma date_roundtrip n : date_valid n ->
  let '(y, m, d) := ord2ymd n in ((1 <=? y) && (y <=? 9999) && valid_dateb y m d = true) /\ ymd2ord y m d = n.
Proof.
  intro Hn. unfold date_valid in Hn.
  assert (Hr : wall_in_range ((n - 1) * us_per_day) = true) by (apply wall_in_range_iff; unfold us_per_day; lia).
  pose proof (fields_in_range _ Hr) as F. cbv zeta in F.
  unfold ndt_year, ndt_month, ndt_day, ndt_ord, ndt_tod in F. cbn [n_wall] in F.
  replace ((n - 1) * us_per_day / us_per_day + 1) with n in F by (unfold us_per_day; lia).
  pose proof (ord2ymd_spec n) as S.
  destruct (ord2ymd n) as [[y m] d]. cbn [fst snd] in F. destruct F as [Hy [Hv _]]. destruct S as [_ S].
  split; [|exact S]. rewrite Hv. lia.
Qed.

Lemma tod_roundtrip T : 0 <= T < 86400000000 ->
  let '(h, mi, s, us) := tod_fields T in time_fields_ok h mi s us 0 = true /\ tod_of h mi s us = T.
Proof.
  intro H. unfold tod_fields, time_fields_ok, tod_of. split.
  - repeat (apply andb_true_intro; split); lia.
  - lia.
Qed.

(* ------------------------------------------------------------------ Date *)
Lemma date_rebuild_id r n : date_valid n -> date_rebuild r n = Ok n.
Proof.
  intro H. pose proof (date_roundtrip n H) as R. unfold date_rebuild.
  destruct (ord2ymd n) as [[y m] d]. destruct R as [C E].
  change (date_new [AInt y; AInt m; AInt d] [] = Ok n).
  change (date_new [AInt y; AInt m; AInt d] []) with
    (if (1 <=? y) && (y <=? 9999) && valid_dateb y m d then Ok (ymd2ord y m d) else @Raise Z E_ValueError).
  rewrite C, E. reflexivity.
Qed.

(* ------------------------------------------------------------------ DateTime *)
Lemma datetime_new_state y mo d h mi s us tz :
  datetime_new [AInt y; AInt mo; AInt d; AInt h; AInt mi; AInt s; AInt us; ATz tz] [] =
  if (1 <=? y) && (y <=? 9999) && valid_dateb y mo d && time_fields_ok h mi s us 0
  then Ok (mkdt (wall_of y mo d h mi s us) false tz) else Raise E_ValueError.
Proof. reflexivity. Qed.

Lemma datetime_new_deep y mo d h mi s us tz (f : bool) :
  datetime_new [AInt y; AInt mo; AInt d; AInt h; AInt mi; AInt s; AInt us] [("tzinfo"%string, ATz tz); ("fold"%string, AInt (Z.b2z f))] =
  if (1 <=? y) && (y <=? 9999) && valid_dateb y mo d && time_fields_ok h mi s us (Z.b2z f)
  then Ok (mkdt (wall_of y mo d h mi s us) (negb (Z.b2z f =? 0)) tz) else Raise E_ValueError.
Proof. reflexivity. Qed.

Lemma time_fields_ok_fold h mi s us (f : bool) : time_fields_ok h mi s us (Z.b2z f) = time_fields_ok h mi s us 0.
Proof. unfold time_fields_ok. destruct f; cbn [Z.b2z]; lia. Qed.

(* pickle (every protocol) and copy.copy: exactly the fold=0 reading of the same fields and tzinfo *)
Lemma dt_rebuild_pickle_copy r v : not_deep r -> dt_valid v ->
  dt_rebuild r v = Ok (mkdt (dt_W v) false (dt_tz v)).
Proof.
  intros Hr [HW Htz]. pose proof (fields_roundtrip _ HW) as R.
  assert (E : dt_rebuild r v =
              bind (dt_state v) (fun args => bind (map_res (tz_arg r) args) (fun args' => datetime_new args' []))).
  { destruct r; [reflexivity | reflexivity | destruct Hr]. }
  rewrite E. unfold dt_state.
  destruct (fields_of_wall (dt_W v)) as [[[[[[y mo] d] h] mi] s] us]. destruct R as [C Ew].
  change (map_attrs (dt_attr_f y mo d h mi s us (dt_fold v) (dt_tz v)) DateTime_state)
    with (Ok [AInt y; AInt mo; AInt d; AInt h; AInt mi; AInt s; AInt us; ATz (dt_tz v)]).
  cbn [bind map_res tz_arg].
  assert (T : (match r with RCopy => Ok (ATz (dt_tz v)) | _ => bind (tz_rebuild r (dt_tz v)) (fun t' => Ok (ATz t')) end) = Ok (ATz (dt_tz v))).
  { destruct r; try reflexivity; rewrite (tz_rebuild_id _ _ Htz); reflexivity. }
  rewrite T. cbn [bind]. rewrite datetime_new_state, C, Ew. reflexivity.
Qed.

(* DateTime.__deepcopy__ passes every field, tzinfo=self.tzinfo and fold: identity, whatever the tzinfo is (pendulum's own classes,
   a standard-library tzinfo, None).  With tzinfo=self.tz (the code before `fix: ... deepcopy keeps a foreign tzinfo`) the `change`
   below fails: self.tz is None for a TzForeign value and the copy is naive. *)
Lemma dt_rebuild_deep v : dt_valid v -> dt_rebuild RDeep v = Ok v.
Proof.
  intros [HW Htz]. pose proof (fields_roundtrip _ HW) as R.
  change (dt_rebuild RDeep v) with (bind (dt_deepcopy_args v) (fun '(p, k) => datetime_new p k)).
  unfold dt_deepcopy_args.
  destruct (fields_of_wall (dt_W v)) as [[[[[[y mo] d] h] mi] s] us]. destruct R as [C Ew].
  change (bind _ _) with
    (datetime_new [AInt y; AInt mo; AInt d; AInt h; AInt mi; AInt s; AInt us] [("tzinfo"%string, ATz (dt_tz v)); ("fold"%string, AInt (Z.b2z (dt_fold v)))]).
  rewrite datetime_new_deep, time_fields_ok_fold, C, Ew.
  destruct v as [W f tz]. cbn. destruct f; reflexivity.
Qed.

Lemma dt_rebuild_fold0 r v : dt_valid v -> dt_fold v = false -> dt_rebuild r v = Ok v.
Proof.
  intros Hv Hf. destruct r.
  - rewrite dt_rebuild_pickle_copy by (cbn; auto). destruct v; cbn in *; subst; reflexivity.
  - rewrite dt_rebuild_pickle_copy by (cbn; auto). destruct v; cbn in *; subst; reflexivity.
  - apply dt_rebuild_deep; assumption.
Qed.

(* the tz-database key behind a tzinfo whose offset depends on the wall time and fold: pendulum Timezone(key) and zoneinfo.ZoneInfo(key) *)
Definition tz_zone_key (t : tzv) : option Z :=
  match t with TzNamed k => Some k | TzForeign (StdZone k) => Some k | _ => None end.
(* the fold=0 reading has the same offset and instant unless the zone distinguishes the two folds at this wall second *)
Definition fold_matters (zdb : Z -> zone) (v : dtv) : Prop :=
  match tz_zone_key (dt_tz v) with Some k => ~ wall_unique (zdb k) (dt_W v / MEG) | None => False end.

Lemma dt_obs_nofold_unfold zdb v : ~ fold_matters zdb v ->
  dt_obs_nofold zdb (mkdt (dt_W v) false (dt_tz v)) = dt_obs_nofold zdb v.
Proof.
  intro H. destruct v as [W f tz]. unfold fold_matters in H. cbn [dt_tz dt_W] in H.
  unfold dt_obs_nofold, dt_inst, dt_off. cbn [dt_W dt_fold dt_tz].
  destruct tz as [|k|o nm|[o|k]]; cbn [tz_off tz_zone_key] in *; try reflexivity.
  all: assert (U : wall_unique (zdb k) (W / MEG))
    by (unfold wall_unique in *; destruct (Z.eq_dec (off_local (zdb k) (W / MEG) false) (off_local (zdb k) (W / MEG) true)); [assumption | contradiction]).
  all: unfold wall_unique in U; destruct f; [rewrite U|]; reflexivity.
Qed.

Lemma dt_inst_changes zdb v k : tz_zone_key (dt_tz v) = Some k -> dt_fold v = true -> ~ wall_unique (zdb k) (dt_W v / MEG) ->
  dt_inst zdb (mkdt (dt_W v) false (dt_tz v)) <> dt_inst zdb v /\ dt_off zdb (mkdt (dt_W v) false (dt_tz v)) <> dt_off zdb v.
Proof.
  intros Htz Hf Hu. destruct v as [W f tz]. cbn [dt_W dt_fold dt_tz] in *. subst f. unfold wall_unique in Hu.
  unfold dt_inst, dt_off. cbn [dt_W dt_fold dt_tz].
  destruct tz as [|k'|o nm|[o|k']]; cbn [tz_zone_key] in Htz; try discriminate; inversion Htz; subst k'; cbn [tz_off];
    unfold MEG in *; (split; [lia | congruence]).
Qed.

Lemma dt_pickle_copy_instant zdb r v : not_deep r -> dt_valid v -> ~ fold_matters zdb v ->
  exists v', dt_rebuild r v = Ok v' /\ dt_obs_nofold zdb v' = dt_obs_nofold zdb v.
Proof.
  intros Hr Hv Hn. eexists. split; [apply dt_rebuild_pickle_copy; assumption|]. apply dt_obs_nofold_unfold; assumption.
Qed.

Lemma dt_pickle_copy_changes_key zdb r v k : not_deep r -> dt_valid v ->
  tz_zone_key (dt_tz v) = Some k -> dt_fold v = true -> ~ wall_unique (zdb k) (dt_W v / MEG) ->
  exists v', dt_rebuild r v = Ok v' /\ dt_inst zdb v' <> dt_inst zdb v /\ dt_off zdb v' <> dt_off zdb v /\ dt_fold v' <> dt_fold v.
Proof.
  intros Hr Hv Htz Hf Hu. eexists. split; [apply dt_rebuild_pickle_copy; assumption|].
  destruct (dt_inst_changes zdb v k Htz Hf Hu) as [A B]. repeat split; try assumption. cbn. rewrite Hf. discriminate.
Qed.
Lemma dt_pickle_copy_changes zdb r v k : not_deep r -> dt_valid v ->
  dt_tz v = TzNamed k -> dt_fold v = true -> ~ wall_unique (zdb k) (dt_W v / MEG) ->
  exists v', dt_rebuild r v = Ok v' /\ dt_inst zdb v' <> dt_inst zdb v /\ dt_off zdb v' <> dt_off zdb v /\ dt_fold v' <> dt_fold v.
Proof. intros Hr Hv Htz. apply dt_pickle_copy_changes_key; [assumption | assumption | rewrite Htz; reflexivity]. Qed.
(* the same for a DateTime that carries a zoneinfo.ZoneInfo *)
Lemma dt_pickle_copy_changes_zoneinfo zdb r v k : not_deep r -> dt_valid v ->
  dt_tz v = TzForeign (StdZone k) -> dt_fold v = true -> ~ wall_unique (zdb k) (dt_W v / MEG) ->
  exists v', dt_rebuild r v = Ok v' /\ dt_inst zdb v' <> dt_inst zdb v /\ dt_off zdb v' <> dt_off zdb v /\ dt_fold v' <> dt_fold v.
Proof. intros Hr Hv Htz. apply dt_pickle_copy_changes_key; [assumption | assumption | rewrite Htz; reflexivity]. Qed.

(* ------------------------------------------------------------------ standard-library (foreign) tzinfo *)
(* DateTime.tz / DateTime.timezone is None for a standard-library tzinfo, the tzinfo itself for pendulum's classes *)
Lemma dt_tz_attribute y mo d h mi s us fold tz :
  dt_attr_f y mo d h mi s us fold tz "tz" = Some (ATz (pendulum_tz tz)) /\
  dt_attr_f y mo d h mi s us fold tz "timezone" = Some (ATz (pendulum_tz tz)) /\
  dt_attr_f y mo d h mi s us fold tz "tzinfo" = Some (ATz tz).
Proof. repeat split; reflexivity. Qed.
Lemma pendulum_tz_foreign s : pendulum_tz (TzForeign s) = TzNone.
Proof. reflexivity. Qed.
Lemma pendulum_tz_own t : (forall s, t <> TzForeign s) -> pendulum_tz t = t.
Proof. destruct t; intro H; try reflexivity. exfalso. apply (H s). reflexivity. Qed.

(* every route keeps a standard-library tzinfo: the copy is aware, same tzinfo, same offset, same instant (fold as dt_rebuild_* say) *)
Lemma dt_foreign_every_route zdb r W f s : wall_in_range W = true ->
  exists v', dt_rebuild r (mkdt W f (TzForeign s)) = Ok v' /\ dt_tz v' = TzForeign s /\ dt_W v' = W /\ dt_aware v' = true
             /\ dt_fold v' = match r with RDeep => f | _ => false end
             /\ (~ fold_matters zdb (mkdt W f (TzForeign s)) -> dt_obs_nofold zdb v' = dt_obs_nofold zdb (mkdt W f (TzForeign s))).
Proof.
  intro HW. assert (Hv : dt_valid (mkdt W f (TzForeign s))) by (split; [exact HW | exact I]).
  destruct r as [p| |].
  - eexists. split; [apply dt_rebuild_pickle_copy; [exact I | exact Hv]|]. cbn [dt_tz dt_W dt_fold dt_aware].
    repeat split. intro Hn. apply (dt_obs_nofold_unfold zdb _ Hn).
  - eexists. split; [apply dt_rebuild_pickle_copy; [exact I | exact Hv]|]. cbn [dt_tz dt_W dt_fold dt_aware].
    repeat split. intro Hn. apply (dt_obs_nofold_unfold zdb _ Hn).
  - eexists. split; [apply dt_rebuild_deep; exact Hv|]. cbn [dt_tz dt_W dt_fold dt_aware]. repeat split.
Qed.

(* ------------------------------------------------------------------ Time *)
Lemma time_new_state h mi s us tz :
  time_new [AInt h; AInt mi; AInt s; AInt us; ATz tz] [] =
  if time_fields_ok h mi s us 0 then Ok (mktm (tod_of h mi s us) false tz) else Raise E_ValueError.
Proof. reflexivity. Qed.

Lemma tm_rebuild_eq r v : tm_valid v -> tm_rebuild r v = Ok (mktm (tm_T v) false (tm_tz v)).
Proof.
  intros [HT Htz]. pose proof (tod_roundtrip _ HT) as R.
  change (tm_rebuild r v) with (bind (tm_state v) (fun args => bind (map_res (tz_arg r) args) (fun args' => time_new args' []))).
  unfold tm_state. destruct (tod_fields (tm_T v)) as [[[h mi] s] us]. destruct R as [C E].
  change (map_attrs (tm_attr_f h mi s us (tm_fold v) (tm_tz v)) Time_state) with (Ok [AInt h; AInt mi; AInt s; AInt us; ATz (tm_tz v)]).
  cbn [bind map_res tz_arg].
  assert (T : (match r with RCopy => Ok (ATz (tm_tz v)) | _ => bind (tz_rebuild r (tm_tz v)) (fun t' => Ok (ATz t')) end) = Ok (ATz (tm_tz v))).
  { destruct r; try reflexivity; rewrite (tz_rebuild_id _ _ Htz); reflexivity. }
  rewrite T. cbn [bind]. rewrite time_new_state, C, E. reflexivity.
Qed.

(* ------------------------------------------------------------------ Duration *)
Lemma td_norm_args N : td_in_range N = true ->
  let '(nd, ns, nu) := td_norm N in td_of_int_args nd ns nu 0 0 0 0 = Ok N.
Proof.
  intro H. pose proof (td_us_norm N) as E. destruct (td_norm N) as [[nd ns] nu] eqn:T.
  unfold td_us, US_PER_SEC in E.
  pose proof (td_of_int_args_ok nd ns nu 0 0 0 0) as K. cbv zeta in K.
  replace (((((0 * 7 + nd) * 24 + 0) * 60 + 0) * 60 + ns) * 1000000 + 0 * 1000 + nu) with N in K by lia.
  apply K. unfold td_in_range, US_PER_DAY, TD_MAX_DAYS in H. lia.
Qed.

Lemma td_of_int_args_range d s us ms mi h w N : td_of_int_args d s us ms mi h w = Ok N -> td_in_range N = true.
Proof.
  unfold td_of_int_args. destruct (td_in_range _) eqn:E; intro H; inversion H; subst; assumption.
Qed.

(* pickle / copy.copy of a Duration call Duration(days, seconds, microseconds) on the normalised native value *)
Lemma dur_rebuild_native r d : not_deep r -> d_abs d = false ->
  dur_rebuild r d = let '(nd, ns, nu) := td_norm (d_N d) in duration_new nd ns nu 0 0 0 0 0 0.
Proof.
  intros Hr Ha. unfold dur_rebuild, td_reduce_args. rewrite Ha.
  destruct (td_norm (d_N d)) as [[nd ns] nu]. destruct r; [reflexivity | reflexivity | destruct Hr].
Qed.
Lemma absdur_rebuild_native r d : not_deep r -> d_abs d = true ->
  dur_rebuild r d = let '(nd, ns, nu) := td_norm (d_N d) in absolute_duration_new nd ns nu 0 0 0 0 0 0.
Proof.
  intros Hr Ha. unfold dur_rebuild, td_reduce_args. rewrite Ha.
  destruct (td_norm (d_N d)) as [[nd ns] nu]. destruct r; [reflexivity | reflexivity | destruct Hr].
Qed.

(* whatever comes back has the same native value and no years / months *)
Lemma dur_pickle_result r days seconds us ms mi h w years months d d' : not_deep r ->
  duration_new days seconds us ms mi h w years months = Ok d -> dur_rebuild r d = Ok d' ->
  d_N d' = d_N d /\ d_years d' = 0 /\ d_months d' = 0 /\ d_abs d' = false.
Proof.
  intros Hr H H'. pose proof (years_months_signature _ _ _ _ _ _ _ _ _ _ H) as (_ & _ & Ha & _).
  rewrite (dur_rebuild_native r d Hr Ha) in H'.
  pose proof (native_value _ _ _ _ _ _ _ _ _ _ H) as HN. apply td_of_int_args_range in HN.
  pose proof (td_norm_args _ HN) as A. destruct (td_norm (d_N d)) as [[nd ns] nu].
  pose proof (native_value _ _ _ _ _ _ _ _ _ _ H') as HN'.
  replace (nd + (0 * 365 + 0 * 30)) with nd in HN' by lia. rewrite A in HN'. inversion HN'.
  pose proof (years_months_signature _ _ _ _ _ _ _ _ _ _ H') as (Y & M & Ab & _). auto.
Qed.

(* with years = months = 0 the copy is the original in every public accessor *)
Lemma dur_pickle_exact r days seconds us ms mi h w d : not_deep r ->
  duration_new days seconds us ms mi h w 0 0 = Ok d ->
  exists d', dur_rebuild r d = Ok d' /\ dur_public d' = dur_public d
             /\ d_total d' = d_total d /\ d_days d' = d_days d.
Proof.
  intros Hr H. pose proof (years_months_signature _ _ _ _ _ _ _ _ _ _ H) as (_ & _ & Ha & _).
  rewrite (dur_rebuild_native r d Hr Ha).
  pose proof (native_value _ _ _ _ _ _ _ _ _ _ H) as HN. pose proof (td_of_int_args_range _ _ _ _ _ _ _ _ HN) as HR.
  pose proof (td_norm_args _ HR) as A. destruct (td_norm (d_N d)) as [[nd ns] nu] eqn:TN.
  apply duration_new_inv in H. destruct H as (N & total & m & micro & it & H1 & H2 & Hd).
  assert (EN : d_N d = N) by (subst d; reflexivity). rewrite EN in *.
  unfold duration_new.
  replace (nd + (0 * DAYS_PER_Y + 0 * DAYS_PER_M)) with nd by (unfold DAYS_PER_Y, DAYS_PER_M; lia).
  rewrite A. cbn [bind].
  replace ((0 * DAYS_PER_Y + 0 * DAYS_PER_M) * C_SECONDS_PER_DAY) with (YM 0 0 * 86400) by reflexivity.
  rewrite H2. cbn [bind].
  eexists. split; [reflexivity|]. subst d. unfold dur_public, dur_hours, dur_minutes, dur_remaining_seconds, dur_invert, dur_total_seconds.
  cbn [d_N d_abs d_total d_years d_months d_weeks d_days d_rdays d_seconds d_micro]. auto.
Qed.

Lemma absdur_new_inv days seconds us ms mi h w years months d :
  absolute_duration_new days seconds us ms mi h w years months = Ok d ->
  exists N micro it, td_of_int_args days seconds us ms mi h w = Ok N /\
    py_round_half_even (fmul match py_float_mod (fabs (total_seconds N)) (sf_of_Z 1) with Ok fr => fr | Raise _ => S754_nan end f_1e6) = Ok micro /\
    py_int_trunc (fabs (total_seconds N)) = Ok it /\
    d = mkdur N true (total_seconds N) (Z.abs years) (Z.abs months) (it / C_SECONDS_PER_DAY / 7)
              (Z.abs (it / C_SECONDS_PER_DAY + years * DAYS_PER_Y + months * DAYS_PER_M)) (it / C_SECONDS_PER_DAY mod 7) (it mod C_SECONDS_PER_DAY) micro [].
Proof.
  unfold absolute_duration_new. intro H.
  apply bind_ok in H. destruct H as [N [H1 H]].
  apply bind_ok in H. destruct H as [fr [H2 H]].
  apply bind_ok in H. destruct H as [micro [H3 H]].
  apply bind_ok in H. destruct H as [it [H4 H]].
  inversion H; subst; clear H. exists N, micro, it. rewrite H2. auto.
Qed.

Lemma absdur_pickle_result r days seconds us ms mi h w years months d d' : not_deep r ->
  absolute_duration_new days seconds us ms mi h w years months = Ok d -> dur_rebuild r d = Ok d' ->
  d_N d' = d_N d /\ d_years d' = 0 /\ d_months d' = 0 /\ d_abs d' = true
  /\ d_total d' = d_total d /\ d_weeks d' = d_weeks d /\ d_rdays d' = d_rdays d /\ d_seconds d' = d_seconds d /\ d_micro d' = d_micro d.
Proof.
  intros Hr H H'.
  apply absdur_new_inv in H. destruct H as (N & micro & it & H1 & H2 & H3 & Hd).
  assert (Ha : d_abs d = true) by (subst d; reflexivity).
  rewrite (absdur_rebuild_native r d Hr Ha) in H'.
  assert (EN : d_N d = N) by (subst d; reflexivity). rewrite EN in H'.
  pose proof (td_norm_args _ (td_of_int_args_range _ _ _ _ _ _ _ _ H1)) as A.
  destruct (td_norm N) as [[nd ns] nu].
  apply absdur_new_inv in H'. destruct H' as (N' & micro' & it' & H1' & H2' & H3' & Hd').
  rewrite A in H1'. inversion H1'; subst N'. rewrite H2 in H2'. rewrite H3 in H3'. inversion H2'; inversion H3'; subst.
  cbn. repeat split; reflexivity.
Qed.

(* Duration.__deepcopy__ = Duration(days=remaining_days, seconds=remaining_seconds, microseconds=.., minutes=.., hours=.., weeks=.., years=.., months=..)
   (weeks passed since `fix: copy.deepcopy of a Duration keeps its weeks`): C09's rebuild from the public components *)
Lemma dur_rebuild_deep d : d_abs d = false -> dur_rebuild RDeep d = duration_rebuild d.
Proof. intro Ha. unfold dur_rebuild, duration_rebuild. rewrite Ha. reflexivity. Qed.
Lemma absdur_rebuild_deep d : d_abs d = true ->
  dur_rebuild RDeep d = absolute_duration_new (d_rdays d) (dur_remaining_seconds d) (d_micro d) 0 (dur_minutes d) (dur_hours d) (d_weeks d) (d_years d) (d_months d).
Proof. intro Ha. unfold dur_rebuild. rewrite Ha. reflexivity. Qed.

Section DeepExact.
  Hypothesis Hsplit : float_split_exact_on_D9.

  (* inside C09's exactness domain deepcopy is exact, whatever the weeks are: same public accessors, same native value, same stored fields.
     With the code before the repair (no weeks keyword) `dur_rebuild_deep` fails: the copy was short of weeks * 7 days. *)
  Lemma dur_deep_exact days seconds us ms mi h w years months d :
    duration_new days seconds us ms mi h w years months = Ok d ->
    D9 (d_N d) (YM years months * 86400) ->
    exists d', dur_rebuild RDeep d = Ok d' /\ dur_public d' = dur_public d /\ d_N d' = d_N d /\ d_total d' = d_total d /\ d_days d' = d_days d.
  Proof.
    intros H HD.
    pose proof (years_months_signature _ _ _ _ _ _ _ _ _ _ H) as (_ & _ & Ha & _).
    destruct (rebuild_partial Hsplit _ _ _ _ _ _ _ _ _ _ H HD) as (d' & R & A1 & A2 & A3 & A4 & A5 & A6 & A7 & A8 & A9).
    rewrite (dur_rebuild_deep d Ha).
    exists d'. split; [exact R|].
    assert (Ab : d_abs d' = false) by (apply years_months_signature in R; tauto).
    split; [|auto].
    unfold dur_public, dur_hours, dur_minutes, dur_remaining_seconds, dur_invert, dur_total_seconds.
    rewrite A1, A3, A4, A5, A7, A8, A9, Ab, Ha. reflexivity.
  Qed.
End DeepExact.

Section AbsDeep.
  Hypothesis Hsplit : float_split_exact_on_D9.

  (* copy.deepcopy of an AbsoluteDuration is the AbsoluteDuration of the ABSOLUTE value of its underlying timedelta: every component
     (years, months, weeks, remaining days, seconds, microseconds) and total_seconds() identical, native value |N|, invert False *)
  Lemma absdur_deep_result days seconds us ms mi h w years months d :
    absolute_duration_new days seconds us ms mi h w years months = Ok d -> Z.abs (d_N d) < B33 ->
    exists d', dur_rebuild RDeep d = Ok d' /\ d_N d' = Z.abs (d_N d) /\ d_abs d' = true /\ dur_invert d' = false
      /\ d_years d' = d_years d /\ d_months d' = d_months d /\ d_weeks d' = d_weeks d /\ d_rdays d' = d_rdays d
      /\ d_seconds d' = d_seconds d /\ d_micro d' = d_micro d /\ dur_total_seconds d' = dur_total_seconds d.
  Proof.
    intros H Hb.
    pose proof (absolute_duration_partial Hsplit _ _ _ _ _ _ _ _ _ _ H Hb) as (HN & Hy & Hm & _ & _ & _ & _ & _ & Hsum & _).
    pose proof (td_of_int_args_spec _ _ _ _ _ _ _ _ HN) as [_ Hrange].
    unfold absolute_duration_new in H.
    apply bind_ok in H. destruct H as [N [HN0 H]].
    apply bind_ok in H. destruct H as [fr [Hfr H]].
    apply bind_ok in H. destruct H as [micro [Hmi H]].
    apply bind_ok in H. destruct H as [it [Hit H]].
    injection H as Hd.
    assert (EN : d_N d = N) by (rewrite <- Hd; reflexivity).
    assert (Ha : d_abs d = true) by (rewrite <- Hd; reflexivity).
    rewrite (absdur_rebuild_deep d Ha).
    assert (HN' : td_of_int_args (d_rdays d) (dur_remaining_seconds d) (d_micro d) 0 (dur_minutes d) (dur_hours d) (d_weeks d) = Ok (Z.abs N)).
    { pose proof (td_of_int_args_ok (d_rdays d) (dur_remaining_seconds d) (d_micro d) 0 (dur_minutes d) (dur_hours d) (d_weeks d)) as K.
      cbv zeta in K.
      replace (((((d_weeks d * 7 + d_rdays d) * 24 + dur_hours d) * 60 + dur_minutes d) * 60 + dur_remaining_seconds d) * 1000000 + 0 * 1000 + d_micro d)
        with (Z.abs N) in K by (unfold comp_sum in Hsum; rewrite EN in Hsum; lia).
      apply K. rewrite EN in Hrange. lia. }
    unfold absolute_duration_new. rewrite HN'. cbn [bind].
    assert (Ef : fabs (total_seconds (Z.abs N)) = fabs (total_seconds N)).
    { rewrite total_seconds_abs. rewrite Z.abs_involutive. rewrite total_seconds_abs. reflexivity. }
    rewrite Ef, Hfr. cbn [bind]. rewrite Hmi. cbn [bind]. rewrite Hit. cbn [bind].
    eexists. split; [reflexivity|].
    rewrite <- Hd. unfold dur_invert, dur_total_seconds.
    cbn [d_N d_abs d_total d_years d_months d_weeks d_rdays d_seconds d_micro].
    rewrite ?Z.abs_involutive.
    repeat split.
    - rewrite <- total_seconds_abs. apply flt_abs_zero.
    - exact Ef.
  Qed.

  (* hence exact whenever the underlying value is not negative *)
  Lemma absdur_deep_exact_nonneg days seconds us ms mi h w years months d :
    absolute_duration_new days seconds us ms mi h w years months = Ok d -> 0 <= d_N d < B33 ->
    exists d', dur_rebuild RDeep d = Ok d' /\ dur_public d' = dur_public d.
  Proof.
    intros H Hb.
    assert (Hb' : Z.abs (d_N d) < B33) by lia.
    destruct (absdur_deep_result _ _ _ _ _ _ _ _ _ _ H Hb') as (d' & R & A1 & A2 & A3 & A4 & A5 & A6 & A7 & A8 & A9 & A10).
    exists d'. split; [exact R|].
    apply absdur_new_inv in H. destruct H as (N & micro & it & _ & _ & _ & Hd).
    assert (Ha : d_abs d = true) by (rewrite Hd; reflexivity).
    assert (Hi : dur_invert d = false).
    { unfold dur_invert. rewrite Ha. rewrite Hd. cbn [d_total].
      assert (EN : N = Z.abs N) by (rewrite Hd in Hb; cbn [d_N] in Hb; lia).
      rewrite EN. rewrite <- total_seconds_abs. apply flt_abs_zero. }
    rewrite Z.abs_eq in A1 by lia.
    unfold dur_public, dur_hours, dur_minutes, dur_remaining_seconds.
    rewrite A1, A2, A3, A4, A5, A6, A7, A8, A9, A10, Ha, Hi. reflexivity.
  Qed.
End AbsDeep.

(* ------------------------------------------------------------------ Interval *)
Section Iv.
  Variable zdb : Z -> zone.

  Lemma interval_ctor_args s e a : interval_ctor zdb [AEp s; AEp e; ABool a] [] = interval_new zdb s e a.
  Proof. reflexivity. Qed.

  Lemma iv_state_eq s e a iv : interval_new zdb s e a = Ok iv -> iv_state iv = Ok [AEp s; AEp e; ABool a].
  Proof.
    unfold interval_new. cbn [negb Interval_ctor_shape]. intro H.
    apply bind_ok in H. destruct H as [gt [G H]].
    destruct (a && gt) eqn:C.
    - apply bind_ok in H. destruct H as [N [_ H]]. inversion H; subst; clear H.
      apply andb_true_iff in C. destruct C; subst. reflexivity.
    - apply bind_ok in H. destruct H as [N [_ H]]. inversion H; subst; clear H.
      destruct a, gt; try discriminate; reflexivity.
  Qed.

  (* copy.copy of any constructed Interval is that Interval *)
  Lemma iv_copy_id s e a iv : interval_new zdb s e a = Ok iv -> iv_rebuild zdb RCopy iv = Ok iv.
  Proof.
    intro H. change (iv_rebuild zdb RCopy iv) with (bind (iv_state iv) (fun args => interval_ctor zdb args [])).
    rewrite (iv_state_eq _ _ _ _ H). cbn [bind]. rewrite interval_ctor_args. exact H.
  Qed.

  (* pickle: the endpoints are pickled; when they come back unchanged so does the Interval *)
  Lemma iv_pickle_id p s e a iv : interval_new zdb s e a = Ok iv ->
    ep_rebuild (RPickle p) s = Ok s -> ep_rebuild (RPickle p) e = Ok e -> iv_rebuild zdb (RPickle p) iv = Ok iv.
  Proof.
    intros H Hs He.
    change (iv_rebuild zdb (RPickle p) iv) with
      (bind (iv_state iv) (fun args => bind (map_res (ep_arg (RPickle p)) args) (fun args' => interval_ctor zdb args' []))).
    rewrite (iv_state_eq _ _ _ _ H). cbn [bind map_res ep_arg]. rewrite Hs, He. cbn [bind].
    rewrite interval_ctor_args. exact H.
  Qed.

  Lemma ep_rebuild_id r e : ep_valid e -> (forall d, e = EpDt d -> dt_fold d = false) -> ep_rebuild r e = Ok e.
  Proof.
    intros Hv Hf. destruct e as [d|n]; cbn [ep_rebuild].
    - rewrite (dt_rebuild_fold0 r d Hv (Hf d eq_refl)). reflexivity.
    - rewrite (date_rebuild_id r n Hv). reflexivity.
  Qed.

  Definition ep_fold0 (e : ep) : Prop := match e with EpDt d => dt_fold d = false | EpDate _ => True end.
  Lemma iv_pickle_id_fold0 p s e a iv : interval_new zdb s e a = Ok iv ->
    ep_valid s -> ep_valid e -> ep_fold0 s -> ep_fold0 e -> iv_rebuild zdb (RPickle p) iv = Ok iv.
  Proof.
    intros H Vs Ve Fs Fe. apply (iv_pickle_id p s e a iv H); apply ep_rebuild_id; try assumption.
    - intros d ->. exact Fs.
    - intros d ->. exact Fe.
  Qed.

  (* copy.deepcopy: Interval.__deepcopy__ deep-copies the two endpoints of _getstate() (DateTime.__deepcopy__ keeps fold and tzinfo, a Date goes
     through its reduce route) and passes the absolute flag: the Interval itself comes back - every endpoint kind, fold 1 and standard-library
     tzinfos included.  With the code before the repair (Interval inherited Duration.__deepcopy__, i.e. Interval(days=...)) the `change` below
     fails: the model then computes Raise E_TypeError for every Interval. *)
  Lemma ep_rebuild_deep e : ep_valid e -> ep_rebuild RDeep e = Ok e.
  Proof.
    intro Hv. destruct e as [d|n]; cbn [ep_rebuild].
    - rewrite (dt_rebuild_deep d Hv). reflexivity.
    - rewrite (date_rebuild_id RDeep n Hv). reflexivity.
  Qed.

  Lemma iv_deep_id s e a iv : interval_new zdb s e a = Ok iv -> ep_valid s -> ep_valid e -> iv_rebuild zdb RDeep iv = Ok iv.
  Proof.
    intros H Vs Ve.
    change (iv_rebuild zdb RDeep iv) with
      (bind (iv_state iv) (fun args => bind (map_flagged (ep_arg RDeep) [true; true; false] args) (fun args' => interval_ctor zdb args' []))).
    rewrite (iv_state_eq _ _ _ _ H). cbn [bind map_flagged ep_arg].
    rewrite (ep_rebuild_deep s Vs), (ep_rebuild_deep e Ve). cbn [bind].
    rewrite interval_ctor_args. exact H.
  Qed.
End Iv.

(* ------------------------------------------------------------------ witnesses (closed computations) *)
(* Europe/Paris around 2013-10-27: CEST (+7200) until 2013-10-27T01:00:00Z = second 63518432400 since 0001-01-01, then CET (+3600) *)
Definition paris_2013 : zone := mkzone 3600 [(63500288400, 7200); (63518432400, 3600)].
Definition zdb_paris : Z -> zone := fun _ => paris_2013.
(* 2013-10-27T02:30:00 on the wall clock *)
Definition W_0230 : Z := 63518437800 * 1000000.
Definition paris_0230_fold1 : dtv := mkdt W_0230 true (TzNamed 0).

Lemma paris_wf : wf2_zone paris_2013 = true. Proof. reflexivity. Qed.
Lemma paris_0230_repeated : wall_repeated paris_2013 (W_0230 / MEG). Proof. vm_compute. reflexivity. Qed.

Lemma dt_pickle_witness :
  dt_valid paris_0230_fold1 /\
  dt_obs zdb_paris paris_0230_fold1 = [2013; 10; 27; 2; 30; 0; 0; 1; 1; 3600; W_0230 - 3600 * 1000000; 1; 0] /\
  forall r, not_deep r -> exists v', dt_rebuild r paris_0230_fold1 = Ok v' /\
    dt_obs zdb_paris v' = [2013; 10; 27; 2; 30; 0; 0; 0; 1; 7200; W_0230 - 7200 * 1000000; 1; 0].
Proof.
  split; [split; [reflexivity | exact I]|]. split; [vm_compute; reflexivity|].
  intros r Hr. eexists. split.
  - apply dt_rebuild_pickle_copy; [assumption | split; [reflexivity | exact I]].
  - vm_compute. reflexivity.
Qed.

(* 2013-10-27T02:30 fold=1 with tzinfo = datetime.timezone.utc / datetime.timezone(-01:01:01) / zoneinfo.ZoneInfo("Europe/Paris"):
   copy.deepcopy returns the value itself - aware, same offset, same instant, same fold *)
Lemma dt_deepcopy_foreign_witness :
  dt_rebuild RDeep (mkdt W_0230 true (TzForeign (StdOffset 0))) = Ok (mkdt W_0230 true (TzForeign (StdOffset 0))) /\
  dt_obs zdb_paris (mkdt W_0230 true (TzForeign (StdOffset 0))) = [2013; 10; 27; 2; 30; 0; 0; 1; 1; 0; W_0230; 3; 0] /\
  dt_rebuild RDeep (mkdt W_0230 true (TzForeign (StdOffset (-3661)))) = Ok (mkdt W_0230 true (TzForeign (StdOffset (-3661)))) /\
  dt_obs zdb_paris (mkdt W_0230 true (TzForeign (StdOffset (-3661)))) = [2013; 10; 27; 2; 30; 0; 0; 1; 1; -3661; W_0230 + 3661 * 1000000; 3; -3661] /\
  dt_rebuild RDeep (mkdt W_0230 true (TzForeign (StdZone 0))) = Ok (mkdt W_0230 true (TzForeign (StdZone 0))) /\
  dt_obs zdb_paris (mkdt W_0230 true (TzForeign (StdZone 0))) = [2013; 10; 27; 2; 30; 0; 0; 1; 1; 3600; W_0230 - 3600 * 1000000; 4; 0].
Proof.
  repeat split; try (apply dt_rebuild_deep; split; [reflexivity | exact I]); vm_compute; reflexivity.
Qed.

Lemma time_witness : forall r, tm_rebuild r (mktm 9000000000 true TzNone) = Ok (mktm 9000000000 false TzNone).
Proof. intro r. apply (tm_rebuild_eq r (mktm 9000000000 true TzNone)). split; [cbn; lia | exact I]. Qed.

(* closed float computations run in the VM on a boolean check; the existential statements are then read off without conversion *)
Fixpoint zlist_eqb (a b : list Z) : bool :=
  match a, b with
  | [], [] => true
  | x :: r, y :: t => (x =? y) && zlist_eqb r t
  | _, _ => false
  end.
Lemma zlist_eqb_refl a : zlist_eqb a a = true.
Proof. induction a; cbn; [reflexivity | rewrite Z.eqb_refl, IHa; reflexivity]. Qed.
Lemma zlist_neq a b : zlist_eqb a b = false -> a <> b.
Proof. intros H E. subst. rewrite zlist_eqb_refl in H. discriminate. Qed.
Definition triple_eqb (t : Z * Z * Z) (a b c : Z) : bool := let '(x, y, z) := t in (x =? a) && (y =? b) && (z =? c).
Lemma triple_eqb_true t a b c : triple_eqb t a b c = true -> t = (a, b, c).
Proof. destruct t as [[x y] z]. unfold triple_eqb. intro H. repeat (apply andb_true_iff in H; destruct H as [H ?]). f_equal; [f_equal|]; lia. Qed.

Ltac split_and H := repeat (let H2 := fresh "B" in apply andb_true_iff in H; destruct H as [H H2]).

(* the former failing input: Duration(weeks=2, days=3) deep-copies to a Duration of 2 weeks and 3 days (17 days), every public accessor equal *)
Definition dur_deep_check : bool :=
  match duration_new 3 0 0 0 0 0 2 0 0 with
  | Ok d => match dur_rebuild RDeep d with
            | Ok d' => (d_weeks d =? 2) && (d_weeks d' =? 2) && triple_eqb (td_norm (d_N d)) 17 0 0 && triple_eqb (td_norm (d_N d')) 17 0 0
                       && zlist_eqb (dur_public d') (dur_public d)
            | Raise _ => false
            end
  | Raise _ => false
  end.
Lemma dur_deep_check_true : dur_deep_check = true. Proof. vm_compute. reflexivity. Qed.

Lemma zlist_eqb_eq a : forall b, zlist_eqb a b = true -> a = b.
Proof.
  induction a as [|x r IH]; intros [|y t] H; cbn in H; try discriminate; [reflexivity|].
  apply andb_true_iff in H. destruct H as [H1 H2]. apply Z.eqb_eq in H1. subst. f_equal. apply IH. exact H2.
Qed.

Lemma dur_deep_witness :
  exists d d', duration_new 3 0 0 0 0 0 2 0 0 = Ok d /\ d_weeks d = 2 /\ dur_rebuild RDeep d = Ok d' /\ d_weeks d' = 2
    /\ td_norm (d_N d) = (17, 0, 0) /\ td_norm (d_N d') = (17, 0, 0) /\ dur_public d' = dur_public d.
Proof.
  pose proof dur_deep_check_true as H. unfold dur_deep_check in H.
  destruct (duration_new 3 0 0 0 0 0 2 0 0) as [d|] eqn:E1; [|discriminate].
  destruct (dur_rebuild RDeep d) as [d'|] eqn:E2; [|discriminate].
  split_and H. exists d, d'. repeat split; try assumption; try lia; try (apply triple_eqb_true; assumption).
  apply zlist_eqb_eq. assumption.
Qed.

(* the D9 hypothesis of dur_deep_exact cannot be dropped: Duration(years=300, days=3, microseconds=7) has weeks = 0 but its
   microseconds accessor is 8 (float resolution of Duration.__new__, C09), so the deep copy is one microsecond longer *)
Definition dur_deep_outside_check : bool :=
  match duration_new 3 0 7 0 0 0 0 300 0 with
  | Ok d => match dur_rebuild RDeep d with
            | Ok d' => (d_weeks d =? 0) && (d_micro d =? 8) && (d_N d' - d_N d =? 1) && negb (zlist_eqb (dur_public d') (dur_public d))
            | Raise _ => false
            end
  | Raise _ => false
  end.
Lemma dur_deep_outside_check_true : dur_deep_outside_check = true. Proof. vm_compute. reflexivity. Qed.
Lemma dur_deep_outside_witness :
  exists d d', duration_new 3 0 7 0 0 0 0 300 0 = Ok d /\ d_weeks d = 0 /\ d_micro d = 8 /\ dur_rebuild RDeep d = Ok d'
    /\ d_N d' = d_N d + 1 /\ dur_public d' <> dur_public d.
Proof.
  pose proof dur_deep_outside_check_true as H. unfold dur_deep_outside_check in H.
  destruct (duration_new 3 0 7 0 0 0 0 300 0) as [d|] eqn:E1; [|discriminate].
  destruct (dur_rebuild RDeep d) as [d'|] eqn:E2; [|discriminate].
  split_and H. exists d, d'. repeat split; try assumption; try lia.
  apply zlist_neq. apply negb_true_iff. assumption.
Qed.

Definition dur_pickle_check (r : route) : bool :=
  match duration_new 3 0 0 0 0 0 0 1 2 with
  | Ok d => match dur_rebuild r d with
            | Ok d' => (d_years d =? 1) && (d_months d =? 2) && (d_years d' =? 0) && (d_months d' =? 0) && (d_weeks d' =? 61) && (d_rdays d' =? 1)
                       && negb (zlist_eqb (dur_public d') (dur_public d))
            | Raise _ => false
            end
  | Raise _ => false
  end.
Lemma dur_pickle_check_true : forall r, not_deep r -> dur_pickle_check r = true.
Proof. intros [p| |] Hr; [vm_compute; reflexivity | vm_compute; reflexivity | destruct Hr]. Qed.

Lemma dur_pickle_witness : forall r, not_deep r ->
  exists d d', duration_new 3 0 0 0 0 0 0 1 2 = Ok d /\ d_years d = 1 /\ d_months d = 2 /\ dur_rebuild r d = Ok d'
    /\ d_years d' = 0 /\ d_months d' = 0 /\ d_weeks d' = 61 /\ d_rdays d' = 1 /\ dur_public d' <> dur_public d.
Proof.
  intros r Hr. pose proof (dur_pickle_check_true r Hr) as H. unfold dur_pickle_check in H.
  destruct (duration_new 3 0 0 0 0 0 0 1 2) as [d|] eqn:E3; [|discriminate].
  destruct (dur_rebuild r d) as [d'|] eqn:E4; [|discriminate].
  split_and H. exists d, d'. repeat split; try assumption; try lia.
  apply zlist_neq. apply negb_true_iff. assumption.
Qed.

Definition absdur_deep_check : bool :=
  match absolute_duration_new (-3) 0 0 0 0 (-5) 0 0 0 with
  | Ok d => match dur_rebuild RDeep d with
            | Ok d' => dur_invert d && negb (dur_invert d') && negb (zlist_eqb (dur_public d') (dur_public d))
            | Raise _ => false
            end
  | Raise _ => false
  end.
Lemma absdur_deep_check_true : absdur_deep_check = true. Proof. vm_compute. reflexivity. Qed.

Lemma absdur_deep_witness :
  exists d d', absolute_duration_new (-3) 0 0 0 0 (-5) 0 0 0 = Ok d /\ dur_invert d = true /\ dur_rebuild RDeep d = Ok d'
    /\ dur_invert d' = false /\ dur_public d' <> dur_public d.
Proof.
  pose proof absdur_deep_check_true as H. unfold absdur_deep_check in H.
  destruct (absolute_duration_new (-3) 0 0 0 0 (-5) 0 0 0) as [d|] eqn:E5; [|discriminate].
  destruct (dur_rebuild RDeep d) as [d'|] eqn:E6; [|discriminate].
  split_and H. exists d, d'. repeat split; try assumption.
  - apply negb_true_iff. assumption.
  - apply zlist_neq. apply negb_true_iff. assumption.
Qed.

(* ... while the weeks of an AbsoluteDuration survive now: AbsoluteDuration(weeks=2, days=3, hours=5) (underlying value positive) deep-copies to
   a value with the same public accessors; with a NEGATIVE underlying value only the sign is lost - AbsoluteDuration(weeks=-2, days=-3) has
   invert = True, weeks = 2, native value -17 days, its deep copy invert = False, weeks = 2, native value +17 days *)
Definition absdur_deep_weeks_check : bool :=
  match absolute_duration_new 3 0 0 0 0 5 2 0 0 with
  | Ok d => match dur_rebuild RDeep d with
            | Ok d' => (d_weeks d =? 2) && (d_weeks d' =? 2) && zlist_eqb (dur_public d') (dur_public d)
            | Raise _ => false
            end
  | Raise _ => false
  end.
Definition absdur_deep_sign_check : bool :=
  match absolute_duration_new (-3) 0 0 0 0 0 (-2) 0 0 with
  | Ok d => match dur_rebuild RDeep d with
            | Ok d' => dur_invert d && negb (dur_invert d') && (d_weeks d =? 2) && (d_weeks d' =? 2)
                       && triple_eqb (td_norm (d_N d)) (-17) 0 0 && triple_eqb (td_norm (d_N d')) 17 0 0
            | Raise _ => false
            end
  | Raise _ => false
  end.
Lemma absdur_deep_weeks_check_true : absdur_deep_weeks_check = true. Proof. vm_compute. reflexivity. Qed.
Lemma absdur_deep_sign_check_true : absdur_deep_sign_check = true. Proof. vm_compute. reflexivity. Qed.

Lemma absdur_deep_weeks_witness1 :
  exists d d', absolute_duration_new 3 0 0 0 0 5 2 0 0 = Ok d /\ d_weeks d = 2 /\ dur_rebuild RDeep d = Ok d' /\ dur_public d' = dur_public d.
Proof.
  pose proof absdur_deep_weeks_check_true as H. unfold absdur_deep_weeks_check in H.
  destruct (absolute_duration_new 3 0 0 0 0 5 2 0 0) as [d|] eqn:E1; [|discriminate].
  destruct (dur_rebuild RDeep d) as [d'|] eqn:E2; [|discriminate].
  split_and H. exists d, d'. split; [reflexivity|]. split; [lia|]. split; [exact E2|]. apply zlist_eqb_eq. assumption.
Qed.
Lemma absdur_deep_weeks_witness2 :
  exists d d', absolute_duration_new (-3) 0 0 0 0 0 (-2) 0 0 = Ok d /\ dur_invert d = true /\ d_weeks d = 2 /\ dur_rebuild RDeep d = Ok d'
     /\ dur_invert d' = false /\ d_weeks d' = 2 /\ td_norm (d_N d) = (-17, 0, 0) /\ td_norm (d_N d') = (17, 0, 0).
Proof.
  pose proof absdur_deep_sign_check_true as H. unfold absdur_deep_sign_check in H.
  destruct (absolute_duration_new (-3) 0 0 0 0 0 (-2) 0 0) as [d|] eqn:E3; [|discriminate].
  destruct (dur_rebuild RDeep d) as [d'|] eqn:E4; [|discriminate].
  split_and H. exists d, d'.
  split; [reflexivity|]. split; [assumption|]. split; [lia|]. split; [exact E4|]. split; [apply negb_true_iff; assumption|].
  split; [lia|]. split; apply triple_eqb_true; assumption.
Qed.
Lemma absdur_deep_weeks_witness :
  (exists d d', absolute_duration_new 3 0 0 0 0 5 2 0 0 = Ok d /\ d_weeks d = 2 /\ dur_rebuild RDeep d = Ok d' /\ dur_public d' = dur_public d) /\
  (exists d d', absolute_duration_new (-3) 0 0 0 0 0 (-2) 0 0 = Ok d /\ dur_invert d = true /\ d_weeks d = 2 /\ dur_rebuild RDeep d = Ok d'
     /\ dur_invert d' = false /\ d_weeks d' = 2 /\ td_norm (d_N d) = (-17, 0, 0) /\ td_norm (d_N d') = (17, 0, 0)).
Proof. exact (conj absdur_deep_weeks_witness1 absdur_deep_weeks_witness2). Qed.

(* Interval [02:30 fold=1 (+01:00) -> 04:00] in Paris, 90 minutes long: the pickled copy starts at 02:30+02:00 and is 150 minutes long *)
Definition iv_wit_start : ep := EpDt paris_0230_fold1.
Definition iv_wit_end : ep := EpDt (mkdt (W_0230 + 5400 * 1000000) false (TzNamed 0)).
Definition iv_pickle_check (p : Z) : bool :=
  match interval_new zdb_paris iv_wit_start iv_wit_end false with
  | Ok iv => match iv_rebuild zdb_paris (RPickle p) iv with
             | Ok iv' => negb (zlist_eqb (iv_obs zdb_paris iv') (iv_obs zdb_paris iv))
                         && triple_eqb (td_norm (iv_N iv)) 0 5400 0 && triple_eqb (td_norm (iv_N iv')) 0 9000 0
             | Raise _ => false
             end
  | Raise _ => false
  end.
(* the protocol number is not consulted by the model: the VM evaluates the check with p free *)
Lemma iv_pickle_check_true : forall p, iv_pickle_check p = true.
Proof. intro p. vm_compute. reflexivity. Qed.

Lemma iv_pickle_witness : forall p,
  exists iv iv', interval_new zdb_paris iv_wit_start iv_wit_end false = Ok iv /\ td_norm (iv_N iv) = (0, 5400, 0)
    /\ iv_rebuild zdb_paris (RPickle p) iv = Ok iv' /\ td_norm (iv_N iv') = (0, 9000, 0)
    /\ iv_obs zdb_paris iv' <> iv_obs zdb_paris iv.
Proof.
  intro p. pose proof (iv_pickle_check_true p) as H. unfold iv_pickle_check in H.
  destruct (interval_new zdb_paris iv_wit_start iv_wit_end false) as [iv|] eqn:E7; [|discriminate].
  destruct (iv_rebuild zdb_paris (RPickle p) iv) as [iv'|] eqn:E8; [|discriminate].
  split_and H. exists iv, iv'. repeat split; try assumption; try (apply triple_eqb_true; assumption).
  apply zlist_neq. apply negb_true_iff. assumption.
Qed.

(* the same Interval (fold = 1 start), and the one whose end carries zoneinfo.ZoneInfo("Europe/Paris"), deep-copy to themselves: 90 minutes *)
Definition iv_wit_end_foreign : ep := EpDt (mkdt (W_0230 + 5400 * 1000000) false (TzForeign (StdZone 0))).
Lemma iv_deep_witness1 :
  exists iv, interval_new zdb_paris iv_wit_start iv_wit_end false = Ok iv /\ td_norm (iv_N iv) = (0, 5400, 0)
    /\ iv_rebuild zdb_paris RDeep iv = Ok iv.
Proof.
  assert (V1 : ep_valid iv_wit_start) by (split; [reflexivity | exact I]).
  assert (V2 : ep_valid iv_wit_end) by (split; [reflexivity | exact I]).
  assert (C : match interval_new zdb_paris iv_wit_start iv_wit_end false with
              | Ok a => triple_eqb (td_norm (iv_N a)) 0 5400 0 | _ => false end = true) by (vm_compute; reflexivity).
  destruct (interval_new zdb_paris iv_wit_start iv_wit_end false) as [iv|] eqn:E1; [|discriminate].
  exists iv. split; [reflexivity|]. split; [apply triple_eqb_true; assumption|].
  exact (iv_deep_id zdb_paris _ _ _ _ E1 V1 V2).
Qed.
Lemma iv_deep_witness2 :
  exists iv, interval_new zdb_paris iv_wit_start iv_wit_end_foreign true = Ok iv /\ td_norm (iv_N iv) = (0, 5400, 0)
    /\ iv_rebuild zdb_paris RDeep iv = Ok iv.
Proof.
  assert (V1 : ep_valid iv_wit_start) by (split; [reflexivity | exact I]).
  assert (V3 : ep_valid iv_wit_end_foreign) by (split; [reflexivity | exact I]).
  assert (C : match interval_new zdb_paris iv_wit_start iv_wit_end_foreign true with
              | Ok a => triple_eqb (td_norm (iv_N a)) 0 5400 0 | _ => false end = true) by (vm_compute; reflexivity).
  destruct (interval_new zdb_paris iv_wit_start iv_wit_end_foreign true) as [iv|] eqn:E1; [|discriminate].
  exists iv. split; [reflexivity|]. split; [apply triple_eqb_true; assumption|].
  exact (iv_deep_id zdb_paris _ _ _ _ E1 V1 V3).
Qed.
Lemma iv_deep_witness :
  (exists iv, interval_new zdb_paris iv_wit_start iv_wit_end false = Ok iv /\ td_norm (iv_N iv) = (0, 5400, 0)
     /\ iv_rebuild zdb_paris RDeep iv = Ok iv) /\
  (exists iv, interval_new zdb_paris iv_wit_start iv_wit_end_foreign true = Ok iv /\ td_norm (iv_N iv) = (0, 5400, 0)
     /\ iv_rebuild zdb_paris RDeep iv = Ok iv).
Proof. exact (conj iv_deep_witness1 iv_deep_witness2). Qed.

(* satisfiability of the hypotheses used above *)
Example dt_valid_example : dt_valid (mkdt W_0230 false (TzFixed 3600 [43; 48; 49; 58; 48; 48])).
Proof. split; reflexivity. Qed.
Example dt_valid_foreign_example : dt_valid (mkdt W_0230 true (TzForeign (StdZone 0))) /\ dt_valid (mkdt W_0230 true (TzForeign (StdOffset (-3661)))).
Proof. repeat split. Qed.
Definition dur_D9_check : bool :=
  match duration_new 3 0 7 0 0 5 2 1 2 with
  | Ok d => (d_weeks d =? 2) && (Z.abs (d_N d) <? B32) && (Z.abs (d_N d - YM 1 2 * 86400 * 1000000) <? B32)
  | Raise _ => false
  end.
Example dur_D9_example : exists d, duration_new 3 0 7 0 0 5 2 1 2 = Ok d /\ d_weeks d = 2 /\ D9 (d_N d) (YM 1 2 * 86400).
Proof.
  assert (H : dur_D9_check = true) by (vm_compute; reflexivity). unfold dur_D9_check in H.
  destruct (duration_new 3 0 7 0 0 5 2 1 2) as [d|] eqn:E9; [|discriminate].
  split_and H. exists d. split; [reflexivity|]. split; [lia|]. right. split; lia.
Qed.
Definition iv_example_check : bool :=
  match interval_new zdb_paris iv_wit_end iv_wit_start true with
  | Ok iv => iv_invert iv && zlist_eqb (ep_obs zdb_paris (iv_start iv)) (ep_obs zdb_paris iv_wit_start)
  | Raise _ => false
  end.
Example iv_example : exists iv, interval_new zdb_paris iv_wit_end iv_wit_start true = Ok iv /\ iv_invert iv = true.
Proof.
  assert (H : iv_example_check = true) by (vm_compute; reflexivity). unfold iv_example_check in H.
  destruct (interval_new zdb_paris iv_wit_end iv_wit_start true) as [iv|] eqn:E10; [|discriminate].
  split_and H. exists iv. split; [reflexivity | assumption].
Qed.
Example absdur_nonneg_example : exists d, absolute_duration_new 3 0 0 0 0 5 2 (-1) 0 = Ok d /\ 0 <= d_N d < B33.
Proof.
  assert (H : match absolute_duration_new 3 0 0 0 0 5 2 (-1) 0 with Ok d => (0 <=? d_N d) && (d_N d <? B33) | Raise _ => false end = true) by (vm_compute; reflexivity).
  destruct (absolute_duration_new 3 0 0 0 0 5 2 (-1) 0) as [d|] eqn:E; [|discriminate].
  exists d. split; [reflexivity | lia].
Qed.
