(* Proofs/C14History.v — C14: copies do not depend on, and do not disturb, the process-wide fixed-offset cache (Model/PickleHistory.v). *)
From Coq Require Import ZArith List Bool Lia String.
From PV Require Import Lib.PyBase Spec.Cal Spec.Zone Spec.TdFloat Gen.Constants Gen.Reduce Model.Pickle Model.PickleHistory.
From PV Require Import Proofs.C14Facts.
Import ListNotations.
Open Scope Z_scope.

(* FixedTimezone(offset) *)
Lemma fixed_new_int off :
  fixed_new [AInt off] [] = if negb (td_in_range (off * US_PER_SEC)) then Raise E_OverflowError else Ok (TzFixed off (default_name off)).
Proof. unfold fixed_new. cbn. destruct (td_in_range (off * US_PER_SEC)); reflexivity. Qed.

(* the invariant of the cache: an entry for `off` is the default-named FixedTimezone(off) of an offset the constructor accepts *)
Definition cache_ok (c : tzcache) : Prop :=
  forall o t, cache_get c o = Some t -> t = TzFixed o (default_name o) /\ td_in_range (o * US_PER_SEC) = true.

Lemma cache_ok_nil : cache_ok []. Proof. intros o t H. discriminate H. Qed.

Lemma fixed_timezone_cases c off :
  (exists t, cache_get c off = Some t /\ fixed_timezone c off = (Ok t, c)) \/
  (cache_get c off = None /\ td_in_range (off * US_PER_SEC) = true /\
   fixed_timezone c off = (Ok (TzFixed off (default_name off)), (off, TzFixed off (default_name off)) :: c)) \/
  (cache_get c off = None /\ td_in_range (off * US_PER_SEC) = false /\ fixed_timezone c off = (Raise E_OverflowError, c)).
Proof.
  unfold fixed_timezone. destruct (cache_get c off) as [t|] eqn:E.
  - left. exists t. split; reflexivity.
  - right. rewrite fixed_new_int. destruct (td_in_range (off * US_PER_SEC)); cbn.
    + left. repeat split.
    + right. repeat split.
Qed.

Lemma fixed_timezone_ok c off : cache_ok c -> cache_ok (snd (fixed_timezone c off)).
Proof.
  intros H. destruct (fixed_timezone_cases c off) as [[t [_ E]]|[[_ [R E]]|[_ [_ E]]]]; rewrite E; cbn [snd]; try exact H.
  intros o t. cbn [cache_get]. destruct (off =? o) eqn:Q.
  - apply Z.eqb_eq in Q. subst o. intros X. inversion X. split; [reflexivity|exact R].
  - apply H.
Qed.

(* a call that raises leaves the cache exactly as it was *)
Lemma fixed_timezone_failed_keeps c off e : fst (fixed_timezone c off) = Raise e -> snd (fixed_timezone c off) = c.
Proof.
  destruct (fixed_timezone_cases c off) as [[t [_ E]]|[[_ [R E]]|[_ [_ E]]]]; rewrite E; cbn [fst snd]; try reflexivity.
  intros X. discriminate X.
Qed.

(* the cache is transparent: whatever it holds (under the invariant), the factory returns what it returns in a fresh process *)
Lemma fixed_timezone_transparent c off : cache_ok c -> fst (fixed_timezone c off) = fst (fixed_timezone [] off).
Proof.
  intros H. destruct (fixed_timezone_cases c off) as [[t [G E]]|[[_ [R E]]|[_ [R E]]]]; rewrite E; cbn [fst].
  - destruct (H _ _ G) as [-> R].
    destruct (fixed_timezone_cases [] off) as [[t' [G' _]]|[[_ [_ E']]|[_ [R' _]]]].
    + discriminate G'.
    + rewrite E'. reflexivity.
    + rewrite R in R'. discriminate R'.
  - destruct (fixed_timezone_cases [] off) as [[t' [G' _]]|[[_ [_ E']]|[_ [R' _]]]].
    + discriminate G'.
    + rewrite E'. reflexivity.
    + rewrite R in R'. discriminate R'.
  - destruct (fixed_timezone_cases [] off) as [[t' [G' _]]|[[_ [R' _]]|[_ [_ E']]]].
    + discriminate G'.
    + rewrite R in R'. discriminate R'.
    + rewrite E'. reflexivity.
Qed.

Lemma hstep_ok c o : cache_ok c -> cache_ok (fst (hstep c o)).
Proof. intros H. destruct o; cbn [hstep fst]; try exact H. apply fixed_timezone_ok, H. Qed.

Lemma hrun_ok ops : forall c, cache_ok c -> cache_ok (fst (hrun c ops)).
Proof. induction ops as [|o r IH]; intros c H; cbn [hrun fst]; [exact H|]. apply IH, hstep_ok, H. Qed.

(* only a successful factory call changes the cache; constructions and copies never do *)
Lemma hstep_cache c o :
  fst (hstep c o) = match o with HTimezoneInt off => snd (fixed_timezone c off) | _ => c end.
Proof. destruct o; reflexivity. Qed.

(* what any call returns after any history is what it returns in a fresh process *)
Lemma hstep_output_independent ops o : snd (hstep (fst (hrun [] ops)) o) = snd (hstep [] o).
Proof.
  destruct o; cbn [hstep snd]; try reflexivity.
  rewrite (fixed_timezone_transparent (fst (hrun [] ops)) off); [reflexivity|]. apply hrun_ok, cache_ok_nil.
Qed.

Lemma hrun_app a b c : hrun c (a ++ b) = (fst (hrun (fst (hrun c a)) b), snd (hrun c a) ++ snd (hrun (fst (hrun c a)) b)).
Proof.
  revert c. induction a as [|o r IH]; intros c; cbn [hrun app fst snd].
  - destruct (hrun c b); reflexivity.
  - rewrite IH. reflexivity.
Qed.

(* every output of a run is the output of that call in a fresh process *)
Lemma hrun_outputs_independent ops : forall c, cache_ok c -> snd (hrun c ops) = map (fun o => snd (hstep [] o)) ops.
Proof.
  induction ops as [|o r IH]; intros c H; cbn [hrun snd map]; [reflexivity|].
  rewrite (IH _ (hstep_ok c o H)). f_equal.
  destruct o; cbn [hstep snd]; try reflexivity.
  rewrite (fixed_timezone_transparent c off H). reflexivity.
Qed.

(* the copy made after a history is the copy made in a fresh process, and so is everything observed before and after it *)
Lemma hist_run_independent zdb before r v after :
  hr_orig (hist_run zdb before r v after) = hr_orig (hist_run zdb [] r v []) /\
  hr_copy (hist_run zdb before r v after) = hr_copy (hist_run zdb [] r v []) /\
  hr_before (hist_run zdb before r v after) = map (fun o => snd (hstep [] o)) before /\
  hr_after (hist_run zdb before r v after) = map (fun o => snd (hstep [] o)) after /\
  cache_ok (hr_cache (hist_run zdb before r v after)).
Proof.
  unfold hist_run. cbn [hr_orig hr_copy hr_before hr_after hr_cache].
  split; [reflexivity|]. split; [reflexivity|]. split; [|split].
  - apply hrun_outputs_independent, cache_ok_nil.
  - apply hrun_outputs_independent, hrun_ok, cache_ok_nil.
  - apply hrun_ok, hrun_ok, cache_ok_nil.
Qed.

(* a FixedTimezone with an explicit name keeps it on every route after every history, also when the cache holds the default-named zone
   of the same offset *)
Lemma hist_fixed_named zdb before r off name after : td_in_range (off * US_PER_SEC) = true ->
  hr_copy (hist_run zdb before r (HvTz (TzFixed off name)) after) = 0 :: tz_obs (TzFixed off name).
Proof.
  intros H. unfold hist_run. cbn [hr_copy hv_copy]. rewrite (tz_rebuild_id r (TzFixed off name) H). reflexivity.
Qed.

(* satisfiable, and the case that matters: the cache already holds "+05:30" when FixedTimezone(19800, "IST") is pickled *)
Example hist_ist_after_default :
  hist_run (fun _ => fixed_zone 0) [HTimezoneInt 19800] (RPickle 2) (HvTz (TzFixed 19800 [73; 83; 84])) [HTimezoneInt 19800] =
  mkhres [[0; 2; 19800; 6; 43; 48; 53; 58; 51; 48]] [2; 19800; 3; 73; 83; 84] [0; 2; 19800; 3; 73; 83; 84]
         [[0; 2; 19800; 6; 43; 48; 53; 58; 51; 48]] [(19800, TzFixed 19800 [43; 48; 53; 58; 51; 48])].
Proof. vm_compute. reflexivity. Qed.

(* a failed call in the history: the offset is beyond timedelta's range, the cache stays empty *)
Example hist_failed_call :
  hrun [] [HTimezoneInt 100000000000000; HTimezoneInt 3600] =
  ([(3600, TzFixed 3600 [43; 48; 49; 58; 48; 48])], [[1; 3]; [0; 2; 3600; 6; 43; 48; 49; 58; 48; 48]]).
Proof. vm_compute. reflexivity. Qed.
