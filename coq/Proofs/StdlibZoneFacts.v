(* Proofs/StdlibZoneFacts.v — Spec/Zone.v (the hand-written model of a tz-database zone "as zoneinfo presents it") IS the
   algorithm of CPython's pure-Python zoneinfo: Gen/StdlibZone.v is the machine translation of zoneinfo/_zoneinfo.py
   (_ts_to_local, _get_local_timestamp, _find_trans, utcoffset, fromutc; regenerated from the staged interpreter every run).
   Scope: explicit transitions only, `_tz_after` a plain _ttinfo (POSIX-rule tail _TZStr out of scope), dt not None.

   ENCODING of a table z = {z_init; z_trans = [(t1,o1); ...; (tn,on)]} as the data ZoneInfo._load_file stores:
     trans_utc = [t1..tn], utcoffsets = [z_init; o1; ..; on], trans_idx = [1..n], _ttinfos = [o1..on] (each _ttinfo reduced to its utcoff),
     _tti_before = z_init (so utcoffsets[0] is also the offset before the first transition), _tz_after = on (z_init when n = 0),
     _trans_local = what the translated _ts_to_local returns on these lists. *)
From Coq Require Import ZArith List Bool Lia ZifyBool.
From PV Require Import Lib.PyBase Lib.PyList Spec.Cal Spec.Zone Model.StdlibZoneObj Gen.StdlibZone Proofs.PyListFacts.
Import ListNotations.
Open Scope Z_scope.

(* ---------- the encoding ---------- *)
Definition enc_utc (z : zone) : list Z := map fst (z_trans z).
Definition enc_tti (z : zone) : list Z := map snd (z_trans z).
Definition enc_offs (z : zone) : list Z := z_init z :: enc_tti z.
Definition enc_idx (z : zone) : list Z := map Z.of_nat (seq 1 (length (z_trans z))).

(* the wall-clock thresholds of Spec/Zone.v (off_local_l compares w with t + wallb f init o, transition by transition) as a list *)
Fixpoint walls_l (f : bool) (init : Z) (tr : list (Z * Z)) : list Z :=
  match tr with
  | [] => []
  | (t, o) :: r => t + wallb f init o :: walls_l f o r
  end.
Definition walls (z : zone) (f : bool) : list Z := walls_l f (z_init z) (z_trans z).

Definition stdlib_zone (z : zone) : szone :=
  mkszone (enc_utc z) [walls z false; walls z true] (enc_tti z) (z_init z) (last (enc_tti z) (z_init z)).

(* ---------- _ts_to_local ---------- *)
Lemma walls_l_length f : forall tr init, length (walls_l f init tr) = length tr.
Proof. induction tr as [|[t o] r IH]; intros init; cbn [walls_l length]; [reflexivity|]. now rewrite IH. Qed.

Lemma tidx_app_mid' l1 x l2 i : plen l1 = i -> tidx (l1 ++ x :: l2) i = x.
Proof. intros <-. apply tidx_app_mid. Qed.
Lemma pset_app_mid' (l1 : list Z) x l2 i v : plen l1 = i -> pset (l1 ++ x :: l2) i v = Some (l1 ++ v :: l2).
Proof. intros <-. apply pset_app_mid. Qed.

Lemma offs_at init (pre : list (Z * Z)) tp op s : tidx (init :: map snd (pre ++ (tp, op) :: s)) (plen pre + 1) = op.
Proof.
  rewrite map_app. cbn [map snd]. change (init :: map snd pre ++ op :: map snd s) with ((init :: map snd pre) ++ op :: map snd s).
  apply tidx_app_mid'. rewrite plen_cons, plen_map. reflexivity.
Qed.
Lemma offs_next init (pre : list (Z * Z)) tp op t o s : tidx (init :: map snd (pre ++ (tp, op) :: (t, o) :: s)) (plen pre + 2) = o.
Proof.
  replace (pre ++ (tp, op) :: (t, o) :: s) with ((pre ++ [(tp, op)]) ++ (t, o) :: s) by (rewrite <- app_assoc; reflexivity).
  replace (plen pre + 2) with (plen (pre ++ [(tp, op)]) + 1) by (rewrite plen_app, plen_cons, plen_nil; lia).
  apply offs_at.
Qed.

(* the loop: the transitions pre ++ [(tp,op)] are done, suf is left; both rows = finished prefix ++ the raw UTC times of suf *)
Lemma for1_spec init (tr : list (Z * Z)) : forall (suf pre : list (Z * Z)) tp op PA PB off0 off1,
  tr = pre ++ (tp, op) :: suf -> plen PA = plen pre + 1 -> plen PB = plen pre + 1 ->
  exists a b,
  sl_ts_to_local_for1 (length suf) (plen pre + 1) (init :: map snd tr) (map Z.of_nat (seq 1 (length tr))) off0 off1
    [PA ++ map fst suf; PB ++ map fst suf]
  = Ok (a, b, [PA ++ walls_l false op suf; PB ++ walls_l true op suf]).
Proof.
  induction suf as [|[t o] suf IH]; intros pre tp op PA PB off0 off1 Htr HA HB.
  - cbn [length sl_ts_to_local_for1 map walls_l]. eexists. eexists. reflexivity.
  - cbn [length sl_ts_to_local_for1 map fst].
    assert (Hlen : Z.of_nat (length tr) = plen pre + 2 + plen suf).
    { rewrite Htr, app_length. cbn [length]. unfold plen. lia. }
    pose proof (plen_nonneg pre) as Hp. pose proof (plen_nonneg suf) as Hs.
    replace (plen pre + 1 - 1) with (plen pre) by lia.
    rewrite !tidx_seq1 by lia.
    replace (plen pre + 1 + 1) with (plen pre + 2) by lia.
    rewrite Htr, offs_at, offs_next. rewrite <- Htr.
    rewrite !tidx2_0.
    destruct (o >? op) eqn:Eo; cbv beta iota zeta.
    + ( rewrite pset2_row0, (tidx_app_mid' PA t (map fst suf) _ HA), (pset_app_mid' PA t (map fst suf) _ _ HA);
      rewrite tidx2_1, pset2_row1, (tidx_app_mid' PB t (map fst suf) _ HB), (pset_app_mid' PB t (map fst suf) _ _ HB);
      specialize (IH (pre ++ [(tp, op)]) t o (PA ++ [t + o]) (PB ++ [t + op]) o op);
      rewrite !plen_app, !plen_cons, !plen_nil in IH; change (@plen (Z * Z) []) with 0 in IH;
      destruct IH as (a & b & IH); [rewrite Htr, <- app_assoc; reflexivity | lia | lia |];
      exists a, b;
      replace (plen pre + (0 + 1) + 1) with (plen pre + 2) in IH by lia;
      rewrite <- !app_assoc in IH; cbn [app] in IH; rewrite IH;
      cbn [walls_l]; unfold wallb; replace (Z.max op o) with o by lia; replace (Z.min op o) with op by lia; reflexivity ).
    + ( rewrite pset2_row0, (tidx_app_mid' PA t (map fst suf) _ HA), (pset_app_mid' PA t (map fst suf) _ _ HA);
      rewrite tidx2_1, pset2_row1, (tidx_app_mid' PB t (map fst suf) _ HB), (pset_app_mid' PB t (map fst suf) _ _ HB);
      specialize (IH (pre ++ [(tp, op)]) t o (PA ++ [t + op]) (PB ++ [t + o]) op o);
      rewrite !plen_app, !plen_cons, !plen_nil in IH; change (@plen (Z * Z) []) with 0 in IH;
      destruct IH as (a & b & IH); [rewrite Htr, <- app_assoc; reflexivity | lia | lia |];
      exists a, b;
      replace (plen pre + (0 + 1) + 1) with (plen pre + 2) in IH by lia;
      rewrite <- !app_assoc in IH; cbn [app] in IH; rewrite IH;
      cbn [walls_l]; unfold wallb; replace (Z.max op o) with op by lia; replace (Z.min op o) with o by lia; reflexivity ).
Qed.

Theorem sl_ts_to_local_spec z :
  sl_ts_to_local (enc_idx z) (enc_utc z) (enc_offs z) = Ok [walls z false; walls z true].
Proof.
  destruct z as [init tr]. unfold enc_idx, enc_utc, enc_offs, enc_tti, walls. cbn [z_init z_trans].
  destruct tr as [|[t1 o1] r]; [reflexivity|].
  unfold sl_ts_to_local.
  replace (plen (map fst ((t1, o1) :: r)) =? 0) with false
    by (rewrite plen_map, plen_cons; pose proof (plen_nonneg r); lia).
  cbn [negb].
  replace (plen (init :: map snd ((t1, o1) :: r)) >? 1) with true
    by (rewrite plen_cons, plen_map, plen_cons; pose proof (plen_nonneg r); lia).
  rewrite tidx_0. cbn [length seq map fst snd]. rewrite tidx_0.
  change (tidx (init :: o1 :: map snd r) (Z.of_nat 1)) with (tidx ([init] ++ o1 :: map snd r) (plen [init])).
  rewrite tidx_app_mid.
  pose proof (for1_spec init ((t1, o1) :: r) r [] t1 o1) as L. cbn [app plen length Z.of_nat Z.add] in L.
  change (plen (@nil (Z * Z)) + 1) with 1 in L. cbn [length map fst snd seq] in L.
  assert (pset_0 : forall (x : Z) l v, pset (x :: l) 0 v = Some (v :: l)) by (intros; exact (pset_app_mid [] x l v)).
  replace (plen (Z.of_nat 1 :: map Z.of_nat (seq 2 (length r))) - 1) with (Z.of_nat (length r))
    by (rewrite plen_cons, plen_map; unfold plen; rewrite seq_length; lia).
  rewrite Nat2Z.id.
  destruct (o1 >? init) eqn:E; cbv beta iota zeta;
  rewrite tidx2_0, pset2_row0, tidx_0, pset_0; cbv beta iota;
  rewrite tidx2_1, pset2_row1, tidx_0, pset_0; cbv beta iota.
  - destruct (L [t1 + o1] [t1 + init] o1 init eq_refl eq_refl eq_refl) as (a & b & H).
    cbn [app] in H. rewrite H. cbn [walls_l]. unfold wallb. replace (Z.max init o1) with o1 by lia. replace (Z.min init o1) with init by lia. reflexivity.
  - destruct (L [t1 + init] [t1 + o1] init o1 eq_refl eq_refl eq_refl) as (a & b & H).
    cbn [app] in H. rewrite H. cbn [walls_l]. unfold wallb. replace (Z.max init o1) with init by lia. replace (Z.min init o1) with o1 by lia. reflexivity.
Qed.

(* ---------- _find_trans / utcoffset ---------- *)
(* Spec/Zone.v's off_local_l is "the offset in force at the insertion point of w in the wall thresholds" *)
Lemma off_local_bisect f : forall tr init w,
  off_local_l init tr w f = nth (Z.to_nat (bisect_right (walls_l f init tr) w)) (init :: map snd tr) 0.
Proof.
  induction tr as [|[t o] r IH]; intros init w; [reflexivity|].
  cbn [off_local_l walls_l bisect_right map snd]. destruct (w <? t + wallb f init o); [reflexivity|].
  pose proof (bisect_right_bounds (walls_l f o r) w) as B.
  rewrite Z2Nat.inj_add by lia. change (Z.to_nat 1) with 1%nat. cbn [Nat.add nth]. apply IH.
Qed.

Lemma last_nonempty_default {A} (l : list A) : forall x a b, last (x :: l) a = last (x :: l) b.
Proof. induction l as [|y l IH]; intros x a b; [reflexivity|]. change (last (y :: l) a = last (y :: l) b). apply IH. Qed.

Lemma nth_length_last {A} (l : list A) a d : nth (length l) (a :: l) d = last l a.
Proof.
  revert a. induction l as [|b l IH]; intros a; [reflexivity|].
  change (nth (length (b :: l)) (a :: b :: l) d) with (nth (length l) (b :: l) d). rewrite IH.
  destruct l as [|c l]; [reflexivity|]. change (last (b :: c :: l) a) with (last (c :: l) a). apply last_nonempty_default.
Qed.

Lemma walls_l_plen f init tr : plen (walls_l f init tr) = plen tr.
Proof. unfold plen. now rewrite walls_l_length. Qed.

Theorem sl_find_trans_spec z dt (f : bool) :
  dt_fold dt = Z.b2z f -> sortedb (walls z f) = true ->
  sl_find_trans (stdlib_zone z) dt = Ok (off_local z (sl_get_local_timestamp (stdlib_zone z) dt) f).
Proof.
  intros Hf Hs. unfold sl_find_trans. cbv zeta. set (ts := sl_get_local_timestamp (stdlib_zone z) dt). clearbody ts.
  cbn [stdlib_zone sz_trans_local sz_tti_before sz_tz_after sz_ttinfos]. rewrite Hf.
  assert (EW : tidx2 [walls z false; walls z true] (Z.b2z f) = walls z f) by (destruct f; reflexivity).
  rewrite EW. clear EW. unfold off_local. rewrite (off_local_bisect f). unfold walls, enc_tti in *.
  destruct z as [init tr]. cbn [z_init z_trans] in *.
  set (W := walls_l f init tr) in *. set (os := map snd tr).
  assert (HW : plen W = plen os) by (subst W os; rewrite walls_l_plen, plen_map; reflexivity).
  pose proof (bisect_right_bounds W ts) as B.
  destruct W as [|x W'] eqn:EWl.
  - (* no transition *)
    assert (os = []) by (destruct os; [reflexivity|rewrite plen_cons in HW; pose proof (plen_nonneg os); unfold plen in HW; cbn in HW; lia]).
    rewrite H. reflexivity.
  - replace (negb (plen (x :: W') =? 0)) with true by (rewrite plen_cons; pose proof (plen_nonneg W'); lia).
    rewrite tidx_0. cbn [andb negb orb]. destruct (ts <? x) eqn:E1; [cbn [bisect_right]; rewrite E1; reflexivity|].
    assert (G1 : 1 <= bisect_right (x :: W') ts).
    { cbn [bisect_right]. rewrite E1. pose proof (bisect_right_bounds W' ts). lia. }
    destruct (exists_last (l := x :: W') ltac:(discriminate)) as (W0 & y & EL). rewrite EL in *.
    rewrite tidx_last. destruct (ts >? y) eqn:E2.
    + (* above the last threshold: _tz_after *)
      rewrite bisect_right_above_last by (assumption || lia). rewrite HW. unfold plen. rewrite Nat2Z.id.
      rewrite nth_length_last. reflexivity.
    + set (b := bisect_right (W0 ++ [y]) ts) in *.
      replace (b - 1 >=? 0) with true by lia.
      rewrite tidx_nth by lia. replace b with (1 + (b - 1)) at 2 by lia.
      rewrite Z2Nat.inj_add by lia. change (Z.to_nat 1) with 1%nat. cbn [Nat.add nth].
      f_equal. apply nth_indep. apply Nat2Z.inj_lt. rewrite Z2Nat.id by lia. fold (plen os). lia.
Qed.

Theorem sl_utcoffset_spec z dt (f : bool) :
  dt_fold dt = Z.b2z f -> sortedb (walls z f) = true ->
  sl_utcoffset (stdlib_zone z) dt = Ok (off_local z (sl_get_local_timestamp (stdlib_zone z) dt) f).
Proof. intros Hf Hs. unfold sl_utcoffset. rewrite (sl_find_trans_spec z dt f Hf Hs). reflexivity. Qed.

(* ---------- well-formed tables hand sorted lists to bisect_right (its contract) ---------- *)
Lemma wf_walls_sorted f : forall tr init, wf_l init tr = true -> sortedb (walls_l f init tr) = true.
Proof.
  induction tr as [|[t o] r IH]; intros init H; [reflexivity|].
  cbn [wf_l] in H. apply andb_true_iff in H. destruct H as [H1 H2]. specialize (IH o H2).
  destruct r as [|[t2 o2] r']; [reflexivity|].
  change (walls_l f init ((t, o) :: (t2, o2) :: r')) with (t + wallb f init o :: walls_l f o ((t2, o2) :: r')).
  change (walls_l f o ((t2, o2) :: r')) with (t2 + wallb f o o2 :: walls_l f o2 r') in *.
  change (sortedb (?a :: ?b :: ?l)) with ((a <=? b) && sortedb (b :: l)). rewrite IH.
  unfold wallb. destruct f; lia.
Qed.

Lemma wf_utc_sorted : forall tr init, wf_l init tr = true -> sortedb (map fst tr) = true.
Proof.
  induction tr as [|[t o] r IH]; intros init H; [reflexivity|].
  cbn [wf_l] in H. apply andb_true_iff in H. destruct H as [H1 H2]. specialize (IH o H2).
  destruct r as [|[t2 o2] r']; [reflexivity|]. cbn [map fst] in *.
  change (sortedb (?a :: ?b :: ?l)) with ((a <=? b) && sortedb (b :: l)). rewrite IH. lia.
Qed.

Theorem wf_zone_walls_sorted z f : wf_zone z = true -> sortedb (walls z f) = true.
Proof. apply wf_walls_sorted. Qed.
Theorem wf_zone_utc_sorted z : wf_zone z = true -> sortedb (enc_utc z) = true.
Proof. apply wf_utc_sorted. Qed.

(* ---------- the epoch shift, explicit ----------
   Spec/Zone.v and the harness count seconds from 0001-01-01T00:00:00 (ordinal 1); zoneinfo counts from 1970-01-01 (EPOCHORDINAL). *)
Definition EPOCH_S : Z := 62135596800.
Definition wall_second (d : sdt) : Z := (dt_ord d - 1) * 86400 + dt_hour d * 3600 + dt_minute d * 60 + dt_second d.
Definition shift_zone (k : Z) (z : zone) : zone := mkzone (z_init z) (map (fun p => (fst p + k, snd p)) (z_trans z)).
Definition unix_zone (z : zone) : zone := shift_zone (- EPOCH_S) z.

Lemma sl_EPOCHORDINAL_is_spec : sl_EPOCHORDINAL = ymd2ord 1970 1 1 /\ EPOCH_S = (sl_EPOCHORDINAL - 1) * 86400.
Proof. split; vm_compute; reflexivity. Qed.

Lemma sl_get_local_timestamp_spec S d : sl_get_local_timestamp S d = wall_second d - EPOCH_S.
Proof. unfold sl_get_local_timestamp, wall_second, dt_toordinal, sl_EPOCHORDINAL, EPOCH_S. lia. Qed.

Lemma off_local_l_shift k f : forall tr init w,
  off_local_l init (map (fun p => (fst p + k, snd p)) tr) (w + k) f = off_local_l init tr w f.
Proof.
  induction tr as [|[t o] r IH]; intros init w; [reflexivity|]. cbn [map fst snd off_local_l]. rewrite IH.
  replace (w + k <? t + k + wallb f init o) with (w <? t + wallb f init o) by lia. reflexivity.
Qed.
Lemma off_utc_l_shift k : forall tr init u,
  off_utc_l init (map (fun p => (fst p + k, snd p)) tr) (u + k) = off_utc_l init tr u.
Proof.
  induction tr as [|[t o] r IH]; intros init u; [reflexivity|]. cbn [map fst snd off_utc_l]. rewrite IH.
  replace (u + k <? t + k) with (u <? t) by lia. reflexivity.
Qed.
Lemma fold_utc_l_shift k : forall tr init u acc,
  fold_utc_l init (map (fun p => (fst p + k, snd p)) tr) (u + k) acc = fold_utc_l init tr u acc.
Proof.
  induction tr as [|[t o] r IH]; intros init u acc; [reflexivity|]. cbn [map fst snd fold_utc_l]. rewrite IH.
  replace (u + k <? t + k) with (u <? t) by lia. replace (u + k - (t + k)) with (u - t) by lia. reflexivity.
Qed.
Lemma wf_l_shift k : forall tr init, wf_l init (map (fun p => (fst p + k, snd p)) tr) = wf_l init tr.
Proof.
  induction tr as [|[t o] r IH]; intros init; [reflexivity|]. cbn [map fst snd wf_l]. rewrite IH.
  destruct r as [|[t2 o2] r']; [reflexivity|]. cbn [map fst snd]. f_equal. lia.
Qed.

Lemma off_local_shift k z w f : off_local (shift_zone k z) (w + k) f = off_local z w f.
Proof. apply off_local_l_shift. Qed.
Lemma off_utc_shift k z u : off_utc (shift_zone k z) (u + k) = off_utc z u.
Proof. apply off_utc_l_shift. Qed.
Lemma fold_utc_shift k z u : fold_utc (shift_zone k z) (u + k) = fold_utc z u.
Proof. apply fold_utc_l_shift. Qed.
Lemma wf_zone_shift k z : wf_zone (shift_zone k z) = wf_zone z.
Proof. apply wf_l_shift. Qed.

(* ZoneInfo.utcoffset, final form: z in the convention of Spec/Zone.v (seconds since 0001-01-01), the ZoneInfo object holding the same
   table in Unix seconds, any datetime (any integers in its fields), fold 0 or 1 *)
Theorem sl_utcoffset_is_off_local z d (f : bool) :
  wf_zone z = true -> dt_fold d = Z.b2z f ->
  sl_utcoffset (stdlib_zone (unix_zone z)) d = Ok (off_local z (wall_second d) f).
Proof.
  intros W Hf. rewrite (sl_utcoffset_spec _ d f Hf).
  - rewrite sl_get_local_timestamp_spec. unfold unix_zone. replace (wall_second d - EPOCH_S) with (wall_second d + - EPOCH_S) by lia.
    rewrite off_local_shift. reflexivity.
  - apply wf_zone_walls_sorted. unfold unix_zone. rewrite wf_zone_shift. exact W.
Qed.

(* ---------- fromutc ---------- *)
Definition all_le (u : Z) (tr : list (Z * Z)) : Prop := forall p, In p tr -> fst p <= u.
Definition head_gt (u : Z) (tr : list (Z * Z)) : Prop := match tr with [] => True | p :: _ => u < fst p end.

Lemma last_cons_shift {A} (l : list A) a d : last (a :: l) d = last l a.
Proof. destruct l as [|b l]; [reflexivity|]. change (last (a :: b :: l) d) with (last (b :: l) d). apply last_nonempty_default. Qed.

(* every table splits at u: a prefix of transitions at or before u, then a transition after u (or nothing) *)
Lemma split_at u : forall tr : list (Z * Z), exists pre suf, tr = pre ++ suf /\ all_le u pre /\ head_gt u suf.
Proof.
  induction tr as [|[t o] r IH].
  - exists [], []. repeat split. intros ? [].
  - destruct (u <? t) eqn:E.
    + exists [], ((t, o) :: r). repeat split; [intros ? []|cbn; lia].
    + destruct IH as (pre & suf & -> & H1 & H2). exists ((t, o) :: pre), suf. repeat split; auto.
      intros p [<-|Hp]; [cbn; lia|auto].
Qed.

Lemma off_utc_l_prefix u : forall tr0 init rest, all_le u tr0 ->
  off_utc_l init (tr0 ++ rest) u = off_utc_l (last (map snd tr0) init) rest u.
Proof.
  induction tr0 as [|[t o] r IH]; intros init rest H; [reflexivity|].
  cbn [app off_utc_l map snd]. assert (t <= u) by (apply (H (t, o)); left; reflexivity).
  replace (u <? t) with false by lia. rewrite IH by (intros p Hp; apply H; right; exact Hp).
  rewrite last_cons_shift. reflexivity.
Qed.

Lemma fold_utc_l_at u tl ol tr2 : forall tr0 init acc, all_le u tr0 -> tl <= u -> head_gt u tr2 ->
  fold_utc_l init (tr0 ++ (tl, ol) :: tr2) u acc = (u - tl <? last (map snd tr0) init - ol).
Proof.
  induction tr0 as [|[t o] r IH]; intros init acc H Hl Hg.
  - cbn [app fold_utc_l map last]. replace (u <? tl) with false by lia.
    destruct tr2 as [|[t2 o2] r2]; [reflexivity|]. cbn [fold_utc_l]. cbn in Hg. replace (u <? t2) with true by lia. reflexivity.
  - cbn [app fold_utc_l map snd]. assert (t <= u) by (apply (H (t, o)); left; reflexivity).
    replace (u <? t) with false by lia. rewrite IH by (auto; intros p Hp; apply H; right; exact Hp).
    rewrite last_cons_shift. reflexivity.
Qed.

Lemma off_utc_l_at u tl ol tr2 tr0 init : all_le u tr0 -> tl <= u -> head_gt u tr2 ->
  off_utc_l init (tr0 ++ (tl, ol) :: tr2) u = ol.
Proof.
  intros H Hl Hg. rewrite off_utc_l_prefix by assumption. cbn [off_utc_l]. replace (u <? tl) with false by lia.
  destruct tr2 as [|[t2 o2] r2]; [reflexivity|]. cbn [off_utc_l]. cbn in Hg. replace (u <? t2) with true by lia. reflexivity.
Qed.

Lemma bisect_right_at u tl (tr2 : list (Z * Z)) : forall tr0 : list (Z * Z), all_le u tr0 -> tl <= u -> head_gt u tr2 ->
  bisect_right (map fst tr0 ++ tl :: map fst tr2) u = plen tr0 + 1.
Proof.
  induction tr0 as [|[t o] r IH]; intros H Hl Hg.
  - cbn [map app bisect_right]. replace (u <? tl) with false by lia.
    destruct tr2 as [|[t2 o2] r2]; [reflexivity|]. cbn [map fst bisect_right]. cbn in Hg. replace (u <? t2) with true by lia. reflexivity.
  - cbn [map fst app bisect_right]. assert (t <= u) by (apply (H (t, o)); left; reflexivity).
    replace (u <? t) with false by lia. rewrite IH by (auto; intros p Hp; apply H; right; exact Hp). rewrite plen_cons. lia.
Qed.

Lemma ok_if {A} (c : bool) (a b : A) : (if c then Ok a else Ok b) = Ok (if c then a else b).
Proof. destruct c; reflexivity. Qed.

Definition fromutc_result (d : sdt) (off : Z) (fold : bool) : sdt :=
  let d' := sdt_add d off in if fold then sdt_replace_fold d' 1 else d'.

Lemma sl_fromutc_at init (tr0 : list (Z * Z)) tl ol tr2 d :
  let z := mkzone init (tr0 ++ (tl, ol) :: tr2) in
  let u := sl_get_local_timestamp (stdlib_zone z) d in
  all_le u tr0 -> tl <= u -> head_gt u tr2 -> sortedb (enc_utc z) = true ->
  (tr0 = [] -> tr2 = [] -> False) ->
  sl_fromutc (stdlib_zone z) d = Ok (fromutc_result d ol (u - tl <? last (map snd tr0) init - ol)).
Proof.
  intros z u H0 Hl Hg Hs Hn. unfold sl_fromutc. cbv zeta. fold u. clearbody u.
  cbn [stdlib_zone sz_trans_utc sz_tti_before sz_tz_after sz_ttinfos]. unfold enc_utc, enc_tti in *. subst z. cbn [z_init z_trans] in *.
  rewrite !map_app in *. cbn [map fst snd] in *.
  rewrite (bisect_right_at u tl tr2 tr0 H0 Hl Hg).
  set (T := map fst tr0 ++ tl :: map fst tr2) in *. set (os := map snd tr0 ++ ol :: map snd tr2).
  assert (HnT : plen T = plen tr0 + 1 + plen tr2) by (subst T; rewrite plen_app, plen_cons, !plen_map; lia).
  pose proof (plen_nonneg tr0) as P0. pose proof (plen_nonneg tr2) as P2.
  assert (F0 : tidx T 0 <= u).
  { subst T. destruct tr0 as [|[t o] r]; cbn [map fst app]; rewrite tidx_0; [exact Hl|]. apply (H0 (t, o)). left. reflexivity. }
  replace ((plen T >=? 1) && (u <? tidx T 0)) with false by lia.
  replace (plen T =? 0) with false by lia.
  replace (plen tr0 + 1 - 1) with (plen tr0) by lia.
  assert (Fk : tidx T (plen tr0) = tl) by (subst T; apply tidx_app_mid'; apply plen_map).
  rewrite Fk. unfold td_total_seconds, tti_utcoff, fromutc_result. cbv zeta.
  subst T os. destruct tr0 as [|p0 tr0'].
  - (* the first transition is the one in force *)
    destruct tr2 as [|[t2 o2] tr2']; [exfalso; apply Hn; reflexivity|]. cbn in Hg.
    cbn [map fst snd app] in *.
    change (tidx (tl :: t2 :: map fst tr2') 1) with (tidx ([tl] ++ t2 :: map fst tr2') (plen [tl])). rewrite tidx_app_mid.
    replace ((plen (tl :: t2 :: map fst tr2') >? 1) && (u >=? t2)) with false by lia.
    destruct (exists_last (l := t2 :: map fst tr2') ltac:(discriminate)) as (W0 & y & EL).
    assert (Hy : t2 <= y).
    { destruct (sortedb_cons _ _ Hs) as [Hs2 _]. destruct (sortedb_cons _ _ Hs2) as [_ Hall].
      assert (In y (t2 :: map fst tr2')) as [<-|Hin] by (rewrite EL; apply in_or_app; right; left; reflexivity); [lia|auto]. }
    change (tl :: t2 :: map fst tr2') with ([tl] ++ (t2 :: map fst tr2')). rewrite EL, app_assoc, tidx_last.
    replace (u >? y) with false by lia. rewrite tidx_0.
    replace (init - ol >? u - tl) with (u - tl <? init - ol) by lia. apply ok_if.
  - destruct (exists_last (l := p0 :: tr0') ltac:(discriminate)) as (tr00 & [tq p] & EL). rewrite EL in *.
    clear EL. pose proof (plen_nonneg tr00) as P00.
    assert (Hp0 : plen (tr00 ++ [(tq, p)]) = plen tr00 + 1) by (rewrite plen_app, plen_cons; reflexivity).
    set (T := map fst (tr00 ++ [(tq, p)]) ++ tl :: map fst tr2) in *.
    assert (F1 : tidx T 1 <= u).
    { rewrite tidx_nth by lia. subst T.
      assert (In (nth (Z.to_nat 1) (map fst (tr00 ++ [(tq, p)]) ++ tl :: map fst tr2) OOB) (map fst (tr00 ++ [(tq, p)]) ++ [tl])).
      { replace (map fst (tr00 ++ [(tq, p)]) ++ tl :: map fst tr2) with ((map fst (tr00 ++ [(tq, p)]) ++ [tl]) ++ map fst tr2)
          by (rewrite <- app_assoc; reflexivity).
        rewrite app_nth1; [apply nth_In|]; rewrite app_length, map_length, app_length; cbn [length]; lia. }
      apply in_app_or in H. destruct H as [H|[<-|[]]]; [|exact Hl].
      apply in_map_iff in H. destruct H as (q & <- & Hq). apply H0. exact Hq. }
    replace ((plen T >? 1) && (u >=? tidx T 1)) with true by lia.
    rewrite map_app. cbn [map snd]. rewrite <- app_assoc. cbn [app].
    replace (plen (tr00 ++ [(tq, p)]) + 1 - 2) with (plen (map snd tr00)) by (rewrite plen_map; lia).
    replace (plen (tr00 ++ [(tq, p)]) + 1) with (plen (map snd tr00) + 2) by (rewrite plen_map; lia).
    rewrite pslice_pair. rewrite last_last.
    replace (p - ol >? u - tl) with (u - tl <? p - ol) by lia. apply ok_if.
Qed.

(* ZoneInfo.fromutc on a table that does not consist of exactly one transition *)
Theorem sl_fromutc_spec z d :
  sortedb (enc_utc z) = true -> length (z_trans z) <> 1%nat ->
  let u := sl_get_local_timestamp (stdlib_zone z) d in
  sl_fromutc (stdlib_zone z) d = Ok (fromutc_result d (off_utc z u) (fold_utc z u)).
Proof.
  intros Hs Hn u. assert (Eu : u = wall_second d - EPOCH_S) by apply sl_get_local_timestamp_spec. clearbody u.
  destruct z as [init tr]. unfold off_utc, fold_utc. cbn [z_init z_trans] in *.
  destruct (split_at u tr) as (pre & suf & E & H1 & H2).
  destruct pre as [|p0 pre'].
  - (* u is before the first transition, or there is none *)
    cbn [app] in E. subst suf. unfold sl_fromutc. cbv zeta. rewrite sl_get_local_timestamp_spec, <- Eu.
    cbn [stdlib_zone sz_trans_utc sz_tti_before sz_tz_after sz_ttinfos]. unfold enc_utc, enc_tti. cbn [z_init z_trans].
    destruct tr as [|[t1 o1] r]; [reflexivity|]. cbn in H2. cbn [map fst]. rewrite tidx_0.
    replace ((plen (t1 :: map fst r) >=? 1) && (u <? t1)) with true by (rewrite plen_cons; pose proof (plen_nonneg (map fst r)); lia).
    cbn [off_utc_l fold_utc_l]. replace (u <? t1) with true by lia. reflexivity.
  - destruct (exists_last (l := p0 :: pre') ltac:(discriminate)) as (tr0 & [tl ol] & EL). rewrite EL in *. clear EL.
    rewrite <- app_assoc in E. cbn [app] in E. subst tr.
    assert (H0 : all_le u tr0) by (intros q Hq; apply H1, in_or_app; left; exact Hq).
    assert (Hl : tl <= u) by (apply (H1 (tl, ol)), in_or_app; right; left; reflexivity).
    pose proof (sl_fromutc_at init tr0 tl ol suf d) as L. cbv zeta in L. rewrite sl_get_local_timestamp_spec, <- Eu in L.
    rewrite L; auto.
    + rewrite off_utc_l_at, fold_utc_l_at by assumption. reflexivity.
    + intros -> ->. apply Hn. reflexivity.
Qed.

(* exactly one transition (and no POSIX tail): here the pure-Python fromutc LOSES the fold after the first repeated second
   (branch `elif timestamp > self._trans_utc[-1]: tti_prev = self._ttinfos[-1]; tti = self._tz_after`, both the same _ttinfo) *)
Theorem sl_fromutc_single init t o d :
  let z := mkzone init [(t, o)] in
  let u := sl_get_local_timestamp (stdlib_zone z) d in
  sl_fromutc (stdlib_zone z) d = Ok (fromutc_result d (off_utc z u) (fold_utc z u && (u <=? t))).
Proof.
  intros z u. assert (Eu : u = wall_second d - EPOCH_S) by apply sl_get_local_timestamp_spec. clearbody u.
  unfold sl_fromutc. cbv zeta. rewrite sl_get_local_timestamp_spec, <- Eu. subst z.
  cbn [stdlib_zone sz_trans_utc sz_tti_before sz_tz_after sz_ttinfos]. unfold enc_utc, enc_tti, off_utc, fold_utc. cbn [z_init z_trans map fst snd last].
  rewrite tidx_0. change (plen [t]) with 1. change (bisect_right [t] u) with (if u <? t then 0 else 1 + 0).
  cbn [off_utc_l fold_utc_l]. unfold td_total_seconds, tti_utcoff, fromutc_result. cbv zeta.
  change (1 >=? 1) with true. change (1 =? 0) with false. change (1 >? 1) with false. cbn [andb].
  destruct (u <? t) eqn:E1; [reflexivity|]. cbn [andb].
  change (tidx [t] (-1)) with t. change (tidx [o] (-1)) with o. change (tidx [o] 0) with o. change (tidx [t] (1 + 0 - 1)) with t.
  destruct (u >? t) eqn:E2; cbv beta iota.
  - replace (u <=? t) with false by lia. rewrite andb_false_r. replace (o - o >? u - t) with false by lia. reflexivity.
  - replace (u <=? t) with true by lia. rewrite andb_true_r. replace (init - o >? u - t) with (u - t <? init - o) by lia. apply ok_if.
Qed.

(* ... so on such a table the translated stdlib function and Spec/Zone.v (and CPython's C implementation) differ: *)
Theorem sl_fromutc_single_refuted :
  exists z d, wf_zone z = true /\ length (z_trans z) = 1%nat /\
    let u := sl_get_local_timestamp (stdlib_zone z) d in
    sl_fromutc (stdlib_zone z) d <> Ok (fromutc_result d (off_utc z u) (fold_utc z u)).
Proof.
  exists (mkzone 7200 [(1000000, 3600)]), (mksdt 719174 13 46 41 0). split; [reflexivity|]. split; [reflexivity|].
  vm_compute. discriminate.
Qed.

(* ---------- fromutc, final form: the result as (wall second, fold) = Spec/Zone.v's render at second granularity ---------- *)
Ltac Zify.zify_post_hook ::= Z.to_euclidean_division_equations.
Lemma wall_second_add d s : wall_second (sdt_add d s) = wall_second d + s /\ dt_fold (sdt_add d s) = 0.
Proof. unfold wall_second, sdt_add. cbn [dt_ord dt_hour dt_minute dt_second dt_fold]. split; [|reflexivity]. lia. Qed.

Lemma fromutc_result_fields d off (f : bool) :
  wall_second (fromutc_result d off f) = wall_second d + off /\ dt_fold (fromutc_result d off f) = Z.b2z f.
Proof.
  unfold fromutc_result. cbv zeta. destruct (wall_second_add d off) as [H1 H2]. destruct f; cbn [Z.b2z]; [|tauto].
  unfold sdt_replace_fold, wall_second in *. cbn [dt_ord dt_hour dt_minute dt_second dt_fold] in *. split; [exact H1|reflexivity].
Qed.

Theorem sl_fromutc_is_render z d :
  wf_zone z = true -> length (z_trans z) <> 1%nat ->
  exists d', sl_fromutc (stdlib_zone (unix_zone z)) d = Ok d' /\
             wall_second d' = wall_second d + off_utc z (wall_second d) /\
             dt_fold d' = Z.b2z (fold_utc z (wall_second d)).
Proof.
  intros W Hn. pose proof (sl_fromutc_spec (unix_zone z) d) as L. cbv zeta in L.
  rewrite sl_get_local_timestamp_spec in L. change (unix_zone z) with (shift_zone (- EPOCH_S) z) in L.
  replace (wall_second d - EPOCH_S) with (wall_second d + - EPOCH_S) in L by lia.
  rewrite off_utc_shift, fold_utc_shift in L.
  eexists. split; [apply L|apply fromutc_result_fields].
  - apply wf_zone_utc_sorted. unfold unix_zone. rewrite wf_zone_shift. exact W.
  - unfold unix_zone, shift_zone. cbn [z_trans]. rewrite map_length. exact Hn.
Qed.

(* the statements are not vacuous *)
Example sl_zone_examples :
  let z := mkzone 3600 [(1000, 7200); (5000, 3600); (9000, 7200)] in
  wf_zone z = true /\
  sl_ts_to_local (enc_idx z) (enc_utc z) (enc_offs z) = Ok [[8200; 12200; 16200]; [4600; 8600; 12600]] /\
  sl_utcoffset (stdlib_zone z) (mksdt 719163 2 20 0 0) = Ok 7200 /\ sl_utcoffset (stdlib_zone z) (mksdt 719163 2 30 0 1) = Ok 3600 /\
  sl_fromutc (stdlib_zone z) (mksdt 719163 1 23 30 0) = Ok (mksdt 719163 2 23 30 1).
Proof. vm_compute. repeat split; reflexivity. Qed.

Lemma wf_zone_bisect_inputs_sorted z : wf_zone z = true ->
  sortedb (enc_utc z) = true /\ sortedb (walls z false) = true /\ sortedb (walls z true) = true.
Proof. intros W. exact (conj (wf_zone_utc_sorted z W) (conj (wf_zone_walls_sorted z false W) (wf_zone_walls_sorted z true W))). Qed.

(* ---------- bisect.py's own binary search (translated, Gen/StdlibZone.v sl_bisect_right_py) = the contract model on sorted lists ---------- *)
Lemma bisect_right_threshold a x j : sortedb a = true -> 0 <= j < plen a ->
  (x <? tidx a j) = (bisect_right a x <=? j).
Proof.
  intros S Hj. destruct (bisect_right_split a x) as (l1 & l2 & -> & Hk & H1 & H2). rewrite <- Hk.
  destruct (sortedb_app _ _ S) as (_ & S2 & _). rewrite plen_app in Hj. rewrite tidx_nth by (rewrite plen_app; lia).
  pose proof (plen_nonneg l1). destruct (Z_lt_ge_dec j (plen l1)) as [Hlt|Hge].
  - rewrite app_nth1 by (apply Nat2Z.inj_lt; rewrite Z2Nat.id by lia; exact Hlt).
    assert (nth (Z.to_nat j) l1 OOB <= x) by (apply H1, nth_In, Nat2Z.inj_lt; rewrite Z2Nat.id by lia; exact Hlt). lia.
  - rewrite app_nth2 by (apply Nat2Z.inj_ge; rewrite Z2Nat.id by lia; exact Hge).
    destruct l2 as [|b l2]; [unfold plen in *; cbn [length] in *; lia|]. destruct (sortedb_cons _ _ S2) as [_ Hb].
    assert (Hin : In (nth (Z.to_nat j - length l1) (b :: l2) OOB) (b :: l2)).
    { apply nth_In. rewrite plen_cons in Hj. unfold plen in *. cbn [length]. lia. }
    destruct Hin as [E|Hin]; [rewrite <- E; lia|]. specialize (Hb _ Hin). lia.
Qed.

Lemma sl_bisect_loop_spec a x : sortedb a = true -> forall fuel lo hi,
  0 <= lo <= bisect_right a x -> bisect_right a x <= hi <= plen a -> hi - lo < Z.of_nat fuel ->
  exists h, sl_bisect_right_py_loop1 fuel x a hi lo = Some (h, bisect_right a x).
Proof.
  intros Hsrt. induction fuel as [|fuel IH]; intros lo hi Hlo Hhi Hf; [lia|].
  cbn [sl_bisect_right_py_loop1]. destruct (lo <? hi) eqn:E.
  - cbv zeta. assert (Hm : lo <= (lo + hi) / 2 < hi) by (split; [apply Z.div_le_lower_bound|apply Z.div_lt_upper_bound]; lia).
    rewrite (bisect_right_threshold a x ((lo + hi) / 2) Hsrt) by lia.
    destruct (bisect_right a x <=? (lo + hi) / 2) eqn:E2; cbv beta iota zeta; apply IH; lia.
  - exists hi. f_equal. f_equal. lia.
Qed.

Theorem sl_bisect_right_py_spec a x : sortedb a = true -> sl_bisect_right_py a x = Some (bisect_right a x).
Proof.
  intros Hsrt. unfold sl_bisect_right_py. cbv zeta. pose proof (bisect_right_bounds a x) as B.
  destruct (sl_bisect_loop_spec a x Hsrt (S (length a)) 0 (plen a)) as (h & ->); [lia|lia|unfold plen; lia|reflexivity].
Qed.

(* the binary search never runs out of fuel, sorted or not *)
Lemma sl_bisect_loop_total a x : forall fuel lo hi, 0 <= hi - lo < Z.of_nat fuel ->
  sl_bisect_right_py_loop1 fuel x a hi lo <> None.
Proof.
  induction fuel as [|fuel IH]; intros lo hi Hf; [lia|].
  cbn [sl_bisect_right_py_loop1]. destruct (lo <? hi) eqn:E; [|discriminate].
  cbv zeta. assert (Hm : lo <= (lo + hi) / 2 < hi) by (split; [apply Z.div_le_lower_bound|apply Z.div_lt_upper_bound]; lia).
  destruct (x <? tidx a ((lo + hi) / 2)); cbv beta iota zeta; apply IH; lia.
Qed.

Theorem sl_bisect_right_py_total a x : sl_bisect_right_py a x <> None.
Proof.
  unfold sl_bisect_right_py. cbv zeta. pose proof (sl_bisect_loop_total a x (S (length a)) 0 (plen a)) as H.
  destruct (sl_bisect_right_py_loop1 (S (length a)) x a (plen a) 0) as [[h l]|]; [discriminate|].
  exfalso. apply H; [unfold plen; lia|reflexivity].
Qed.
