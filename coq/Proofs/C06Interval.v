(* Proofs/C06Interval.v — C06 at the level of the Interval glue (Model/PdInterval.v): the component properties computed from the
   PreciseDiff and the elapsed time, handed to DateTime.add / Date.add (`a + (b - a)`, add with those components), give the end. *)
From Coq Require Import ZArith List Bool Lia ZifyBool.
From PV Require Import Lib.Reflect Lib.PyBase Spec.Cal Proofs.CalFacts.
From PV Require Import Gen.Constants Gen.Helpers Gen.RustConstants Model.RustHelpers Model.PdBase Gen.PreciseDiff Model.RustPreciseDiff Model.PdInterval.
From PV Require Import Proofs.C06Facts Proofs.C06Spec Proofs.C06Dates Proofs.C06Rebuild.
Import ListNotations.
Ltac Zify.zify_post_hook ::= Z.to_euclidean_division_equations.
Open Scope Z_scope.

Lemma add_duration_weeks a Y M w d h mi s us : pd_add_duration a Y M w d h mi s us = pd_add_duration a Y M 0 (d + w * 7) h mi s us.
Proof. unfold pd_add_duration. replace (d + w * 7 + 0 * 7) with (d + w * 7) by lia. reflexivity. Qed.

(* the elapsed time of the interval on the domain: the difference of the walls *)
Lemma iv_elapsed_wall a b : wf_op a -> wf_op b -> kind_ok a b -> iv_elapsed a b = p_wall b - p_wall a.
Proof.
  intros (_ & _ & Oa) (_ & _ & Ob) K. unfold iv_elapsed, p_instant. rewrite Oa, Ob.
  destruct K as [-> | (-> & Ma & Mb)].
  - destruct (p_aware a); lia.
  - rewrite !p_wall_split, (midnight_tod a Ma), (midnight_tod b Mb). lia.
Qed.

(* the components of a non-negative interval with a canonical PreciseDiff *)
Lemma iv_components_canonical r E : in_ranges r -> 0 <= E ->
  let c := iv_components r E in
  iv_years c = pd_years r /\ iv_months c = pd_months r /\ iv_remaining_days c + iv_weeks c * 7 = pd_days r /\
  0 <= iv_weeks c /\ 0 <= iv_remaining_days c <= 6 /\
  iv_hours c = pd_hours r /\ iv_minutes c = pd_minutes r /\
  iv_remaining_seconds c = (E / 1000000) mod 60 /\ iv_microseconds c = E mod 1000000.
Proof.
  intros (RY & RM & RD & _) HE. unfold iv_components, sgn.
  cbn [iv_years iv_months iv_weeks iv_remaining_days iv_hours iv_minutes iv_remaining_seconds iv_microseconds].
  replace (E <? 0) with false by lia. replace (pd_days r <? 0) with false by lia.
  rewrite (Z.abs_eq E) by lia. rewrite (Z.abs_eq (pd_days r)) by lia. rewrite !Z.mul_1_r.
  set (secs := E / 1000000). assert (Hs : 0 <= secs) by (unfold secs; lia).
  replace (secs / 86400 <? 0) with false by lia. replace (secs mod 86400 <? 0) with false by lia.
  rewrite (Z.abs_eq (secs mod 86400)) by lia. rewrite !Z.mul_1_r.
  repeat split; try lia.
Qed.

(* the float-free part of the components: seconds and microseconds of the elapsed time are those of the PreciseDiff *)
Lemma elapsed_parts a b r : wf_op a -> wf_op b -> p_wall a < p_wall b -> pd_spec a b r ->
  ((p_wall b - p_wall a) / 1000000) mod 60 = pd_seconds r /\ (p_wall b - p_wall a) mod 1000000 = pd_microseconds r.
Proof.
  intros (_ & Ta & _) (_ & Tb & _) Hlt S. unfold pd_spec in S. cbv zeta in S.
  destruct S as (Rh & Rm & Rs & Ru & Ht & _).
  rewrite !p_wall_split. set (k := p_date_ord b - p_date_ord a).
  set (beta := if tod b <? tod a then 1 else 0) in *.
  set (S := (pd_hours r * 60 + pd_minutes r) * 60 + pd_seconds r) in *.
  assert (E : (p_date_ord b - 1) * us_per_day + tod b - ((p_date_ord a - 1) * us_per_day + tod a)
              = ((k - beta) * 86400 + S) * 1000000 + pd_microseconds r) by (unfold k, us_per_day in *; lia).
  rewrite E. clear E Ht. split.
  - replace ((((k - beta) * 86400 + S) * 1000000 + pd_microseconds r) / 1000000) with ((k - beta) * 86400 + S) by lia.
    unfold S. lia.
  - lia.
Qed.

Definition naive_of (a : pdt) : pdt :=
  mkpdt (p_year a) (p_month a) (p_day a) (p_hour a) (p_minute a) (p_second a) (p_microsecond a) 0 false 0 0 (p_is_dt a).

Lemma as_naive_wall a : wf_op a -> as_naive a (p_wall a) = naive_of a.
Proof.
  intros (Va & (T1 & T2 & T3 & T4) & _). unfold as_naive, p_wall. rewrite fields_of_wall_of by assumption. reflexivity.
Qed.

Lemma iv_rebuild_core a b r : wf_op a -> wf_op b -> kind_ok a b -> in_ranges r ->
  wall_in_range (p_wall a) = true -> wall_in_range (p_wall b) = true ->
  (p_is_dt a = false -> pd_hours r = 0 /\ pd_minutes r = 0 /\ pd_seconds r = 0 /\ pd_microseconds r = 0) ->
  0 <= p_wall b - p_wall a ->
  ((p_wall b - p_wall a) / 1000000) mod 60 = pd_seconds r -> (p_wall b - p_wall a) mod 1000000 = pd_microseconds r ->
  rebuilds (naive_of a) b r -> rebuilds a b r ->
  dt_add_ivc a (iv_components r (iv_elapsed a b)) = Ok (p_retz a b).
Proof.
  intros Wa Wb K R Hra Hrb Hz HE Hs Hu Hn Hd.
  rewrite (iv_elapsed_wall a b Wa Wb K).
  pose proof (iv_components_canonical r (p_wall b - p_wall a) R HE) as C. cbv zeta in C.
  set (c := iv_components r (p_wall b - p_wall a)) in *.
  destruct C as (C1 & C2 & C3 & C4 & C5 & C6 & C7 & C8 & C9). rewrite Hs in C8. rewrite Hu in C9.
  unfold dt_add_ivc, dt_add.
  destruct (p_is_dt a) eqn:Da.
  - assert (U : p_utcoffset a = 0) by (unfold p_utcoffset; destruct Wa as (_ & _ & ->); destruct (p_aware a); reflexivity).
    rewrite U. rewrite !Z.mul_0_l, !Z.sub_0_r. rewrite !if_same. rewrite Hra. cbn [negb].
    rewrite (as_naive_wall a Wa). rewrite add_duration_weeks. rewrite C1, C2, C3, C6, C7, C8, C9.
    unfold rebuilds in Hn. rewrite Hn. cbv beta iota. rewrite Z.add_0_r, !if_same.
    assert (Hw : p_wall (p_retz (naive_of a) b) = p_wall b) by reflexivity.
    rewrite Hw, Hrb. f_equal.
    destruct Wb as (Vb & (T1 & T2 & T3 & T4) & _). unfold p_of_wall, p_wall. rewrite fields_of_wall_of by assumption.
    unfold p_retz. rewrite Da. reflexivity.
  - destruct (Hz eq_refl) as (Z1 & Z2 & Z3 & Z4).
    rewrite add_duration_weeks. rewrite C1, C2, C3.
    unfold rebuilds in Hd. rewrite Z1, Z2, Z3, Z4 in Hd. rewrite Hd. reflexivity.
Qed.

(* from the specification *)
Lemma spec_iv_rebuilds a b r : wf_op a -> wf_op b -> kind_ok a b -> 1 <= p_year a -> p_year b <= 9999 -> p_wall a < p_wall b ->
  pd_spec a b r -> dt_add_ivc a (iv_components r (iv_elapsed a b)) = Ok (p_retz a b).
Proof.
  intros Wa Wb K Hya Hyb Hlt S.
  pose proof (elapsed_parts a b r Wa Wb Hlt S) as (Hs & Hu).
  assert (Hyab : p_year a <= p_year b).
  { destruct Wa as (Va & Ta & _). destruct Wb as (Vb & Tb & _).
    pose proof (wall_le_split a b Ta Tb ltac:(lia)) as Hsplit.
    assert (Hle : p_date_ord a <= p_date_ord b) by (clear - Hsplit; lia).
    pose proof (ord_le_lex a b Va Vb Hle). lia. }
  apply iv_rebuild_core; try assumption.
  - apply (spec_ranges a b); assumption.
  - destruct Wa as (Va & Ta & _). apply p_wall_in_range; [lia|assumption|assumption].
  - destruct Wb as (Vb & Tb & _). apply p_wall_in_range; [lia|assumption|assumption].
  - intros Da. destruct K as [K | (_ & Ma & Mb)]; [congruence|].
    unfold pd_spec in S. cbv zeta in S. destruct S as (Rh & Rm & Rs & Ru & Ht & _).
    rewrite (midnight_tod a Ma), (midnight_tod b Mb) in Ht. change (0 <? 0) with false in Ht. cbv iota in Ht. lia.
  - lia.
  - apply (spec_rebuilds (naive_of a) b r); try assumption.
    + destruct Wa as (Va & Ta & _). split; [exact Va|]. split; [exact Ta|reflexivity].
  - apply spec_rebuilds; assumption.
Qed.

Lemma zero_iv_rebuilds a b : wf_op a -> wf_op b -> kind_ok a b -> 1 <= p_year a <= 9999 -> p_wall a = p_wall b ->
  dt_add_ivc a (iv_components (mkPD 0 0 0 0 0 0 0 0) (iv_elapsed a b)) = Ok (p_retz a b).
Proof.
  intros Wa Wb K Hy E.
  assert (Hra : wall_in_range (p_wall a) = true) by (destruct Wa as (Va & Ta & _); apply p_wall_in_range; assumption).
  apply iv_rebuild_core; try assumption.
  - unfold in_ranges; cbn; lia.
  - rewrite <- E. assumption.
  - intros _. cbn. auto.
  - lia.
  - rewrite <- E, Z.sub_diag. reflexivity.
  - rewrite <- E, Z.sub_diag. reflexivity.
  - apply zero_rebuilds; try assumption.
    destruct Wa as (Va & Ta & _). split; [exact Va|]. split; [exact Ta|reflexivity].
  - apply zero_rebuilds; assumption.
Qed.
