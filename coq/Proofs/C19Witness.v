(* Proofs/C19Witness.v — concrete runs of the translated Interval.range (vm_compute): the defects of the current code as refutations,
   and satisfiability of the hypotheses used by the general theorems. *)
From Coq Require Import ZArith List Bool Lia ZifyBool.
From PV Require Import Lib.PyBase Spec.Cal Spec.Zone Spec.NativeDT Proofs.CalFacts Proofs.ZoneFacts.
From PV Require Import Model.TzConvert Model.IntervalRange Gen.IntervalRange Proofs.C19Facts Proofs.C19Mono Proofs.C19Zone.
Import ListNotations.
Ltac Zify.zify_post_hook ::= Z.to_euclidean_division_equations.
Open Scope Z_scope.

(* Pacific/Kiritimati around 1994-12-31 (the day that was skipped): window of the tz table as tools/vlib/zones.py reads it *)
Definition kiritimati : zone := mkzone (-36000) [(62924464800, 50400)].
Definition kiri_iv : interval :=
  mk_interval (mkdtv K_AWARE kiritimati false 1 62924299200000000 true)      (* 1994-12-29 12:00 -10:00 *)
              (mkdtv K_AWARE kiritimati false 1 62924731200000000 true)      (* 1995-01-03 12:00 +14:00 *)
              false.

(* a daily range over the skipped day yields 1995-01-01 12:00+14:00 twice: not strictly monotone *)
Lemma range_mono_refuted_l :
  exists iv fuel j x y,
    wf2_zone (dv_zone (iv_start iv)) = true /\ dv_kind (iv_start iv) = K_AWARE /\ wall_in_range (dv_W (iv_start iv)) = true /\
    range_down iv = false /\ snd (py_range fuel iv U_days 1) = GDone /\
    nth_error (fst (py_range fuel iv U_days 1)) j = Some x /\ nth_error (fst (py_range fuel iv U_days 1)) (S j) = Some y /\
    dv_W x = dv_W y /\ dv_inst x = dv_inst y /\ dt_lt x y = false.
Proof.
  exists kiri_iv, 10%nat, 2%nat,
    (mkdtv K_AWARE kiritimati false 1 62924558400000000 false), (mkdtv K_AWARE kiritimati false 1 62924558400000000 true).
  vm_compute. repeat split; reflexivity.
Qed.

(* the hypothesis of the wall-clock theorem is exactly what fails there: step 2 lands in a gap of 24 h, the step is 24 h *)
Lemma kiritimati_gap_as_long_as_step : ~ short_gaps kiri_iv U_days 1.
Proof.
  intros H. specialize (H 2%nat ltac:(lia)). vm_compute in H. discriminate H.
Qed.

(* America/New_York 2021-11-07: an hourly range whose end is 01:45 EDT (fold 0) yields 01:30 EST, 45 minutes AFTER the end:
   both ends share the tzinfo object, so <= compares the wall clocks *)
Definition new_york : zone := mkzone (-14400) [(63771861600, -18000)].
Lemma range_contained_instants_refuted_l :
  exists iv fuel x,
    wf2_zone (dv_zone (iv_start iv)) = true /\ range_down iv = false /\ snd (py_range fuel iv U_hours 1) = GDone /\
    In x (fst (py_range fuel iv U_hours 1)) /\ py_contains iv x = true /\ dv_inst (iv_end iv) < dv_inst x.
Proof.
  exists (mk_interval (mkdtv K_AWARE new_york false 1 63771841800000000 true) (mkdtv K_AWARE new_york false 1 63771846300000000 false) false),
         10%nat, (mkdtv K_AWARE new_york false 1 63771845400000000 true).
  vm_compute. repeat split; try reflexivity. right; right; left. reflexivity.
Qed.

(* an inverted (non-absolute) interval: the six values it yields, its own start and end among them, are all `in` it, the days next to its two
   ends are not (before __contains__ put the ends in ascending order nothing at all was `in` an inverted interval) *)
Definition d (n : Z) : dtv := mkdtv K_DATE (fixed_zone 0) false 0 (n * us_per_day) false.
Lemma contains_inverted_witness_l :
  let iv := mk_interval (d 737433) (d 737428) false in
  range_down iv = true /\ snd (py_range 10 iv U_days 1) = GDone /\ length (fst (py_range 10 iv U_days 1)) = 6%nat /\
  forallb (py_contains iv) (fst (py_range 10 iv U_days 1)) = true /\ py_contains iv (d 737434) = false /\ py_contains iv (d 737427) = false.
Proof. vm_compute. repeat split; reflexivity. Qed.

(* next to 9999-12-31 the generator stops after the last value: the value after the end (10000-01-01) cannot be computed, which ends the
   iteration (before the repair the OverflowError escaped: ([d 3652057; d 3652058], GRaise E_OverflowError)); same next to 0001-01-01 going down,
   where the year/month arithmetic raises ValueError *)
Lemma range_at_limit_witness_l :
  py_range 10 (mk_interval (d 3652057) (d 3652058) false) U_days 1 = ([d 3652057; d 3652058], GDone) /\
  seq_at (mk_interval (d 3652057) (d 3652058) false) U_days 1 2 = Raise E_OverflowError /\
  py_range 10 (mk_interval (d 31) (d 0) false) U_months 1 = ([d 31; d 0], GDone) /\
  limit_exn E_OverflowError = true /\ limit_exn E_ValueError = true /\ limit_exn E_TypeError = false.
Proof. vm_compute. repeat split; reflexivity. Qed.

(* an exception that does not mean "out of range" still ends the run: Date.add has no `hours` *)
Example range_type_error_escapes :
  py_range 10 (mk_interval (d 737433) (d 737440) false) U_hours 1 = ([d 737433], GRaise E_TypeError).
Proof. vm_compute. reflexivity. Qed.

(* drift-free: a monthly range from 2020-01-31 yields 02-29, 03-31, 04-30, 05-31 (an accumulating start would stick to the 29th/30th) *)
Example monthly_from_jan31 :
  map dv_W (fst (py_range 10 (mk_interval (d 737454) (d 737575) false) U_months 1)) =
  map (fun n => n * us_per_day) [737454; 737483; 737514; 737544; 737575].
Proof. vm_compute. reflexivity. Qed.

(* the hypotheses of the general theorems are satisfiable *)
Example plain_hypotheses_satisfiable :
  let iv := mk_interval (d 737454) (d 737575) false in
  wall_in_range (dv_W (iv_start iv)) = true /\ plain (iv_start iv) /\ compat (iv_start iv) (iv_end iv).
Proof. cbv zeta. split; [vm_compute; reflexivity|]. split; [left; reflexivity|]. split; [reflexivity|]. intros H. discriminate H. Qed.

(* a zone with one-hour transitions: a daily range never lands in a gap as long as a day *)
Example short_gaps_satisfiable : forall W We,
  let z := mkzone 3600 [(63500000000, 7200); (63520000000, 3600)] in
  let iv := mk_interval (mkdtv K_AWARE z false 1 W true) (mkdtv K_AWARE z false 1 We true) false in
  W <= We -> short_gaps iv U_days 1.
Proof.
  intros W We z iv Hle k Hk.
  assert (Hd : range_down iv = false).
  { unfold iv. rewrite range_down_mk. unfold dt_gt, dt_lt, same_clock. cbn [dv_kind dv_tzid dv_W negb andb orb]. rewrite Z.eqb_refl. rewrite orb_true_r. lia. }
  rewrite Hd.
  assert (Hs : iv_start iv = mkdtv K_AWARE z false 1 W true).
  { unfold iv, mk_interval. unfold dt_gt, dt_lt, same_clock. cbn [dv_kind dv_tzid dv_W]. rewrite Z.eqb_refl, orb_true_r. replace (We <? W) with false by lia. reflexivity. }
  unfold step_gap, naive_step, amount_at. rewrite Hd, Hs. cbn [dv_W dv_zone dv_fixed].
  unfold nshift. change (U_days <=? 1) with false. cbv iota. change (unit_len U_days) with us_per_day.
  unfold gap_at, off_local, z. cbn [z_init z_trans off_local_l wallb].
  unfold MEG, us_per_day.
  repeat match goal with |- context [if ?c then _ else _] => destruct c end; lia.
Qed.
