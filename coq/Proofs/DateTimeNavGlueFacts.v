(* Proofs/DateTimeNavGlueFacts.v — C16, DateTime: the translated weekday navigation Gen/DateTimeNavGlue.v (src/pendulum/datetime.py, generator
   tools/vlib/gens/g83_datetime_nav_glue.py) against the hand models t_* (Model/Weekday.v) and z_* (Model/WeekdayZone.v).
   Part 1 (this Section): the CONTROL STRUCTURE.  The models t_* and z_* are the same skeleton n_* over five primitives
       start_of("day"), add(days=k), set(day=), set(month=), on(y, m, d) [= set(day=, month=) with the year of self]
   (t_* = n_* on t_create, z_* = n_* on z_create: nav_t_* / nav_z_* below, by computation).  For ANY representation R of model values by objects
   under which the translated primitives (sglue_start_of_day, glue_DateTime_add ... days=1, sglue_subtract ... days=1, glue_DateTime_set, glue_DateTime_on
   of Gen/TzGlue.v / Gen/StartEndGlue.v) simulate the model primitives, every translated navigation method simulates its model:  sim_next, sim_previous,
   sim_first_of_month ... sim_nth_of_year, sim_first_of, sim_last_of, sim_nth_of.
   HAND-WRITTEN: nglue_first_of / nglue_last_of / nglue_nth_of (getattr dispatch, try / except OverflowError) by cases over the translated helpers. *)
From Coq Require Import ZArith List Bool Lia ZifyBool.
From PV Require Import Lib.PyBase Spec.Cal Spec.Zone Gen.Constants Gen.DateGetters Model.TzGlueObj Gen.TzGlue Model.StartEndGlueObj Gen.StartEndGlue.
From PV Require Import Model.Weekday Model.WeekdayZone Model.DateTimeNavGlueObj Gen.DateTimeNavGlue.
Import ListNotations.
Open Scope Z_scope.

Lemma rid {A} (r : result A) : match r with Raise e => Raise e | Ok m => Ok m end = r.
Proof. destruct r; reflexivity. Qed.

Lemma bind_ext {A B} (r : result A) (f g : A -> result B) : (forall x, f x = g x) -> bind r f = bind r g.
Proof. intros H. destruct r; cbn [bind]; [apply H|reflexivity]. Qed.

(* getattr dispatch of first_of / last_of and nth_of (try / except OverflowError -> None -> PendulumException), over the translated helpers *)
Definition nglue_first_of (u : Z) (self : gdt) (wd : option Z) : result gdt :=
  if u =? U_MONTH then nglue_first_of_month self wd else if u =? U_QUARTER then nglue_first_of_quarter self wd
  else if u =? U_YEAR then nglue_first_of_year self wd else Raise E_ValueError.
Definition nglue_last_of (u : Z) (self : gdt) (wd : option Z) : result gdt :=
  if u =? U_MONTH then nglue_last_of_month self wd else if u =? U_QUARTER then nglue_last_of_quarter self wd
  else if u =? U_YEAR then nglue_last_of_year self wd else Raise E_ValueError.
Definition nglue_nth_of (u : Z) (self : gdt) (nth wd : Z) : result gdt :=
  let r := if u =? U_MONTH then overflow_to_none (nglue_nth_of_month self nth wd)
           else if u =? U_QUARTER then overflow_to_none (nglue_nth_of_quarter self nth wd)
           else if u =? U_YEAR then overflow_to_none (nglue_nth_of_year self nth wd)
           else Raise E_ValueError in
  match r with Raise e => Raise e | Ok (Some d) => Ok d | Ok None => Raise E_PendulumException end.

Section Nav.
  Variable M : Type.
  Variable m_date : M -> pdate.
  Variable m_sod : M -> result M.
  Variable m_add : M -> Z -> result M.
  Variable m_set_day : M -> Z -> result M.
  Variable m_set_month : M -> Z -> result M.
  Variable m_on : M -> Z -> Z -> Z -> result M.

  (* ---------------- the skeleton (Model/Weekday.v t_*, Model/WeekdayZone.v z_*, statement by statement) *)
  Fixpoint n_next_loop (fuel : nat) (wd : Z) (dt : M) : result M :=
    match fuel with
    | O => Raise E_OutOfFuel
    | S f => if negb (dow (m_date dt) =? wd) then bind (m_add dt 1) (n_next_loop f wd) else Ok dt
    end.
  Definition n_next (self : M) (wd : option Z) (keep_time : bool) : result M :=
    let w := match wd with None => dow (m_date self) | Some w => w end in
    if wd_invalid w then Raise E_ValueError else
    bind (if keep_time then Ok self else m_sod self) (fun dt => bind (m_add dt 1) (n_next_loop 7 w)).
  Fixpoint n_prev_loop (fuel : nat) (wd : Z) (dt : M) : result M :=
    match fuel with
    | O => Raise E_OutOfFuel
    | S f => if negb (dow (m_date dt) =? wd) then bind (m_add dt (-1)) (n_prev_loop f wd) else Ok dt
    end.
  Definition n_previous (self : M) (wd : option Z) (keep_time : bool) : result M :=
    let w := match wd with None => dow (m_date self) | Some w => w end in
    if wd_invalid w then Raise E_ValueError else
    bind (if keep_time then Ok self else m_sod self) (fun dt => bind (m_add dt (-1)) (n_prev_loop 7 w)).
  Definition n_first_of_month (self : M) (wd : option Z) : result M :=
    bind (m_sod self) (fun dt =>
    match wd with
    | None => m_set_day dt 1
    | Some w =>
      let y := d_year (m_date dt) in let m := d_month (m_date dt) in
      bind (mc_get y m 0 w) (fun c0 => if c0 >? 0 then m_set_day dt c0 else bind (mc_get y m 1 w) (fun c1 => m_set_day dt c1))
    end).
  Definition n_last_of_month (self : M) (wd : option Z) : result M :=
    bind (m_sod self) (fun dt =>
    match wd with
    | None => m_set_day dt (days_in_month (m_date self))
    | Some w =>
      let y := d_year (m_date dt) in let m := d_month (m_date dt) in
      bind (mc_get y m (-1) w) (fun c0 => if c0 >? 0 then m_set_day dt c0 else bind (mc_get y m (-2) w) (fun c1 => m_set_day dt c1))
    end).
  Definition n_first_of_quarter (self : M) (wd : option Z) : result M :=
    bind (m_on self (d_year (m_date self)) (py_Date_quarter (m_date self) * 3 - 2) 1) (fun x => n_first_of_month x wd).
  Definition n_last_of_quarter (self : M) (wd : option Z) : result M :=
    bind (m_on self (d_year (m_date self)) (py_Date_quarter (m_date self) * 3) 1) (fun x => n_last_of_month x wd).
  Definition n_first_of_year (self : M) (wd : option Z) : result M := bind (m_set_month self 1) (fun x => n_first_of_month x wd).
  Definition n_last_of_year (self : M) (wd : option Z) : result M := bind (m_set_month self 12) (fun x => n_last_of_month x wd).
  Definition n_first_of (u : Z) (self : M) (wd : option Z) : result M :=
    if u =? U_MONTH then n_first_of_month self wd else if u =? U_QUARTER then n_first_of_quarter self wd
    else if u =? U_YEAR then n_first_of_year self wd else Raise E_ValueError.
  Definition n_last_of (u : Z) (self : M) (wd : option Z) : result M :=
    if u =? U_MONTH then n_last_of_month self wd else if u =? U_QUARTER then n_last_of_quarter self wd
    else if u =? U_YEAR then n_last_of_year self wd else Raise E_ValueError.
  Fixpoint n_iter_next (k : nat) (wd : Z) (dt : M) : result M :=
    match k with O => Ok dt | S k' => bind (n_next dt (Some wd) false) (n_iter_next k' wd) end.
  Definition n_nth_of_month (self : M) (nth wd : Z) : result (option M) :=
    if nth =? 1 then bind (n_first_of_month self (Some wd)) (fun r => Ok (Some r)) else
    bind (n_first_of_month self None) (fun dt0 =>
    bind (n_iter_next (nth_iters nth wd (m_date dt0)) wd dt0) (fun dt =>
    if same_year_month (m_date dt) (m_date dt0)
    then bind (m_set_day self (d_day (m_date dt))) (fun r => bind (m_sod r) (fun r' => Ok (Some r')))
    else Ok None)).
  Definition n_nth_of_quarter (self : M) (nth wd : Z) : result (option M) :=
    if nth =? 1 then bind (n_first_of_quarter self (Some wd)) (fun r => Ok (Some r)) else
    bind (m_on self (d_year (m_date self)) (py_Date_quarter (m_date self) * 3) 1) (fun dtq =>
    let last_month := d_month (m_date dtq) in
    let year := d_year (m_date dtq) in
    bind (n_first_of_quarter dtq None) (fun dt0 =>
    bind (n_iter_next (nth_iters nth wd (m_date dt0)) wd dt0) (fun dt =>
    if (last_month <? d_month (m_date dt)) || negb (year =? d_year (m_date dt)) then Ok None
    else bind (m_on self (d_year (m_date self)) (d_month (m_date dt)) (d_day (m_date dt))) (fun r =>
         bind (m_sod r) (fun r' => Ok (Some r')))))).
  Definition n_nth_of_year (self : M) (nth wd : Z) : result (option M) :=
    if nth =? 1 then bind (n_first_of_year self (Some wd)) (fun r => Ok (Some r)) else
    bind (n_first_of_year self None) (fun dt0 =>
    let year := d_year (m_date dt0) in
    bind (n_iter_next (nth_iters nth wd (m_date dt0)) wd dt0) (fun dt =>
    if negb (year =? d_year (m_date dt)) then Ok None
    else bind (m_on self (d_year (m_date self)) (d_month (m_date dt)) (d_day (m_date dt))) (fun r =>
         bind (m_sod r) (fun r' => Ok (Some r'))))).
  Definition n_nth_of (u : Z) (self : M) (nth wd : Z) : result M :=
    let r := if u =? U_MONTH then overflow_to_none (n_nth_of_month self nth wd)
             else if u =? U_QUARTER then overflow_to_none (n_nth_of_quarter self nth wd)
             else if u =? U_YEAR then overflow_to_none (n_nth_of_year self nth wd)
             else Raise E_ValueError in
    bind r (fun o => match o with Some d => Ok d | None => Raise E_PendulumException end).

  (* ---------------- simulation *)
  Variable R : M -> gdt -> Prop.
  Definition sim (g : result gdt) (r : result M) : Prop :=
    match g, r with Ok a, Ok x => R x a | Raise e, Raise e' => e = e' | _, _ => False end.
  Definition simo (g : result (option gdt)) (r : result (option M)) : Prop :=
    match g, r with Ok (Some a), Ok (Some x) => R x a | Ok None, Ok None => True | Raise e, Raise e' => e = e' | _, _ => False end.

  Hypothesis H_fields : forall x g, R x g ->
    g_year g = d_year (m_date x) /\ g_month g = d_month (m_date x) /\ g_day g = d_day (m_date x) /\ g_day_of_week g = dow (m_date x).
  Hypothesis H_sod : forall x g, R x g -> sim (sglue_start_of_day g) (m_sod x).
  Hypothesis H_add : forall x g, R x g -> sim (glue_DateTime_add g 0 0 0 1 0 0 0 0) (m_add x 1).
  Hypothesis H_sub : forall x g, R x g -> sim (sglue_subtract g 0 0 0 1 0 0 0 0) (m_add x (-1)).
  Hypothesis H_set_day : forall x g d, R x g -> sim (glue_DateTime_set g None None (Some d) None None None None None) (m_set_day x d).
  Hypothesis H_set_month : forall x g m, R x g -> sim (glue_DateTime_set g None (Some m) None None None None None None) (m_set_month x m).
  Hypothesis H_set_md : forall x g m d, R x g ->
    sim (glue_DateTime_set g None (Some m) (Some d) None None None None None) (m_on x (d_year (m_date x)) m d).
  Hypothesis H_on : forall x g y m d, R x g -> sim (glue_DateTime_on g y m d) (m_on x y m d).

  Lemma sim_bind G r (K : gdt -> result gdt) (F : M -> result M) :
    sim G r -> (forall x g, R x g -> sim (K g) (F x)) -> sim (match G with Raise e => Raise e | Ok m => K m end) (bind r F).
  Proof.
    intros S H. destruct G as [g|e], r as [x|e']; cbn [sim bind] in *; try contradiction; [apply H; exact S|exact S].
  Qed.
  Lemma sim_bindo G r (K : gdt -> result (option gdt)) (F : M -> result (option M)) :
    sim G r -> (forall x g, R x g -> simo (K g) (F x)) -> simo (match G with Raise e => Raise e | Ok m => K m end) (bind r F).
  Proof.
    intros S H. destruct G as [g|e], r as [x|e']; cbn [sim bind] in *; try contradiction; [apply H; exact S|exact S].
  Qed.
  Lemma sim_some G r : sim G r -> simo (match G with Raise e => Raise e | Ok m => Ok (Some m) end) (bind r (fun x => Ok (Some x))).
  Proof. intros S. destruct G as [g|e], r as [x|e']; cbn [sim bind simo] in *; try contradiction; exact S. Qed.
  Lemma sim_raise e : sim (Raise e) (Raise e). Proof. reflexivity. Qed.

  Lemma next_loop_sim w : forall fuel x g, R x g -> sim (nglue_next_loop fuel w g) (n_next_loop fuel w x).
  Proof.
    induction fuel as [|f IH]; intros x g Hr; [reflexivity|]. cbn [nglue_next_loop n_next_loop]. unfold nglue_next_cond.
    rewrite (proj2 (proj2 (proj2 (H_fields x g Hr)))). destruct (negb (dow (m_date x) =? w)); [|exact Hr].
    unfold nglue_next_step. rewrite rid. apply sim_bind; [apply H_add; exact Hr|]. intros x' g' Hr'. apply IH. exact Hr'.
  Qed.
  Lemma prev_loop_sim w : forall fuel x g, R x g -> sim (nglue_previous_loop fuel w g) (n_prev_loop fuel w x).
  Proof.
    induction fuel as [|f IH]; intros x g Hr; [reflexivity|]. cbn [nglue_previous_loop n_prev_loop]. unfold nglue_previous_cond.
    rewrite (proj2 (proj2 (proj2 (H_fields x g Hr)))). destruct (negb (dow (m_date x) =? w)); [|exact Hr].
    unfold nglue_previous_step. rewrite rid. apply sim_bind; [apply H_sub; exact Hr|]. intros x' g' Hr'. apply IH. exact Hr'.
  Qed.

  Lemma sim_pair (G : result gdt) (r : result M) (w : Z) (K : Z -> gdt -> result gdt) (F : M -> result M) :
    sim G r -> (forall x g, R x g -> sim (K w g) (F x)) ->
    sim (match (match G with Raise e => Raise e | Ok m => Ok (m, w) end : result (gdt * Z)) with Raise e => Raise e | Ok (d, w') => K w' d end) (bind r F).
  Proof. intros S H. destruct G as [g|e], r as [x|e']; cbn [sim bind] in *; try contradiction; [apply H; exact S|exact S]. Qed.

  Theorem sim_next x g wd keep : R x g -> sim (nglue_next g wd keep) (n_next x wd keep).
  Proof.
    intros Hr. unfold nglue_next, nglue_next_init, n_next. rewrite (proj2 (proj2 (proj2 (H_fields x g Hr)))). cbv zeta.
    set (w := match wd with None => dow (m_date x) | Some w_ => w_ end).
    replace (match wd with None => dow (m_date x) | Some w0 => w0 end) with w by reflexivity.
    unfold wd_invalid. destruct ((w <? 0) || (w >? 6)); [reflexivity|]. destruct keep; cbn [bind].
    - apply (sim_pair _ _ w (nglue_next_loop 7) (n_next_loop 7 w)); [apply H_add; exact Hr|]. intros; apply next_loop_sim; assumption.
    - pose proof (H_sod x g Hr) as S. destruct (sglue_start_of_day g) as [g1|e], (m_sod x) as [x1|e']; cbn [sim bind] in *; try contradiction; [|exact S].
      apply (sim_pair _ _ w (nglue_next_loop 7) (n_next_loop 7 w)); [apply H_add; exact S|]. intros; apply next_loop_sim; assumption.
  Qed.
  Theorem sim_previous x g wd keep : R x g -> sim (nglue_previous g wd keep) (n_previous x wd keep).
  Proof.
    intros Hr. unfold nglue_previous, nglue_previous_init, n_previous. rewrite (proj2 (proj2 (proj2 (H_fields x g Hr)))). cbv zeta.
    set (w := match wd with None => dow (m_date x) | Some w_ => w_ end).
    replace (match wd with None => dow (m_date x) | Some w0 => w0 end) with w by reflexivity.
    unfold wd_invalid. destruct ((w <? 0) || (w >? 6)); [reflexivity|]. destruct keep; cbn [bind].
    - apply (sim_pair _ _ w (nglue_previous_loop 7) (n_prev_loop 7 w)); [apply H_sub; exact Hr|]. intros; apply prev_loop_sim; assumption.
    - pose proof (H_sod x g Hr) as S. destruct (sglue_start_of_day g) as [g1|e], (m_sod x) as [x1|e']; cbn [sim bind] in *; try contradiction; [|exact S].
      apply (sim_pair _ _ w (nglue_previous_loop 7) (n_prev_loop 7 w)); [apply H_sub; exact S|]. intros; apply prev_loop_sim; assumption.
  Qed.

  Ltac flds Hr := let A := fresh "A" in let B := fresh "B" in let C := fresh "C" in let D := fresh "D" in
    destruct (H_fields _ _ Hr) as (A & B & C & D); rewrite ?A, ?B, ?C, ?D.

  Theorem sim_first_of_month x g wd : R x g -> sim (nglue_first_of_month g wd) (n_first_of_month x wd).
  Proof.
    intros Hr. unfold nglue_first_of_month, n_first_of_month. apply sim_bind; [apply H_sod; exact Hr|]. clear x g Hr. intros x g Hr. cbv zeta.
    destruct wd as [w|]; [|rewrite rid; apply H_set_day; exact Hr]. flds Hr.
    destruct (mc_get (d_year (m_date x)) (d_month (m_date x)) 0 w) as [c0|e]; cbn [bind]; cbv beta iota zeta; [|reflexivity].
    destruct (c0 >? 0); [rewrite rid; apply H_set_day; exact Hr|].
    destruct (mc_get (d_year (m_date x)) (d_month (m_date x)) 1 w) as [c1|e]; cbn [bind]; cbv beta iota zeta; [|reflexivity].
    rewrite rid. apply H_set_day; exact Hr.
  Qed.
  Theorem sim_last_of_month x g wd : R x g -> sim (nglue_last_of_month g wd) (n_last_of_month x wd).
  Proof.
    intros Hr. unfold nglue_last_of_month, n_last_of_month.
    assert (Dm : g_days_in_month g = days_in_month (m_date x)).
    { destruct (H_fields _ _ Hr) as (A & B & _). unfold g_days_in_month, days_in_month. now rewrite A, B. }
    rewrite Dm. generalize (days_in_month (m_date x)) as dm. intros dm.
    apply sim_bind; [apply H_sod; exact Hr|]. clear x g Hr Dm. intros x g Hr. cbv zeta.
    destruct wd as [w|]; [|rewrite rid; apply H_set_day; exact Hr]. flds Hr.
    destruct (mc_get (d_year (m_date x)) (d_month (m_date x)) (-1) w) as [c0|e]; cbn [bind]; cbv beta iota zeta; [|reflexivity].
    destruct (c0 >? 0); [rewrite rid; apply H_set_day; exact Hr|].
    destruct (mc_get (d_year (m_date x)) (d_month (m_date x)) (-2) w) as [c1|e]; cbn [bind]; cbv beta iota zeta; [|reflexivity].
    rewrite rid. apply H_set_day; exact Hr.
  Qed.

  Lemma quarter_eq x g : R x g -> g_quarter g = py_Date_quarter (m_date x).
  Proof. intros Hr. destruct (H_fields _ _ Hr) as (A & B & C & _). unfold g_quarter, g_pdate, py_Date_quarter. cbn [d_month]. now rewrite B. Qed.

  Theorem sim_first_of_quarter x g wd : R x g -> sim (nglue_first_of_quarter g wd) (n_first_of_quarter x wd).
  Proof.
    intros Hr. unfold nglue_first_of_quarter, n_first_of_quarter. rewrite (quarter_eq x g Hr), (proj1 (H_fields _ _ Hr)).
    apply sim_bind; [apply H_on; exact Hr|]. intros x' g' Hr'. rewrite rid. apply sim_first_of_month. exact Hr'.
  Qed.
  Theorem sim_last_of_quarter x g wd : R x g -> sim (nglue_last_of_quarter g wd) (n_last_of_quarter x wd).
  Proof.
    intros Hr. unfold nglue_last_of_quarter, n_last_of_quarter. rewrite (quarter_eq x g Hr), (proj1 (H_fields _ _ Hr)).
    apply sim_bind; [apply H_on; exact Hr|]. intros x' g' Hr'. rewrite rid. apply sim_last_of_month. exact Hr'.
  Qed.
  Theorem sim_first_of_year x g wd : R x g -> sim (nglue_first_of_year g wd) (n_first_of_year x wd).
  Proof.
    intros Hr. unfold nglue_first_of_year, n_first_of_year.
    apply sim_bind; [apply H_set_month; exact Hr|]. intros x' g' Hr'. rewrite rid. apply sim_first_of_month. exact Hr'.
  Qed.
  Theorem sim_last_of_year x g wd : R x g -> sim (nglue_last_of_year g wd) (n_last_of_year x wd).
  Proof.
    intros Hr. unfold nglue_last_of_year, n_last_of_year. change C_MONTHS_PER_YEAR with 12.
    apply sim_bind; [apply H_set_month; exact Hr|]. intros x' g' Hr'. rewrite rid. apply sim_last_of_month. exact Hr'.
  Qed.
  Theorem sim_first_of u x g wd : R x g -> sim (nglue_first_of u g wd) (n_first_of u x wd).
  Proof.
    intros Hr. unfold nglue_first_of, n_first_of. destruct (u =? U_MONTH); [apply sim_first_of_month; exact Hr|].
    destruct (u =? U_QUARTER); [apply sim_first_of_quarter; exact Hr|]. destruct (u =? U_YEAR); [apply sim_first_of_year; exact Hr|reflexivity].
  Qed.
  Theorem sim_last_of u x g wd : R x g -> sim (nglue_last_of u g wd) (n_last_of u x wd).
  Proof.
    intros Hr. unfold nglue_last_of, n_last_of. destruct (u =? U_MONTH); [apply sim_last_of_month; exact Hr|].
    destruct (u =? U_QUARTER); [apply sim_last_of_quarter; exact Hr|]. destruct (u =? U_YEAR); [apply sim_last_of_year; exact Hr|reflexivity].
  Qed.

  (* the translated `for _ in range(n): dt = dt.next(day_of_week)` *)
  Ltac for_sim := let k := fresh "k" in let IH := fresh "IH" in
    induction k as [|k IH]; intros i x g Hr; [exact Hr|]; cbn -[nglue_next n_next];
    apply sim_bind; [apply sim_next; exact Hr|]; intros x' g' Hr'; apply IH; exact Hr'.
  Lemma for_month_sim w : forall k i x g, R x g -> sim (nglue_nth_of_month_for1 k i w g) (n_iter_next k w x). Proof. for_sim. Qed.
  Lemma for_quarter_sim w : forall k i x g, R x g -> sim (nglue_nth_of_quarter_for1 k i w g) (n_iter_next k w x). Proof. for_sim. Qed.
  Lemma for_year_sim w : forall k i x g, R x g -> sim (nglue_nth_of_year_for1 k i w g) (n_iter_next k w x). Proof. for_sim. Qed.

  Lemma sim_set_sod (G : result gdt) (r : result M) : sim G r ->
    simo (match G with Raise e => Raise e | Ok m => match sglue_start_of_day m with Raise e => Raise e | Ok m' => Ok (Some m') end end)
         (bind r (fun q => bind (m_sod q) (fun q' => Ok (Some q')))).
  Proof. intros S. apply sim_bindo; [exact S|]. intros x g Hr. apply sim_some. apply H_sod. exact Hr. Qed.

  Theorem sim_nth_of_month x g nth w : R x g -> simo (nglue_nth_of_month g nth w) (n_nth_of_month x nth w).
  Proof.
    intros Hr. unfold nglue_nth_of_month, n_nth_of_month. destruct (nth =? 1); [apply sim_some; apply sim_first_of_month; exact Hr|].
    apply sim_bindo; [apply sim_first_of_month; exact Hr|]. intros x0 g0 Hr0. cbv zeta.
    rewrite (proj2 (proj2 (proj2 (H_fields _ _ Hr0)))), Z.sub_0_r. unfold nth_iters.
    pose proof (for_month_sim w (Z.to_nat (nth - (if dow (m_date x0) =? w then 1 else 0))) 0 x0 g0 Hr0) as S.
    destruct (nglue_nth_of_month_for1 _ 0 w g0) as [g1|e], (n_iter_next _ w x0) as [x1|e']; cbn [sim bind simo] in *; try contradiction; [|exact S].
    assert (E : g_same_ym g1 g0 = same_year_month (m_date x1) (m_date x0)).
    { destruct (H_fields _ _ S) as (A & B & _). destruct (H_fields _ _ Hr0) as (A0 & B0 & _). unfold g_same_ym, same_year_month. now rewrite A, B, A0, B0. }
    rewrite E. destruct (same_year_month _ _); [|exact I]. rewrite (proj1 (proj2 (proj2 (H_fields _ _ S)))).
    apply sim_set_sod. apply H_set_day. exact Hr.
  Qed.

  Theorem sim_nth_of_quarter x g nth w : R x g -> simo (nglue_nth_of_quarter g nth w) (n_nth_of_quarter x nth w).
  Proof.
    intros Hr. unfold nglue_nth_of_quarter, n_nth_of_quarter. destruct (nth =? 1); [apply sim_some; apply sim_first_of_quarter; exact Hr|].
    rewrite (quarter_eq x g Hr). apply sim_bindo; [apply H_set_md; exact Hr|]. intros xq gq Hrq. cbv zeta.
    destruct (H_fields _ _ Hrq) as (Aq & Bq & _). rewrite Aq, Bq.
    apply sim_bindo; [apply sim_first_of_quarter; exact Hrq|]. intros x0 g0 Hr0.
    rewrite (proj2 (proj2 (proj2 (H_fields _ _ Hr0)))), Z.sub_0_r. unfold nth_iters.
    pose proof (for_quarter_sim w (Z.to_nat (nth - (if dow (m_date x0) =? w then 1 else 0))) 0 x0 g0 Hr0) as S.
    destruct (nglue_nth_of_quarter_for1 _ 0 w g0) as [g1|e], (n_iter_next _ w x0) as [x1|e']; cbn [sim bind simo] in *; try contradiction; [|exact S].
    destruct (H_fields _ _ S) as (A1 & B1 & C1 & _). rewrite A1, B1, C1.
    destruct ((d_month (m_date xq) <? d_month (m_date x1)) || negb (d_year (m_date xq) =? d_year (m_date x1))); [exact I|].
    rewrite (proj1 (H_fields _ _ Hr)). apply sim_set_sod. apply H_on. exact Hr.
  Qed.

  Theorem sim_nth_of_year x g nth w : R x g -> simo (nglue_nth_of_year g nth w) (n_nth_of_year x nth w).
  Proof.
    intros Hr. unfold nglue_nth_of_year, n_nth_of_year. destruct (nth =? 1); [apply sim_some; apply sim_first_of_year; exact Hr|].
    apply sim_bindo; [apply sim_first_of_year; exact Hr|]. intros x0 g0 Hr0. cbv zeta.
    destruct (H_fields _ _ Hr0) as (A0 & _ & _ & D0). rewrite A0, D0, Z.sub_0_r. unfold nth_iters.
    pose proof (for_year_sim w (Z.to_nat (nth - (if dow (m_date x0) =? w then 1 else 0))) 0 x0 g0 Hr0) as S.
    destruct (nglue_nth_of_year_for1 _ 0 w g0) as [g1|e], (n_iter_next _ w x0) as [x1|e']; cbn [sim bind simo] in *; try contradiction; [|exact S].
    destruct (H_fields _ _ S) as (A1 & B1 & C1 & _). rewrite A1, B1, C1.
    destruct (negb (d_year (m_date x0) =? d_year (m_date x1))); [exact I|].
    rewrite (proj1 (H_fields _ _ Hr)). apply sim_set_sod. apply H_on. exact Hr.
  Qed.

  Lemma simo_overflow G r : simo G r -> simo (overflow_to_none G) (overflow_to_none r).
  Proof.
    intros S. destruct G as [[a|]|e], r as [[y|]|e']; cbn [simo] in *; try contradiction; try exact S.
    subst e'. destruct e; cbn [overflow_to_none simo]; try reflexivity; exact I.
  Qed.
  Lemma simo_unwrap G r : simo G r ->
    sim (match G with Raise e => Raise e | Ok (Some d) => Ok d | Ok None => Raise E_PendulumException end)
        (bind r (fun o => match o with Some d => Ok d | None => Raise E_PendulumException end)).
  Proof. intros S. destruct G as [[a|]|e], r as [[y|]|e']; cbn [simo sim bind] in *; try contradiction; try exact S; reflexivity. Qed.

  Theorem sim_nth_of u x g nth w : R x g -> sim (nglue_nth_of u g nth w) (n_nth_of u x nth w).
  Proof.
    intros Hr. unfold nglue_nth_of, n_nth_of. cbv zeta. apply simo_unwrap.
    destruct (u =? U_MONTH); [apply simo_overflow, sim_nth_of_month; exact Hr|].
    destruct (u =? U_QUARTER); [apply simo_overflow, sim_nth_of_quarter; exact Hr|].
    destruct (u =? U_YEAR); [apply simo_overflow, sim_nth_of_year; exact Hr|reflexivity].
  Qed.
End Nav.

(* ------------------------------------------------------------------ t_* (Model/Weekday.v) and z_* (Model/WeekdayZone.v) ARE the skeleton *)
Notation NT f := (f pdt t_date t_start_of_day t_add_days) (only parsing).
Lemma nav_t_next_loop w : forall fuel x, n_next_loop pdt t_date t_add_days fuel w x = t_next_loop fuel w x.
Proof. induction fuel as [|f IH]; intros x; [reflexivity|]. cbn [n_next_loop t_next_loop]. destruct (negb _); [|reflexivity]. apply bind_ext. exact IH. Qed.
Lemma nav_t_prev_loop w : forall fuel x, n_prev_loop pdt t_date t_add_days fuel w x = t_prev_loop fuel w x.
Proof. induction fuel as [|f IH]; intros x; [reflexivity|]. cbn [n_prev_loop t_prev_loop]. destruct (negb _); [|reflexivity]. apply bind_ext. exact IH. Qed.
Lemma nav_t_next x wd keep : n_next pdt t_date t_start_of_day t_add_days x wd keep = t_next x wd keep.
Proof.
  unfold n_next, t_next. cbv zeta. destruct (wd_invalid _); [reflexivity|]. apply bind_ext. intros dt. apply bind_ext. intros y. apply nav_t_next_loop.
Qed.
Lemma nav_t_previous x wd keep : n_previous pdt t_date t_start_of_day t_add_days x wd keep = t_previous x wd keep.
Proof.
  unfold n_previous, t_previous. cbv zeta. destruct (wd_invalid _); [reflexivity|]. apply bind_ext. intros dt. apply bind_ext. intros y. apply nav_t_prev_loop.
Qed.
Lemma nav_t_first_of u x wd : n_first_of pdt t_date t_start_of_day t_set_day t_set_month t_on u x wd = t_first_of u x wd.
Proof. reflexivity. Qed.
Lemma nav_t_last_of u x wd : n_last_of pdt t_date t_start_of_day t_set_day t_set_month t_on u x wd = t_last_of u x wd.
Proof. reflexivity. Qed.
Lemma nav_t_iter w : forall k x, n_iter_next pdt t_date t_start_of_day t_add_days k w x = t_iter_next k w x.
Proof. induction k as [|k IH]; intros x; [reflexivity|]. cbn [n_iter_next t_iter_next]. rewrite nav_t_next. apply bind_ext. exact IH. Qed.
Lemma nav_t_nth_of_month x nth w : n_nth_of_month pdt t_date t_start_of_day t_add_days t_set_day x nth w = t_nth_of_month x nth w.
Proof.
  unfold n_nth_of_month, t_nth_of_month. destruct (nth =? 1); [reflexivity|]. apply bind_ext. intros dt0. rewrite nav_t_iter. reflexivity.
Qed.
Lemma nav_t_nth_of_quarter x nth w : n_nth_of_quarter pdt t_date t_start_of_day t_add_days t_set_day t_on x nth w = t_nth_of_quarter x nth w.
Proof.
  unfold n_nth_of_quarter, t_nth_of_quarter. destruct (nth =? 1); [reflexivity|]. apply bind_ext. intros dtq. cbv zeta. apply bind_ext. intros dt0.
  rewrite nav_t_iter. reflexivity.
Qed.
Lemma nav_t_nth_of_year x nth w : n_nth_of_year pdt t_date t_start_of_day t_add_days t_set_day t_set_month t_on x nth w = t_nth_of_year x nth w.
Proof.
  unfold n_nth_of_year, t_nth_of_year. destruct (nth =? 1); [reflexivity|]. apply bind_ext. intros dt0. cbv zeta. rewrite nav_t_iter. reflexivity.
Qed.
Lemma nav_t_nth_of u x nth w : n_nth_of pdt t_date t_start_of_day t_add_days t_set_day t_set_month t_on u x nth w = t_nth_of u x nth w.
Proof. unfold n_nth_of, t_nth_of. rewrite nav_t_nth_of_month, nav_t_nth_of_quarter, nav_t_nth_of_year. reflexivity. Qed.

Section Z.
  Variable z : zone.
  Lemma nav_z_next_loop w : forall fuel x, n_next_loop zdt z_date (z_add_days z) fuel w x = z_next_loop z fuel w x.
  Proof. induction fuel as [|f IH]; intros x; [reflexivity|]. cbn [n_next_loop z_next_loop]. destruct (negb _); [|reflexivity]. apply bind_ext. exact IH. Qed.
  Lemma nav_z_prev_loop w : forall fuel x, n_prev_loop zdt z_date (z_add_days z) fuel w x = z_prev_loop z fuel w x.
  Proof. induction fuel as [|f IH]; intros x; [reflexivity|]. cbn [n_prev_loop z_prev_loop]. destruct (negb _); [|reflexivity]. apply bind_ext. exact IH. Qed.
  Lemma nav_z_next x wd keep : n_next zdt z_date (z_start_of_day z) (z_add_days z) x wd keep = z_next z x wd keep.
  Proof.
    unfold n_next, z_next. cbv zeta. destruct (wd_invalid _); [reflexivity|]. apply bind_ext. intros dt. apply bind_ext. intros y. apply nav_z_next_loop.
  Qed.
  Lemma nav_z_previous x wd keep : n_previous zdt z_date (z_start_of_day z) (z_add_days z) x wd keep = z_previous z x wd keep.
  Proof.
    unfold n_previous, z_previous. cbv zeta. destruct (wd_invalid _); [reflexivity|]. apply bind_ext. intros dt. apply bind_ext. intros y. apply nav_z_prev_loop.
  Qed.
  Lemma nav_z_first_of u x wd : n_first_of zdt z_date (z_start_of_day z) (z_set_day z) (z_set_month z) (z_on z) u x wd = z_first_of z u x wd.
  Proof. reflexivity. Qed.
  Lemma nav_z_last_of u x wd : n_last_of zdt z_date (z_start_of_day z) (z_set_day z) (z_set_month z) (z_on z) u x wd = z_last_of z u x wd.
  Proof. reflexivity. Qed.
  Lemma nav_z_iter w : forall k x, n_iter_next zdt z_date (z_start_of_day z) (z_add_days z) k w x = z_iter_next z k w x.
  Proof. induction k as [|k IH]; intros x; [reflexivity|]. cbn [n_iter_next z_iter_next]. rewrite nav_z_next. apply bind_ext. exact IH. Qed.
  Lemma nav_z_nth_of_month x nth w : n_nth_of_month zdt z_date (z_start_of_day z) (z_add_days z) (z_set_day z) x nth w = z_nth_of_month z x nth w.
  Proof.
    unfold n_nth_of_month, z_nth_of_month. destruct (nth =? 1); [reflexivity|]. apply bind_ext. intros dt0. rewrite nav_z_iter. reflexivity.
  Qed.
  Lemma nav_z_nth_of_quarter x nth w :
    n_nth_of_quarter zdt z_date (z_start_of_day z) (z_add_days z) (z_set_day z) (z_on z) x nth w = z_nth_of_quarter z x nth w.
  Proof.
    unfold n_nth_of_quarter, z_nth_of_quarter. destruct (nth =? 1); [reflexivity|]. apply bind_ext. intros dtq. cbv zeta. apply bind_ext. intros dt0.
    rewrite nav_z_iter. reflexivity.
  Qed.
  Lemma nav_z_nth_of_year x nth w :
    n_nth_of_year zdt z_date (z_start_of_day z) (z_add_days z) (z_set_day z) (z_set_month z) (z_on z) x nth w = z_nth_of_year z x nth w.
  Proof.
    unfold n_nth_of_year, z_nth_of_year. destruct (nth =? 1); [reflexivity|]. apply bind_ext. intros dt0. cbv zeta. rewrite nav_z_iter. reflexivity.
  Qed.
  Lemma nav_z_nth_of u x nth w :
    n_nth_of zdt z_date (z_start_of_day z) (z_add_days z) (z_set_day z) (z_set_month z) (z_on z) u x nth w = z_nth_of z u x nth w.
  Proof. unfold n_nth_of, z_nth_of. rewrite nav_z_nth_of_month, nav_z_nth_of_quarter, nav_z_nth_of_year. reflexivity. Qed.
End Z.
