(* Proofs/C07More.v — C07, the remaining well-formed forms, universally quantified, both backends:
     * bare hhmmss: the pure-Python parser (after the repair of py-hhmmss-leading-zero) reads time(H, M, S) for every valid time;
       the compiled parser refuses every such text (listed finding rs-bare-hhmmss-rejected);
     * date-only texts on the compiled side (six forms) and the agreement of the backends;
     * reduced-precision times HH and HH:MM / HHMM (Model/IsoFormsPrec.v), after a date or alone, with every offset style: the closed-form
       spans of Proofs/C07PyForms.v extended to these layouts (152 more shapes, one kernel computation `chkp_all_ok`), the compiled descent
       (`rs_time_p`, `rs_datetime_split`); a bare hour is refused by the compiled parser; THH:MM:SS is refused by the compiled parser
       (listed finding rs-T-extended-time-rejected), universally;
     * pendulum.parse: exact=True returns the narrowest type (`parse_top_date`, `parse_top_time`, `parse_top_timep`). *)
From Coq Require Import ZArith List Bool Lia ZifyBool.
From PV Require Import Lib.Reflect Lib.PyBase Spec.Cal Proofs.CalFacts Model.RustHelpers Model.C07Regex Gen.IsoRegex Gen.IsoPost Model.IsoParse Model.IsoRender Model.IsoForms Model.IsoFormsPrec.
From PV Require Import Proofs.C15Facts Proofs.C07Lex Proofs.C07Cal Proofs.C07Week Proofs.C07Round Proofs.RegexShape Proofs.C07PyRound Proofs.C07PyForms Proofs.C07RsForms.
Import ListNotations.
Ltac Zify.zify_post_hook ::= Z.to_euclidean_division_equations.
Open Scope Z_scope.

(* ------------------------------------------------------------------ bare hhmmss (no T), pure-Python parser after the repair of
   finding py-hhmmss-leading-zero: hhmmss = f"{year:04d}{month:02d}" *)
Definition str_eqbZ (a b : list Z) : bool := if list_eq_dec Z.eq_dec a b then true else false.
Lemma padl4_digits_all : forall_range (fun n => str_eqbZ (padl 4 (digits n)) (render4 n)) 0 9999 = true.
Proof. vm_compute. reflexivity. Qed.
Lemma padl2_digits_all : forall_range (fun n => str_eqbZ (padl 2 (digits n)) (render2 n)) 0 99 = true.
Proof. vm_compute. reflexivity. Qed.
Lemma padl4_digits n : 0 <= n <= 9999 -> padl 4 (digits n) = render4 n.
Proof.
  intros H. pose proof (forall_range_spec _ _ _ padl4_digits_all n H) as E. cbv beta in E. unfold str_eqbZ in E.
  destruct (list_eq_dec Z.eq_dec (padl 4 (digits n)) (render4 n)); [assumption|discriminate].
Qed.
Lemma padl2_digits n : 0 <= n <= 99 -> padl 2 (digits n) = render2 n.
Proof.
  intros H. pose proof (forall_range_spec _ _ _ padl2_digits_all n H) as E. cbv beta in E. unfold str_eqbZ in E.
  destruct (list_eq_dec Z.eq_dec (padl 2 (digits n)) (render2 n)); [assumption|discriminate].
Qed.

Theorem py_parse_iso_bare_hhmmss H M S : valid_time H M S 0 = true ->
  py_parse_iso (render2 H ++ render2 M ++ render2 S) = Ok (mkp 3 0 0 0 H M S 0 None).
Proof.
  intros Vt. pose proof (valid_time_bounds _ _ _ _ Vt) as Bt.
  destruct (int_of_render2 H ltac:(lia)) as [IH _]. destruct (int_of_render2 M ltac:(lia)) as [IM _]. destruct (int_of_render2 S ltac:(lia)) as [IS _].
  assert (IY : int_of (render2 H ++ render2 M) = 100 * H + M).
  { unfold render2, int_of, dg. cbn [app fold_left]. lia. }
  unfold render2 in IH, IM, IS, IY. cbn [app] in IY.
  unfold py_parse_iso.
  iso_groups [48; 48; 48; 48; 48; 48]. unfold py_datepart. iso_has. rewrite IY, IS. cbn [negb andb].
  rewrite padl4_digits, padl2_digits by lia.
  unfold render4. replace ((100 * H + M) / 100) with H by lia. replace ((100 * H + M) mod 100) with M by lia.
  unfold render2, slice. cbn [app skipn firstn Nat.sub]. unfold int_of_str. rewrite IH, IM, IS.
  unfold mk_time. rewrite Vt. reflexivity.
Qed.

(* the compiled parser refuses every bare hhmmss (listed finding rs-bare-hhmmss-rejected): universally *)
Theorem rs_parse_iso_bare_hhmmss_rejected H M S : 0 <= H < 100 -> 0 <= M < 100 -> 0 <= S < 100 ->
  rs_parse_iso (render2 H ++ render2 M ++ render2 S) = Raise E_ValueError.
Proof.
  intros HH HM HS.
  destruct (d10 H HH) as (E1 & E2 & E3). destruct (d10 M HM) as (F1 & F2 & F3). destruct (d10 S HS) as (G1 & G2 & G3).
  unfold rs_parse_iso, render2. cbn [app]. unfold rs_parse_datetime. unf_ch. run'.
  unfold rs_parse_date, date_end. unf_ch. run'. reflexivity.
Qed.

(* ------------------------------------------------------------------ date-only texts, compiled parser, the six forms *)
Lemma rs_date_ext_t m1 m2 d1 d2 tail year :
  0 <= m1 <= 9 -> 0 <= m2 <= 9 -> 0 <= d1 <= 9 -> 0 <= d2 <= 9 ->
  rs_parse_date year (45 :: dg m1 :: dg m2 :: 45 :: dg d1 :: dg d2 :: tail) =
  Some (set_ymd rdt0 (year, 10 * m1 + m2, 10 * d1 + d2) true, tail).
Proof. intros. unfold rs_parse_date, date_end. unf_ch. run'. reflexivity. Qed.
Lemma rs_date_bas_t m1 m2 d1 d2 tail year :
  0 <= m1 <= 9 -> 0 <= m2 <= 9 -> 0 <= d1 <= 9 -> 0 <= d2 <= 9 ->
  rs_parse_date year (dg m1 :: dg m2 :: dg d1 :: dg d2 :: tail) =
  Some (set_ymd rdt0 (year, 10 * m1 + m2, d1 * 10 + d2) false, tail).
Proof. intros. unfold rs_parse_date, date_end. unf_ch. run'. reflexivity. Qed.
Lemma rs_date_ord_ext_t n1 n2 n3 tail year :
  0 <= n1 <= 9 -> 0 <= n2 <= 9 -> 0 <= n3 <= 9 ->
  rs_parse_date year (45 :: dg n1 :: dg n2 :: dg n3 :: tail) =
  match rs_ordinal_to_ymd year ((10 * n1 + n2) * 10 + n3) false with
  | None => None | Some ymd => Some (set_ymd rdt0 ymd true, tail) end.
Proof. intros. unfold rs_parse_date, date_end. unf_ch. run'. reflexivity. Qed.
Lemma rs_date_ord_bas_nil n1 n2 n3 year :
  0 <= n1 <= 9 -> 0 <= n2 <= 9 -> 0 <= n3 <= 9 ->
  rs_parse_date year [dg n1; dg n2; dg n3] =
  match rs_ordinal_to_ymd year (n3 + (10 * n1 + n2) * 10) false with
  | None => None | Some ymd => Some (set_ymd rdt0 ymd false, []) end.
Proof. intros. unfold rs_parse_date, date_end. unf_ch. run'. reflexivity. Qed.
Lemma rs_date_week_ext_t w1 w2 wd tail year :
  0 <= w1 <= 9 -> 0 <= w2 <= 9 -> 0 <= wd <= 9 ->
  rs_parse_date year (45 :: 87 :: dg w1 :: dg w2 :: 45 :: dg wd :: tail) =
  match rs_iso_to_ymd year (10 * w1 + w2) wd with
  | None => None | Some ymd => Some (set_ymd rdt0 ymd true, tail) end.
Proof. intros. unfold rs_parse_date, date_end. unf_ch. run'. reflexivity. Qed.
Lemma rs_date_week_bas_t w1 w2 wd tail year :
  0 <= w1 <= 9 -> 0 <= w2 <= 9 -> 0 <= wd <= 9 ->
  rs_parse_date year (87 :: dg w1 :: dg w2 :: dg wd :: tail) =
  match rs_iso_to_ymd year (10 * w1 + w2) wd with
  | None => None | Some ymd => Some (set_ymd rdt0 ymd false, tail) end.
Proof. intros. unfold rs_parse_date, date_end. unf_ch. run'. reflexivity. Qed.

Theorem rs_parse_iso_render_date form y m d : 0 <= form <= 5 -> valid_date y m d = true ->
  (4 <= form -> 1 <= iso_year_of y m d <= 9999) ->
  rs_parse_iso (render_date form y m d) = Ok (mkp 2 y m d 0 0 0 0 None).
Proof.
  intros Hform Vd Hiy. pose proof (valid_date_bounds _ _ _ Vd) as Bd.
  assert (Vb : valid_dateb y m d = true) by (unfold valid_date in Vd; apply andb_true_iff in Vd; tauto).
  destruct (yday_date y m d Vb) as [By Ey]. pose proof (diy_cases y) as Dy. set (n := yday y m d) in *.
  pose proof (isocalendar_inverse y m d Vb) as I. pose proof (ord2ymd_ymd2ord y m d Vb) as O.
  destruct (d10 (y / 100) ltac:(lia)) as (A1 & A2 & A3). destruct (d10 (y mod 100) ltac:(lia)) as (B1 & B2 & B3).
  destruct (d10 m ltac:(lia)) as (C1 & C2 & C3). destruct (d10 d ltac:(lia)) as (D1 & D2 & D3).
  destruct (d100 n ltac:(lia)) as (N1 & N2 & N3 & N4).
  assert (Ey4 : (10 * (y / 100 / 10) + (y / 100) mod 10) * 100 + (10 * (y mod 100 / 10) + (y mod 100) mod 10) = y) by lia.
  assert (R : rs_parse_datetime (render_date form y m d) = Some (mkr y m d 0 0 0 0 None true false (form_ext form))).
  { assert (F : form = 0 \/ form = 1 \/ form = 2 \/ form = 3 \/ form = 4 \/ form = 5) by lia.
    unfold render_date. fold n. unfold iso_year_of in Hiy.
    destruct F as [-> | [-> | [-> | [-> | F]]]]; cbn [Z.eqb Pos.eqb form_ext Z.even];
      [ | | | | destruct (isocalendar y m d) as [[iy iw] iwd]; cbn [fst] in Hiy; destruct I as (_ & Bw & Bwd & E);
                pose proof (iso_weeks_52_53 iy) as W; specialize (Hiy ltac:(lia));
                pose proof (rs_week_spec iy iw iwd ltac:(lia) Bw Bwd) as PW; rewrite E, O in PW;
                destruct (d10 (iy / 100) ltac:(lia)) as (P1 & P2 & P3); destruct (d10 (iy mod 100) ltac:(lia)) as (Q1 & Q2 & Q3);
                destruct (d10 iw ltac:(lia)) as (W1 & W2 & W3);
                assert (Eiy4 : (10 * (iy / 100 / 10) + (iy / 100) mod 10) * 100 + (10 * (iy mod 100 / 10) + (iy mod 100) mod 10) = iy) by lia;
                destruct F as [-> | ->]; cbn [Z.eqb Pos.eqb form_ext Z.even] ];
      unfold render4, render3, render2, render1; cbn [app]; unfold rs_parse_datetime; unf_ch; run'.
    - rewrite rs_date_ext_t by assumption. red1. cbn [set_ymd rdt0]. f_equal. f_equal; lia.
    - rewrite rs_date_bas_t by assumption. red1. cbn [set_ymd rdt0]. f_equal. f_equal; lia.
    - rewrite rs_date_ord_ext_t by assumption. rewrite N4, Ey4. rewrite rs_ordinal_spec by lia. rewrite Ey. red1. reflexivity.
    - rewrite rs_date_ord_bas_nil by assumption. replace (n mod 10 + (10 * (n / 100) + (n / 10) mod 10) * 10) with n by lia.
      rewrite Ey4. rewrite rs_ordinal_spec by lia. rewrite Ey. red1. reflexivity.
    - rewrite rs_date_week_ext_t by (try assumption; lia). rewrite W3, Eiy4, PW. red1. reflexivity.
    - rewrite rs_date_week_bas_t by (try assumption; lia). rewrite W3, Eiy4, PW. red1. reflexivity. }
  unfold rs_parse_iso. rewrite R. cbn [r_has_date r_has_time r_year r_month r_day].
  unfold u8. rewrite !Z.mod_small by lia. unfold mk_date. rewrite Vd. reflexivity.
Qed.

(* both backends, date-only, all six forms; and their agreement *)
Theorem py_parse_iso_render_date6 form y m d : 0 <= form <= 5 -> valid_date y m d = true ->
  (4 <= form -> 1001 <= iso_year_of y m d <= 9998) ->
  py_parse_iso (render_date form y m d) = Ok (mkp 2 y m d 0 0 0 0 None).
Proof.
  intros Hf Vd Hiy. destruct (Z_le_gt_dec form 3).
  - apply py_parse_iso_render_date; [lia|exact Vd].
  - apply py_parse_iso_render_week; [lia|exact Vd|apply Hiy; lia].
Qed.

Theorem rs_eq_py_render_date form y m d : 0 <= form <= 5 -> valid_date y m d = true ->
  (4 <= form -> 1001 <= iso_year_of y m d <= 9998) ->
  rs_parse_iso (render_date form y m d) = py_parse_iso (render_date form y m d).
Proof. intros. rewrite rs_parse_iso_render_date, py_parse_iso_render_date6 by (try assumption; intros; lia). reflexivity. Qed.
(* ------------------------------------------------------------------ representatives and closed-form spans, reduced precision *)
Definition rep_timep (ext : bool) (prec : nat) : list Z :=
  match prec with O => [48; 48] | _ => if ext then [48; 48; 58; 48; 48] else [48; 48; 48; 48] end.
Definition repp (dv : nat) (pre ext : bool) (prec : nat) (ov : nat) : list Z :=
  rep_date dv ++ rep_pre pre ++ rep_timep ext prec ++ rep_off ov.

Definition time_spans0p (pre ext : bool) (prec : nat) (lo : nat) : scaps :=
  let lp := if pre then 1%nat else 0%nat in
  let lt := length (rep_timep ext prec) in
  let hm := match prec with O => false | _ => true end in
  [ Some (0%nat, (lp + lt + lo)%nat);
    (if pre then Some (0%nat, 1%nat) else None);
    Some (lp, 2%nat);
    (if ext && hm then Some ((lp + 2)%nat, 1%nat) else None);
    (if hm then Some ((if ext then lp + 3 else lp + 2)%nat, 2%nat) else None);
    None; None; None; None;
    match lo with O => None | S _ => Some ((lp + lt)%nat, lo) end ].
Definition time_spansp (ld : nat) (pre ext : bool) (prec : nat) (lo : nat) : scaps :=
  map (option_map (shift_span ld)) (time_spans0p pre ext prec lo).

Definition chkp (dv : nat) (pre ext : bool) (prec : nat) (ov : nat) : bool :=
  match re_match_sp ISO_RE ISO_NGROUPS (repp dv pre ext prec ov) with
  | Some l => scaps_eqb l (date_spans dv ++ time_spansp (length (rep_date dv)) pre ext prec (length (rep_off ov)))
  | None => false
  end.

(* date forms with T and a reduced time of the same kind; time only: T + HH, T + HH:MM, T + HHMM, bare HH, bare HH:MM *)
Definition combosp : list (nat * bool * bool * nat) :=
  [(0, true, true, 0); (0, true, true, 1); (1, true, false, 0); (1, true, false, 1); (2, true, true, 0); (2, true, true, 1);
   (3, true, false, 0); (3, true, false, 1); (4, true, true, 0); (4, true, true, 1); (5, true, false, 0); (5, true, false, 1);
   (6, true, true, 0); (6, true, false, 0); (6, true, true, 1); (6, true, false, 1); (6, false, true, 0); (6, false, false, 0); (6, false, true, 1)]%nat.
Definition chkp_all : bool :=
  forallb (fun c : nat * bool * bool * nat => let '(dv, pre, ext, prec) := c in forallb (fun ov => chkp dv pre ext prec ov) (seq 0 8)) combosp.
Lemma chkp_all_ok : chkp_all = true.
Proof. vm_compute. reflexivity. Qed.

Lemma chkp_sound dv pre ext prec ov : chkp dv pre ext prec ov = true ->
  re_match_sp ISO_RE ISO_NGROUPS (repp dv pre ext prec ov) =
  Some (date_spans dv ++ time_spansp (length (rep_date dv)) pre ext prec (length (rep_off ov))).
Proof.
  unfold chkp. generalize (re_match_sp ISO_RE ISO_NGROUPS (repp dv pre ext prec ov)). intros [l|] A; [|discriminate A].
  f_equal. apply scaps_eqb_eq. exact A.
Qed.

Lemma In_combosp_use dv pre ext prec ov : In (dv, pre, ext, prec) combosp -> (ov < 8)%nat ->
  re_match_sp ISO_RE ISO_NGROUPS (repp dv pre ext prec ov) =
  Some (date_spans dv ++ time_spansp (length (rep_date dv)) pre ext prec (length (rep_off ov))).
Proof.
  intros Hc Ho. assert (Ho' : In ov (seq 0 8)) by (apply in_seq; lia). clear Ho.
  apply chkp_sound. pose proof chkp_all_ok as A. unfold chkp_all in A.
  pose proof (proj1 (forallb_forall _ _) A _ Hc) as A1. cbv beta iota in A1.
  exact (proj1 (forallb_forall _ _) A1 _ Ho').
Qed.

Lemma shape2_timep ext prec H M : 0 <= H < 100 -> 0 <= M < 100 -> shape2 (time_textp ext prec H M) = rep_timep ext prec.
Proof. intros. unfold time_textp, rep_timep. destruct prec; [|destruct ext]; shape2_norm; reflexivity. Qed.

Definition time_groupsp (pre : bool) (sep : Z) (ext : bool) (prec : nat) (H M : Z) (O : list Z) : caps :=
  [ Some (pre_text pre sep ++ time_textp ext prec H M ++ O);
    (if pre then Some [sep] else None);
    Some (render2 H);
    (match prec with O => None | _ => if ext then Some [58] else None end);
    (match prec with O => None | _ => Some (render2 M) end);
    None; None; None; None;
    match O with [] => None | _ => Some O end ].

Lemma texts_timep pre sep ext prec H M O :
  texts (pre_text pre sep ++ time_textp ext prec H M ++ O) (time_spans0p pre ext prec (length O)) =
  time_groupsp pre sep ext prec H M O.
Proof.
  unfold time_groupsp, time_spans0p, pre_text, time_textp, rep_timep, render2.
  destruct pre, ext, prec as [|prec], O as [|o1 O'];
    cbn [andb length app Nat.add texts map option_map sub fst snd firstn skipn];
    rewrite ?app_nil_r, ?Nat.add_0_r; rewrite ?firstn_len; try reflexivity.
Qed.

Theorem iso_groups_of_textp Dt dv pre sep ext prec H M o :
  In (dv, pre, ext, prec) combosp -> shape2 Dt = rep_date dv -> sep = 84 \/ sep = 32 ->
  0 <= H < 100 -> 0 <= M < 100 -> offs_ok o = true ->
  let s := Dt ++ pre_text pre sep ++ time_textp ext prec H M ++ offs_text o in
  re_match ISO_RE ISO_NGROUPS s = Some (texts s (date_spans dv) ++ time_groupsp pre sep ext prec H M (offs_text o)).
Proof.
  intros Hc HD Hsep HH HM Ho s.
  destruct (shape2_offs o Ho) as [So Io].
  assert (Sp : shape2 (pre_text pre sep) = rep_pre pre) by (destruct pre; [destruct Hsep as [-> | ->]|]; reflexivity).
  rewrite iso_match_blind2.
  replace (shape2 s) with (repp dv pre ext prec (offs_variant o))
    by (unfold s, repp; rewrite !shape2_app, HD, Sp, So, shape2_timep by assumption; reflexivity).
  rewrite (In_combosp_use dv pre ext prec (offs_variant o) Hc Io). cbn [option_map]. f_equal.
  unfold texts at 1. rewrite map_app. fold (texts s (date_spans dv)). f_equal.
  fold (texts s (time_spansp (length (rep_date dv)) pre ext prec (length (rep_off (offs_variant o))))).
  rewrite <- HD, <- So, !shape2_length. unfold s, time_spansp. rewrite texts_shift. apply texts_timep.
Qed.

Definition timepart_resultp (is_date : bool) (y m d H M : Z) (o : offs) : result pval :=
  if is_date then mk_datetime y m d H M 0 0 (offs_value o) else mk_time H M 0 0 (offs_value o).

Lemma py_timepart_groupsp dgs pre sep ext prec H M o is_date y m d : length dgs = 16%nat ->
  0 <= H < 100 -> 0 <= M < 100 -> offs_ok o = true ->
  let c := dgs ++ time_groupsp pre sep ext prec H M (offs_text o) in
  has c G_ISO_time = true /\ has c G_ISO_timesep = pre /\
  py_timepart c is_date y m d = timepart_resultp is_date y m d H (minute_p prec M) o.
Proof.
  intros L. do 16 (destruct dgs as [|? dgs]; [discriminate L|]). destruct dgs; [|discriminate L].
  intros HH HM Ho c. unfold c, time_groupsp, timepart_resultp. cbn [app].
  destruct (int_of_render2 H HH) as [IH _]. destruct (int_of_render2 M HM) as [IM _].
  assert (Hoff : match offs_text o with [] => o = ONone | _ => exists v, offs_value o = Some v /\ py_tz_offset (offs_text o) = Ok v end).
  { destruct o as [| |style neg hh mm]; [reflexivity| |]; apply py_tz_offs; try assumption; discriminate. }
  split; [reflexivity|]. split; [destruct pre; reflexivity|].
  unfold py_timepart.
  destruct pre, ext, prec as [|prec]; destruct (offs_text o) as [|ofc OFT] eqn:EO; iso_has;
    cbn [minute_p]; rewrite ?IH, ?IM;
    try (destruct Hoff as (v & Ev & Pv); rewrite Pv, Ev); try (subst o; cbn [offs_value]);
    destruct is_date; reflexivity.
Qed.

(* ---- date followed by a reduced-precision time *)
Theorem py_parse_iso_datetimep form sep prec y m d H M o :
  0 <= form <= 5 -> sep = 84 \/ sep = 32 -> (prec <= 1)%nat -> valid_date y m d = true -> valid_time H M 0 0 = true ->
  offs_ok o = true -> (4 <= form -> 1001 <= iso_year_of y m d <= 9998) ->
  py_parse_iso (iso_datetimep form sep prec y m d H M o) = Ok (mkp 1 y m d H (minute_p prec M) 0 0 (offs_value o)).
Proof.
  intros Hform Hsep Hp Vd Vt Ho Hiy. pose proof (valid_time_bounds _ _ _ _ Vt) as Bt.
  unfold py_parse_iso, iso_datetimep.
  set (R := [sep] ++ time_textp (form_ext form) prec H M ++ offs_text o).
  destruct (date_half form y m d R (time_groupsp true sep (form_ext form) prec H M (offs_text o)) Hform Vd Hiy) as (SD & LD & HD & PD).
  assert (Hc : In (Z.to_nat form, true, form_ext form, prec) combosp).
  { assert (F : form = 0 \/ form = 1 \/ form = 2 \/ form = 3 \/ form = 4 \/ form = 5) by lia.
    assert (P : prec = 0%nat \/ prec = 1%nat) by lia.
    destruct F as [-> | [-> | [-> | [-> | [-> | ->]]]]]; destruct P as [-> | ->]; cbn; tauto. }
  pose proof (iso_groups_of_textp (render_date form y m d) (Z.to_nat form) true sep (form_ext form) prec H M o
                Hc SD Hsep ltac:(lia) ltac:(lia) Ho) as G.
  cbv zeta in G. change (pre_text true sep) with [sep] in G. fold R in G. rewrite G. clear G.
  destruct (py_timepart_groupsp _ true sep (form_ext form) prec H M o true y m d LD ltac:(lia) ltac:(lia) Ho) as (HT & HS & PT).
  cbv zeta in HT, HS, PT. rewrite HD, PD, HT, HS, PT. cbn [negb andb].
  unfold timepart_resultp, mk_datetime. rewrite Vd.
  assert (Vt' : valid_time H (minute_p prec M) 0 0 = true) by (destruct prec; cbn [minute_p]; unfold valid_time in *; lia).
  rewrite Vt'. reflexivity.
Qed.

(* ---- reduced-precision time only: THH, THH:MM, THHMM, bare HH, bare HH:MM (bare HHMM is a four-digit year) *)
Theorem py_parse_iso_timep pre ext prec H M o :
  (prec <= 1)%nat -> (pre = true \/ prec = 0%nat \/ ext = true) -> valid_time H M 0 0 = true -> offs_ok o = true ->
  py_parse_iso (iso_timep pre ext prec H M o) = Ok (mkp 3 0 0 0 H (minute_p prec M) 0 0 (offs_value o)).
Proof.
  intros Hp Hpe Vt Ho. pose proof (valid_time_bounds _ _ _ _ Vt) as Bt.
  unfold py_parse_iso, iso_timep.
  assert (Hc : In (6%nat, pre, ext, prec) combosp).
  { assert (P : prec = 0%nat \/ prec = 1%nat) by lia. destruct P as [-> | ->]; destruct pre, ext; cbn; intuition congruence. }
  pose proof (iso_groups_of_textp [] 6%nat pre 84 ext prec H M o Hc eq_refl ltac:(lia) ltac:(lia) ltac:(lia) Ho) as G.
  cbv zeta in G. cbn [app] in G. change (pre_text pre 84) with (if pre then [84] else []) in G. rewrite G. clear G.
  change (date_spans 6) with (@repeat (option span) None 16).
  set (dgs := texts _ (repeat None 16)).
  assert (LD : length dgs = 16%nat) by reflexivity.
  destruct (py_timepart_groupsp dgs pre 84 ext prec H M o false 0 1 1 LD ltac:(lia) ltac:(lia) Ho) as (HT & HS & PT).
  cbv zeta in HT, HS, PT.
  assert (HD : has (dgs ++ time_groupsp pre 84 ext prec H M (offs_text o)) G_ISO_date = false) by reflexivity.
  assert (PD : py_datepart (dgs ++ time_groupsp pre 84 ext prec H M (offs_text o)) = Ok (0, 1, 1, false)) by (unfold py_datepart; rewrite HD; reflexivity).
  rewrite HD, PD, HT, PT. cbn [negb andb].
  unfold timepart_resultp, mk_time.
  assert (Vt' : valid_time H (minute_p prec M) 0 0 = true) by (destruct prec; cbn [minute_p]; unfold valid_time in *; lia).
  rewrite Vt'. reflexivity.
Qed.

(* ------------------------------------------------------------------ compiled parser, reduced precision *)
Lemma offs_not_tzstart o : offs_ok o = true -> not_tzstart (offs_text o) = false.
Proof.
  destruct o as [| |style neg hh mm]; cbn [offs_text offs_ok]; intros H; try reflexivity.
  unfold hm_text, not_tzstart. unf_ch. cbn [cur isend]. destruct (neg =? 0); reflexivity.
Qed.
Lemma offs_head_notcolon o : offs_ok o = true -> (cur (offs_text o) =? 58) = false /\ is_digit (cur (offs_text o)) = false.
Proof.
  destruct o as [| |style neg hh mm]; cbn [offs_text offs_ok]; intros H; try (split; reflexivity).
  unfold hm_text. cbn [cur]. destruct (neg =? 0); split; reflexivity.
Qed.

Lemma rs_time_p dt sep ext prec h1 h2 i1 i2 o :
  sep = 84 \/ sep = 32 -> (prec <= 1)%nat -> (prec = 1%nat -> ext = false -> r_ext dt = false) -> offs_ok o = true ->
  0 <= h1 <= 9 -> 0 <= h2 <= 9 -> 0 <= i1 <= 9 -> 0 <= i2 <= 9 ->
  rs_parse_time dt false (sep :: match prec with O => dg h1 :: dg h2 :: offs_text o
                                 | _ => if ext then dg h1 :: dg h2 :: 58 :: dg i1 :: dg i2 :: offs_text o
                                        else dg h1 :: dg h2 :: dg i1 :: dg i2 :: offs_text o end) =
  Some (mkr (r_year dt) (r_month dt) (r_day dt) (10 * h1 + h2) (match prec with O => r_minute dt | _ => 10 * i1 + i2 end)
            (r_second dt) (r_us dt) (offs_value o) (r_has_date dt) true (r_ext dt), []).
Proof.
  intros Hsep Hp He Ho. intros. pose proof (offs_not_tzstart o Ho) as NT. destruct (rs_tail None o eq_refl Ho) as [_ TO]. cbn [frac_text app] in TO.
  assert (P : prec = 0%nat \/ prec = 1%nat) by lia.
  unfold rs_parse_time. unf_ch.
  destruct P as [-> | ->]; [|destruct ext]; destruct Hsep as [-> | ->]; run';
    repeat (first [rewrite NT | rewrite TO | rewrite (He eq_refl eq_refl) | progress run'
                  | match goal with |- context [not_tzstart (?a :: ?l)] => unfold not_tzstart at 1; unf_ch end]);
    reflexivity.
Qed.

(* the year and date part of the compiled descent, whatever time text follows the separator *)
Lemma rs_datetime_split form sep y m d rest :
  0 <= form <= 5 -> sep = 84 \/ sep = 32 -> valid_date y m d = true -> (4 <= form -> 1 <= iso_year_of y m d <= 9999) ->
  rs_parse_datetime (render_date form y m d ++ sep :: rest) =
  match rs_parse_time (mkr y m d 0 0 0 0 None true false (form_ext form)) false (sep :: rest) with
  | None => None
  | Some (dt', s4) => if isend s4 then Some dt' else None
  end.
Proof.
  intros Hform Hsep Vd Hiy. pose proof (valid_date_bounds _ _ _ Vd) as Bd.
  assert (Vb : valid_dateb y m d = true) by (unfold valid_date in Vd; apply andb_true_iff in Vd; tauto).
  destruct (yday_date y m d Vb) as [By Ey]. pose proof (diy_cases y) as Dy. set (n := yday y m d) in *.
  pose proof (isocalendar_inverse y m d Vb) as I. pose proof (ord2ymd_ymd2ord y m d Vb) as O.
  destruct (d10 (y / 100) ltac:(lia)) as (A1 & A2 & A3). destruct (d10 (y mod 100) ltac:(lia)) as (B1 & B2 & B3).
  destruct (d10 m ltac:(lia)) as (C1 & C2 & C3). destruct (d10 d ltac:(lia)) as (D1 & D2 & D3).
  destruct (d100 n ltac:(lia)) as (N1 & N2 & N3 & N4).
  assert (Ey4 : (10 * (y / 100 / 10) + (y / 100) mod 10) * 100 + (10 * (y mod 100 / 10) + (y mod 100) mod 10) = y) by lia.
  assert (F : form = 0 \/ form = 1 \/ form = 2 \/ form = 3 \/ form = 4 \/ form = 5) by lia.
  unfold render_date. fold n. unfold iso_year_of in Hiy.
  destruct F as [-> | [-> | [-> | [-> | F]]]]; cbn [Z.eqb Pos.eqb form_ext Z.even];
    [ | | | | destruct (isocalendar y m d) as [[iy iw] iwd]; cbn [fst] in Hiy; destruct I as (_ & Bw & Bwd & E);
              pose proof (iso_weeks_52_53 iy) as W; specialize (Hiy ltac:(lia));
              pose proof (rs_week_spec iy iw iwd ltac:(lia) Bw Bwd) as PW; rewrite E, O in PW;
              destruct (d10 (iy / 100) ltac:(lia)) as (P1 & P2 & P3); destruct (d10 (iy mod 100) ltac:(lia)) as (Q1 & Q2 & Q3);
              destruct (d10 iw ltac:(lia)) as (W1 & W2 & W3);
              assert (Eiy4 : (10 * (iy / 100 / 10) + (iy / 100) mod 10) * 100 + (10 * (iy mod 100 / 10) + (iy mod 100) mod 10) = iy) by lia;
              destruct F as [-> | ->]; cbn [Z.eqb Pos.eqb form_ext Z.even] ];
    unfold render4, render3, render2, render1; cbn [app]; unfold rs_parse_datetime; unf_ch; run'.
  - rewrite rs_date_ext_t by assumption. red1. cbn [set_ymd rdt0 r_hour r_minute r_second r_us r_offset r_has_time].
    rewrite Ey4, C3, D3. reflexivity.
  - rewrite rs_date_bas_t by assumption. red1. cbn [set_ymd rdt0 r_hour r_minute r_second r_us r_offset r_has_time].
    rewrite Ey4, C3. replace (d / 10 * 10 + d mod 10) with d by lia. reflexivity.
  - rewrite rs_date_ord_ext_t by assumption. rewrite N4, Ey4. rewrite rs_ordinal_spec by lia. rewrite Ey. red1. reflexivity.
  - rewrite rs_date_ord_bas by assumption. replace (n mod 10 + (10 * (n / 100) + (n / 10) mod 10) * 10) with n by lia.
    rewrite Ey4. rewrite rs_ordinal_spec by lia. rewrite Ey. red1. reflexivity.
  - rewrite rs_date_week_ext_t by (try assumption; lia). rewrite W3, Eiy4, PW. red1. reflexivity.
  - rewrite rs_date_week_bas_t by (try assumption; lia). rewrite W3, Eiy4, PW. red1. reflexivity.
Qed.

Theorem rs_parse_iso_datetimep form sep prec y m d H M o :
  0 <= form <= 5 -> sep = 84 \/ sep = 32 -> (prec <= 1)%nat -> valid_date y m d = true -> valid_time H M 0 0 = true ->
  offs_ok o = true -> (4 <= form -> 1 <= iso_year_of y m d <= 9999) ->
  rs_parse_iso (iso_datetimep form sep prec y m d H M o) = Ok (mkp 1 y m d H (minute_p prec M) 0 0 (offs_value o)).
Proof.
  intros Hform Hsep Hp Vd Vt Ho Hiy. pose proof (valid_date_bounds _ _ _ Vd) as Bd. pose proof (valid_time_bounds _ _ _ _ Vt) as Bt.
  destruct (d10 H ltac:(lia)) as (E1 & E2 & E3). destruct (d10 M ltac:(lia)) as (F1 & F2 & F3).
  assert (R : rs_parse_datetime (iso_datetimep form sep prec y m d H M o) =
              Some (mkr y m d H (minute_p prec M) 0 0 (offs_value o) true true (form_ext form))).
  { unfold iso_datetimep. cbn [app]. rewrite (rs_datetime_split form sep y m d _ Hform Hsep Vd Hiy).
    assert (P : prec = 0%nat \/ prec = 1%nat) by lia.
    set (dt := mkr y m d 0 0 0 0 None true false (form_ext form)).
    pose proof (rs_time_p dt sep (form_ext form) prec (H / 10) (H mod 10) (M / 10) (M mod 10) o Hsep Hp
                  ltac:(intros _ E; exact E) Ho E1 E2 F1 F2) as T.
    unfold time_textp, render2. destruct P as [-> | ->]; [|destruct (form_ext form)]; cbn [app minute_p]; cbn [app] in T;
      rewrite T; cbn [isend dt r_year r_month r_day r_minute r_second r_us r_has_date r_ext]; rewrite ?E3, ?F3; reflexivity. }
  unfold rs_parse_iso. rewrite R.
  cbn [r_has_date r_has_time r_year r_month r_day r_hour r_minute r_second r_us r_offset].
  assert (Bm : 0 <= minute_p prec M < 60) by (destruct prec; cbn [minute_p]; lia).
  unfold u8. rewrite !Z.mod_small by lia. unfold mk_datetime. rewrite Vd.
  assert (Vt' : valid_time H (minute_p prec M) 0 0 = true) by (unfold valid_time in *; lia).
  rewrite Vt'. reflexivity.
Qed.

(* ---- reduced-precision time only, compiled parser: THH, THH:MM, THHMM and bare HH:MM are accepted ... *)
Theorem rs_parse_iso_timep pre ext prec H M o :
  (prec <= 1)%nat -> (pre = true \/ (prec = 1%nat /\ ext = true)) -> valid_time H M 0 0 = true -> offs_ok o = true ->
  rs_parse_iso (iso_timep pre ext prec H M o) = Ok (mkp 3 0 0 0 H (minute_p prec M) 0 0 (offs_value o)).
Proof.
  intros Hp Hpe Vt Ho. pose proof (valid_time_bounds _ _ _ _ Vt) as Bt.
  destruct (d10 H ltac:(lia)) as (E1 & E2 & E3). destruct (d10 M ltac:(lia)) as (F1 & F2 & F3).
  pose proof (offs_not_tzstart o Ho) as NT. destruct (rs_tail None o eq_refl Ho) as [_ TO]. cbn [frac_text app] in TO.
  assert (R : exists e, rs_parse_datetime (iso_timep pre ext prec H M o) = Some (mkr 0 1 1 H (minute_p prec M) 0 0 (offs_value o) false true e)).
  { unfold iso_timep. destruct pre.
    - assert (P : prec = 0%nat \/ prec = 1%nat) by lia.
      pose proof (rs_time_p rdt0 84 ext prec (H / 10) (H mod 10) (M / 10) (M mod 10) o ltac:(left; reflexivity) Hp
                    ltac:(intros; reflexivity) Ho E1 E2 F1 F2) as T.
      exists false. unfold time_textp, render2. destruct P as [-> | ->]; [|destruct ext]; cbn [app minute_p]; cbn [app] in T;
        unfold rs_parse_datetime; unf_ch; red1; rewrite T; cbn [isend rdt0 r_year r_month r_day r_minute r_second r_us r_has_date r_ext];
        rewrite ?E3, ?F3; reflexivity.
    - destruct Hpe as [Hpe|[-> ->]]; [discriminate Hpe|]. exists true.
      unfold time_textp, render2. cbn [app minute_p]. unfold rs_parse_datetime. unf_ch. run'.
      unfold rs_parse_time. unf_ch. run'.
      repeat (first [rewrite NT | rewrite TO | progress run'
                    | match goal with |- context [not_tzstart (?a :: ?l)] => unfold not_tzstart at 1; unf_ch end]).
      cbn [r_us r_second]. rewrite E3, F3. reflexivity. }
  destruct R as [e R]. unfold rs_parse_iso. rewrite R.
  cbn [r_has_date r_has_time r_year r_month r_day r_hour r_minute r_second r_us r_offset].
  assert (Bm : 0 <= minute_p prec M < 60) by (destruct prec; cbn [minute_p]; lia).
  unfold u8. rewrite !Z.mod_small by lia. unfold mk_time.
  assert (Vt' : valid_time H (minute_p prec M) 0 0 = true) by (unfold valid_time in *; lia).
  rewrite Vt'. reflexivity.
Qed.

(* ... and a bare hour (HH, with or without an offset) is refused by the compiled parser, while the pure-Python one reads a time *)
Theorem rs_parse_iso_bare_hour_rejected ext H M o : 0 <= H < 100 -> offs_ok o = true ->
  rs_parse_iso (iso_timep false ext 0 H M o) = Raise E_ValueError.
Proof.
  intros HH Ho. destruct (d10 H HH) as (E1 & E2 & E3). destruct (offs_head_notcolon o Ho) as [NC ND].
  unfold rs_parse_iso, iso_timep, time_textp, render2. cbn [app]. unfold rs_parse_datetime. unf_ch. run'. rewrite NC.
  destruct (offs_text o) as [|c r]; [reflexivity|]. cbn [cur] in ND. cbn [rs_parse_int]. rewrite ND. reflexivity.
Qed.

Theorem rs_eq_py_datetimep form sep prec y m d H M o :
  0 <= form <= 5 -> sep = 84 \/ sep = 32 -> (prec <= 1)%nat -> valid_date y m d = true -> valid_time H M 0 0 = true ->
  offs_ok o = true -> (4 <= form -> 1001 <= iso_year_of y m d <= 9998) ->
  rs_parse_iso (iso_datetimep form sep prec y m d H M o) = py_parse_iso (iso_datetimep form sep prec y m d H M o).
Proof. intros. rewrite rs_parse_iso_datetimep, py_parse_iso_datetimep by (try assumption; intros; lia). reflexivity. Qed.

Theorem rs_eq_py_timep pre ext prec H M o :
  (prec <= 1)%nat -> (pre = true \/ (prec = 1%nat /\ ext = true)) -> valid_time H M 0 0 = true -> offs_ok o = true ->
  rs_parse_iso (iso_timep pre ext prec H M o) = py_parse_iso (iso_timep pre ext prec H M o).
Proof. intros Hp Hpe. intros. rewrite rs_parse_iso_timep, py_parse_iso_timep by (try assumption; tauto). reflexivity. Qed.

(* ------------------------------------------------------------------ the T-prefixed extended time with seconds is refused by the compiled
   parser (listed finding rs-T-extended-time-rejected): universally *)
Theorem rs_parse_iso_T_extended_rejected H M S f o : valid_time H M S 0 = true -> frac_ok f = true -> offs_ok o = true ->
  rs_parse_iso (iso_time true true H M S f o) = Raise E_ValueError.
Proof.
  intros Vt Hf Ho. pose proof (valid_time_bounds _ _ _ _ Vt) as Bt.
  destruct (d10 H ltac:(lia)) as (E1 & E2 & E3). destruct (d10 M ltac:(lia)) as (F1 & F2 & F3). destruct (d10 S ltac:(lia)) as (G1 & G2 & G3).
  destruct (rs_tail f o Hf Ho) as [TF TO].
  unfold rs_parse_iso, iso_time, time_text, render2. cbn [app]. unfold rs_parse_datetime. unf_ch. red1.
  unfold rs_parse_time. unf_ch. run'.
  repeat (first [progress run' | match goal with |- context [not_tzstart (?a :: ?l)] => unfold not_tzstart at 1; unf_ch end]).
  cbn [rdt0 r_us r_ext]. rewrite TF. reflexivity.
Qed.

(* ------------------------------------------------------------------ pendulum.parse: exact=True returns the narrowest type *)
Definition deftz_of (tzopt : option Z) : Z := match tzopt with Some o => o | None => 0 end.

Lemma parse_top_kind2 (rs exact : bool) tzopt now s y m d :
  (if rs then rs_parse_iso s else py_parse_iso s) = Ok (mkp 2 y m d 0 0 0 0 None) ->
  parse_top rs exact tzopt now s = if exact then Ok (mkp 2 y m d 0 0 0 0 None) else to_datetime y m d 0 0 0 0 (deftz_of tzopt).
Proof. intros E. unfold parse_top, base_parse. rewrite E. cbn [p_kind p_y p_m p_d Z.eqb Pos.eqb]. destruct exact; reflexivity. Qed.

Lemma parse_top_kind3 (rs exact : bool) tzopt now s H M S us off :
  (if rs then rs_parse_iso s else py_parse_iso s) = Ok (mkp 3 0 0 0 H M S us off) ->
  parse_top rs exact tzopt now s =
  if exact then Ok (mkp 3 0 0 0 H M S us None) else let '(ny, nm, nd) := now in to_datetime ny nm nd H M S us (deftz_of tzopt).
Proof. intros E. unfold parse_top, base_parse. rewrite E. cbn [p_kind p_H p_M p_S p_us Z.eqb Pos.eqb]. destruct exact; reflexivity. Qed.

(* a date-only text (six forms) is a date with exact=True, and midnight in the tz option (default UTC) without *)
Theorem parse_top_date (rs exact : bool) tzopt now form y m d :
  0 <= form <= 5 -> valid_date y m d = true -> (4 <= form -> 1001 <= iso_year_of y m d <= 9998) ->
  parse_top rs exact tzopt now (render_date form y m d) =
  if exact then Ok (mkp 2 y m d 0 0 0 0 None) else to_datetime y m d 0 0 0 0 (deftz_of tzopt).
Proof.
  intros Hf Vd Hiy. apply parse_top_kind2. destruct rs; [apply rs_parse_iso_render_date|apply py_parse_iso_render_date6]; try assumption; intros; lia.
Qed.

(* a time-only text is a time with exact=True (the offset of the text is not kept: parser.py builds a naive Time), and that time of `now`'s
   day in the tz option without; the compiled backend accepts fewer of the time-only forms *)
Theorem parse_top_time (rs exact : bool) tzopt now pre ext H M S f o :
  (if rs then (pre = false /\ ext = true) \/ (pre = true /\ ext = false) else pre = true \/ ext = true) ->
  valid_time H M S 0 = true -> frac_ok f = true -> offs_ok o = true ->
  parse_top rs exact tzopt now (iso_time pre ext H M S f o) =
  if exact then Ok (mkp 3 0 0 0 H M S (frac_value f) None)
  else let '(ny, nm, nd) := now in to_datetime ny nm nd H M S (frac_value f) (deftz_of tzopt).
Proof.
  intros Hc Vt Hf Ho. apply (parse_top_kind3 rs exact tzopt now _ H M S (frac_value f) (offs_value o)).
  destruct rs; [apply rs_parse_iso_time|apply py_parse_iso_time]; assumption.
Qed.

Theorem parse_top_timep (rs exact : bool) tzopt now pre ext prec H M o :
  (prec <= 1)%nat -> (if rs then pre = true \/ (prec = 1%nat /\ ext = true) else pre = true \/ prec = 0%nat \/ ext = true) ->
  valid_time H M 0 0 = true -> offs_ok o = true ->
  parse_top rs exact tzopt now (iso_timep pre ext prec H M o) =
  if exact then Ok (mkp 3 0 0 0 H (minute_p prec M) 0 0 None)
  else let '(ny, nm, nd) := now in to_datetime ny nm nd H (minute_p prec M) 0 0 (deftz_of tzopt).
Proof.
  intros Hp Hc Vt Ho. apply (parse_top_kind3 rs exact tzopt now _ H (minute_p prec M) 0 0 (offs_value o)).
  destruct rs; [apply rs_parse_iso_timep|apply py_parse_iso_timep]; assumption.
Qed.

(* a date with a reduced-precision time is a DateTime whatever `exact` *)
Theorem parse_top_datetimep (rs exact : bool) tzopt now form sep prec y m d H M o :
  0 <= form <= 5 -> sep = 84 \/ sep = 32 -> (prec <= 1)%nat -> valid_date y m d = true -> valid_time H M 0 0 = true ->
  offs_ok o = true -> (4 <= form -> 1001 <= iso_year_of y m d <= 9998) -> (forall t, tzopt = Some t -> -86400 < t < 86400) ->
  parse_top rs exact tzopt now (iso_datetimep form sep prec y m d H M o) =
  Ok (mkp 1 y m d H (minute_p prec M) 0 0 (Some (match offs_value o with Some v => v | None => deftz_of tzopt end))).
Proof.
  intros Hform Hsep Hp Vd Vt Ho Hiy Htz. unfold parse_top, base_parse.
  assert (E : (if rs then rs_parse_iso (iso_datetimep form sep prec y m d H M o) else py_parse_iso (iso_datetimep form sep prec y m d H M o))
              = Ok (mkp 1 y m d H (minute_p prec M) 0 0 (offs_value o))).
  { destruct rs; [apply rs_parse_iso_datetimep|apply py_parse_iso_datetimep]; try assumption; intros; lia. }
  rewrite E. cbn [p_kind p_y p_m p_d p_H p_M p_S p_us p_off Z.eqb Pos.eqb]. unfold to_datetime.
  fold (deftz_of tzopt).
  set (v := match offs_value o with Some v => v | None => deftz_of tzopt end).
  assert (Hv : -86400 < v < 86400).
  { unfold v. destruct (offs_value o) as [v0|] eqn:Eo; [exact (offs_value_range o v0 Ho Eo)|].
    unfold deftz_of. destruct tzopt as [t|]; [apply Htz; reflexivity|lia]. }
  replace ((-86400 <? v) && (v <? 86400)) with true by lia. reflexivity.
Qed.

Example more_forms_hyps_satisfiable :
  valid_time 9 5 7 0 = true /\ py_parse_iso (render2 9 ++ render2 5 ++ render2 7) = Ok (mkp 3 0 0 0 9 5 7 0 None) /\
  py_parse_iso (iso_datetimep 3 84 1 2021 3 31 9 5 (OHM 2 0 5 0)) = Ok (mkp 1 2021 3 31 9 5 0 0 (Some 18000)) /\
  rs_parse_iso (iso_timep true true 1 9 5 OZ) = Ok (mkp 3 0 0 0 9 5 0 0 (Some 0)).
Proof. vm_compute. repeat split; reflexivity. Qed.
