(* Proofs/RegexShape.v — generic facts about the backtracking matcher of Model/C07Regex.v (no dependence on any pattern):

   * `rmatch_sp` / `re_match_sp` : a twin of `rmatch` / `re_match` whose captures are SPANS (start index, length).
   * `rmatch_text_of_spans`      : the captured texts of `rmatch` are the substrings of the input at the spans of `rmatch_sp`.
   * `rmatch_sp_shape`           : SHAPE INVARIANCE — the spans only depend on the outcome of the character tests that occur in the
                                   regex: two inputs whose characters are pairwise indistinguishable by those tests (`simb r x x'`)
                                   produce the same spans (or both fail).
   * `re_match_shape`            : hence `re_match r n s` = the substrings of `s` at the spans matched on any representative `s0`
                                   of the same shape.  This turns a statement about all strings of a shape into ONE computation. *)
From Coq Require Import ZArith List Bool Lia.
From PV Require Import Model.C07Regex.
From PV Require Export Model.RegexSpan.
Import ListNotations.
Open Scope Z_scope.

(* the span-tracking twin rmatch_sp / re_match_sp, sub, texts: Model/RegexSpan.v *)

(* ------------------------------------------------------------------ controlled unfolding *)
(* the bounded greedy repetition, abstracted over the body's matcher and the capture type *)
Definition repf {C : Type} (f : nat -> list Z -> C -> (nat -> list Z -> C -> option C) -> option C)
           (k : nat -> list Z -> C -> option C) :=
  fix rep (mx mn i : nat) (s : list Z) (c : C) {struct mx} : option C :=
    match mx with
    | O => match mn with O => k i s c | S _ => None end
    | S mx' =>
        match f i s c (fun i' s' c' => rep mx' (pred mn) i' s' c') with
        | Some res => Some res
        | None => match mn with O => k i s c | S _ => None end
        end
    end.

Lemma rmatch_rep a mn mx i s c k : rmatch (RRep a mn mx) i s c k = repf (rmatch a) k mx mn i s c.
Proof. reflexivity. Qed.
Lemma rmatch_sp_rep a mn mx i s c k : rmatch_sp (RRep a mn mx) i s c k = repf (rmatch_sp a) k mx mn i s c.
Proof. reflexivity. Qed.

Lemma repf_O {C} f k mn i s (c : C) : repf f k O mn i s c = match mn with O => k i s c | S _ => None end.
Proof. reflexivity. Qed.
Lemma repf_S {C} f k mx mn i s (c : C) :
  repf f k (S mx) mn i s c =
  match f i s c (fun i' s' c' => repf f k mx (pred mn) i' s' c') with
  | Some res => Some res
  | None => match mn with O => k i s c | S _ => None end
  end.
Proof. reflexivity. Qed.

(* `$`: at the end, or before a final newline *)
Definition is_end (s : list Z) : bool :=
  match s with [] => true | [x] => x =? 10 | _ => false end.

Lemma match_end_char {A} (x : Z) (t : list Z) (a b : A) :
  match x with
  | 10 => match t with [] => a | _ :: _ => b end
  | _ => b
  end = if is_end (x :: t) then a else b.
Proof.
  destruct t as [|y t].
  - cbn [is_end]. destruct x as [|p|p]; try reflexivity.
    do 5 (try (destruct p as [p|p|]; try reflexivity)).
  - cbn [is_end]. destruct x as [|p|p]; try reflexivity.
    do 5 (try (destruct p as [p|p|]; try reflexivity)).
Qed.

Lemma rmatch_end i s c k : rmatch REnd i s c k = if is_end s then k i s c else None.
Proof. destruct s as [|x t]; [reflexivity|]. cbn [rmatch]. apply (match_end_char x t). Qed.
Lemma rmatch_sp_end i s c k : rmatch_sp REnd i s c k = if is_end s then k i s c else None.
Proof. destruct s as [|x t]; [reflexivity|]. cbn [rmatch_sp]. apply (match_end_char x t). Qed.

(* ------------------------------------------------------------------ texts of spans *)
Lemma texts_upd whole n v : forall sc, texts whole (upd_sp n v sc) = upd n (sub whole v) (texts whole sc).
Proof.
  induction n as [|n IH]; intros [|h t]; try reflexivity.
  cbn [upd_sp upd texts map]. f_equal. apply IH.
Qed.

Lemma texts_none whole n : texts whole (repeat None n) = repeat None n.
Proof. induction n as [|n IH]; [reflexivity|]. cbn [repeat texts map option_map]. f_equal. exact IH. Qed.

Lemma skipn_S_cons {A} (x : A) t : forall i w, skipn i w = x :: t -> skipn (S i) w = t.
Proof.
  induction i as [|i IH]; intros w H.
  - cbn in H. subst w. reflexivity.
  - destruct w as [|a w]; [discriminate H|]. cbn [skipn] in H. apply IH in H. exact H.
Qed.

Section TextOfSpans.
  Variable whole : list Z.

  (* the two continuations do the same thing, one on texts, one on spans *)
  Definition krel (k : nat -> list Z -> caps -> option caps) (ks : nat -> list Z -> scaps -> option scaps) : Prop :=
    forall i s sc, s = skipn i whole -> k i s (texts whole sc) = option_map (texts whole) (ks i s sc).

  Lemma rmatch_text_of_spans r : forall i s sc k ks, s = skipn i whole -> krel k ks ->
    rmatch r i s (texts whole sc) k = option_map (texts whole) (rmatch_sp r i s sc ks).
  Proof.
    induction r as [ | a | neg rs | a IHa b IHb | a IHa b IHb | a IHa mn mx | n a IHa | | ]; intros i s sc k ks Hs Hk.
    - (* REps *) apply Hk. exact Hs.
    - (* RLit *) cbn [rmatch rmatch_sp]. destruct s as [|x t]; [reflexivity|].
      destruct (x =? a); [|reflexivity]. apply Hk. symmetry. eapply skipn_S_cons. symmetry. exact Hs.
    - (* RIn *) cbn [rmatch rmatch_sp]. destruct s as [|x t]; [reflexivity|].
      destruct (xorb neg (in_ranges x rs)); [|reflexivity]. apply Hk. symmetry. eapply skipn_S_cons. symmetry. exact Hs.
    - (* RSeq *) cbn [rmatch rmatch_sp]. apply IHa; [exact Hs|].
      intros i' s' sc' Hs'. apply IHb; assumption.
    - (* RAlt *) cbn [rmatch rmatch_sp]. rewrite (IHa i s sc k ks Hs Hk).
      destruct (rmatch_sp a i s sc ks) as [res|]; [reflexivity|]. cbn [option_map]. apply IHb; assumption.
    - (* RRep *) rewrite rmatch_rep, rmatch_sp_rep. revert mn i s sc Hs.
      induction mx as [|mx IHmx]; intros mn i s sc Hs.
      + rewrite !repf_O. destruct mn; [apply Hk; exact Hs|reflexivity].
      + rewrite !repf_S.
        rewrite (IHa i s sc _ (fun i' s' c' => repf (rmatch_sp a) ks mx (pred mn) i' s' c') Hs).
        * destruct (rmatch_sp a i s sc _) as [res|]; [reflexivity|]. cbn [option_map].
          destruct mn; [apply Hk; exact Hs|reflexivity].
        * intros i' s' sc' Hs'. apply IHmx. exact Hs'.
    - (* RGrp *) cbn [rmatch rmatch_sp]. apply IHa; [exact Hs|].
      intros i' s' sc' Hs'. rewrite <- (Hk i' s' _ Hs'). rewrite texts_upd. unfold sub. cbn [fst snd]. rewrite <- Hs. reflexivity.
    - (* RBeg *) cbn [rmatch rmatch_sp]. destruct i; [apply Hk; exact Hs|reflexivity].
    - (* REnd *) rewrite rmatch_end, rmatch_sp_end. destruct (is_end s); [apply Hk; exact Hs|reflexivity].
  Qed.
End TextOfSpans.

(* re.match: the groups are the substrings of the input at the matched spans *)
Theorem re_match_text_of_spans r n s : re_match r n s = option_map (texts s) (re_match_sp r n s).
Proof.
  unfold re_match, re_match_sp. rewrite <- (texts_none s (S n)) at 1.
  apply rmatch_text_of_spans; [reflexivity|]. intros i t sc _. reflexivity.
Qed.

(* ------------------------------------------------------------------ shape invariance *)
(* x and x' are indistinguishable by every character test occurring in r *)
Fixpoint simb (r : re) (x x' : Z) : bool :=
  match r with
  | REps | RBeg => true
  | RLit a => Bool.eqb (x =? a) (x' =? a)
  | RIn _ rs => Bool.eqb (in_ranges x rs) (in_ranges x' rs)
  | RSeq a b | RAlt a b => simb a x x' && simb b x x'
  | RRep a _ _ | RGrp _ a => simb a x x'
  | REnd => Bool.eqb (x =? 10) (x' =? 10)
  end.
Definition sim (r : re) (x x' : Z) : Prop := simb r x x' = true.

Lemma simb_refl r x : simb r x x = true.
Proof. induction r; cbn [simb]; try reflexivity; try apply eqb_reflx; try assumption; rewrite ?IHr1, ?IHr2; reflexivity. Qed.
Lemma simb_sym r x x' : simb r x x' = simb r x' x.
Proof.
  induction r; cbn [simb]; try reflexivity; try assumption; try (rewrite IHr1, IHr2; reflexivity);
    match goal with |- Bool.eqb ?a ?b = _ => destruct a, b; reflexivity end.
Qed.

Section Shape.
  Variable R : Z -> Z -> Prop.

  (* continuations that agree on R-related suffixes *)
  Definition kagree (k k' : nat -> list Z -> scaps -> option scaps) : Prop :=
    forall i t t' sc, Forall2 R t t' -> k i t sc = k' i t' sc.

  Lemma is_end_shape s s' : (forall x x', R x x' -> Bool.eqb (x =? 10) (x' =? 10) = true) -> Forall2 R s s' -> is_end s = is_end s'.
  Proof.
    intros HR F. destruct F as [|x x' t t' Hx Ft]; [reflexivity|].
    destruct Ft as [|y y' u u' Hy Fu]; [|reflexivity].
    cbn [is_end]. apply eqb_prop. apply HR. exact Hx.
  Qed.

  Lemma rmatch_sp_shape q : (forall x x', R x x' -> simb q x x' = true) ->
    forall i s s' sc k k', Forall2 R s s' -> kagree k k' -> rmatch_sp q i s sc k = rmatch_sp q i s' sc k'.
  Proof.
    induction q as [ | a | neg rs | a IHa b IHb | a IHa b IHb | a IHa mn mx | n a IHa | | ]; intros HR i s s' sc k k' F Hk.
    - (* REps *) apply Hk. exact F.
    - (* RLit *) cbn [rmatch_sp]. destruct F as [|x x' t t' Hx Ft]; [reflexivity|].
      pose proof (HR x x' Hx) as E. cbn [simb] in E. apply eqb_prop in E. rewrite E.
      destruct (x' =? a); [apply Hk; exact Ft|reflexivity].
    - (* RIn *) cbn [rmatch_sp]. destruct F as [|x x' t t' Hx Ft]; [reflexivity|].
      pose proof (HR x x' Hx) as E. cbn [simb] in E. apply eqb_prop in E. rewrite E.
      destruct (xorb neg (in_ranges x' rs)); [apply Hk; exact Ft|reflexivity].
    - (* RSeq *)
      assert (HRa : forall x x', R x x' -> simb a x x' = true)
        by (intros x x' Hx; pose proof (HR x x' Hx) as E; cbn [simb] in E; apply andb_true_iff in E; tauto).
      assert (HRb : forall x x', R x x' -> simb b x x' = true)
        by (intros x x' Hx; pose proof (HR x x' Hx) as E; cbn [simb] in E; apply andb_true_iff in E; tauto).
      cbn [rmatch_sp]. apply IHa; [exact HRa|exact F|].
      intros i' t t' sc' Ft. apply IHb; assumption.
    - (* RAlt *)
      assert (HRa : forall x x', R x x' -> simb a x x' = true)
        by (intros x x' Hx; pose proof (HR x x' Hx) as E; cbn [simb] in E; apply andb_true_iff in E; tauto).
      assert (HRb : forall x x', R x x' -> simb b x x' = true)
        by (intros x x' Hx; pose proof (HR x x' Hx) as E; cbn [simb] in E; apply andb_true_iff in E; tauto).
      cbn [rmatch_sp]. rewrite (IHa HRa i s s' sc k k' F Hk).
      destruct (rmatch_sp a i s' sc k') as [res|]; [reflexivity|]. apply IHb; assumption.
    - (* RRep *) cbn [simb] in HR. rewrite !rmatch_sp_rep. revert mn i s s' sc F.
      induction mx as [|mx IHmx]; intros mn i s s' sc F.
      + rewrite !repf_O. destruct mn; [apply Hk; exact F|reflexivity].
      + rewrite !repf_S.
        rewrite (IHa HR i s s' sc _ (fun i' s' c' => repf (rmatch_sp a) k' mx (pred mn) i' s' c') F).
        * destruct (rmatch_sp a i s' sc _) as [res|]; [reflexivity|].
          destruct mn; [apply Hk; exact F|reflexivity].
        * intros i' t t' sc' Ft. apply IHmx. exact Ft.
    - (* RGrp *) cbn [simb] in HR. cbn [rmatch_sp]. apply IHa; [exact HR|exact F|].
      intros i' t t' sc' Ft. apply Hk. exact Ft.
    - (* RBeg *) cbn [rmatch_sp]. destruct i; [apply Hk; exact F|reflexivity].
    - (* REnd *) rewrite !rmatch_sp_end. cbn [simb] in HR. rewrite (is_end_shape s s' HR F).
      destruct (is_end s'); [apply Hk; exact F|reflexivity].
  Qed.
End Shape.

(* SHAPE INVARIANCE of re.match: equal spans on inputs that the tests of r cannot tell apart *)
Theorem re_match_sp_shape r n s s' : Forall2 (sim r) s s' -> re_match_sp r n s = re_match_sp r n s'.
Proof.
  intros F. unfold re_match_sp. apply (rmatch_sp_shape (sim r)); [intros x x' H; exact H|exact F|].
  intros i t t' sc _. reflexivity.
Qed.

(* boolean form of the premise *)
Fixpoint all2b {A B : Type} (f : A -> B -> bool) (l : list A) (l' : list B) : bool :=
  match l, l' with
  | [], [] => true
  | a :: t, b :: t' => f a b && all2b f t t'
  | _, _ => false
  end.
Lemma all2b_Forall2 {A B} (f : A -> B -> bool) : forall l l', all2b f l l' = true -> Forall2 (fun a b => f a b = true) l l'.
Proof.
  induction l as [|a l IH]; intros [|b l'] H; try discriminate H; [constructor|].
  cbn [all2b] in H. apply andb_true_iff in H. destruct H as [H1 H2]. constructor; [exact H1|apply IH; exact H2].
Qed.

(* the working form: match a representative s0 once, read the groups of every s of the same shape off the spans *)
Theorem re_match_shape r n s0 s : Forall2 (sim r) s0 s -> re_match r n s = option_map (texts s) (re_match_sp r n s0).
Proof. intros F. rewrite re_match_text_of_spans. rewrite (re_match_sp_shape r n s0 s F). reflexivity. Qed.

Theorem re_match_shape_b r n s0 s : all2b (simb r) s0 s = true -> re_match r n s = option_map (texts s) (re_match_sp r n s0).
Proof. intros H. apply re_match_shape. apply all2b_Forall2 in H. exact H. Qed.

(* corollary in terms of the text matcher only: a successful match on the representative transfers, group by group *)
Corollary re_match_transfer r n s0 s c0 : re_match r n s0 = Some c0 -> Forall2 (sim r) s0 s ->
  exists sc, c0 = texts s0 sc /\ re_match r n s = Some (texts s sc) /\ length sc = length c0.
Proof.
  intros M F. rewrite re_match_text_of_spans in M. rewrite (re_match_shape r n s0 s F).
  destruct (re_match_sp r n s0) as [sc|]; [|discriminate M]. cbn [option_map] in *. injection M as M.
  exists sc. repeat split; [symmetry; exact M|]. rewrite <- M. unfold texts. rewrite map_length. reflexivity.
Qed.

Corollary re_match_transfer_none r n s0 s : re_match r n s0 = None -> Forall2 (sim r) s0 s -> re_match r n s = None.
Proof.
  intros M F. rewrite re_match_text_of_spans in M. rewrite (re_match_shape r n s0 s F).
  destruct (re_match_sp r n s0); [discriminate M|reflexivity].
Qed.

(* a group is absent in the transferred match iff it is absent on the representative; present groups are the substrings *)
Lemma texts_nth whole sc g : nth g (texts whole sc) None = option_map (sub whole) (nth g sc None).
Proof. unfold texts. change (@None (list Z)) with (option_map (sub whole) None). apply map_nth. Qed.
