(* Proofs/C17Facts.v — C17: witnesses (by computation) of every escape from "a supported value or a ValueError", on the model that the
   correspondence run of ./check C17 ties to /repo.  The dateutil oracle `du` stays an arbitrary function wherever it is not reached. *)
From Coq Require Import ZArith List Bool Lia.
From PV Require Import Lib.PyBase Model.IsoParse Model.DurParse Model.ParseTotal.
Import ListNotations.
Open Scope Z_scope.

Definition opts0 : opts := mkopts false true false true None (2001, 2, 3).
Definition opts_lax : opts := mkopts false false false true None (2001, 2, 3).

(* "2:" *)
Definition s_2colon : list Z := [50; 58].
(* "2021-01-01/P1D", "P1D/2021-01-01", "P1D/P1D", "12:00/13:00" *)
Definition s_date_dur : list Z := [50;48;50;49;45;48;49;45;48;49;47;80;49;68].
Definition s_dur_date : list Z := [80;49;68;47;50;48;50;49;45;48;49;45;48;49].
Definition s_dur_dur : list Z := [80;49;68;47;80;49;68].
Definition s_time_time : list Z := [49;50;58;48;48;47;49;51;58;48;48].
(* "P4294967297D", "P99999999999D" *)
Definition s_wrap : list Z := [80;52;50;57;52;57;54;55;50;57;55;68].
Definition s_big : list Z := [80;57;57;57;57;57;57;57;57;57;57;57;68].
(* "2021-01-01T00:00:00-25:00", "...+24:00" *)
Definition s_dt : list Z := [50;48;50;49;45;48;49;45;48;49;84;48;48;58;48;48;58;48;48].
Definition s_m25 : list Z := s_dt ++ [45;50;53;58;48;48].
Definition s_p24 : list Z := s_dt ++ [43;50;52;58;48;48].
(* "2021-01-01T00:00:00/P3000000D", "0001-01-01T00:00:00+01:00/PT1H" *)
Definition s_iv_over : list Z := s_dt ++ [47;80;51;48;48;48;48;48;48;68].
Definition s_iv_under : list Z := [48;48;48;49;45;48;49;45;48;49;84;48;48;58;48;48;58;48;48;43;48;49;58;48;48;47;80;84;49;72].
(* "2021-01-01T00:00:00/P4294967297D" *)
Definition s_iv_wrap : list Z := s_dt ++ [47] ++ s_wrap.
(* "9999/0101" *)
Definition s_slash : list Z := [57;57;57;57;47;48;49;48;49].
(* "99999999999999999999" *)
Definition s_digits20 : list Z := repeat 57 20.

Section Witnesses.
  Variable du : list Z -> bool -> bool -> result pval.

  (* "2:" (COMMON's minute group is mandatory): rejected with ParserError by both backends; strict=True, so dateutil is not consulted *)
  Lemma w_minute_absent : forall rs, parse_full du rs opts0 s_2colon = Raise E_ParserError /\ common_minute_absent s_2colon = false.
  Proof. intros [|]; split; vm_compute; reflexivity. Qed.

  (* "2021-01-01/P1D" and "P1D/2021-01-01": the date is taken at midnight (UTC, no tz option); "12:00/13:00" and "P1D/P1D" are not intervals *)
  Lemma w_interval_endpoints : forall rs,
    parse_full du rs opts0 s_date_dur = Ok (V_ival 1 (mkp 1 2021 1 1 0 0 0 0 (Some 0)) (mkp 1 2021 1 2 0 0 0 0 (Some 0))) /\
    parse_full du rs opts0 s_dur_date = Ok (V_ival 1 (mkp 1 2020 12 31 0 0 0 0 (Some 0)) (mkp 1 2021 1 1 0 0 0 0 (Some 0))) /\
    parse_full du rs opts0 s_time_time = Raise E_ParserError /\ parse_full du rs opts0 s_dur_dur = Raise E_ParserError.
  Proof. intros [|]; repeat split; vm_compute; reflexivity. Qed.

  Lemma w_wrap : parse_full du true opts0 s_wrap = Ok (V_dur (0, 0, 1, 0, 0)) /\ parse_full du false opts0 s_wrap = Raise E_ParserError
                 /\ parse_full du true opts0 s_iv_wrap = Ok (V_ival 1 (mkp 1 2021 1 1 0 0 0 0 (Some 0)) (mkp 1 2021 1 2 0 0 0 0 (Some 0))).
  Proof. repeat split; vm_compute; reflexivity. Qed.

  (* "P99999999999D": more days than a timedelta holds; the constructor's OverflowError is answered with ParserError *)
  Lemma w_too_large : forall rs, parse_full du rs opts0 s_big = Raise E_ParserError.
  Proof. intros [|]; vm_compute; reflexivity. Qed.

  (* "...-25:00" and "...+24:00" are rejected by both backends (strict=True: ParserError); "...-23:59" and "...+23:59" are the extreme offsets *)
  Lemma w_offset : forall rs,
    parse_full du rs opts0 s_m25 = Raise E_ParserError /\ parse_full du rs opts0 s_p24 = Raise E_ParserError /\
    parse_full du rs opts0 (s_dt ++ [45;50;51;58;53;57]) = Ok (V_p (mkp 1 2021 1 1 0 0 0 0 (Some (-86340)))) /\
    parse_full du rs opts0 (s_dt ++ [43;50;51;58;53;57]) = Ok (V_p (mkp 1 2021 1 1 0 0 0 0 (Some 86340))) /\
    bad_off (-90000) = true /\ bad_off 86400 = true /\ bad_off 86340 = false /\ bad_off (-86340) = false.
  Proof. intros [|]; repeat split; vm_compute; reflexivity. Qed.

  (* an interval whose computed or UTC-shifted endpoint leaves years 1..9999: ParserError *)
  Lemma w_interval_overflow : forall rs,
    parse_full du rs opts0 s_iv_over = Raise E_ParserError /\ parse_full du rs opts0 s_iv_under = Raise E_ParserError.
  Proof. intros [|]; split; vm_compute; reflexivity. Qed.

  Lemma w_backends_differ :
    parse_full du false opts0 s_slash = Ok (V_ival 2 (mkp 2 9999 1 1 0 0 0 0 None) (mkp 2 101 1 1 0 0 0 0 None)) /\
    parse_full du true opts0 s_slash = Ok (V_p (mkp 1 9999 1 1 0 0 0 0 (Some 0))).
  Proof. split; vm_compute; reflexivity. Qed.
End Witnesses.

(* an oracle that raises OverflowError (as dateutil does on 20 digits): parse(strict=False) answers ParserError; strict=True never asks it *)
Definition du_overflow : list Z -> bool -> bool -> result pval := fun _ _ _ => Raise E_OverflowError.
Lemma w_dateutil : forall rs, parse_full du_overflow rs opts_lax s_digits20 = Raise E_ParserError /\
                              reaches_oracle rs opts_lax s_digits20 = true /\
                              parse_full du_overflow rs opts0 s_digits20 = Raise E_ParserError.
Proof. intros [|]; repeat split; vm_compute; reflexivity. Qed.

(* a dateutil that hands over a datetime whose tzoffset is 24 h: parse(strict=False) answers ParserError (dt.utcoffset() inside the try) *)
Definition du_off24 : list Z -> bool -> bool -> result pval := fun _ _ _ => Ok (mkp 1 2021 1 1 0 0 0 0 (Some 86400)).
Lemma w_dateutil_offset : forall rs, parse_full du_off24 rs opts_lax s_digits20 = Raise E_ParserError.
Proof. intros [|]; vm_compute; reflexivity. Qed.
