(* Proofs/DateTimeNavGluePlain.v — C16, DateTime without zone transitions: the model t_* of Model/Weekday.v IS the code, for NAIVE instances (tz None) and
   instances of a FixedTimezone (gz_fixed t = true).  A model value x (date, time of day, opaque zone id) is represented by ANY object
   dt_of (t_wall x) f tzo — whatever its fold attribute f is (create keeps it for a naive value, a FixedTimezone resets it to 0, add passes 1; the
   model has no fold) —:   Rt x g.   For every such pair the translated method and the model agree:  simt (nglue_<method> g args) (t_<method> x args), i.e.
   both raise the same exception or both return, and the returned object again represents the returned model value (same wall fields, same tz object).
   Covers next, previous (weekday optional, keep_time), first_of / last_of (units and dispatch), _nth_of_month/quarter/year, nth_of.
   (UTC as a tz-database zone is covered by Proofs/DateTimeNavGlueZone.v: gz_fixed t = false.) *)
From Coq Require Import ZArith List Bool Lia ZifyBool.
From PV Require Import Lib.PyBase Spec.Cal Spec.Zone Spec.NativeDT Proofs.CalFacts Gen.AddDuration Gen.Constants Gen.DateGetters Model.TzConvert.
From PV Require Import Model.TzGlueObj Gen.TzGlue Proofs.TzGlueFacts Proofs.C03Facts Proofs.C04Facts Model.StartEndBase Gen.StartEnd Model.StartEnd.
From PV Require Import Model.StartEndGlueObj Gen.StartEndGlue Proofs.StartEndGlueFacts.
From PV Require Import Model.Weekday Proofs.C16Facts Model.WeekdayZone Model.DateTimeNavGlueObj Gen.DateTimeNavGlue Proofs.DateTimeNavGlueFacts.
From PV Require Import Proofs.DateTimeNavGlueZone.
Import ListNotations.
Ltac Zify.zify_post_hook ::= Z.to_euclidean_division_equations.
Open Scope Z_scope.

Section PlainInst.
  Variable tzo : option gtz.
  Hypothesis Hplain : match tzo with None => True | Some t => gz_fixed t = true end.
  Let kind : Z := match tzo with None => 0 | Some _ => 1 end.
  Let zz : zone := match tzo with None => mkzone 0 [] | Some t => gz_zone t end.

  Definition t_wall (x : pdt) : Z := wall_of_date (t_date x) (t_tod x).
  Definition tv (x : pdt) (f : bool) : dtv := mkdtv zz kind (t_wall x) f.
  Definition wft (x : pdt) : Prop := wf_date (t_date x) /\ 0 <= t_tod x < us_per_day.
  Definition Rt (x : pdt) (g : gdt) : Prop := (exists f, g = dt_of (t_wall x) f tzo) /\ wft x.
  Notation simt := (sim pdt Rt).

  Lemma tv_matches x f : tz_matches (tv x f) tzo.
  Proof. unfold tv, kind, zz. destruct tzo as [t|]; cbn; [repeat split; [lia|exact Hplain]|reflexivity]. Qed.

  Lemma kind01 : kind = 0 \/ kind = 1.
  Proof. unfold kind. destruct tzo; [right|left]; reflexivity. Qed.

  Lemma twall_split x : wft x -> t_wall x / us_per_day + 1 = date_ord (t_date x) /\ t_wall x mod us_per_day = t_tod x.
  Proof. intros [_ T]. unfold t_wall, wall_of_date. rewrite upd_val in *. set (n := date_ord (t_date x)). clearbody n. split; lia. Qed.
  Lemma twall_range x : wft x -> wall_in_range (t_wall x) = true.
  Proof.
    intros [W T]. pose proof (date_ord_range _ W) as O. apply wall_in_range_iff. unfold t_wall, wall_of_date. unfold Weekday.MAXORD in O.
    rewrite upd_val in *. lia.
  Qed.

  Lemma tfields x f : wft x ->
    let g := dt_of (t_wall x) f tzo in
    g_year g = d_year (t_date x) /\ g_month g = d_month (t_date x) /\ g_day g = d_day (t_date x) /\ g_day_of_week g = dow (t_date x) /\
    time_us (g_hour g) (g_minute g) (g_second g) (g_microsecond g) = t_tod x /\
    0 <= g_hour g <= 23 /\ 0 <= g_minute g <= 59 /\ 0 <= g_second g <= 59 /\ 0 <= g_microsecond g <= 999999.
  Proof.
    intros Wf g. pose proof (twall_range x Wf) as Rg. destruct (twall_split x Wf) as [Q Md].
    destruct (own_fields g Rg) as ((Hy & Hv & Hh & Hm & Hs & Hu) & Ho & Ht). cbn [g g_wall dt_of] in Ho, Ht. rewrite Q in Ho. rewrite Md in Ht.
    destruct Wf as [[V Y] T].
    assert (E : (g_year g, g_month g, g_day g) = (d_year (t_date x), d_month (t_date x), d_day (t_date x))).
    { rewrite <- (ord2ymd_ymd2ord _ _ _ Hv), Ho. unfold date_ord. apply ord2ymd_ymd2ord. exact V. }
    injection E as E1 E2 E3. repeat split; try assumption; try lia.
    unfold g_day_of_week, dow. cbn [g g_wall dt_of]. now rewrite Q.
  Qed.

  (* DateTime.create(y, m, d, h, mi, s, us, tz=self.tz, fold=f) = t_create: the zone is attached without changing a field *)
  Lemma create_sim_t W0 f zone y m d h mi s us : 0 <= h <= 23 -> 0 <= mi <= 59 -> 0 <= s <= 59 -> 0 <= us <= 999999 ->
    simt (res_of tzo (dt_set (mkdtv zz kind W0 f) y m d h mi s us)) (t_create y m d (time_us h mi s us) zone).
  Proof.
    intros Hh Hm Hs Hu. unfold dt_set, t_create, date_new. cbn [v_kind v_zone v_fold].
    replace (time_okb h mi s us) with true by (unfold time_okb; lia). rewrite andb_true_r.
    destruct ((1 <=? y) && (y <=? 9999) && valid_dateb y m d) eqn:V; cbn [bind]; [|reflexivity].
    apply andb_true_iff in V. destruct V as [V Vd].
    assert (Ew : wall_of y m d h mi s us = t_wall (mkdt (mkdate y m d) (time_us h mi s us) zone)) by (rewrite wall_of_split; reflexivity).
    assert (Wf : wft (mkdt (mkdate y m d) (time_us h mi s us) zone)).
    { split; cbn [t_date t_tod]; [split; cbn [d_year d_month d_day]; [exact Vd|lia]|unfold time_us; rewrite upd_val; lia]. }
    rewrite Ew. destruct kind01 as [K|K]; rewrite K; cbn [Z.eqb Pos.eqb create convert_naive_fixed res_of sim]; (split; [eexists; reflexivity|exact Wf]).
  Qed.

  Ltac own x f Wf := destruct (tfields x f Wf) as (Fy & Fm & Fd & Fw & Ft & Bh & Bm & Bs & Bu); cbv zeta in Fy, Fm, Fd, Fw, Ft, Bh, Bm, Bs, Bu.

  Lemma Ht_fields x g : Rt x g -> g_year g = d_year (t_date x) /\ g_month g = d_month (t_date x) /\ g_day g = d_day (t_date x) /\ g_day_of_week g = dow (t_date x).
  Proof. intros [[f ->] Wf]. own x f Wf. repeat split; assumption. Qed.

  Lemma set_sim_t x f oy om od : wft x ->
    simt (glue_DateTime_set (dt_of (t_wall x) f tzo) oy om od None None None None None)
         (t_create (match oy with Some y => y | None => d_year (t_date x) end) (match om with Some m => m | None => d_month (t_date x) end)
                   (match od with Some d => d | None => d_day (t_date x) end) (t_tod x) (t_zone x)).
  Proof.
    intros Wf. own x f Wf. change (dt_of (t_wall x) f tzo) with (obj_of (tv x f) tzo).
    rewrite (glue_set_dt_set (tv x f) tzo oy om od None None None None (tv_matches x f)). cbv zeta. cbn [tv v_W].
    rewrite (f_g_year (t_wall x) f tzo), (f_g_month (t_wall x) f tzo), (f_g_day (t_wall x) f tzo),
      (f_g_hour (t_wall x) f tzo), (f_g_minute (t_wall x) f tzo), (f_g_second (t_wall x) f tzo), (f_g_us (t_wall x) f tzo).
    rewrite Fy, Fm, Fd. rewrite <- Ft. apply create_sim_t; assumption.
  Qed.

  Lemma Ht_set_day x g d : Rt x g -> simt (glue_DateTime_set g None None (Some d) None None None None None) (t_set_day x d).
  Proof. intros [[f ->] Wf]. exact (set_sim_t x f None None (Some d) Wf). Qed.
  Lemma Ht_set_month x g m : Rt x g -> simt (glue_DateTime_set g None (Some m) None None None None None None) (t_set_month x m).
  Proof. intros [[f ->] Wf]. exact (set_sim_t x f None (Some m) None Wf). Qed.
  Lemma Ht_set_md x g m d : Rt x g -> simt (glue_DateTime_set g None (Some m) (Some d) None None None None None) (t_on x (d_year (t_date x)) m d).
  Proof. intros [[f ->] Wf]. exact (set_sim_t x f None (Some m) (Some d) Wf). Qed.
  Lemma Ht_on x g y m d : Rt x g -> simt (glue_DateTime_on g y m d) (t_on x y m d).
  Proof. intros [[f ->] Wf]. unfold glue_DateTime_on. rewrite rid. exact (set_sim_t x f (Some y) (Some m) (Some d) Wf). Qed.

  Lemma Ht_sod x g : Rt x g -> simt (sglue_start_of_day g) (t_start_of_day x).
  Proof.
    intros [[f ->] Wf]. own x f Wf. change (dt_of (t_wall x) f tzo) with (obj_of (tv x f) tzo). rewrite (sglue_start_of_day_eq (tv x f) tzo (tv_matches x f)).
    unfold dt_start_of_day, set_from. cbv zeta. cbn [tv v_W Z.leb Z.compare].
    rewrite (f_g_year (t_wall x) f tzo), (f_g_month (t_wall x) f tzo), (f_g_day (t_wall x) f tzo).
    rewrite Fy, Fm, Fd. unfold t_start_of_day. change 0 with (time_us 0 0 0 0) at 5. apply create_sim_t; lia.
  Qed.

  Lemma step_sim_t x f k : wft x -> k = 1 \/ k = -1 -> simt (res_of tzo (step_day (tv x f) k)) (t_add_days x k).
  Proof.
    intros Wf Hk. pose proof (twall_range x Wf) as Rg. destruct (twall_split x Wf) as [Q Md].
    unfold step_day, t_add_days. cbn [tv v_W v_kind v_zone].
    rewrite (add_duration_cal (t_wall x) true 0 0 0 k 0 0 0 0 Rg). unfold cal_spec, cal_target. cbn [negb andb]. rewrite (ym_shift_zero _ Rg).
    unfold wall_shift. assert (Et : td_total_us (k + 7 * 0) 0 0 0 0 = k * us_per_day) by (unfold td_total_us; rewrite upd_val; lia). rewrite Et.
    rewrite Z.div_mul by (rewrite upd_val; lia).
    replace ((k <? -999999999) || (999999999 <? k)) with false by lia.
    unfold date_add_days, date_of_ord.
    assert (Er : wall_in_range (t_wall x + k * us_per_day) = (1 <=? date_ord (t_date x) + k) && (date_ord (t_date x) + k <=? Weekday.MAXORD)).
    { destruct Wf as [_ T]. unfold wall_in_range, max_wall, Weekday.MAXORD, t_wall, wall_of_date. rewrite upd_val in *. lia. }
    rewrite Er. destruct ((1 <=? date_ord (t_date x) + k) && (date_ord (t_date x) + k <=? Weekday.MAXORD)) eqn:E; cbn [bind]; [|reflexivity].
    cbn [n_wall]. fold (P (date_ord (t_date x) + k)).
    assert (O : 1 <= date_ord (t_date x) + k <= Weekday.MAXORD) by lia. destruct (P_spec _ O) as [Wp Eo]. destruct (wf_fields _ Wp) as (Py & Pm & Pd).
    unfold t_create. rewrite (date_new_ok _ _ _ Py Pm Pd). cbn [bind].
    replace (mkdate _ _ _) with (P (date_ord (t_date x) + k)) by (destruct (P (date_ord (t_date x) + k)); reflexivity).
    assert (Ew : t_wall x + k * us_per_day = t_wall (mkdt (P (date_ord (t_date x) + k)) (t_tod x) (t_zone x))).
    { unfold t_wall, wall_of_date. cbn [t_date t_tod]. rewrite Eo. lia. }
    assert (Wf' : wft (mkdt (P (date_ord (t_date x) + k)) (t_tod x) (t_zone x))) by (split; [exact Wp|exact (proj2 Wf)]).
    rewrite Ew. destruct kind01 as [K|K]; rewrite K; cbn [Z.eqb Pos.eqb create convert_naive_fixed res_of sim]; (split; [eexists; reflexivity|exact Wf']).
  Qed.

  Lemma Ht_add x g : Rt x g -> simt (glue_DateTime_add g 0 0 0 1 0 0 0 0) (t_add_days x 1).
  Proof.
    intros [[f ->] Wf]. change (dt_of (t_wall x) f tzo) with (obj_of (tv x f) tzo).
    rewrite (glue_step_day (tv x f) tzo 1 (tv_matches x f) (twall_range x Wf)) by lia. apply step_sim_t; [exact Wf|now left].
  Qed.
  Lemma Ht_sub x g : Rt x g -> simt (sglue_subtract g 0 0 0 1 0 0 0 0) (t_add_days x (-1)).
  Proof.
    intros [[f ->] Wf]. change (dt_of (t_wall x) f tzo) with (obj_of (tv x f) tzo).
    rewrite (sglue_subtract_day (tv x f) tzo (tv_matches x f) (twall_range x Wf)). apply step_sim_t; [exact Wf|now right].
  Qed.

  Ltac hyps := intros; lazymatch goal with
    | |- _ /\ _ => apply Ht_fields; assumption
    | |- sim _ _ (sglue_start_of_day _) _ => apply Ht_sod; assumption
    | |- sim _ _ (glue_DateTime_add _ _ _ _ _ _ _ _ _) _ => apply Ht_add; assumption
    | |- sim _ _ (sglue_subtract _ _ _ _ _ _ _ _ _) _ => apply Ht_sub; assumption
    | |- sim _ _ (glue_DateTime_set _ None None _ _ _ _ _ _) _ => apply Ht_set_day; assumption
    | |- sim _ _ (glue_DateTime_set _ None _ None _ _ _ _ _) _ => apply Ht_set_month; assumption
    | |- sim _ _ (glue_DateTime_set _ _ _ _ _ _ _ _ _) _ => apply Ht_set_md; assumption
    | |- sim _ _ (glue_DateTime_on _ _ _ _) _ => apply Ht_on; assumption
    | |- Rt _ _ => assumption
    end.

  Theorem nglue_next_plain x g wd keep : Rt x g -> simt (nglue_next g wd keep) (t_next x wd keep).
  Proof. intros Hr. rewrite <- nav_t_next. eapply sim_next; hyps. Qed.
  Theorem nglue_previous_plain x g wd keep : Rt x g -> simt (nglue_previous g wd keep) (t_previous x wd keep).
  Proof. intros Hr. rewrite <- nav_t_previous. eapply sim_previous; hyps. Qed.
  Theorem nglue_first_of_plain u x g wd : Rt x g -> simt (nglue_first_of u g wd) (t_first_of u x wd).
  Proof. intros Hr. rewrite <- nav_t_first_of. eapply sim_first_of; hyps. Qed.
  Theorem nglue_last_of_plain u x g wd : Rt x g -> simt (nglue_last_of u g wd) (t_last_of u x wd).
  Proof. intros Hr. rewrite <- nav_t_last_of. eapply sim_last_of; hyps. Qed.
  Theorem nglue_nth_of_month_plain x g nth w : Rt x g -> simo pdt Rt (nglue_nth_of_month g nth w) (t_nth_of_month x nth w).
  Proof. intros Hr. rewrite <- nav_t_nth_of_month. eapply sim_nth_of_month; hyps. Qed.
  Theorem nglue_nth_of_quarter_plain x g nth w : Rt x g -> simo pdt Rt (nglue_nth_of_quarter g nth w) (t_nth_of_quarter x nth w).
  Proof. intros Hr. rewrite <- nav_t_nth_of_quarter. eapply sim_nth_of_quarter; hyps. Qed.
  Theorem nglue_nth_of_year_plain x g nth w : Rt x g -> simo pdt Rt (nglue_nth_of_year g nth w) (t_nth_of_year x nth w).
  Proof. intros Hr. rewrite <- nav_t_nth_of_year. eapply sim_nth_of_year; hyps. Qed.
  Theorem nglue_nth_of_plain u x g nth w : Rt x g -> simt (nglue_nth_of u g nth w) (t_nth_of u x nth w).
  Proof. intros Hr. rewrite <- nav_t_nth_of. eapply sim_nth_of; hyps. Qed.
End PlainInst.
