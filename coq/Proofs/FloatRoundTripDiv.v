(* Proofs/FloatRoundTripDiv.v — int(total_seconds / unit) is the exact truncated quotient below 2^33 seconds:

     Theorem div_trunc_exact : forall unit N, 1 <= unit <= 2^20 -> Z.abs N < 2^33 * 10^6 ->
       py_int_trunc (fdiv (total_seconds N) (sf_of_Z unit)) = Ok (Z.quot N (unit * 1000000)).

   (Duration.in_minutes / in_hours / in_days: unit = 60, 3600, 86400.)  Two roundings: x = RN(N/10^6), z = RN(x/unit).
   With Q = N / (unit*10^6) (N > 0), A = unit*Q and T = unit*(Q+1) are doubles and A <= N/10^6 <= T - 10^-6, hence
     A <= x < T (|x - N/10^6| <= 2^-21 < 10^-6),  so x <= pred T <= T (1 - 2^-53)             [gap_below]
     Q <= x/unit <= (Q+1)(1 - 2^-53),             so Q <= RN(x/unit) < Q+1                    [RN_below: relative error 2^-53]
   and trunc z = Q.  No binade case analysis. *)
From Coq Require Import ZArith Reals Lia Lra Bool.
From Coq Require Import Floats.SpecFloat.
From Flocq Require Import Core.Core IEEE754.BinarySingleNaN Relative.
From PV Require Import Lib.PyBase Spec.TdFloat Proofs.TdFloatFacts Proofs.FloatRoundTripBase Proofs.FloatRoundTrip.
Open Scope Z_scope.

Notation eps53 := (bpow radix2 (-53)).
Lemma eps53_val : eps53 = (/ 9007199254740992)%R.  Proof. reflexivity. Qed.

(* two distinct positive doubles differ by at least 2^-53 relative to the larger *)
Lemma gap_below : forall x T : R, generic_format radix2 fexp64 x -> generic_format radix2 fexp64 T ->
  (0 < x < T)%R -> (x <= T * (1 - eps53))%R.
Proof.
  intros x T Fx FT [Hx HxT].
  set (p := pred radix2 fexp64 T).
  assert (Hxp : (x <= p)%R) by (apply pred_ge_gt; assumption || typeclasses eauto).
  assert (Hp : (0 < p)%R) by lra.
  assert (Fp : generic_format radix2 fexp64 p) by (apply generic_format_pred; [typeclasses eauto | exact FT]).
  assert (ET : (p + ulp radix2 fexp64 p = T)%R) by (apply pred_plus_ulp; [typeclasses eauto | lra | exact FT]).
  assert (Nz : p <> 0%R) by lra.
  pose proof (bpow_mag_gt radix2 p) as Hm. rewrite Rabs_pos_eq in Hm by lra.
  pose proof (id_p_ulp_le_bpow radix2 fexp64 p (mag radix2 p) Hp Fp Hm) as Hb. rewrite ET in Hb.
  assert (Hu : (bpow radix2 (mag radix2 p) * eps53 <= ulp radix2 fexp64 p)%R).
  { rewrite ulp_neq_0 by exact Nz. rewrite <- bpow_plus. apply bpow_le. unfold cexp, FLT_exp. lia. }
  assert (He : (0 < eps53)%R) by apply bpow_gt_0.
  assert (T * eps53 <= bpow radix2 (mag radix2 p) * eps53)%R by (apply Rmult_le_compat_r; lra).
  lra.
Qed.

(* a real at least 2^-53 (relatively) below v rounds strictly below v *)
Lemma RN_below : forall y v : R, (bpow radix2 (-1022) <= y)%R -> (y <= v * (1 - eps53))%R -> (RN y < v)%R.
Proof.
  intros y v Hy Hv.
  assert (Py : (0 < y)%R) by (apply Rlt_le_trans with (2 := Hy); apply bpow_gt_0).
  pose proof (relative_error_N_FLT radix2 (-1074) 53 prec64 (fun x => negb (Z.even x)) y) as K.
  simpl (-1074 + 53 - 1) in K. rewrite (Rabs_pos_eq y) in K by lra. specialize (K Hy).
  change (bpow radix2 (- (53) + 1)) with (/ 4503599627370496)%R in K.
  change (Znearest (fun x => negb (Z.even x))) with ZnearestE in K.
  apply Rabs_le_inv in K. rewrite eps53_val in Hv.
  assert (Pv : (0 < v)%R).
  { destruct (Rle_or_lt v 0) as [L|L]; [|exact L]. exfalso.
    assert (v * (1 - / 9007199254740992) <= 0)%R; [|lra].
    rewrite <- (Rmult_0_l (1 - / 9007199254740992)). apply Rmult_le_compat_r; lra. }
  assert (H1 : (RN y <= y * (1 + / 9007199254740992))%R) by lra.
  assert (H2 : (y * (1 + / 9007199254740992) <= v * (1 - / 9007199254740992) * (1 + / 9007199254740992))%R)
    by (apply Rmult_le_compat_r; lra).
  assert (H3 : (v * (1 - / 9007199254740992) * (1 + / 9007199254740992) = v - v * (/ 9007199254740992 * / 9007199254740992))%R) by ring.
  assert (H4 : (0 < v * (/ 9007199254740992 * / 9007199254740992))%R) by (apply Rmult_lt_0_compat; lra).
  lra.
Qed.

(* x / y on finite doubles *)
Lemma fdiv_fin_correct : forall sx mx ex sy my ey,
  let X := F2R (Float radix2 (cond_Zopp sx (Zpos mx)) ex) in
  let Y := F2R (Float radix2 (cond_Zopp sy (Zpos my)) ey) in
  (Rabs (RN (X / Y)) < bpow radix2 60)%R ->
  let z := fdiv (S754_finite sx mx ex) (S754_finite sy my ey) in
  valid64 z = true /\ R_of_sf z = RN (X / Y) /\ is_finite_SF z = true /\ sign_SF z = xorb sx sy.
Proof.
  intros sx mx ex sy my ey X Y Hq z.
  pose proof (Bdiv_correct_aux 53 1024 prec64 emax64 mode_NE sx mx ex sy my ey) as H.
  cbv zeta in H.
  assert (Ez : z = let '(mz, ez, lz) := SFdiv_core_binary 53 1024 (Z.pos mx) ex (Z.pos my) ey in
                   BinarySingleNaN.binary_round_aux 53 1024 mode_NE (xorb sx sy) mz ez lz).
  { unfold z, fdiv, SFdiv. destruct (SFdiv_core_binary _ _ _ _ _ _) as [[mz ez] lz]. apply bra_equiv. }
  rewrite <- Ez in H. destruct H as [Hv H]. split; [exact Hv|].
  change (SpecFloat.fexp 53 1024) with fexp64 in H. simpl round_mode in H. fold X Y in H.
  rewrite (bpow_1024_big _ Hq) in H. exact H.
Qed.

Lemma fdiv_opp_l : forall s m e my ey,
  fdiv (fopp (S754_finite s m e)) (S754_finite false my ey) = fopp (fdiv (S754_finite s m e) (S754_finite false my ey)).
Proof.
  intros. unfold fopp, SFopp at 1, fdiv, SFdiv.
  destruct (SFdiv_core_binary _ _ _ _ _ _) as [[mz ez] lz]. rewrite !xorb_false_r. apply bra_opp.
Qed.

Lemma sf_of_Z_pos : forall p, Zpos p < 2 ^ 53 ->
  exists my ey, sf_of_Z (Zpos p) = S754_finite false my ey /\ bounded64 my ey = true /\
                F2R (Float radix2 (Zpos my) ey) = IZR (Zpos p).
Proof.
  intros p Hp. pose proof (normalize_correct false p 0) as K. cbv zeta in K. simpl cond_Zopp in K. simpl cond_neg in K.
  assert (E : F2R (Float radix2 (Z.pos p) 0) = IZR (Z.pos p)) by (unfold F2R; simpl; lra).
  assert (Hp' : Z.abs (Z.pos p) < 2 ^ 53) by exact Hp.
  rewrite E in K. rewrite (round_generic radix2 fexp64 ZnearestE _ (generic_IZR _ Hp')) in K.
  destruct K as (V & Rr & F & S).
  { apply Rlt_trans with (bpow radix2 53); [|apply bpow_lt; lia].
    rewrite <- abs_IZR. change (bpow radix2 53) with (IZR (2 ^ 53)). apply IZR_lt. exact Hp'. }
  change (SpecFloat.binary_normalize 53 1024 (Z.pos p) 0 false) with (sf_of_Z (Z.pos p)) in *.
  assert (Nz : R_of_sf (sf_of_Z (Z.pos p)) <> 0%R).
  { rewrite Rr. apply IZR_neq. lia. }
  destruct (classify_finite _ F Nz V) as (my & ey & Em & Bm).
  rewrite S in Em. exists my, ey. split; [exact Em|]. split; [exact Bm|].
  rewrite Em in Rr. exact Rr.
Qed.

Lemma div_bounds : forall X u a b : R, (0 < u)%R -> (u * a <= X <= u * b)%R -> (a <= X / u <= b)%R.
Proof.
  intros X u a b Hu [H1 H2]. assert (Hi : (0 < / u)%R) by (apply Rinv_0_lt_compat; exact Hu).
  split.
  - replace a with (u * a * / u)%R by (field; lra). unfold Rdiv. apply Rmult_le_compat_r; lra.
  - replace b with (u * b * / u)%R by (field; lra). unfold Rdiv. apply Rmult_le_compat_r; lra.
Qed.

(* ------------------------------------------------------------------ N > 0 *)
Lemma div_trunc_exact_pos : forall unit N, 1 <= unit <= 2 ^ 20 -> 0 < N < 2 ^ 33 * 10 ^ 6 ->
  py_int_trunc (fdiv (total_seconds N) (sf_of_Z unit)) = Ok (N / (unit * 1000000)).
Proof.
  intros unit N Hunit HN.
  destruct (total_seconds_spec N HN) as (m & e & E & B & RX & Err).
  change (2 ^ 33 * 10 ^ 6) with 8589934592000000 in HN. change (2 ^ 20) with 1048576 in Hunit.
  destruct unit as [|pu|pu]; try lia.
  destruct (sf_of_Z_pos pu ltac:(lia)) as (my & ey & Ey & By & RY).
  rewrite E, Ey. set (X := F2R (Float radix2 (Z.pos m) e)) in *. set (u := IZR (Z.pos pu)) in *.
  set (unit := Z.pos pu) in *.
  set (Q := N / (unit * 1000000)). set (A := unit * Q). set (T := unit * Q + unit).
  assert (HQ : 0 <= Q) by (unfold Q; apply Z.div_pos; lia).
  assert (HA : A * 1000000 <= N <= T * 1000000 - 1).
  { unfold A, T. pose proof (Z.div_mod N (unit * 1000000) ltac:(lia)) as DM. fold Q in DM.
    pose proof (Z.mod_pos_bound N (unit * 1000000) ltac:(lia)) as MB.
    set (r := N mod (unit * 1000000)) in *. clearbody r Q. nia. }
  assert (HAb : 0 <= A < 8589934592) by (unfold A in *; nia).
  assert (HTb : 0 < T < 8589934592 + 1048577) by (unfold T, A in *; nia).
  assert (HQb : 0 <= Q < 8589934592) by (unfold A in *; nia).
  set (q := (IZR N / 1000000)%R) in *.
  assert (Hu : (1 <= u <= 1048576)%R) by (unfold u; split; apply IZR_le; lia).
  assert (Hq : (IZR A <= q <= IZR T - / 1000000)%R).
  { destruct HA as [H1 H2]. apply IZR_le in H1, H2. rewrite mult_IZR in H1. rewrite minus_IZR, mult_IZR in H2. unfold q. lra. }
  assert (HqN : (/ 1000000 <= q < 8589934592)%R).
  { unfold q. assert (H1 : 1 <= N) by lia. assert (H2 : N < 8589934592000000) by lia.
    apply IZR_le in H1. apply IZR_lt in H2. lra. }
  rewrite bpow_m20 in Err. apply Rabs_le_inv in Err.
  assert (FA : generic_format radix2 fexp64 (IZR A)) by (apply generic_IZR; lia).
  assert (FT : generic_format radix2 fexp64 (IZR T)) by (apply generic_IZR; lia).
  assert (FX : generic_format radix2 fexp64 X) by (rewrite RX; apply generic_format_round; typeclasses eauto).
  assert (XA : (IZR A <= X)%R) by (rewrite RX; apply round_ge_generic; [typeclasses eauto.. | exact FA | lra]).
  assert (XT : (0 < X < IZR T)%R) by lra.
  pose proof (gap_below X (IZR T) FX FT XT) as Gap.
  (* the quotient *)
  assert (EA : IZR A = (u * IZR Q)%R) by (unfold A, u; apply mult_IZR).
  assert (ET : IZR T = (u * (IZR Q + 1))%R) by (unfold T, u; rewrite plus_IZR, mult_IZR; ring).
  assert (Hy : (IZR Q <= X / u <= (IZR Q + 1) * (1 - eps53))%R).
  { apply div_bounds; [lra|]. split; [rewrite <- EA; exact XA|].
    replace (u * ((IZR Q + 1) * (1 - eps53)))%R with (IZR T * (1 - eps53))%R by (rewrite ET; ring). exact Gap. }
  set (y := (X / u)%R) in *.
  assert (Hylow : (bpow radix2 (-60) <= y)%R).
  { change (bpow radix2 (-60)) with (/ 1152921504606846976)%R.
    assert (/ 2097152 / 1048576 <= y)%R; [|lra].
    unfold y. destruct (div_bounds X u (/ 2097152 / 1048576) X) as [L _]; [lra | | exact L].
    split; [|rewrite <- (Rmult_1_l X) at 1; apply Rmult_le_compat_r; lra].
    apply Rle_trans with (1048576 * (/ 2097152 / 1048576))%R; [apply Rmult_le_compat_r; lra | lra]. }
  assert (Hyup : (y <= 8589934593)%R).
  { unfold y. destruct (div_bounds X u 0 8589934593) as [_ L]; [lra | | exact L].
    split; [lra|]. apply Rle_trans with (1 * 8589934593)%R; [lra | apply Rmult_le_compat_r; lra]. }
  assert (ZQ : (IZR Q <= RN y)%R) by (apply round_ge_generic; [typeclasses eauto.. | apply generic_IZR; lia | lra]).
  assert (ZQ1 : (RN y < IZR Q + 1)%R).
  { apply RN_below; [|lra]. apply Rle_trans with (2 := Hylow). apply bpow_le. lia. }
  pose proof (fdiv_fin_correct false m e false my ey) as D. cbv zeta in D. simpl cond_Zopp in D.
  fold X in D. rewrite RY in D. fold u in D. fold y in D.
  destruct D as (Vz & Rz & Fz & Sz).
  { rewrite bpow_60. apply Rabs_lt. assert (0 <= IZR Q < 8589934592)%R by (split; [apply IZR_le | apply IZR_lt]; lia). lra. }
  destruct (Req_dec (RN y) 0) as [Z0|Z0].
  - pose proof (classify_zero _ Fz ltac:(rewrite Rz; exact Z0)) as Zz.
    destruct (fdiv (S754_finite false m e) (S754_finite false my ey)) as [sz|sz| |sz mz ez]; try discriminate.
    simpl. f_equal. assert (-1 < Q < 1); [|lia]. apply Z_of_R_sandwich; simpl (IZR (-1)); simpl (IZR 1); lra.
  - destruct (classify_finite _ Fz ltac:(rewrite Rz; exact Z0) Vz) as (m2 & e2 & E2 & B2).
    rewrite Sz in E2. simpl xorb in E2. rewrite E2. rewrite E2 in Rz. simpl in Rz.
    unfold py_int_trunc. rewrite sf_trunc_mag_floor, Rz. simpl cond_neg. f_equal.
    apply Zfloor_imp. rewrite plus_IZR. simpl (IZR 1). lra.
Qed.

(* ------------------------------------------------------------------ either sign *)
Theorem div_trunc_exact : forall unit N, 1 <= unit <= 2 ^ 20 -> Z.abs N < 2 ^ 33 * 10 ^ 6 ->
  py_int_trunc (fdiv (total_seconds N) (sf_of_Z unit)) = Ok (Z.quot N (unit * 1000000)).
Proof.
  intros unit N Hunit HN.
  destruct (Z.lt_trichotomy N 0) as [L|[->|G]].
  - assert (HP : 0 < - N < 2 ^ 33 * 10 ^ 6) by lia.
    pose proof (div_trunc_exact_pos unit (- N) Hunit HP) as K.
    destruct (total_seconds_spec (- N) HP) as (m & e & E & _).
    change (2 ^ 20) with 1048576 in Hunit. destruct unit as [|pu|pu]; try lia.
    destruct (sf_of_Z_pos pu ltac:(lia)) as (my & ey & Ey & _).
    replace N with (- (- N)) at 1 by ring. rewrite total_seconds_opp by lia.
    rewrite E, Ey in *. rewrite fdiv_opp_l. rewrite (py_int_trunc_opp _ _ K). f_equal.
    rewrite <- (Z.quot_div_nonneg (- N)) by lia. rewrite Z.quot_opp_l by lia. ring.
  - change (2 ^ 20) with 1048576 in Hunit. destruct unit as [|pu|pu]; try lia.
    destruct (sf_of_Z_pos pu ltac:(lia)) as (my & ey & Ey & _). rewrite Ey. reflexivity.
  - rewrite div_trunc_exact_pos by (exact Hunit || lia). f_equal. rewrite Z.quot_div_nonneg by lia. reflexivity.
Qed.

Print Assumptions div_trunc_exact.
