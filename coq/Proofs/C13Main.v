(* Proofs/C13Main.v — C13: the integer-component theorems for both backends, assembled. *)
From Coq Require Import ZArith List Bool Lia Floats.SpecFloat.
From PV Require Import Lib.PyBase Gen.Constants Model.DurParse Model.DurSpec Proofs.C13Int Proofs.C13Py.
Import ListNotations.
Open Scope Z_scope.
Ltac Zify.zify_post_hook ::= Z.to_euclidean_division_equations.

Definition ocomp := option (list Z).
Definition otime := option (ocomp * ocomp * ocomp).
Definition t_h (t : otime) : ocomp := match t with Some (h, _, _) => h | None => None end.
Definition t_mi (t : otime) : ocomp := match t with Some (_, mi, _) => mi | None => None end.
Definition t_s (t : otime) : ocomp := match t with Some (_, _, s) => s | None => None end.
Definition twf (t : otime) : Prop := owf (t_h t) /\ owf (t_mi t) /\ owf (t_s t).

(* native total in microseconds of integer components (weeks = 0, microseconds = 0) *)
Definition int_us (y mo d h mi s : Z) : Z := int_total_us y mo 0 d h mi s 0.

Definition native_of (y mo : Z) (x : Z) : result durobs :=
  bind (td_norm x) (fun dsu => let '(d, s, u) := dsu in Ok (y, mo, d, s, u)).

(* ---------------- pure Python: every digit string, every subset of components *)
Lemma py_int_all y mo d t : owf y -> owf mo -> owf d -> twf t ->
  py_dur (render_dur y mo d t) =
  native_of (oval y) (oval mo) (int_us (oval y) (oval mo) (oval d) (oval (t_h t)) (oval (t_mi t)) (oval (t_s t))).
Proof.
  intros Hy Hmo Hd [Hh [Hmi Hs]]. unfold py_dur, native_of, int_us.
  destruct t as [[[h mi] s]|]; cbn [t_h t_mi t_s] in *.
  - rewrite py_int_T by assumption. rewrite duration_native_int. cbv zeta.
    destruct (td_norm _) as [[[dd ss] uu]|e]; reflexivity.
  - rewrite py_int_noT by assumption. rewrite duration_native_int. cbv zeta. cbn [oval].
    destruct (td_norm _) as [[[dd ss] uu]|e]; reflexivity.
Qed.

(* ---------------- compiled parser: the same with every component reduced modulo 2^32; "P" alone is rejected *)
Definition nonbare (y mo d : ocomp) (t : otime) : Prop := t <> None \/ date_toks y mo d <> [].

Lemma rs_int_all y mo d t : owf y -> owf mo -> owf d -> twf t -> nonbare y mo d t ->
  rs_dur (render_dur y mo d t) =
  native_of (u32 (oval y)) (u32 (oval mo))
            (int_us (u32 (oval y)) (u32 (oval mo)) (u32 (oval d)) (u32 (oval (t_h t))) (u32 (oval (t_mi t))) (u32 (oval (t_s t)))).
Proof.
  intros Hy Hmo Hd [Hh [Hmi Hs]] Hnb. unfold rs_dur, native_of, int_us, rs_glue.
  destruct t as [[[h mi] s]|]; cbn [t_h t_mi t_s] in *.
  - rewrite rs_int_T by assumption. cbn [bind rs_int_result r_years r_months r_weeks r_days r_hours r_minutes r_seconds r_us].
    rewrite duration_native_int. cbv zeta. destruct (td_norm _) as [[[dd ss] uu]|e]; reflexivity.
  - destruct Hnb as [Hc|Hne]; [congruence|].
    rewrite rs_int_noT by assumption. cbn [bind rs_int_result r_years r_months r_weeks r_days r_hours r_minutes r_seconds r_us oval].
    rewrite duration_native_int. cbv zeta. rewrite u32_0. destruct (td_norm _) as [[[dd ss] uu]|e]; reflexivity.
Qed.

Lemma u32_small x : 0 <= x < 4294967296 -> u32 x = x.
Proof. intros H. unfold u32. apply Z.mod_small. exact H. Qed.

Lemma oval_nonneg o : owf o -> 0 <= oval o.
Proof. destruct o; cbn; [intros [_ H]; apply dval_nonneg; exact H|lia]. Qed.

Definition small (o : ocomp) : Prop := oval o < 4294967296.

(* both backends agree on every integer-component duration whose components are below 2^32 *)
Lemma rs_eq_py_int y mo d t : owf y -> owf mo -> owf d -> twf t -> nonbare y mo d t ->
  small y -> small mo -> small d -> small (t_h t) -> small (t_mi t) -> small (t_s t) ->
  rs_dur (render_dur y mo d t) = py_dur (render_dur y mo d t).
Proof.
  intros Hy Hmo Hd Ht Hnb S1 S2 S3 S4 S5 S6. pose proof Ht as [Hh [Hmi Hs]].
  rewrite rs_int_all, py_int_all by assumption.
  rewrite !u32_small by (split; [apply oval_nonneg; assumption|assumption]). reflexivity.
Qed.

(* the exact value of the components *)
Lemma native_of_exact y mo d h mi s : 0 <= y -> 0 <= mo -> 0 <= d -> 0 <= h -> 0 <= mi -> 0 <= s ->
  let x := int_us y mo d h mi s in
  (x / US_PER_DAY <= 999999999 ->
     exists o, native_of y mo x = Ok o /\ exact_obs o y mo (spec_num 0 d h mi s 1 []) (spec_den []))
  /\ (999999999 < x / US_PER_DAY -> native_of y mo x = Raise E_OverflowError).
Proof.
  intros Py Pmo Pd Ph Pmi Ps. cbv zeta. split; intros Hr.
  - assert (H0 : 0 <= int_us y mo d h mi s) by (unfold int_us, int_total_us, US_PER_DAY; nia).
    destruct (td_norm_ok _ y mo H0 Hr) as [dd [ss [uu [E Eo]]]].
    exists (y, mo, dd, ss, uu). unfold native_of. rewrite E. split; [reflexivity|].
    unfold exact_obs. split; [reflexivity|]. split; [reflexivity|].
    unfold nearest. rewrite Eo. unfold spec_num, spec_den, spec_secs, int_us, int_total_us, US_PER_DAY. cbn [length Z.of_nat dval fold_left].
    change (10 ^ 0) with 1. change (dval []) with 0. lia.
  - unfold native_of. rewrite td_norm_overflow by exact Hr. reflexivity.
Qed.

(* the hypotheses of the integer theorems are satisfiable: "P1Y2M3DT4H5M6S" and "P007D" *)
Example int_hyps_sat :
  let y := Some [49] in let mo := Some [50] in let d := Some [51] in let t := Some (Some [52], Some [53], Some [54]) in
  owf y /\ owf mo /\ owf d /\ twf t /\ nonbare y mo d t /\ small y /\ small d /\
  render_dur y mo d t = [80; 49; 89; 50; 77; 51; 68; 84; 52; 72; 53; 77; 54; 83] /\
  py_dur (render_dur y mo d t) = Ok (1, 2, 428, 14706, 0) /\
  render_dur None None (Some [48; 48; 55]) None = [80; 48; 48; 55; 68] /\ owf (Some [48; 48; 55]).
Proof. cbv zeta. unfold owf, twf, digits, nonbare, small. cbn [t_h t_mi t_s owf].
  repeat split; try discriminate; try reflexivity; try (left; discriminate). Qed.
