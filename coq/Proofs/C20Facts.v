(* Proofs/C20Facts.v — C20: time-of-day arithmetic wraps modulo 24 hours exactly.
   Facts about Model/TimeOfDay.v and the translated Gen/TimeArith.v; all over unbounded integers. *)
From Coq Require Import ZArith List Bool Lia ZifyBool.
From PV Require Import Lib.PyBase Spec.Cal Model.TimeBase Gen.Constants Gen.TimeArith Model.TimeOfDay.
Ltac Zify.zify_post_hook ::= Z.to_euclidean_division_equations.
Open Scope Z_scope.

(* ---------------------------------------------------------------- vocabulary of the statements *)
(* the amount (hours, minutes, seconds, microseconds) in microseconds *)
Definition amount (h m s us : Z) : Z := ((h * 60 + m) * 60 + s) * 1000000 + us.
(* 1970-01-01T00:00 on the wall clock of Spec/Cal.v (microseconds since 0001-01-01T00:00) *)
Definition epoch_wall : Z := 719162 * us_day.
(* 1970-01-01 + time of day + amount is a representable datetime (0001-01-01 .. 9999-12-31T23:59:59.999999) *)
Definition shift_in_range (t : ptime) (a : Z) : bool := wall_in_range (epoch_wall + tod t + a).
(* the specification: wrap modulo 24 hours *)
Definition wrap (t : ptime) (a : Z) : ptime := time_of_tod ((tod t + a) mod us_day).

Ltac split_ifs := repeat match goal with |- context [if ?c then _ else _] => destruct c eqn:? end.

(* ---------------------------------------------------------------- time of day <-> fields *)
Lemma valid_time_bounds t : valid_time t = true ->
  0 <= t_hour t <= 23 /\ 0 <= t_minute t <= 59 /\ 0 <= t_second t <= 59 /\ 0 <= t_microsecond t <= 999999.
Proof. unfold valid_time. intros H. repeat (apply andb_true_iff in H; destruct H as [H ?]). lia. Qed.

Lemma tod_range t : valid_time t = true -> 0 <= tod t < us_day.
Proof. intros H. apply valid_time_bounds in H. unfold tod, us_day. lia. Qed.

Lemma time_of_tod_tod t : valid_time t = true -> time_of_tod (tod t) = t.
Proof.
  intros H. apply valid_time_bounds in H. destruct t as [h m s u]. cbn [t_hour t_minute t_second t_microsecond] in H.
  unfold time_of_tod, tod. cbn [t_hour t_minute t_second t_microsecond]. f_equal; lia.
Qed.

Lemma tod_time_of_tod x : 0 <= x < us_day -> tod (time_of_tod x) = x /\ valid_time (time_of_tod x) = true.
Proof.
  unfold us_day. intros H. unfold time_of_tod, tod, valid_time. cbn [t_hour t_minute t_second t_microsecond].
  split; [lia|]. repeat (apply andb_true_iff; split); lia.
Qed.

Lemma tod_fields_bij :
  (forall t, valid_time t = true -> 0 <= tod t < us_day /\ time_of_tod (tod t) = t) /\
  (forall x, 0 <= x < us_day -> tod (time_of_tod x) = x /\ valid_time (time_of_tod x) = true).
Proof. split; [intros t H; split; [exact (tod_range t H) | exact (time_of_tod_tod t H)] | exact tod_time_of_tod]. Qed.

Lemma wrap_valid t a : valid_time (wrap t a) = true /\ tod (wrap t a) = (tod t + a) mod us_day.
Proof.
  unfold wrap. assert (0 <= (tod t + a) mod us_day < us_day) by (unfold us_day; lia).
  destruct (tod_time_of_tod _ H). auto.
Qed.

(* ---------------------------------------------------------------- helpers.add_duration: the carry normalisation *)
Ltac norm_step f :=
  unfold f, py_sign;
  match goal with |- context [Z.abs ?x >? ?n] => destruct (Z.abs x >? n) eqn:?; [destruct (x <? 0) eqn:?|] end;
  cbv beta iota zeta; lia.

Lemma norm_microseconds_spec s us :
  let '(s', us') := py_add_duration_norm_microseconds s us in
  s' * 1000000 + us' = s * 1000000 + us /\ Z.abs us' <= 999999 /\ 0 <= us' * us.
Proof. norm_step py_add_duration_norm_microseconds. Qed.

Lemma norm_seconds_spec m s :
  let '(m', s') := py_add_duration_norm_seconds m s in
  m' * 60 + s' = m * 60 + s /\ Z.abs s' <= 59 /\ 0 <= s' * s.
Proof. norm_step py_add_duration_norm_seconds. Qed.

Lemma norm_minutes_spec h m :
  let '(h', m') := py_add_duration_norm_minutes h m in
  h' * 60 + m' = h * 60 + m /\ Z.abs m' <= 59 /\ 0 <= m' * m.
Proof. norm_step py_add_duration_norm_minutes. Qed.

Lemma norm_hours_spec d h :
  let '(d', h') := py_add_duration_norm_hours d h in
  d' * 24 + h' = d * 24 + h /\ Z.abs h' <= 23 /\ 0 <= h' * h.
Proof. norm_step py_add_duration_norm_hours. Qed.

Lemma norm_months_spec y mo :
  let '(y', mo') := py_add_duration_norm_months y mo in
  y' * 12 + mo' = y * 12 + mo /\ Z.abs mo' <= 11 /\ 0 <= mo' * mo.
Proof. norm_step py_add_duration_norm_months. Qed.

(* the whole normalisation preserves the totals, for all integers, and leaves every sub-day unit inside its range *)
Lemma add_duration_norm_spec y mo d h m s us :
  let '(y', mo', d', h', m', s', us') := py_add_duration_norm y mo d h m s us in
  units_total d' h' m' s' us' = units_total d h m s us /\ y' * 12 + mo' = y * 12 + mo /\
  Z.abs us' <= 999999 /\ Z.abs s' <= 59 /\ Z.abs m' <= 59 /\ Z.abs h' <= 23 /\ Z.abs mo' <= 11.
Proof.
  unfold py_add_duration_norm.
  pose proof (norm_microseconds_spec s us) as H1. destruct (py_add_duration_norm_microseconds s us) as [s1 us1].
  pose proof (norm_seconds_spec m s1) as H2. destruct (py_add_duration_norm_seconds m s1) as [m1 s2].
  pose proof (norm_minutes_spec h m1) as H3. destruct (py_add_duration_norm_minutes h m1) as [h1 m2].
  pose proof (norm_hours_spec d h1) as H4. destruct (py_add_duration_norm_hours d h1) as [d1 h2].
  pose proof (norm_months_spec y mo) as H5. destruct (py_add_duration_norm_months y mo) as [y1 mo1].
  unfold units_total. lia.
Qed.

Lemma add_duration_norm_total y mo d h m s us :
  let '(_, _, d', h', m', s', us') := py_add_duration_norm y mo d h m s us in
  units_total d' h' m' s' us' = units_total d h m s us.
Proof.
  pose proof (add_duration_norm_spec y mo d h m s us) as H.
  destruct (py_add_duration_norm y mo d h m s us) as [[[[[[y' mo'] d'] h'] m'] s'] us']. tauto.
Qed.

(* ---------------------------------------------------------------- add / subtract *)
Lemma ymd2ord_epoch : ymd2ord 1970 1 1 = 719163.
Proof. vm_compute. reflexivity. Qed.

Lemma epoch_at_wall_eq t : epoch_at_wall t = epoch_wall + tod t.
Proof. unfold epoch_at_wall, wall_of, epoch_wall, tod, us_per_day, us_day. rewrite ymd2ord_epoch. lia. Qed.

Lemma time_of_wall w :
  (let '(_, _, _, hh, mm, ss, us) := fields_of_wall w in mkT hh mm ss us) = time_of_tod (w mod us_day).
Proof.
  unfold fields_of_wall, time_of_tod, us_per_day, us_day.
  destruct (ord2ymd (w / 86400000000 + 1)) as [[y m] d]. reflexivity.
Qed.

Lemma time_add_spec t h m s us :
  time_add t h m s us =
  if shift_in_range t (amount h m s us) then Ok (wrap t (amount h m s us)) else Raise E_OverflowError.
Proof.
  unfold time_add, dt_add_time, shift_in_range, wrap.
  pose proof (add_duration_norm_total 0 0 0 h m s us) as Ht.
  destruct (py_add_duration_norm 0 0 0 h m s us) as [[[[[[y' mo'] d'] h'] m'] s'] us'].
  assert (E : units_total d' h' m' s' us' = amount h m s us) by (rewrite Ht; unfold units_total, amount; lia).
  rewrite E, epoch_at_wall_eq.
  destruct (wall_in_range (epoch_wall + tod t + amount h m s us)); [|reflexivity].
  pose proof (time_of_wall (epoch_wall + tod t + amount h m s us)) as Hw.
  destruct (fields_of_wall (epoch_wall + tod t + amount h m s us)) as [[[[[[y1 m1] d1] hh] mm] ss] uu].
  rewrite Hw. do 2 f_equal. unfold epoch_wall, us_day. lia.
Qed.

Lemma amount_opp h m s us : amount (- h) (- m) (- s) (- us) = - amount h m s us.
Proof. unfold amount. lia. Qed.

Lemma time_subtract_spec t h m s us :
  time_subtract t h m s us =
  if shift_in_range t (- amount h m s us) then Ok (wrap t (- amount h m s us)) else Raise E_OverflowError.
Proof. unfold time_subtract. fold (time_add t (- h) (- m) (- s) (- us)). rewrite time_add_spec, amount_opp. reflexivity. Qed.

(* the result of add/subtract is always a valid time of day *)
Lemma time_add_valid t h m s us t' : time_add t h m s us = Ok t' -> valid_time t' = true.
Proof.
  rewrite time_add_spec. destruct (shift_in_range _ _); [|discriminate]. intros [= <-]. apply wrap_valid.
Qed.

(* inside +-719162 days (1969 years) nothing overflows *)
Lemma shift_in_range_small t a : valid_time t = true -> Z.abs a <= epoch_wall -> shift_in_range t a = true.
Proof.
  intros Hv Ha. apply tod_range in Hv. unfold shift_in_range, wall_in_range, max_wall, us_per_day, epoch_wall, us_day in *. lia.
Qed.

Lemma wrap_back t a : valid_time t = true -> wrap (wrap t a) (- a) = t.
Proof.
  intros Hv. unfold wrap at 1. destruct (wrap_valid t a) as [_ ->].
  replace (((tod t + a) mod us_day + - a) mod us_day) with (tod t).
  - now apply time_of_tod_tod.
  - apply tod_range in Hv. unfold us_day in *. lia.
Qed.

Lemma sub_undoes_add_gen t h m s us t' :
  valid_time t = true -> time_add t h m s us = Ok t' ->
  time_subtract t' h m s us = if shift_in_range t' (- amount h m s us) then Ok t else Raise E_OverflowError.
Proof.
  intros Hv. rewrite time_add_spec. destruct (shift_in_range t _); [|discriminate]. intros [= <-].
  rewrite time_subtract_spec. destruct (shift_in_range _ _); [|reflexivity]. now rewrite wrap_back.
Qed.

Lemma sub_undoes_add_small t h m s us :
  valid_time t = true -> Z.abs (amount h m s us) <= epoch_wall ->
  exists t', time_add t h m s us = Ok t' /\ time_subtract t' h m s us = Ok t.
Proof.
  intros Hv Ha. exists (wrap t (amount h m s us)). split.
  - rewrite time_add_spec, shift_in_range_small; auto.
  - rewrite time_subtract_spec, shift_in_range_small, wrap_back; auto. apply wrap_valid. lia.
Qed.

Lemma add_then_subtract_spec t h m s us t1 t2 :
  valid_time t = true -> time_add_then_subtract t h m s us = Ok (t1, t2) -> t2 = t /\ t1 = wrap t (amount h m s us).
Proof.
  intros Hv. unfold time_add_then_subtract.
  destruct (time_add t h m s us) as [x|e] eqn:E; [|discriminate]. cbn [bind].
  rewrite (sub_undoes_add_gen _ _ _ _ _ _ Hv E).
  rewrite time_add_spec in E. destruct (shift_in_range t _); [|discriminate]. injection E as <-.
  destruct (shift_in_range _ _); cbn [bind]; [|discriminate]. intros [= <- <-]. auto.
Qed.

(* the range is not symmetric around 1970: an addition that succeeds can be impossible to undo *)
Lemma sub_after_add_can_overflow :
  exists t h, valid_time t = true /\ (exists t', time_add t h 0 0 0 = Ok t' /\ time_subtract t' h 0 0 0 = Raise E_OverflowError).
Proof. exists (mkT 0 0 0 0), 26280000. split; [reflexivity|]. exists (mkT 0 0 0 0). split; vm_compute; reflexivity. Qed.

(* ---------------------------------------------------------------- timedeltas *)
Lemma td_of_total_spec u :
  let x := td_of_total u in
  td_total x = u /\ 0 <= td_seconds x < 86400 /\ 0 <= td_microseconds x < 1000000.
Proof. unfold td_of_total, td_total, us_day. cbn [td_days td_seconds td_microseconds]. lia. Qed.

Lemma td_days_zero_iff u : td_days (td_of_total u) = 0 <-> 0 <= u < us_day.
Proof. unfold td_of_total, us_day. cbn [td_days]. lia. Qed.

Lemma td_days_negative_subday u : - us_day <= u < 0 -> td_days (td_of_total u) = -1.
Proof. unfold td_of_total, us_day. cbn [td_days]. lia. Qed.

Lemma td_normal_form u :
  (let x := td_of_total u in td_total x = u /\ 0 <= td_seconds x < 86400 /\ 0 <= td_microseconds x < 1000000) /\
  (td_days (td_of_total u) = 0 <-> 0 <= u < us_day) /\
  (- us_day <= u < 0 -> td_days (td_of_total u) = -1).
Proof. split; [exact (td_of_total_spec u) | split; [exact (td_days_zero_iff u) | exact (td_days_negative_subday u)]]. Qed.

Lemma timedelta_days_rejected t d : td_days d <> 0 ->
  time_add_timedelta t d = Raise E_TypeError /\ time_subtract_timedelta t d = Raise E_TypeError.
Proof.
  intros H. unfold time_add_timedelta, time_subtract_timedelta, py_Time_add_timedelta_args, py_Time_subtract_timedelta_args.
  destruct (td_days d =? 0) eqn:E; [lia|]. cbn [negb bind]. auto.
Qed.

Lemma timedelta_outside_day_rejected t u : ~ (0 <= u < us_day) ->
  time_add_timedelta t (td_of_total u) = Raise E_TypeError /\ time_subtract_timedelta t (td_of_total u) = Raise E_TypeError.
Proof. intros H. apply timedelta_days_rejected. rewrite td_days_zero_iff. exact H. Qed.

Lemma timedelta_shift t u : valid_time t = true -> 0 <= u < us_day ->
  time_add_timedelta t (td_of_total u) = Ok (wrap t u) /\ time_subtract_timedelta t (td_of_total u) = Ok (wrap t (- u)).
Proof.
  intros Hv Hu. pose proof (td_of_total_spec u) as Hs. cbv zeta in Hs.
  assert (Hd : td_days (td_of_total u) = 0) by (apply td_days_zero_iff; exact Hu).
  unfold time_add_timedelta, time_subtract_timedelta, py_Time_add_timedelta_args, py_Time_subtract_timedelta_args.
  rewrite Hd. cbn [Z.eqb negb bind].
  assert (Ea : amount 0 0 (td_seconds (td_of_total u)) (td_microseconds (td_of_total u)) = u)
    by (unfold amount, td_total in *; lia).
  assert (epoch_wall >= us_day) by (unfold epoch_wall, us_day; lia).
  rewrite time_add_spec, time_subtract_spec, Ea.
  rewrite !shift_in_range_small by (auto; lia). auto.
Qed.

(* ---------------------------------------------------------------- differences *)
Lemma time_rebuild_id x : time_rebuild x = x.
Proof. destruct x. reflexivity. Qed.

Lemma diff_native_spec a b : time_diff_native a b = tod b - tod a.
Proof.
  unfold time_diff_native, py_Time_diff_us, tod, C_SECS_PER_HOUR, C_SECS_PER_MIN, C_USECS_PER_SEC.
  rewrite time_rebuild_id. lia.
Qed.

Definition signed_or_abs (abs : bool) (d : Z) : Z := if abs then Z.abs d else d.

(* diff: the signed microsecond difference of the two times of day; its magnitude with abs *)
Lemma diff_total_spec a b abs : time_diff_total a b abs = signed_or_abs abs (tod b - tod a).
Proof. unfold time_diff_total. rewrite diff_native_spec. reflexivity. Qed.

Lemma diff_abs_nonneg a b : 0 <= time_diff_total a b true.
Proof. unfold time_diff_total. lia. Qed.

Lemma diff_antisym a b : time_diff_total a b false = - time_diff_total b a false.
Proof. rewrite !diff_total_spec. unfold signed_or_abs. lia. Qed.

Lemma diff_range a b abs : valid_time a = true -> valid_time b = true -> Z.abs (time_diff_total a b abs) < us_day.
Proof.
  intros Ha Hb. apply tod_range in Ha, Hb. rewrite diff_total_spec. unfold signed_or_abs, us_day in *. destruct abs; lia.
Qed.

Lemma op_sub_spec self other :
  time_op_sub self other = tod self - tod other /\ time_op_rsub self other = tod other - tod self.
Proof.
  unfold time_op_rsub, time_op_sub. rewrite !time_rebuild_id, !diff_total_spec. unfold signed_or_abs. lia.
Qed.

(* ---------------------------------------------------------------- closest / farthest *)
Definition dist (t x : ptime) : Z := Z.abs (tod x - tod t).

Lemma abs_diff_total_us_spec t x : abs_diff_total_us t x = dist t x.
Proof.
  unfold abs_diff_total_us, dist, py_Time_diff_us, tod, C_SECS_PER_HOUR, C_SECS_PER_MIN, C_USECS_PER_SEC. f_equal. lia.
Qed.

(* closest/farthest choose by the microsecond distance; ties go to the second argument *)
Lemma closest_by_distance t a b :
  time_closest t a b = (if dist t a <? dist t b then a else b) /\
  time_farthest t a b = (if dist t a >? dist t b then a else b).
Proof.
  unfold time_closest, time_farthest, py_Time_closest, py_Time_farthest. cbv zeta.
  rewrite !time_rebuild_id, !abs_diff_total_us_spec. auto.
Qed.

Lemma closest_is_nearest t a b :
  dist t (time_closest t a b) = Z.min (dist t a) (dist t b) /\ dist t (time_farthest t a b) = Z.max (dist t a) (dist t b).
Proof. destruct (closest_by_distance t a b) as [-> ->]. split; split_ifs; lia. Qed.

Lemma closest_returns_argument t a b :
  (time_closest t a b = a \/ time_closest t a b = b) /\ (time_farthest t a b = a \/ time_farthest t a b = b).
Proof. destruct (closest_by_distance t a b) as [-> ->]. split; split_ifs; auto. Qed.

Example diff_example :
  time_diff_total (mkT 1 2 3 500) (mkT 1 2 3 900) true = 400 /\ time_diff_total (mkT 1 2 3 900) (mkT 1 2 3 500) false = -400 /\
  time_closest (mkT 0 0 0 0) (mkT 0 0 0 100) (mkT 0 0 0 900) = mkT 0 0 0 100.
Proof. repeat split; vm_compute; reflexivity. Qed.

(* ---------------------------------------------------------------- the hypotheses used above are satisfiable *)
Example valid_time_example : valid_time (mkT 23 59 59 999999) = true /\ valid_time (mkT 0 0 0 0) = true.
Proof. split; reflexivity. Qed.

Example wrap_example :
  time_add (mkT 23 59 59 999999) 0 0 0 1 = Ok (mkT 0 0 0 0) /\ time_subtract (mkT 0 0 0 0) 0 0 0 1 = Ok (mkT 23 59 59 999999) /\
  time_add (mkT 12 0 0 0) (-49) 61 (-3661) 1000001 = Ok (mkT 11 0 0 1).
Proof. repeat split; vm_compute; reflexivity. Qed.

Example overflow_example :
  time_add (mkT 0 0 0 0) 0 0 0 (-62135596800000000) = Ok (mkT 0 0 0 0) /\
  time_add (mkT 0 0 0 0) 0 0 0 (-62135596800000001) = Raise E_OverflowError /\
  time_add (mkT 23 59 59 999999) 0 0 0 253402214400000000 = Ok (mkT 23 59 59 999999) /\
  time_add (mkT 23 59 59 999999) 0 0 0 253402214400000001 = Raise E_OverflowError.
Proof. repeat split; vm_compute; reflexivity. Qed.
