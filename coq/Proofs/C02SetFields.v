(* Proofs/C02SetFields.v — C02: a second construction step that passes ANY SUBSET of the fields (Model/WallFields.v).
   (1) the translated DateTime.set / DateTime.replace (Gen/TzGlue.v, from /repo on every run) called with any subset of the seven fields ARE
       hstep2 .. (HSetFields ..): whatever is passed, all seven fields go through DateTime.create -> Timezone.convert with the instance's fold;
       a subset that is not a date raises ValueError.
   (2) HSetFields is a construction of the merged wall value: every construct_* theorem of Props/C02.v applies to it (unique: as is;
       repeated: the instance's fold decides; skipped: moved by the gap), in particular when ONLY the second changes. *)
From Coq Require Import ZArith List Bool Lia ZifyBool.
From PV Require Import Lib.PyBase Spec.Cal Spec.Zone Spec.NativeDT Proofs.CalFacts Proofs.ZoneFacts Model.TzConvert.
From PV Require Import Proofs.C03Facts Model.TzGlueObj Gen.TzGlue Model.WallHistory Model.WallFields Proofs.TzGlueFacts Proofs.C02Facts.
Import ListNotations.
Ltac Zify.zify_post_hook ::= Z.to_euclidean_division_equations.
Open Scope Z_scope.

Lemma fields_okb_ok y m d h mi s us : fields_okb y m d h mi s us = true -> fields_ok y m d h mi s us.
Proof.
  unfold fields_okb, fields_ok. intros H.
  repeat (apply andb_prop in H; destruct H as [H ?]).
  repeat split; try assumption; lia.
Qed.

Lemma nat_new_bad y m d h mi s us tz fold : fields_okb y m d h mi s us = false -> nat_new y m d h mi s us tz fold = Raise E_ValueError.
Proof. intros H. unfold nat_new. unfold fields_okb in H. rewrite H. reflexivity. Qed.

(* the fields the translated code reads from the instance are the components of fields_of_wall *)
Lemma g_fields W f tzo : forall y m d h mi s us, fields_of_wall W = (y, m, d, h, mi, s, us) ->
  let x := dt_of W f tzo in
  g_year x = y /\ g_month x = m /\ g_day x = d /\ g_hour x = h /\ g_minute x = mi /\ g_second x = s /\ g_microsecond x = us.
Proof.
  intros y m d h mi s us E x. unfold g_year, g_month, g_day, g_hour, g_minute, g_second, g_microsecond, x, dt_of. cbn [g_wall].
  rewrite E. repeat split.
Qed.

(* set(<any subset of the fields>) *)
Theorem glue_set_fields tzo W f oy om od oh omi os ous W' :
  merge_fields W oy om od oh omi os ous = Some W' -> wall_in_range W' = true ->
  glue_DateTime_set (dt_of W f tzo) oy om od oh omi os ous None
  = hres tzo (hstep2 (mkhst (tzp tzo) W f) (HSetFields oy om od oh omi os ous)).
Proof.
  intros M R. cbn [hstep2 h_W h_f h_tz]. rewrite M. unfold merge_fields in M.
  destruct (fields_of_wall W) as [[[[[[y m] d] h] mi] s] us] eqn:E.
  destruct (g_fields W f tzo _ _ _ _ _ _ _ E) as (Ey & Em & Ed & Eh & Emi & Es & Eus).
  destruct (fields_okb _ _ _ _ _ _ _) eqn:K; [|discriminate]. injection M as M.
  apply fields_okb_ok in K.
  unfold glue_DateTime_set. cbv beta iota zeta. rewrite Ey, Em, Ed, Eh, Emi, Es, Eus.
  change (g_fold (dt_of W f tzo)) with (Z.b2z f). change (g_tz (dt_of W f tzo)) with tzo.
  fold (pick oy y) (pick om m) (pick od d) (pick oh h) (pick omi mi) (pick os s) (pick ous us).
  rewrite glue_create_fields; [| exact K | rewrite M; exact R]. rewrite M, g_build_build.
  destruct (g_build tzo W' f false); reflexivity.
Qed.

Theorem glue_set_fields_invalid tzo W f oy om od oh omi os ous :
  merge_fields W oy om od oh omi os ous = None ->
  glue_DateTime_set (dt_of W f tzo) oy om od oh omi os ous None
  = hres tzo (hstep2 (mkhst (tzp tzo) W f) (HSetFields oy om od oh omi os ous)).
Proof.
  intros M. cbn [hstep2 h_W h_f h_tz]. rewrite M. unfold merge_fields in M.
  destruct (fields_of_wall W) as [[[[[[y m] d] h] mi] s] us] eqn:E.
  destruct (g_fields W f tzo _ _ _ _ _ _ _ E) as (Ey & Em & Ed & Eh & Emi & Es & Eus).
  destruct (fields_okb _ _ _ _ _ _ _) eqn:K; [discriminate|].
  unfold glue_DateTime_set. cbv beta iota zeta. rewrite Ey, Em, Ed, Eh, Emi, Es, Eus.
  fold (pick oy y) (pick om m) (pick od d) (pick oh h) (pick omi mi) (pick os s) (pick ous us).
  unfold glue_DateTime_create. rewrite (nat_new_bad _ _ _ _ _ _ _ None _ K). reflexivity.
Qed.

(* replace(<any subset of the fields>) with tzinfo and fold not passed *)
Theorem glue_replace_fields tzo W f oy om od oh omi os ous W' :
  merge_fields W oy om od oh omi os ous = Some W' -> wall_in_range W' = true ->
  glue_DateTime_replace_keep (dt_of W f tzo) oy om od oh omi os ous None
  = hres tzo (hstep2 (mkhst (tzp tzo) W f) (HSetFields oy om od oh omi os ous)).
Proof.
  intros M R. cbn [hstep2 h_W h_f h_tz]. rewrite M. unfold merge_fields in M.
  destruct (fields_of_wall W) as [[[[[[y m] d] h] mi] s] us] eqn:E.
  destruct (g_fields W f tzo _ _ _ _ _ _ _ E) as (Ey & Em & Ed & Eh & Emi & Es & Eus).
  destruct (fields_okb _ _ _ _ _ _ _) eqn:K; [|discriminate]. injection M as M.
  apply fields_okb_ok in K.
  unfold glue_DateTime_replace_keep. cbv beta iota zeta. rewrite Ey, Em, Ed, Eh, Emi, Es, Eus.
  change (g_fold (dt_of W f tzo)) with (Z.b2z f). change (g_tz (dt_of W f tzo)) with tzo.
  assert (T : (if negb match tzo with None => true | Some _ => false end then tzo else tzo) = tzo) by (destruct tzo; reflexivity). rewrite T.
  fold (pick oy y) (pick om m) (pick od d) (pick oh h) (pick omi mi) (pick os s) (pick ous us).
  rewrite glue_create_fields; [| exact K | rewrite M; exact R]. rewrite M, g_build_build.
  destruct (g_build tzo W' f false); reflexivity.
Qed.

(* ---------- the step is a construction of the merged wall value ---------- *)
Theorem set_fields_is_construction z fx W f oy om od oh omi os ous W' :
  merge_fields W oy om od oh omi os ous = Some W' ->
  hstep2 (mkhst (Some (z, fx)) W f) (HSetFields oy om od oh omi os ous) = build (Some (z, fx)) W' f false.
Proof. intros M. cbn [hstep2 h_W h_f h_tz]. rewrite M. reflexivity. Qed.

(* passing all seven fields is WallHistory's OSetWall; passing none re-normalises the value itself *)
Lemma fields_of_wall_ok W : wall_in_range W = true ->
  let '(y, m, d, h, mi, s, us) := fields_of_wall W in fields_okb y m d h mi s us = true /\ wall_of y m d h mi s us = W.
Proof.
  intros R. pose (x := dt_of W false None). destruct (own_fields x R) as (F & Ho & Ht).
  destruct (fields_of_wall W) as [[[[[[y m] d] h] mi] s] us] eqn:E.
  destruct (g_fields W false None _ _ _ _ _ _ _ E) as (Ey & Em & Ed & Eh & Emi & Es & Eus).
  fold x in Ey, Em, Ed, Eh, Emi, Es, Eus. rewrite Ey, Em, Ed, Eh, Emi, Es, Eus in *. cbn [g_wall x dt_of] in *.
  destruct F as (Hy & Hv & Hh & Hm & Hs & Hu). split.
  - unfold fields_okb. rewrite Hv.
    replace (1 <=? y) with true by lia. replace (y <=? 9999) with true by lia. replace (0 <=? h) with true by lia. replace (h <=? 23) with true by lia.
    replace (0 <=? mi) with true by lia. replace (mi <=? 59) with true by lia. replace (0 <=? s) with true by lia. replace (s <=? 59) with true by lia.
    replace (0 <=? us) with true by lia. replace (us <=? 999999) with true by lia. reflexivity.
  - rewrite wall_of_split, Ho, Ht. unfold us_per_day. lia.
Qed.

Theorem set_fields_none_renormalises st : wall_in_range (h_W st) = true ->
  hstep2 st (HSetFields None None None None None None None) = build (h_tz st) (h_W st) (h_f st) false.
Proof.
  intros R. cbn [hstep2]. unfold merge_fields. pose proof (fields_of_wall_ok _ R) as H.
  destruct (fields_of_wall (h_W st)) as [[[[[[y m] d] h] mi] s] us]. destruct H as (K & E). cbn [pick]. rewrite K, E. reflexivity.
Qed.

Theorem set_fields_all_is_set_wall st W' : wall_in_range W' = true ->
  let '(y, m, d, h, mi, s, us) := fields_of_wall W' in
  hstep2 st (HSetFields (Some y) (Some m) (Some d) (Some h) (Some mi) (Some s) (Some us)) = hstep st (OSetWall W').
Proof.
  intros R. pose proof (fields_of_wall_ok _ R) as H.
  destruct (fields_of_wall W') as [[[[[[y m] d] h] mi] s] us]. destruct H as (K & E).
  cbn [hstep2 hstep]. unfold merge_fields. destruct (fields_of_wall (h_W st)) as [[[[[[y0 m0] d0] h0] mi0] s0] us0]. cbn [pick]. rewrite K, E. reflexivity.
Qed.

(* ONLY the second is passed: the value is still normalised.  In a named zone, when the merged wall second is skipped the result is moved by
   the gap (forward for fold 1, backward for fold 0), exactly as a direct construction. *)
Theorem set_second_only_skipped z W f s W' : wf2_zone z = true ->
  merge_fields W None None None None None (Some s) None = Some W' -> wall_skipped z (sec W') ->
  let g := off_local z (sec W') true - off_local z (sec W') false in
  0 < g /\
  (wall_in_range (W' + MEG * g) = true -> f = true ->
     hstep2 (mkhst (Some (z, false)) W f) (HSetFields None None None None None (Some s) None) = Ok (mkhst (Some (z, false)) (W' + MEG * g) false)) /\
  (wall_in_range (W' - MEG * g) = true -> f = false ->
     hstep2 (mkhst (Some (z, false)) W f) (HSetFields None None None None None (Some s) None) = Ok (mkhst (Some (z, false)) (W' - MEG * g) false)).
Proof.
  intros Hwf M Hs. cbv zeta. destruct (create_skipped z W' true Hwf Hs) as (Hg & Hf1 & Hf0 & _). cbv zeta in Hg, Hf1, Hf0.
  split; [exact Hg|]. split; intros R Ef; subst f; rewrite (set_fields_is_construction _ _ _ _ _ _ _ _ _ _ _ _ M); cbn [build]; unfold create.
  - rewrite (Hf1 R). reflexivity.
  - rewrite (Hf0 R). reflexivity.
Qed.

(* ... and when it is repeated the fold of the instance picks the occurrence (the value is returned as is, its fold decides the instant) *)
Theorem set_second_only_repeated z W f s W' : wf_zone z = true ->
  merge_fields W None None None None None (Some s) None = Some W' -> wall_repeated z (sec W') ->
  hstep2 (mkhst (Some (z, false)) W f) (HSetFields None None None None None (Some s) None) = Ok (mkhst (Some (z, false)) W' f) /\
  inst z W' f = (if f then W' - MEG * off_local z (sec W') true else W' - MEG * off_local z (sec W') false).
Proof.
  intros Hwf M Hr. destruct (create_repeated z W' f Hwf Hr) as (Hc & _ & _ & _ & Hi & _).
  rewrite (set_fields_is_construction _ _ _ _ _ _ _ _ _ _ _ _ M). cbn [build]. unfold create. rewrite Hc. split; [reflexivity|exact Hi].
Qed.

(* non-vacuous, on the data: Africa/Monrovia 1972-01-07, the clock went from 00:00:00 -00:44:30 to 00:44:30 +00:00 (gap [00:00:00, 00:44:30)).
   00:44:45 exists; set(second=10) alone lands on the skipped 00:44:10 and gives 01:28:40 (fold 1) / 00:-0:20 i.e. 1972-01-06 23:59:40 (fold 0). *)
Definition monrovia : zone := mkzone (-2670) [(62199189870, 0)].
Example set_second_only_monrovia :
  let W := wall_of 1972 1 7 0 44 45 0 in
  wf2_zone monrovia = true /\
  merge_fields W None None None None None (Some 10) None = Some (wall_of 1972 1 7 0 44 10 0) /\
  ~ wall_skipped monrovia (sec W) /\ wall_skipped monrovia (sec (wall_of 1972 1 7 0 44 10 0)) /\
  hstep2 (mkhst (Some (monrovia, false)) W true) (HSetFields None None None None None (Some 10) None)
    = Ok (mkhst (Some (monrovia, false)) (wall_of 1972 1 7 1 28 40 0) false) /\
  hstep2 (mkhst (Some (monrovia, false)) W false) (HSetFields None None None None None (Some 10) None)
    = Ok (mkhst (Some (monrovia, false)) (wall_of 1972 1 6 23 59 40 0) false).
Proof. vm_compute. repeat split; try reflexivity; intro H; discriminate H || (vm_compute in H; discriminate H). Qed.
