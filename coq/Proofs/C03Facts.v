(* Proofs/C03Facts.v — adding fixed-length units moves the instant by exactly that amount (every wf zone, every amount). *)
From Coq Require Import ZArith List Bool Lia ZifyBool.
From PV Require Import Lib.PyBase Spec.Cal Spec.Zone Spec.NativeDT Proofs.CalFacts Proofs.ZoneFacts Proofs.AddDurationFacts.
From PV Require Import Gen.Constants Gen.Helpers Gen.AddDuration Model.TzConvert.
Ltac Zify.zify_post_hook ::= Z.to_euclidean_division_equations.
Open Scope Z_scope.

Lemma month_cases12 m : 1 <= m <= 12 ->
  m = 1 \/ m = 2 \/ m = 3 \/ m = 4 \/ m = 5 \/ m = 6 \/ m = 7 \/ m = 8 \/ m = 9 \/ m = 10 \/ m = 11 \/ m = 12.
Proof. lia. Qed.

(* the generated month-length table is the calendar's month length *)
Lemma days_per_months_dim y m : 1 <= m <= 12 ->
  tidx (tidx2 C_DAYS_PER_MONTHS (Z.b2z (py_is_leap y))) m = dim y m.
Proof.
  intros Hm. unfold dim. change (py_is_leap y) with (is_leap y).
  destruct (month_cases12 m Hm) as [->|[->|[->|[->|[->|[->|[->|[->|[->|[->|[->| ->]]]]]]]]]]];
  destruct (is_leap y); reflexivity.
Qed.

Lemma ymd2ord_10000 : ymd2ord 10000 1 1 = 3652060. Proof. reflexivity. Qed.

Lemma fields_in_range W : wall_in_range W = true ->
  let d := mkndt W true in
  1 <= ndt_year d <= 9999 /\ valid_dateb (ndt_year d) (ndt_month d) (ndt_day d) = true /\
  (ymd2ord (ndt_year d) (ndt_month d) (ndt_day d) - 1) * us_per_day + ndt_tod d = W.
Proof.
  intros Hr. apply wall_in_range_iff in Hr. cbv zeta.
  unfold ndt_year, ndt_month, ndt_day, ndt_ord, ndt_tod. cbn [n_wall].
  set (n := W / us_per_day + 1).
  assert (Hn : 1 <= n <= 3652059) by (unfold n, us_per_day; lia).
  pose proof (ord2ymd_spec n) as S. pose proof (ord2ymd_year_pos n ltac:(lia)) as P.
  destruct (ord2ymd n) as [[y m] d] eqn:E. cbn [fst snd]. destruct S as [V O].
  split; [|split; [exact V|]].
  - split; [exact P|].
    destruct (Z_le_gt_dec y 9999) as [|Hgt]; [assumption|exfalso].
    assert (V1 : valid_dateb 10000 1 1 = true) by reflexivity.
    destruct (Z.eq_dec y 10000) as [->|Hne].
    + apply valid_dateb_true in V.
      destruct (Z.eq_dec m 1) as [->|Hm1].
      * unfold ymd2ord in O. change (days_before_year 10000) with 3652059 in O.
        unfold days_before_month in O. rewrite dbm_1 in O. lia.
      * pose proof (ymd2ord_lt 10000 1 1 10000 m d V1 ltac:(apply valid_dateb_true; exact V) ltac:(lia)). rewrite ymd2ord_10000 in H. lia.
    + pose proof (ymd2ord_lt 10000 1 1 y m d V1 V ltac:(lia)). rewrite ymd2ord_10000 in H. lia.
  - rewrite O. unfold n, us_per_day. lia.
Qed.

(* add_duration with fixed units only: exact wall shift, OverflowError outside the representable range *)
Lemma add_duration_fixed U hours minutes seconds us : wall_in_range U = true ->
  let total := td_total_us 0 hours minutes seconds us in
  -999999999 <= total / us_per_day <= 999999999 ->
  py_add_duration (mkndt U true) 0 0 0 0 hours minutes seconds us =
  if wall_in_range (U + total) then Ok (mkndt (U + total) true) else Raise E_OverflowError.
Proof.
  intros Hr total Hlim. rewrite py_add_duration_unfold. unfold add_duration_spec. cbn [n_isdt negb andb].
  pose proof (norm_parts_total 0 0 hours minutes seconds us) as NT.
  destruct (norm_parts 0 0 hours minutes seconds us) as [[[[dd h] m] s] u].
  replace (ym_step (ndt_year (mkndt U true)) (ndt_month (mkndt U true)) 0 0) with (ndt_year (mkndt U true), ndt_month (mkndt U true))
    by (unfold ym_step, carry; cbn; f_equal; lia).
  destruct (fields_in_range U Hr) as [Hy [Hv Hw]]. cbv zeta in Hy, Hv, Hw.
  pose proof (proj1 (valid_dateb_true _ _ _) Hv) as [Hm Hd].
  rewrite days_per_months_dim by lia. rewrite Z.min_r by lia.
  unfold ndt_replace_ymd. rewrite Hv.
  replace ((1 <=? ndt_year (mkndt U true)) && (ndt_year (mkndt U true) <=? 9999)) with true by lia. cbn [andb].
  rewrite Hw. unfold ndt_add_td. cbn [n_isdt n_wall].
  replace (td_total_us dd h m s u) with total by (unfold total; rewrite NT; reflexivity).
  destruct ((total / us_per_day <? -999999999) || (999999999 <? total / us_per_day)) eqn:E; [lia|]. reflexivity.
Qed.

Section Add.
Variable z : zone.
Hypothesis Hwf : wf_zone z = true.

(* add(): same zone, the instant moves by exactly the requested microseconds, fields/offset/fold are the database's rendering *)
Lemma add_fixed_spec W f hours minutes seconds us W' f' :
  let total := td_total_us 0 hours minutes seconds us in
  -999999999 <= total / us_per_day <= 999999999 ->
  add_fixed z W f hours minutes seconds us = Ok (W', f') ->
  (W', f') = render z (inst z W f + total) /\ inst z W' f' = inst z W f + total.
Proof.
  intros total Hlim H. unfold add_fixed in H.
  destruct (wall_in_range (inst z W f)) eqn:Er; cbn [negb] in H; [|discriminate].
  rewrite (add_duration_fixed _ _ _ _ _ Er Hlim) in H. fold total in H.
  destruct (wall_in_range (inst z W f + total)) eqn:Er2; [|discriminate]. cbn [n_wall] in H.
  pose proof (render_inst z (inst z W f + total) Hwf) as R.
  destruct (render z (inst z W f + total)) as [W2 f2].
  destruct (wall_in_range W2); [|discriminate].
  assert (W' = W2) by congruence. assert (f' = f2) by congruence. subst. split; [reflexivity|exact R].
Qed.

(* subtract() with the same arguments returns to the original instant, offset and fields *)
Lemma sub_undoes_add W f hours minutes seconds us W' f' :
  let total := td_total_us 0 hours minutes seconds us in
  -999999999 <= total / us_per_day <= 999999999 -> -999999999 <= (- total) / us_per_day <= 999999999 ->
  wall_in_range (fst (render z (inst z W f))) = true ->
  add_fixed z W f hours minutes seconds us = Ok (W', f') ->
  add_fixed z W' f' (- hours) (- minutes) (- seconds) (- us) = Ok (render z (inst z W f)).
Proof.
  intros total Hlim Hlim2 Hr1 H.
  destruct (add_fixed_spec _ _ _ _ _ _ _ _ Hlim H) as [_ Hi]. fold total in Hi.
  unfold add_fixed in H |- *.
  destruct (wall_in_range (inst z W f)) eqn:Er; cbn [negb] in H; [|discriminate].
  rewrite (add_duration_fixed _ _ _ _ _ Er Hlim) in H. fold total in H.
  destruct (wall_in_range (inst z W f + total)) eqn:Er2; [|discriminate].
  rewrite Hi, Er2. cbn [negb].
  assert (T : td_total_us 0 (- hours) (- minutes) (- seconds) (- us) = - total) by (unfold total, td_total_us; lia).
  rewrite (add_duration_fixed _ _ _ _ _ Er2) by (cbv zeta; rewrite T; exact Hlim2). cbv zeta. rewrite T.
  replace (inst z W f + total + - total) with (inst z W f) by lia. rewrite Er. cbn [n_wall].
  destruct (render z (inst z W f)) as [W0 f0]. cbn [fst] in Hr1. rewrite Hr1. reflexivity.
Qed.
End Add.

(* a naive DateTime is shifted on its own clock *)
Lemma add_naive_fixed W f hours minutes seconds us : wall_in_range W = true ->
  let total := td_total_us 0 hours minutes seconds us in
  -999999999 <= total / us_per_day <= 999999999 ->
  add_naive W f 0 0 0 0 hours minutes seconds us =
  if wall_in_range (W + total) then Ok (W + total, true) else Raise E_OverflowError.
Proof.
  intros Hr total Hlim. unfold add_naive. rewrite (add_duration_fixed _ _ _ _ _ Hr Hlim). fold total.
  destruct (wall_in_range (W + total)); reflexivity.
Qed.
