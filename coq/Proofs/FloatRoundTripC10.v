(* Proofs/FloatRoundTripC10.v — the two float premises of Proofs/C10Facts.v (Part 5), proved:

     Theorem addsub_float_exact_proved : addsub_float_exact.
     Theorem mul_float_exact_proved    : mul_float_exact.

   i.e. below 2^31 s (operands and result)
     timedelta(seconds = a.total_seconds() +- b.total_seconds())  ==  timedelta(microseconds = a +- b)
     timedelta(seconds = R.total_seconds() * float(k))            ==  timedelta(microseconds = k * R)
   Route: Flocq's real-number semantics of SFdiv / SFadd / SFsub / SFmul (FloatRoundTripBase / Near / C09), then the error budget
     x = RN(a / 10^6), y = RN(b / 10^6)      |x - a/10^6|, |y - b/10^6| <= 2^-23      (|a/10^6| < 2^31: half an ulp)
     s = x +- y                              |s - (a +- b)/10^6|        <= 2^-22      hence |s| < 2^32
     t = RN(s)                               |t - s|                    <= 2^-22
     |t - (a +- b)/10^6| <= 2^-21: the hypothesis of td_us_near_exact.
   and for the product
     x = RN(q), q = R / 10^6 (normal range)  |x - q|       <= 2^-53 |q|               (relative error, Flocq relative_error_N_FLT)
     float(k) = k exactly                    |k| <= |k R| < 2^31 * 10^6 < 2^53  (R <> 0; for R = 0 everything is a zero)
     s = x * k                               |s - k q|     <= 2^-53 |k q| < 2^-22     hence |s| < 2^32
     t = RN(s)                               |t - s|       <= 2^-22
   No Axiom / Parameter / Admitted of our own; `Print Assumptions` at the end lists what Reals/Flocq bring in. *)
From Coq Require Import ZArith Reals Lia Lra Bool List.
From Coq Require Import Floats.SpecFloat.
From Flocq Require Import Core.Core IEEE754.BinarySingleNaN Relative.
From PV Require Import Lib.PyBase Spec.TdFloat Gen.Constants Model.Duration Gen.DurationOps Model.DurationOps
                       Proofs.TdFloatFacts Proofs.C09Facts Proofs.C10Facts
                       Proofs.FloatRoundTripBase Proofs.FloatRoundTrip Proofs.FloatRoundTripNear Proofs.FloatRoundTripC09.
Open Scope Z_scope.

Lemma bpow_31 : bpow radix2 31 = 2147483648%R.  Proof. reflexivity. Qed.
Lemma bpow_m22 : bpow radix2 (-22) = (/ 4194304)%R.  Proof. reflexivity. Qed.
Lemma bpow_m52 : bpow radix2 (-52) = (/ 4503599627370496)%R.  Proof. reflexivity. Qed.

(* ------------------------------------------------------------------ total_seconds below 2^31 s: half an ulp is 2^-23 *)
Lemma IZR_B31 : forall a, Z.abs a < B31 -> (Rabs (IZR a / 1000000) < 2147483648)%R.
Proof.
  intros a Ha. unfold B31 in Ha. apply Rabs_lt.
  assert (H1 : -2147483648000000 < a) by lia. assert (H2 : a < 2147483648000000) by lia.
  apply IZR_lt in H1, H2. lra.
Qed.

Lemma total_seconds_31 : forall a, Z.abs a < B31 ->
  valid64 (total_seconds a) = true /\ is_finite_SF (total_seconds a) = true /\
  R_of_sf (total_seconds a) = RN (IZR a / 1000000) /\
  (Rabs (RN (IZR a / 1000000) - IZR a / 1000000) <= / 8388608)%R.
Proof.
  intros a Ha. pose proof (IZR_B31 a Ha) as Hq. unfold B31 in Ha.
  destruct (total_seconds_real a) as (V & F & Rv). { change (2 ^ 33 * 10 ^ 6) with 8589934592000000. lia. }
  split; [exact V|]. split; [exact F|]. split; [exact Rv|].
  rewrite <- bpow_31 in Hq.
  pose proof (RN_error (IZR a / 1000000) 31 ltac:(lia) Hq) as E. simpl (31 - 53) in E. rewrite bpow_m22 in E.
  apply Rle_trans with (1 := E). lra.
Qed.

(* ------------------------------------------------------------------ the last rounding: s within 2^-22 of q, |q| < 2^31 *)
Lemma last_rounding : forall s q : R, (Rabs q < 2147483648)%R -> (Rabs (s - q) <= / 4194304)%R ->
  (Rabs (RN s) < bpow radix2 60)%R /\ (Rabs (RN s - q) <= / 2 * bpow radix2 (-20))%R.
Proof.
  intros s q Hq Hs. apply Rabs_def2 in Hq. apply Rabs_le_inv in Hs.
  assert (Hs32 : (Rabs s < bpow radix2 32)%R) by (rewrite bpow_32; apply Rabs_lt; lra).
  pose proof (RN_error s 32 ltac:(lia) Hs32) as E. simpl (32 - 53) in E. rewrite bpow_m21 in E. apply Rabs_le_inv in E.
  split.
  - rewrite bpow_60. apply Rabs_lt. lra.
  - rewrite bpow_m20. apply Rabs_le. lra.
Qed.

(* ------------------------------------------------------------------ + and - *)
Lemma add_float_exact : forall a b, Z.abs a < B31 -> Z.abs b < B31 -> Z.abs (a + b) < B31 ->
  td_us_of_float_seconds (fadd (total_seconds a) (total_seconds b)) = Ok (a + b).
Proof.
  intros a b Ha Hb Hab.
  destruct (total_seconds_31 a Ha) as (Va & Fa & Ra & Ea). destruct (total_seconds_31 b Hb) as (Vb & Fb & Rb & Eb).
  pose proof (IZR_B31 _ Hab) as Hq.
  set (xa := RN (IZR a / 1000000)) in *. set (xb := RN (IZR b / 1000000)) in *. clearbody xa xb.
  destruct (last_rounding (xa + xb) (IZR (a + b) / 1000000) Hq) as [S1 S2].
  { rewrite plus_IZR. apply Rabs_le_inv in Ea, Eb. apply Rabs_le. lra. }
  destruct (fadd_correct (total_seconds a) (total_seconds b) Va Vb Fa Fb) as (V & Rv & F).
  { rewrite Ra, Rb. exact S1. }
  apply td_us_near_exact; [exact V | exact F |]. rewrite Rv, Ra, Rb. exact S2.
Qed.

Lemma sub_float_exact : forall a b, Z.abs a < B31 -> Z.abs b < B31 -> Z.abs (a - b) < B31 ->
  td_us_of_float_seconds (fsub (total_seconds a) (total_seconds b)) = Ok (a - b).
Proof.
  intros a b Ha Hb Hab.
  destruct (total_seconds_31 a Ha) as (Va & Fa & Ra & Ea). destruct (total_seconds_31 b Hb) as (Vb & Fb & Rb & Eb).
  pose proof (IZR_B31 _ Hab) as Hq.
  set (xa := RN (IZR a / 1000000)) in *. set (xb := RN (IZR b / 1000000)) in *. clearbody xa xb.
  destruct (last_rounding (xa - xb) (IZR (a - b) / 1000000) Hq) as [S1 S2].
  { rewrite minus_IZR. apply Rabs_le_inv in Ea, Eb. apply Rabs_le. lra. }
  destruct (fsub_correct (total_seconds a) (total_seconds b) Va Vb Fa Fb) as (V & Rv & F).
  { rewrite Ra, Rb. exact S1. }
  apply td_us_near_exact; [exact V | exact F |]. rewrite Rv, Ra, Rb. exact S2.
Qed.

Theorem addsub_float_exact_proved : addsub_float_exact.
Proof.
  intros a b Ha Hb. split; intro H; [apply add_float_exact | apply sub_float_exact]; assumption.
Qed.

(* ------------------------------------------------------------------ int * : relative error of total_seconds *)
Lemma RN_relative : forall q : R, (/ 1000000 <= Rabs q)%R ->
  (Rabs (RN q - q) <= / 9007199254740992 * Rabs q)%R.
Proof.
  intros q Hq.
  pose proof (relative_error_N_FLT radix2 (-1074) 53 ltac:(lia) (fun n => negb (Z.even n)) q) as E.
  simpl (-1074 + 53 - 1) in E. change (Z.opp 53 + 1) with (-52) in E. rewrite bpow_m52 in E.
  apply Rle_trans with (1 := E ltac:(apply Rle_trans with (2 := Hq);
                                     apply Rle_trans with (bpow radix2 (-20)); [apply bpow_le; lia | rewrite bpow_m20; lra])).
  apply Rmult_le_compat_r; [apply Rabs_pos | lra].
Qed.

(* the scaled value: |k * x - k * q| <= 2^-53 |k q| *)
Lemma scaled_error : forall K x q : R, (Rabs (x - q) <= / 9007199254740992 * Rabs q)%R -> (Rabs (K * q) < 2147483648)%R ->
  (Rabs (x * K - K * q) <= / 4194304)%R.
Proof.
  intros K x q E H.
  replace (x * K - K * q)%R with (K * (x - q))%R by ring. rewrite Rabs_mult.
  apply Rle_trans with (Rabs K * (/ 9007199254740992 * Rabs q))%R.
  - apply Rmult_le_compat_l; [apply Rabs_pos | exact E].
  - replace (Rabs K * (/ 9007199254740992 * Rabs q))%R with (/ 9007199254740992 * (Rabs K * Rabs q))%R by ring.
    rewrite <- Rabs_mult. lra.
Qed.

Lemma mul_float_exact_nonzero : forall R k, R <> 0 -> Z.abs R < B31 -> Z.abs (k * R) < B31 ->
  td_us_of_float_seconds (fmul (total_seconds R) (sf_of_Z k)) = Ok (k * R).
Proof.
  intros R k Rnz HR HkR.
  assert (Hk : Z.abs k < 2 ^ 53).
  { change (2 ^ 53) with 9007199254740992. rewrite Z.abs_mul in HkR. unfold B31 in HkR.
    assert (1 <= Z.abs R) by lia. assert (0 <= Z.abs k) by lia. nia. }
  destruct (sf_of_Z_correct k Hk) as (Vk & Rk & Fk).
  destruct (total_seconds_31 R HR) as (Vx & Fx & Rx & _).
  pose proof (IZR_B31 _ HkR) as Hq.
  set (q := (IZR R / 1000000)%R) in *.
  assert (Hq1 : (/ 1000000 <= Rabs q)%R).
  { unfold q. unfold Rdiv. rewrite Rabs_mult, (Rabs_pos_eq (/ 1000000)) by lra. rewrite <- abs_IZR.
    assert (H1 : 1 <= Z.abs R) by lia. apply IZR_le in H1. lra. }
  pose proof (RN_relative q Hq1) as E.
  assert (Eq : (IZR (k * R) / 1000000 = IZR k * q)%R) by (unfold q; rewrite mult_IZR; field).
  rewrite Eq in Hq.
  pose proof (scaled_error (IZR k) (RN q) q E Hq) as S0.
  destruct (last_rounding (RN q * IZR k) (IZR k * q) Hq S0) as [S1 S2].
  destruct (fmul_correct (total_seconds R) (sf_of_Z k) Vx Vk Fx Fk) as (V & Rv & F).
  { rewrite Rx, Rk. exact S1. }
  apply td_us_near_exact; [exact V | exact F |]. rewrite Rv, Rx, Rk, Eq. exact S2.
Qed.

Theorem mul_float_exact_proved : mul_float_exact.
Proof.
  intros R k fk HR HkR Hfk. unfold py_float_of_int in Hfk. cbv zeta in Hfk.
  destruct (Z.eq_dec R 0) as [->|Rnz].
  - (* a zero times a finite float is a zero *)
    rewrite Z.mul_0_r. change (total_seconds 0) with (S754_zero false).
    destruct (sf_of_Z k) as [s|s| |s m e]; try discriminate; inversion Hfk; subst fk; destruct s; reflexivity.
  - destruct (sf_is_finite (sf_of_Z k)); [|discriminate]. inversion Hfk; subst fk.
    apply mul_float_exact_nonzero; assumption.
Qed.

(* ------------------------------------------------------------------ the *_partial lemmas of C10Facts.v (Part 5) without premise *)
Definition add_exact_proved := add_exact_partial addsub_float_exact_proved.
Definition sub_exact_proved := sub_exact_partial addsub_float_exact_proved.
Definition mul_int_exact_proved := mul_int_exact_partial mul_float_exact_proved.

Check add_exact_proved.
Check sub_exact_proved.
Check mul_int_exact_proved.
Print Assumptions addsub_float_exact_proved.
Print Assumptions mul_float_exact_proved.
