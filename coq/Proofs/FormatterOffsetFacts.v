(* Proofs/FormatterOffsetFacts.v — C08: the FLOAT code of the Z / ZZ tokens of Formatter._format_token
     minutes = offset.total_seconds() / 60 ; sign = "+" if minutes >= 0 else "-" ; int(minutes)
   agrees with integer arithmetic on the offset in seconds, for EVERY utcoffset strictly between -24 h and +24 h (CPython's bound on
   tzinfo.utcoffset): exhaustive evaluation in the kernel (172799 offsets, ~2 min).  Independent of the generated files, so it is built once. *)
From Coq Require Import ZArith List Bool Lia.
From Coq Require Import Floats.SpecFloat.
From PV Require Import Lib.PyBase Lib.Reflect Spec.TdFloat Model.FormatterBase Model.FormatterPrims.
Open Scope Z_scope.

(* ------------------------------------------------------------------ the offset: float code = integer arithmetic *)
Definition offset_agrees (off : Z) : bool :=
  let m := fdiv (total_seconds (off * 1000000)) (sf_of_Z 60) in
  match py_int_trunc m with
  | Ok k => (k =? Z.quot off 60) && Bool.eqb (fge m (sf_of_Z 0)) (0 <=? off)
  | Raise _ => false
  end.

Lemma offset_agrees_all : forall_range offset_agrees (-86399) 86400 = true.
Proof. vm_compute. reflexivity. Qed.

Lemma offset_float_code : forall off, -86400 < off < 86400 ->
  py_int_trunc (fdiv (total_seconds (off * 1000000)) (sf_of_Z 60)) = Ok (Z.quot off 60) /\
  fge (fdiv (total_seconds (off * 1000000)) (sf_of_Z 60)) (sf_of_Z 0) = (0 <=? off).
Proof.
  intros off H. pose proof (forall_range_spec _ _ _ offset_agrees_all off ltac:(lia)) as K. unfold offset_agrees in K. cbv zeta in K.
  destruct (py_int_trunc _) as [k|e]; [|discriminate]. apply andb_true_iff in K. destruct K as [K1 K2].
  apply Z.eqb_eq in K1. apply Bool.eqb_prop in K2. subst k. split; [reflexivity | exact K2].
Qed.

