(* Proofs/C08Facts.v — facts about the formatter model: per-token renderings, escapes, named formats. *)
From Coq Require Import ZArith List Bool Lia ZifyBool.
From PV Require Import Gen.Helpers Model.RustHelpers Proofs.LocalTime.
From PV Require Import Lib.PyBase Lib.Reflect Spec.Cal Proofs.CalFacts Proofs.C15Facts Gen.DateGetters.
From PV Require Import Gen.RustConstants Model.FormatterBase Gen.FormatterTables Gen.LocaleTables Model.Formatter Model.FormatterParse Proofs.C08Decimal.
Import ListNotations.
Open Scope Z_scope.
Ltac Zify.zify_post_hook ::= Z.to_euclidean_division_equations.

Lemma str_eqb_eq a : forall b, str_eqb a b = true -> a = b.
Proof.
  induction a as [|x a IH]; intros [|y b] H; try discriminate; [reflexivity|].
  cbn [str_eqb] in H. apply andb_true_iff in H. destruct H as [H1 H2].
  apply Z.eqb_eq in H1. subst. f_equal. apply IH. exact H2.
Qed.

Lemma str_eqb_refl a : str_eqb a a = true.
Proof. induction a as [|x a IH]; [reflexivity|]. cbn [str_eqb]. rewrite Z.eqb_refl. exact IH. Qed.

(* ------------------------------------------------------------------ _format_token dispatch *)
Lemma format_token_rule rec loc t tok r :
  mem_str tok date_format_tokens = false ->
  existsb (fun kv => str_eqb tok (fst kv)) localizable_tokens = false ->
  assoc tok tokens_rules = Some r ->
  format_token rec loc t tok = apply_rule r t.
Proof. intros H1 H2 H3. unfold format_token. rewrite H1, H2, H3. reflexivity. Qed.

Lemma format_token_localizable rec loc t tok :
  mem_str tok date_format_tokens = false ->
  existsb (fun kv => str_eqb tok (fst kv)) localizable_tokens = true ->
  format_token rec loc t tok = format_localizable loc t tok.
Proof. intros H1 H2. unfold format_token. rewrite H1, H2. reflexivity. Qed.

Ltac token_rule := erewrite format_token_rule; [ | vm_compute; reflexivity | vm_compute; reflexivity | reflexivity ];
  cbn [apply_rule andb]; cbv beta iota zeta delta [fq_of q_year q_month q_day q_hour q_minute q_second q_microsecond q_quarter q_day_of_year
                                                   q_day_of_week q_isoweekday q_week_of_year q_int_timestamp];
  try (unfold render_dec; cbn [Z.eqb Z.to_nat skipn]; reflexivity).

Section Tokens.
  Variable rec : str -> result str.
  Variable loc : locale_data.
  Variable t : pdt.

  Definition ordn := ymd2ord (t_year t) (t_month t) (t_day t).

  Lemma tok_YYYY : format_token rec loc t [89;89;89;89] = Ok (render_d (t_year t)).
  Proof. token_rule. Qed.
  Lemma tok_Y : format_token rec loc t [89] = Ok (render_d (t_year t)).
  Proof. token_rule. Qed.
  Lemma tok_YY_raw : format_token rec loc t [89;89] = Ok (skipn 2 (render_d (t_year t))).
  Proof. token_rule. Qed.
  Lemma tok_MM : format_token rec loc t [77;77] = Ok (render_0wd 2 (t_month t)).
  Proof. token_rule. Qed.
  Lemma tok_M : format_token rec loc t [77] = Ok (render_d (t_month t)).
  Proof. token_rule. Qed.
  Lemma tok_DD : format_token rec loc t [68;68] = Ok (render_0wd 2 (t_day t)).
  Proof. token_rule. Qed.
  Lemma tok_D : format_token rec loc t [68] = Ok (render_d (t_day t)).
  Proof. token_rule. Qed.
  Lemma tok_HH : format_token rec loc t [72;72] = Ok (render_0wd 2 (t_hour t)).
  Proof. token_rule. Qed.
  Lemma tok_H : format_token rec loc t [72] = Ok (render_d (t_hour t)).
  Proof. token_rule. Qed.
  Lemma tok_mm : format_token rec loc t [109;109] = Ok (render_0wd 2 (t_minute t)).
  Proof. token_rule. Qed.
  Lemma tok_m : format_token rec loc t [109] = Ok (render_d (t_minute t)).
  Proof. token_rule. Qed.
  Lemma tok_ss : format_token rec loc t [115;115] = Ok (render_0wd 2 (t_second t)).
  Proof. token_rule. Qed.
  Lemma tok_s : format_token rec loc t [115] = Ok (render_d (t_second t)).
  Proof. token_rule. Qed.

  Definition hour12 (h : Z) : Z := if h mod 12 =? 0 then 12 else h mod 12.
  Lemma tok_hh : format_token rec loc t [104;104] = Ok (render_0wd 2 (hour12 (t_hour t))).
  Proof. token_rule. Qed.
  Lemma tok_h : format_token rec loc t [104] = Ok (render_d (hour12 (t_hour t))).
  Proof. token_rule. Qed.

  Lemma tok_S1 : format_token rec loc t [83] = Ok (render_0wd 1 (t_micro t / 100000)).
  Proof. token_rule. Qed.
  Lemma tok_S2 : format_token rec loc t [83;83] = Ok (render_0wd 2 (t_micro t / 10000)).
  Proof. token_rule. Qed.
  Lemma tok_S3 : format_token rec loc t [83;83;83] = Ok (render_0wd 3 (t_micro t / 1000)).
  Proof. token_rule. Qed.
  Lemma tok_S4 : format_token rec loc t [83;83;83;83] = Ok (render_0wd 4 (t_micro t / 100)).
  Proof. token_rule. Qed.
  Lemma tok_S5 : format_token rec loc t [83;83;83;83;83] = Ok (render_0wd 5 (t_micro t / 10)).
  Proof. token_rule. Qed.
  Lemma tok_S6 : format_token rec loc t [83;83;83;83;83;83] = Ok (render_0wd 6 (t_micro t)).
  Proof. token_rule. Qed.

  Lemma tok_Q : format_token rec loc t [81] = Ok (render_d ((t_month t + 2) / 3)).
  Proof. token_rule. rewrite py_quarter_spec. reflexivity. Qed.

  Lemma tok_DDDD : 1 <= t_month t <= 12 ->
    format_token rec loc t [68;68;68;68] = Ok (render_0wd 3 (days_before_month (t_year t) (t_month t) + t_day t)).
  Proof. intros Hm. token_rule. rewrite py_day_of_year_spec by exact Hm. reflexivity. Qed.
  Lemma tok_DDD : 1 <= t_month t <= 12 ->
    format_token rec loc t [68;68;68] = Ok (render_d (days_before_month (t_year t) (t_month t) + t_day t)).
  Proof. intros Hm. token_rule. rewrite py_day_of_year_spec by exact Hm. reflexivity. Qed.

  Lemma tok_E : format_token rec loc t [69] = Ok (render_d (iso_weekday ordn)).
  Proof. token_rule. Qed.
  Lemma tok_d : format_token rec loc t [100] = Ok (render_d (iso_weekday ordn mod 7)).
  Proof. token_rule. Qed.

  Lemma tok_X : t_has_tz t = true -> format_token rec loc t [88] = Ok (render_d (int_timestamp t)).
  Proof. intros H. token_rule. rewrite H. cbn [negb]. unfold render_dec. cbn [Z.eqb Z.to_nat skipn]. reflexivity. Qed.
  Lemma tok_x : t_has_tz t = true ->
    format_token rec loc t [120] = Ok (render_d (int_timestamp t * 1000 + t_micro t / 1000)).
  Proof. intros H. token_rule. rewrite H. cbn [negb]. unfold render_dec. cbn [Z.eqb Z.to_nat skipn]. reflexivity. Qed.

  Lemma tok_zz : format_token rec loc t [122;122] = Ok (if t_has_tz t then t_abbr t else []).
  Proof. token_rule. Qed.
  Lemma tok_z : format_token rec loc t [122] = Ok (if t_has_tz t then t_zone t else []).
  Proof. token_rule. Qed.

  Lemma tok_Z : format_token rec loc t T_Z = Ok (format_offset t true).
  Proof. reflexivity. Qed.
  Lemma tok_ZZ : format_token rec loc t T_ZZ = Ok (format_offset t false).
  Proof. reflexivity. Qed.
End Tokens.

(* ------------------------------------------------------------------ four-digit years: YYYY is exactly 4 digits, YY the last two *)
Lemma year4_reflect :
  forall_range (fun y => str_eqb (render_d y) (render_0wd 4 y) && str_eqb (skipn 2 (render_d y)) (render_0wd 2 (y mod 100))) 1000 9999 = true.
Proof. vm_compute. reflexivity. Qed.

Lemma render_d_year4 y : 1000 <= y <= 9999 -> render_d y = render_0wd 4 y.
Proof.
  intros H. pose proof (forall_range_spec _ _ _ year4_reflect y H) as E. cbv beta in E.
  apply andb_true_iff in E. apply str_eqb_eq. exact (proj1 E).
Qed.

Lemma render_yy y : 1000 <= y <= 9999 -> skipn 2 (render_d y) = render_0wd 2 (y mod 100).
Proof.
  intros H. pose proof (forall_range_spec _ _ _ year4_reflect y H) as E. cbv beta in E.
  apply andb_true_iff in E. apply str_eqb_eq. exact (proj2 E).
Qed.

Lemma tok_YYYY_4 rec loc t : 1000 <= t_year t <= 9999 -> format_token rec loc t [89;89;89;89] = Ok (render_0wd 4 (t_year t)).
Proof. intros H. rewrite tok_YYYY, render_d_year4 by exact H. reflexivity. Qed.

Lemma tok_YY rec loc t : 1000 <= t_year t <= 9999 -> format_token rec loc t [89;89] = Ok (render_0wd 2 (t_year t mod 100)).
Proof. intros H. rewrite tok_YY_raw, render_yy by exact H. reflexivity. Qed.

(* ------------------------------------------------------------------ offsets *)
(* a whole-minute offset renders as sign, two-digit hours, optional colon, two-digit minutes of |offset| *)
Lemma format_offset_minutes t colon :
  t_has_tz t = true -> t_off t mod 60 = 0 ->
  format_offset t colon =
    (if 0 <=? t_off t then 43 else 45) :: render_0wd 2 (Z.abs (t_off t) / 3600)
      ++ (if colon then [58] else []) ++ render_0wd 2 (Z.abs (t_off t) / 60 mod 60).
Proof.
  intros Htz Hm. unfold format_offset. rewrite Htz. cbn [negb]. cbv zeta.
  assert (E : Z.abs (Z.quot (t_off t) 60) = Z.abs (t_off t) / 60) by lia.
  rewrite E. replace (Z.abs (t_off t) / 60 / 60) with (Z.abs (t_off t) / 3600) by lia. reflexivity.
Qed.

Lemma format_offset_naive t colon : t_has_tz t = false -> format_offset t colon = [].
Proof. intros H. unfold format_offset. rewrite H. reflexivity. Qed.

(* ------------------------------------------------------------------ localizable tokens *)
Ltac token_loc := rewrite format_token_localizable by (vm_compute; reflexivity); try reflexivity.

Lemma tok_MMMM rec loc t : format_token rec loc t T_MMMM = tbl_get (l_months_wide loc) (t_month t).
Proof. token_loc. Qed.
Lemma tok_MMM rec loc t : format_token rec loc t T_MMM = tbl_get (l_months_abbr loc) (t_month t).
Proof. token_loc. Qed.
Lemma tok_dddd rec loc t : format_token rec loc t T_dddd = tbl_get (l_days_wide loc) (weekday0 (ordn t)).
Proof. token_loc. Qed.
Lemma tok_ddd rec loc t : format_token rec loc t T_ddd = tbl_get (l_days_abbr loc) (weekday0 (ordn t)).
Proof. token_loc. Qed.
Lemma tok_dd rec loc t : format_token rec loc t T_dd = tbl_get (l_days_short loc) (weekday0 (ordn t)).
Proof. token_loc. Qed.
Lemma tok_A rec loc t : format_token rec loc t T_A =
  Ok (match (if 12 <=? t_hour t then l_pm loc else l_am loc) with Some s => s | None => [] end).
Proof. token_loc. Qed.
Lemma tok_Do rec loc t : format_token rec loc t T_Do = Ok (ordinalize loc (t_day t)).
Proof. token_loc. Qed.
Lemma tok_e rec loc t fd : l_first_day loc = Some fd ->
  format_token rec loc t T_e = Ok (render_d ((weekday0 (ordn t) mod 7 - fd) mod 7)).
Proof. intros H. token_loc. unfold format_localizable. cbn -[fq_of]. rewrite H. reflexivity. Qed.
Lemma tok_e_none rec loc t : l_first_day loc = None -> format_token rec loc t T_e = Raise E_TypeError.
Proof. intros H. token_loc. unfold format_localizable. cbn -[fq_of]. rewrite H. reflexivity. Qed.

(* English names as CPython's calendar module spells them *)
Definition en_month_names : list str :=
  [[74;97;110;117;97;114;121]; [70;101;98;114;117;97;114;121]; [77;97;114;99;104]; [65;112;114;105;108]; [77;97;121]; [74;117;110;101];
   [74;117;108;121]; [65;117;103;117;115;116]; [83;101;112;116;101;109;98;101;114]; [79;99;116;111;98;101;114];
   [78;111;118;101;109;98;101;114]; [68;101;99;101;109;98;101;114]].
Definition en_day_names : list str :=
  [[77;111;110;100;97;121]; [84;117;101;115;100;97;121]; [87;101;100;110;101;115;100;97;121]; [84;104;117;114;115;100;97;121];
   [70;114;105;100;97;121]; [83;97;116;117;114;100;97;121]; [83;117;110;100;97;121]].

Definition res_is (r : result str) (s : str) : bool := match r with Ok x => str_eqb x s | Raise _ => false end.
Lemma res_is_eq r s : res_is r s = true -> r = Ok s.
Proof. destruct r; cbn; [intros H; f_equal; apply str_eqb_eq; exact H|discriminate]. Qed.

Lemma en_names_reflect :
  forall_range (fun m => res_is (tbl_get (l_months_wide loc_en) m) (nth (Z.to_nat (m - 1)) en_month_names [])
                         && res_is (tbl_get (l_months_abbr loc_en) m) (firstn 3 (nth (Z.to_nat (m - 1)) en_month_names []))) 1 12
  && forall_range (fun w => res_is (tbl_get (l_days_wide loc_en) w) (nth (Z.to_nat w) en_day_names [])
                            && res_is (tbl_get (l_days_abbr loc_en) w) (firstn 3 (nth (Z.to_nat w) en_day_names []))
                            && res_is (tbl_get (l_days_short loc_en) w) (firstn 2 (nth (Z.to_nat w) en_day_names []))) 0 6 = true.
Proof. vm_compute. reflexivity. Qed.

Lemma en_month_wide m : 1 <= m <= 12 -> tbl_get (l_months_wide loc_en) m = Ok (nth (Z.to_nat (m - 1)) en_month_names []).
Proof.
  intros H. pose proof en_names_reflect as E. apply andb_true_iff in E. destruct E as [E _].
  pose proof (forall_range_spec _ _ _ E m H) as E1. cbv beta in E1. apply andb_true_iff in E1. apply res_is_eq. exact (proj1 E1).
Qed.
Lemma en_month_abbr m : 1 <= m <= 12 -> tbl_get (l_months_abbr loc_en) m = Ok (firstn 3 (nth (Z.to_nat (m - 1)) en_month_names [])).
Proof.
  intros H. pose proof en_names_reflect as E. apply andb_true_iff in E. destruct E as [E _].
  pose proof (forall_range_spec _ _ _ E m H) as E1. cbv beta in E1. apply andb_true_iff in E1. apply res_is_eq. exact (proj2 E1).
Qed.
Lemma en_day_wide w : 0 <= w <= 6 -> tbl_get (l_days_wide loc_en) w = Ok (nth (Z.to_nat w) en_day_names []).
Proof.
  intros H. pose proof en_names_reflect as E. apply andb_true_iff in E. destruct E as [_ E].
  pose proof (forall_range_spec _ _ _ E w H) as E1. cbv beta in E1. apply andb_true_iff in E1. destruct E1 as [E1 _].
  apply andb_true_iff in E1. apply res_is_eq. exact (proj1 E1).
Qed.

(* every shipped locale has a non-empty name for each month and weekday in all five tables,
   and names within one table are pairwise different (which from_format needs to invert them) *)
Definition names_ok (tbl : option (list (Z * str))) (lo hi : Z) : bool :=
  forall_range (fun k => match tbl_get tbl k with Ok (_ :: _) => true | _ => false end) lo hi
  && forall_range (fun a => forall_range (fun b => (a =? b) || negb (match tbl_get tbl a, tbl_get tbl b with
                                                                     | Ok x, Ok y => str_eqb x y | _, _ => true end)) lo hi) lo hi.
Definition locale_names_ok (l : locale_data) : bool :=
  names_ok (l_months_wide l) 1 12 && names_ok (l_months_abbr l) 1 12
  && names_ok (l_days_wide l) 0 6 && names_ok (l_days_abbr l) 0 6 && names_ok (l_days_short l) 0 6.

Lemma all_locales_names_ok : forallb locale_names_ok locales = true.
Proof. vm_compute. reflexivity. Qed.

Lemma locales_count : length locales = 27%nat.
Proof. reflexivity. Qed.

Lemma names_ok_total tbl lo hi k : names_ok tbl lo hi = true -> lo <= k <= hi -> exists c s, tbl_get tbl k = Ok (c :: s).
Proof.
  unfold names_ok. rewrite andb_true_iff. intros [E _] Hk.
  pose proof (forall_range_spec _ _ _ E k Hk) as E1. cbv beta in E1.
  destruct (tbl_get tbl k) as [[|c s]|]; try discriminate. eauto.
Qed.

Lemma names_ok_injective tbl lo hi a b x : names_ok tbl lo hi = true -> lo <= a <= hi -> lo <= b <= hi ->
  tbl_get tbl a = Ok x -> tbl_get tbl b = Ok x -> a = b.
Proof.
  unfold names_ok. rewrite andb_true_iff. intros [_ E] Ha Hb Hx Hy.
  pose proof (forall_range_spec _ _ _ E a Ha) as E1. cbv beta in E1.
  pose proof (forall_range_spec _ _ _ E1 b Hb) as E2. cbv beta in E2.
  rewrite Hx, Hy, str_eqb_refl in E2. cbn in E2. lia.
Qed.

Lemma locale_names_ok_parts l : In l locales ->
  names_ok (l_months_wide l) 1 12 = true /\ names_ok (l_months_abbr l) 1 12 = true /\
  names_ok (l_days_wide l) 0 6 = true /\ names_ok (l_days_abbr l) 0 6 = true /\ names_ok (l_days_short l) 0 6 = true.
Proof.
  intros Hl. pose proof (proj1 (forallb_forall _ _) all_locales_names_ok l Hl) as E.
  unfold locale_names_ok in E. rewrite !andb_true_iff in E. tauto.
Qed.

(* ------------------------------------------------------------------ findings, as theorems about the faithful model *)
Definition sample_dt : pdt := mkpdt 2024 7 6 0 0 0 0 true 0 [43;48;48;58;48;48] [43;48;48;58;48;48].   (* a Saturday *)

(* every shipped locale has week_data (nl lacked it until the fix: commit in /repo) *)
Lemma every_locale_has_week_data : forallb (fun l => match l_first_day l with Some _ => true | None => false end) locales = true.
Proof. vm_compute. reflexivity. Qed.

(* parse(format(dt, fmt), fmt) in the model *)
Definition roundtrip (rs : bool) (lname : str) (t : pdt) (fmt : str) : result validated :=
  bind (format lname t fmt) (fun s => parse rs [] lname (mknow 2021 3 4) s fmt).

(* "2024-07-06 Cumartesi" / "YYYY-MM-DD dddd" in locale tr comes back as Friday the 5th *)
Definition tr_fmt : str := [89;89;89;89;45;77;77;45;68;68;32;100;100;100;100].
Lemma tr_saturday_roundtrip : roundtrip false [116;114] sample_dt tr_fmt = Ok (2024, 7, 5, 0, 0, 0, 0, None).
Proof. vm_compute. reflexivity. Qed.

(* "[at]" is rendered verbatim by format but read as the meridiem token by from_format *)
Definition at_fmt : str := [89;89;89;89;91;97;116;93;72;72].     (* YYYY[at]HH *)
Lemma bracket_escape_roundtrip_fails : roundtrip false [101;110] sample_dt at_fmt = Raise E_ValueError.
Proof. vm_compute. reflexivity. Qed.

Definition bs_fmt : str := [89;89;89;89;92;84;72;72].     (* YYYY\THH *)
Lemma backslash_escape_roundtrip_fails : roundtrip false [101;110] sample_dt bs_fmt = Raise E_ValueError.
Proof. vm_compute. reflexivity. Qed.

(* ------------------------------------------------------------------ day of year (DDDD / DDD) through pendulum.parse("YYYY-DDD")
   finding rs-ordinal-month-end repaired: the compiled parser's ordinal conversion now equals the calendar on every day of
   every year, the last day of each month included, and so agrees with the pure-Python one *)
Definition doy_rs_ok (l : bool) (n : Z) : bool :=
  match rs_ord_loop 13 (tidx2 RS_MONTHS_OFFSETS (Z.b2z l)) 1 n with
  | Some (m, d) => let '(m', d') := md_of_yday_l l n in
                   (m =? m') && (d =? d') && (1 <=? m) && (m <=? 12) && (1 <=? d) && (d <=? dim_l l m)
  | None => false
  end.
Lemma doy_rs_ok_f : forall_range (doy_rs_ok false) 1 365 = true. Proof. vm_compute. reflexivity. Qed.
Lemma doy_rs_ok_t : forall_range (doy_rs_ok true) 1 366 = true. Proof. vm_compute. reflexivity. Qed.

Lemma doy_to_md_rs_spec y doy : 1 <= doy <= days_in_year y -> doy_to_md_rs y doy = Ok (md_of_yday y doy).
Proof.
  intros H. unfold doy_to_md_rs. replace ((1 <=? doy) && (doy <=? days_in_year y)) with true by lia.
  assert (E : doy_rs_ok (is_leap y) doy = true).
  { unfold days_in_year in H.
    destruct (is_leap y); [apply (forall_range_spec _ _ _ doy_rs_ok_t) | apply (forall_range_spec _ _ _ doy_rs_ok_f)]; lia. }
  unfold doy_rs_ok in E. unfold md_of_yday.
  destruct (rs_ord_loop 13 (tidx2 RS_MONTHS_OFFSETS (Z.b2z (is_leap y))) 1 doy) as [[m d]|]; [|discriminate].
  destruct (md_of_yday_l (is_leap y) doy) as [m' d'].
  assert (V : valid_dateb y m d = true) by (apply valid_dateb_true; unfold dim; lia).
  rewrite V. assert (m = m') by lia. assert (d = d') by lia. subst. reflexivity.
Qed.

(* the two backends' day-of-year step of _check_parsed is the same function (every year, every doy, rejections included) *)
Lemma doy_to_md_backends_agree y doy : doy_to_md_rs y doy = doy_to_md_py y doy.
Proof.
  destruct ((1 <=? doy) && (doy <=? days_in_year y)) eqn:C.
  - rewrite doy_to_md_rs_spec by lia. unfold doy_to_md_py. rewrite C. reflexivity.
  - unfold doy_to_md_rs, doy_to_md_py. rewrite C. reflexivity.
Qed.

Lemma check_parsed_backend_independent p now : check_parsed true p now = check_parsed false p now.
Proof.
  unfold check_parsed.
  destruct (p_ts p) as [[secs us]|].
  { unfold local_time_of. rewrite rs_local_time_eq_py. reflexivity. }
  unfold check_parsed_fields.
  match goal with |- bind ?a ?f = bind ?a ?g => destruct a as [[[vy vm] vd]|e] end; cbn [bind]; try reflexivity.
  destruct (p_doy p) as [doy|]; [|reflexivity].
  destruct ((1000 <=? match vy with Some y => y | None => n_year now end) &&
            (match vy with Some y => y | None => n_year now end <=? 9999) && (0 <=? doy)); [|reflexivity].
  cbv iota. rewrite doy_to_md_backends_agree. reflexivity.
Qed.

Lemma parse_backend_independent zones lname now s fmt : parse true zones lname now s fmt = parse false zones lname now s fmt.
Proof.
  unfold parse. cbv zeta.
  destruct (forallb _ _); [reflexivity|].
  destruct (find_locale lname) as [loc|]; [|reflexivity].
  destruct (assemble loc _) as [els|e]; cbn [bind]; [|reflexivity].
  destruct (has_dup _); [reflexivity|].
  destruct (negb _); [reflexivity|].
  destruct (sub_matches _ _ _) as [ms|]; [|reflexivity].
  unfold parse_finish. destruct (fold_matches _ _ _ _ _) as [p|e]; cbn [bind]; [|reflexivity].
  apply check_parsed_backend_independent.
Qed.

(* day 60 of 2020 (Feb 29), the former witness: both backends now return the date *)
Definition doy_fmt : str := [89;89;89;89;45;68;68;68;68].
Definition leap_day : pdt := mkpdt 2020 2 29 0 0 0 0 true 0 [] [].
Lemma ordinal_month_end_backends :
  roundtrip false [101;110] leap_day doy_fmt = Ok (2020, 2, 29, 0, 0, 0, 0, None)
  /\ roundtrip true [101;110] leap_day doy_fmt = Ok (2020, 2, 29, 0, 0, 0, 0, None).
Proof. split; vm_compute; reflexivity. Qed.

(* ------------------------------------------------------------------ escapes *)
(* no ']' before the next '[' : the bracket alternative cannot extend further *)
Fixpoint no_rb_before_lb (s : str) : bool :=
  match s with
  | [] => true
  | c :: t => if c =? 91 then true else if c =? 93 then false else no_rb_before_lb t
  end.

Lemma bracket_body_none s : no_rb_before_lb s = true -> bracket_body s = None.
Proof.
  induction s as [|c s IH]; intros H; [reflexivity|].
  cbn [no_rb_before_lb] in H. cbn [bracket_body].
  destruct (c =? 91); [reflexivity|]. destruct (c =? 93); [discriminate|]. rewrite IH by exact H. reflexivity.
Qed.

Lemma bracket_body_exact body rest :
  ~ In 91 body -> no_rb_before_lb rest = true -> bracket_body (body ++ 93 :: rest) = Some (body, rest).
Proof.
  intros Hb Hr. induction body as [|c body IH].
  - cbn [app bracket_body]. replace (93 =? 91) with false by reflexivity.
    rewrite (bracket_body_none rest Hr). reflexivity.
  - cbn [app bracket_body]. destruct (c =? 91) eqn:E.
    + exfalso. apply Hb. left. lia.
    + rewrite IH; [reflexivity|]. intro H. apply Hb. right. exact H.
Qed.

(* the tokenizer emits the body of [..] as one verbatim piece *)
Lemma tokenize_bracket f body rest :
  ~ In 91 body -> no_rb_before_lb rest = true ->
  tokenize (S f) (91 :: body ++ 93 :: rest) = PBracket body :: tokenize f rest.
Proof.
  intros Hb Hr. cbn [tokenize]. replace (91 =? 91) with true by reflexivity.
  rewrite (bracket_body_exact body rest Hb Hr). reflexivity.
Qed.

Lemma tokenize_backslash f c rest : c <> 10 -> tokenize (S f) (92 :: c :: rest) = PEscape c :: tokenize f rest.
Proof.
  intros Hc. cbn [tokenize]. replace (92 =? 91) with false by reflexivity. cbn [escape_at].
  destruct (c =? 10) eqn:E; [lia|reflexivity].
Qed.

Lemma render_bracket ft body ps : render_pieces ft (PBracket body :: ps) = bind (render_pieces ft ps) (fun b => Ok (body ++ b)).
Proof. reflexivity. Qed.

Lemma render_escape ft c ps : render_pieces ft (PEscape c :: ps) = bind (render_pieces ft ps) (fun b => Ok (c :: b)).
Proof. reflexivity. Qed.

(* format(dt, "[" + body + "]" + rest) = body + (the rendering of the pieces of rest) *)
Lemma format_bracket_verbatim d loc t body rest :
  ~ In 91 body -> no_rb_before_lb rest = true ->
  format_loc (S d) loc t (91 :: body ++ 93 :: rest) =
    bind (render_pieces (format_token (format_loc d loc t) loc t) (tokenize (length (91 :: body ++ 93 :: rest)) rest))
         (fun b => Ok (body ++ b)).
Proof.
  intros Hb Hr. cbn [format_loc]. rewrite (tokenize_bracket _ body rest Hb Hr). apply render_bracket.
Qed.

Lemma format_backslash_verbatim d loc t c rest :
  c <> 10 ->
  format_loc (S d) loc t (92 :: c :: rest) =
    bind (render_pieces (format_token (format_loc d loc t) loc t) (tokenize (length (92 :: c :: rest)) rest))
         (fun b => Ok (c :: b)).
Proof. intros Hc. cbn [format_loc]. rewrite (tokenize_backslash _ c rest Hc). apply render_escape. Qed.

(* a whole format that is one escape *)
Lemma format_only_bracket loc t body : ~ In 91 body -> format_loc 1 loc t (91 :: body ++ [93]) = Ok body.
Proof.
  intros Hb. rewrite (format_bracket_verbatim 0 loc t body [] Hb eq_refl).
  cbn [length]. destruct (length (body ++ [93])); cbn [tokenize render_pieces bind]; rewrite app_nil_r; reflexivity.
Qed.

(* ------------------------------------------------------------------ named formats: tokenisation computed, fields symbolic *)
Lemma default_locale_is_en : find_locale default_locale = Some loc_en.
Proof. vm_compute. reflexivity. Qed.
Lemma en_locale_is_en : find_locale [101;110] = Some loc_en.
Proof. vm_compute. reflexivity. Qed.

Ltac compute_tokenize :=
  match goal with
  | |- context [tokenize ?f ?s] => let ps := eval vm_compute in (tokenize f s) in change (tokenize f s) with ps
  end.

Ltac render_step :=
  first [ rewrite tok_YYYY | rewrite tok_YY_raw | rewrite tok_MM | rewrite tok_DD | rewrite tok_D | rewrite tok_HH | rewrite tok_mm | rewrite tok_ss
        | rewrite tok_h | rewrite tok_S6
        | rewrite tok_Z | rewrite tok_ZZ | rewrite tok_zz | rewrite tok_dddd | rewrite tok_ddd | rewrite tok_MMM | rewrite tok_A ];
  cbn [bind].

Ltac named_format key :=
  intros t; unfold string_helper, to_string;
  repeat match goal with
         | |- context [assoc ?k string_helpers] => let v := eval vm_compute in (assoc k string_helpers) in change (assoc k string_helpers) with v; cbv beta iota
         | |- context [assoc ?k named_formats] => let v := eval vm_compute in (assoc k named_formats) in change (assoc k named_formats) with v; cbv beta iota
         end;
  unfold format; rewrite ?default_locale_is_en, ?en_locale_is_en; cbn [format_loc length];
  compute_tokenize; cbn [render_pieces bind]; repeat render_step; rewrite ?app_nil_r; try reflexivity;
  repeat match goal with |- context [bind (tbl_get ?a ?b) _] => destruct (tbl_get a b); cbn [bind] end; rewrite ?app_nil_r; try reflexivity.

Definition K (s : list Z) : str := s.

Lemma atom_composition : forall t,
  string_helper [116;111;95;97;116;111;109;95;115;116;114;105;110;103] t =
  Ok (render_d (t_year t) ++ [45] ++ render_0wd 2 (t_month t) ++ [45] ++ render_0wd 2 (t_day t) ++ [84]
      ++ render_0wd 2 (t_hour t) ++ [58] ++ render_0wd 2 (t_minute t) ++ [58] ++ render_0wd 2 (t_second t) ++ format_offset t true).
Proof. named_format tt. Qed.
(* to_w3c_string: YYYY-MM-DDTHH:mm:ssZ *)
Lemma w3c_composition : forall t,
  string_helper [116;111;95;119;51;99;95;115;116;114;105;110;103] t =
  Ok (render_d (t_year t) ++ [45] ++ render_0wd 2 (t_month t) ++ [45] ++ render_0wd 2 (t_day t) ++ [84]
      ++ render_0wd 2 (t_hour t) ++ [58] ++ render_0wd 2 (t_minute t) ++ [58] ++ render_0wd 2 (t_second t) ++ format_offset t true).
Proof. named_format tt. Qed.

(* to_time_string: HH:mm:ss *)
Lemma time_composition : forall t,
  string_helper [116;111;95;116;105;109;101;95;115;116;114;105;110;103] t =
  Ok (render_0wd 2 (t_hour t) ++ [58] ++ render_0wd 2 (t_minute t) ++ [58] ++ render_0wd 2 (t_second t)).
Proof. named_format tt. Qed.

(* to_datetime_string: YYYY-MM-DD HH:mm:ss *)
Lemma datetime_composition : forall t,
  string_helper [116;111;95;100;97;116;101;116;105;109;101;95;115;116;114;105;110;103] t =
  Ok (render_d (t_year t) ++ [45] ++ render_0wd 2 (t_month t) ++ [45] ++ render_0wd 2 (t_day t) ++ [32]
      ++ render_0wd 2 (t_hour t) ++ [58] ++ render_0wd 2 (t_minute t) ++ [58] ++ render_0wd 2 (t_second t)).
Proof. named_format tt. Qed.

(* to_cookie_string: dddd, DD-MMM-YYYY HH:mm:ss zz (locale en) *)
Lemma cookie_composition : forall t,
  string_helper [116;111;95;99;111;111;107;105;101;95;115;116;114;105;110;103] t =
  bind (tbl_get (l_days_wide loc_en) (weekday0 (ordn t))) (fun dn =>
  bind (tbl_get (l_months_abbr loc_en) (t_month t)) (fun mn =>
  Ok (dn ++ [44] ++ [32] ++ render_0wd 2 (t_day t) ++ [45] ++ mn ++ [45] ++ render_d (t_year t) ++ [32]
      ++ render_0wd 2 (t_hour t) ++ [58] ++ render_0wd 2 (t_minute t) ++ [58] ++ render_0wd 2 (t_second t) ++ [32] ++ (if t_has_tz t then t_abbr t else [])))).
Proof. named_format tt. Qed.

(* to_rfc850_string: dddd, DD-MMM-YY HH:mm:ss zz *)
Lemma rfc850_composition : forall t,
  string_helper [116;111;95;114;102;99;56;53;48;95;115;116;114;105;110;103] t =
  bind (tbl_get (l_days_wide loc_en) (weekday0 (ordn t))) (fun dn =>
  bind (tbl_get (l_months_abbr loc_en) (t_month t)) (fun mn =>
  Ok (dn ++ [44] ++ [32] ++ render_0wd 2 (t_day t) ++ [45] ++ mn ++ [45] ++ skipn 2 (render_d (t_year t)) ++ [32]
      ++ render_0wd 2 (t_hour t) ++ [58] ++ render_0wd 2 (t_minute t) ++ [58] ++ render_0wd 2 (t_second t) ++ [32] ++ (if t_has_tz t then t_abbr t else [])))).
Proof. named_format tt. Qed.

(* to_rfc822_string: ddd, DD MMM YY HH:mm:ss ZZ *)
Lemma rfc822_composition : forall t,
  string_helper [116;111;95;114;102;99;56;50;50;95;115;116;114;105;110;103] t =
  bind (tbl_get (l_days_abbr loc_en) (weekday0 (ordn t))) (fun dn =>
  bind (tbl_get (l_months_abbr loc_en) (t_month t)) (fun mn =>
  Ok (dn ++ [44] ++ [32] ++ render_0wd 2 (t_day t) ++ [32] ++ mn ++ [32] ++ skipn 2 (render_d (t_year t)) ++ [32]
      ++ render_0wd 2 (t_hour t) ++ [58] ++ render_0wd 2 (t_minute t) ++ [58] ++ render_0wd 2 (t_second t) ++ [32] ++ format_offset t false))).
Proof. named_format tt. Qed.

(* to_rfc1036_string: ddd, DD MMM YY HH:mm:ss ZZ *)
Lemma rfc1036_composition : forall t,
  string_helper [116;111;95;114;102;99;49;48;51;54;95;115;116;114;105;110;103] t =
  bind (tbl_get (l_days_abbr loc_en) (weekday0 (ordn t))) (fun dn =>
  bind (tbl_get (l_months_abbr loc_en) (t_month t)) (fun mn =>
  Ok (dn ++ [44] ++ [32] ++ render_0wd 2 (t_day t) ++ [32] ++ mn ++ [32] ++ skipn 2 (render_d (t_year t)) ++ [32]
      ++ render_0wd 2 (t_hour t) ++ [58] ++ render_0wd 2 (t_minute t) ++ [58] ++ render_0wd 2 (t_second t) ++ [32] ++ format_offset t false))).
Proof. named_format tt. Qed.

(* to_rfc1123_string: ddd, DD MMM YYYY HH:mm:ss ZZ *)
Lemma rfc1123_composition : forall t,
  string_helper [116;111;95;114;102;99;49;49;50;51;95;115;116;114;105;110;103] t =
  bind (tbl_get (l_days_abbr loc_en) (weekday0 (ordn t))) (fun dn =>
  bind (tbl_get (l_months_abbr loc_en) (t_month t)) (fun mn =>
  Ok (dn ++ [44] ++ [32] ++ render_0wd 2 (t_day t) ++ [32] ++ mn ++ [32] ++ render_d (t_year t) ++ [32]
      ++ render_0wd 2 (t_hour t) ++ [58] ++ render_0wd 2 (t_minute t) ++ [58] ++ render_0wd 2 (t_second t) ++ [32] ++ format_offset t false))).
Proof. named_format tt. Qed.

(* to_rfc2822_string: ddd, DD MMM YYYY HH:mm:ss ZZ *)
Lemma rfc2822_composition : forall t,
  string_helper [116;111;95;114;102;99;50;56;50;50;95;115;116;114;105;110;103] t =
  bind (tbl_get (l_days_abbr loc_en) (weekday0 (ordn t))) (fun dn =>
  bind (tbl_get (l_months_abbr loc_en) (t_month t)) (fun mn =>
  Ok (dn ++ [44] ++ [32] ++ render_0wd 2 (t_day t) ++ [32] ++ mn ++ [32] ++ render_d (t_year t) ++ [32]
      ++ render_0wd 2 (t_hour t) ++ [58] ++ render_0wd 2 (t_minute t) ++ [58] ++ render_0wd 2 (t_second t) ++ [32] ++ format_offset t false))).
Proof. named_format tt. Qed.

(* to_rss_string: ddd, DD MMM YYYY HH:mm:ss ZZ *)
Lemma rss_composition : forall t,
  string_helper [116;111;95;114;115;115;95;115;116;114;105;110;103] t =
  bind (tbl_get (l_days_abbr loc_en) (weekday0 (ordn t))) (fun dn =>
  bind (tbl_get (l_months_abbr loc_en) (t_month t)) (fun mn =>
  Ok (dn ++ [44] ++ [32] ++ render_0wd 2 (t_day t) ++ [32] ++ mn ++ [32] ++ render_d (t_year t) ++ [32]
      ++ render_0wd 2 (t_hour t) ++ [58] ++ render_0wd 2 (t_minute t) ++ [58] ++ render_0wd 2 (t_second t) ++ [32] ++ format_offset t false))).
Proof. named_format tt. Qed.

Lemma rfc3339_composition : forall t, string_helper [116;111;95;114;102;99;51;51;51;57;95;115;116;114;105;110;103] t = Ok (isoformat_T t).
Proof. intros t. reflexivity. Qed.

(* ------------------------------------------------------------------ from_format after matching: _get_parsed_value inverts the renderings *)
Ltac gpv v :=
  intros; unfold get_parsed_value;
  match goal with |- context [assoc ?k parse_tokens] => let x := eval vm_compute in (assoc k parse_tokens) in change (assoc k parse_tokens) with x end;
  cbv beta iota; rewrite (py_int_render_0wd _ v) by lia;
  cbn [contains memZ existsb Z.eqb Pos.eqb str_eqb orb andb bind T_Z T_ZZ];
  rewrite ?Z.mul_1_r, ?Z.add_0_r; try reflexivity.

Lemma parsed_YYYY zones y p : 0 <= y -> get_parsed_value zones [89;89;89;89] (render_0wd 4 y) p = Ok (set_year (Some y) p).
Proof. gpv y. Qed.
Lemma parsed_MM zones v p : 0 <= v -> get_parsed_value zones [77;77] (render_0wd 2 v) p = Ok (set_month (Some v) p).
Proof. gpv v. Qed.
Lemma parsed_DD zones v p : 0 <= v -> get_parsed_value zones [68;68] (render_0wd 2 v) p = Ok (set_day (Some v) p).
Proof. gpv v. Qed.
Lemma parsed_HH zones v p : 0 <= v -> get_parsed_value zones [72;72] (render_0wd 2 v) p = Ok (set_hour (Some v) p).
Proof. gpv v. Qed.
Lemma parsed_mm zones v p : 0 <= v -> get_parsed_value zones [109;109] (render_0wd 2 v) p = Ok (set_minute (Some v) p).
Proof. gpv v. Qed.
Lemma parsed_ss zones v p : 0 <= v -> get_parsed_value zones [115;115] (render_0wd 2 v) p = Ok (set_second (Some v) p).
Proof. gpv v. Qed.
Lemma parsed_S6 zones v p : 0 <= v -> get_parsed_value zones [83;83;83;83;83;83] (render_0wd 6 v) p = Ok (set_micro (Some v) p).
Proof. gpv v. Qed.
(* a narrower fraction token reads back the truncated microseconds: SSS renders us/1000 and parses to (us/1000)*1000 *)
Lemma parsed_S3 zones v p : 0 <= v -> get_parsed_value zones [83;83;83] (render_0wd 3 v) p = Ok (set_micro (Some (v * 1000)) p).
Proof. gpv v. Qed.

Lemma two_digits s : all_digits s -> length s = 2%nat -> exists a b, s = [a; b] /\ 48 <= a <= 57 /\ 48 <= b <= 57.
Proof.
  intros Hd Hl. destruct s as [|a [|b [|c s]]]; try discriminate.
  inversion Hd as [|? ? Ha Hd']; subst. inversion Hd' as [|? ? Hb _]; subst. eauto.
Qed.

Lemma parse_offset_digits (colon : bool) sg a b c d :
  sg = 43 \/ sg = 45 -> 48 <= a <= 57 -> 48 <= b <= 57 -> 48 <= c <= 57 -> 48 <= d <= 57 ->
  parse_offset (sg :: [a; b] ++ (if colon then [58] else []) ++ [c; d]) =
    Ok ((if sg =? 45 then -1 else 1) * ((value_of_digits [a; b] * 60 + value_of_digits [c; d]) * 60)).
Proof.
  intros Hs Ha Hb Hc Hd.
  assert (Ea : (58 =? a) = false) by lia. assert (Eb : (58 =? b) = false) by lia.
  assert (Ec : (58 =? c) = false) by lia. assert (Ed : (58 =? d) = false) by lia.
  assert (Ea' : (a =? 58) = false) by lia. assert (Eb' : (b =? 58) = false) by lia.
  assert (Ec' : (c =? 58) = false) by lia. assert (Ed' : (d =? 58) = false) by lia.
  assert (P1 : py_int [a; b] = Some (value_of_digits [a; b])).
  { apply py_int_digits; [repeat constructor; lia|discriminate]. }
  assert (P2 : py_int [c; d] = Some (value_of_digits [c; d])).
  { apply py_int_digits; [repeat constructor; lia|discriminate]. }
  destruct colon; destruct Hs as [-> | ->]; unfold parse_offset;
    cbn [skipn app contains memZ existsb split_colon length Nat.eqb firstn negb orb];
    rewrite ?Ea, ?Eb, ?Ec, ?Ed, ?Ea', ?Eb', ?Ec', ?Ed'; cbn [orb negb Z.eqb Pos.eqb bind];
    rewrite ?Ea', ?Eb', ?Ec', ?Ed'; cbn [bind]; rewrite P1, P2; cbn [Z.eqb Pos.eqb]; f_equal; lia.
Qed.

(* the offset token: parse_offset inverts format_offset for whole-minute offsets below 100 hours *)
Lemma parse_format_offset t colon :
  t_has_tz t = true -> t_off t mod 60 = 0 -> Z.abs (t_off t) < 360000 ->
  parse_offset (format_offset t colon) = Ok (t_off t).
Proof.
  intros Htz Hm Hb. rewrite (format_offset_minutes t colon Htz Hm).
  set (H := Z.abs (t_off t) / 3600). set (M := Z.abs (t_off t) / 60 mod 60).
  assert (HH : 0 <= H < 10 ^ Z.of_nat 2) by (subst H; cbn; lia).
  assert (HM : 0 <= M < 10 ^ Z.of_nat 2) by (subst M; cbn; lia).
  destruct (two_digits (render_0wd 2 H)) as (a & b & Eab & Ha & Hb').
  { apply render_0wd_digits. lia. } { apply (render_0wd_length 2 H HH). lia. }
  destruct (two_digits (render_0wd 2 M)) as (c & d & Ecd & Hc & Hd).
  { apply render_0wd_digits. lia. } { apply (render_0wd_length 2 M HM). lia. }
  pose proof (render_0wd_value 2 H (proj1 HH)) as VH. pose proof (render_0wd_value 2 M (proj1 HM)) as VM.
  rewrite Eab in *. rewrite Ecd in *.
  rewrite (parse_offset_digits colon _ a b c d); try assumption.
  - rewrite VH, VM. f_equal. subst H M. destruct (0 <=? t_off t) eqn:E; cbn [Z.eqb Pos.eqb]; lia.
  - destruct (0 <=? t_off t); [left|right]; reflexivity.
Qed.

Lemma parsed_Z zones t p : t_has_tz t = true -> t_off t mod 60 = 0 -> Z.abs (t_off t) < 360000 ->
  get_parsed_value zones T_Z (format_offset t true) p = Ok (set_tz (Some (TzFixed (t_off t))) p).
Proof.
  intros H1 H2 H3. unfold get_parsed_value.
  change (assoc T_Z parse_tokens) with (Some PStr). cbv beta iota.
  cbn [contains memZ existsb Z.eqb Pos.eqb str_eqb orb andb T_Z T_ZZ].
  rewrite (parse_format_offset t true H1 H2 H3). reflexivity.
Qed.

Lemma parsed_ZZ zones t p : t_has_tz t = true -> t_off t mod 60 = 0 -> Z.abs (t_off t) < 360000 ->
  get_parsed_value zones T_ZZ (format_offset t false) p = Ok (set_tz (Some (TzFixed (t_off t))) p).
Proof.
  intros H1 H2 H3. unfold get_parsed_value.
  change (assoc T_ZZ parse_tokens) with (Some PStr). cbv beta iota.
  cbn [contains memZ existsb Z.eqb Pos.eqb str_eqb orb andb T_Z T_ZZ].
  rewrite (parse_format_offset t false H1 H2 H3). reflexivity.
Qed.

(* ------------------------------------------------------------------ _check_parsed *)
(* every field present, no quarter / day-of-year / weekday / meridiem: the fields are returned as they are *)
Lemma check_parsed_all rs y m d hh mi ss us tz now :
  check_parsed rs (mkparsed (Some y) (Some m) (Some d) (Some hh) (Some mi) (Some ss) (Some us) tz None None None None None) now
  = Ok (y, m, d, hh, mi, ss, us, tz).
Proof. reflexivity. Qed.

(* defaulting rules for absent fields (no quarter / day-of-year / weekday / meridiem) *)
Lemma check_parsed_time_only rs hh mi ss us tz now :
  check_parsed rs (mkparsed None None None hh mi ss us tz None None None None None) now
  = Ok (n_year now, n_month now, n_day now,
        match hh with Some v => v | None => 0 end, match mi with Some v => v | None => 0 end,
        match ss with Some v => v | None => 0 end, match us with Some v => v | None => 0 end, tz).
Proof. reflexivity. Qed.

Lemma check_parsed_year_only rs y now :
  check_parsed rs (mkparsed (Some y) None None None None None None None None None None None None) now = Ok (y, 1, 1, 0, 0, 0, 0, None).
Proof. reflexivity. Qed.

Lemma check_parsed_month_day rs m d now : m <> 0 -> d <> 0 ->
  check_parsed rs (mkparsed None (Some m) (Some d) None None None None None None None None None None) now = Ok (n_year now, m, d, 0, 0, 0, 0, None).
Proof. reflexivity. Qed.

Lemma check_parsed_month_only rs m now :
  check_parsed rs (mkparsed None (Some m) None None None None None None None None None None None) now = Ok (n_year now, m, 1, 0, 0, 0, 0, None).
Proof. reflexivity. Qed.

Lemma check_parsed_day_only rs d now : d <> 0 ->
  check_parsed rs (mkparsed None None (Some d) None None None None None None None None None None) now = Ok (n_year now, n_month now, d, 0, 0, 0, 0, None).
Proof. reflexivity. Qed.

(* ------------------------------------------------------------------ from_format inverts format: YYYY-MM-DD HH:mm:ss.SSSSSS Z *)
Definition iso_fmt (colon : bool) : str :=
  [89;89;89;89;45;77;77;45;68;68;32;72;72;58;109;109;58;115;115;46;83;83;83;83;83;83;32] ++ (if colon then T_Z else T_ZZ).

Definition iso_render (colon : bool) (t : pdt) : str :=
  render_0wd 4 (t_year t) ++ [45] ++ render_0wd 2 (t_month t) ++ [45] ++ render_0wd 2 (t_day t) ++ [32]
  ++ render_0wd 2 (t_hour t) ++ [58] ++ render_0wd 2 (t_minute t) ++ [58] ++ render_0wd 2 (t_second t) ++ [46]
  ++ render_0wd 6 (t_micro t) ++ [32] ++ format_offset t colon.

Lemma iso_format colon t : 1000 <= t_year t <= 9999 -> format [101;110] t (iso_fmt colon) = Ok (iso_render colon t).
Proof.
  intros Hy. unfold format. rewrite en_locale_is_en. destruct colon; cbn [iso_fmt app T_Z T_ZZ format_loc length];
    compute_tokenize; cbn [render_pieces bind]; rewrite (tok_YYYY_4 _ _ _ Hy); cbn [bind]; repeat render_step;
    rewrite ?app_nil_r; reflexivity.
Qed.

(* the groups of the assembled pattern, in definition order, and the text each one captures from the rendering *)
Definition iso_names (colon : bool) : list str :=
  [[89;89;89;89]; [77;77]; [68;68]; [72;72]; [109;109]; [115;115]; [83;83;83;83;83;83]; if colon then T_Z else T_ZZ].

Definition iso_caps (colon : bool) (t : pdt) : caps :=
  [(if colon then T_Z else T_ZZ, format_offset t colon); ([83;83;83;83;83;83], render_0wd 6 (t_micro t));
   ([115;115], render_0wd 2 (t_second t)); ([109;109], render_0wd 2 (t_minute t)); ([72;72], render_0wd 2 (t_hour t));
   ([68;68], render_0wd 2 (t_day t)); ([77;77], render_0wd 2 (t_month t)); ([89;89;89;89], render_0wd 4 (t_year t))].

Lemma iso_pattern_names colon : exists r, parse_pattern loc_en (iso_fmt colon) = Ok (iso_names colon, r).
Proof. destruct colon; eexists; vm_compute; reflexivity. Qed.

Definition dt_in_range (t : pdt) : Prop :=
  0 <= t_year t /\ 0 <= t_month t /\ 0 <= t_day t /\ 0 <= t_hour t /\ 0 <= t_minute t /\ 0 <= t_second t /\ 0 <= t_micro t /\
  t_has_tz t = true /\ t_off t mod 60 = 0 /\ Z.abs (t_off t) < 360000.

Ltac closed_existsb :=
  repeat match goal with
         | |- context [existsb ?f localizable_tokens] =>
           let v := eval vm_compute in (existsb f localizable_tokens) in change (existsb f localizable_tokens) with v
         end.

(* after the match: _get_parsed_values on the captured renderings followed by _check_parsed gives back the fields and the offset *)
Lemma parse_finish_iso rs zones now colon t : dt_in_range t ->
  parse_finish rs zones loc_en (iso_names colon) [iso_caps colon t] now =
  Ok (t_year t, t_month t, t_day t, t_hour t, t_minute t, t_second t, t_micro t, Some (TzFixed (t_off t))).
Proof.
  intros (Hy & Hm & Hd & Hh & Hmi & Hs & Hus & Htz & Hom & Hob).
  unfold parse_finish. cbn [fold_matches].
  destruct colon; cbn [iso_names iso_caps get_parsed_values assoc str_eqb Z.eqb Pos.eqb andb T_Z T_ZZ]; closed_existsb; cbv iota;
    rewrite parsed_YYYY by lia; cbn [bind get_parsed_values assoc str_eqb Z.eqb Pos.eqb andb];
    rewrite parsed_MM by lia; cbn [bind get_parsed_values assoc str_eqb Z.eqb Pos.eqb andb];
    rewrite parsed_DD by lia; cbn [bind get_parsed_values assoc str_eqb Z.eqb Pos.eqb andb];
    rewrite parsed_HH by lia; cbn [bind get_parsed_values assoc str_eqb Z.eqb Pos.eqb andb];
    rewrite parsed_mm by lia; cbn [bind get_parsed_values assoc str_eqb Z.eqb Pos.eqb andb];
    rewrite parsed_ss by lia; cbn [bind get_parsed_values assoc str_eqb Z.eqb Pos.eqb andb];
    rewrite parsed_S6 by lia; cbn [bind get_parsed_values assoc str_eqb Z.eqb Pos.eqb andb].
  - change [90] with T_Z. rewrite (parsed_Z zones t _ Htz Hom Hob). reflexivity.
  - change [90; 90] with T_ZZ. rewrite (parsed_ZZ zones t _ Htz Hom Hob). reflexivity.
Qed.

Lemma iso_has_tokens colon :
  forallb (fun p => match p with FLit _ => true | _ => false end)
          (ff_tokenize (S (length (re_escape (iso_fmt colon)))) [] (re_escape (iso_fmt colon))) = false.
Proof. destruct colon; vm_compute; reflexivity. Qed.

Lemma iso_names_nodup colon : has_dup (iso_names colon) = false.
Proof. destruct colon; vm_compute; reflexivity. Qed.

Lemma parse_match_ok rs zones lname loc now time fmt names r ms :
  find_locale lname = Some loc ->
  forallb (fun p => match p with FLit _ => true | _ => false end) (ff_tokenize (S (length (re_escape fmt))) [] (re_escape fmt)) = false ->
  parse_pattern loc fmt = Ok (names, r) -> has_dup names = false ->
  search_anchored r time = true -> sub_matches (S (length time)) r time = Some ms ->
  parse rs zones lname now time fmt = parse_finish rs zones loc names ms now.
Proof.
  intros Hl Ht Hp Hd Hs Hm. unfold parse. cbv zeta. rewrite Ht, Hl.
  unfold parse_pattern in Hp. cbv zeta in Hp.
  destruct (assemble loc (ff_tokenize (S (length (re_escape fmt))) [] (re_escape fmt))) as [els|e]; [|discriminate].
  cbn [bind] in Hp. injection Hp as Hn Hr. cbn [bind]. rewrite Hn, Hr, Hd, Hs, Hm. reflexivity.
Qed.

Section InversePartial.
  Variables (rs : bool) (zones : list str) (now : pnow) (colon : bool) (t : pdt).
  Hypothesis Hrange : dt_in_range t.
  Hypothesis Hyear : 1000 <= t_year t <= 9999.
  (* the regex matching step — validated on every run by the correspondence streams roundtrip-full / nonmatching:
     r is the assembled pattern; the anchored search succeeds on the rendering and the re.sub pass finds exactly one match,
     whose groups are the rendered tokens *)
  Variable r : re.
  Hypothesis Hpat : parse_pattern loc_en (iso_fmt colon) = Ok (iso_names colon, r).
  Hypothesis Hsearch : search_anchored r (iso_render colon t) = true.
  Hypothesis Hsub : sub_matches (S (length (iso_render colon t))) r (iso_render colon t) = Some [iso_caps colon t].

  Lemma from_format_inverts_iso :
    bind (format [101;110] t (iso_fmt colon)) (fun s => parse rs zones [101;110] now s (iso_fmt colon)) =
    Ok (t_year t, t_month t, t_day t, t_hour t, t_minute t, t_second t, t_micro t, Some (TzFixed (t_off t))).
  Proof.
    rewrite (iso_format colon t Hyear). cbn [bind].
    rewrite (parse_match_ok rs zones _ loc_en now _ _ _ r _ en_locale_is_en (iso_has_tokens colon) Hpat (iso_names_nodup colon) Hsearch Hsub).
    apply parse_finish_iso. exact Hrange.
  Qed.
End InversePartial.

(* the hypotheses are satisfiable: a concrete DateTime for which the model computes exactly these matches *)
Definition iso_sample : pdt := mkpdt 2020 2 29 13 14 15 123456 true 19800 [] [].
Lemma iso_sample_in_range : dt_in_range iso_sample /\ 1000 <= t_year iso_sample <= 9999.
Proof. unfold dt_in_range. cbn. repeat split; lia. Qed.
Lemma iso_sample_matches colon :
  exists r, parse_pattern loc_en (iso_fmt colon) = Ok (iso_names colon, r)
            /\ search_anchored r (iso_render colon iso_sample) = true
            /\ sub_matches (S (length (iso_render colon iso_sample))) r (iso_render colon iso_sample) = Some [iso_caps colon iso_sample].
Proof. destruct colon; eexists; repeat split; vm_compute; reflexivity. Qed.

(* a string that the anchored pattern does not match is rejected with ValueError (any format with at least one token) *)
Lemma parse_mismatch_valueerror rs zones lname loc now time fmt names r :
  find_locale lname = Some loc ->
  forallb (fun p => match p with FLit _ => true | _ => false end) (ff_tokenize (S (length (re_escape fmt))) [] (re_escape fmt)) = false ->
  parse_pattern loc fmt = Ok (names, r) -> has_dup names = false ->
  search_anchored r time = false ->
  parse rs zones lname now time fmt = Raise E_ValueError.
Proof.
  intros Hl Ht Hp Hd Hs. unfold parse. cbv zeta. rewrite Ht, Hl.
  unfold parse_pattern in Hp. cbv zeta in Hp.
  destruct (assemble loc (ff_tokenize (S (length (re_escape fmt))) [] (re_escape fmt))) as [els|e]; [|discriminate].
  cbn [bind] in Hp. injection Hp as Hn Hr. cbn [bind]. rewrite Hn, Hr, Hd, Hs. reflexivity.
Qed.

Lemma day_datetime_composition : forall t,
  string_helper [116;111;95;100;97;121;95;100;97;116;101;116;105;109;101;95;115;116;114;105;110;103] t =
  bind (tbl_get (l_days_abbr loc_en) (weekday0 (ordn t))) (fun dn =>
  bind (tbl_get (l_months_abbr loc_en) (t_month t)) (fun mn =>
  Ok (dn ++ [44] ++ [32] ++ mn ++ [32] ++ render_d (t_day t) ++ [44] ++ [32] ++ render_d (t_year t) ++ [32]
      ++ render_d (hour12 (t_hour t)) ++ [58] ++ render_0wd 2 (t_minute t) ++ [32]
      ++ match (if 12 <=? t_hour t then l_pm loc_en else l_am loc_en) with Some s => s | None => [] end))).
Proof. named_format tt. Qed.

Lemma iso8601_composition : forall t,
  string_helper [116;111;95;105;115;111;56;54;48;49;95;115;116;114;105;110;103] t =
  Ok (if t_has_tz t && str_eqb (t_zone t) UTC_name
      then replace_all (S (length (isoformat_T t))) (isoformat_T t) plus0000 [90] else isoformat_T t).
Proof. intros t. reflexivity. Qed.

(* ------------------------------------------------------------------ packaged token statements *)
Lemma tok_Z_minutes rec loc t : t_has_tz t = true -> t_off t mod 60 = 0 ->
  format_token rec loc t T_Z = Ok ((if 0 <=? t_off t then 43 else 45) :: render_0wd 2 (Z.abs (t_off t) / 3600)
                                   ++ [58] ++ render_0wd 2 (Z.abs (t_off t) / 60 mod 60)).
Proof. intros H1 H2. rewrite tok_Z, (format_offset_minutes t true H1 H2). reflexivity. Qed.
Lemma tok_ZZ_minutes rec loc t : t_has_tz t = true -> t_off t mod 60 = 0 ->
  format_token rec loc t T_ZZ = Ok ((if 0 <=? t_off t then 43 else 45) :: render_0wd 2 (Z.abs (t_off t) / 3600)
                                    ++ render_0wd 2 (Z.abs (t_off t) / 60 mod 60)).
Proof. intros H1 H2. rewrite tok_ZZ, (format_offset_minutes t false H1 H2). reflexivity. Qed.

Lemma tok_A_en rec t : format_token rec loc_en t T_A = Ok (if 12 <=? t_hour t then [80;77] else [65;77]).
Proof. rewrite tok_A. destruct (12 <=? t_hour t); reflexivity. Qed.
Lemma tok_MMMM_en rec t : 1 <= t_month t <= 12 ->
  format_token rec loc_en t T_MMMM = Ok (nth (Z.to_nat (t_month t - 1)) en_month_names []).
Proof. intros H. rewrite tok_MMMM. apply en_month_wide. exact H. Qed.
Lemma tok_MMM_en rec t : 1 <= t_month t <= 12 ->
  format_token rec loc_en t T_MMM = Ok (firstn 3 (nth (Z.to_nat (t_month t - 1)) en_month_names [])).
Proof. intros H. rewrite tok_MMM. apply en_month_abbr. exact H. Qed.
Lemma tok_dddd_en rec t : format_token rec loc_en t T_dddd = Ok (nth (Z.to_nat (weekday0 (ordn t))) en_day_names []).
Proof. rewrite tok_dddd. apply en_day_wide. unfold weekday0. lia. Qed.

Lemma tok_e_every_locale rec loc t : In loc locales -> exists fd, l_first_day loc = Some fd /\
  format_token rec loc t T_e = Ok (render_d ((weekday0 (ymd2ord (t_year t) (t_month t) (t_day t)) mod 7 - fd) mod 7)).
Proof.
  intros Hl. pose proof (proj1 (forallb_forall _ _) every_locale_has_week_data loc Hl) as E. cbv beta in E.
  destruct (l_first_day loc) as [fd|] eqn:Hfd; [|discriminate]. exists fd. split; [reflexivity|]. apply tok_e. exact Hfd.
Qed.

Lemma localized_names_total l : In l locales ->
  (forall m, 1 <= m <= 12 -> (exists c s, tbl_get (l_months_wide l) m = Ok (c :: s)) /\ (exists c s, tbl_get (l_months_abbr l) m = Ok (c :: s))) /\
  (forall w, 0 <= w <= 6 -> (exists c s, tbl_get (l_days_wide l) w = Ok (c :: s)) /\ (exists c s, tbl_get (l_days_abbr l) w = Ok (c :: s))
                            /\ (exists c s, tbl_get (l_days_short l) w = Ok (c :: s))).
Proof.
  intros Hl. destruct (locale_names_ok_parts l Hl) as (A & B & C & D & E).
  split; intros k Hk; repeat split; eauto using names_ok_total.
Qed.

Lemma localized_names_injective l : In l locales ->
  (forall a b x, 1 <= a <= 12 -> 1 <= b <= 12 -> tbl_get (l_months_wide l) a = Ok x -> tbl_get (l_months_wide l) b = Ok x -> a = b) /\
  (forall a b x, 1 <= a <= 12 -> 1 <= b <= 12 -> tbl_get (l_months_abbr l) a = Ok x -> tbl_get (l_months_abbr l) b = Ok x -> a = b) /\
  (forall a b x, 0 <= a <= 6 -> 0 <= b <= 6 -> tbl_get (l_days_wide l) a = Ok x -> tbl_get (l_days_wide l) b = Ok x -> a = b).
Proof.
  intros Hl. destruct (locale_names_ok_parts l Hl) as (A & B & C & D & E).
  repeat split; intros a b x Ha Hb Hx Hy; eauto using names_ok_injective.
Qed.
