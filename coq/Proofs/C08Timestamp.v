(* Proofs/C08Timestamp.v — from_format with the timestamp tokens X / x (Model/FormatterParse.v: ts_of_text, check_parsed):
   the text format() renders for X / x is read back to the second count, helpers.local_time — in either backend — breaks it
   down to the calendar fields of the instant (Proofs/LocalTime.v, C15), hence from_format inverts format for X and, at or
   after the epoch or on whole milliseconds... see from_format_x_*: before the epoch the millisecond part comes back
   mirrored (finding x-negative-fraction). *)
From Coq Require Import ZArith List Bool Lia ZifyBool.
From PV Require Import Lib.PyBase Spec.Cal Proofs.CalFacts Gen.Helpers Model.RustHelpers Proofs.LocalTime.
From PV Require Import Model.FormatterBase Gen.FormatterTables Gen.LocaleTables Model.Formatter Model.FormatterParse Proofs.C08Decimal Proofs.C08Facts.
Import ListNotations.
Open Scope Z_scope.
Ltac Zify.zify_post_hook ::= Z.to_euclidean_division_equations.

(* ------------------------------------------------------------------ the rendered integer has no decimal point *)
Lemma digits_no_point s : all_digits s -> contains 46 s = false.
Proof.
  unfold contains, memZ. induction 1 as [|c s Hc _ IH]; [reflexivity|].
  cbn [existsb]. rewrite IH. destruct (46 =? c) eqn:E; [lia|reflexivity].
Qed.

Lemma render_d_no_point n : contains 46 (render_d n) = false.
Proof.
  unfold render_d. destruct (n <? 0) eqn:E.
  - unfold contains, memZ. cbn [existsb]. change (46 =? 45) with false. cbn [orb].
    apply digits_no_point. apply digits_of_digits. lia.
  - apply digits_no_point. apply digits_of_digits. lia.
Qed.

Lemma ts_limit_val : ts_limit = 1000000000000000. Proof. reflexivity. Qed.

Lemma ts_text_X n : Z.abs n < 1000000000000000 -> ts_of_text 1 (render_d n) = Some (n, 0).
Proof.
  intros H. unfold ts_of_text. rewrite render_d_no_point, py_int_render_d.
  destruct (Z.abs n <? ts_limit) eqn:E; [reflexivity|]. rewrite ts_limit_val in E. lia.
Qed.

Lemma ts_text_x n : Z.abs n < 1000000000000000 -> ts_of_text 1000 (render_d n) = Some (n / 1000, (Z.abs n mod 1000) * 1000).
Proof.
  intros H. unfold ts_of_text. rewrite render_d_no_point, py_int_render_d.
  destruct (Z.abs n <? ts_limit) eqn:E; [reflexivity|]. rewrite ts_limit_val in E. lia.
Qed.

Lemma assoc_X : assoc [88] parse_tokens = Some (PFloat 1). Proof. vm_compute. reflexivity. Qed.
Lemma assoc_x : assoc [120] parse_tokens = Some (PFloat 1000). Proof. vm_compute. reflexivity. Qed.

(* _get_parsed_value on what format() renders: parsed["timestamp"] *)
Lemma parsed_X zones n p : Z.abs n < 1000000000000000 ->
  get_parsed_value zones [88] (render_d n) p = Ok (set_ts (Some (n, 0)) p).
Proof.
  intros H. unfold get_parsed_value. rewrite assoc_X.
  change (str_eqb [88] [88] || str_eqb [88] [120]) with true. cbv iota.
  rewrite ts_text_X by exact H. reflexivity.
Qed.

Lemma parsed_x zones n p : Z.abs n < 1000000000000000 ->
  get_parsed_value zones [120] (render_d n) p = Ok (set_ts (Some (n / 1000, (Z.abs n mod 1000) * 1000)) p).
Proof.
  intros H. unfold get_parsed_value. rewrite assoc_x.
  change (str_eqb [120] [88] || str_eqb [120] [120]) with true. cbv iota.
  rewrite ts_text_x by exact H. reflexivity.
Qed.

(* ------------------------------------------------------------------ _check_parsed with a timestamp: helpers.local_time in either backend *)
Definition with_no_zone (f : Z * Z * Z * Z * Z * Z * Z) : validated :=
  let '(y, m, d, hh, mi, ss, u) := f in (y, m, d, hh, mi, ss, u, None).

Lemma ts_bounds : ts_min = -62135596800 /\ ts_max = 253402300799. Proof. split; reflexivity. Qed.

Lemma check_parsed_timestamp rs p now S us : p_ts p = Some (S, us) -> -62135596800 <= S <= 253402300799 ->
  check_parsed rs p now = Ok (with_no_zone (local_time_spec S us)).
Proof.
  intros Hp HS. unfold check_parsed. rewrite Hp.
  destruct ts_bounds as [Emin Emax].
  replace ((ts_min <=? S) && (S <=? ts_max)) with true by (rewrite Emin, Emax; lia).
  unfold local_time_of.
  assert (E : (if rs then rs_local_time S 0 us else py_local_time S 0 us) = Some (local_time_spec S us)).
  { destruct rs; [rewrite rs_local_time_spec | rewrite py_local_time_spec]; rewrite Z.add_0_r; reflexivity. }
  rewrite E. unfold with_no_zone. destruct (local_time_spec S us) as [[[[[[y m] d] hh] mi] ss] u]. reflexivity.
Qed.

(* ------------------------------------------------------------------ the second count of a UTC DateTime breaks down to its own fields *)
Definition utc_fields_ok (t : pdt) : Prop :=
  valid_dateb (t_year t) (t_month t) (t_day t) = true /\ 0 <= t_hour t < 24 /\ 0 <= t_minute t < 60 /\ 0 <= t_second t < 60 /\ t_off t = 0.

Lemma local_time_of_int_timestamp t us : utc_fields_ok t ->
  local_time_spec (int_timestamp t) us = (t_year t, t_month t, t_day t, t_hour t, t_minute t, t_second t, us).
Proof.
  intros (Hv & Hh & Hm & Hs & Ho). unfold local_time_spec, int_timestamp, epoch_ordinal. rewrite Ho.
  pose proof (ord2ymd_ymd2ord _ _ _ Hv) as R.
  set (o := ymd2ord (t_year t) (t_month t) (t_day t)) in *.
  set (h := t_hour t) in *. set (mi := t_minute t) in *. set (s := t_second t) in *.
  replace (((o - 719163) * 86400 + h * 3600 + mi * 60 + s - 0) / 86400 + 719163) with o by lia.
  rewrite R.
  replace (((o - 719163) * 86400 + h * 3600 + mi * 60 + s - 0) mod 86400) with (h * 3600 + mi * 60 + s) by lia.
  replace ((h * 3600 + mi * 60 + s) / 3600) with h by lia.
  replace ((h * 3600 + mi * 60 + s) mod 3600 / 60) with mi by lia.
  replace ((h * 3600 + mi * 60 + s) mod 3600 mod 60) with s by lia.
  reflexivity.
Qed.

(* whatever the offset of dt, the fields that come back are the calendar fields of dt's instant *)
Lemma from_format_X_fields rs zones now t : -62135596800 <= int_timestamp t <= 253402300799 ->
  bind (get_parsed_value zones [88] (render_d (int_timestamp t)) parsed0) (fun p => check_parsed rs p now)
  = Ok (with_no_zone (local_time_spec (int_timestamp t) 0)).
Proof.
  intros H. rewrite parsed_X by lia. cbn [bind].
  apply check_parsed_timestamp; [reflexivity|exact H].
Qed.

(* token X: from_format(dt.format("X"), "X") has dt's fields to the second, for every UTC DateTime *)
Lemma from_format_inverts_X_after_matching rs zones now t : utc_fields_ok t -> -62135596800 <= int_timestamp t <= 253402300799 ->
  bind (get_parsed_value zones [88] (render_d (int_timestamp t)) parsed0) (fun p => check_parsed rs p now)
  = Ok (t_year t, t_month t, t_day t, t_hour t, t_minute t, t_second t, 0, None).
Proof.
  intros Hu H. rewrite from_format_X_fields by exact H. rewrite local_time_of_int_timestamp by exact Hu. reflexivity.
Qed.

(* token x = int_timestamp * 1000 + microsecond // 1000 *)
Definition x_value (t : pdt) : Z := int_timestamp t * 1000 + t_micro t / 1000.

Lemma from_format_x_general rs zones now t : 0 <= t_micro t < 1000000 -> -62135596800 <= int_timestamp t <= 253402300799 ->
  bind (get_parsed_value zones [120] (render_d (x_value t)) parsed0) (fun p => check_parsed rs p now)
  = Ok (with_no_zone (local_time_spec (int_timestamp t) ((Z.abs (x_value t) mod 1000) * 1000))).
Proof.
  intros Hus H. unfold x_value. rewrite parsed_x by lia. cbn [bind].
  replace ((int_timestamp t * 1000 + t_micro t / 1000) / 1000) with (int_timestamp t) by lia.
  apply check_parsed_timestamp; [reflexivity|exact H].
Qed.

(* at or after the epoch, or on a whole second: the milliseconds come back *)
Lemma from_format_inverts_x_region rs zones now t : utc_fields_ok t -> 0 <= t_micro t < 1000000 ->
  -62135596800 <= int_timestamp t <= 253402300799 ->
  0 <= int_timestamp t \/ t_micro t / 1000 = 0 ->
  bind (get_parsed_value zones [120] (render_d (x_value t)) parsed0) (fun p => check_parsed rs p now)
  = Ok (t_year t, t_month t, t_day t, t_hour t, t_minute t, t_second t, t_micro t / 1000 * 1000, None).
Proof.
  intros Hu Hus H Hreg. rewrite from_format_x_general by assumption. rewrite local_time_of_int_timestamp by exact Hu.
  unfold with_no_zone, x_value.
  replace (Z.abs (int_timestamp t * 1000 + t_micro t / 1000) mod 1000 * 1000) with (t_micro t / 1000 * 1000) by lia.
  reflexivity.
Qed.

(* before the epoch with a millisecond part: the second is right, the milliseconds are mirrored *)
Lemma from_format_x_before_epoch rs zones now t : utc_fields_ok t -> 0 <= t_micro t < 1000000 ->
  -62135596800 <= int_timestamp t < 0 -> t_micro t / 1000 <> 0 ->
  bind (get_parsed_value zones [120] (render_d (x_value t)) parsed0) (fun p => check_parsed rs p now)
  = Ok (t_year t, t_month t, t_day t, t_hour t, t_minute t, t_second t, (1000 - t_micro t / 1000) * 1000, None).
Proof.
  intros Hu Hus H Hms. rewrite from_format_x_general by (try assumption; lia). rewrite local_time_of_int_timestamp by exact Hu.
  unfold with_no_zone, x_value.
  replace (Z.abs (int_timestamp t * 1000 + t_micro t / 1000) mod 1000 * 1000) with ((1000 - t_micro t / 1000) * 1000) by lia.
  reflexivity.
Qed.

(* ------------------------------------------------------------------ the whole path (tokenisation, pattern, regex matching, parse, local_time) on concrete instants *)
Definition utc (y m d hh mi ss us : Z) : pdt := mkpdt y m d hh mi ss us true 0 [85;84;67] [85;84;67].
Definition fields_of (t : pdt) (us : Z) : validated := (t_year t, t_month t, t_day t, t_hour t, t_minute t, t_second t, us, None).

(* 1969-12-31T23:59:59.750 UTC: format("x") = "-250", which reads back as .250 *)
Definition x_witness : pdt := utc 1969 12 31 23 59 59 750000.
Lemma x_witness_roundtrip :
  format [101;110] x_witness [120] = Ok [45;50;53;48] /\
  roundtrip false [101;110] x_witness [120] = Ok (1969, 12, 31, 23, 59, 59, 250000, None) /\
  roundtrip true [101;110] x_witness [120] = Ok (1969, 12, 31, 23, 59, 59, 250000, None).
Proof. vm_compute. repeat split; reflexivity. Qed.

Lemma x_witness_ok : utc_fields_ok x_witness /\ 0 <= t_micro x_witness < 1000000 /\ -62135596800 <= int_timestamp x_witness < 0.
Proof. vm_compute. repeat split; try reflexivity; discriminate. Qed.

(* the structurally special instants: first and last representable seconds, the epoch, the last day of a century inside a 400-year
   cycle (1899, 2099) and at its end (1999, 2399), leap days of centurial and ordinary leap years, the days around Feb 28 of 1900 *)
Definition special_instants : list pdt :=
  [utc 1 1 1 0 0 0 0; utc 1 1 1 0 0 1 0; utc 9999 12 31 23 59 59 0; utc 9999 12 31 0 0 0 0;
   utc 1969 12 31 23 59 59 0; utc 1970 1 1 0 0 0 0; utc 1970 1 1 0 0 1 0;
   utc 1899 12 31 0 0 0 0; utc 1899 12 31 23 59 59 0; utc 1900 1 1 0 0 0 0;
   utc 2099 12 31 0 0 0 0; utc 2099 12 31 12 34 56 0; utc 2099 12 31 23 59 59 0; utc 2100 1 1 0 0 0 0;
   utc 1999 12 31 23 59 59 0; utc 2000 1 1 0 0 0 0; utc 2399 12 31 23 59 59 0; utc 2400 1 1 0 0 0 0;
   utc 99 12 31 0 0 1 0; utc 1099 12 31 0 0 0 0;
   utc 2000 2 29 0 0 0 0; utc 2000 2 29 23 59 59 0; utc 2024 2 29 12 0 0 0; utc 2400 2 29 23 59 59 0;
   utc 1900 2 28 23 59 59 0; utc 1900 3 1 0 0 0 0; utc 2100 2 28 23 59 59 0; utc 2100 3 1 0 0 0 0;
   utc 2038 1 19 3 14 7 0; utc 2038 1 19 3 14 8 0; utc 1901 12 13 20 45 52 0].

Definition res_eqb (r : result validated) (v : validated) : bool :=
  match r, v with
  | Ok (y, m, d, hh, mi, ss, us, None), (y', m', d', hh', mi', ss', us', None) =>
    (y =? y') && (m =? m') && (d =? d') && (hh =? hh') && (mi =? mi') && (ss =? ss') && (us =? us')
  | _, _ => false
  end.

Definition special_ok (rs : bool) (tok : str) (t : pdt) : bool := res_eqb (roundtrip rs [101;110] t tok) (fields_of t 0).

Lemma special_instants_roundtrip :
  forallb (fun t => special_ok false [88] t && special_ok true [88] t && special_ok false [120] t && special_ok true [120] t) special_instants = true.
Proof. vm_compute. reflexivity. Qed.

Lemma res_eqb_eq r v : res_eqb r v = true -> r = Ok v.
Proof.
  destruct r as [[[[[[[[y m] d] hh] mi] ss] us] [z|]]|e]; destruct v as [[[[[[[y' m'] d'] hh'] mi'] ss'] us'] [z'|]]; cbn [res_eqb]; try discriminate.
  intros H. repeat (apply andb_prop in H; destruct H as [H ?]).
  repeat match goal with E : (_ =? _) = true |- _ => apply Z.eqb_eq in E; subst end. reflexivity.
Qed.

Lemma special_instants_invert rs tok t : In t special_instants -> tok = [88] \/ tok = [120] ->
  roundtrip rs [101;110] t tok = Ok (t_year t, t_month t, t_day t, t_hour t, t_minute t, t_second t, 0, None).
Proof.
  intros Hin Htok. pose proof special_instants_roundtrip as A. rewrite forallb_forall in A. specialize (A t Hin).
  repeat (apply andb_prop in A; destruct A as [A ?]).
  destruct Htok; subst tok; destruct rs; apply res_eqb_eq; assumption.
Qed.
