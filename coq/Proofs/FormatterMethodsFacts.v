(* Proofs/FormatterMethodsFacts.v — C08: the hand model Model/Formatter.v IS the code: the method bodies of Gen/FormatterMethods.v (translated whole
   from /repo's src/pendulum/formatting/formatter.py on every run) equal format_localizable / format_token for every DateTime record, token,
   locale (and every meaning of the recursive self.format call).  The float code of the Z / ZZ tokens (total_seconds() / 60, >= 0, int()) agrees
   with the hand model's integer arithmetic for every utcoffset strictly between -24 h and +24 h (CPython's own bound), checked exhaustively in
   the kernel (172799 offsets).  No axioms. *)
From Coq Require Import ZArith List Bool Lia.
From Coq Require Import Floats.SpecFloat.
From PV Require Import Lib.PyBase Lib.Reflect Spec.Cal Spec.TdFloat Model.FormatterBase Gen.FormatterTables Gen.LocaleTables Model.Formatter
                       Model.FormatterPrims Gen.FormatterMethods Proofs.FormatterOffsetFacts.
Import ListNotations.
Open Scope Z_scope.

Lemma bind_ok_f {A} (r : result A) : bind r (fun x => Ok x) = r.
Proof. destruct r; reflexivity. Qed.

Theorem gen_format_localizable_eq : forall loc t tok, gen_format_localizable_token loc t tok = format_localizable loc t tok.
Proof.
  intros loc t tok. unfold gen_format_localizable_token, gen_format_localizable_token_, format_localizable. cbv zeta.
  unfold T_MMM, T_MMMM, T_dd, T_ddd, T_dddd, T_e, T_Do, T_do, T_Mo, T_Qo, T_wo, T_DDDo, T_eo, T_A.
  repeat match goal with |- context [if str_eqb tok ?l then _ else _] => destruct (str_eqb tok l) end;
    rewrite ?bind_ok_f; try reflexivity.
  - unfold need_int. destruct (l_first_day loc); reflexivity.
  - unfold need_int. destruct (l_first_day loc); reflexivity.
  - destruct (12 <=? q_hour (fq_of t)); reflexivity.
Qed.

Theorem gen_format_token_eq : forall rec loc t tok, -86400 < t_off t < 86400 ->
  gen_format_token rec loc t tok = format_token rec loc t tok.
Proof.
  intros rec loc t tok Hoff. unfold gen_format_token, gen_format_token_, format_token, loc_date_format, dict_get. cbv zeta.
  destruct (mem_str tok date_format_tokens).
  { destruct (match l_date_formats loc with Some tbl => assoc tok tbl | None => None end) as [f|]; [apply bind_ok_f|].
    destruct (assoc tok default_date_formats) as [f|]; [|reflexivity]. cbn [bind]. apply bind_ok_f. }
  destruct (existsb _ localizable_tokens).
  { rewrite bind_ok_f. apply gen_format_localizable_eq. }
  destruct (assoc tok tokens_rules) as [r|]; [apply bind_ok_f|].
  unfold T_ZZ, T_Z. destruct (str_eqb tok [90; 90] || str_eqb tok [90]); [|reflexivity].
  unfold format_offset. destruct (negb (t_has_tz t)); [reflexivity|].
  destruct (offset_float_code (t_off t) Hoff) as [E1 E2]. rewrite E1, E2. cbn [bind].
  destruct (0 <=? t_off t); destruct (str_eqb tok [90]); reflexivity.
Qed.

(* ------------------------------------------------------------------ Formatter.format: one unfolding *)
Lemma render_pieces_ext : forall (f g : str -> result str) ps, (forall tok, f tok = g tok) -> render_pieces f ps = render_pieces g ps.
Proof.
  intros f g ps H. induction ps as [|p ps IH]; [reflexivity|]. cbn [render_pieces]. rewrite IH. destruct p; try reflexivity. rewrite H. reflexivity.
Qed.

Theorem gen_format_step_eq : forall d loc t fmt, -86400 < t_off t < 86400 ->
  format_loc (S d) loc t fmt = gen_format_step (format_loc d loc t) loc t fmt.
Proof.
  intros d loc t fmt H. cbn [format_loc]. unfold gen_format_step. apply render_pieces_ext. intros tok. symmetry. apply gen_format_token_eq. exact H.
Qed.

(* ------------------------------------------------------------------ DateTime._to_string / to_iso8601_string *)
Theorem gen_to_string_eq : forall key locale t, gen_to_string key locale t = to_string key locale t.
Proof.
  intros. unfold gen_to_string, gen_to_string_, to_string. destruct (assoc key named_formats) as [[f|]|]; try reflexivity. apply bind_ok_f.
Qed.

Theorem gen_to_iso8601_string_eq : forall t, assoc [116; 111; 95; 105; 115; 111; 56; 54; 48; 49; 95; 115; 116; 114; 105; 110; 103] string_helpers = Some HIso8601 ->
  gen_to_iso8601_string t = string_helper [116; 111; 95; 105; 115; 111; 56; 54; 48; 49; 95; 115; 116; 114; 105; 110; 103] t.
Proof.
  intros t H. unfold gen_to_iso8601_string, string_helper. rewrite H, gen_to_string_eq. unfold UTC_name, plus0000.
  destruct (to_string _ None t) as [s|e]; [|reflexivity]. cbn [bind]. destruct (t_has_tz t && str_eqb (t_zone t) [85; 84; 67]); reflexivity.
Qed.

Lemma iso8601_helper_entry : assoc [116; 111; 95; 105; 115; 111; 56; 54; 48; 49; 95; 115; 116; 114; 105; 110; 103] string_helpers = Some HIso8601.
Proof. vm_compute. reflexivity. Qed.

Print Assumptions gen_format_localizable_eq.
Print Assumptions gen_format_token_eq.
Print Assumptions gen_format_step_eq.
Print Assumptions gen_to_string_eq.
Print Assumptions gen_to_iso8601_string_eq.
