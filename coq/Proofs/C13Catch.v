(* Proofs/C13Catch.v — C13: the `except OverflowError: raise ParserError` clauses around the duration constructors
   (parsing/iso8601.py::parse_iso8601 and parser.py::_parse).  py_dur_c / rs_dur_c (Model/DurParse.v) are what the callers see and what the
   correspondence runs; py_dur / rs_dur are the code inside the try blocks, about which the other C13 theorems speak.  Here: the
   clause is the outermost step, it changes nothing but OverflowError -> ValueError, and therefore a duration whose exact value
   does not fit a timedelta is REJECTED by both backends (for every digit string), while every other result is untouched. *)
From Coq Require Import ZArith List Bool Lia.
From PV Require Import Lib.PyBase Model.DurParse Model.DurSpec Proofs.C13Int Proofs.C13Main Proofs.C13Facts Proofs.C17Rs.
Import ListNotations.
Open Scope Z_scope.

Lemma py_dur_c_eq s : py_dur_c s = ov_to_ve (py_dur s).
Proof. reflexivity. Qed.

Lemma rs_dur_c_eq s : rs_dur_c s = ov_to_ve (rs_dur s).
Proof.
  unfold rs_dur_c, rs_dur, rs_glue_c. pose proof (rs_raw_ve s) as H. destruct (rs_raw s) as [r|e]; cbn [bind].
  - destruct (rs_glue r) as [xo|e]; [reflexivity|]. destruct e; reflexivity.
  - simpl in H. destruct H as [<-|[]]. reflexivity.
Qed.

(* the clause only ever replaces an OverflowError *)
Lemma ov_to_ve_ok {A} (r : result A) o : r = Ok o -> ov_to_ve r = Ok o.
Proof. intros ->. reflexivity. Qed.
Lemma ov_to_ve_never_overflow {A} (r : result A) : ov_to_ve r <> Raise E_OverflowError.
Proof. destruct r as [|e]; [discriminate|]. destruct e; discriminate. Qed.
Lemma ov_to_ve_other {A} (r : result A) : r <> Raise E_OverflowError -> ov_to_ve r = r.
Proof. destruct r as [|e]; [reflexivity|]. destruct e; try reflexivity. intros H. destruct (H eq_refl). Qed.

(* every string: neither backend lets an OverflowError out of a duration parse *)
Lemma dur_no_overflow s : py_dur_c s <> Raise E_OverflowError /\ rs_dur_c s <> Raise E_OverflowError.
Proof. rewrite py_dur_c_eq, rs_dur_c_eq. split; apply ov_to_ve_never_overflow. Qed.

Section IntComponents.
  Variables (y mo d : ocomp) (t : otime).
  Hypotheses (Hy : owf y) (Hmo : owf mo) (Hd : owf d) (Ht : twf t).

  Let xpy := int_us (oval y) (oval mo) (oval d) (oval (t_h t)) (oval (t_mi t)) (oval (t_s t)).
  Let xrs := int_us (u32 (oval y)) (u32 (oval mo)) (u32 (oval d)) (u32 (oval (t_h t))) (u32 (oval (t_mi t))) (u32 (oval (t_s t))).

  (* pure Python, integer components of any length: more than 999999999 days in total -> rejected; otherwise the exact value *)
  Lemma py_too_large_rejected : 999999999 < xpy / US_PER_DAY -> py_dur_c (render_dur y mo d t) = Raise E_ValueError.
  Proof.
    intros Hr. rewrite py_dur_c_eq, py_int_all by assumption. destruct Ht as [Hh [Hmi Hs]].
    destruct (native_of_exact (oval y) (oval mo) (oval d) (oval (t_h t)) (oval (t_mi t)) (oval (t_s t))) as [_ H];
      try (apply oval_nonneg; assumption).
    cbv zeta in H. unfold xpy in *. rewrite (H Hr). reflexivity.
  Qed.

  Lemma py_in_range_exact : xpy / US_PER_DAY <= 999999999 ->
    exists o, py_dur_c (render_dur y mo d t) = Ok o /\
              exact_obs o (oval y) (oval mo) (spec_num 0 (oval d) (oval (t_h t)) (oval (t_mi t)) (oval (t_s t)) 1 []) (spec_den []).
  Proof.
    intros Hr. rewrite py_dur_c_eq, py_int_all by assumption. destruct Ht as [Hh [Hmi Hs]].
    destruct (native_of_exact (oval y) (oval mo) (oval d) (oval (t_h t)) (oval (t_mi t)) (oval (t_s t))) as [H _];
      try (apply oval_nonneg; assumption).
    cbv zeta in H. unfold xpy in *. destruct (H Hr) as [o [E X]]. exists o. rewrite E. split; [reflexivity|exact X].
  Qed.

  (* compiled backend: the same on the components reduced modulo 2^32 (finding rs-u32-wrap is a different defect) *)
  Hypothesis Hnb : nonbare y mo d t.

  Lemma rs_too_large_rejected : 999999999 < xrs / US_PER_DAY -> rs_dur_c (render_dur y mo d t) = Raise E_ValueError.
  Proof.
    intros Hr. rewrite rs_dur_c_eq, rs_int_all by assumption.
    destruct (native_of_exact (u32 (oval y)) (u32 (oval mo)) (u32 (oval d)) (u32 (oval (t_h t))) (u32 (oval (t_mi t))) (u32 (oval (t_s t)))) as [_ H];
      try (unfold u32; apply Z.mod_pos_bound; reflexivity).
    cbv zeta in H. unfold xrs in *. rewrite (H Hr). reflexivity.
  Qed.

  Lemma rs_in_range_unchanged : xrs / US_PER_DAY <= 999999999 -> rs_dur_c (render_dur y mo d t) = rs_dur (render_dur y mo d t).
  Proof.
    intros Hr. rewrite rs_dur_c_eq. apply ov_to_ve_other. rewrite rs_int_all by assumption.
    destruct (native_of_exact (u32 (oval y)) (u32 (oval mo)) (u32 (oval d)) (u32 (oval (t_h t))) (u32 (oval (t_mi t))) (u32 (oval (t_s t)))) as [H _];
      try (unfold u32; apply Z.mod_pos_bound; reflexivity).
    cbv zeta in H. unfold xrs in *. destruct (H Hr) as [o [E _]]. rewrite E. discriminate.
  Qed.
End IntComponents.

(* the former witnesses: "P99999999999D" is rejected by both backends; "P4294967297D" is rejected by the pure-Python parser
   (the compiled one still wraps to one day: finding rs-u32-wrap) *)
Lemma too_large_rejected_witness : py_dur_c s_big = Raise E_ValueError /\ rs_dur_c s_big = Raise E_ValueError /\
                                   py_dur_c s_wrap = Raise E_ValueError /\ rs_dur_c s_wrap = Ok (0, 0, 1, 0, 0).
Proof. repeat split; vm_compute; reflexivity. Qed.

(* the hypotheses are satisfiable on both sides of the bound: "P1000000000D" is too large, "P999999999D" fits *)
Example too_large_hyps : let d := Some [49;48;48;48;48;48;48;48;48;48] in let d' := Some [57;57;57;57;57;57;57;57;57] in
  owf d /\ owf d' /\ twf None /\ nonbare None None d None /\
  999999999 < int_us 0 0 (oval d) 0 0 0 / US_PER_DAY /\ int_us 0 0 (oval d') 0 0 0 / US_PER_DAY <= 999999999.
Proof. cbv zeta. unfold owf, twf, nonbare, digits. cbn [t_h t_mi t_s owf]. repeat split; try discriminate; try reflexivity; try (right; discriminate); vm_compute; congruence. Qed.
