(* Proofs/C04Cancel.v — calendar-unit arguments that CANCEL each other (C04).
   DateTime.add decides between wall-clock and elapsed-time arithmetic by the PRESENCE of a calendar-unit argument
   (any([years, months, weeks, days])), never by the folded amounts: weeks=1, days=-7 (or years=1, months=-12, or days=1, hours=-24)
   is still a calendar call and moves the time units on the wall clock, followed by the construction-rule normalisation. *)
From Coq Require Import ZArith List Bool Lia ZifyBool.
From PV Require Import Lib.PyBase Spec.Cal Spec.Zone Spec.NativeDT Proofs.CalFacts Proofs.ZoneFacts Proofs.AddDurationFacts.
From PV Require Import Gen.AddDuration Model.TzConvert Model.Duration Model.CalendarArith Proofs.C04Facts.
Import ListNotations.
Open Scope Z_scope.

(* the year/month step depends on its two amounts only through 12*years + months *)
Lemma ym_shift_total W Y M Y' M' : 12 * Y + M = 12 * Y' + M' -> ym_shift W Y M = ym_shift W Y' M'.
Proof. intros H. unfold ym_shift. rewrite H. reflexivity. Qed.

Lemma cal_target_total b W Y M Y' M' T : 12 * Y + M = 12 * Y' + M' -> cal_target b W Y M T = cal_target b W Y' M' T.
Proof. intros H. unfold cal_target. rewrite (ym_shift_total W Y M Y' M' H). reflexivity. Qed.

(* two calendar calls (each names some calendar unit) with the same month total and the same total of the remaining amounts give the same result,
   however the amounts are split over years/months and weeks/days/h/m/s/us *)
Lemma add_calendar_depends_on_totals z fx W f Y M Wk D h m s us Y' M' Wk' D' h' m' s' us' :
  wall_in_range W = true -> any_cal Y M Wk D = true -> any_cal Y' M' Wk' D' = true ->
  12 * Y + M = 12 * Y' + M' ->
  td_total_us (D + 7 * Wk) h m s us = td_total_us (D' + 7 * Wk') h' m' s' us' ->
  dt_add (Aware z fx) W f Y M Wk D h m s us = dt_add (Aware z fx) W f Y' M' Wk' D' h' m' s' us'.
Proof.
  intros Hr H1 H2 Hm Ht. rewrite !dt_add_calendar by assumption.
  rewrite Ht. rewrite (cal_target_total true W Y M Y' M' _ Hm). reflexivity.
Qed.

(* cancelling calendar units: the time units are moved on the WALL clock and the result is normalised by create (default fold 1), zone kept *)
Lemma add_cancelling_wall_clock z fx W f Y M Wk D h m s us :
  wall_in_range W = true -> any_cal Y M Wk D = true -> 12 * Y + M = 0 -> D + 7 * Wk = 0 ->
  dt_add (Aware z fx) W f Y M Wk D h m s us =
  match wall_shift true W (td_total_us 0 h m s us) with
  | Raise e => Raise e
  | Ok W' => create z fx W' true false
  end.
Proof.
  intros Hr Hc Hm Hd. rewrite dt_add_calendar by assumption. rewrite Hd.
  rewrite (cal_target_total true W Y M 0 0 _) by lia.
  unfold cal_target. rewrite ym_shift_zero by exact Hr. reflexivity.
Qed.

Lemma subtract_cancelling_wall_clock z fx W f Y M Wk D h m s us :
  wall_in_range W = true -> any_cal Y M Wk D = true -> 12 * Y + M = 0 -> D + 7 * Wk = 0 ->
  dt_subtract (Aware z fx) W f Y M Wk D h m s us =
  match wall_shift true W (td_total_us 0 (- h) (- m) (- s) (- us)) with
  | Raise e => Raise e
  | Ok W' => create z fx W' true false
  end.
Proof.
  intros Hr Hc Hm Hd. unfold dt_subtract. apply add_cancelling_wall_clock; try assumption; try lia.
  unfold any_cal, nz in *. lia.
Qed.

(* ... and the hypotheses are satisfiable / the distinction is real: Europe/Paris 2013-03-31T01:30+01:00 (one hour and a half before the gap)
   .add(weeks=1, days=-7, hours=2) is 03:30+02:00 (wall clock), .add(hours=2) is 04:30+02:00 (elapsed time);
   the same with years=1, months=-12 and with days=1, hours=-22;  in the overlap of 2013-10-27: 01:30+02:00 .add(weeks=-2, days=14, hours=1) is
   02:30 on the later side (+01:00, two hours of elapsed time), .add(hours=1) is 02:30+02:00 *)
Example cancelling_examples :
  any_cal 0 0 1 (-7) = true /\ 12 * 0 + 0 = 0 /\ -7 + 7 * 1 = 0 /\ wf2_zone paris13 = true /\
  dt_add (Aware paris13 false) (wall_of 2013 3 31 1 30 0 0) false 0 0 1 (-7) 2 0 0 0 = Ok (wall_of 2013 3 31 3 30 0 0, true) /\
  dt_add (Aware paris13 false) (wall_of 2013 3 31 1 30 0 0) false 0 0 0 0 2 0 0 0 = Ok (wall_of 2013 3 31 4 30 0 0, false) /\
  dt_add (Aware paris13 false) (wall_of 2013 3 31 1 30 0 0) false 1 (-12) 0 0 2 0 0 0 = Ok (wall_of 2013 3 31 3 30 0 0, true) /\
  dt_add (Aware paris13 false) (wall_of 2013 3 31 1 30 0 0) false 0 0 0 1 (-22) 0 0 0 = Ok (wall_of 2013 3 31 3 30 0 0, true) /\
  dt_subtract (Aware paris13 false) (wall_of 2013 3 31 1 30 0 0) false 0 0 (-1) 7 (-2) 0 0 0 = Ok (wall_of 2013 3 31 3 30 0 0, true) /\
  dt_add (Aware paris13 false) (wall_of 2013 10 27 1 30 0 0) false 0 0 (-2) 14 1 0 0 0 = Ok (wall_of 2013 10 27 2 30 0 0, true) /\
  dt_add (Aware paris13 false) (wall_of 2013 10 27 1 30 0 0) false 0 0 0 0 1 0 0 0 = Ok (wall_of 2013 10 27 2 30 0 0, false) /\
  off_local paris13 (sec (wall_of 2013 10 27 2 30 0 0)) true = 3600 /\ off_local paris13 (sec (wall_of 2013 10 27 2 30 0 0)) false = 7200.
Proof. repeat split; vm_compute; reflexivity. Qed.
