From Coq Require Import ZArith List Bool Lia ZifyBool.
From PV Require Import Lib.Reflect Lib.PyBase Spec.Cal Proofs.CalFacts.
From PV Require Import Gen.Constants Gen.Helpers Gen.RustConstants Model.RustHelpers Model.PdBase Gen.PreciseDiff Model.RustPreciseDiff Model.PdInterval Proofs.C06Facts.
(* Proofs/C06Spec.v — the translated pure-Python precise_diff satisfies the arithmetic specification pd_spec on ordered
   zero-offset datetime pairs (every year). The proof splits the borrow chain and the month-length branch (640 leaves, lia). *)
Import ListNotations.
Ltac Zify.zify_post_hook ::= Z.to_euclidean_division_equations.
Open Scope Z_scope.

Definition pd_spec (a b : pdt) (r : pdiff) : Prop :=
  let beta := if tod b <? tod a then 1 else 0 in
  let D := p_day b - p_day a - beta in
  let dlm := dim (prev_y (p_year b) (p_month b)) (prev_m (p_month b)) in
  let dimc := dim (p_year b) (p_month b) in
  let dm := 12 * (p_year b - p_year a) + (p_month b - p_month a) in
  0 <= pd_hours r <= 23 /\ 0 <= pd_minutes r <= 59 /\ 0 <= pd_seconds r <= 59 /\ 0 <= pd_microseconds r <= 999999 /\
  ((pd_hours r * 60 + pd_minutes r) * 60 + pd_seconds r) * 1000000 + pd_microseconds r = tod b - tod a + beta * us_per_day /\
  0 <= pd_months r <= 11 /\
  ( (0 <= D /\ pd_days r = D /\ 12 * pd_years r + pd_months r = dm)
  \/ (D < 0 /\ D = dimc - dlm /\ p_day a = dlm /\ pd_days r = 0 /\ 12 * pd_years r + pd_months r = dm)
  \/ (D < 0 /\ ~ (D = dimc - dlm /\ p_day a = dlm) /\ pd_days r = D + Z.max dlm (p_day a) /\ 12 * pd_years r + pd_months r = dm - 1)).

Lemma if_same {A} (c : bool) (x : A) : (if c then x else x) = x. Proof. destruct c; reflexivity. Qed.

Lemma same_date_tod a b : p_year a = p_year b -> p_month a = p_month b -> p_day a = p_day b -> p_wall a < p_wall b -> tod a < tod b.
Proof. intros E1 E2 E3. rewrite !p_wall_split. unfold p_date_ord. rewrite E1, E2, E3. lia. Qed.

Lemma py_pd_spec a b : dt_pair a b -> p_wall a < p_wall b ->
  match py_precise_diff a b with Ok r => pd_spec a b r /\ pd_total_days r = py_day_number (p_year b) (p_month b) (p_day b) - py_day_number (p_year a) (p_month a) (p_day a) | Raise _ => False end.
Proof.
  intros (Wa & Wb & Da & Db & Htz) Hlt.
  destruct Wa as (Va & Ta & Oa). destruct Wb as (Vb & Tb & Ob).
  assert (Aw : p_aware a = p_aware b) by (unfold p_aware; rewrite Da, Db, Htz; reflexivity).
  assert (Ka : p_key a b a = p_wall a) by (apply key_dt; auto).
  assert (Kb : p_key a b b = p_wall b) by (apply key_dt; auto).
  assert (Eq : p_eqb a b = false) by (unfold p_eqb; rewrite Ka, Kb; lia).
  assert (Gt : p_gtb a b = false) by (unfold p_gtb; rewrite Ka, Kb; lia).
  assert (Ua : p_utcoffset a = 0) by (unfold p_utcoffset; rewrite Oa; destruct (p_aware a); reflexivity).
  assert (Ub : p_utcoffset b = 0) by (unfold p_utcoffset; rewrite Ob; destruct (p_aware b); reflexivity).
  pose proof (wall_le_split a b Ta Tb ltac:(lia)) as Hsplit.
  assert (Hlex := fun H => ord_le_lex a b Va Vb H).
  pose proof (same_date_tod a b) as Hsame. specialize (fun e1 e2 e3 => Hsame e1 e2 e3 Hlt).
  apply valid_dateb_true in Va, Vb.
  unfold py_precise_diff. rewrite Eq, Gt.
  unfold tz_is_none, tzinfo_of. cbn [fst snd]. rewrite Aw.
  replace (negb (p_aware b) && negb (negb (p_aware b)) || negb (p_aware b) && negb (negb (p_aware b))) with false by (destruct (p_aware b); reflexivity).
  cbv beta iota zeta. rewrite Ua, Ub. cbn [Z.eqb negb]. rewrite ?Da, ?Db.
  match goal with |- context [if tz_truthy ?x && tz_truthy ?y then ?u else ?w] => set (t := if tz_truthy x && tz_truthy y then u else w) end.
  clearbody t. destruct t as [[tn1 tn2] v]. cbv beta iota zeta. rewrite if_same.
  assert (E1 : tidx (tidx2 C_DAYS_PER_MONTHS (Z.b2z (py_is_leap (p_year b)))) (p_month b) = dim (p_year b) (p_month b)) by (apply dpm_dim; lia).
  assert (E2 : tidx (tidx2 C_DAYS_PER_MONTHS (Z.b2z (py_is_leap (p_year b - 1)))) 12 = dim (p_year b - 1) 12) by (apply dpm_dim; lia).
  assert (E3 : p_month b <> 1 -> tidx (tidx2 C_DAYS_PER_MONTHS (Z.b2z (py_is_leap (p_year b)))) (p_month b - 1) = dim (p_year b) (p_month b - 1)) by (intros; apply dpm_dim; lia).
  pose proof (dim_bounds (p_year b) (p_month b)) as B1. pose proof (dim_bounds (p_year b - 1) 12) as B2. pose proof (dim_bounds (p_year b) (p_month b - 1)) as B3.
  pose proof (dim_bounds (p_year a) (p_month a)) as B4.
  unfold pd_spec, prev_y, prev_m. unfold wf_time in Ta, Tb. unfold tod in *. unfold us_per_day in *.
  repeat (match goal with |- context [if ?c then _ else _] => destruct c eqn:? end; cbv beta iota zeta).
  all: cbn [pd_years pd_months pd_days pd_hours pd_minutes pd_seconds pd_microseconds pd_total_days].
  all: try (rewrite E3 in * by lia); rewrite ?E1, ?E2 in *.

  all: lia.
Qed.
