(* Proofs/C09Facts.v — Duration normalisation (C09).
   Layout:
     1. unconditional facts about the model (native value, years/months, signature, lazy h/m/s, totals by definition);
     2. the integer skeleton of the "intuitive normalisation" (lia);
     3. Section DurationExact: theorems that need the float pipeline to be exact on D9.  That fact (Hsplit) is a Section
        Hypothesis, NOT an axiom: after the section every lemma carries it as an explicit premise (`float_split_exact_on_D9`),
        the theorems are named *_partial, and the premise is validated on every check by correspondence + exact-integer oracle;
     4. closed float facts checked by computation: instances of the premise (non-vacuity) and the *_refuted boundary witnesses. *)
From Coq Require Import ZArith List Bool Lia ZifyBool.
From Coq Require Import Floats.SpecFloat.
From PV Require Import Lib.PyBase Lib.Reflect Spec.TdFloat Gen.Constants Model.Duration Proofs.TdFloatFacts.
Import ListNotations.
Open Scope Z_scope.
Ltac Zify.zify_post_hook ::= Z.to_euclidean_division_equations.

Lemma bind_ok : forall A B (r : result A) (f : A -> result B) b,
  bind r f = Ok b -> exists a, r = Ok a /\ f a = Ok b.
Proof. intros A B [a|e] f b H; [exists a; auto | discriminate]. Qed.

(* ------------------------------------------------------------------ 1. unconditional *)
Definition YM (years months : Z) : Z := years * 365 + months * 30.

Lemma duration_new_inv : forall days seconds us ms mi h w years months d,
  duration_new days seconds us ms mi h w years months = Ok d ->
  exists N total m micro it,
    td_of_int_args (days + YM years months) seconds us ms mi h w = Ok N /\
    float_pipeline N (YM years months * 86400) = Ok (total, (m, micro, it)) /\
    d = mkdur N false total years months (Z.abs (Z.abs it / 86400 * m) / 7 * m) (Z.abs it / 86400 * m)
              (Z.abs (Z.abs it / 86400 * m) mod 7 * m) (Z.abs it mod 86400 * m) micro
              [years; months; w; days; h; mi; seconds; us + ms * 1000].
Proof.
  intros until d. unfold duration_new. intro H.
  apply bind_ok in H. destruct H as [N [H1 H]].
  apply bind_ok in H. destruct H as [[total [[m micro] it]] [H2 H]].
  inversion H; subst; clear H.
  exists N, total, m, micro, it. repeat split; assumption.
Qed.

Lemma native_value : forall days seconds us ms mi h w years months d,
  duration_new days seconds us ms mi h w years months = Ok d ->
  td_of_int_args (days + (years * 365 + months * 30)) seconds us ms mi h w = Ok (d_N d).
Proof.
  intros until d. intro H. apply duration_new_inv in H.
  destruct H as (N & total & m & micro & it & H1 & _ & ->). exact H1.
Qed.

Lemma years_months_signature : forall days seconds us ms mi h w years months d,
  duration_new days seconds us ms mi h w years months = Ok d ->
  d_years d = years /\ d_months d = months /\ d_abs d = false /\
  d_sig d = [years; months; w; days; h; mi; seconds; us + ms * 1000].
Proof.
  intros until d. intro H. apply duration_new_inv in H.
  destruct H as (N & total & m & micro & it & _ & _ & ->). repeat split.
Qed.

Lemma split_total_m : forall x m micro it, split_total x = Ok (m, micro, it) -> m = 1 \/ m = -1.
Proof.
  intros x m micro it H. unfold split_total in H.
  apply bind_ok in H. destruct H as [fr [_ H]].
  apply bind_ok in H. destruct H as [mi [_ H]].
  apply bind_ok in H. destruct H as [i [_ H]].
  inversion H. destruct (flt x f_zero); auto.
Qed.

Lemma float_pipeline_m : forall N Y t m micro it, float_pipeline N Y = Ok (t, (m, micro, it)) -> m = 1 \/ m = -1.
Proof.
  intros N Y t m micro it H. unfold float_pipeline in H.
  apply bind_ok in H. destruct H as [fy [_ H]].
  apply bind_ok in H. destruct H as [[[m' mi'] it'] [H1 H]].
  inversion H; subst. eapply split_total_m; eauto.
Qed.

(* the lazily derived hours / minutes / remaining_seconds always decompose _seconds, whatever the float part did *)
Lemma hms_decompose : forall d, Z.abs (d_seconds d) < 86400 ->
  dur_hours d * 3600 + dur_minutes d * 60 + dur_remaining_seconds d = d_seconds d
  /\ Z.abs (dur_hours d) < 24 /\ Z.abs (dur_minutes d) < 60 /\ Z.abs (dur_remaining_seconds d) < 60
  /\ (0 <= d_seconds d -> 0 <= dur_hours d /\ 0 <= dur_minutes d /\ 0 <= dur_remaining_seconds d)
  /\ (d_seconds d <= 0 -> dur_hours d <= 0 /\ dur_minutes d <= 0 /\ dur_remaining_seconds d <= 0).
Proof.
  intros d Hs. unfold dur_hours, dur_minutes, dur_remaining_seconds, d_sign.
  set (s := d_seconds d) in *.
  destruct (s <? 0) eqn:E1; destruct (3600 <=? Z.abs s) eqn:E2; destruct (60 <=? Z.abs s) eqn:E3; lia.
Qed.

(* the stored day/second split is internally consistent for EVERY constructed Duration (no float premise) *)
Lemma stored_fields_consistent : forall days seconds us ms mi h w years months d,
  duration_new days seconds us ms mi h w years months = Ok d ->
  Z.abs (d_seconds d) < 86400 /\ Z.abs (d_rdays d) < 7 /\ d_weeks d * 7 + d_rdays d = d_days d
  /\ (0 <= d_days d -> 0 <= d_weeks d /\ 0 <= d_rdays d) /\ (d_days d <= 0 -> d_weeks d <= 0 /\ d_rdays d <= 0).
Proof.
  intros until d. intro H. apply duration_new_inv in H.
  destruct H as (N & total & m & micro & it & _ & H2 & ->).
  apply float_pipeline_m in H2. cbn [d_seconds d_rdays d_weeks d_days].
  destruct H2; subst m; lia.
Qed.

(* total_*() and in_*() are, by definition of the code, functions of total_seconds() *)
Lemma totals_by_definition : forall d,
  dur_total_minutes d = fdiv (dur_total_seconds d) (sf_of_Z 60) /\
  dur_total_hours d = fdiv (dur_total_seconds d) (sf_of_Z 3600) /\
  dur_total_days d = fdiv (dur_total_seconds d) (sf_of_Z 86400) /\
  dur_total_weeks d = fdiv (fdiv (dur_total_seconds d) (sf_of_Z 86400)) (sf_of_Z 7) /\
  dur_in_seconds d = py_int_trunc (dur_total_seconds d) /\ dur_in_minutes d = py_int_trunc (dur_total_minutes d) /\
  dur_in_hours d = py_int_trunc (dur_total_hours d) /\ dur_in_days d = py_int_trunc (dur_total_days d) /\
  dur_in_weeks d = py_int_trunc (dur_total_weeks d) /\
  (d_abs d = false -> dur_total_seconds d = total_seconds (d_N d)).
Proof. intro d. repeat split. intro H. unfold dur_total_seconds. rewrite H. reflexivity. Qed.

(* ------------------------------------------------------------------ 2. integer skeleton *)
Definition sgn1 (R : Z) : Z := if R <? 0 then -1 else 1.
Definition it_of (R : Z) : Z := Z.quot R 1000000.
Definition micro_of (R : Z) : Z := Z.rem R 1000000.
Definition secs_of (R : Z) : Z := Z.abs (it_of R) mod 86400 * sgn1 R.
Definition days_of (R : Z) : Z := Z.abs (it_of R) / 86400 * sgn1 R.
Definition weeks_of (R : Z) : Z := Z.abs (days_of R) / 7 * sgn1 R.
Definition rdays_of (R : Z) : Z := Z.abs (days_of R) mod 7 * sgn1 R.

(* what the constructor stores when the float part is exact *)
Definition exact_dur (N : Z) (total : sf) (years months : Z) (sig : list Z) : dur :=
  let R := N - YM years months * 86400000000 in
  mkdur N false total years months (weeks_of R) (days_of R) (rdays_of R) (secs_of R) (micro_of R) sig.

Lemma skeleton_seconds : forall R,
  (days_of R * 86400 + secs_of R) * 1000000 + micro_of R = R
  /\ Z.abs (secs_of R) < 86400 /\ Z.abs (micro_of R) < 1000000
  /\ (0 <= R -> 0 <= days_of R /\ 0 <= secs_of R /\ 0 <= micro_of R)
  /\ (R <= 0 -> days_of R <= 0 /\ secs_of R <= 0 /\ micro_of R <= 0).
Proof.
  intro R. unfold days_of, secs_of, micro_of, it_of, sgn1.
  destruct (R <? 0) eqn:E; lia.
Qed.

Lemma skeleton_days : forall R,
  weeks_of R * 7 + rdays_of R = days_of R /\ Z.abs (rdays_of R) < 7
  /\ (0 <= R -> 0 <= weeks_of R /\ 0 <= rdays_of R) /\ (R <= 0 -> weeks_of R <= 0 /\ rdays_of R <= 0).
Proof.
  intro R. pose proof (skeleton_seconds R) as (_ & _ & _ & Hp & Hn).
  unfold weeks_of, rdays_of, sgn1 in *. destruct (R <? 0) eqn:E; lia.
Qed.

(* the six public components of a Duration whose stored fields are the exact ones *)
Definition comp_weeks (d : dur) := d_weeks d.
Definition comp_sum (d : dur) : Z :=
  ((((d_weeks d * 7 + d_rdays d) * 24 + dur_hours d) * 60 + dur_minutes d) * 60 + dur_remaining_seconds d) * 1000000 + d_micro d.

Lemma exact_components : forall N total years months sig,
  let R := N - YM years months * 86400000000 in
  let d := exact_dur N total years months sig in
  comp_sum d = R
  /\ Z.abs (d_rdays d) < 7 /\ Z.abs (dur_hours d) < 24 /\ Z.abs (dur_minutes d) < 60
  /\ Z.abs (dur_remaining_seconds d) < 60 /\ Z.abs (d_micro d) < 1000000
  /\ (0 <= R -> 0 <= d_weeks d /\ 0 <= d_rdays d /\ 0 <= dur_hours d /\ 0 <= dur_minutes d /\ 0 <= dur_remaining_seconds d /\ 0 <= d_micro d)
  /\ (R <= 0 -> d_weeks d <= 0 /\ d_rdays d <= 0 /\ dur_hours d <= 0 /\ dur_minutes d <= 0 /\ dur_remaining_seconds d <= 0 /\ d_micro d <= 0).
Proof.
  intros N total years months sig R d.
  pose proof (skeleton_seconds R) as (S1 & S2 & S3 & S4 & S5).
  pose proof (skeleton_days R) as (D1 & D2 & D3 & D4).
  assert (Hs : Z.abs (d_seconds d) < 86400) by exact S2.
  pose proof (hms_decompose d Hs) as (H1 & H2 & H3 & H4 & H5 & H6).
  unfold comp_sum. subst d. unfold exact_dur in *. fold R in H1, H2, H3, H4, H5, H6 |- *.
  cbn [d_weeks d_rdays d_micro d_seconds] in *.
  repeat split; try lia.
Qed.

(* ------------------------------------------------------------------ 3. theorems that need the float pipeline to be exact *)
Definition B33 : Z := 8589934592000000.   (* 2^33 * 10^6 *)
Definition B32 : Z := 4294967296000000.   (* 2^32 * 10^6 *)

(* D9: N = native microseconds (years/months included), Y = (years*365 + months*30) * 86400 seconds *)
Definition D9 (N Y : Z) : Prop :=
  (Y = 0 /\ Z.abs N < B33) \/ (Z.abs N < B32 /\ Z.abs (N - Y * 1000000) < B32).

Definition split_exact (N Y : Z) : Prop :=
  let R := N - Y * 1000000 in
  exists total, float_pipeline N Y = Ok (total, (sgn1 R, micro_of R, it_of R)).

Definition float_split_exact_on_D9 : Prop := forall N Y, D9 N Y -> split_exact N Y.

Section DurationExact.
  Hypothesis Hsplit : float_split_exact_on_D9.

  Lemma duration_new_exact_partial : forall days seconds us ms mi h w years months N,
    td_of_int_args (days + YM years months) seconds us ms mi h w = Ok N ->
    D9 N (YM years months * 86400) ->
    exists total, duration_new days seconds us ms mi h w years months =
                  Ok (exact_dur N total years months [years; months; w; days; h; mi; seconds; us + ms * 1000]).
  Proof.
    intros until N. intros HN HD.
    destruct (Hsplit _ _ HD) as [total Ht].
    exists total. unfold duration_new. fold (YM years months). unfold DAYS_PER_Y, DAYS_PER_M, YM in *.
    rewrite HN. cbn [bind]. change C_SECONDS_PER_DAY with 86400. rewrite Ht. cbn [bind].
    unfold exact_dur, weeks_of, rdays_of, days_of, secs_of, YM.
    replace ((years * 365 + months * 30) * 86400 * 1000000) with ((years * 365 + months * 30) * 86400000000) by ring.
    reflexivity.
  Qed.

  (* sign, canonical ranges and exact sum of the public components *)
  Lemma components_partial : forall days seconds us ms mi h w years months d,
    duration_new days seconds us ms mi h w years months = Ok d ->
    let R := d_N d - YM years months * 86400000000 in
    D9 (d_N d) (YM years months * 86400) ->
    comp_sum d = R
    /\ Z.abs (d_rdays d) < 7 /\ Z.abs (dur_hours d) < 24 /\ Z.abs (dur_minutes d) < 60
    /\ Z.abs (dur_remaining_seconds d) < 60 /\ Z.abs (d_micro d) < 1000000
    /\ (0 <= R -> 0 <= d_weeks d /\ 0 <= d_rdays d /\ 0 <= dur_hours d /\ 0 <= dur_minutes d /\ 0 <= dur_remaining_seconds d /\ 0 <= d_micro d)
    /\ (R <= 0 -> d_weeks d <= 0 /\ d_rdays d <= 0 /\ dur_hours d <= 0 /\ dur_minutes d <= 0 /\ dur_remaining_seconds d <= 0 /\ d_micro d <= 0).
  Proof.
    intros until d. intros H R HD.
    pose proof (native_value _ _ _ _ _ _ _ _ _ _ H) as HN. fold (YM years months) in HN.
    destruct (duration_new_exact_partial _ _ _ _ _ _ _ _ _ _ HN HD) as [total E].
    rewrite E in H. inversion H as [Hd]. subst R. rewrite <- Hd.
    cbn [d_N exact_dur]. exact (exact_components (d_N d) total years months _).
  Qed.

  (* rebuilding from the components: same native value, same stored fields, same float total *)
  Lemma rebuild_partial : forall days seconds us ms mi h w years months d,
    duration_new days seconds us ms mi h w years months = Ok d ->
    D9 (d_N d) (YM years months * 86400) ->
    exists d', duration_rebuild d = Ok d'
      /\ d_N d' = d_N d /\ d_total d' = d_total d /\ d_years d' = d_years d /\ d_months d' = d_months d
      /\ d_weeks d' = d_weeks d /\ d_days d' = d_days d /\ d_rdays d' = d_rdays d /\ d_seconds d' = d_seconds d /\ d_micro d' = d_micro d.
  Proof.
    intros until d. intros H HD.
    pose proof (native_value _ _ _ _ _ _ _ _ _ _ H) as HN. fold (YM years months) in HN.
    destruct (duration_new_exact_partial _ _ _ _ _ _ _ _ _ _ HN HD) as [total E].
    pose proof (components_partial _ _ _ _ _ _ _ _ _ _ H HD) as (Hsum & _).
    rewrite E in H. injection H as Hd.
    set (N := d_N d) in *.
    pose proof (td_of_int_args_spec _ _ _ _ _ _ _ _ HN) as [_ Hrange].
    (* the rebuilt arguments have the same exact microsecond count *)
    assert (HN' : td_of_int_args (d_rdays d + YM (d_years d) (d_months d)) (dur_remaining_seconds d) (d_micro d) 0
                                 (dur_minutes d) (dur_hours d) (d_weeks d) = Ok N).
    { assert (Ey : d_years d = years) by (rewrite <- Hd; reflexivity).
      assert (Em : d_months d = months) by (rewrite <- Hd; reflexivity).
      rewrite Ey, Em.
      pose proof (td_of_int_args_ok (d_rdays d + YM years months) (dur_remaining_seconds d) (d_micro d) 0
                                    (dur_minutes d) (dur_hours d) (d_weeks d)) as K.
      cbv zeta in K.
      replace (((((d_weeks d * 7 + (d_rdays d + YM years months)) * 24 + dur_hours d) * 60 + dur_minutes d) * 60 +
                dur_remaining_seconds d) * 1000000 + 0 * 1000 + d_micro d) with N in K
        by (unfold comp_sum in Hsum; lia).
      exact (K Hrange). }
    assert (HD' : D9 N (YM (d_years d) (d_months d) * 86400)).
    { rewrite <- Hd. cbn [d_years d_months exact_dur]. exact HD. }
    destruct (duration_new_exact_partial _ _ _ _ _ _ _ _ _ _ HN' HD') as [total' E'].
    eexists. split; [unfold duration_rebuild; exact E'|].
    (* both pipelines are the same function of (N, Y): the totals coincide *)
    assert (Et : total' = total).
    { destruct (Hsplit _ _ HD) as [t1 H1].
      assert (Ey : d_years d = years) by (rewrite <- Hd; reflexivity).
      assert (Em : d_months d = months) by (rewrite <- Hd; reflexivity).
      unfold duration_new in E, E'. fold (YM years months) in E. rewrite Ey, Em in E'. fold (YM years months) in E'.
      unfold DAYS_PER_Y, DAYS_PER_M in E, E'. fold (YM years months) in E, E'.
      rewrite HN in E. rewrite Ey, Em in HN'. rewrite HN' in E'. cbn [bind] in E, E'.
      change C_SECONDS_PER_DAY with 86400 in E, E'. rewrite H1 in E, E'. cbn [bind] in E, E'.
      inversion E. inversion E'. congruence. }
    rewrite <- Hd. cbn. rewrite Et. repeat split.
  Qed.

  (* in_seconds() is the exact truncation of the native value *)
  Lemma in_seconds_partial : forall d, d_abs d = false -> Z.abs (d_N d) < B33 ->
    dur_in_seconds d = Ok (Z.quot (d_N d) 1000000).
  Proof.
    intros d Ha Hb. unfold dur_in_seconds, dur_total_seconds. rewrite Ha.
    assert (HD : D9 (d_N d) 0) by (left; split; [reflexivity | exact Hb]).
    destruct (Hsplit _ _ HD) as [total Ht].
    unfold float_pipeline in Ht. change (py_float_of_int 0) with (Ok (S754_zero false) : result sf) in Ht.
    cbn [bind] in Ht. rewrite fsub_zero_r in Ht.
    apply bind_ok in Ht. destruct Ht as [[[m mi] it] [Hs Ht]]. inversion Ht; subst; clear Ht.
    unfold split_total in Hs.
    apply bind_ok in Hs. destruct Hs as [fr [_ Hs]].
    apply bind_ok in Hs. destruct Hs as [mi' [_ Hs]].
    apply bind_ok in Hs. destruct Hs as [it' [Hi Hs]].
    inversion Hs; subst. rewrite Hi. unfold it_of. f_equal. f_equal. lia.
  Qed.

  (* AbsoluteDuration: non-negative components of |N| (N excludes years/months), years/months by absolute value *)
  Lemma absolute_duration_partial : forall days seconds us ms mi h w years months d,
    absolute_duration_new days seconds us ms mi h w years months = Ok d ->
    Z.abs (d_N d) < B33 ->
    td_of_int_args days seconds us ms mi h w = Ok (d_N d)
    /\ d_years d = Z.abs years /\ d_months d = Z.abs months
    /\ d_micro d = Z.abs (d_N d) mod 1000000
    /\ d_seconds d = Z.abs (d_N d) / 1000000 mod 86400
    /\ d_weeks d * 7 + d_rdays d = Z.abs (d_N d) / 86400000000 /\ 0 <= d_rdays d < 7 /\ 0 <= d_weeks d
    /\ comp_sum d = Z.abs (d_N d)
    /\ dur_total_seconds d = total_seconds (Z.abs (d_N d)).
  Proof.
    intros until d. intros H Hb. unfold absolute_duration_new in H.
    apply bind_ok in H. destruct H as [N [HN H]].
    apply bind_ok in H. destruct H as [fr [Hfr H]].
    apply bind_ok in H. destruct H as [micro [Hmi H]].
    apply bind_ok in H. destruct H as [it [Hit H]].
    inversion H as [Hd]. clear H.
    assert (EN : d_N d = N) by (rewrite <- Hd; reflexivity). rewrite EN in *.
    assert (HD : D9 (Z.abs N) 0) by (left; split; [reflexivity | lia]).
    destruct (Hsplit _ _ HD) as [total Ht].
    unfold float_pipeline in Ht. change (py_float_of_int 0) with (Ok (S754_zero false) : result sf) in Ht.
    cbn [bind] in Ht. rewrite fsub_zero_r in Ht.
    apply bind_ok in Ht. destruct Ht as [[[m mi'] it'] [Hs Ht]]. inversion Ht; subst total m mi' it'; clear Ht.
    rewrite total_seconds_abs in Hfr, Hit.
    unfold split_total in Hs.
    assert (Hm : flt (total_seconds (Z.abs N)) f_zero = false)
      by (rewrite <- total_seconds_abs; apply flt_abs_zero).
    rewrite Hm in Hs. rewrite Hfr in Hs. cbn [bind] in Hs. rewrite Hmi in Hs. cbn [bind] in Hs.
    rewrite Hit in Hs. cbn [bind] in Hs. injection Hs as Hsg Hmicro Hitv.
    unfold micro_of, it_of in *. replace (Z.abs N - 0 * 1000000) with (Z.abs N) in * by lia.
    assert (Emicro : micro = Z.abs N mod 1000000) by lia.
    assert (Eit : it = Z.abs N / 1000000) by lia.
    assert (Hsec : Z.abs (d_seconds d) < 86400).
    { rewrite <- Hd. cbn [d_seconds]. change C_SECONDS_PER_DAY with 86400. lia. }
    pose proof (hms_decompose d Hsec) as (H1 & H2 & H3 & H4 & H5 & H6).
    unfold comp_sum. rewrite <- Hd in *. cbn [d_N d_years d_months d_micro d_seconds d_weeks d_rdays] in *.
    change C_SECONDS_PER_DAY with 86400 in *.
    split; [assumption|]. split; [reflexivity|]. split; [reflexivity|]. split; [lia|]. split; [lia|].
    split; [lia|]. split; [lia|]. split; [lia|]. split; [lia|].
    unfold dur_total_seconds. cbn [d_abs d_total]. apply total_seconds_abs.
  Qed.
End DurationExact.

(* ------------------------------------------------------------------ 4. closed float facts, by computation *)
Definition split_exactb (N Y : Z) : bool :=
  let R := N - Y * 1000000 in
  match float_pipeline N Y with
  | Ok (_, (m, micro, it)) => (m =? sgn1 R) && (micro =? micro_of R) && (it =? it_of R)
  | Raise _ => false
  end.

Lemma split_exactb_spec : forall N Y, split_exactb N Y = true -> split_exact N Y.
Proof.
  intros N Y. unfold split_exactb, split_exact.
  destruct (float_pipeline N Y) as [[total [[m micro] it]]|e]; [|discriminate].
  intro H. exists total.
  apply andb_prop in H. destruct H as [H H3]. apply andb_prop in H. destruct H as [H1 H2].
  apply Z.eqb_eq in H1, H2, H3. subst. reflexivity.
Qed.

(* the round trip of DESIGN 3.3 (Hrt) as a decision procedure, for the instances below *)
Definition roundtripb (N : Z) : bool :=
  match td_of_float_seconds (total_seconds N) with Ok M => M =? N | Raise _ => false end.

(* instances of the premise: every microsecond count in -2000..2000 (sub-second, both signs, zero) ... *)
Lemma split_exact_small : forall N, -2000 <= N <= 2000 -> split_exact N 0 /\ roundtripb N = true.
Proof.
  intros N HN.
  assert (H : forall_range (fun n => split_exactb n 0 && roundtripb n) (-2000) 2000 = true) by (vm_compute; reflexivity).
  pose proof (forall_range_spec _ _ _ H N HN) as K. cbv beta in K. apply andb_prop in K. destruct K as [K1 K2].
  split; [apply split_exactb_spec; exact K1 | exact K2].
Qed.

(* ... and the neighbourhoods of 2^k seconds up to the border of D9, with and without a year/month part *)
Definition border_points : list (Z * Z) :=
  flat_map (fun k => flat_map (fun j => [(2 ^ k * 1000000 + j, 0); (- (2 ^ k * 1000000) + j, 0);
                                         (2 ^ k * 1000000 + j - 31536000000000, - 31536000); (j + 2592000000000, 2592000)])
                              [-2; -1; 0; 1; 2; 499999; 500000; 999999])
           [0; 1; 5; 10; 16; 20; 21; 22; 23; 24; 25; 26; 27; 28; 29; 30; 31].

Lemma split_exact_borders : Forall (fun p => split_exact (fst p) (snd p)) border_points.
Proof.
  assert (H : forallb (fun p => split_exactb (fst p) (snd p)) border_points = true) by (vm_compute; reflexivity).
  rewrite forallb_forall in H. apply Forall_forall. intros p Hp. apply split_exactb_spec. auto.
Qed.

Lemma split_exact_top_of_D9 :
  split_exact (B33 - 1) 0 /\ split_exact (1 - B33) 0 /\ split_exact (B32 - 1) 0 /\
  split_exact (B32 - 1 - 31536000000000) (- 31536000) /\ split_exact (31536000000000 - B32 + 1) 31536000.
Proof. repeat split; apply split_exactb_spec; vm_compute; reflexivity. Qed.

(* boundary of the claim: outside D9 the float total does not resolve a microsecond.
   Duration(years=1000, microseconds=1).microseconds == 0 *)
Lemma microsecond_resolution_refuted :
  exists d, duration_new 0 0 1 0 0 0 0 1000 0 = Ok d /\ d_micro d = 0 /\ comp_sum d <> d_N d - YM 1000 0 * 86400000000.
Proof. eexists. split; [vm_compute; reflexivity|]. split; [reflexivity | vm_compute; discriminate]. Qed.

(* ... and D9 cannot be widened to 2^33 s when years/months are present: the subtraction of the year/month seconds rounds a second time.
   Duration(years=29, months=21, days=-59098, minutes=851846, milliseconds=364860): components sum to R + 1 us although |N|, |R| < 2^33 s *)
Lemma ym_band_refuted :
  exists d, duration_new (-59098) 0 0 364860 851846 0 0 29 21 = Ok d
    /\ Z.abs (d_N d) < B33 /\ Z.abs (d_N d - YM 29 21 * 86400000000) < B33
    /\ comp_sum d <> d_N d - YM 29 21 * 86400000000.
Proof. eexists. split; [vm_compute; reflexivity|]. vm_compute. repeat split; congruence. Qed.

Lemma float_split_not_exact_everywhere : ~ (forall N Y, split_exact N Y).
Proof.
  intro H. destruct (H 31536000000000001 31536000000) as [t Ht]. vm_compute in Ht. discriminate.
Qed.

(* Hrt fails just beyond 2^33 s (deviation of one microsecond) *)
Lemma roundtrip_beyond_2_33_refuted : exists N, B33 <= N /\ roundtripb N = false.
Proof. exists 8589934592000001. split; [unfold B33; lia | vm_compute; reflexivity]. Qed.

Example D9_inhabited : D9 (-1500000) 0 /\ D9 (86400000000 * 400 + 1) (365 * 86400) /\ ~ D9 31536000000000001 31536000000.
Proof. unfold D9, B33, B32. repeat split; lia. Qed.
