(* Proofs/C13Py.v — C13: the pure-Python parser on integer-component durations, universally over digit strings. *)
From Coq Require Import ZArith List Bool Lia Floats.SpecFloat.
From PV Require Import Lib.PyBase Gen.Constants Model.DurParse Model.DurSpec Proofs.C13Int.
Import ListNotations.
Open Scope Z_scope.

Lemma span_digits_app ds : forall r, forallb is_digit ds = true -> nodigit_head r -> span_digits (ds ++ r) = (ds, r).
Proof.
  induction ds as [|c ds IH]; intros r Hd Hr.
  - cbn [app]. destruct r as [|c r]; cbn [span_digits]; [reflexivity|]. cbn in Hr. rewrite Hr. reflexivity.
  - cbn [forallb] in Hd. apply andb_true_iff in Hd. destruct Hd as [Hc Hd].
    cbn [app span_digits]. rewrite Hc. rewrite (IH r Hd Hr). reflexivity.
Qed.

Lemma scan_num_tok ds c r : digits ds -> desig c -> scan_num (ds ++ c :: r) = Some (ds, None, c :: r).
Proof.
  intros [Hne Hd] [Hc1 Hc2]. unfold scan_num. rewrite (span_digits_app ds (c :: r) Hd Hc1).
  destruct ds; [congruence|]. cbn [is_nil]. rewrite Hc2. reflexivity.
Qed.

Lemma try_tok_tok x n ds c r : digits ds -> desig c ->
  try_tok x n (ds ++ c :: r) =
  if c =? x then (Some (mk_tok ds None (n - Z.of_nat (length (ds ++ c :: r)))), r) else (None, ds ++ c :: r).
Proof. intros Hd Hc. unfold try_tok. rewrite (scan_num_tok ds c r Hd Hc). reflexivity. Qed.

Lemma try_tok_nodigit x n c r : is_digit c = false -> try_tok x n (c :: r) = (None, c :: r).
Proof. intros H. unfold try_tok, scan_num. cbn [span_digits]. rewrite H. reflexivity. Qed.

Lemma try_tok_nil x n : try_tok x n [] = (None, []).
Proof. reflexivity. Qed.

Definition py_int_args (y mo d h mi s : option (list Z)) : pyargs :=
  mk_pyargs (oval y) (oval mo) 0 (oval d) (NInt (oval h)) (NInt (oval mi)) (NInt (oval s)) 0.

Ltac side := first [assumption | apply desig_Y | apply desig_M | apply desig_D | apply desig_H | apply desig_S | reflexivity].

Ltac step_try :=
  first [ rewrite try_tok_tok by side; cbn [Z.eqb Pos.eqb c_W c_Y c_M c_D c_H c_S c_T]; cbv beta iota zeta
        | rewrite try_tok_nodigit by reflexivity; cbv beta iota zeta
        | rewrite try_tok_nil; cbv beta iota zeta
        | progress (cbn [Z.eqb Pos.eqb c_W c_Y c_M c_D c_H c_S c_T]; cbv beta iota zeta) ].

Ltac norm_string :=
  unfold render_dur, date_toks, time_toks, otok; cbn [app]; rewrite ?render_toks_cons; cbn [render_toks flat_map app];
  rewrite ?app_nil_r; repeat (progress (rewrite <- ?app_assoc, <- ?app_comm_cons)); cbn [app].

(* ------------------------------------------------------------------ _parse_iso8601_duration on a match without fractions *)
Definition tint (o : option tok) : Z := match o with Some t => dval (t_int t) | None => 0 end.
Definition nofrac (o : option tok) : Prop := match o with Some t => t_frac t = None | None => True end.
Definition ord3 (a b c : option tok) : bool :=
  let s1 := tok_start a (-3) in let s2 := tok_start b (s1 + 1) in let s3 := tok_start c (s2 + 1) in (s1 <? s2) && (s2 <? s3).

Lemma py_args_int m :
  g_weeks m = None -> nofrac (g_years m) -> nofrac (g_months m) -> nofrac (g_days m) ->
  nofrac (g_hours m) -> nofrac (g_minutes m) -> nofrac (g_seconds m) ->
  ord3 (g_years m) (g_months m) (g_days m) = true -> ord3 (g_hours m) (g_minutes m) (g_seconds m) = true ->
  py_args m = Ok (mk_pyargs (tint (g_years m)) (tint (g_months m)) 0 (tint (g_days m))
                            (NInt (if g_hms m then tint (g_hours m) else 0))
                            (NInt (if g_hms m then tint (g_minutes m) else 0))
                            (NInt (if g_hms m then tint (g_seconds m) else 0)) 0).
Proof.
  destruct m as [w y mo d hms h mi s]. cbn [g_weeks g_years g_months g_days g_hms g_hours g_minutes g_seconds].
  intros Hw Hy Hmo Hd Hh Hmi Hs O1 O2. subst w. unfold py_args.
  cbn [g_weeks g_years g_months g_days g_hms g_hours g_minutes g_seconds bind].
  unfold ord3 in O1, O2. cbv zeta in O1, O2. rewrite O1, O2. cbn [negb].
  destruct y as [[yi yf ys]|], mo as [[moi mof mos]|], d as [[di df dst]|];
  cbn [nofrac t_frac] in Hy, Hmo, Hd; subst;
  destruct hms;
  destruct h as [[hi hf hs]|], mi as [[mii mif mis]|], s as [[si sf ss]|];
  cbn [nofrac t_frac] in Hh, Hmi, Hs; subst;
  cbn [is_some orb bind t_frac t_int tint num_add_int]; rewrite ?Z.add_0_l; reflexivity.
Qed.

Lemma digits_len l : digits l -> (1 <= length l)%nat.
Proof. intros [Hne _]. destruct l; [congruence|cbn; lia]. Qed.

Ltac pose_lens := repeat match goal with H : digits ?l |- _ => apply digits_len in H end.

Ltac ord_side :=
  unfold ord3, tok_start; cbn [t_start]; cbv zeta;
  first [ reflexivity
        | cbn [length]; repeat (rewrite app_length; cbn [length]);
          pose_lens; apply andb_true_iff; split; apply Z.ltb_lt; lia ].

Ltac py_case :=
  norm_string;
  unfold py_native, match_duration; cbn [Z.eqb Pos.eqb c_P]; cbv beta iota zeta;
  repeat step_try;
  (rewrite py_args_int;
   cbn [g_weeks g_years g_months g_days g_hms g_hours g_minutes g_seconds nofrac t_frac];
   [ | try reflexivity; try exact I; try ord_side ..]);
  cbn [bind a_years a_months a_weeks a_days a_hours a_minutes a_seconds a_us tint t_int oval]; reflexivity.

Lemma py_int_T y mo d h mi s : owf y -> owf mo -> owf d -> owf h -> owf mi -> owf s ->
  py_native (render_dur y mo d (Some (h, mi, s))) =
  duration_native (oval y) (oval mo) 0 (oval d) (NInt (oval h)) (NInt (oval mi)) (NInt (oval s)) 0.
Proof.
  destruct y, mo, d, h, mi, s; cbn [owf]; intros; py_case.
Qed.

Lemma py_int_noT y mo d : owf y -> owf mo -> owf d ->
  py_native (render_dur y mo d None) =
  duration_native (oval y) (oval mo) 0 (oval d) (NInt 0) (NInt 0) (NInt 0) 0.
Proof.
  destruct y, mo, d; cbn [owf]; intros; py_case.
Qed.
