(* Proofs/C19Mono.v — start.add(unit = a) is strictly increasing in a: month arithmetic with end-of-month clamping, days/weeks, fixed units.
   Consequences for Interval.range on dates, naive values, UTC / fixed offsets (all 8 units, every step >= 1): strictly monotone, contained, finite;
   for every well-formed zone with the fixed-length units: instants move by exactly k*n units;
   for wall-clock units in any zone: strictly monotone on the wall clock as long as no step lands in a gap at least as long as the step;
   refutation for a skipped day (Kiritimati). *)
From Coq Require Import ZArith List Bool Lia ZifyBool.
From PV Require Import Lib.PyBase Spec.Cal Spec.Zone Spec.NativeDT Proofs.CalFacts Proofs.ZoneFacts Proofs.AddDurationFacts Proofs.C03Facts.
From PV Require Import Gen.Constants Gen.Helpers Gen.AddDuration Model.TzConvert Model.IntervalRange Gen.IntervalRange Proofs.C19Facts.
Import ListNotations.
Ltac Zify.zify_post_hook ::= Z.to_euclidean_division_equations.
Open Scope Z_scope.

(* ---------------------------------------------------------------- add_duration with one group of units *)
Lemma ym_step_00 y m : ym_step y m 0 0 = (y, m).
Proof. unfold ym_step, carry. cbn. f_equal. lia. Qed.

Lemma add_dur_noym W isdt weeks days h m s us d' : wall_in_range W = true ->
  (isdt = true \/ (h = 0 /\ m = 0 /\ s = 0 /\ us = 0)) ->
  py_add_duration (mkndt W isdt) 0 0 weeks days h m s us = Ok d' ->
  let total := td_total_us (days + weeks * 7) h m s us in
  n_wall d' = (if isdt then W + total else W + (total / us_per_day) * us_per_day) /\ n_isdt d' = isdt /\ wall_in_range (n_wall d') = true.
Proof.
  intros Hr Hg H total. rewrite py_add_duration_unfold in H. unfold add_duration_spec in H. cbn [n_isdt] in H.
  destruct (negb isdt && (negb (h =? 0) || negb (m =? 0) || negb (s =? 0) || negb (us =? 0))) eqn:G.
  { exfalso. destruct Hg as [-> | (-> & -> & -> & ->)]; [discriminate G|destruct isdt; discriminate G]. }
  pose proof (norm_parts_total weeks days h m s us) as NT.
  destruct (norm_parts weeks days h m s us) as [[[[dd h'] m'] s'] u'].
  change (ndt_year (mkndt W isdt)) with (ndt_year (mkndt W true)) in H.
  change (ndt_month (mkndt W isdt)) with (ndt_month (mkndt W true)) in H.
  change (ndt_day (mkndt W isdt)) with (ndt_day (mkndt W true)) in H.
  rewrite ym_step_00 in H.
  destruct (fields_in_range W Hr) as [Hy [Hv Hw]]. cbv zeta in Hy, Hv, Hw.
  pose proof (proj1 (valid_dateb_true _ _ _) Hv) as [Hm Hd].
  rewrite days_per_months_dim in H by lia. rewrite Z.min_r in H by lia.
  unfold ndt_replace_ymd in H. rewrite Hv in H.
  replace ((1 <=? ndt_year (mkndt W true)) && (ndt_year (mkndt W true) <=? 9999)) with true in H by lia. cbn [andb] in H.
  change (ndt_tod (mkndt W isdt)) with (ndt_tod (mkndt W true)) in H. rewrite Hw in H.
  unfold ndt_add_td in H. cbn [n_isdt n_wall] in H.
  replace (td_total_us dd h' m' s' u') with total in H by (unfold total; rewrite NT; reflexivity).
  destruct ((total / us_per_day <? -999999999) || (999999999 <? total / us_per_day)); [discriminate|].
  destruct (wall_in_range (if isdt then W + total else W + total / us_per_day * us_per_day)) eqn:Er; [|discriminate].
  injection H as <-. cbn [n_wall n_isdt]. split; [reflexivity|split; [reflexivity|exact Er]].
Qed.

Lemma ym_add_month y m k : let '(y', m') := ym_add y m k in 1 <= m' <= 12.
Proof. unfold ym_add. lia. Qed.

Lemma add_dur_ym W isdt years months d' : wall_in_range W = true ->
  py_add_duration (mkndt W isdt) years months 0 0 0 0 0 0 = Ok d' ->
  let d := mkndt W true in
  let '(y', m') := ym_add (ndt_year d) (ndt_month d) (12 * years + months) in
  n_wall d' = (ymd2ord y' m' (Z.min (dim y' m') (ndt_day d)) - 1) * us_per_day + ndt_tod d /\ n_isdt d' = isdt /\ wall_in_range (n_wall d') = true.
Proof.
  intros Hr H. cbv zeta. rewrite py_add_duration_unfold in H. unfold add_duration_spec in H. cbn [n_isdt] in H.
  replace (negb isdt && (negb (0 =? 0) || negb (0 =? 0) || negb (0 =? 0) || negb (0 =? 0))) with false in H by (destruct isdt; reflexivity).
  replace (norm_parts 0 0 0 0 0 0) with (0, 0, 0, 0, 0) in H by (vm_compute; reflexivity).
  change (ndt_year (mkndt W isdt)) with (ndt_year (mkndt W true)) in H.
  change (ndt_month (mkndt W isdt)) with (ndt_month (mkndt W true)) in H.
  change (ndt_day (mkndt W isdt)) with (ndt_day (mkndt W true)) in H.
  destruct (fields_in_range W Hr) as [Hy [Hv Hw]]. cbv zeta in Hy, Hv, Hw.
  pose proof (proj1 (valid_dateb_true _ _ _) Hv) as [Hm Hd].
  rewrite ym_step_spec in H by lia.
  pose proof (ym_add_month (ndt_year (mkndt W true)) (ndt_month (mkndt W true)) (12 * years + months)) as Hm'.
  destruct (ym_add (ndt_year (mkndt W true)) (ndt_month (mkndt W true)) (12 * years + months)) as [y' m'].
  rewrite days_per_months_dim in H by lia.
  unfold ndt_replace_ymd in H.
  destruct ((1 <=? y') && (y' <=? 9999) && valid_dateb y' m' (Z.min (dim y' m') (ndt_day (mkndt W true)))); [|discriminate].
  change (ndt_tod (mkndt W isdt)) with (ndt_tod (mkndt W true)) in H.
  unfold ndt_add_td in H. cbn [n_isdt n_wall] in H.
  change (td_total_us 0 0 0 0 0) with 0 in H. change (0 / us_per_day) with 0 in H.
  change ((0 <? -999999999) || (999999999 <? 0)) with false in H. cbv iota in H.
  set (X := (ymd2ord y' m' (Z.min (dim y' m') (ndt_day (mkndt W true))) - 1) * us_per_day + ndt_tod (mkndt W true)) in *.
  replace (if isdt then X + 0 else X + 0 * us_per_day) with X in H by (destruct isdt; lia).
  destruct (wall_in_range X) eqn:Er; [|discriminate].
  injection H as <-. cbn [n_wall n_isdt]. split; [reflexivity|split; [reflexivity|exact Er]].
Qed.

(* ---------------------------------------------------------------- the wall clock moved by a units: specification-level function *)
Definition unit_len (u : Z) : Z :=
  if u =? 2 then 7 * us_per_day else if u =? 3 then us_per_day else if u =? 4 then 3600000000
  else if u =? 5 then 60000000 else if u =? 6 then 1000000 else 1.

Definition nshift (W u a : Z) : Z :=
  if u <=? 1 then
    let d := mkndt W true in
    let '(y', m') := ym_add (ndt_year d) (ndt_month d) (if u =? 0 then 12 * a else a) in
    (ymd2ord y' m' (Z.min (dim y' m') (ndt_day d)) - 1) * us_per_day + ndt_tod d
  else W + a * unit_len u.

Lemma unit_len_pos u : 0 < unit_len u.
Proof. unfold unit_len, us_per_day. repeat match goal with |- context [if ?c then _ else _] => destruct c end; lia. Qed.

(* month arithmetic with clamping is strictly monotone in the number of months (so it never drifts and never repeats) *)
Lemma ym_clamp_lt y m d k1 k2 : 1 <= m <= 12 -> 1 <= d -> k1 < k2 ->
  let '(y1, m1) := ym_add y m k1 in let '(y2, m2) := ym_add y m k2 in
  ymd2ord y1 m1 (Z.min (dim y1 m1) d) < ymd2ord y2 m2 (Z.min (dim y2 m2) d).
Proof.
  intros Hm Hd Hk. unfold ym_add.
  set (t1 := y * 12 + (m - 1) + k1). set (t2 := y * 12 + (m - 1) + k2).
  assert (Ht : t1 < t2) by (unfold t1, t2; lia).
  pose proof (dim_bounds (t1 / 12) (t1 mod 12 + 1)). pose proof (dim_bounds (t2 / 12) (t2 mod 12 + 1)).
  apply ymd2ord_lt.
  - apply valid_dateb_true. lia.
  - apply valid_dateb_true. lia.
  - lia.
Qed.

Theorem nshift_lt W u a b : wall_in_range W = true -> a < b -> nshift W u a < nshift W u b.
Proof.
  intros Hr Hab. unfold nshift. destruct (u <=? 1).
  - destruct (fields_in_range W Hr) as [Hy [Hv Hw]]. cbv zeta in Hy, Hv, Hw.
    pose proof (proj1 (valid_dateb_true _ _ _) Hv) as [Hm Hd].
    assert (Hk : (if u =? 0 then 12 * a else a) < (if u =? 0 then 12 * b else b)) by (destruct (u =? 0); lia).
    pose proof (ym_clamp_lt (ndt_year (mkndt W true)) (ndt_month (mkndt W true)) (ndt_day (mkndt W true)) _ _ Hm ltac:(lia) Hk) as L.
    destruct (ym_add _ _ (if u =? 0 then 12 * a else a)) as [y1 m1].
    destruct (ym_add _ _ (if u =? 0 then 12 * b else b)) as [y2 m2].
    unfold us_per_day. lia.
  - pose proof (unit_len_pos u). nia.
Qed.

Lemma nshift_zero W u : wall_in_range W = true -> nshift W u 0 = W.
Proof.
  intros Hr. unfold nshift. destruct (u <=? 1); [|lia].
  destruct (fields_in_range W Hr) as [Hy [Hv Hw]]. cbv zeta in Hy, Hv, Hw.
  pose proof (proj1 (valid_dateb_true _ _ _) Hv) as [Hm Hd].
  replace (if u =? 0 then 12 * 0 else 0) with 0 by (destruct (u =? 0); reflexivity).
  unfold ym_add.
  replace ((ndt_year (mkndt W true) * 12 + (ndt_month (mkndt W true) - 1) + 0) / 12) with (ndt_year (mkndt W true)) by lia.
  replace ((ndt_year (mkndt W true) * 12 + (ndt_month (mkndt W true) - 1) + 0) mod 12 + 1) with (ndt_month (mkndt W true)) by lia.
  rewrite Z.min_r by lia. exact Hw.
Qed.

(* ---------------------------------------------------------------- shift on dates, naive values and fixed offsets *)
Definition plain (s : dtv) : Prop :=
  dv_kind s = K_DATE \/ dv_kind s = K_NAIVE \/ (dv_kind s = K_AWARE /\ z_trans (dv_zone s) = []).

Lemma convert_naive_notrans z W f : z_trans z = [] -> convert_naive z W f false = Ok (W, f).
Proof.
  intros H. unfold convert_naive, off_local. rewrite H. cbn [off_local_l].
  rewrite Z.gtb_ltb, Z.ltb_irrefl. rewrite andb_false_r. reflexivity.
Qed.

Lemma sel_total u a : 4 <= u <= 7 ->
  td_total_us (0 + 0 * 7) (if u =? 4 then a else 0) (if u =? 5 then a else 0) (if u =? 6 then a else 0) (if u =? 7 then a else 0) = a * unit_len u.
Proof.
  intros Hu. unfold td_total_us, unit_len.
  destruct (u =? 2) eqn:E2; [lia|]. destruct (u =? 3) eqn:E3; [lia|].
  destruct (u =? 4) eqn:E4; destruct (u =? 5) eqn:E5; destruct (u =? 6) eqn:E6; destruct (u =? 7) eqn:E7; lia.
Qed.

Lemma sel_days u a : 2 <= u <= 3 ->
  td_total_us ((if u =? 3 then a else 0) + (if u =? 2 then a else 0) * 7) 0 0 0 0 = a * unit_len u /\
  td_total_us ((if u =? 3 then a else 0) + (if u =? 2 then a else 0) * 7) 0 0 0 0 / us_per_day * us_per_day = a * unit_len u.
Proof.
  intros Hu. unfold td_total_us, unit_len, us_per_day.
  destruct (u =? 2) eqn:E2; destruct (u =? 3) eqn:E3; lia.
Qed.

Lemma sel_ym u a : 0 <= u <= 1 -> 12 * (if u =? 0 then a else 0) + (if u =? 1 then a else 0) = (if u =? 0 then 12 * a else a).
Proof. intros Hu. destruct (u =? 0) eqn:E0; destruct (u =? 1) eqn:E1; lia. Qed.

(* what shift does on a plain value: the wall clock moves by nshift, everything else stays *)
Theorem shift_plain s u a x : wall_in_range (dv_W s) = true -> plain s -> shift s u a = Ok x ->
  dv_W x = nshift (dv_W s) u a /\ wall_in_range (dv_W x) = true /\
  dv_kind x = dv_kind s /\ dv_zone x = dv_zone s /\ dv_tzid x = dv_tzid s /\ dv_fixed x = dv_fixed s.
Proof.
  intros Hr Hp H. unfold shift in H. cbv zeta beta in H.
  destruct ((u <? 0) || (7 <? u)) eqn:Eu; [discriminate|].
  assert (Hu : 0 <= u <= 7) by lia. clear Eu.
  assert (G : (u <= 1) \/ (2 <= u <= 3) \/ (4 <= u)) by lia.
  (* the three groups of units, as facts about py_add_duration *)
  assert (YM : forall isdt d', u <= 1 ->
     py_add_duration (mkndt (dv_W s) isdt) (if u =? 0 then a else 0) (if u =? 1 then a else 0) (if u =? 2 then a else 0) (if u =? 3 then a else 0)
        (if isdt then if u =? 4 then a else 0 else 0) (if isdt then if u =? 5 then a else 0 else 0)
        (if isdt then if u =? 6 then a else 0 else 0) (if isdt then if u =? 7 then a else 0 else 0) = Ok d' ->
     n_wall d' = nshift (dv_W s) u a /\ wall_in_range (n_wall d') = true).
  { intros isdt d' Hle Hd.
    replace (u =? 2) with false in Hd by lia. replace (u =? 3) with false in Hd by lia. replace (u =? 4) with false in Hd by lia.
    replace (u =? 5) with false in Hd by lia. replace (u =? 6) with false in Hd by lia. replace (u =? 7) with false in Hd by lia.
    replace (if isdt then 0 else 0) with 0 in Hd by (destruct isdt; reflexivity).
    pose proof (add_dur_ym _ _ _ _ _ Hr Hd) as L. cbv zeta in L. rewrite sel_ym in L by lia.
    unfold nshift. replace (u <=? 1) with true by lia.
    destruct (ym_add _ _ (if u =? 0 then 12 * a else a)) as [y' m']. destruct L as [L1 [_ L3]]. split; assumption. }
  assert (DW : forall isdt d', 2 <= u <= 3 ->
     py_add_duration (mkndt (dv_W s) isdt) (if u =? 0 then a else 0) (if u =? 1 then a else 0) (if u =? 2 then a else 0) (if u =? 3 then a else 0)
        (if isdt then if u =? 4 then a else 0 else 0) (if isdt then if u =? 5 then a else 0 else 0)
        (if isdt then if u =? 6 then a else 0 else 0) (if isdt then if u =? 7 then a else 0 else 0) = Ok d' ->
     n_wall d' = nshift (dv_W s) u a /\ wall_in_range (n_wall d') = true).
  { intros isdt d' Hle Hd.
    replace (u =? 0) with false in Hd by lia. replace (u =? 1) with false in Hd by lia. replace (u =? 4) with false in Hd by lia.
    replace (u =? 5) with false in Hd by lia. replace (u =? 6) with false in Hd by lia. replace (u =? 7) with false in Hd by lia.
    replace (if isdt then 0 else 0) with 0 in Hd by (destruct isdt; reflexivity).
    pose proof (add_dur_noym _ _ _ _ _ _ _ _ _ Hr (or_intror (conj eq_refl (conj eq_refl (conj eq_refl eq_refl)))) Hd) as L. cbv zeta in L.
    destruct (sel_days u a Hle) as [S1 S2]. rewrite S2 in L. rewrite S1 in L.
    unfold nshift. replace (u <=? 1) with false by lia.
    destruct L as [L1 [_ L3]]. split; [|exact L3]. rewrite L1. destruct isdt; reflexivity. }
  assert (FX : forall U d', wall_in_range U = true -> 4 <= u ->
     py_add_duration (mkndt U true) 0 0 0 0 (if u =? 4 then a else 0) (if u =? 5 then a else 0) (if u =? 6 then a else 0) (if u =? 7 then a else 0) = Ok d' ->
     n_wall d' = U + a * unit_len u /\ wall_in_range (n_wall d') = true).
  { intros U d' HU Hle Hd.
    pose proof (add_dur_noym _ _ _ _ _ _ _ _ _ HU (or_introl eq_refl) Hd) as L. cbv zeta in L.
    rewrite sel_total in L by lia. destruct L as [L1 [_ L3]]. split; assumption. }
  destruct Hp as [Hk | [Hk | [Hk Hz]]]; rewrite Hk in H.
  - (* Date *)
    change (K_DATE =? K_DATE) with true in H. cbv iota in H.
    destruct (u <=? 3) eqn:E3; [|discriminate].
    destruct (py_add_duration _ _ _ _ _ _ _ _ _) as [d'|e] eqn:Ed; [|discriminate].
    injection H as <-. cbn [with_wall dv_W dv_kind dv_zone dv_tzid dv_fixed].
    assert (R : n_wall d' = nshift (dv_W s) u a /\ wall_in_range (n_wall d') = true).
    { destruct G as [G|[G|G]]; [apply (YM false d' G Ed)|apply (DW false d' G Ed)|lia]. }
    destruct R as [R1 R2]. repeat split; assumption.
  - (* naive DateTime *)
    change (K_NAIVE =? K_DATE) with false in H. change (K_NAIVE =? K_NAIVE) with true in H. cbv iota in H.
    destruct (py_add_duration _ _ _ _ _ _ _ _ _) as [d'|e] eqn:Ed; [|discriminate].
    injection H as <-. cbn [with_wall dv_W dv_kind dv_zone dv_tzid dv_fixed].
    assert (R : n_wall d' = nshift (dv_W s) u a /\ wall_in_range (n_wall d') = true).
    { destruct G as [G|[G|G]]; [apply (YM true d' G Ed)|apply (DW true d' G Ed)|].
      replace (u =? 0) with false in Ed by lia. replace (u =? 1) with false in Ed by lia.
      replace (u =? 2) with false in Ed by lia. replace (u =? 3) with false in Ed by lia.
      destruct (FX _ _ Hr G Ed) as [F1 F2]. split; [|exact F2]. rewrite F1. unfold nshift. replace (u <=? 1) with false by lia. reflexivity. }
    destruct R as [R1 R2]. repeat split; assumption.
  - (* aware, zone without transitions *)
    change (K_AWARE =? K_DATE) with false in H. change (K_AWARE =? K_NAIVE) with false in H. cbv iota in H.
    destruct (u <=? 3) eqn:E3.
    + unfold add_calendar in H.
      destruct (py_add_duration _ _ _ _ _ _ _ _ _) as [d'|e] eqn:Ed; [|discriminate].
      assert (R : n_wall d' = nshift (dv_W s) u a /\ wall_in_range (n_wall d') = true).
      { destruct G as [G|[G|G]]; [apply (YM true d' G)|apply (DW true d' G)|lia];
        replace (u =? 4) with false by lia; replace (u =? 5) with false by lia; replace (u =? 6) with false by lia; replace (u =? 7) with false by lia; exact Ed. }
      destruct R as [R1 R2].
      unfold create, convert_naive_fixed in H. rewrite (convert_naive_notrans _ _ _ Hz) in H.
      destruct (dv_fixed s) eqn:Efx; injection H as <-; cbn [with_wall dv_W dv_kind dv_zone dv_tzid dv_fixed]; rewrite ?Efx; repeat split; first [assumption|reflexivity|idtac].
    + unfold add_fixed in H. unfold inst, off_local in H. rewrite Hz in H. cbn [off_local_l] in H.
      destruct (wall_in_range (dv_W s - MEG * z_init (dv_zone s))) eqn:EU; cbn [negb] in H; [|discriminate].
      replace (u =? 0) with false in H by lia. replace (u =? 1) with false in H by lia.
      replace (u =? 2) with false in H by lia. replace (u =? 3) with false in H by lia.
      destruct (py_add_duration _ _ _ _ _ _ _ _ _) as [d'|e] eqn:Ed; [|discriminate].
      destruct (FX _ _ EU ltac:(lia) Ed) as [F1 F2].
      unfold render, off_utc, fold_utc in H. rewrite Hz in H. cbn [off_utc_l fold_utc_l] in H.
      destruct (wall_in_range (n_wall d' + MEG * z_init (dv_zone s))) eqn:Er; [|discriminate].
      injection H as <-. cbn [with_wall dv_W dv_kind dv_zone dv_tzid dv_fixed].
      assert (E : n_wall d' + MEG * z_init (dv_zone s) = nshift (dv_W s) u a).
      { rewrite F1. unfold nshift. replace (u <=? 1) with false by lia. lia. }
      rewrite <- E. repeat split; try reflexivity. exact Er.
Qed.

(* ---------------------------------------------------------------- the sequence of a range on plain values *)
Definition amount_at (iv : interval) (n : Z) (k : nat) : Z := if range_down iv then - (Z.of_nat k * n) else Z.of_nat k * n.

Lemma seq_at_plain iv u n k x : wall_in_range (dv_W (iv_start iv)) = true -> plain (iv_start iv) -> seq_at iv u n k = Ok x ->
  dv_W x = nshift (dv_W (iv_start iv)) u (amount_at iv n k) /\ wall_in_range (dv_W x) = true /\
  dv_kind x = dv_kind (iv_start iv) /\ dv_zone x = dv_zone (iv_start iv) /\ dv_tzid x = dv_tzid (iv_start iv).
Proof.
  intros Hr Hp H. destruct k as [|k].
  - cbn in H. injection H as <-. unfold amount_at. replace (if range_down iv then - (Z.of_nat 0 * n) else Z.of_nat 0 * n) with 0 by (destruct (range_down iv); lia).
    rewrite nshift_zero by assumption. repeat split; try reflexivity. exact Hr.
  - cbn [seq_at] in H. unfold call_method, range_meth in H. unfold amount_at.
    destruct (range_down iv).
    + change (M_subtract =? M_subtract) with true in H. cbv iota in H.
      destruct (shift_plain _ _ _ _ Hr Hp H) as (A & B & C & D & E & _). repeat split; assumption.
    + change (M_add =? M_subtract) with false in H. cbv iota in H.
      destruct (shift_plain _ _ _ _ Hr Hp H) as (A & B & C & D & E & _). repeat split; assumption.
Qed.

Lemma amount_at_lt iv n j k : 1 <= n -> (j < k)%nat ->
  if range_down iv then amount_at iv n k < amount_at iv n j else amount_at iv n j < amount_at iv n k.
Proof. intros Hn Hjk. unfold amount_at. destruct (range_down iv); nia. Qed.

(* strictly monotone in the direction of the interval: wall clocks, and Python's < on the values *)
Theorem range_strict_mono_plain_l fuel iv u n j k x y :
  wall_in_range (dv_W (iv_start iv)) = true -> plain (iv_start iv) -> 1 <= n -> (j < k)%nat ->
  nth_error (fst (py_range fuel iv u n)) j = Some x -> nth_error (fst (py_range fuel iv u n)) k = Some y ->
  if range_down iv then dv_W y < dv_W x /\ dt_gt x y = true else dv_W x < dv_W y /\ dt_lt x y = true.
Proof.
  intros Hr Hp Hn Hjk Hx Hy.
  apply range_kth_l in Hx. apply range_kth_l in Hy.
  destruct (seq_at_plain _ _ _ _ _ Hr Hp Hx) as (Ax & _ & Kx & _ & Tx).
  destruct (seq_at_plain _ _ _ _ _ Hr Hp Hy) as (Ay & _ & Ky & _ & Ty).
  pose proof (amount_at_lt iv n j k Hn Hjk) as L.
  assert (SC : same_clock x y = true /\ same_clock y x = true).
  { unfold same_clock. rewrite Tx, Ty, Z.eqb_refl. rewrite !orb_true_r. split; reflexivity. }
  destruct SC as [SC1 SC2].
  destruct (range_down iv).
  - pose proof (nshift_lt (dv_W (iv_start iv)) u _ _ Hr L). split; [lia|]. unfold dt_gt, dt_lt. rewrite SC2. lia.
  - pose proof (nshift_lt (dv_W (iv_start iv)) u _ _ Hr L). split; [lia|]. unfold dt_lt. rewrite SC1. lia.
Qed.

(* end of the same kind; for aware values: a fixed offset too, and equal tzinfo identity means equal offset *)
Definition compat (s e : dtv) : Prop :=
  dv_kind e = dv_kind s /\
  (dv_kind s = K_AWARE -> z_trans (dv_zone e) = [] /\ (dv_tzid s = dv_tzid e -> z_init (dv_zone e) = z_init (dv_zone s))).

(* the number both comparisons reduce to: the wall clock, minus the constant offset for aware values *)
Definition key (v : dtv) : Z := if dv_kind v =? K_AWARE then dv_W v - MEG * z_init (dv_zone v) else dv_W v.

Lemma dt_le_key a b : plain a -> plain b -> dv_kind a = dv_kind b ->
  (dv_kind a = K_AWARE -> dv_tzid a = dv_tzid b -> z_init (dv_zone a) = z_init (dv_zone b)) ->
  dt_le a b = (key a <=? key b) /\ dt_le b a = (key b <=? key a).
Proof.
  intros Pa Pb Hk Hz. unfold dt_le, same_clock, key, dv_inst, inst, off_local. rewrite <- Hk.
  destruct Pa as [Ka|[Ka|[Ka Za]]]; rewrite Ka in *.
  - change (K_DATE =? K_AWARE) with false. cbn [negb orb]. split; reflexivity.
  - change (K_NAIVE =? K_AWARE) with false. cbn [negb orb]. split; reflexivity.
  - change (K_AWARE =? K_AWARE) with true. cbn [negb orb].
    destruct Pb as [Kb|[Kb|[Kb Zb]]]; try (rewrite Kb in Hk; discriminate Hk).
    rewrite Za, Zb. cbn [off_local_l].
    rewrite (Z.eqb_sym (dv_tzid b) (dv_tzid a)).
    destruct (dv_tzid a =? dv_tzid b) eqn:Et.
    + specialize (Hz eq_refl ltac:(lia)). rewrite Hz. unfold MEG. split; lia.
    + split; reflexivity.
Qed.

Section PlainRange.
Variable iv : interval.
Variables u n : Z.
Hypothesis Hr : wall_in_range (dv_W (iv_start iv)) = true.
Hypothesis Hp : plain (iv_start iv).
Hypothesis Hc : compat (iv_start iv) (iv_end iv).
Hypothesis Hn : 1 <= n.

Let s := iv_start iv.
Let e := iv_end iv.

Lemma plain_end : plain e.
Proof.
  destruct Hc as [Hk Hz]. unfold plain. fold s in Hk, Hz. fold e in Hk, Hz.
  destruct Hp as [K|[K|[K Zn]]]; fold s in K; rewrite K in Hk.
  - left. exact Hk. - right; left. exact Hk. - right; right. split; [exact Hk|]. exact (proj1 (Hz K)).
Qed.

Lemma seq_plain k x : seq_at iv u n k = Ok x -> plain x /\ dv_kind x = dv_kind s /\ dv_tzid x = dv_tzid s /\ dv_zone x = dv_zone s /\
  key x = nshift (dv_W s) u (amount_at iv n k) - (dv_W s - key s).
Proof.
  intros H. destruct (seq_at_plain _ _ _ _ _ Hr Hp H) as (A & _ & K & Zn & T). fold s in A, K, Zn, T.
  split; [|split; [exact K|split; [exact T|split; [exact Zn|]]]].
  - unfold plain. rewrite K, Zn. exact Hp.
  - unfold key. rewrite K, Zn, A. unfold s. destruct (dv_kind (iv_start iv) =? K_AWARE); unfold MEG; lia.
Qed.

Lemma within_key k x : seq_at iv u n k = Ok x ->
  within iv x = if range_down iv then key e <=? key x else key x <=? key e.
Proof.
  intros H. destruct (seq_plain k x H) as (Px & Kx & Tx & Zx & _).
  destruct Hc as [Hk Hz]. fold s in Hk, Hz. fold e in Hk, Hz.
  assert (D : dt_le x e = (key x <=? key e) /\ dt_le e x = (key e <=? key x)).
  { apply dt_le_key; [exact Px|exact plain_end|congruence|].
    intros Ka Te. rewrite Zx. rewrite Kx in Ka. rewrite Tx in Te. symmetry. exact (proj2 (Hz Ka) Te). }
  destruct D as [D1 D2].
  unfold within, apply_op, range_op. fold e. destruct (range_down iv).
  - change (OP_ge =? OP_ge) with true. cbv iota. unfold dt_ge. exact D2.
  - change (OP_le =? OP_ge) with false. cbv iota. exact D1.
Qed.

Lemma key_step k x y : seq_at iv u n k = Ok x -> seq_at iv u n (S k) = Ok y ->
  if range_down iv then key y < key x else key x < key y.
Proof.
  intros Hx Hy. destruct (seq_plain _ _ Hx) as (_ & _ & _ & _ & Ax). destruct (seq_plain _ _ Hy) as (_ & _ & _ & _ & Ay).
  pose proof (amount_at_lt iv n k (S k) Hn ltac:(lia)) as L.
  destruct (range_down iv); pose proof (nshift_lt (dv_W s) u _ _ Hr L); lia.
Qed.

(* termination: some fuel suffices (the values are integers that move strictly towards and past the end) *)
Lemma run_terminates_plain : forall d k cur, seq_at iv u n k = Ok cur ->
  (if range_down iv then key cur - key e else key e - key cur) < Z.of_nat d ->
  exists fuel, snd (run_from iv u n fuel k cur) <> GFuel.
Proof.
  induction d as [|d IH]; intros k cur Hk Hd.
  - exists 1%nat. cbn [run_from]. rewrite (within_key k cur Hk). destruct (range_down iv).
    + replace (key e <=? key cur) with false by lia. cbn. congruence.
    + replace (key cur <=? key e) with false by lia. cbn. congruence.
  - destruct (within iv cur) eqn:Ew.
    + destruct (seq_at iv u n (S k)) as [nx|ex] eqn:En.
      * pose proof (key_step k cur nx Hk En) as L.
        destruct (IH (S k) nx En) as [f Hf]. { destruct (range_down iv); lia. }
        exists (S f). cbn [run_from]. rewrite Ew, En. cbn [gcons snd]. exact Hf.
      * exists 1%nat. cbn [run_from]. rewrite Ew, En. destruct (limit_exn ex); cbn; congruence.
    + exists 1%nat. cbn [run_from]. rewrite Ew. cbn. congruence.
Qed.

Theorem range_finite_plain_l : exists fuel, snd (py_range fuel iv u n) <> GFuel.
Proof.
  destruct (run_terminates_plain (Z.to_nat (Z.abs (key e - key s) + 1)) 0 s eq_refl) as [f Hf].
  { destruct (range_down iv); lia. }
  exists f. rewrite py_range_run. exact Hf.
Qed.

(* every yielded value lies between the two ends (Python's <= on the values); for a forward interval it is `in` the interval *)
Theorem range_contained_plain_l fuel k x : nth_error (fst (py_range fuel iv u n)) k = Some x ->
  if range_down iv then dt_le e x = true /\ dt_le x s = true else dt_le s x = true /\ dt_le x e = true.
Proof.
  intros H. pose proof (range_within_l _ _ _ _ _ _ H) as W. apply range_kth_l in H.
  destruct (seq_at_plain _ _ _ _ _ Hr Hp H) as (A & _ & K & _ & T). fold s in A, K, T.
  assert (SC : same_clock s x = true /\ same_clock x s = true).
  { unfold same_clock. rewrite T, Z.eqb_refl. rewrite !orb_true_r. split; reflexivity. }
  destruct SC as [SC1 SC2].
  assert (L0 : nshift (dv_W s) u 0 = dv_W s) by (apply nshift_zero; exact Hr).
  unfold within, apply_op, range_op in W. fold e in W. unfold amount_at in A.
  destruct (range_down iv).
  - change (OP_ge =? OP_ge) with true in W. cbv iota in W. unfold dt_ge in W. split; [exact W|].
    unfold dt_le. rewrite SC2.
    destruct (Z.eq_dec (Z.of_nat k * n) 0) as [Ez|Nz]; [rewrite Ez in A; change (- 0) with 0 in A; lia|].
    pose proof (nshift_lt (dv_W s) u (- (Z.of_nat k * n)) 0 Hr ltac:(nia)). lia.
  - change (OP_le =? OP_ge) with false in W. cbv iota in W. split; [|exact W].
    unfold dt_le. rewrite SC1.
    destruct (Z.eq_dec (Z.of_nat k * n) 0) as [Ez|Nz]; [rewrite Ez in A; lia|].
    pose proof (nshift_lt (dv_W s) u 0 (Z.of_nat k * n) Hr ltac:(nia)). lia.
Qed.

(* hence every yielded value is `in` the interval that yielded it: forward, absolute and inverted intervals alike *)
Theorem range_members_plain_l fuel k x : nth_error (fst (py_range fuel iv u n)) k = Some x -> py_contains iv x = true.
Proof.
  intros H. pose proof (range_contained_plain_l fuel k x H) as C. unfold s, e in C. rewrite contains_spec_l.
  destruct (range_down iv); destruct C as [A B]; rewrite A, B; reflexivity.
Qed.
End PlainRange.
