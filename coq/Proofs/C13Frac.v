(* Proofs/C13Frac.v — C13: ONE fraction digit, universally over the integer part.

   Text  P[T]<ip><sep><dg><unit>  (ip: any non-empty ASCII digit string, leading zeros allowed; sep '.' or ','; dg one digit).
   Exact value: (ip + dg/10) * unit_secs seconds = exact_us unit_secs (dval ip) dg microseconds (an integer).

     one_digit_py_all : py_dur text = native_of 0 0 (exact_us unit_secs (dval ip) dg)            unit in D H M S
     one_digit_rs_all : rs_dur text = native_of 0 0 (exact_us unit_secs (u32 (dval ip)) dg)      unit in D H M S W
     one_digit_py_weeks_all : P<ip>.1W is parsed by the pure-Python parser to ip weeks 16 h (exact: 16.8 h), every ip

   (native_of = timedelta's normalisation and range check: the exact value below 10^9 days, OverflowError beyond — py_dur / rs_dur are the
   code inside the callers' try blocks; what the callers see is ov_to_ve of it, Proofs/C13Catch.v: a ValueError.)
   Why no real-number reasoning is needed: in both parsers the integer part reaches the constructor as an INTEGER argument
   (Python: int(days) / hours += int(...) ...; Rust: a u32 field of its own); every float operation acts on the fraction dg/10 only
   (dg/10*24, *60, % 1, the carries of rs_spill_*, CPython's accum() on the float argument).  So the float part is a function of the
   digit alone: it is evaluated ONCE per digit in the kernel (py_tab_ok / rs_tab_ok, 10 digits), and what is proved is that the
   integer part is added to it exactly (td_total_us_const: accum() is translation invariant in its integer accumulator; the final
   round-half-even of the left-over depends on the parity of the integer sum only on an exact tie, which the tables exclude). *)
From Coq Require Import ZArith List Bool Lia Floats.SpecFloat.
From PV Require Import Lib.PyBase Gen.Constants Model.DurParse Model.DurSpec Proofs.C13Int Proofs.C13Py Proofs.C13Main Proofs.C13Rej.
Import ListNotations.
Open Scope Z_scope.

(* ------------------------------------------------------------------ timedelta.__new__: integer arguments add exactly to the float part *)
Definition td_finish (x : Z) (leftover_us : spec_float) : result Z :=
  if f_is_zero leftover_us then Ok x else
  let whole_us := f_round_away leftover_us in
  let whole_us :=
    if SFeqb (SFabs (fsub whole_us leftover_us)) f_half then
      let x_is_odd := f_of_Z (if Z.odd x then 1 else 0) in
      fsub (fmul (f_of_Z 2) (f_round_away (fmul (fadd leftover_us x_is_odd) f_half))) x_is_odd
    else whole_us in
  Ok (x + f_truncZ whole_us).

Definition shift (k : Z) (st : result (Z * spec_float)) : result (Z * spec_float) :=
  bind st (fun xs => let '(s, l) := xs in Ok (s + k, l)).
Definition nfl (n : num) : num := match n with NInt _ => NInt 0 | NFloat f => NFloat f end.
Definition nint (n : num) : Z := match n with NInt z => z | NFloat _ => 0 end.

Lemma accum_int st z f : accum st (NInt z) f = shift (z * f) st.
Proof. destruct st as [[s l]|e]; reflexivity. Qed.

Lemma accum_shift k st n f : accum (shift k st) n f = shift k (accum st n f).
Proof.
  destruct st as [[s l]|e]; [|reflexivity]. unfold shift at 1. cbn [bind].
  destruct n as [z|dn]; unfold accum, shift; cbn [bind].
  - f_equal. f_equal. ring.
  - destruct dn; try reflexivity; cbv zeta; destruct (f_is_zero _); cbn [bind]; f_equal; f_equal; ring.
Qed.

Lemma accum_split st n f : accum st n f = shift (nint n * f) (accum st (nfl n) f).
Proof.
  destruct n as [z|dn]; cbn [nfl nint].
  - rewrite !accum_int. destruct st as [[s l]|e]; [|reflexivity]. unfold shift. cbn [bind]. f_equal. f_equal. ring.
  - destruct (accum st (NFloat dn) f) as [[s l]|e]; [|reflexivity]. unfold shift. cbn [bind]. f_equal. f_equal. ring.
Qed.

Definition float_accum (s m h : num) : result (Z * spec_float) :=
  accum (accum (accum (Ok (0, f_zero)) s 1000000) m 60000000) h 3600000000.

Lemma td_total_us_split days s us m h weeks :
  td_total_us days s us m h weeks =
  bind (float_accum (nfl s) (nfl m) (nfl h)) (fun xs => let '(x0, lo) := xs in
    td_finish (x0 + (us + nint s * 1000000 + nint m * 60000000 + nint h * 3600000000 + days * US_PER_DAY + weeks * (7 * US_PER_DAY))) lo).
Proof.
  assert (E : td_total_us days s us m h weeks =
    bind (accum (accum (accum (accum (accum (accum (accum (Ok (0, f_zero)) (NInt us) 1) (NInt 0) 1000) s 1000000) m 60000000)
                       h 3600000000) (NInt days) US_PER_DAY) (NInt weeks) (7 * US_PER_DAY))
         (fun xs => let '(x, lo) := xs in td_finish x lo)) by reflexivity.
  rewrite E. clear E. unfold float_accum.
  rewrite !accum_int. rewrite (accum_split _ s), (accum_split _ m), (accum_split _ h). rewrite !accum_shift.
  destruct (accum (accum (accum (Ok (0, f_zero)) (nfl s) 1000000) (nfl m) 60000000) (nfl h) 3600000000) as [[x0 lo]|e];
    [|reflexivity].
  unfold shift. cbn [bind]. f_equal. ring.
Qed.

(* the float part alone: None on an exact tie of the left-over (then the result would depend on the parity of the integer sum) *)
Definition frac_const (s m h : num) : option Z :=
  match float_accum s m h with
  | Ok (x0, lo) =>
      if f_is_zero lo then Some x0
      else if SFeqb (SFabs (fsub (f_round_away lo) lo)) f_half then None
      else Some (x0 + f_truncZ (f_round_away lo))
  | Raise _ => None
  end.

Lemma td_total_us_const days s us m h weeks K : frac_const (nfl s) (nfl m) (nfl h) = Some K ->
  td_total_us days s us m h weeks =
  Ok (K + (us + nint s * 1000000 + nint m * 60000000 + nint h * 3600000000 + days * US_PER_DAY + weeks * (7 * US_PER_DAY))).
Proof.
  intros E. rewrite td_total_us_split. unfold frac_const in E.
  destruct (float_accum (nfl s) (nfl m) (nfl h)) as [[x0 lo]|e]; [|discriminate]. cbn [bind]. unfold td_finish.
  destruct (f_is_zero lo).
  - inversion E. reflexivity.
  - cbv zeta. destruct (SFeqb _ _); [discriminate|]. inversion E. f_equal. ring.
Qed.

(* ------------------------------------------------------------------ the ten digits *)
Definition digs : list Z := [48; 49; 50; 51; 52; 53; 54; 55; 56; 57].

Lemma is_digit_In dg : is_digit dg = true -> In dg digs.
Proof.
  intros H. apply is_digit_range in H.
  assert (E : dg = 48 \/ dg = 49 \/ dg = 50 \/ dg = 51 \/ dg = 52 \/ dg = 53 \/ dg = 54 \/ dg = 55 \/ dg = 56 \/ dg = 57) by lia.
  unfold digs. cbn [In]. intuition.
Qed.

Lemma digits_1 dg : is_digit dg = true -> digits [dg].
Proof. intros H. split; [discriminate|]. cbn [forallb]. rewrite H. reflexivity. Qed.

Lemma dval_1 dg : dval [dg] = dg - 48.
Proof. unfold dval. cbn [fold_left]. lia. Qed.

(* exact length in microseconds of  <v>.<dg> units  of unit_secs seconds *)
Definition exact_us (unit_secs v dg : Z) : Z := (v * unit_secs * 10 + unit_secs * (dg - 48)) * 100000.

(* ------------------------------------------------------------------ pure Python: the float part per digit (kernel computation, once) *)
Inductive unit5 := UD | UH | UM | US | UW.
Definition u_time (u : unit5) : bool := match u with UD | UW => false | _ => true end.
Definition u_char (u : unit5) : Z := match u with UD => c_D | UH => c_H | UM => c_M | US => c_S | UW => c_W end.
Definition u_secs (u : unit5) : Z := match u with UD => 86400 | UH => 3600 | UM => 60 | US => 1 | UW => 604800 end.

Definition py_const (u : unit5) (dg : Z) : option Z :=
  match u with
  | UD => match py_frac10 [dg] C_HOURS_PER_DAY with
          | Ok hf => frac_const (NInt 0) (NInt 0) (NFloat hf) | Raise _ => None end
  | UH => match py_frac10 [dg] C_MINUTES_PER_HOUR with
          | Ok mf => frac_const (NInt 0) (nfl (num_add_float (NInt 0) mf)) (NInt 0) | Raise _ => None end
  | UM => match py_frac10 [dg] C_SECONDS_PER_MINUTE with
          | Ok sf => frac_const (nfl (num_add_float (NInt 0) sf)) (NInt 0) (NInt 0) | Raise _ => None end
  | _ => None
  end.

Definition py_tab (u : unit5) (dg : Z) : bool :=
  match py_const u dg with Some k => k =? u_secs u * (dg - 48) * 100000 | None => false end.

Lemma py_tab_ok : forallb (fun u => forallb (py_tab u) digs) [UD; UH; UM] = true.
Proof. vm_compute. reflexivity. Qed.

Lemma py_tab_digit u dg : u = UD \/ u = UH \/ u = UM -> is_digit dg = true ->
  py_const u dg = Some (u_secs u * (dg - 48) * 100000).
Proof.
  intros Hu Hd. pose proof py_tab_ok as T. rewrite forallb_forall in T.
  assert (Iu : In u [UD; UH; UM]) by (cbn [In]; intuition).
  specialize (T u Iu). rewrite forallb_forall in T. specialize (T dg (is_digit_In dg Hd)).
  unfold py_tab in T. destruct (py_const u dg) as [k|]; [|discriminate]. apply Z.eqb_eq in T. congruence.
Qed.

(* ------------------------------------------------------------------ pure Python: the match and the constructor arguments *)
Lemma try_tok_frac1 x n ip sep dg c : digits ip -> sepc sep -> is_digit dg = true -> is_digit c = false ->
  try_tok x n (ip ++ [sep; dg; c]) =
  if c =? x then (Some (mk_tok ip (Some [dg]) (n - Z.of_nat (length (ip ++ [sep; dg; c])))), [])
  else (None, ip ++ [sep; dg; c]).
Proof. intros Hi Hs Hd Hc. exact (try_tok_frac x n ip sep [dg] c [] Hi Hs (digits_1 dg Hd) Hc). Qed.

Lemma start_1 (l : list Z) : Z.of_nat (length (c_P :: l)) - Z.of_nat (length l) = 1.
Proof. cbn [length]. lia. Qed.
Lemma start_2 (l : list Z) : Z.of_nat (length (c_P :: c_T :: l)) - Z.of_nat (length l) = 2.
Proof. cbn [length]. lia. Qed.

Ltac open_match :=
  unfold match_duration; cbn [Z.eqb Pos.eqb c_P]; cbv beta iota zeta.
Ltac step_frac Hi Hs Hd :=
  first [ rewrite (try_tok_frac1 _ _ _ _ _ _ Hi Hs Hd) by reflexivity; cbn [Z.eqb Pos.eqb c_W c_Y c_M c_D c_H c_S c_T]; cbv beta iota zeta
        | rewrite try_tok_nodigit by reflexivity; cbv beta iota zeta
        | rewrite try_tok_nil; cbv beta iota zeta
        | progress (cbn [Z.eqb Pos.eqb c_W c_Y c_M c_D c_H c_S c_T]; cbv beta iota zeta) ].

Lemma match_D ip sep dg : digits ip -> sepc sep -> is_digit dg = true ->
  match_duration (c_P :: ip ++ [sep; dg; c_D]) =
  Some (mk_dmatch None None None (Some (mk_tok ip (Some [dg]) 1)) false None None None).
Proof. intros Hi Hs Hd. open_match. repeat step_frac Hi Hs Hd. rewrite start_1. reflexivity. Qed.

Lemma match_W ip sep dg : digits ip -> sepc sep -> is_digit dg = true ->
  match_duration (c_P :: ip ++ [sep; dg; c_W]) =
  Some (mk_dmatch (Some (mk_tok ip (Some [dg]) 1)) None None None false None None None).
Proof. intros Hi Hs Hd. open_match. repeat step_frac Hi Hs Hd. rewrite start_1. reflexivity. Qed.

Lemma match_H ip sep dg : digits ip -> sepc sep -> is_digit dg = true ->
  match_duration (c_P :: c_T :: ip ++ [sep; dg; c_H]) =
  Some (mk_dmatch None None None None true (Some (mk_tok ip (Some [dg]) 2)) None None).
Proof. intros Hi Hs Hd. open_match. repeat step_frac Hi Hs Hd. rewrite start_2. reflexivity. Qed.

Lemma match_M ip sep dg : digits ip -> sepc sep -> is_digit dg = true ->
  match_duration (c_P :: c_T :: ip ++ [sep; dg; c_M]) =
  Some (mk_dmatch None None None None true None (Some (mk_tok ip (Some [dg]) 2)) None).
Proof. intros Hi Hs Hd. open_match. repeat step_frac Hi Hs Hd. rewrite start_2. reflexivity. Qed.

Lemma match_S ip sep dg : digits ip -> sepc sep -> is_digit dg = true ->
  match_duration (c_P :: c_T :: ip ++ [sep; dg; c_S]) =
  Some (mk_dmatch None None None None true None None (Some (mk_tok ip (Some [dg]) 2))).
Proof. intros Hi Hs Hd. open_match. repeat step_frac Hi Hs Hd. rewrite start_2. reflexivity. Qed.

Ltac open_args :=
  unfold py_args;
  cbn [g_weeks g_years g_months g_days g_hms g_hours g_minutes g_seconds bind is_some orb negb andb tok_start t_start t_frac t_int
       Z.ltb Z.compare Pos.compare Pos.compare_cont Z.add Z.opp Pos.add Pos.succ num_add_int];
  cbv beta iota zeta.

Lemma py_args_D ip fs :
  py_args (mk_dmatch None None None (Some (mk_tok ip (Some fs) 1)) false None None None) =
  bind (py_frac10 fs C_HOURS_PER_DAY) (fun hf => Ok (mk_pyargs 0 0 0 (dval ip) (NFloat hf) (NInt 0) (NInt 0) 0)).
Proof. open_args. destruct (py_frac10 fs C_HOURS_PER_DAY); reflexivity. Qed.

Lemma py_args_H ip fs :
  py_args (mk_dmatch None None None None true (Some (mk_tok ip (Some fs) 2)) None None) =
  bind (py_frac10 fs C_MINUTES_PER_HOUR) (fun mf =>
    Ok (mk_pyargs 0 0 0 0 (NInt (dval ip)) (num_add_float (NInt 0) mf) (NInt 0) 0)).
Proof. open_args. destruct (py_frac10 fs C_MINUTES_PER_HOUR); reflexivity. Qed.

Lemma py_args_M ip fs :
  py_args (mk_dmatch None None None None true None (Some (mk_tok ip (Some fs) 2)) None) =
  bind (py_frac10 fs C_SECONDS_PER_MINUTE) (fun sf =>
    Ok (mk_pyargs 0 0 0 0 (NInt 0) (NInt (dval ip)) (num_add_float (NInt 0) sf) 0)).
Proof. open_args. destruct (py_frac10 fs C_SECONDS_PER_MINUTE); reflexivity. Qed.

Lemma py_args_S ip fs :
  py_args (mk_dmatch None None None None true None None (Some (mk_tok ip (Some fs) 2))) =
  Ok (mk_pyargs 0 0 0 0 (NInt 0) (NInt 0) (NInt (dval ip)) (py_us6 fs)).
Proof. open_args. reflexivity. Qed.

(* ------------------------------------------------------------------ pure Python: D H M S, every integer part *)
Lemma py_dur_of_native s x :
  py_native s = bind (td_norm x) (fun dsu => let '(d, s, u) := dsu in Ok (x, (0, 0, d, s, u))) -> py_dur s = native_of 0 0 x.
Proof. unfold py_dur, native_of. intros ->. destruct (td_norm x) as [[[d s'] u]|e]; reflexivity. Qed.

Lemma duration_native_const days s us m h K : frac_const (nfl s) (nfl m) (nfl h) = Some K ->
  duration_native 0 0 0 days h m s us =
  let x := K + (us + nint s * 1000000 + nint m * 60000000 + nint h * 3600000000 + days * US_PER_DAY) in
  bind (td_norm x) (fun dsu => let '(d, s, u) := dsu in Ok (x, (0, 0, d, s, u))).
Proof.
  intros E. unfold duration_native. rewrite (td_total_us_const _ s us m h 0 K E). cbv zeta. cbn [bind].
  replace (K + (us + nint s * 1000000 + nint m * 60000000 + nint h * 3600000000 + (days + 0 * 365 + 0 * 30) * US_PER_DAY + 0 * (7 * US_PER_DAY)))
    with (K + (us + nint s * 1000000 + nint m * 60000000 + nint h * 3600000000 + days * US_PER_DAY)) by ring.
  reflexivity.
Qed.

Lemma py_one_digit_D ip sep dg : digits ip -> sepc sep -> is_digit dg = true ->
  py_dur (one_digit_text false ip sep dg c_D) = native_of 0 0 (exact_us 86400 (dval ip) dg).
Proof.
  intros Hi Hs Hd. apply py_dur_of_native. unfold one_digit_text. cbn [app]. unfold py_native.
  rewrite (match_D ip sep dg Hi Hs Hd), py_args_D.
  pose proof (py_tab_digit UD dg ltac:(auto) Hd) as T. cbn [py_const u_secs] in T.
  destruct (py_frac10 [dg] C_HOURS_PER_DAY) as [hf|e]; [|discriminate]. cbn [bind a_years a_months a_weeks a_days a_hours a_minutes a_seconds a_us].
  rewrite (duration_native_const (dval ip) (NInt 0) 0 (NInt 0) (NFloat hf) _ T). cbv zeta. cbn [nint].
  replace (86400 * (dg - 48) * 100000 + (0 + 0 * 1000000 + 0 * 60000000 + 0 * 3600000000 + dval ip * US_PER_DAY))
    with (exact_us 86400 (dval ip) dg) by (unfold exact_us, US_PER_DAY; ring).
  reflexivity.
Qed.

Lemma py_one_digit_H ip sep dg : digits ip -> sepc sep -> is_digit dg = true ->
  py_dur (one_digit_text true ip sep dg c_H) = native_of 0 0 (exact_us 3600 (dval ip) dg).
Proof.
  intros Hi Hs Hd. apply py_dur_of_native. unfold one_digit_text. cbn [app]. unfold py_native.
  rewrite (match_H ip sep dg Hi Hs Hd), py_args_H.
  pose proof (py_tab_digit UH dg ltac:(auto) Hd) as T. cbn [py_const u_secs] in T.
  destruct (py_frac10 [dg] C_MINUTES_PER_HOUR) as [mf|e]; [|discriminate]. cbn [bind a_years a_months a_weeks a_days a_hours a_minutes a_seconds a_us].
  rewrite (duration_native_const 0 (NInt 0) 0 (num_add_float (NInt 0) mf) (NInt (dval ip)) _ T). cbv zeta. cbn [nint num_add_float].
  replace (3600 * (dg - 48) * 100000 + (0 + 0 * 1000000 + 0 * 60000000 + dval ip * 3600000000 + 0 * US_PER_DAY))
    with (exact_us 3600 (dval ip) dg) by (unfold exact_us, US_PER_DAY; ring).
  reflexivity.
Qed.

Lemma py_one_digit_M ip sep dg : digits ip -> sepc sep -> is_digit dg = true ->
  py_dur (one_digit_text true ip sep dg c_M) = native_of 0 0 (exact_us 60 (dval ip) dg).
Proof.
  intros Hi Hs Hd. apply py_dur_of_native. unfold one_digit_text. cbn [app]. unfold py_native.
  rewrite (match_M ip sep dg Hi Hs Hd), py_args_M.
  pose proof (py_tab_digit UM dg ltac:(auto) Hd) as T. cbn [py_const u_secs] in T.
  destruct (py_frac10 [dg] C_SECONDS_PER_MINUTE) as [sf|e]; [|discriminate]. cbn [bind a_years a_months a_weeks a_days a_hours a_minutes a_seconds a_us].
  rewrite (duration_native_const 0 (num_add_float (NInt 0) sf) 0 (NInt (dval ip)) (NInt 0) _ T). cbv zeta. cbn [nint num_add_float].
  replace (60 * (dg - 48) * 100000 + (0 + 0 * 1000000 + dval ip * 60000000 + 0 * 3600000000 + 0 * US_PER_DAY))
    with (exact_us 60 (dval ip) dg) by (unfold exact_us, US_PER_DAY; ring).
  reflexivity.
Qed.

Lemma py_us6_1 dg : py_us6 [dg] = (dg - 48) * 100000.
Proof. unfold py_us6. cbn [firstn length]. rewrite dval_1. reflexivity. Qed.

Lemma py_one_digit_S ip sep dg : digits ip -> sepc sep -> is_digit dg = true ->
  py_dur (one_digit_text true ip sep dg c_S) = native_of 0 0 (exact_us 1 (dval ip) dg).
Proof.
  intros Hi Hs Hd. apply py_dur_of_native. unfold one_digit_text. cbn [app]. unfold py_native.
  rewrite (match_S ip sep dg Hi Hs Hd), py_args_S. cbn [bind a_years a_months a_weeks a_days a_hours a_minutes a_seconds a_us].
  rewrite duration_native_int. cbv zeta. rewrite py_us6_1.
  replace (int_total_us 0 0 0 0 0 0 (dval ip) ((dg - 48) * 100000)) with (exact_us 1 (dval ip) dg)
    by (unfold int_total_us, exact_us, US_PER_DAY; ring).
  reflexivity.
Qed.

Theorem one_digit_py_all ip sep dg : digits ip -> sepc sep -> is_digit dg = true ->
  py_dur (one_digit_text false ip sep dg c_D) = native_of 0 0 (exact_us 86400 (dval ip) dg) /\
  py_dur (one_digit_text true ip sep dg c_H) = native_of 0 0 (exact_us 3600 (dval ip) dg) /\
  py_dur (one_digit_text true ip sep dg c_M) = native_of 0 0 (exact_us 60 (dval ip) dg) /\
  py_dur (one_digit_text true ip sep dg c_S) = native_of 0 0 (exact_us 1 (dval ip) dg).
Proof.
  intros Hi Hs Hd. repeat split;
    [apply py_one_digit_D | apply py_one_digit_H | apply py_one_digit_M | apply py_one_digit_S]; assumption.
Qed.

(* ------------------------------------------------------------------ compiled parser: the fraction token *)
(* parse_duration_number_frac on one fraction digit: decimal = 0.0 * 10.0 + dg, denominator = 1.0 * 10.0 *)
Definition rs_fr (dg : Z) : spec_float :=
  fdiv (fadd (fmul f_zero (f_of_Z 10)) (f_of_Z (dg - 48))) (fmul f_one (f_of_Z 10)).

Lemma rs_number_frac1 ip sep dg c r : digits ip -> sepc sep -> is_digit dg = true -> is_digit c = false ->
  rs_number_frac (ip ++ sep :: dg :: c :: r) = Ok (u32 (dval ip), Some (rs_fr dg), c :: r).
Proof.
  intros Hi Hs Hd Hc. destruct (sepc_is_sep sep Hs) as [Hs1 Hs2]. unfold rs_number_frac.
  rewrite (rs_number_app ip (sep :: dg :: c :: r) Hi Hs2). cbn [bind]. rewrite Hs1.
  cbn [rs_frac_loop]. rewrite Hd, Hc. reflexivity.
Qed.

Lemma rs_loop_frac1 f d gt ip sep dg c : digits ip -> sepc sep -> is_digit dg = true -> is_digit c = false ->
  rs_loop (S f) d gt false (ip ++ [sep; dg; c]) = rs_unit gt c (u32 (dval ip)) (Some (rs_fr dg)) true d.
Proof.
  intros Hi Hs Hd Hc. destruct (digits_head_not_T ip [sep; dg; c] Hi) as [c0 [l [E HT]]].
  cbn [rs_loop]. rewrite E. rewrite HT. rewrite <- E. rewrite (rs_number_frac1 ip sep dg c [] Hi Hs Hd Hc).
  cbn [bind is_nil]. destruct (rs_unit gt c (u32 (dval ip)) (Some (rs_fr dg)) true d); reflexivity.
Qed.

Lemma rs_loop_T f d lhf l : is_nil l = false -> rs_loop (S f) d false lhf (c_T :: l) = rs_loop f d true lhf l.
Proof. intros H. cbn [rs_loop]. replace (c_T =? c_T) with true by reflexivity. rewrite H. reflexivity. Qed.

Lemma rs_raw_frac1 (time : bool) ip sep dg c : digits ip -> sepc sep -> is_digit dg = true -> is_digit c = false ->
  rs_raw (one_digit_text time ip sep dg c) = rs_unit time c (u32 (dval ip)) (Some (rs_fr dg)) true rsdur0.
Proof.
  intros Hi Hs Hd Hc. unfold one_digit_text, rs_raw. replace (c_P =? c_P) with true by reflexivity. destruct time; cbn [app length].
  - assert (Hn : is_nil (ip ++ [sep; dg; c]) = false) by (destruct Hi as [Hne _]; destruct ip; [congruence|reflexivity]).
    rewrite (rs_loop_T _ _ _ _ Hn). apply rs_loop_frac1; assumption.
  - apply rs_loop_frac1; assumption.
Qed.

(* the integer part occupies a field of its own: the unit's branch with value v is the branch with value 0, v put into the field *)
Definition put (u : unit5) (v : Z) (r : rsdur) : rsdur :=
  match u with
  | UD => mk_rsdur (r_years r) (r_months r) (r_weeks r) (u32 v) (r_hours r) (r_minutes r) (r_seconds r) (r_us r)
  | UH => mk_rsdur (r_years r) (r_months r) (r_weeks r) (r_days r) (u32 v) (r_minutes r) (r_seconds r) (r_us r)
  | UM => mk_rsdur (r_years r) (r_months r) (r_weeks r) (r_days r) (r_hours r) (u32 v) (r_seconds r) (r_us r)
  | US => mk_rsdur (r_years r) (r_months r) (r_weeks r) (r_days r) (r_hours r) (r_minutes r) v (r_us r)
  | UW => mk_rsdur (r_years r) (r_months r) v (r_days r) (r_hours r) (r_minutes r) (r_seconds r) (r_us r)
  end.
Definition getf (u : unit5) (r : rsdur) : Z :=
  match u with UD => r_days r | UH => r_hours r | UM => r_minutes r | US => r_seconds r | UW => r_weeks r end.

Lemma rs_unit_ip u v fr :
  rs_unit (u_time u) (u_char u) v (Some fr) true rsdur0 =
  match rs_unit (u_time u) (u_char u) 0 (Some fr) true rsdur0 with Ok r => Ok (put u v r) | Raise e => Raise e end.
Proof.
  destruct u; unfold rs_unit, rs_spill_hours, rs_spill_minutes, put, u_time, u_char, rsdur0;
  cbn [Z.eqb Pos.eqb c_W c_Y c_M c_D c_H c_S c_T negb orb r_years r_months r_weeks r_days r_hours r_minutes r_seconds r_us Z.add];
  cbv beta iota zeta;
  cbn [r_years r_months r_weeks r_days r_hours r_minutes r_seconds r_us Z.add]; reflexivity.
Qed.

Definition rs_total (r : rsdur) : Z :=
  int_total_us (r_years r) (r_months r) (r_weeks r) (r_days r) (r_hours r) (r_minutes r) (r_seconds r) (r_us r).

(* the float part per digit (kernel computation, once): the fields produced by the fraction alone add up to the exact value *)
Definition rs_tab (u : unit5) (dg : Z) : bool :=
  match rs_unit (u_time u) (u_char u) 0 (Some (rs_fr dg)) true rsdur0 with
  | Ok r => (r_years r =? 0) && (r_months r =? 0) && (getf u r =? 0) && (rs_total r =? u_secs u * (dg - 48) * 100000)
  | Raise _ => false
  end.

Lemma rs_tab_ok : forallb (fun u => forallb (rs_tab u) digs) [UD; UH; UM; US; UW] = true.
Proof. vm_compute. reflexivity. Qed.

Lemma rs_tab_digit u dg : is_digit dg = true ->
  exists r, rs_unit (u_time u) (u_char u) 0 (Some (rs_fr dg)) true rsdur0 = Ok r /\
    r_years r = 0 /\ r_months r = 0 /\ getf u r = 0 /\ rs_total r = u_secs u * (dg - 48) * 100000.
Proof.
  intros Hd. pose proof rs_tab_ok as T. rewrite forallb_forall in T.
  assert (Iu : In u [UD; UH; UM; US; UW]) by (destruct u; cbn [In]; intuition).
  specialize (T u Iu). rewrite forallb_forall in T. specialize (T dg (is_digit_In dg Hd)).
  unfold rs_tab in T. destruct (rs_unit _ _ 0 _ true rsdur0) as [r|e]; [|discriminate].
  apply andb_true_iff in T. destruct T as [T T4]. apply andb_true_iff in T. destruct T as [T T3].
  apply andb_true_iff in T. destruct T as [T1 T2].
  apply Z.eqb_eq in T1, T2, T3, T4. exists r. auto.
Qed.

Lemma rs_glue_put u x r : r_years r = 0 -> r_months r = 0 -> getf u r = 0 ->
  rs_glue (put u (u32 x) r) =
  let t := rs_total r + u32 x * (u_secs u * 1000000) in
  bind (td_norm t) (fun dsu => let '(d, s, us) := dsu in Ok (t, (0, 0, d, s, us))).
Proof.
  intros Hy Hmo Hg. unfold rs_glue. rewrite duration_native_int. cbv zeta.
  assert (E : int_total_us (r_years (put u (u32 x) r)) (r_months (put u (u32 x) r)) (r_weeks (put u (u32 x) r)) (r_days (put u (u32 x) r))
                (r_hours (put u (u32 x) r)) (r_minutes (put u (u32 x) r)) (r_seconds (put u (u32 x) r)) (r_us (put u (u32 x) r))
              = rs_total r + u32 x * (u_secs u * 1000000)).
  { destruct r as [ry rmo rw rd rh rmi rs rus]. unfold rs_total.
    destruct u; cbn [put getf u_secs r_years r_months r_weeks r_days r_hours r_minutes r_seconds r_us] in *; subst;
      rewrite ?u32_idem; unfold int_total_us, US_PER_DAY; ring. }
  rewrite E.
  assert (Ey : r_years (put u (u32 x) r) = 0) by (destruct u; exact Hy).
  assert (Emo : r_months (put u (u32 x) r) = 0) by (destruct u; exact Hmo).
  rewrite Ey, Emo. reflexivity.
Qed.

Lemma rs_one_digit u ip sep dg : digits ip -> sepc sep -> is_digit dg = true ->
  rs_dur (one_digit_text (u_time u) ip sep dg (u_char u)) = native_of 0 0 (exact_us (u_secs u) (u32 (dval ip)) dg).
Proof.
  intros Hi Hs Hd. unfold rs_dur.
  rewrite (rs_raw_frac1 (u_time u) ip sep dg (u_char u) Hi Hs Hd) by (destruct u; reflexivity).
  rewrite rs_unit_ip. destruct (rs_tab_digit u dg Hd) as [r [E [Hy [Hmo [Hg Ht]]]]]. rewrite E. cbn [bind].
  rewrite (rs_glue_put u (dval ip) r Hy Hmo Hg). cbv zeta. rewrite Ht.
  replace (u_secs u * (dg - 48) * 100000 + u32 (dval ip) * (u_secs u * 1000000)) with (exact_us (u_secs u) (u32 (dval ip)) dg)
    by (unfold exact_us; ring).
  unfold native_of. destruct (td_norm _) as [[[d s] us]|e]; reflexivity.
Qed.

Theorem one_digit_rs_all ip sep dg : digits ip -> sepc sep -> is_digit dg = true ->
  rs_dur (one_digit_text false ip sep dg c_D) = native_of 0 0 (exact_us 86400 (u32 (dval ip)) dg) /\
  rs_dur (one_digit_text true ip sep dg c_H) = native_of 0 0 (exact_us 3600 (u32 (dval ip)) dg) /\
  rs_dur (one_digit_text true ip sep dg c_M) = native_of 0 0 (exact_us 60 (u32 (dval ip)) dg) /\
  rs_dur (one_digit_text true ip sep dg c_S) = native_of 0 0 (exact_us 1 (u32 (dval ip)) dg) /\
  rs_dur (one_digit_text false ip sep dg c_W) = native_of 0 0 (exact_us 604800 (u32 (dval ip)) dg).
Proof.
  intros Hi Hs Hd.
  split; [exact (rs_one_digit UD ip sep dg Hi Hs Hd)|]. split; [exact (rs_one_digit UH ip sep dg Hi Hs Hd)|].
  split; [exact (rs_one_digit UM ip sep dg Hi Hs Hd)|]. split; [exact (rs_one_digit US ip sep dg Hi Hs Hd)|].
  exact (rs_one_digit UW ip sep dg Hi Hs Hd).
Qed.

(* ------------------------------------------------------------------ in the vocabulary of one_digit_ok (Proofs/C13Rej.v) *)
Ltac Zify.zify_post_hook ::= Z.to_euclidean_division_equations.

Lemma digs_are_digits : forallb is_digit digs = true.
Proof. reflexivity. Qed.

(* while the largest of the ten values (digit 9) is inside timedelta's range, all twenty texts are parsed to the exact value *)
Lemma one_digit_ok_of parse time c unit_secs ip :
  (forall sep dg, sepc sep -> is_digit dg = true ->
     parse (one_digit_text time ip sep dg c) = native_of 0 0 (exact_us unit_secs (dval ip) dg)) ->
  digits ip -> 0 < unit_secs -> exact_us unit_secs (dval ip) 57 / US_PER_DAY <= 999999999 ->
  one_digit_ok parse time c unit_secs ip = true.
Proof.
  intros H [_ Hi] Hu Hr. apply dval_nonneg in Hi. unfold one_digit_ok.
  apply forallb_forall. intros sep Hsep. apply forallb_forall. intros dg Hdg.
  assert (Hs : sepc sep) by (cbn [In] in Hsep; unfold sepc; intuition).
  pose proof digs_are_digits as DD. rewrite forallb_forall in DD. specialize (DD dg Hdg).
  rewrite (H sep dg Hs DD). apply is_digit_range in DD.
  set (x := exact_us unit_secs (dval ip) dg).
  assert (H0 : 0 <= x) by (unfold x, exact_us; nia).
  assert (Hle : x <= exact_us unit_secs (dval ip) 57) by (unfold x, exact_us; nia).
  assert (H1 : x / US_PER_DAY <= 999999999).
  { apply Z.le_trans with (2 := Hr). apply Z.div_le_mono; [reflexivity | exact Hle]. }
  destruct (td_norm_ok x 0 0 H0 H1) as [d [s [u [E Eo]]]].
  unfold native_of. rewrite E. cbn [bind]. rewrite Eo. unfold nearestb, x, exact_us. cbn [Z.eqb andb]. apply Z.leb_le. lia.
Qed.

Theorem one_digit_ok_py ip : digits ip ->
  (exact_us 86400 (dval ip) 57 / US_PER_DAY <= 999999999 -> one_digit_ok py_dur false c_D 86400 ip = true) /\
  (exact_us 3600 (dval ip) 57 / US_PER_DAY <= 999999999 -> one_digit_ok py_dur true c_H 3600 ip = true) /\
  (exact_us 60 (dval ip) 57 / US_PER_DAY <= 999999999 -> one_digit_ok py_dur true c_M 60 ip = true) /\
  (exact_us 1 (dval ip) 57 / US_PER_DAY <= 999999999 -> one_digit_ok py_dur true c_S 1 ip = true).
Proof.
  intros Hi. repeat split; intros Hr; (apply one_digit_ok_of; [|exact Hi|lia|exact Hr]); intros sep dg Hs Hd.
  - apply py_one_digit_D; assumption.
  - apply py_one_digit_H; assumption.
  - apply py_one_digit_M; assumption.
  - apply py_one_digit_S; assumption.
Qed.

Theorem one_digit_ok_rs ip : digits ip -> dval ip < 4294967296 ->
  (exact_us 86400 (dval ip) 57 / US_PER_DAY <= 999999999 -> one_digit_ok rs_dur false c_D 86400 ip = true) /\
  (exact_us 3600 (dval ip) 57 / US_PER_DAY <= 999999999 -> one_digit_ok rs_dur true c_H 3600 ip = true) /\
  (exact_us 60 (dval ip) 57 / US_PER_DAY <= 999999999 -> one_digit_ok rs_dur true c_M 60 ip = true) /\
  (exact_us 1 (dval ip) 57 / US_PER_DAY <= 999999999 -> one_digit_ok rs_dur true c_S 1 ip = true) /\
  (exact_us 604800 (dval ip) 57 / US_PER_DAY <= 999999999 -> one_digit_ok rs_dur false c_W 604800 ip = true).
Proof.
  intros Hi Hsm.
  assert (Eu : u32 (dval ip) = dval ip) by (apply u32_small; split; [apply dval_nonneg; apply Hi | exact Hsm]).
  repeat split; intros Hr; (apply one_digit_ok_of; [|exact Hi|lia|exact Hr]); intros sep dg Hs Hd; rewrite <- Eu.
  - exact (rs_one_digit UD ip sep dg Hi Hs Hd).
  - exact (rs_one_digit UH ip sep dg Hi Hs Hd).
  - exact (rs_one_digit UM ip sep dg Hi Hs Hd).
  - exact (rs_one_digit US ip sep dg Hi Hs Hd).
  - exact (rs_one_digit UW ip sep dg Hi Hs Hd).
Qed.

(* ------------------------------------------------------------------ pure Python, weeks: P<ip>.1W is ip weeks 16 h for EVERY ip (exact: 16.8 h) *)
Lemma py_args_W1 ip :
  py_args (mk_dmatch (Some (mk_tok ip (Some [49]) 1)) None None None false None None None) =
  Ok (mk_pyargs 0 0 (dval ip) 0 (NInt 16) (NInt 0) (NInt 0) 0).
Proof.
  open_args. generalize (dval ip). intro V. vm_compute. reflexivity.
Qed.

Lemma py_one_digit_W1 ip sep : digits ip -> sepc sep ->
  py_dur (one_digit_text false ip sep 49 c_W) = native_of 0 0 (dval ip * 604800000000 + 57600000000).
Proof.
  intros Hi Hs. apply py_dur_of_native. unfold one_digit_text. cbn [app]. unfold py_native.
  rewrite (match_W ip sep 49 Hi Hs eq_refl), py_args_W1. cbn [bind a_years a_months a_weeks a_days a_hours a_minutes a_seconds a_us].
  rewrite duration_native_int. cbv zeta.
  replace (int_total_us 0 0 (dval ip) 0 16 0 0 0) with (dval ip * 604800000000 + 57600000000)
    by (unfold int_total_us, US_PER_DAY; ring).
  reflexivity.
Qed.

(* whatever the integer part: outside timedelta's range the constructor raises, inside the result is 0.8 h short *)
Theorem one_digit_py_weeks_all ip : digits ip -> one_digit_ok py_dur false c_W 604800 ip = false.
Proof.
  intros Hi. apply not_true_is_false. intros H. unfold one_digit_ok in H.
  rewrite forallb_forall in H. specialize (H c_dot (or_introl eq_refl)).
  rewrite forallb_forall in H. specialize (H 49 ltac:(cbn [In]; auto)).
  rewrite (py_one_digit_W1 ip c_dot Hi (or_introl eq_refl)) in H.
  unfold native_of, td_norm in H.
  destruct ((_ <? -999999999) || (999999999 <? _)); cbn [bind] in H; [discriminate|].
  cbn [Z.eqb andb] in H. unfold nearestb, obs_us in H. apply Z.leb_le in H.
  destruct Hi as [_ Hi]. apply dval_nonneg in Hi. unfold US_PER_DAY in H. lia.
Qed.

(* ------------------------------------------------------------------ the hypotheses are satisfiable; the bounds are sharp *)
(* "P12.5D" = 12 d 12 h, "PT007,3H" = 7 h 18 min, "P3.5W" (compiled) = 24 d 12 h *)
Example one_digit_sat :
  digits [49; 50] /\ sepc c_dot /\ sepc c_comma /\ is_digit 53 = true /\
  one_digit_text false [49; 50] c_dot 53 c_D = [80; 49; 50; 46; 53; 68] /\
  py_dur (one_digit_text false [49; 50] c_dot 53 c_D) = Ok (0, 0, 12, 43200, 0) /\
  py_dur (one_digit_text true [48; 48; 55] c_comma 51 c_H) = Ok (0, 0, 0, 26280, 0) /\
  rs_dur (one_digit_text false [51] c_dot 53 c_W) = Ok (0, 0, 24, 43200, 0) /\
  exact_us 86400 (dval [49; 50]) 57 / US_PER_DAY <= 999999999.
Proof.
  repeat split; try discriminate; try reflexivity; try (left; reflexivity); try (right; reflexivity);
    try (vm_compute; reflexivity); vm_compute; discriminate.
Qed.

(* just outside timedelta's range the exact value is not returned (OverflowError): P999999999.9D is the last good one *)
Example one_digit_range_sharp :
  py_dur (one_digit_text false [57; 57; 57; 57; 57; 57; 57; 57; 57] c_dot 57 c_D) = Ok (0, 0, 999999999, 77760, 0) /\
  py_dur (one_digit_text false [49; 48; 48; 48; 48; 48; 48; 48; 48; 48] c_dot 48 c_D) = Raise E_OverflowError /\
  rs_dur (one_digit_text false [49; 48; 48; 48; 48; 48; 48; 48; 48; 48] c_dot 48 c_D) = Raise E_OverflowError.
Proof. repeat split; vm_compute; reflexivity. Qed.

(* beyond u32 the compiled parser wraps: PT4294967297.5S is 1.5 s *)
Example one_digit_u32_sharp :
  rs_dur (one_digit_text true [52; 50; 57; 52; 57; 54; 55; 50; 57; 55] c_dot 53 c_S) = Ok (0, 0, 0, 1, 500000) /\
  py_dur (one_digit_text true [52; 50; 57; 52; 57; 54; 55; 50; 57; 55] c_dot 53 c_S) = Ok (0, 0, 49710, 23297, 500000).
Proof. split; vm_compute; reflexivity. Qed.

Print Assumptions one_digit_py_all.
Print Assumptions one_digit_rs_all.
Print Assumptions one_digit_ok_py.
Print Assumptions one_digit_ok_rs.
Print Assumptions one_digit_py_weeks_all.
