(* Proofs/C06Cross.v (C06, C18) — the pure-Python precise_diff on two aware datetimes in DIFFERENTLY NAMED zones, at ANY offsets: the translated code
   moves both operands to UTC with their own offsets (d - d.utcoffset(), real calendar arithmetic: p_shift), so
     cross_core      its result has the same years .. microseconds as precise_diff on the two UTC readings (utc_of: the wall fields of the instant,
                     offset 0) — only total_days, taken BEFORE the shift, may differ;
     py_pd_spec_cross hence it satisfies C06's arithmetic specification pd_spec on the two UTC readings (py_pd_spec is APPLIED to them).
   Proof structure: both sides are reduced to the same tail of the translated function over the same field atoms; the 640-leaf case analysis is
   closed by reflexivity (no arithmetic), the arithmetic is the one already done in Proofs/C06Spec.v. *)
From Coq Require Import ZArith List Bool Lia ZifyBool.
From PV Require Import Lib.PyBase Spec.Cal Proofs.CalFacts Gen.Constants Gen.Helpers Model.PdBase Gen.PreciseDiff.
From PV Require Import Proofs.C06Facts Proofs.C06Spec Proofs.C06Rebuild.
Import ListNotations.
Ltac Zify.zify_post_hook ::= Z.to_euclidean_division_equations.
Open Scope Z_scope.

(* the UTC reading of an operand: the wall fields of its instant, offset 0, same tzinfo *)
Definition utc_of (d : pdt) : pdt :=
  let '(y, m, dd, hh, mm, ss, us) := fields_of_wall (p_instant d) in
  mkpdt y m dd hh mm ss us 0 (p_has_tz d) (p_tzname d) (p_tzobj d) (p_is_dt d).

Lemma fields_of_wall_spec w :
  let '(y, m, d, hh, mm, ss, us) := fields_of_wall w in
  valid_dateb y m d = true /\ 0 <= hh <= 23 /\ 0 <= mm <= 59 /\ 0 <= ss <= 59 /\ 0 <= us <= 999999 /\ wall_of y m d hh mm ss us = w.
Proof.
  unfold fields_of_wall. cbv zeta.
  pose proof (ord2ymd_spec (w / us_per_day + 1)) as S.
  destruct (ord2ymd (w / us_per_day + 1)) as [[y m] d]. destruct S as [V O].
  split; [exact V|]. unfold wall_of. rewrite O. unfold us_per_day in *.
  assert (0 <= w mod 86400000000 < 86400000000) by (apply Z.mod_pos_bound; lia).
  repeat split; try lia.
Qed.

Lemma utc_of_wf d : wf_op (utc_of d) /\ p_wall (utc_of d) = p_instant d.
Proof.
  unfold utc_of. pose proof (fields_of_wall_spec (p_instant d)) as S.
  destruct (fields_of_wall (p_instant d)) as [[[[[[y m] dd] hh] mm] ss] us].
  destruct S as (V & Hh & Hm & Hs & Hu & W).
  unfold wf_op, wf_time, p_wall. cbn [p_year p_month p_day p_hour p_minute p_second p_microsecond p_offset]. tauto.
Qed.

Lemma utc_of_attrs d : p_is_dt (utc_of d) = p_is_dt d /\ p_has_tz (utc_of d) = p_has_tz d /\ p_tzname (utc_of d) = p_tzname d /\
  p_tzobj (utc_of d) = p_tzobj d /\ p_offset (utc_of d) = 0.
Proof. unfold utc_of. destruct (fields_of_wall (p_instant d)) as [[[[[[y m] dd] hh] mm] ss] us]. cbn. repeat split. Qed.

(* what precise_diff computes with after `if offset: d = d - timedelta(seconds=offset)` *)
Definition shifted (d : pdt) : pdt := if negb (p_offset d =? 0) then p_shift d (p_offset d) else d.

Lemma shifted_fields d : valid_dateb (p_year d) (p_month d) (p_day d) = true -> wf_time d ->
  p_year (shifted d) = p_year (utc_of d) /\ p_month (shifted d) = p_month (utc_of d) /\ p_day (shifted d) = p_day (utc_of d) /\
  p_hour (shifted d) = p_hour (utc_of d) /\ p_minute (shifted d) = p_minute (utc_of d) /\ p_second (shifted d) = p_second (utc_of d) /\
  p_microsecond (shifted d) = p_microsecond (utc_of d).
Proof.
  intros V (Hh & Hm & Hs & Hu). unfold shifted, utc_of.
  destruct (p_offset d =? 0) eqn:E; cbn [negb].
  - assert (Ei : p_instant d = p_wall d) by (unfold p_instant; lia). rewrite Ei. unfold p_wall.
    rewrite fields_of_wall_of by assumption. cbn. repeat split; reflexivity.
  - unfold p_shift, p_of_wall, p_instant.
    destruct (fields_of_wall (p_wall d - p_offset d * 1000000)) as [[[[[[y m] dd] hh] mm] ss] us]. cbn. repeat split; reflexivity.
Qed.

Definition cross_pair (a b : pdt) : Prop :=
  valid_dateb (p_year a) (p_month a) (p_day a) = true /\ wf_time a /\ valid_dateb (p_year b) (p_month b) (p_day b) = true /\ wf_time b /\
  p_is_dt a = true /\ p_is_dt b = true /\ p_has_tz a = true /\ p_has_tz b = true /\
  p_tzobj a <> p_tzobj b /\ tzname_same (p_tzname a) (p_tzname b) = false.

(* years .. microseconds of a result *)
Definition core7 (r : pdiff) : Z * Z * Z * Z * Z * Z * Z :=
  (pd_years r, pd_months r, pd_days r, pd_hours r, pd_minutes r, pd_seconds r, pd_microseconds r).

Lemma pd_spec_core7 a b r r' : core7 r = core7 r' -> pd_spec a b r -> pd_spec a b r'.
Proof.
  unfold core7. intros E. injection E as E1 E2 E3 E4 E5 E6 E7. unfold pd_spec. rewrite E1, E2, E3, E4, E5, E6, E7. exact (fun H => H).
Qed.

Lemma utc_dt_pair a b : cross_pair a b -> dt_pair (utc_of a) (utc_of b).
Proof.
  intros (_ & _ & _ & _ & Da & Db & Za & Zb & _).
  destruct (utc_of_attrs a) as (A1 & A2 & _). destruct (utc_of_attrs b) as (B1 & B2 & _).
  unfold dt_pair. rewrite A1, A2, B1, B2, Da, Db, Za, Zb. repeat split; try reflexivity; apply utc_of_wf.
Qed.

Lemma cross_core a b : cross_pair a b -> p_instant a < p_instant b ->
  match py_precise_diff a b, py_precise_diff (utc_of a) (utc_of b) with
  | Ok r, Ok r' => core7 r = core7 r'
  | _, _ => False
  end.
Proof.
  intros C Hlt. pose proof (utc_dt_pair a b C) as P'.
  destruct C as (Va0 & Ta0 & Vb0 & Tb0 & Da & Db & Za & Zb & Hobj & Hname).
  (* ---- the left side: the cross-zone call *)
  assert (Aa : p_aware a = true) by (unfold p_aware; rewrite Da, Za; reflexivity).
  assert (Ab : p_aware b = true) by (unfold p_aware; rewrite Db, Zb; reflexivity).
  assert (Kx : forall x, p_is_dt x = true -> p_key a b x = p_instant x).
  { intros x Hx. unfold p_key. rewrite Hx, Aa, Ab. cbn [negb andb]. replace (p_tzobj a =? p_tzobj b) with false by lia. reflexivity. }
  assert (Eq : p_eqb a b = false) by (unfold p_eqb; rewrite (Kx a Da), (Kx b Db); lia).
  assert (Gt : p_gtb a b = false) by (unfold p_gtb; rewrite (Kx a Da), (Kx b Db); lia).
  assert (Ua : p_utcoffset a = p_offset a) by (unfold p_utcoffset; rewrite Aa; reflexivity).
  assert (Ub : p_utcoffset b = p_offset b) by (unfold p_utcoffset; rewrite Ab; reflexivity).
  pose proof (shifted_fields a Va0 Ta0) as (A1 & A2 & A3 & A4 & A5 & A6 & A7).
  pose proof (shifted_fields b Vb0 Tb0) as (B1 & B2 & B3 & B4 & B5 & B6 & B7).
  (* ---- the right side: the call on the UTC readings (offset 0: no shift) *)
  destruct (utc_of_wf a) as (_ & Wa). destruct (utc_of_wf b) as (_ & Wb).
  destruct (utc_of_attrs a) as (Ia & Ha & Na & Oba & Oa). destruct (utc_of_attrs b) as (Ib & Hb & Nb & Obb & Ob).
  set (a' := utc_of a) in *. set (b' := utc_of b) in *.
  destruct P' as (_ & _ & Da' & Db' & Htz').
  assert (Aa' : p_aware a' = true) by (unfold p_aware; rewrite Da', Ha, Za; reflexivity).
  assert (Ab' : p_aware b' = true) by (unfold p_aware; rewrite Db', Hb, Zb; reflexivity).
  assert (Ka' : p_key a' b' a' = p_wall a') by (apply key_dt; auto).
  assert (Kb' : p_key a' b' b' = p_wall b') by (apply key_dt; auto).
  assert (Eq' : p_eqb a' b' = false) by (unfold p_eqb; rewrite Ka', Kb'; lia).
  assert (Gt' : p_gtb a' b' = false) by (unfold p_gtb; rewrite Ka', Kb'; lia).
  assert (Ua' : p_utcoffset a' = 0) by (unfold p_utcoffset; rewrite Oa; destruct (p_aware a'); reflexivity).
  assert (Ub' : p_utcoffset b' = 0) by (unfold p_utcoffset; rewrite Ob; destruct (p_aware b'); reflexivity).
  unfold shifted in *.
  unfold py_precise_diff. rewrite Eq, Gt, Eq', Gt'.
  unfold tz_is_none, tzinfo_of, tz_truthy, tz_name_of. cbn [fst snd]. rewrite Aa, Ab, Aa', Ab'. cbn [negb andb orb].
  rewrite Na, Nb, Hname. cbv beta iota zeta. cbn [negb orb]. rewrite Ua, Ub, Ua', Ub', Da, Db, Da', Db'. cbn [Z.eqb negb]. cbv beta iota zeta.
  set (X := if negb (p_offset a =? 0) then p_shift a (p_offset a) else a) in *.
  set (Y := if negb (p_offset b =? 0) then p_shift b (p_offset b) else b) in *.
  clearbody X Y a' b'.
  destruct X as [xy xm xd xh xi xs xu xo xt xn xb xk]. destruct Y as [yy ym yd yh yi ys yu yo yt yn yb yk].
  cbn [p_year p_month p_day p_hour p_minute p_second p_microsecond] in A1, A2, A3, A4, A5, A6, A7, B1, B2, B3, B4, B5, B6, B7.
  subst xy xm xd xh xi xs xu yy ym yd yh yi ys yu.
  clear. cbn [p_year p_month p_day p_hour p_minute p_second p_microsecond].
  (* both sides are now the same tail over the same atoms; only total_days (not in core7) differs *)
  abstract (repeat (match goal with |- context [if ?c then _ else _] => destruct c end; cbv beta iota zeta;
          cbn [p_year p_month p_day p_hour p_minute p_second p_microsecond]); reflexivity).
Qed.

(* the universal cross-zone specification: pd_spec on the two UTC readings *)
Theorem py_pd_spec_cross a b : cross_pair a b -> p_instant a < p_instant b ->
  match py_precise_diff a b with Ok r => pd_spec (utc_of a) (utc_of b) r | Raise _ => False end.
Proof.
  intros C Hlt. pose proof (cross_core a b C Hlt) as K. pose proof (utc_dt_pair a b C) as P'.
  assert (Hw : p_wall (utc_of a) < p_wall (utc_of b)) by (rewrite (proj2 (utc_of_wf a)), (proj2 (utc_of_wf b)); exact Hlt).
  pose proof (py_pd_spec _ _ P' Hw) as S.
  destruct (py_precise_diff a b) as [r|]; [|contradiction]. destruct (py_precise_diff (utc_of a) (utc_of b)) as [r'|]; [|contradiction].
  destruct S as [S _]. apply (pd_spec_core7 _ _ r' r); [symmetry; exact K|exact S].
Qed.

(* C06: the components of a cross-zone pair ARE those of the two UTC readings *)
Theorem pd_cross_zone_is_utc_lemma a b : cross_pair a b -> p_instant a < p_instant b ->
  exists r r', py_precise_diff a b = Ok r /\ py_precise_diff (utc_of a) (utc_of b) = Ok r' /\ core7 r = core7 r' /\
               pd_spec (utc_of a) (utc_of b) r /\ wf_op (utc_of a) /\ wf_op (utc_of b) /\
               p_wall (utc_of a) = p_instant a /\ p_wall (utc_of b) = p_instant b.
Proof.
  intros C Hlt. pose proof (cross_core a b C Hlt) as K. pose proof (py_pd_spec_cross a b C Hlt) as S.
  destruct (py_precise_diff a b) as [r|]; [|contradiction]. destruct (py_precise_diff (utc_of a) (utc_of b)) as [r'|]; [|contradiction].
  exists r, r'. destruct (utc_of_wf a) as [Wfa Ea]. destruct (utc_of_wf b) as [Wfb Eb].
  exact (conj eq_refl (conj eq_refl (conj K (conj S (conj Wfa (conj Wfb (conj Ea Eb))))))).
Qed.

(* all components canonical, cross-zone *)
Theorem pd_cross_zone_ranges_lemma a b : cross_pair a b -> p_instant a < p_instant b ->
  exists r, py_precise_diff a b = Ok r /\ in_ranges r.
Proof.
  intros C Hlt. destruct (pd_cross_zone_is_utc_lemma a b C Hlt) as (r & r' & E & _ & _ & S & Wa & Wb & Ea & Eb).
  exists r. split; [exact E|]. apply (spec_ranges (utc_of a) (utc_of b)); [exact Wa|exact Wb|rewrite Ea, Eb; exact Hlt|exact S].
Qed.
