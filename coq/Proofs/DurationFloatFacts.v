(* Proofs/DurationFloatFacts.v — the hand model Model/Duration.v IS the code: every function of Gen/DurationFloat.v (translated from
   /repo's src/pendulum/duration.py on every run by tools/vlib/pyfloat2gallina.py) equals its hand-written counterpart, for ALL arguments.
   A semantic edit of the float code of duration.py therefore breaks one of these proofs (or the translation fails closed).
   No axioms; the equalities are structural (unfold, case analysis on the operations that can raise, reflexivity). *)
From Coq Require Import ZArith List Bool Lia.
From Coq Require Import Floats.SpecFloat.
From PV Require Import Lib.PyBase Spec.TdFloat Gen.Constants Model.Duration Gen.DurationFloat.
Import ListNotations.
Open Scope Z_scope.

(* ------------------------------------------------------------------ _sign, the cached properties *)
Lemma gen_sign_eq : forall v, gen_sign v = d_sign v.
Proof. reflexivity. Qed.

Lemma gen_hours_eq : forall d, gen_hours d = dur_hours d.
Proof. reflexivity. Qed.

Lemma gen_minutes_eq : forall d, gen_minutes d = dur_minutes d.
Proof. reflexivity. Qed.

Lemma gen_remaining_seconds_eq : forall d, gen_remaining_seconds d = dur_remaining_seconds d.
Proof. reflexivity. Qed.

(* ------------------------------------------------------------------ total_*(), invert, in_*() — with the method resolution on the class *)
Lemma gen_total_seconds_eq : forall d, gen_total_seconds d = dur_total_seconds d.
Proof. reflexivity. Qed.

Lemma gen_total_minutes_eq : forall d, gen_total_minutes d = dur_total_minutes d.
Proof. reflexivity. Qed.

Lemma gen_total_hours_eq : forall d, gen_total_hours d = dur_total_hours d.
Proof. reflexivity. Qed.

Lemma gen_total_days_eq : forall d, gen_total_days d = dur_total_days d.
Proof. reflexivity. Qed.

Lemma gen_total_weeks_eq : forall d, gen_total_weeks d = dur_total_weeks d.
Proof. reflexivity. Qed.

Lemma gen_invert_eq : forall d, gen_invert d = dur_invert d.
Proof.
  intros d. unfold gen_invert, dur_invert, gen_AbsoluteDuration_invert, gen_Duration_invert. cbv zeta.
  rewrite gen_total_seconds_eq. reflexivity.
Qed.

Lemma bind_ok {A} (r : result A) : bind r (fun x => Ok x) = r.
Proof. destruct r; reflexivity. Qed.

Lemma gen_in_weeks_eq : forall d, gen_in_weeks d = dur_in_weeks d.
Proof. intros d. unfold gen_in_weeks. apply bind_ok. Qed.
Lemma gen_in_days_eq : forall d, gen_in_days d = dur_in_days d.
Proof. intros d. unfold gen_in_days. apply bind_ok. Qed.
Lemma gen_in_hours_eq : forall d, gen_in_hours d = dur_in_hours d.
Proof. intros d. unfold gen_in_hours. apply bind_ok. Qed.
Lemma gen_in_minutes_eq : forall d, gen_in_minutes d = dur_in_minutes d.
Proof. intros d. unfold gen_in_minutes. apply bind_ok. Qed.
Lemma gen_in_seconds_eq : forall d, gen_in_seconds d = dur_in_seconds d.
Proof. intros d. unfold gen_in_seconds. apply bind_ok. Qed.

(* ------------------------------------------------------------------ Duration.__new__ *)
(* the code converts the int m = +-1 with the general int -> float conversion; the hand model writes the constant *)
Lemma float_of_sign : forall b : bool, py_float_of_int (if b then -1 else 1) = Ok (sf_of_Z (if b then -1 else 1)).
Proof. intros [|]; reflexivity. Qed.

Theorem gen_duration_new_eq : forall d s us ms mi h w y mo,
  gen_duration_new d s us ms mi h w y mo = duration_new d s us ms mi h w y mo.
Proof.
  intros. unfold gen_duration_new, duration_new, float_pipeline, split_total, DAYS_PER_Y, DAYS_PER_M. cbv zeta.
  replace (d + y * 365 + mo * 30) with (d + (y * 365 + mo * 30)) by ring.
  destruct (td_of_int_args (d + (y * 365 + mo * 30)) s us ms mi h w) as [N|e]; [|reflexivity]. cbn [bind].
  destruct (py_float_of_int ((y * 365 + mo * 30) * C_SECONDS_PER_DAY)) as [fy|e]; [|reflexivity]. cbn [bind].
  set (total := fsub (total_seconds N) fy).
  change (sf_of_Z 0) with f_zero.
  rewrite (float_of_sign (flt total f_zero)). cbn [bind].
  destruct (py_float_mod total (sf_of_Z (if flt total f_zero then -1 else 1))) as [fr|e]; [|reflexivity]. cbn [bind].
  change (sf_of_Z 1000000) with f_1e6.
  destruct (py_round_half_even (fmul fr f_1e6)) as [micro|e]; [|reflexivity]. cbn [bind].
  destruct (py_int_trunc total) as [it|e]; [|reflexivity]. cbn [bind].
  reflexivity.
Qed.

(* ------------------------------------------------------------------ AbsoluteDuration.__new__ *)
(* the code builds the same timedelta twice (self, and `delta` for its total_seconds()); the hand model builds it once *)
Theorem gen_absolute_duration_new_eq : forall d s us ms mi h w y mo,
  gen_absolute_duration_new d s us ms mi h w y mo = absolute_duration_new d s us ms mi h w y mo.
Proof.
  intros. unfold gen_absolute_duration_new, absolute_duration_new, DAYS_PER_Y, DAYS_PER_M. cbv zeta.
  destruct (td_of_int_args d s us ms mi h w) as [N|e]; [|reflexivity]. cbn [bind].
  destruct (py_float_mod (fabs (total_seconds N)) (sf_of_Z 1)) as [fr|e]; [|reflexivity]. cbn [bind].
  change (sf_of_Z 1000000) with f_1e6.
  destruct (py_round_half_even (fmul fr f_1e6)) as [micro|e]; [|reflexivity]. cbn [bind].
  destruct (py_int_trunc (fabs (total_seconds N))) as [it|e]; [|reflexivity]. cbn [bind].
  reflexivity.
Qed.

(* ------------------------------------------------------------------ the bundles stated in Props/C09.v *)
Theorem accessors_eq : forall d,
  gen_sign = d_sign /\
  gen_hours d = dur_hours d /\ gen_minutes d = dur_minutes d /\ gen_remaining_seconds d = dur_remaining_seconds d /\
  gen_total_seconds d = dur_total_seconds d /\ gen_total_minutes d = dur_total_minutes d /\ gen_total_hours d = dur_total_hours d /\
  gen_total_days d = dur_total_days d /\ gen_total_weeks d = dur_total_weeks d /\ gen_invert d = dur_invert d /\
  gen_in_weeks d = dur_in_weeks d /\ gen_in_days d = dur_in_days d /\ gen_in_hours d = dur_in_hours d /\
  gen_in_minutes d = dur_in_minutes d /\ gen_in_seconds d = dur_in_seconds d.
Proof.
  intros d. split; [reflexivity|].
  repeat split; auto using gen_hours_eq, gen_minutes_eq, gen_remaining_seconds_eq, gen_total_seconds_eq, gen_total_minutes_eq,
    gen_total_hours_eq, gen_total_days_eq, gen_total_weeks_eq, gen_invert_eq, gen_in_weeks_eq, gen_in_days_eq, gen_in_hours_eq,
    gen_in_minutes_eq, gen_in_seconds_eq.
Qed.

Print Assumptions gen_duration_new_eq.
Print Assumptions gen_absolute_duration_new_eq.
Print Assumptions accessors_eq.
