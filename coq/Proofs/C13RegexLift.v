(* Proofs/C13RegexLift.v — C13: the theorems about the pure-Python duration parser restated for the pipeline in which the generated
   regular expression is EXECUTED (Model/DurRegexMatch.v py_dur_re), by `py_dur_re_eq` (Proofs/C13Regex.v). *)
From Coq Require Import ZArith List Bool.
From PV Require Import Lib.PyBase Model.DurParse Model.DurSpec Model.DurRegexMatch.
From PV Require Import Proofs.C13Facts Proofs.C13Int Proofs.C13Py Proofs.C13Main Proofs.C13Rej Proofs.C13Regex.
Import ListNotations.
Open Scope Z_scope.

Lemma py_int_all_re y mo d t : owf y -> owf mo -> owf d -> twf t ->
  py_dur_re (render_dur y mo d t) =
  native_of (oval y) (oval mo) (int_us (oval y) (oval mo) (oval d) (oval (t_h t)) (oval (t_mi t)) (oval (t_s t))).
Proof. intros. rewrite py_dur_re_eq. apply py_int_all; assumption. Qed.

Lemma py_frac_ym_re ds sep fs c r : digits ds -> sepc sep -> digits fs -> c = c_Y \/ c = c_M ->
  py_dur_re (c_P :: ds ++ sep :: fs ++ c :: r) = Raise E_ValueError.
Proof. intros. rewrite py_dur_re_eq. apply py_frac_ym; assumption. Qed.
