(* Proofs/C19Zone.v — Interval.range on aware values in a real zone.
   Fixed-length units (hours .. microseconds), every well-formed zone: the k-th value is the rendering of start instant + k*n units.
   Wall-clock units (years .. days), every zone: strictly monotone on the wall clock provided no step lands in a gap at least as long as the step.
   Witnesses (vm_compute) that the unrestricted statements fail for the faithful model: a skipped day, a repeated hour, the calendar limit,
   membership in an inverted interval. *)
From Coq Require Import ZArith List Bool Lia ZifyBool.
From PV Require Import Lib.PyBase Spec.Cal Spec.Zone Spec.NativeDT Proofs.CalFacts Proofs.ZoneFacts Proofs.AddDurationFacts Proofs.C03Facts.
From PV Require Import Gen.Constants Gen.Helpers Gen.AddDuration Model.TzConvert Model.IntervalRange Gen.IntervalRange Proofs.C19Facts Proofs.C19Mono.
Import ListNotations.
Ltac Zify.zify_post_hook ::= Z.to_euclidean_division_equations.
Open Scope Z_scope.

(* add_duration with exactly one keyword unit set (the shape of every call range() makes) *)
Lemma add_dur_sel W isdt u a d' : wall_in_range W = true -> 0 <= u <= 7 -> (isdt = true \/ u <= 3) ->
  py_add_duration (mkndt W isdt) (if u =? 0 then a else 0) (if u =? 1 then a else 0) (if u =? 2 then a else 0) (if u =? 3 then a else 0)
     (if u =? 4 then a else 0) (if u =? 5 then a else 0) (if u =? 6 then a else 0) (if u =? 7 then a else 0) = Ok d' ->
  n_wall d' = nshift W u a /\ wall_in_range (n_wall d') = true.
Proof.
  intros Hr Hu Hi Hd.
  assert (G : (u <= 1) \/ (2 <= u <= 3) \/ (4 <= u)) by lia. destruct G as [G|[G|G]].
  - replace (u =? 2) with false in Hd by lia. replace (u =? 3) with false in Hd by lia. replace (u =? 4) with false in Hd by lia.
    replace (u =? 5) with false in Hd by lia. replace (u =? 6) with false in Hd by lia. replace (u =? 7) with false in Hd by lia.
    pose proof (add_dur_ym _ _ _ _ _ Hr Hd) as L. cbv zeta in L. rewrite sel_ym in L by lia.
    unfold nshift. replace (u <=? 1) with true by lia.
    destruct (ym_add _ _ (if u =? 0 then 12 * a else a)) as [y' m']. destruct L as [L1 [_ L3]]. split; assumption.
  - replace (u =? 0) with false in Hd by lia. replace (u =? 1) with false in Hd by lia. replace (u =? 4) with false in Hd by lia.
    replace (u =? 5) with false in Hd by lia. replace (u =? 6) with false in Hd by lia. replace (u =? 7) with false in Hd by lia.
    pose proof (add_dur_noym _ _ _ _ _ _ _ _ _ Hr (or_intror (conj eq_refl (conj eq_refl (conj eq_refl eq_refl)))) Hd) as L. cbv zeta in L.
    destruct (sel_days u a G) as [S1 S2]. rewrite S2 in L. rewrite S1 in L.
    unfold nshift. replace (u <=? 1) with false by lia.
    destruct L as [L1 [_ L3]]. split; [|exact L3]. rewrite L1. destruct isdt; reflexivity.
  - assert (isdt = true) by (destruct Hi; [assumption|lia]). subst isdt.
    replace (u =? 0) with false in Hd by lia. replace (u =? 1) with false in Hd by lia.
    replace (u =? 2) with false in Hd by lia. replace (u =? 3) with false in Hd by lia.
    pose proof (add_dur_noym _ _ _ _ _ _ _ _ _ Hr (or_introl eq_refl) Hd) as L. cbv zeta in L.
    rewrite sel_total in L by lia. destruct L as [L1 [_ L3]]. split; [|exact L3].
    rewrite L1. unfold nshift. replace (u <=? 1) with false by lia. reflexivity.
Qed.

(* ---------------------------------------------------------------- fixed-length units in a well-formed zone *)
Theorem shift_fixed_units s u a x : wf_zone (dv_zone s) = true -> dv_kind s = K_AWARE -> 4 <= u <= 7 -> shift s u a = Ok x ->
  dv_inst x = dv_inst s + a * unit_len u /\ (dv_W x, dv_f x) = render (dv_zone s) (dv_inst s + a * unit_len u) /\
  dv_kind x = dv_kind s /\ dv_zone x = dv_zone s /\ dv_tzid x = dv_tzid s.
Proof.
  intros Hwf Hk Hu H. unfold shift in H. cbv zeta beta in H.
  replace ((u <? 0) || (7 <? u)) with false in H by lia. rewrite Hk in H.
  change (K_AWARE =? K_DATE) with false in H. change (K_AWARE =? K_NAIVE) with false in H. cbv iota in H.
  replace (u <=? 3) with false in H by lia.
  unfold add_fixed in H. fold (dv_inst s) in H.
  destruct (wall_in_range (dv_inst s)) eqn:EU; cbn [negb] in H; [|discriminate].
  destruct (py_add_duration _ _ _ _ _ _ _ _ _) as [d'|e] eqn:Ed; [|discriminate].
  assert (F : n_wall d' = dv_inst s + a * unit_len u).
  { pose proof (add_dur_noym _ _ _ _ _ _ _ _ _ EU (or_introl eq_refl) Ed) as L. cbv zeta in L.
    rewrite sel_total in L by lia. exact (proj1 L). }
  rewrite F in H.
  pose proof (render_inst (dv_zone s) (dv_inst s + a * unit_len u) Hwf) as R.
  destruct (render (dv_zone s) (dv_inst s + a * unit_len u)) as [W2 f2].
  destruct (wall_in_range W2); [|discriminate]. injection H as <-.
  unfold dv_inst at 1. cbn [with_wall dv_W dv_kind dv_zone dv_tzid dv_f]. repeat split; try reflexivity. exact R.
Qed.

(* along a range with a fixed-length unit the instants are start + k*n units (minus when going down): strictly monotone, exactly n units apart *)
Theorem range_fixed_units_instants_l fuel iv u n k x :
  wf_zone (dv_zone (iv_start iv)) = true -> dv_kind (iv_start iv) = K_AWARE -> 4 <= u <= 7 ->
  nth_error (fst (py_range fuel iv u n)) k = Some x ->
  dv_inst x = dv_inst (iv_start iv) + amount_at iv n k * unit_len u /\ dv_zone x = dv_zone (iv_start iv) /\ dv_tzid x = dv_tzid (iv_start iv).
Proof.
  intros Hwf Hk Hu H. apply range_kth_l in H. destruct k as [|k].
  - cbn in H. injection H as <-. unfold amount_at. destruct (range_down iv); repeat split; lia.
  - cbn [seq_at] in H. unfold call_method, range_meth in H. unfold amount_at.
    destruct (range_down iv).
    + change (M_subtract =? M_subtract) with true in H. cbv iota in H.
      destruct (shift_fixed_units _ _ _ _ Hwf Hk Hu H) as (A & _ & _ & D & E). repeat split; assumption.
    + change (M_add =? M_subtract) with false in H. cbv iota in H.
      destruct (shift_fixed_units _ _ _ _ Hwf Hk Hu H) as (A & _ & _ & D & E). repeat split; assumption.
Qed.

Theorem range_fixed_units_mono_l fuel iv u n j k x y :
  wf_zone (dv_zone (iv_start iv)) = true -> dv_kind (iv_start iv) = K_AWARE -> 4 <= u <= 7 -> 1 <= n -> (j < k)%nat ->
  nth_error (fst (py_range fuel iv u n)) j = Some x -> nth_error (fst (py_range fuel iv u n)) k = Some y ->
  if range_down iv then dv_inst y < dv_inst x else dv_inst x < dv_inst y.
Proof.
  intros Hwf Hk Hu Hn Hjk Hx Hy.
  destruct (range_fixed_units_instants_l _ _ _ _ _ _ Hwf Hk Hu Hx) as [Ax _].
  destruct (range_fixed_units_instants_l _ _ _ _ _ _ Hwf Hk Hu Hy) as [Ay _].
  pose proof (amount_at_lt iv n j k Hn Hjk) as L. pose proof (unit_len_pos u).
  destruct (range_down iv); nia.
Qed.

(* ---------------------------------------------------------------- wall-clock units in any zone *)
(* the length (s) of the gap the wall value A falls into, 0 when it exists *)
Definition gap_at (z : zone) (fixed : bool) (A : Z) : Z :=
  if fixed then 0 else Z.max 0 (off_local z (sec A) true - off_local z (sec A) false).

Lemma gap_at_nonneg z fx A : 0 <= gap_at z fx A.
Proof. unfold gap_at. destruct fx; lia. Qed.

Theorem shift_calendar_units s u a x : wall_in_range (dv_W s) = true -> dv_kind s = K_AWARE -> 0 <= u <= 3 -> shift s u a = Ok x ->
  let A := nshift (dv_W s) u a in
  dv_W x = A + MEG * gap_at (dv_zone s) (dv_fixed s) A /\ dv_kind x = dv_kind s /\ dv_zone x = dv_zone s /\ dv_tzid x = dv_tzid s.
Proof.
  intros Hr Hk Hu H. cbv zeta. unfold shift in H. cbv zeta beta in H.
  replace ((u <? 0) || (7 <? u)) with false in H by lia. rewrite Hk in H.
  change (K_AWARE =? K_DATE) with false in H. change (K_AWARE =? K_NAIVE) with false in H. cbv iota in H.
  replace (u <=? 3) with true in H by lia.
  unfold add_calendar in H.
  destruct (py_add_duration _ _ _ _ _ _ _ _ _) as [d'|e] eqn:Ed; [|discriminate].
  assert (R : n_wall d' = nshift (dv_W s) u a /\ wall_in_range (n_wall d') = true).
  { apply (add_dur_sel (dv_W s) true u a d' Hr ltac:(lia) (or_introl eq_refl)).
    replace (u =? 4) with false by lia. replace (u =? 5) with false by lia. replace (u =? 6) with false by lia. replace (u =? 7) with false by lia. exact Ed. }
  destruct R as [R1 R2]. rewrite R1 in H.
  unfold create, convert_naive_fixed, convert_naive in H.
  destruct (dv_fixed s).
  - injection H as <-. cbn [with_wall dv_W dv_kind dv_zone dv_tzid]. repeat split; try reflexivity. unfold gap_at, MEG. lia.
  - set (A := nshift (dv_W s) u a) in *. set (oa := off_local (dv_zone s) (sec A) true) in *. set (ob := off_local (dv_zone s) (sec A) false) in *.
    destruct (oa >? ob) eqn:Eg.
    + cbv beta iota zeta in H. set (W' := A + MEG * (oa - ob)) in H.
      assert (HW : W' = A + MEG * Z.max 0 (oa - ob)) by (unfold W', MEG; lia). clearbody W'.
      destruct (wall_in_range W'); [|discriminate]. injection H as <-.
      cbn [with_wall dv_W dv_kind dv_zone dv_tzid]. repeat split; try reflexivity. unfold gap_at. fold A oa ob. exact HW.
    + rewrite andb_false_r in H. injection H as <-.
      cbn [with_wall dv_W dv_kind dv_zone dv_tzid]. repeat split; try reflexivity. unfold gap_at. fold A oa ob. unfold MEG. lia.
Qed.

Section WallUnits.
Variable iv : interval.
Variables u n : Z.
Hypothesis Hr : wall_in_range (dv_W (iv_start iv)) = true.
Hypothesis Hk : dv_kind (iv_start iv) = K_AWARE.
Hypothesis Hu : 0 <= u <= 3.
Hypothesis Hn : 1 <= n.

Let s := iv_start iv.
(* the k-th step on the naive wall clock, before the zone's construction rule is applied *)
Definition naive_step (k : nat) : Z := nshift (dv_W (iv_start iv)) u (amount_at iv n k).
Definition step_gap (k : nat) : Z := MEG * gap_at (dv_zone (iv_start iv)) (dv_fixed (iv_start iv)) (naive_step k).

(* no step lands in a gap at least as long as the step *)
Definition short_gaps : Prop :=
  forall k, (1 <= k)%nat ->
  if range_down iv then step_gap k < naive_step (k - 1) - naive_step k else step_gap k < naive_step (S k) - naive_step k.

Lemma seq_wall k x : seq_at iv u n k = Ok x ->
  dv_W x = naive_step k + (match k with O => 0 | S _ => step_gap k end) /\ dv_tzid x = dv_tzid s.
Proof.
  intros H. destruct k as [|k].
  - cbn in H. injection H as <-. unfold naive_step, amount_at.
    replace (if range_down iv then - (Z.of_nat 0 * n) else Z.of_nat 0 * n) with 0 by (destruct (range_down iv); lia).
    rewrite nshift_zero by exact Hr. split; [lia|reflexivity].
  - cbn [seq_at] in H. unfold call_method, range_meth in H. unfold naive_step, step_gap, naive_step, amount_at.
    destruct (range_down iv).
    + change (M_subtract =? M_subtract) with true in H. cbv iota in H.
      destruct (shift_calendar_units _ _ _ _ Hr Hk Hu H) as (A & _ & _ & E). cbv zeta in A. split; assumption.
    + change (M_add =? M_subtract) with false in H. cbv iota in H.
      destruct (shift_calendar_units _ _ _ _ Hr Hk Hu H) as (A & _ & _ & E). cbv zeta in A. split; assumption.
Qed.

Lemma naive_step_lt j k : (j < k)%nat -> if range_down iv then naive_step k < naive_step j else naive_step j < naive_step k.
Proof.
  intros Hjk. unfold naive_step. pose proof (amount_at_lt iv n j k Hn Hjk) as L.
  destruct (range_down iv); apply nshift_lt; assumption.
Qed.

Lemma consecutive_wall k x y : short_gaps -> seq_at iv u n k = Ok x -> seq_at iv u n (S k) = Ok y ->
  if range_down iv then dv_W y < dv_W x else dv_W x < dv_W y.
Proof.
  intros Hs Hx Hy. destruct (seq_wall _ _ Hx) as [Ax _]. destruct (seq_wall _ _ Hy) as [Ay _].
  pose proof (naive_step_lt k (S k) ltac:(lia)) as L.
  pose proof (Hs (S k) ltac:(lia)) as G1. replace (S k - 1)%nat with k in G1 by lia.
  assert (P : forall i, 0 <= step_gap i) by (intros i; unfold step_gap; pose proof (gap_at_nonneg (dv_zone (iv_start iv)) (dv_fixed (iv_start iv)) (naive_step i)); unfold MEG; lia).
  pose proof (P k). pose proof (P (S k)).
  destruct k as [|k].
  - destruct (range_down iv); lia.
  - pose proof (Hs (S k) ltac:(lia)) as G0. destruct (range_down iv); lia.
Qed.

Theorem range_wall_units_mono_l fuel j k x y : short_gaps -> (j < k)%nat ->
  nth_error (fst (py_range fuel iv u n)) j = Some x -> nth_error (fst (py_range fuel iv u n)) k = Some y ->
  if range_down iv then dv_W y < dv_W x /\ dt_gt x y = true else dv_W x < dv_W y /\ dt_lt x y = true.
Proof.
  intros Hs Hjk Hx Hy.
  assert (W : if range_down iv then dv_W y < dv_W x else dv_W x < dv_W y).
  { revert y Hy. induction k as [|k IH]; intros y Hy; [lia|].
    assert (Hlen : (k < length (fst (py_range fuel iv u n)))%nat).
    { assert (S k < length (fst (py_range fuel iv u n)))%nat by (apply nth_error_Some; congruence). lia. }
    destruct (nth_error (fst (py_range fuel iv u n)) k) as [m|] eqn:Em; [|apply nth_error_None in Em; lia].
    pose proof (consecutive_wall k m y Hs (range_kth_l _ _ _ _ _ _ Em) (range_kth_l _ _ _ _ _ _ Hy)) as C.
    destruct (Nat.eq_dec j k) as [->|Hne].
    - rewrite Hx in Em. injection Em as <-. exact C.
    - specialize (IH ltac:(lia) m eq_refl). destruct (range_down iv); lia. }
  destruct (seq_wall _ _ (range_kth_l _ _ _ _ _ _ Hx)) as [_ Tx]. destruct (seq_wall _ _ (range_kth_l _ _ _ _ _ _ Hy)) as [_ Ty].
  assert (SC : same_clock x y = true /\ same_clock y x = true).
  { unfold same_clock. rewrite Tx, Ty, Z.eqb_refl. rewrite !orb_true_r. split; reflexivity. }
  destruct SC as [SC1 SC2].
  destruct (range_down iv); (split; [exact W|]); unfold dt_gt, dt_lt; rewrite ?SC1, ?SC2; lia.
Qed.
End WallUnits.

(* ---------------------------------------------------------------- termination with fixed-length units in a well-formed zone *)
Lemma run_terminates_gen iv u n (mu : dtv -> Z) (B : Z) :
  (forall k x, seq_at iv u n k = Ok x -> within iv x = true -> mu x <= B) ->
  (forall k x y, seq_at iv u n k = Ok x -> seq_at iv u n (S k) = Ok y -> mu x < mu y) ->
  forall d k cur, seq_at iv u n k = Ok cur -> B - mu cur < Z.of_nat d -> exists fuel, snd (run_from iv u n fuel k cur) <> GFuel.
Proof.
  intros Hb Hs. induction d as [|d IH]; intros k cur Hk Hd.
  - exists 1%nat. cbn [run_from]. destruct (within iv cur) eqn:Ew; [pose proof (Hb k cur Hk Ew); lia|]. cbn. congruence.
  - destruct (within iv cur) eqn:Ew.
    + destruct (seq_at iv u n (S k)) as [nx|ex] eqn:En.
      * pose proof (Hs k cur nx Hk En) as L.
        destruct (IH (S k) nx En ltac:(lia)) as [f Hf].
        exists (S f). cbn [run_from]. rewrite Ew, En. cbn [gcons snd]. exact Hf.
      * exists 1%nat. cbn [run_from]. rewrite Ew, En. destruct (limit_exn ex); cbn; congruence.
    + exists 1%nat. cbn [run_from]. rewrite Ew. cbn. congruence.
Qed.

Fixpoint off_bound_l (init : Z) (tr : list (Z * Z)) : Z :=
  match tr with
  | [] => Z.abs init
  | (_, o) :: r => Z.max (Z.abs init) (off_bound_l o r)
  end.

Lemma off_local_l_bound : forall tr init w f, Z.abs (off_local_l init tr w f) <= off_bound_l init tr.
Proof.
  induction tr as [|[t o] r IH]; intros init w f; cbn [off_local_l off_bound_l]; [lia|].
  destruct (w <? t + wallb f init o); [lia|]. specialize (IH o w f). lia.
Qed.

Lemma seq_fixed_inst iv u n k x :
  wf_zone (dv_zone (iv_start iv)) = true -> dv_kind (iv_start iv) = K_AWARE -> 4 <= u <= 7 -> seq_at iv u n k = Ok x ->
  dv_inst x = dv_inst (iv_start iv) + amount_at iv n k * unit_len u /\ dv_zone x = dv_zone (iv_start iv) /\ dv_tzid x = dv_tzid (iv_start iv).
Proof.
  intros Hwf Hk Hu H. destruct k as [|k].
  - cbn in H. injection H as <-. unfold amount_at. destruct (range_down iv); repeat split; lia.
  - cbn [seq_at] in H. unfold call_method, range_meth in H. unfold amount_at.
    destruct (range_down iv).
    + change (M_subtract =? M_subtract) with true in H. cbv iota in H.
      destruct (shift_fixed_units _ _ _ _ Hwf Hk Hu H) as (A & _ & _ & D & E). repeat split; assumption.
    + change (M_add =? M_subtract) with false in H. cbv iota in H.
      destruct (shift_fixed_units _ _ _ _ Hwf Hk Hu H) as (A & _ & _ & D & E). repeat split; assumption.
Qed.

Theorem range_finite_fixed_units_l iv u n :
  wf_zone (dv_zone (iv_start iv)) = true -> dv_kind (iv_start iv) = K_AWARE -> 4 <= u <= 7 -> 1 <= n ->
  exists fuel, snd (py_range fuel iv u n) <> GFuel.
Proof.
  intros Hwf Hk Hu Hn.
  set (s := iv_start iv). set (e := iv_end iv). set (z := dv_zone s).
  set (Bo := off_bound_l (z_init z) (z_trans z)).
  set (mu := fun x : dtv => if range_down iv then - dv_inst x else dv_inst x).
  set (B := if range_down iv then Z.max (- dv_inst e) (MEG * Bo - dv_W e) else Z.max (dv_inst e) (dv_W e + MEG * Bo)).
  assert (Hb : forall k x, seq_at iv u n k = Ok x -> within iv x = true -> mu x <= B).
  { intros k x Hx Hw. destruct (seq_fixed_inst _ _ _ _ _ Hwf Hk Hu Hx) as (_ & Zx & _).
    pose proof (off_local_l_bound (z_trans z) (z_init z) (dv_W x / MEG) (dv_f x)) as Ob. fold Bo in Ob.
    assert (Ix : dv_inst x = dv_W x - MEG * off_local_l (z_init z) (z_trans z) (dv_W x / MEG) (dv_f x)).
    { unfold dv_inst, inst, off_local. rewrite Zx. reflexivity. }
    unfold within, apply_op, range_op in Hw. fold e in Hw. unfold mu, B.
    destruct (range_down iv).
    - change (OP_ge =? OP_ge) with true in Hw. cbv iota in Hw. unfold dt_ge, dt_le in Hw.
      destruct (same_clock e x); unfold MEG in *; lia.
    - change (OP_le =? OP_ge) with false in Hw. cbv iota in Hw. unfold dt_le in Hw.
      destruct (same_clock x e); unfold MEG in *; lia. }
  assert (Hs : forall k x y, seq_at iv u n k = Ok x -> seq_at iv u n (S k) = Ok y -> mu x < mu y).
  { intros k x y Hx Hy.
    destruct (seq_fixed_inst _ _ _ _ _ Hwf Hk Hu Hx) as (Ax & _). destruct (seq_fixed_inst _ _ _ _ _ Hwf Hk Hu Hy) as (Ay & _).
    pose proof (amount_at_lt iv n k (S k) Hn ltac:(lia)) as L. pose proof (unit_len_pos u). unfold mu.
    destruct (range_down iv); nia. }
  destruct (run_terminates_gen iv u n mu B Hb Hs (Z.to_nat (Z.abs (B - mu s) + 1)) 0 s eq_refl ltac:(lia)) as [f Hf].
  exists f. rewrite py_range_run. exact Hf.
Qed.
