(* Proofs/C06Facts.v — lemmas for C06: precise_diff (translated Python, hand model of the Rust twin), add_duration (translated). *)
From Coq Require Import ZArith List Bool Lia ZifyBool.
From PV Require Import Lib.Reflect Lib.PyBase Spec.Cal Proofs.CalFacts.
From PV Require Import Gen.Constants Gen.Helpers Gen.RustConstants Model.RustHelpers Model.PdBase Gen.PreciseDiff Model.RustPreciseDiff Model.PdInterval.
Import ListNotations.
Ltac Zify.zify_post_hook ::= Z.to_euclidean_division_equations.
Open Scope Z_scope.

Ltac split_ifs := repeat match goal with |- context [if ?c then _ else _] => destruct c eqn:? end.

(* ---------- the domain of the theorems: well-formed operands with zero UTC offset (naive, UTC, Date) ---------- *)
Definition wf_time (d : pdt) : Prop :=
  0 <= p_hour d <= 23 /\ 0 <= p_minute d <= 59 /\ 0 <= p_second d <= 59 /\ 0 <= p_microsecond d <= 999999.
Definition wf_op (d : pdt) : Prop :=
  valid_dateb (p_year d) (p_month d) (p_day d) = true /\ wf_time d /\ p_offset d = 0.
(* both datetimes (naive or both aware with offset 0) *)
Definition dt_pair (a b : pdt) : Prop :=
  wf_op a /\ wf_op b /\ p_is_dt a = true /\ p_is_dt b = true /\ p_has_tz a = p_has_tz b.

Definition tod (d : pdt) : Z := ((p_hour d * 60 + p_minute d) * 60 + p_second d) * 1000000 + p_microsecond d.

Lemma p_wall_split d : p_wall d = (p_date_ord d - 1) * us_per_day + tod d.
Proof. unfold p_wall, wall_of, p_date_ord, tod. lia. Qed.

Lemma tod_range d : wf_time d -> 0 <= tod d < us_per_day.
Proof. unfold wf_time, tod, us_per_day. lia. Qed.

(* month lengths from the generated tables *)
Lemma month_cases m : 1 <= m <= 12 ->
  m = 1 \/ m = 2 \/ m = 3 \/ m = 4 \/ m = 5 \/ m = 6 \/ m = 7 \/ m = 8 \/ m = 9 \/ m = 10 \/ m = 11 \/ m = 12.
Proof. lia. Qed.

Lemma dpm_dim y m : 1 <= m <= 12 -> tidx (tidx2 C_DAYS_PER_MONTHS (Z.b2z (py_is_leap y))) m = dim y m.
Proof.
  intros Hm. unfold dim. change (py_is_leap y) with (is_leap y).
  destruct (is_leap y);
  destruct (month_cases m Hm) as [->|[->|[->|[->|[->|[->|[->|[->|[->|[->|[->| ->]]]]]]]]]]]; reflexivity.
Qed.

Lemma rs_dpm_dim y m : 0 <= y -> 1 <= m <= 12 -> tidx (tidx2 RS_DAYS_PER_MONTHS (Z.b2z (rs_is_leap y))) m = dim y m.
Proof.
  intros Hy Hm. unfold dim. replace (rs_is_leap y) with (is_leap y).
  2:{ unfold rs_is_leap, is_leap. rewrite !Z.rem_mod_nonneg by lia. reflexivity. }
  destruct (is_leap y);
  destruct (month_cases m Hm) as [->|[->|[->|[->|[->|[->|[->|[->|[->|[->|[->| ->]]]]]]]]]]]; reflexivity.
Qed.

(* previous month *)
Definition prev_y (y m : Z) : Z := if m =? 1 then y - 1 else y.
Definition prev_m (m : Z) : Z := if m =? 1 then 12 else m - 1.

(* ---------- the comparison primitives on the domain ---------- *)
Lemma key_dt a b x : p_offset a = 0 -> p_offset b = 0 -> p_is_dt x = true -> (x = a \/ x = b) -> p_key a b x = p_wall x.
Proof.
  intros Ha Hb Hx Hor. unfold p_key. rewrite Hx. cbn [negb].
  destruct (p_aware a && p_aware b && negb (p_tzobj a =? p_tzobj b)); [|reflexivity].
  unfold p_instant. destruct Hor as [-> | ->]; lia.
Qed.

Lemma ord_le_lex a b : valid_dateb (p_year a) (p_month a) (p_day a) = true -> valid_dateb (p_year b) (p_month b) (p_day b) = true ->
  p_date_ord a <= p_date_ord b ->
  p_year a < p_year b \/ (p_year a = p_year b /\ (p_month a < p_month b \/ (p_month a = p_month b /\ p_day a <= p_day b))).
Proof.
  intros Va Vb H. unfold p_date_ord in H.
  destruct (Z_lt_ge_dec (p_year a) (p_year b)); [left; lia|].
  destruct (Z_lt_ge_dec (p_year b) (p_year a)).
  { pose proof (ymd2ord_lt _ _ _ _ _ _ Vb Va ltac:(lia)). lia. }
  right. split; [lia|]. assert (E : p_year a = p_year b) by lia.
  destruct (Z_lt_ge_dec (p_month a) (p_month b)); [left; lia|].
  destruct (Z_lt_ge_dec (p_month b) (p_month a)).
  { pose proof (ymd2ord_lt _ _ _ _ _ _ Vb Va ltac:(lia)). lia. }
  right. split; [lia|].
  destruct (Z_lt_ge_dec (p_day b) (p_day a)); [|lia].
  pose proof (ymd2ord_lt _ _ _ _ _ _ Vb Va ltac:(lia)). lia.
Qed.

(* a <= b on walls: the dates are ordered and on equal dates the times are ordered *)
Lemma wall_le_split a b : wf_time a -> wf_time b -> p_wall a <= p_wall b ->
  p_date_ord a < p_date_ord b \/ (p_date_ord a = p_date_ord b /\ tod a <= tod b).
Proof.
  intros Ta Tb H. rewrite !p_wall_split in H. pose proof (tod_range a Ta). pose proof (tod_range b Tb).
  unfold us_per_day in *. lia.
Qed.
