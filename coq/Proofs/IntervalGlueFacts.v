(* Proofs/IntervalGlueFacts.v — the hand-written model Model/IntervalLen.v (C05; C06 C18 C19 build on it) EQUALS the machine translation of
   pendulum's Interval construction and `-` / diff entry points (Gen/IntervalGlue.v, translated from /repo on every run).
   Stage 1: the (large, continuation-duplicating) translation of Interval.__new__ is the small function spec_new over the same primitives
   (generic case analysis, nothing matched syntactically).  Stage 2: spec_new is interval_new_delta on the endpoints ep_of.
   obj_ok o: the class tag is 0..3, the value lies in years 1..9999, fold is 0/1, a date carries no tzinfo and sits at midnight, a timezone
   object has a non-negative identity tag and (FixedTimezone) the table fixed_zone of its offset. *)
From Coq Require Import ZArith List Bool Lia ZifyBool.
From PV Require Import Lib.PyBase Spec.Cal Spec.Zone Spec.NativeDT Spec.TdFloat Proofs.CalFacts Proofs.ZoneFacts Model.TzConvert Model.Duration.
From PV Require Import Model.TzGlueObj Gen.TzGlue Model.WallHistory Proofs.TzGlueFacts Model.IntervalObj Gen.IntervalGlue Model.IntervalLen Proofs.IntervalGlueNew Proofs.IntervalGlueInit.
Import ListNotations.
Open Scope Z_scope.

(* ---------- stage 2: that function is interval_new_delta of Model/IntervalLen.v on the endpoints ep_of ---------- *)
(* identity of the tzinfo object in the model's convention: 0 = None, pendulum.UTC (tag 0 in Model/TzGlueObj.v) = UTC_ID = 1 *)
Definition tz_idz (t : option gtz) : Z := match t with Some x => gz_id x + 1 | None => 0 end.
Definition ep_of (o : gobj) : ep :=
  mkep (is_dt o) (negb (is_pdate o)) (tz_idz (o_tz o)) (tz_idz (o_tz o))
       (match o_tz o with Some t => gz_fixed t | None => false end)
       (match o_tz o with Some t => gz_zone t | None => fixed_zone 0 end) (o_wall o) (negb (o_fold o =? 0)).
Definition obj_ok (o : gobj) : Prop :=
  0 <= o_kind o <= 3 /\ wall_in_range (o_wall o) = true /\ (o_fold o = 0 \/ o_fold o = 1) /\
  (is_dt o = false -> o_tz o = None /\ o_wall o mod us_per_day = 0 /\ o_fold o = 0) /\
  (forall t, o_tz o = Some t -> 0 <= gz_id t /\ gtz_ok t).

Lemma o_gdt_dt_of o : o_fold o = 0 \/ o_fold o = 1 -> o_gdt o = dt_of (o_wall o) (negb (o_fold o =? 0)) (o_tz o).
Proof. intros [H|H]; unfold o_gdt, dt_of; rewrite H; reflexivity. Qed.

Lemma aware_ep o : obj_ok o -> aware (ep_of o) = negb (is_none (o_tz o)).
Proof.
  intros (_ & _ & _ & _ & T). unfold aware, ep_of, tz_idz. cbn [e_obj]. destruct (o_tz o) as [t|] eqn:E; [|reflexivity].
  destruct (T t eq_refl) as [N _]. cbn [is_none negb]. destruct (gz_id t + 1 =? 0) eqn:Z0; [lia|reflexivity].
Qed.
Lemma same_tz_ep a b : obj_ok a -> obj_ok b -> same_tz (ep_of a) (ep_of b) = opt_gtz_is (o_tz a) (o_tz b).
Proof.
  intros (_ & _ & _ & _ & Ta) (_ & _ & _ & _ & Tb). unfold same_tz, ep_of, tz_idz, opt_gtz_is. cbn [e_obj].
  destruct (o_tz a) as [ta|] eqn:Ea; destruct (o_tz b) as [tb|] eqn:Eb; try reflexivity.
  - destruct (gz_id ta + 1 =? gz_id tb + 1) eqn:E1; destruct (gz_id ta =? gz_id tb) eqn:E2; lia || reflexivity.
  - destruct (Ta ta eq_refl) as [N _]. destruct (gz_id ta + 1 =? 0) eqn:E; [lia|reflexivity].
  - destruct (Tb tb eq_refl) as [N _]. destruct (0 =? gz_id tb + 1) eqn:E; [lia|reflexivity].
Qed.
Lemma inst_ep o : obj_ok o -> ep_inst (ep_of o) = o_instant o.
Proof.
  intros K. unfold ep_inst. rewrite (aware_ep o K). destruct K as (_ & _ & F & _ & T).
  unfold o_instant, o_utcoffset, ep_of. cbn [e_zone e_W e_fold]. destruct (o_tz o) as [t|] eqn:E; cbn [is_none negb]; [|reflexivity].
  destruct (T t eq_refl) as [_ Ok_]. rewrite (o_gdt_dt_of o F), E, (tz_utcoffset_spec t _ _ _ Ok_). unfold inst, sec. reflexivity.
Qed.

Lemma py_gt_ep a b : obj_ok a -> obj_ok b -> py_gt (ep_of a) (ep_of b) = obj_gt a b.
Proof.
  intros Ka Kb. unfold py_gt, obj_gt. rewrite (aware_ep a Ka), (aware_ep b Kb), (same_tz_ep a b Ka Kb), (inst_ep a Ka), (inst_ep b Kb).
  unfold o_aware, ep_of. cbn [e_dt e_W]. destruct (o_tz a), (o_tz b); reflexivity.
Qed.

Definition nat_view (o : gobj) : gobj :=
  if is_pdt o then mkgobj 1 (o_wall o) (o_fold o) (o_tz o) else if is_pdate o then mkgobj 0 (o_wall o) 0 None else o.

Lemma native_of_ok o : obj_ok o -> native_of o = Ok (nat_view o).
Proof.
  intros (Kk & R & F & D & T). unfold native_of, nat_view. destruct (is_pdt o) eqn:P.
  - unfold o_dt_new, o_year, o_month, o_day, o_hour, o_minute, o_second, o_microsecond.
    rewrite (nat_new_fields (o_gdt o) (o_tz o) (o_fold o) R F). reflexivity.
  - destruct (is_pdate o) eqn:Pd; [|reflexivity].
    assert (Hd : is_dt o = false) by (unfold is_dt, is_pdt, is_pdate in *; lia). destruct (D Hd) as (_ & M & _).
    unfold o_date_new, o_year, o_month, o_day.
    change (g_year (o_gdt o)) with (gd_year (mkgdate (o_wall o))). change (g_month (o_gdt o)) with (gd_month (mkgdate (o_wall o))).
    change (g_day (o_gdt o)) with (gd_day (mkgdate (o_wall o))). rewrite (date_rebuild (o_wall o) (conj R M)). reflexivity.
Qed.

Lemma nat_view_facts o : obj_ok o ->
  is_dt (nat_view o) = is_dt o /\ o_wall (nat_view o) = o_wall o /\ o_tz (nat_view o) = o_tz o /\
  (is_dt o = true -> o_fold (nat_view o) = o_fold o).
Proof.
  intros (Kk & R & F & D & T). unfold nat_view. destruct (is_pdt o) eqn:P.
  - repeat split; try reflexivity. unfold is_dt, is_pdt in *. cbn [o_kind]. lia.
  - destruct (is_pdate o) eqn:Pd; [|repeat split; reflexivity].
    assert (Hd : is_dt o = false) by (unfold is_dt, is_pdt, is_pdate in *; lia). destruct (D Hd) as [Tz _].
    repeat split; try reflexivity; [rewrite Hd; reflexivity | rewrite Tz; reflexivity | intros C; congruence].
Qed.

Lemma utc_naive_step o o' : obj_ok o -> is_dt o = true -> o_wall o' = o_wall o -> o_tz o' = o_tz o -> o_tz o <> None ->
  bind (o_sub_opt_td o' (o_utcoffset o)) (fun x => Ok (o_replace_tz x None)) =
  match utc_naive (ep_of o) with Ok U => Ok (mkgobj 1 U 0 None) | Raise e => Raise e end.
Proof.
  intros K Hd Ew Et Hn. destruct K as (_ & _ & F & _ & T). unfold o_utcoffset, utc_naive, ep_of. cbn [e_zone e_W e_fold].
  destruct (o_tz o) as [t|] eqn:E; [|congruence]. destruct (T t eq_refl) as [_ Ok_].
  rewrite (o_gdt_dt_of o F), E, (tz_utcoffset_spec t _ _ _ Ok_). unfold o_sub_opt_td, inst, sec. rewrite Ew.
  destruct (wall_in_range _); reflexivity.
Qed.

Lemma instant_view o : obj_ok o -> is_dt o = true -> o_instant (nat_view o) = o_instant o.
Proof.
  intros K Hd. destruct (nat_view_facts o K) as (_ & Ew & Et & Ef). unfold o_instant, o_utcoffset, o_gdt. rewrite Ew, Et, (Ef Hd). reflexivity.
Qed.

Lemma spec_tail_delta s e : obj_ok s -> obj_ok e -> is_dt s = is_dt e ->
  (is_dt s = true -> is_none (o_tz s) = is_none (o_tz e)) ->
  spec_tail s e = native_delta (ep_of s) (ep_of e).
Proof.
  intros Ks Ke Hd Ha. unfold spec_tail. rewrite (native_of_ok s Ks), (native_of_ok e Ke). cbn [bind].
  destruct (nat_view_facts s Ks) as (Ds & Ws & Ts & Fs). destruct (nat_view_facts e Ke) as (De & We & Te & Fe).
  unfold native_delta. rewrite (aware_ep s Ks), (same_tz_ep s e Ks Ke), (inst_ep s Ks), (inst_ep e Ke). cbn [e_dt e_W ep_of].
  rewrite Ds, De, Ts, Te. destruct (is_dt s) eqn:Hs; rewrite <- Hd; cbn [andb negb].
  - specialize (Ha eq_refl). destruct (opt_gtz_is (o_tz s) (o_tz e)) eqn:Same.
    + destruct (is_none (o_tz s)) eqn:Ns; rewrite <- Ha; cbn [negb andb bind].
      * unfold o_sub. rewrite ?Ds, ?De, ?Hs, <- ?Hd. cbn [negb]. unfold o_aware. rewrite Ts, Te.
        destruct (o_tz s), (o_tz e); try discriminate. cbn [xorb opt_gtz_is]. rewrite Ws, We. reflexivity.
      * assert (Hns : o_tz s <> None) by (destruct (o_tz s); [discriminate|discriminate]).
        assert (Hne : o_tz e <> None) by (destruct (o_tz e); [discriminate|cbn in Ha; discriminate]).
        rewrite (utc_naive_step s (nat_view s) Ks Hs Ws Ts Hns). destruct (utc_naive (ep_of s)) as [ua|x]; [|reflexivity]. cbn [bind].
        rewrite (utc_naive_step e (nat_view e) Ke (eq_sym Hd) We Te Hne). destruct (utc_naive (ep_of e)) as [ub|x]; [|reflexivity]. cbn [bind].
        reflexivity.
    + unfold o_sub. rewrite ?Ds, ?De, ?Hs, <- ?Hd. cbn [negb]. unfold o_aware. rewrite Ts, Te.
      assert (X : xorb (match o_tz e with Some _ => true | None => false end) (match o_tz s with Some _ => true | None => false end) = false)
        by (destruct (o_tz s), (o_tz e); cbn in Ha |- *; congruence).
      rewrite X. replace (opt_gtz_is (o_tz e) (o_tz s)) with false
        by (unfold opt_gtz_is in *; destruct (o_tz s), (o_tz e); try reflexivity; try discriminate; rewrite Z.eqb_sym; symmetry; exact Same).
      rewrite (instant_view s Ks Hs), (instant_view e Ke (eq_sym Hd)). reflexivity.
  - unfold o_sub. rewrite ?De, <- ?Hd. cbn [negb]. rewrite Ws, We. reflexivity.
Qed.

Theorem spec_new_is_model a b abs : obj_ok a -> obj_ok b ->
  spec_new a b abs = interval_new_delta (ep_of a) (ep_of b) abs.
Proof.
  intros Ka Kb. unfold spec_new, interval_new_delta. rewrite (aware_ep a Ka), (aware_ep b Kb), (py_gt_ep a b Ka Kb). cbn [e_dt ep_of].
  destruct (is_dt a) eqn:Da, (is_dt b) eqn:Db; cbn [andb orb negb xorb]; try reflexivity.
  - destruct (is_none (o_tz a)) eqn:Na, (is_none (o_tz b)) eqn:Nb; cbn [andb orb negb xorb]; try reflexivity;
    (destruct abs; cbn [bind];
     [ destruct (obj_gt a b) as [[|]|x]; cbn [bind]; try reflexivity; apply spec_tail_delta; auto; try congruence
     | apply spec_tail_delta; auto; congruence ]).
  - destruct abs; cbn [bind];
     [ destruct (obj_gt a b) as [[|]|x]; cbn [bind]; try reflexivity; apply spec_tail_delta; auto; try congruence
     | apply spec_tail_delta; auto; congruence ].
Qed.

Theorem glue_interval_new a b abs : obj_ok a -> obj_ok b ->
  glue_Interval_new_delta a b abs = interval_new_delta (ep_of a) (ep_of b) abs.
Proof. intros. rewrite glue_new_is_spec. apply spec_new_is_model; assumption. Qed.

(* ---------- diff / - : operand normalisation, then the Interval ---------- *)
Definition norm_operand (self other : gobj) : result gobj :=
  if negb (is_pdt other) then
    if is_none (o_tz other)
    then glue_pendulum_naive_7 (o_year other) (o_month other) (o_day other) (o_hour other) (o_minute other) (o_second other) (o_microsecond other)
    else o_instance self other
  else Ok other.

Theorem glue_dt_diff self dt abs : glue_DateTime_diff_delta self dt abs = glue_Interval_new_delta self dt abs.
Proof. unfold glue_DateTime_diff_delta. destruct (glue_Interval_new_delta self dt abs); reflexivity. Qed.

Theorem glue_dt_sub_datetime self other :
  glue_DateTime___sub___datetime self other = bind (norm_operand self other) (fun o => glue_Interval_new_delta o self false).
Proof.
  unfold glue_DateTime___sub___datetime, glue_DateTime_diff_delta, norm_operand, is_none.
  crush; repeat match goal with H : match ?x with Ok _ => _ | Raise _ => _ end = _ |- _ => destruct x; try congruence end.
Qed.

Theorem glue_dt_rsub self other :
  glue_DateTime___rsub__ self other = bind (norm_operand self other) (fun o => glue_Interval_new_delta self o false).
Proof.
  unfold glue_DateTime___rsub__, glue_DateTime_diff_delta, norm_operand, is_none.
  crush; repeat match goal with H : match ?x with Ok _ => _ | Raise _ => _ end = _ |- _ => destruct x; try congruence end.
Qed.

Theorem glue_date_diff self dt abs :
  glue_Date_diff_delta self dt abs = bind (o_pdate_new (o_year dt) (o_month dt) (o_day dt)) (fun d => glue_Interval_new_delta self d abs).
Proof. unfold glue_Date_diff_delta.
  crush; repeat match goal with H : match ?x with Ok _ => _ | Raise _ => _ end = _ |- _ => destruct x; try congruence end.
Qed.

Theorem glue_date_sub_date self other :
  glue_Date___sub___date self other =
  bind (o_pdate_new (o_year other) (o_month other) (o_day other)) (fun d =>
  bind (o_pdate_new (o_year self) (o_month self) (o_day self)) (fun s => glue_Interval_new_delta d s false)).
Proof.
  unfold glue_Date___sub___date. destruct (o_pdate_new (o_year other) (o_month other) (o_day other)) as [d|x]; cbn [bind]; [|reflexivity].
  cbv zeta. rewrite glue_date_diff. destruct (o_pdate_new (o_year self) (o_month self) (o_day self)) as [s|x]; cbn [bind]; [|reflexivity].
  destruct (glue_Interval_new_delta d s false); reflexivity.
Qed.

(* pendulum.naive(fields of a native naive operand): a pendulum DateTime with the same wall value and the DEFAULT fold = 1
   (Model/IntervalLen.v normalise_operand: `mkep true false 0 0 false _ W true`) *)
Theorem glue_naive_operand o : wall_in_range (o_wall o) = true ->
  glue_pendulum_naive_7 (o_year o) (o_month o) (o_day o) (o_hour o) (o_minute o) (o_second o) (o_microsecond o) = Ok (mkgobj 3 (o_wall o) 1 None).
Proof.
  intros R. unfold glue_pendulum_naive_7, glue_pendulum_naive, o_pdt_new, o_year, o_month, o_day, o_hour, o_minute, o_second, o_microsecond.
  rewrite (nat_new_fields (o_gdt o) None 1 R (or_intror eq_refl)). reflexivity.
Qed.

(* ---------- Interval.__init__ (endpoints, _invert, absolute swap) = the endpoint part of interval_make ---------- *)
Lemma o_dt_instance_spec o tzarg : obj_ok o ->
  o_dt_instance o tzarg = o_of_gdt 3 (g_build (opt_tz_or (o_tz o) tzarg) (o_wall o) (negb (o_fold o =? 0)) false).
Proof.
  intros (_ & R & F & _). unfold o_dt_instance. rewrite (o_gdt_dt_of o F), (glue_instance_spec _ _ _ _ R). reflexivity.
Qed.

Lemma b2z_negb_eqb0 f : negb (Z.b2z f =? 0) = f. Proof. destruct f; reflexivity. Qed.

Lemma init_norm_ep o : obj_ok o ->
  match init_norm o with
  | Ok (p, n) => instance_ep (ep_of o) = Ok (ep_of p) /\ obj_ok p
  | Raise e => instance_ep (ep_of o) = Raise e
  end.
Proof.
  intros K. pose proof K as (Kk & R & F & D & T). unfold init_norm, instance_ep. cbn [e_native e_dt ep_of]. rewrite Bool.negb_involutive.
  destruct (is_pdate o) eqn:Pd; cbn [negb].
  - (* a pendulum object: kept; the native rebuild always succeeds *)
    pose proof (native_of_ok o K) as N. unfold native_of in N. rewrite Pd in N.
    destruct (is_pdt o); rewrite N; cbn [bind]; split; [reflexivity|exact K|reflexivity|exact K].
  - destruct (is_dt o) eqn:Dt; cbn [negb].
    + (* a native datetime: DateTime.instance(obj, tz=UTC) *)
      unfold glue_pendulum_instance. rewrite Pd, Dt. cbn [andb negb]. rewrite (o_dt_instance_spec o (Some g_UTC) K).
      rewrite (aware_ep o K). cbn [ep_of e_zone e_fixed e_W e_fold e_canon].
      destruct (o_tz o) as [t|] eqn:Et; cbn [is_none negb opt_tz_or g_build tz_idz].
      * destruct (T t eq_refl) as [Hid Hok].
        destruct (create (gz_zone t) (gz_fixed t) (o_wall o) (negb (o_fold o =? 0)) false) as [[W' f']|x] eqn:C; cbn [res_of o_of_gdt bind]; [|reflexivity].
        split.
        -- unfold ep_of, is_dt, is_pdate, tz_idz, dt_of. cbn [o_kind o_tz o_wall o_fold g_wall g_fold g_tz Z.eqb Pos.eqb orb negb]. rewrite b2z_negb_eqb0. reflexivity.
        -- pose proof (create_in_range _ _ _ _ _ _ _ R C) as RC. unfold dt_of. cbn [g_wall g_fold g_tz].
           repeat split; cbn [o_kind o_wall o_fold o_tz]; try lia; try exact RC; try apply b2z_fold;
           try (intros H; unfold is_dt in H; cbn [o_kind Z.eqb Pos.eqb orb] in H; discriminate);
           try (intros t' E; injection E as <-; assumption).
           all: try (exfalso; match goal with H : is_dt _ = false |- _ => unfold is_dt in H; cbn [o_kind Z.eqb Pos.eqb orb] in H; discriminate end).
           all: try (match goal with E : o_tz _ = Some _ |- _ => cbn [o_tz] in E end).
           all: try (match goal with E : Some _ = Some _ |- _ => injection E as <- end; first [assumption | cbn; lia | (intros Hx; discriminate)]).
      * change (create (gz_zone g_UTC) (gz_fixed g_UTC) (o_wall o) (negb (o_fold o =? 0)) false) with (Ok (o_wall o, negb (o_fold o =? 0)) : result (Z * bool)).
        cbn [res_of o_of_gdt bind]. split.
        -- unfold ep_of, is_dt, is_pdate, tz_idz, dt_of. cbn [o_kind o_tz o_wall o_fold g_wall g_fold g_tz Z.eqb Pos.eqb orb negb gz_id gz_fixed gz_zone g_UTC]. rewrite b2z_negb_eqb0. reflexivity.
        -- unfold dt_of. cbn [g_wall g_fold g_tz].
           repeat split; cbn [o_kind o_wall o_fold o_tz]; try lia; try exact R; try apply b2z_fold;
           try (intros H; unfold is_dt in H; cbn [o_kind Z.eqb Pos.eqb orb] in H; discriminate);
           try (intros t' E; injection E as <-; cbn; lia);
           try (intros t' E; injection E as <-; intros H; discriminate).
           all: try (exfalso; match goal with H : is_dt _ = false |- _ => unfold is_dt in H; cbn [o_kind Z.eqb Pos.eqb orb] in H; discriminate end).
           all: try (match goal with E : o_tz _ = Some _ |- _ => cbn [o_tz] in E end).
           all: try (match goal with E : Some _ = Some _ |- _ => injection E as <- end; first [assumption | cbn; lia | (intros Hx; discriminate)]).
    + (* a native date: pendulum.date(y, m, d) *)
      destruct (D eq_refl) as (Tz & M & Fo). unfold glue_pendulum_date, o_pdate_new, o_year, o_month, o_day.
      change (g_year (o_gdt o)) with (gd_year (mkgdate (o_wall o))). change (g_month (o_gdt o)) with (gd_month (mkgdate (o_wall o))).
      change (g_day (o_gdt o)) with (gd_day (mkgdate (o_wall o))). rewrite (date_rebuild (o_wall o) (conj R M)). cbn [o_of_gdate bind gd_wall].
      split.
      * unfold ep_of, is_dt, is_pdate, tz_idz. cbn [o_kind o_tz o_wall o_fold Z.eqb Pos.eqb orb negb e_zone e_W e_fold]. rewrite Tz, Fo. reflexivity.
      * repeat split; cbn [o_kind o_wall o_fold o_tz]; try lia; try exact R; try exact M; auto; match goal with E : o_tz _ = Some _ |- _ => cbn [o_tz] in E; discriminate end.
Qed.

(* the endpoint part of Model/IntervalLen.v interval_make *)
Definition iv_endpoints (a b : ep) (absolute : bool) : result (bool * ep * ep) :=
  bind (instance_ep a) (fun a' => bind (instance_ep b) (fun b' => bind (py_gt a' b') (fun inv =>
  if inv && absolute then Ok (inv, b', a') else Ok (inv, a', b')))).

Lemma interval_make_unfold a b abs :
  interval_make a b abs =
  bind (interval_new_delta a b abs) (fun D => bind (duration_of_float_seconds (total_seconds D)) (fun d =>
  bind (iv_endpoints a b abs) (fun '(inv, s, e) => Ok (mkival d inv s e abs)))).
Proof.
  unfold interval_make, iv_endpoints. destruct (interval_new_delta a b abs); cbn [bind]; [|reflexivity].
  destruct (duration_of_float_seconds _); cbn [bind]; [|reflexivity].
  destruct (instance_ep a); cbn [bind]; [|reflexivity]. destruct (instance_ep b); cbn [bind]; [|reflexivity].
  destruct (py_gt _ _) as [inv|]; cbn [bind]; [|reflexivity]. destruct (inv && abs); reflexivity.
Qed.

Definition init_image (r : result (bool * gobj * gobj * gobj * gobj)) : result (bool * ep * ep) :=
  match r with Ok (inv, s, e, _, _) => Ok (inv, ep_of s, ep_of e) | Raise x => Raise x end.

Theorem glue_init_endpoints a b abs : obj_ok a -> obj_ok b ->
  init_image (glue_Interval_init a b abs) = iv_endpoints (ep_of a) (ep_of b) abs.
Proof.
  intros Ka Kb. rewrite glue_init_is_spec. unfold spec_init, iv_endpoints.
  pose proof (init_norm_ep a Ka) as Ha. pose proof (init_norm_ep b Kb) as Hb.
  destruct (init_norm a) as [[s s_]|x]; [destruct Ha as [Ea Ks]|]; [|rewrite Ha; reflexivity]. rewrite Ea. cbn [bind].
  destruct (init_norm b) as [[e e_]|x]; [destruct Hb as [Eb Ke]|]; [|rewrite Hb; reflexivity]. rewrite Eb. cbn [bind].
  rewrite (py_gt_ep s e Ks Ke). destruct (obj_gt s e) as [inv|x]; cbn [bind init_image]; [|reflexivity].
  destruct (inv && abs); reflexivity.
Qed.

(* Interval(a, b, absolute) as a whole record of the model: __new__'s delta, the Duration built from it, __init__'s endpoints and _invert *)
Theorem glue_interval_make a b abs : obj_ok a -> obj_ok b ->
  interval_make (ep_of a) (ep_of b) abs =
  bind (glue_Interval_new_delta a b abs) (fun D => bind (duration_of_float_seconds (total_seconds D)) (fun d =>
  bind (init_image (glue_Interval_init a b abs)) (fun '(inv, s, e) => Ok (mkival d inv s e abs)))).
Proof. intros Ka Kb. rewrite interval_make_unfold, (glue_interval_new a b abs Ka Kb), (glue_init_endpoints a b abs Ka Kb). reflexivity. Qed.

(* ---------- the component properties = Model/PdInterval.v iv_components ---------- *)
From PV Require Import Model.PdBase Model.PdInterval.
(* Duration._days of the elapsed Duration (duration.py: self._days = abs(total seconds) // 86400 * sign), the value Interval.remaining_days reads *)
Definition dur_days_of (elapsed : Z) : Z := Z.abs elapsed / 1000000 / 86400 * sgn elapsed.

Theorem glue_interval_components delta elapsed :
  let g := mkgivs delta (dur_days_of elapsed) in let c := iv_components delta elapsed in
  glue_Interval_years g = iv_years c /\ glue_Interval_months g = iv_months c /\ glue_Interval_weeks g = iv_weeks c /\
  glue_Interval_remaining_days g = iv_remaining_days c /\ glue_Interval_hours g = iv_hours c /\ glue_Interval_minutes g = iv_minutes c /\
  glue_Interval_in_months g = iv_in_months c /\ glue_Interval_in_days g = iv_in_days c /\ glue_Interval_in_years g = iv_years c /\
  glue_Interval_in_weeks g = Z.abs (iv_in_days c) / 7 * sgn (iv_in_days c).
Proof.
  cbv zeta. unfold iv_components. cbv zeta. cbn [iv_years iv_months iv_weeks iv_remaining_days iv_hours iv_minutes iv_in_months iv_in_days].
  unfold glue_Interval_years, glue_Interval_months, glue_Interval_weeks, glue_Interval_remaining_days, glue_Interval_hours, glue_Interval_minutes,
         glue_Interval_in_months, glue_Interval_in_days, glue_Interval_in_years, glue_Interval_in_weeks, glue_Interval_years, glue_Interval_months, glue_Interval_in_days.
  cbn [gi_delta gi_days]. unfold g_sign, sgn, dur_days_of, sgn.
  repeat split; try reflexivity; cbv zeta; try (change Gen.Constants.C_MONTHS_PER_YEAR with 12; reflexivity);
  destruct (pd_total_days delta <? 0); lia.
Qed.

(* pendulum.instance on a native date: pendulum.date(y, m, d), a pendulum Date of the same day; on a pendulum object: the object itself *)
Theorem glue_pendulum_instance_date o tz : obj_ok o -> is_dt o = false ->
  glue_pendulum_instance o tz = if is_pdate o then Ok o else Ok (mkgobj 2 (o_wall o) 0 None).
Proof.
  intros (Kk & R & F & D & T) Dt. unfold glue_pendulum_instance. rewrite Dt. cbn [negb andb]. destruct (is_pdate o); [reflexivity|].
  destruct (D Dt) as (_ & M & _). unfold glue_pendulum_date, o_pdate_new, o_year, o_month, o_day.
  change (g_year (o_gdt o)) with (gd_year (mkgdate (o_wall o))). change (g_month (o_gdt o)) with (gd_month (mkgdate (o_wall o))).
  change (g_day (o_gdt o)) with (gd_day (mkgdate (o_wall o))). rewrite (date_rebuild (o_wall o) (conj R M)). reflexivity.
Qed.

(* ---------- Interval.__abs__ / __neg__ ---------- *)
Theorem glue_interval_abs g : glue_Interval___abs___delta g = glue_Interval_new_delta (gv_start g) (gv_end g) true.
Proof. unfold glue_Interval___abs___delta. destruct (glue_Interval_new_delta _ _ _); reflexivity. Qed.
Theorem glue_interval_neg g : glue_Interval___neg___delta g = glue_Interval_new_delta (gv_end g) (gv_start g) (gv_abs g).
Proof. unfold glue_Interval___neg___delta. destruct (glue_Interval_new_delta _ _ _); reflexivity. Qed.

(* against Model/IntervalLen.v ival_abs / ival_neg: the Interval they build from the stored endpoints (the delta; whole record by glue_interval_make) *)
Theorem glue_interval_abs_model g : obj_ok (gv_start g) -> obj_ok (gv_end g) ->
  glue_Interval___abs___delta g = interval_new_delta (ep_of (gv_start g)) (ep_of (gv_end g)) true.
Proof. intros. rewrite glue_interval_abs. apply glue_interval_new; assumption. Qed.
Theorem glue_interval_neg_model g : obj_ok (gv_start g) -> obj_ok (gv_end g) ->
  glue_Interval___neg___delta g = interval_new_delta (ep_of (gv_end g)) (ep_of (gv_start g)) (gv_abs g).
Proof. intros. rewrite glue_interval_neg. apply glue_interval_new; assumption. Qed.

(* -i of an ABSOLUTE Interval: absolute is passed on, so the swap of __new__ undoes the exchange of the endpoints: the delta of -i equals the delta
   of i itself whenever start <= end (the listed finding neg-absolute-interval) *)
Theorem neg_of_absolute_is_not_negated a b : obj_ok a -> obj_ok b -> obj_gt a b = Ok false -> obj_gt b a = Ok true ->
  glue_Interval___neg___delta (mkgiv a b true) = glue_Interval_new_delta a b true.
Proof.
  intros Ka Kb G1 G2. rewrite glue_interval_neg. cbn [gv_start gv_end gv_abs]. rewrite !glue_new_is_spec. unfold spec_new.
  rewrite G1, G2. cbn [bind].
  destruct (is_dt b && negb (is_dt a) || negb (is_dt b) && is_dt a) eqn:E1;
  destruct (is_dt a && negb (is_dt b) || negb (is_dt a) && is_dt b) eqn:E2; try reflexivity;
  try (exfalso; destruct (is_dt a), (is_dt b); cbn in E1, E2; congruence).
  destruct (is_dt b && is_dt a && (is_none (o_tz b) && negb (is_none (o_tz a)) || negb (is_none (o_tz b)) && is_none (o_tz a))) eqn:E3;
  destruct (is_dt a && is_dt b && (is_none (o_tz a) && negb (is_none (o_tz b)) || negb (is_none (o_tz a)) && is_none (o_tz b))) eqn:E4; try reflexivity;
  exfalso; destruct (is_dt a), (is_dt b), (is_none (o_tz a)), (is_none (o_tz b)); cbn in E3, E4; congruence.
Qed.

(* ---------- the operand normalisation of `-` = normalise_operand of the model; self - other / other - self as WHOLE results ---------- *)
Lemma norm_operand_ep self other : obj_ok other -> is_dt other = true ->
  match norm_operand self other with
  | Ok p => normalise_operand (ep_of other) = Ok (ep_of p) /\ obj_ok p
  | Raise e => normalise_operand (ep_of other) = Raise e
  end.
Proof.
  intros K Dt. pose proof K as (Kk & R & F & D & T). unfold norm_operand, normalise_operand. cbn [e_native e_dt ep_of]. rewrite Dt. cbn [negb].
  destruct (is_pdt other) eqn:P; cbn [negb].
  - assert (Pd : is_pdate other = true) by (unfold is_pdt, is_pdate in *; lia). rewrite Pd. cbn [negb]. split; [reflexivity|exact K].
  - assert (Pd : is_pdate other = false) by (unfold is_dt, is_pdt, is_pdate in *; lia). rewrite Pd. cbn [negb].
    rewrite (aware_ep other K). destruct (is_none (o_tz other)) eqn:N; cbn [negb].
    + rewrite (glue_naive_operand other R). split.
      * unfold ep_of, is_dt, is_pdate, tz_idz. cbn [o_kind o_tz o_wall o_fold Z.eqb Pos.eqb orb negb e_zone e_W].
        destruct (o_tz other); [discriminate|]. reflexivity.
      * repeat split; cbn [o_kind o_wall o_fold o_tz]; try lia; try exact R; auto.
        all: try (exfalso; match goal with H : is_dt _ = false |- _ => unfold is_dt in H; cbn [o_kind Z.eqb Pos.eqb orb] in H; discriminate end).
        all: match goal with E : o_tz _ = Some _ |- _ => cbn [o_tz] in E; discriminate end.
    + pose proof (init_norm_ep other K) as I. unfold init_norm in I. rewrite Pd, Dt in I. cbn [negb] in I.
      unfold glue_pendulum_instance in I. rewrite Pd, Dt in I. cbn [andb negb] in I.
      change (o_instance self other) with (o_dt_instance other (Some g_UTC)).
      destruct (o_dt_instance other (Some g_UTC)) as [p|x]; cbn [bind] in I; exact I.
Qed.

Theorem glue_dt_sub_whole self other : obj_ok self -> obj_ok other -> is_dt other = true ->
  dt_sub (ep_of self) (ep_of other) =
  match norm_operand self other with Ok p => interval_make (ep_of p) (ep_of self) false | Raise e => Raise e end.
Proof.
  intros Ks Ko Dt. unfold dt_sub, dt_diff. pose proof (norm_operand_ep self other Ko Dt) as N.
  destruct (norm_operand self other) as [p|x]; [destruct N as [E _]|]; rewrite ?E, ?N; reflexivity.
Qed.

Theorem glue_dt_rsub_whole self other : obj_ok self -> obj_ok other -> is_dt other = true ->
  dt_rsub (ep_of self) (ep_of other) =
  match norm_operand self other with Ok p => interval_make (ep_of self) (ep_of p) false | Raise e => Raise e end.
Proof.
  intros Ks Ko Dt. unfold dt_rsub, dt_diff. pose proof (norm_operand_ep self other Ko Dt) as N.
  destruct (norm_operand self other) as [p|x]; [destruct N as [E _]|]; rewrite ?E, ?N; reflexivity.
Qed.

(* ... and the DELTA of that Interval is what the translated __sub__ / __rsub__ compute *)
Theorem glue_dt_sub_delta self other : obj_ok self -> obj_ok other -> is_dt other = true ->
  glue_DateTime___sub___datetime self other =
  bind (normalise_operand (ep_of other)) (fun o => interval_new_delta o (ep_of self) false).
Proof.
  intros Ks Ko Dt. rewrite glue_dt_sub_datetime. pose proof (norm_operand_ep self other Ko Dt) as N.
  destruct (norm_operand self other) as [p|x]; [destruct N as [E Kp]|]; rewrite ?E, ?N; cbn [bind]; [apply glue_interval_new; assumption|reflexivity].
Qed.
Theorem glue_dt_rsub_delta self other : obj_ok self -> obj_ok other -> is_dt other = true ->
  glue_DateTime___rsub__ self other =
  bind (normalise_operand (ep_of other)) (fun o => interval_new_delta (ep_of self) o false).
Proof.
  intros Ks Ko Dt. rewrite glue_dt_rsub. pose proof (norm_operand_ep self other Ko Dt) as N.
  destruct (norm_operand self other) as [p|x]; [destruct N as [E Kp]|]; rewrite ?E, ?N; cbn [bind]; [apply glue_interval_new; assumption|reflexivity].
Qed.
