(* Proofs/IntervalGlueFacts.v — the hand-written model Model/IntervalLen.v (C05; C06 C18 C19 build on it) EQUALS the machine translation of
   pendulum's Interval construction and `-` / diff entry points (Gen/IntervalGlue.v, translated from /repo on every run).
   Stage 1: the (large, continuation-duplicating) translation of Interval.__new__ is the small function spec_new over the same primitives
   (generic case analysis, nothing matched syntactically).  Stage 2: spec_new is interval_new_delta on the endpoints ep_of.
   obj_ok o: the class tag is 0..3, the value lies in years 1..9999, fold is 0/1, a date carries no tzinfo and sits at midnight, a timezone
   object has a non-zero identity tag and (FixedTimezone) the table fixed_zone of its offset. *)
From Coq Require Import ZArith List Bool Lia ZifyBool.
From PV Require Import Lib.PyBase Spec.Cal Spec.Zone Spec.NativeDT Spec.TdFloat Proofs.CalFacts Proofs.ZoneFacts Model.TzConvert Model.Duration.
From PV Require Import Model.TzGlueObj Gen.TzGlue Model.WallHistory Proofs.TzGlueFacts Model.IntervalObj Gen.IntervalGlue Model.IntervalLen Proofs.IntervalGlueNew.
Import ListNotations.
Open Scope Z_scope.

(* ---------- stage 2: that function is interval_new_delta of Model/IntervalLen.v on the endpoints ep_of ---------- *)
Definition tz_idz (t : option gtz) : Z := match t with Some x => gz_id x | None => 0 end.
Definition ep_of (o : gobj) : ep :=
  mkep (is_dt o) (negb (is_pdate o)) (tz_idz (o_tz o)) (tz_idz (o_tz o))
       (match o_tz o with Some t => gz_fixed t | None => false end)
       (match o_tz o with Some t => gz_zone t | None => fixed_zone 0 end) (o_wall o) (negb (o_fold o =? 0)).
Definition obj_ok (o : gobj) : Prop :=
  0 <= o_kind o <= 3 /\ wall_in_range (o_wall o) = true /\ (o_fold o = 0 \/ o_fold o = 1) /\
  (is_dt o = false -> o_tz o = None /\ o_wall o mod us_per_day = 0) /\
  (forall t, o_tz o = Some t -> gz_id t <> 0 /\ gtz_ok t).

Lemma o_gdt_dt_of o : o_fold o = 0 \/ o_fold o = 1 -> o_gdt o = dt_of (o_wall o) (negb (o_fold o =? 0)) (o_tz o).
Proof. intros [H|H]; unfold o_gdt, dt_of; rewrite H; reflexivity. Qed.

Lemma aware_ep o : obj_ok o -> aware (ep_of o) = negb (is_none (o_tz o)).
Proof.
  intros (_ & _ & _ & _ & T). unfold aware, ep_of, tz_idz. cbn [e_obj]. destruct (o_tz o) as [t|] eqn:E; [|reflexivity].
  destruct (T t eq_refl) as [N _]. cbn [is_none negb]. destruct (gz_id t =? 0) eqn:Z0; [lia|reflexivity].
Qed.
Lemma same_tz_ep a b : obj_ok a -> obj_ok b -> same_tz (ep_of a) (ep_of b) = opt_gtz_is (o_tz a) (o_tz b).
Proof.
  intros (_ & _ & _ & _ & Ta) (_ & _ & _ & _ & Tb). unfold same_tz, ep_of, tz_idz, opt_gtz_is. cbn [e_obj].
  destruct (o_tz a) as [ta|] eqn:Ea; destruct (o_tz b) as [tb|] eqn:Eb; try reflexivity.
  - destruct (Ta ta eq_refl) as [N _]. destruct (gz_id ta =? 0) eqn:E; [lia|reflexivity].
  - destruct (Tb tb eq_refl) as [N _]. destruct (0 =? gz_id tb) eqn:E; [lia|reflexivity].
Qed.
Lemma inst_ep o : obj_ok o -> ep_inst (ep_of o) = o_instant o.
Proof.
  intros K. unfold ep_inst. rewrite (aware_ep o K). destruct K as (_ & _ & F & _ & T).
  unfold o_instant, o_utcoffset, ep_of. cbn [e_zone e_W e_fold]. destruct (o_tz o) as [t|] eqn:E; cbn [is_none negb]; [|reflexivity].
  destruct (T t eq_refl) as [_ Ok_]. rewrite (o_gdt_dt_of o F), E, (tz_utcoffset_spec t _ _ _ Ok_). unfold inst, sec. reflexivity.
Qed.

Lemma py_gt_ep a b : obj_ok a -> obj_ok b -> py_gt (ep_of a) (ep_of b) = obj_gt a b.
Proof.
  intros Ka Kb. unfold py_gt, obj_gt. rewrite (aware_ep a Ka), (aware_ep b Kb), (same_tz_ep a b Ka Kb), (inst_ep a Ka), (inst_ep b Kb).
  unfold o_aware, ep_of. cbn [e_dt e_W]. destruct (o_tz a), (o_tz b); reflexivity.
Qed.

Definition nat_view (o : gobj) : gobj :=
  if is_pdt o then mkgobj 1 (o_wall o) (o_fold o) (o_tz o) else if is_pdate o then mkgobj 0 (o_wall o) 0 None else o.

Lemma native_of_ok o : obj_ok o -> native_of o = Ok (nat_view o).
Proof.
  intros (Kk & R & F & D & T). unfold native_of, nat_view. destruct (is_pdt o) eqn:P.
  - unfold o_dt_new, o_year, o_month, o_day, o_hour, o_minute, o_second, o_microsecond.
    rewrite (nat_new_fields (o_gdt o) (o_tz o) (o_fold o) R F). reflexivity.
  - destruct (is_pdate o) eqn:Pd; [|reflexivity].
    assert (Hd : is_dt o = false) by (unfold is_dt, is_pdt, is_pdate in *; lia). destruct (D Hd) as [_ M].
    unfold o_date_new, o_year, o_month, o_day.
    change (g_year (o_gdt o)) with (gd_year (mkgdate (o_wall o))). change (g_month (o_gdt o)) with (gd_month (mkgdate (o_wall o))).
    change (g_day (o_gdt o)) with (gd_day (mkgdate (o_wall o))). rewrite (date_rebuild (o_wall o) (conj R M)). reflexivity.
Qed.

Lemma nat_view_facts o : obj_ok o ->
  is_dt (nat_view o) = is_dt o /\ o_wall (nat_view o) = o_wall o /\ o_tz (nat_view o) = o_tz o /\
  (is_dt o = true -> o_fold (nat_view o) = o_fold o).
Proof.
  intros (Kk & R & F & D & T). unfold nat_view. destruct (is_pdt o) eqn:P.
  - repeat split; try reflexivity. unfold is_dt, is_pdt in *. cbn [o_kind]. lia.
  - destruct (is_pdate o) eqn:Pd; [|repeat split; reflexivity].
    assert (Hd : is_dt o = false) by (unfold is_dt, is_pdt, is_pdate in *; lia). destruct (D Hd) as [Tz _].
    repeat split; try reflexivity; [rewrite Hd; reflexivity | rewrite Tz; reflexivity | intros C; congruence].
Qed.

Lemma utc_naive_step o o' : obj_ok o -> is_dt o = true -> o_wall o' = o_wall o -> o_tz o' = o_tz o -> o_tz o <> None ->
  bind (o_sub_opt_td o' (o_utcoffset o)) (fun x => Ok (o_replace_tz x None)) =
  match utc_naive (ep_of o) with Ok U => Ok (mkgobj 1 U 0 None) | Raise e => Raise e end.
Proof.
  intros K Hd Ew Et Hn. destruct K as (_ & _ & F & _ & T). unfold o_utcoffset, utc_naive, ep_of. cbn [e_zone e_W e_fold].
  destruct (o_tz o) as [t|] eqn:E; [|congruence]. destruct (T t eq_refl) as [_ Ok_].
  rewrite (o_gdt_dt_of o F), E, (tz_utcoffset_spec t _ _ _ Ok_). unfold o_sub_opt_td, inst, sec. rewrite Ew.
  destruct (wall_in_range _); reflexivity.
Qed.

Lemma instant_view o : obj_ok o -> is_dt o = true -> o_instant (nat_view o) = o_instant o.
Proof.
  intros K Hd. destruct (nat_view_facts o K) as (_ & Ew & Et & Ef). unfold o_instant, o_utcoffset, o_gdt. rewrite Ew, Et, (Ef Hd). reflexivity.
Qed.

Lemma spec_tail_delta s e : obj_ok s -> obj_ok e -> is_dt s = is_dt e ->
  (is_dt s = true -> is_none (o_tz s) = is_none (o_tz e)) ->
  spec_tail s e = native_delta (ep_of s) (ep_of e).
Proof.
  intros Ks Ke Hd Ha. unfold spec_tail. rewrite (native_of_ok s Ks), (native_of_ok e Ke). cbn [bind].
  destruct (nat_view_facts s Ks) as (Ds & Ws & Ts & Fs). destruct (nat_view_facts e Ke) as (De & We & Te & Fe).
  unfold native_delta. rewrite (aware_ep s Ks), (same_tz_ep s e Ks Ke), (inst_ep s Ks), (inst_ep e Ke). cbn [e_dt e_W ep_of].
  rewrite Ds, De, Ts, Te. destruct (is_dt s) eqn:Hs; rewrite <- Hd; cbn [andb negb].
  - specialize (Ha eq_refl). destruct (opt_gtz_is (o_tz s) (o_tz e)) eqn:Same.
    + destruct (is_none (o_tz s)) eqn:Ns; rewrite <- Ha; cbn [negb andb bind].
      * unfold o_sub. rewrite ?Ds, ?De, ?Hs, <- ?Hd. cbn [negb]. unfold o_aware. rewrite Ts, Te.
        destruct (o_tz s), (o_tz e); try discriminate. cbn [xorb opt_gtz_is]. rewrite Ws, We. reflexivity.
      * assert (Hns : o_tz s <> None) by (destruct (o_tz s); [discriminate|discriminate]).
        assert (Hne : o_tz e <> None) by (destruct (o_tz e); [discriminate|cbn in Ha; discriminate]).
        rewrite (utc_naive_step s (nat_view s) Ks Hs Ws Ts Hns). destruct (utc_naive (ep_of s)) as [ua|x]; [|reflexivity]. cbn [bind].
        rewrite (utc_naive_step e (nat_view e) Ke (eq_sym Hd) We Te Hne). destruct (utc_naive (ep_of e)) as [ub|x]; [|reflexivity]. cbn [bind].
        reflexivity.
    + unfold o_sub. rewrite ?Ds, ?De, ?Hs, <- ?Hd. cbn [negb]. unfold o_aware. rewrite Ts, Te.
      assert (X : xorb (match o_tz e with Some _ => true | None => false end) (match o_tz s with Some _ => true | None => false end) = false)
        by (destruct (o_tz s), (o_tz e); cbn in Ha |- *; congruence).
      rewrite X. replace (opt_gtz_is (o_tz e) (o_tz s)) with false
        by (unfold opt_gtz_is in *; destruct (o_tz s), (o_tz e); try reflexivity; try discriminate; rewrite Z.eqb_sym; symmetry; exact Same).
      rewrite (instant_view s Ks Hs), (instant_view e Ke (eq_sym Hd)). reflexivity.
  - unfold o_sub. rewrite ?De, <- ?Hd. cbn [negb]. rewrite Ws, We. reflexivity.
Qed.

Theorem spec_new_is_model a b abs : obj_ok a -> obj_ok b ->
  spec_new a b abs = interval_new_delta (ep_of a) (ep_of b) abs.
Proof.
  intros Ka Kb. unfold spec_new, interval_new_delta. rewrite (aware_ep a Ka), (aware_ep b Kb), (py_gt_ep a b Ka Kb). cbn [e_dt ep_of].
  destruct (is_dt a) eqn:Da, (is_dt b) eqn:Db; cbn [andb orb negb xorb]; try reflexivity.
  - destruct (is_none (o_tz a)) eqn:Na, (is_none (o_tz b)) eqn:Nb; cbn [andb orb negb xorb]; try reflexivity;
    (destruct abs; cbn [bind];
     [ destruct (obj_gt a b) as [[|]|x]; cbn [bind]; try reflexivity; apply spec_tail_delta; auto; try congruence
     | apply spec_tail_delta; auto; congruence ]).
  - destruct abs; cbn [bind];
     [ destruct (obj_gt a b) as [[|]|x]; cbn [bind]; try reflexivity; apply spec_tail_delta; auto; try congruence
     | apply spec_tail_delta; auto; congruence ].
Qed.

Theorem glue_interval_new a b abs : obj_ok a -> obj_ok b ->
  glue_Interval_new_delta a b abs = interval_new_delta (ep_of a) (ep_of b) abs.
Proof. intros. rewrite glue_new_is_spec. apply spec_new_is_model; assumption. Qed.

(* ---------- diff / - : operand normalisation, then the Interval ---------- *)
Definition norm_operand (self other : gobj) : result gobj :=
  if negb (is_pdt other) then
    if is_none (o_tz other)
    then glue_pendulum_naive_7 (o_year other) (o_month other) (o_day other) (o_hour other) (o_minute other) (o_second other) (o_microsecond other)
    else o_instance self other
  else Ok other.

Theorem glue_dt_diff self dt abs : glue_DateTime_diff_delta self dt abs = glue_Interval_new_delta self dt abs.
Proof. unfold glue_DateTime_diff_delta. destruct (glue_Interval_new_delta self dt abs); reflexivity. Qed.

Theorem glue_dt_sub_datetime self other :
  glue_DateTime___sub___datetime self other = bind (norm_operand self other) (fun o => glue_Interval_new_delta o self false).
Proof.
  unfold glue_DateTime___sub___datetime, glue_DateTime_diff_delta, norm_operand, is_none.
  crush; repeat match goal with H : match ?x with Ok _ => _ | Raise _ => _ end = _ |- _ => destruct x; try congruence end.
Qed.

Theorem glue_dt_rsub self other :
  glue_DateTime___rsub__ self other = bind (norm_operand self other) (fun o => glue_Interval_new_delta self o false).
Proof.
  unfold glue_DateTime___rsub__, glue_DateTime_diff_delta, norm_operand, is_none.
  crush; repeat match goal with H : match ?x with Ok _ => _ | Raise _ => _ end = _ |- _ => destruct x; try congruence end.
Qed.

Theorem glue_date_diff self dt abs :
  glue_Date_diff_delta self dt abs = bind (o_pdate_new (o_year dt) (o_month dt) (o_day dt)) (fun d => glue_Interval_new_delta self d abs).
Proof. unfold glue_Date_diff_delta.
  crush; repeat match goal with H : match ?x with Ok _ => _ | Raise _ => _ end = _ |- _ => destruct x; try congruence end.
Qed.

Theorem glue_date_sub_date self other :
  glue_Date___sub___date self other =
  bind (o_pdate_new (o_year other) (o_month other) (o_day other)) (fun d =>
  bind (o_pdate_new (o_year self) (o_month self) (o_day self)) (fun s => glue_Interval_new_delta d s false)).
Proof.
  unfold glue_Date___sub___date. destruct (o_pdate_new (o_year other) (o_month other) (o_day other)) as [d|x]; cbn [bind]; [|reflexivity].
  cbv zeta. rewrite glue_date_diff. destruct (o_pdate_new (o_year self) (o_month self) (o_day self)) as [s|x]; cbn [bind]; [|reflexivity].
  destruct (glue_Interval_new_delta d s false); reflexivity.
Qed.

(* pendulum.naive(fields of a native naive operand): a pendulum DateTime with the same wall value and the DEFAULT fold = 1
   (Model/IntervalLen.v normalise_operand: `mkep true false 0 0 false _ W true`) *)
Theorem glue_naive_operand o : wall_in_range (o_wall o) = true ->
  glue_pendulum_naive_7 (o_year o) (o_month o) (o_day o) (o_hour o) (o_minute o) (o_second o) (o_microsecond o) = Ok (mkgobj 3 (o_wall o) 1 None).
Proof.
  intros R. unfold glue_pendulum_naive_7, glue_pendulum_naive, o_pdt_new, o_year, o_month, o_day, o_hour, o_minute, o_second, o_microsecond.
  rewrite (nat_new_fields (o_gdt o) None 1 R (or_intror eq_refl)). reflexivity.
Qed.
