(* Proofs/DropInMethodsFacts.v — C11: the hand models of the overridden standard accessors ARE the code: Gen/DropInMethods.v (translated from /repo's
   datetime.py / mixins/default.py on every run) equals pd_date / pd_time / pd_timetz / pd_str / pd_for_json / pd_format_empty / pd_fromordinal of
   Model/DropIn.v for every value; Time.__sub__ (translated for C20: Gen/TimeMethods.v) is the number pd_time_sub computes.  No axioms. *)
From Coq Require Import ZArith List Bool Lia.
From PV Require Import Lib.PyBase Spec.Cal Spec.Zone Model.DropIn Model.DropInPrims Gen.DropInMethods.
From PV Require Import Gen.Constants Model.TimeBase Gen.TimeArith Model.TimeOfDay Gen.TimeMethods.
Open Scope Z_scope.

Theorem gen_date_eq : forall x, gen_DateTime_date x = pd_date x.
Proof.
  intros x. unfold gen_DateTime_date, pd_date, dv_year, dv_month, dv_day. destruct (date_fields_of (v_wall x)) as [[y m] d]. reflexivity.
Qed.

Theorem gen_time_eq : forall x, gen_DateTime_time x = pd_time x.
Proof.
  intros x. unfold gen_DateTime_time, pd_time, dv_hour, dv_minute, dv_second, dv_microsecond.
  destruct (time_fields_of (v_wall x)) as [[[h m] s] u]. reflexivity.
Qed.

Theorem gen_timetz_eq : forall x, gen_DateTime_timetz x = pd_timetz x.
Proof.
  intros x. unfold gen_DateTime_timetz, pd_timetz, dv_hour, dv_minute, dv_second, dv_microsecond.
  destruct (time_fields_of (v_wall x)) as [[[h m] s] u]. reflexivity.
Qed.

Theorem gen_strings_eq : forall x, gen_DateTime_str x = pd_str x /\ gen_for_json x = pd_for_json x /\ gen_format_empty x = pd_format_empty x.
Proof. intros x. repeat split. Qed.

Theorem gen_fromordinal_eq : forall n, gen_DateTime_fromordinal n = pd_fromordinal n.
Proof.
  intros n. unfold gen_DateTime_fromordinal, native_fromordinal, pd_fromordinal.
  destruct ((1 <=? n) && (n <=? 3652059)); reflexivity.
Qed.

(* Time.__sub__(other time): the native value of the Duration it returns is what pd_time_sub says (self's microsecond of the day minus other's) *)
Theorem time_sub_is_pd_time_sub : forall t o,
  gen_Time___sub___time t o
  = snd (pd_time_sub (t_hour t) (t_minute t) (t_second t) (t_microsecond t) (t_hour o) (t_minute o) (t_second o) (t_microsecond o)).
Proof. intros [h1 m1 s1 u1] [h2 m2 s2 u2]. reflexivity. Qed.

Print Assumptions gen_date_eq.
Print Assumptions gen_time_eq.
Print Assumptions gen_timetz_eq.
Print Assumptions gen_strings_eq.
Print Assumptions gen_fromordinal_eq.
Print Assumptions time_sub_is_pd_time_sub.
