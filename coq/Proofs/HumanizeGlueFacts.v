(* Proofs/HumanizeGlueFacts.v — the hand-written locale session machine Model/LocaleSession.v (C18) EQUALS the machine translation of pendulum's own
   code (Gen/HumanizeGlue.v: locales/locale.py Locale.normalize_locale / Locale.load, helpers.py locale / set_locale / get_locale / format_diff,
   translated from /repo on every run with pendulum._LOCALE and Locale._cache as explicit state).
   cache_ok c: every entry of the cache is what a fresh load of its key would build.  It holds of the empty cache and every translated function
   preserves it, so Locale._cache is a TRANSPARENT memo: a theorem here, not an assumption. *)
From Coq Require Import ZArith List Bool String Lia.
From PV Require Import Lib.PyBase Model.LocaleBase Gen.Locales Model.DiffFormat Model.LocaleSession Model.HumanizeObj Gen.HumanizeGlue.
Import ListNotations.
Open Scope Z_scope.

Lemma pstr_eqb_refl a : pstr_eqb a a = true.
Proof. induction a as [|x a IH]; [reflexivity|]. cbn. rewrite Z.eqb_refl, IH. reflexivity. Qed.
Lemma pstr_eqb_eq : forall a b, pstr_eqb a b = true -> a = b.
Proof.
  induction a as [|x a IH]; intros [|y b] H; try reflexivity; try discriminate.
  cbn in H. apply andb_true_iff in H. destruct H as [H1 H2]. apply Z.eqb_eq in H1. rewrite H1, (IH b H2). reflexivity.
Qed.

(* ---------- Locale.normalize_locale ---------- *)
Theorem glue_normalize_locale_spec s : glue_normalize_locale s = normalize_locale s.
Proof.
  unfold glue_normalize_locale, normalize_locale, re_match_locale. cbv zeta.
  destruct s as [|a [|b [|sp [|c [|d r]]]]]; try reflexivity.
  destruct (is_az a && is_az b && ((sp =? 45) || (sp =? 95)) && is_az c && is_az d); reflexivity.
Qed.

(* ---------- Locale.load: the cache is transparent ---------- *)
Definition cache_ok (c : gcache) : Prop :=
  forall k L, cache_get_opt c k = Some L -> find_locale k = Some (gl_data L) /\ gl_name L = k.
Lemma cache_ok_nil : cache_ok []. Proof. intros k L H. discriminate. Qed.

Theorem glue_load_spec c name : cache_ok c ->
  match glue_Locale_load c name with
  | Ok (L, c') => load name = Ok (gl_data L) /\ gl_name L = normalize_locale name /\ cache_ok c'
  | Raise e => load name = Raise e
  end.
Proof.
  intros K. unfold glue_Locale_load, load. cbv zeta. rewrite glue_normalize_locale_spec. set (n := normalize_locale name).
  unfold cache_has, cache_get. destruct (cache_get_opt c n) as [L|] eqn:G.
  - destruct (K n L G) as [F N]. rewrite F. split; [reflexivity|split; [exact N|exact K]].
  - unfold dir_exists, locale_module. destruct (find_locale n) as [D|] eqn:F; cbn [negb]; [|reflexivity].
    unfold cache_set. cbn [cache_get_opt]. rewrite pstr_eqb_refl. cbn [gl_data gl_name]. split; [reflexivity|split; [reflexivity|]].
    intros k L H. cbn [cache_get_opt] in H. destruct (pstr_eqb n k) eqn:E.
    + injection H as <-. apply pstr_eqb_eq in E. subst k. cbn [gl_data gl_name]. split; [exact F|reflexivity].
    + exact (K k L H).
Qed.

(* the loaded data does not depend on the contents of the cache *)
Corollary load_is_transparent c1 c2 name : cache_ok c1 -> cache_ok c2 ->
  match glue_Locale_load c1 name, glue_Locale_load c2 name with
  | Ok (L1, _), Ok (L2, _) => L1 = L2
  | Raise e1, Raise e2 => e1 = e2
  | _, _ => False
  end.
Proof.
  intros K1 K2. pose proof (glue_load_spec c1 name K1) as H1. pose proof (glue_load_spec c2 name K2) as H2.
  destruct (glue_Locale_load c1 name) as [[L1 c1']|e1], (glue_Locale_load c2 name) as [[L2 c2']|e2].
  - destruct H1 as (A1 & B1 & _), H2 as (A2 & B2 & _). destruct L1, L2. cbn in *. congruence.
  - destruct H1 as (A1 & _). congruence.
  - destruct H2 as (A2 & _). congruence.
  - congruence.
Qed.

Lemma find_locale_name n L : find_locale n = Some L -> pstr_of_string (l_name L) = n.
Proof. unfold find_locale. intros H. apply find_some in H. destruct H as [_ H]. exact (pstr_eqb_eq _ _ H). Qed.

(* ---------- the operations of a session: LocaleSession.step ---------- *)
Theorem glue_locale_step c st name : cache_ok c ->
  match glue_locale c name with
  | Ok (L, c') => step st (SLoad name) = (st, Ok (gl_name L)) /\ cache_ok c'
  | Raise e => step st (SLoad name) = (st, Raise e)
  end.
Proof.
  intros K. unfold glue_locale. pose proof (glue_load_spec c name K) as H. cbn [step].
  destruct (glue_Locale_load c name) as [[L c']|e].
  - destruct H as (A & B & C). rewrite A. cbn [bind]. split; [|exact C]. f_equal. f_equal.
    unfold load in A. destruct (find_locale (normalize_locale name)) as [D|] eqn:F; [|discriminate]. injection A as <-.
    rewrite (find_locale_name _ _ F), B. reflexivity.
  - rewrite H. reflexivity.
Qed.

Theorem glue_set_locale_step c st name : cache_ok c ->
  match glue_set_locale c name with
  | Ok (st', c') => step st (SSet name) = (st', Ok []) /\ cache_ok c'
  | Raise e => step st (SSet name) = (st, Raise e)
  end.
Proof.
  intros K. unfold glue_set_locale, glue_locale. pose proof (glue_load_spec c name K) as H. cbn [step].
  destruct (glue_Locale_load c name) as [[L c']|e]; cbv beta iota zeta.
  - destruct H as (A & _ & C). rewrite A. split; [reflexivity|exact C].
  - rewrite H. reflexivity.
Qed.

Theorem glue_get_locale_step st : step st SGet = (st, Ok (glue_get_locale st)).
Proof. reflexivity. Qed.

Theorem glue_format_diff_step c st loc d is_now absolute invert : cache_ok c ->
  match glue_format_diff c st (mkgdiff d invert) is_now absolute loc with
  | Ok (s, c') => step st (SFmt loc d is_now absolute invert) = (st, Ok s) /\ cache_ok c'
  | Raise e => step st (SFmt loc d is_now absolute invert) = (st, Raise e)
  end.
Proof.
  intros K. unfold glue_format_diff, g_fmt, glue_get_locale. cbv zeta. cbn [step gdf_comp gdf_invert].
  assert (E : match loc with None => st | Some w_ => w_ end = eff st loc) by (destruct loc; reflexivity). rewrite E.
  pose proof (glue_load_spec c (eff st loc) K) as H. destruct (glue_Locale_load c (eff st loc)) as [[L c']|e].
  - destruct H as (A & _ & C). rewrite A. cbn [bind]. destruct (format (gl_data L) d is_now absolute invert); [split; [reflexivity|exact C]|reflexivity].
  - rewrite H. reflexivity.
Qed.

(* ====================================================================================================================================
   Duration.in_words / Interval.in_words (the skeleton) and DateTime/Date.diff_for_humans (the wiring into format_diff)
   ==================================================================================================================================== *)
From PV Require Import Model.PdBase Model.DiffHumans.

(* the loop (left fold of the translated body, appending) = DiffFormat.words_parts (which conses in the same order) *)
Lemma Duration_loop_spec L : forall l parts,
  glue_Duration_in_words_loop L parts l = bind (words_parts (gl_data L) l) (fun rest => Ok (parts ++ rest)).
Proof.
  induction l as [|[u c] r IH]; intros parts; cbn [glue_Duration_in_words_loop words_parts bind]; [rewrite app_nil_r; reflexivity|].
  unfold glue_Duration_in_words_step. rewrite Z.gtb_ltb. destruct (0 <? Z.abs c); [|apply IH].
  unfold loc_translation, mk_ukey, loc_plural. cbn [fst snd].
  destruct (lget (gl_data L) _) as [o|e]; cbn [bind]; [|reflexivity].
  destruct (fmt_count o c) as [s|e]; cbn [bind]; [|reflexivity].
  rewrite IH. unfold lp_append. destruct (words_parts (gl_data L) r) as [rest|e]; cbn [bind]; [|reflexivity].
  rewrite <- app_assoc. reflexivity.
Qed.
Lemma Interval_loop_spec L : forall l parts,
  glue_Interval_in_words_loop L parts l = bind (words_parts (gl_data L) l) (fun rest => Ok (parts ++ rest)).
Proof.
  induction l as [|[u c] r IH]; intros parts; cbn [glue_Interval_in_words_loop words_parts bind]; [rewrite app_nil_r; reflexivity|].
  unfold glue_Interval_in_words_step. rewrite Z.gtb_ltb. destruct (0 <? Z.abs c); [|apply IH].
  unfold loc_translation, mk_ukey, loc_plural. cbn [fst snd].
  destruct (lget (gl_data L) _) as [o|e]; cbn [bind]; [|reflexivity].
  destruct (fmt_count o c) as [s|e]; cbn [bind]; [|reflexivity].
  rewrite IH. unfold lp_append. destruct (words_parts (gl_data L) r) as [rest|e]; cbn [bind]; [|reflexivity].
  rewrite <- app_assoc. reflexivity.
Qed.

(* what is left once the locale is loaded: the code's tail = DiffFormat.in_words on the loaded data *)
Ltac words_tail L d us :=
  unfold in_words; change (unit_counts d) with (glue_Duration_in_words_intervals (mkgwords d us));
  destruct (words_parts (gl_data L) _) as [parts|e]; cbn [bind]; [|reflexivity];
  cbn [app]; destruct parts as [|p ps]; cbn [lp_truth negb gw_us];
  [ rewrite Z.gtb_ltb; destruct (0 <? Z.abs us); unfold loc_translation, mk_ukey, loc_plural; cbn [fst snd];
    (destruct (lget (gl_data L) _) as [o|e]; cbn [bind]; [|reflexivity]); unfold fmt_count;
    (destruct (node_format o _) as [s|e]; [|reflexivity]); reflexivity
  | reflexivity ].

Lemma eff_match st loc : match loc with None => st | Some w_ => w_ end = eff st loc.
Proof. destruct loc; reflexivity. Qed.

Lemma Duration_in_words_loaded c st loc d us sep L c' : glue_Locale_load c (eff st loc) = Ok (L, c') ->
  glue_Duration_in_words c st (mkgwords d us) loc sep = match in_words (gl_data L) d us sep with Ok s => Ok (s, c') | Raise e => Raise e end.
Proof.
  intros H. unfold glue_Duration_in_words, glue_locale, glue_get_locale. cbv zeta. rewrite eff_match, H. cbv beta iota.
  rewrite Duration_loop_spec. unfold lp_nil. words_tail L d us.
Qed.

Theorem glue_Duration_in_words_step_thm c st loc d us sep : cache_ok c ->
  match glue_Duration_in_words c st (mkgwords d us) loc sep with
  | Ok (s, c') => step st (SWords loc d us sep) = (st, Ok s) /\ cache_ok c'
  | Raise e => step st (SWords loc d us sep) = (st, Raise e)
  end.
Proof.
  intros K. cbn [step]. pose proof (glue_load_spec c (eff st loc) K) as H.
  destruct (glue_Locale_load c (eff st loc)) as [[L c']|e] eqn:G.
  - rewrite (Duration_in_words_loaded _ _ _ _ _ _ _ _ G). destruct H as (A & _ & C). rewrite A. cbn [bind].
    destruct (in_words (gl_data L) d us sep); [split; [reflexivity|exact C]|reflexivity].
  - unfold glue_Duration_in_words, glue_locale, glue_get_locale. cbv zeta. rewrite eff_match, G, H. reflexivity.
Qed.

(* Interval.in_words loads `locale or pendulum.get_locale()`: the configured locale also for locale="" *)
Definition falsy_is_none (loc : option pstr) : option pstr := match loc with Some [] => None | x => x end.
Lemma opt_str_or_eff st loc : opt_str_or loc st = eff st (falsy_is_none loc).
Proof. destruct loc as [[|x r]|]; reflexivity. Qed.

Lemma Interval_in_words_loaded c st loc d us sep L c' : glue_Locale_load c (eff st (falsy_is_none loc)) = Ok (L, c') ->
  glue_Interval_in_words c st (mkgwords d us) loc sep = match in_words (gl_data L) d us sep with Ok s => Ok (s, c') | Raise e => Raise e end.
Proof.
  intros H. unfold glue_Interval_in_words, glue_get_locale. cbv zeta. rewrite opt_str_or_eff, H. cbv beta iota.
  rewrite Interval_loop_spec. unfold lp_nil. change (glue_Interval_in_words_intervals (mkgwords d us)) with (glue_Duration_in_words_intervals (mkgwords d us)).
  words_tail L d us.
Qed.

Theorem glue_Interval_in_words_step_thm c st loc d us sep : cache_ok c ->
  match glue_Interval_in_words c st (mkgwords d us) loc sep with
  | Ok (s, c') => step st (SWords (falsy_is_none loc) d us sep) = (st, Ok s) /\ cache_ok c'
  | Raise e => step st (SWords (falsy_is_none loc) d us sep) = (st, Raise e)
  end.
Proof.
  intros K. cbn [step]. pose proof (glue_load_spec c (eff st (falsy_is_none loc)) K) as H.
  destruct (glue_Locale_load c (eff st (falsy_is_none loc))) as [[L c']|e] eqn:G.
  - rewrite (Interval_in_words_loaded _ _ _ _ _ _ _ _ G). destruct H as (A & _ & C). rewrite A. cbn [bind].
    destruct (in_words (gl_data L) d us sep); [split; [reflexivity|exact C]|reflexivity].
  - unfold glue_Interval_in_words, glue_get_locale. cbv zeta. rewrite opt_str_or_eff, G, H. reflexivity.
Qed.

(* the two in_words are the same function of (state, receiver, separator) except for locale="" *)
Corollary Interval_in_words_is_Duration_in_words c st loc w sep : loc <> Some [] ->
  glue_Interval_in_words c st w loc sep = glue_Duration_in_words c st w loc sep.
Proof.
  intros N. destruct w as [d us]. assert (F : falsy_is_none loc = loc) by (destruct loc as [[|x r]|]; try reflexivity; congruence).
  destruct (glue_Locale_load c (eff st loc)) as [[L c']|e] eqn:G.
  - rewrite (Duration_in_words_loaded _ _ _ _ _ _ _ _ G). rewrite <- F in G. rewrite (Interval_in_words_loaded _ _ _ _ _ _ _ _ G). reflexivity.
  - unfold glue_Interval_in_words, glue_Duration_in_words, glue_locale, glue_get_locale. cbv zeta. rewrite opt_str_or_eff, eff_match, F, G. reflexivity.
Qed.

(* ---------- DateTime.diff_for_humans / Date.diff_for_humans ---------- *)
(* is_now = (other is None); the value compared with = other, else the clock reading; diff = self.diff(that value); then format_diff with
   exactly (diff, is_now, absolute, locale) *)
Definition dfh_other (clock : pdt) (other : option pdt) : pdt := match other with Some b => b | None => clock end.
Definition dfh_is_now (other : option pdt) : bool := match other with Some _ => false | None => true end.
Definition dfh_model (st : pstr) (clock : pdt) (rs : bool) (a : pdt) (other : option pdt) (absolute : bool) (loc : option pstr) : result pstr :=
  bind (diff_comps rs a (dfh_other clock other)) (fun ci => snd (step st (SFmt loc (fst ci) (dfh_is_now other) absolute (snd ci)))).

Theorem glue_DateTime_diff_for_humans_thm c st clock rs a other absolute loc : cache_ok c ->
  match glue_DateTime_diff_for_humans c st clock rs a other absolute loc with
  | Ok (s, c') => dfh_model st clock rs a other absolute loc = Ok s /\ cache_ok c'
  | Raise e => dfh_model st clock rs a other absolute loc = Raise e
  end.
Proof.
  intros K. unfold glue_DateTime_diff_for_humans, dfh_model, h_diff. cbv zeta.
  destruct other as [b|]; cbn [dfh_other dfh_is_now]; cbv beta iota;
  (destruct (diff_comps rs a _) as [[d inv]|e]; cbn [bind fst snd]; [|reflexivity]);
  match goal with |- context [glue_format_diff c st (mkgdiff d inv) ?n absolute loc] =>
    pose proof (glue_format_diff_step c st loc d n absolute inv K) as H; destruct (glue_format_diff c st (mkgdiff d inv) n absolute loc) as [[s c']|e] end;
  try (destruct H as [H C]; rewrite H; split; [reflexivity|exact C]); rewrite H; reflexivity.
Qed.

Theorem glue_Date_diff_for_humans_thm c st clock rs a other absolute loc : cache_ok c ->
  match glue_Date_diff_for_humans c st clock rs a other absolute loc with
  | Ok (s, c') => dfh_model st clock rs a other absolute loc = Ok s /\ cache_ok c'
  | Raise e => dfh_model st clock rs a other absolute loc = Raise e
  end.
Proof. exact (glue_DateTime_diff_for_humans_thm c st clock rs a other absolute loc). Qed.

(* with an explicit other and a locale that loads, this is Model/DiffHumans.v diff_for_humans *)
Corollary dfh_model_is_DiffHumans st clock rs a b absolute loc L : load (eff st loc) = Ok L ->
  dfh_model st clock rs a (Some b) absolute loc = diff_for_humans L rs a b absolute.
Proof.
  intros A. unfold dfh_model, diff_for_humans. cbn [dfh_other dfh_is_now step snd]. rewrite A. reflexivity.
Qed.

(* ---------- Locale.plural / ordinal / ordinalize ---------- *)
Theorem glue_Locale_plural_spec L n : glue_Locale_plural L n = lplural L n.
Proof. reflexivity. Qed.
Theorem glue_Locale_ordinal_spec L n : glue_Locale_ordinal L n = lordinal L n.
Proof. reflexivity. Qed.
Theorem glue_Locale_ordinalize_spec L n : glue_Locale_ordinalize L n = ordinalize L n.
Proof.
  unfold glue_Locale_ordinalize, ordinalize, ordinalize_with, loc_get_custom_ordinal, glue_Locale_ordinal, pcat.
  destruct (lget L _) as [o|e]; cbn [bind]; [|reflexivity].
  destruct (truthy o); cbn [negb]; [|reflexivity]. destruct (node_str o); reflexivity.
Qed.
